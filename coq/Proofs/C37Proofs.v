(* C37 -- proofs about Model/ArenaModel.v (ConcurrentObjectArena). *)
From Coq Require Import ZArith List Bool Lia.
From DV Require Import Base.Sched Model.ArenaModel.
Import ListNotations.
Local Open Scope Z_scope.
Ltac Zify.zify_post_hook ::= Z.div_mod_to_equations.

(* ------------------------------------------------------------------------------------------------ lists *)
Lemma upd_length {A} n (x : A) l : length (upd n x l) = length l.
Proof. revert n; induction l as [|y r IH]; intros [|n]; simpl; auto. Qed.

Lemma nth_error_upd_eq {A} n (x : A) l : (n < length l)%nat -> nth_error (upd n x l) n = Some x.
Proof. revert n; induction l as [|y r IH]; intros [|n] H; simpl in *; try lia; auto. apply IH; lia. Qed.

Lemma nth_error_upd_neq {A} n m (x : A) l : n <> m -> nth_error (upd n x l) m = nth_error l m.
Proof.
  revert n m; induction l as [|y r IH]; intros [|n] [|m] H; simpl; auto; try congruence.
  all: try (apply IH; congruence).
Qed.

Lemma nth_error_upd {A} n m (x : A) l :
  nth_error (upd n x l) m = if Nat.eqb n m then (if Nat.ltb n (length l) then Some x else None) else nth_error l m.
Proof.
  destruct (Nat.eqb n m) eqn:E.
  - apply Nat.eqb_eq in E; subst m. destruct (Nat.ltb n (length l)) eqn:L.
    + apply nth_error_upd_eq, Nat.ltb_lt, L.
    + apply Nat.ltb_ge in L. apply nth_error_None. rewrite upd_length; exact L.
  - apply Nat.eqb_neq in E. apply nth_error_upd_neq, E.
Qed.

Lemma nth_error_repeat {A} (x : A) n k : (k < n)%nat -> nth_error (repeat x n) k = Some x.
Proof. revert k; induction n; intros [|k] H; simpl; try lia; auto. apply IHn; lia. Qed.

(* ------------------------------------------------------------------------------------------------ indexing *)
Lemma shiftr_div lg i : 0 <= lg -> Z.shiftr i lg = i / 2 ^ lg.
Proof. intros; apply Z.shiftr_div_pow2; assumption. Qed.
Lemma land_mod lg i : 0 <= lg -> Z.land i (2 ^ lg - 1) = i mod 2 ^ lg.
Proof. intros. replace (2 ^ lg - 1) with (Z.ones lg) by (rewrite Z.ones_equiv; lia). apply Z.land_ones; assumption. Qed.

Lemma index_split_proof lg i : 0 <= lg -> 0 <= i ->
  let b := Z.shiftr i lg in let o := Z.land i (2 ^ lg - 1) in
  0 <= b /\ 0 <= o < 2 ^ lg /\ i = b * 2 ^ lg + o.
Proof.
  intros Hlg Hi; cbv zeta. rewrite shiftr_div, land_mod by assumption.
  assert (P : 0 < 2 ^ lg) by (apply Z.pow_pos_nonneg; lia).
  pose proof (Z.div_mod i (2 ^ lg)). pose proof (Z.mod_pos_bound i (2 ^ lg) P).
  assert (0 <= i / 2 ^ lg) by (apply Z.div_pos; lia). lia.
Qed.

Lemma index_join_proof lg b o : 0 <= lg -> 0 <= b -> 0 <= o < 2 ^ lg ->
  Z.shiftr (b * 2 ^ lg + o) lg = b /\ Z.land (b * 2 ^ lg + o) (2 ^ lg - 1) = o.
Proof.
  intros Hlg Hb Ho. rewrite shiftr_div, land_mod by assumption.
  assert (P : 0 < 2 ^ lg) by (apply Z.pow_pos_nonneg; lia).
  split.
  - rewrite Z.add_comm, Z.div_add by lia. rewrite Z.div_small by lia. lia.
  - rewrite Z.add_comm, Z.mod_add by lia. apply Z.mod_small; lia.
Qed.

(* two indices with the same (buffer, offset) are the same index *)
Lemma index_inj_proof lg i j : 0 <= lg -> 0 <= i -> 0 <= j ->
  Z.shiftr i lg = Z.shiftr j lg -> Z.land i (2 ^ lg - 1) = Z.land j (2 ^ lg - 1) -> i = j.
Proof.
  intros Hlg Hi Hj E1 E2.
  destruct (index_split_proof lg i Hlg Hi) as (_ & _ & Ei). destruct (index_split_proof lg j Hlg Hj) as (_ & _ & Ej).
  cbv zeta in *. rewrite Ei, Ej, E1, E2. reflexivity.
Qed.

Lemma ctor_rounds_up_proof m : 1 <= m ->
  let lg := ctor_lg m in 0 <= lg /\ m <= Z.shiftl 1 lg /\ (lg = 0 \/ 2 ^ (lg - 1) < m).
Proof.
  intros Hm; cbv zeta; unfold ctor_lg, log2i.
  pose proof (Z.log2_nonneg m) as L0. destruct (Z.log2_spec m ltac:(lia)) as [L1 L2].
  rewrite Z.shiftl_1_l.
  destruct (2 ^ Z.log2 m =? m) eqn:E.
  - apply Z.eqb_eq in E. rewrite Z.add_0_r, Z.shiftl_1_l. split; [lia|]. split; [lia|].
    destruct (Z.eq_dec (Z.log2 m) 0) as [Z|NZ]; [left; exact Z|right].
    rewrite <- E at 2. apply Z.pow_lt_mono_r; lia.
  - apply Z.eqb_neq in E. rewrite Z.shiftl_1_l. split; [lia|]. split.
    + replace (Z.log2 m + 1) with (Z.succ (Z.log2 m)) by lia. lia.
    + right. replace (Z.log2 m + 1 - 1) with (Z.log2 m) by lia. lia.
Qed.

(* ------------------------------------------------------------------------------------------------ arena shape *)
Record arena_ok (a : arena) : Prop := {
  ok_geom : 0 <= a_lg a /\ a_bsz a = 2 ^ a_lg a /\ a_mask a = 2 ^ a_lg a - 1;
  ok_bpos : 0 <= a_bpos a <= a_tsz a;
  ok_bufs : forall b, 0 <= b < a_bpos a -> exists bf, get_buf a b = Some bf /\ Z.of_nat (length (cells bf)) = a_bsz a;
  ok_uninit : forall b, a_bpos a <= b < a_tsz a -> nth_error (a_tbl a) (Z.to_nat b) = Some None }.

Lemma bsz_pos a : arena_ok a -> 0 < a_bsz a.
Proof. intros [(L & B & _) _ _ _]. rewrite B. apply Z.pow_pos_nonneg; lia. Qed.

Lemma get_buf_set_buf a b bf b' : 0 <= b -> 0 <= b' ->
  get_buf (set_buf a b bf) b' = if b =? b' then (if b <? a_tsz a then Some bf else None) else get_buf a b'.
Proof.
  intros Hb Hb'. unfold get_buf, set_buf, set_tbl, a_tsz; simpl. rewrite nth_error_upd.
  destruct (b =? b') eqn:E.
  - apply Z.eqb_eq in E; subst b'. rewrite Nat.eqb_refl.
    destruct (b <? Z.of_nat (length (a_tbl a))) eqn:L.
    + apply Z.ltb_lt in L. replace (Nat.ltb _ _) with true; [reflexivity|]. symmetry; apply Nat.ltb_lt. lia.
    + apply Z.ltb_ge in L. replace (Nat.ltb _ _) with false; [reflexivity|]. symmetry; apply Nat.ltb_ge. lia.
  - apply Z.eqb_neq in E. replace (Nat.eqb _ _) with false; [reflexivity|]. symmetry; apply Nat.eqb_neq. lia.
Qed.

Lemma set_buf_ok a b bf : arena_ok a -> 0 <= b < a_bpos a -> Z.of_nat (length (cells bf)) = a_bsz a -> arena_ok (set_buf a b bf).
Proof.
  intros [G P Bf U] Hb Hl.
  assert (T : a_tsz (set_buf a b bf) = a_tsz a) by (unfold a_tsz, set_buf, set_tbl; simpl; rewrite upd_length; reflexivity).
  constructor; simpl; try assumption.
  - rewrite T. exact P.
  - intros b' Hb'. rewrite get_buf_set_buf by lia. destruct (b =? b') eqn:E.
    + replace (b <? a_tsz a) with true by (symmetry; apply Z.ltb_lt; lia). eauto.
    + apply Bf. exact Hb'.
  - rewrite T. intros b' Hb'. unfold set_buf, set_tbl; simpl. rewrite nth_error_upd_neq by lia. apply U. exact Hb'.
Qed.

Lemma alloc_fields a id : let a' := alloc_buffer a id in
  a_lg a' = a_lg a /\ a_bsz a' = a_bsz a /\ a_mask a' = a_mask a /\ a_pos a' = a_pos a /\ a_cap a' = a_cap a /\ a_bpos a' = a_bpos a + 1.
Proof. cbv zeta; unfold alloc_buffer. destruct (a_bpos a <? a_tsz a); simpl; repeat split. Qed.

Lemma alloc_tbl a id : arena_ok a ->
  let a' := alloc_buffer a id in
  a_bpos a < a_tsz a' /\ a_tsz a <= a_tsz a' /\
  (forall k, (k < length (a_tbl a))%nat -> k <> Z.to_nat (a_bpos a) -> nth_error (a_tbl a') k = nth_error (a_tbl a) k) /\
  (forall k, (length (a_tbl a) <= k < length (a_tbl a'))%nat -> k <> Z.to_nat (a_bpos a) -> nth_error (a_tbl a') k = Some None) /\
  nth_error (a_tbl a') (Z.to_nat (a_bpos a)) = Some (Some (raw_buf a id)).
Proof.
  intros [G P Bf U]; cbv zeta. unfold alloc_buffer, a_tsz in *.
  destruct (a_bpos a <? Z.of_nat (length (a_tbl a))) eqn:L; simpl.
  - apply Z.ltb_lt in L. rewrite upd_length. split; [lia|]. split; [lia|]. split; [|split].
    + intros k Hk Hne. apply nth_error_upd_neq; congruence.
    + intros k Hk; lia.
    + apply nth_error_upd_eq; lia.
  - apply Z.ltb_ge in L.
    set (old := Z.of_nat (length (a_tbl a))) in *.
    set (nsz := if old =? 0 then 2 else old * 2).
    assert (Hn : old < nsz) by (unfold nsz; destruct (old =? 0) eqn:E; [apply Z.eqb_eq in E|apply Z.eqb_neq in E]; lia).
    rewrite upd_length, app_length, repeat_length.
    assert (Hb : a_bpos a = old) by lia.
    split; [lia|]. split; [lia|]. split; [|split].
    + intros k Hk Hne. rewrite nth_error_upd_neq by congruence. apply nth_error_app1; exact Hk.
    + intros k Hk Hne. rewrite nth_error_upd_neq by congruence. rewrite nth_error_app2 by lia.
      apply nth_error_repeat. lia.
    + apply nth_error_upd_eq. rewrite app_length, repeat_length. lia.
Qed.

Lemma get_buf_alloc_old a id b : arena_ok a -> 0 <= b < a_bpos a -> get_buf (alloc_buffer a id) b = get_buf a b.
Proof.
  intros OK Hb. destruct (alloc_tbl a id OK) as (_ & _ & Hold & _). pose proof (ok_bpos a OK) as P. unfold a_tsz in P.
  unfold get_buf. rewrite Hold; [reflexivity| lia | lia].
Qed.

Lemma get_buf_alloc_new a id : arena_ok a -> get_buf (alloc_buffer a id) (a_bpos a) = Some (raw_buf a id).
Proof. intros OK. destruct (alloc_tbl a id OK) as (_ & _ & _ & _ & Hn). unfold get_buf. rewrite Hn. reflexivity. Qed.

Lemma alloc_ok a id : arena_ok a -> arena_ok (alloc_buffer a id).
Proof.
  intros OK. destruct (alloc_tbl a id OK) as (T1 & T2 & Hold & Hnew & Hn).
  destruct (alloc_fields a id) as (F1 & F2 & F3 & F4 & F5 & F6).
  pose proof OK as [G P Bf U]. unfold a_tsz in *.
  constructor.
  - rewrite F1, F2, F3. exact G.
  - unfold a_tsz. rewrite F6. lia.
  - rewrite F6, F2. intros b Hb. destruct (Z.eq_dec b (a_bpos a)) as [->|Hne].
    + rewrite get_buf_alloc_new by exact OK. eexists; split; [reflexivity|]. simpl. rewrite repeat_length.
      pose proof (bsz_pos a OK). lia.
    + rewrite get_buf_alloc_old by (try exact OK; lia). apply Bf. lia.
  - rewrite F6. unfold a_tsz. intros b Hb.
    destruct (Nat.lt_ge_cases (Z.to_nat b) (length (a_tbl a))) as [Lt|Ge].
    + rewrite Hold by lia. apply U. unfold a_tsz. lia.
    + apply Hnew; lia.
Qed.

(* ------------------------------------------------------------------------------------------------ invariant A:
   memory safety of the table and the allocatedSize_/mutex protocol *)
Definition locked_pc (p : pc) : bool := match p with PLockedLoad | PLockedLoop | PStoreCap => true | _ => false end.

Definition thr_ok (a : arena) (th : thr) : Prop :=
  0 <= t_delta th /\ 0 <= t_old th /\
  match t_pc th with
  | PCas => t_old th + t_delta th < t_cur th /\ t_cur th <= a_cap a
  | PConstruct b bs =>
      t_old th + t_delta th <= a_pos a /\
      buf_index a (t_old th) <= b <= buf_index a (t_old th + t_delta th) /\
      bs = (if b =? buf_index a (t_old th) then buf_off a (t_old th) else 0)
  | PDone => t_old th + t_delta th <= a_pos a
  | _ => True
  end.

Definition lock_ok (a : arena) (th : thr) : Prop :=
  match t_pc th with
  | PLockedLoad => a_cap a = a_bpos a * a_bsz a
  | PLockedLoop => a_cap a = a_bpos a * a_bsz a /\ t_cur th = a_cap a
  | PStoreCap => t_cur th = a_cap a /\ a_cap a + a_bsz a = a_bpos a * a_bsz a
  | _ => False
  end.

Record InvA (s : cstate) : Prop := {
  ia_ok : arena_ok (c_ar s);
  ia_ub : c_ub s = false;
  ia_pos : 0 <= a_pos (c_ar s) < a_cap (c_ar s);
  ia_cap : a_cap (c_ar s) <= a_bpos (c_ar s) * a_bsz (c_ar s);
  ia_thr : forall t th, nth_error (c_thr s) t = Some th -> thr_ok (c_ar s) th;
  ia_mutex : match c_mutex s with
             | None => a_cap (c_ar s) = a_bpos (c_ar s) * a_bsz (c_ar s)
             | Some t => exists th, nth_error (c_thr s) t = Some th /\ lock_ok (c_ar s) th
             end;
  ia_locked : forall t th, nth_error (c_thr s) t = Some th -> locked_pc (t_pc th) = true -> c_mutex s = Some t }.

Lemma lookup_upd_same {A} (l : list A) t x y : nth_error l t = Some y -> nth_error (upd t x l) t = Some x.
Proof. intros H. apply nth_error_upd_eq. apply nth_error_Some. congruence. Qed.

Lemma lookup_upd_inv {A} (l : list A) t x t' y :
  nth_error (upd t x l) t' = Some y -> (t' = t /\ y = x) \/ (t' <> t /\ nth_error l t' = Some y).
Proof.
  rewrite nth_error_upd. destruct (Nat.eqb t t') eqn:E.
  - apply Nat.eqb_eq in E. destruct (Nat.ltb t (length l)); [|discriminate]. intros H; injection H as <-. left; auto.
  - apply Nat.eqb_neq in E. intros H. right; auto.
Qed.

Lemma thr_ok_mono a a' th :
  a_lg a' = a_lg a -> a_mask a' = a_mask a -> a_cap a <= a_cap a' -> a_pos a <= a_pos a' -> thr_ok a th -> thr_ok a' th.
Proof.
  intros E1 E2 Hc Hp (Hd & Ho & H). unfold thr_ok, buf_index, buf_off in *. rewrite E1, E2.
  split; [exact Hd|]. split; [exact Ho|].
  destruct (t_pc th); try exact I; try lia.
Qed.

Lemma lock_ok_same a a' th : a_cap a' = a_cap a -> a_bpos a' = a_bpos a -> a_bsz a' = a_bsz a -> lock_ok a th -> lock_ok a' th.
Proof. intros E1 E2 E3. unfold lock_ok. rewrite E1, E2, E3. auto. Qed.

Lemma lock_ok_locked a th : lock_ok a th -> locked_pc (t_pc th) = true.
Proof. unfold lock_ok. destruct (t_pc th); simpl; auto; intros []. Qed.

Lemma InvA_update s t th a' n' m' th' lg' :
  InvA s -> nth_error (c_thr s) t = Some th ->
  arena_ok a' ->
  a_lg a' = a_lg (c_ar s) -> a_mask a' = a_mask (c_ar s) ->
  a_pos (c_ar s) <= a_pos a' -> a_cap (c_ar s) <= a_cap a' ->
  0 <= a_pos a' < a_cap a' -> a_cap a' <= a_bpos a' * a_bsz a' ->
  thr_ok a' th' ->
  match m' with
  | None => a_cap a' = a_bpos a' * a_bsz a'
  | Some t0 => if Nat.eqb t0 t then lock_ok a' th'
               else c_mutex s = Some t0 /\ a_cap a' = a_cap (c_ar s) /\ a_bpos a' = a_bpos (c_ar s) /\ a_bsz a' = a_bsz (c_ar s)
  end ->
  (locked_pc (t_pc th') = true -> m' = Some t) ->
  (forall t0, t0 <> t -> c_mutex s = Some t0 -> m' = Some t0) ->
  InvA (CS a' n' m' (upd t th' (c_thr s)) lg' false).
Proof.
  intros I Ht OK E1 E2 Hp Hc Hpos Hcap Hth' Hm Hl Ho.
  constructor; simpl; try assumption; try reflexivity.
  - intros t1 th1 H1. apply lookup_upd_inv in H1. destruct H1 as [[-> ->]|[Hne H1]]; [exact Hth'|].
    eapply thr_ok_mono; try eassumption. eapply ia_thr; eassumption.
  - destruct m' as [t0|]; [|exact Hm].
    destruct (Nat.eqb t0 t) eqn:E.
    + apply Nat.eqb_eq in E; subst t0. exists th'. split; [eapply lookup_upd_same; eassumption|exact Hm].
    + apply Nat.eqb_neq in E. destruct Hm as (M & F1 & F2 & F3).
      pose proof (ia_mutex s I) as IM. rewrite M in IM. destruct IM as (th0 & L0 & K0).
      exists th0. split; [rewrite nth_error_upd_neq by congruence; exact L0|].
      eapply lock_ok_same; eassumption.
  - intros t1 th1 H1 L1. apply lookup_upd_inv in H1. destruct H1 as [[-> ->]|[Hne H1]]; [apply Hl, L1|].
    apply Ho; [exact Hne|]. eapply ia_locked; eassumption.
Qed.

Lemma owner_locked s t th : InvA s -> nth_error (c_thr s) t = Some th -> c_mutex s = Some t -> lock_ok (c_ar s) th.
Proof. intros I Ht M. pose proof (ia_mutex s I) as IM. rewrite M in IM. destruct IM as (th0 & L0 & K0). congruence. Qed.

(* pattern 1: the mutex is untouched and thread t is not (and does not become) its owner *)
Lemma mutex_P1 s t th a' th' :
  InvA s -> nth_error (c_thr s) t = Some th -> locked_pc (t_pc th) = false ->
  a_cap a' = a_cap (c_ar s) -> a_bpos a' = a_bpos (c_ar s) -> a_bsz a' = a_bsz (c_ar s) ->
  match c_mutex s with
  | None => a_cap a' = a_bpos a' * a_bsz a'
  | Some t0 => if Nat.eqb t0 t then lock_ok a' th'
               else c_mutex s = Some t0 /\ a_cap a' = a_cap (c_ar s) /\ a_bpos a' = a_bpos (c_ar s) /\ a_bsz a' = a_bsz (c_ar s)
  end.
Proof.
  intros I Ht L E1 E2 E3. pose proof (ia_mutex s I) as IM.
  destruct (c_mutex s) as [t0|] eqn:M.
  - destruct (Nat.eqb t0 t) eqn:E.
    + apply Nat.eqb_eq in E; subst t0. pose proof (owner_locked s t th I Ht M) as K. apply lock_ok_locked in K. congruence.
    + auto.
  - rewrite E1, E2, E3. exact IM.
Qed.

Lemma shiftr_mono lg x y : 0 <= lg -> x <= y -> Z.shiftr x lg <= Z.shiftr y lg.
Proof. intros. rewrite !shiftr_div by assumption. apply Z.div_le_mono; [apply Z.pow_pos_nonneg; lia|assumption]. Qed.

Lemma fill_from_length i lo hi l : length (fill_from i lo hi l) = length l.
Proof. revert i; induction l; intros; simpl; auto. Qed.

(* a thread inside constructObjects only touches buffers that exist *)
Lemma construct_buf_exists s th b bs :
  InvA s -> thr_ok (c_ar s) th -> t_pc th = PConstruct b bs -> 0 <= b < a_bpos (c_ar s).
Proof.
  intros I (Hd & Ho & H) E. rewrite E in H. destruct H as (H1 & (H2 & H3) & _).
  pose proof (ia_ok s I) as OK. destruct (ok_geom _ OK) as (G1 & G2 & G3).
  pose proof (ia_pos s I). pose proof (ia_cap s I). pose proof (bsz_pos _ OK) as BP.
  unfold buf_index in *. rewrite shiftr_div in * by assumption. rewrite <- G2 in *.
  assert (0 <= t_old th / a_bsz (c_ar s)) by (apply Z.div_pos; lia).
  assert ((t_old th + t_delta th) / a_bsz (c_ar s) < a_bpos (c_ar s)).
  { apply Z.div_lt_upper_bound; [exact BP|]. lia. }
  lia.
Qed.

Ltac upd_goals thr_tac mutex_tac locked_tac other_tac ok_tac :=
  try eassumption; try reflexivity; try lia;
  lazymatch goal with
  | |- thr_ok _ _ => thr_tac
  | |- arena_ok _ => ok_tac
  | |- locked_pc _ = true -> _ => locked_tac
  | |- _ = true -> _ => locked_tac
  | |- forall t0, t0 <> _ -> _ -> _ => other_tac
  | |- match _ with Some _ => _ | None => _ end => mutex_tac
  | |- if _ then _ else _ => mutex_tac
  | |- _ => idtac
  end.

Lemma InvA_step s t ch s' ch' site : InvA s -> step s t ch = Some (s', ch', site) -> InvA s'.
Proof.
  intros I H. unfold step in H. rewrite (ia_ub s I) in H.
  destruct (nth_error (c_thr s) t) as [th|] eqn:Ht; [|discriminate].
  pose proof (ia_thr s I t th Ht) as Hok. pose proof Hok as (Hd & Hold & Hpc).
  pose proof (ia_ok s I) as OK. pose proof (ia_pos s I) as Hpos. pose proof (ia_cap s I) as Hcap.
  destruct (ok_geom _ OK) as (G1 & G2 & G3). pose proof (bsz_pos _ OK) as BP.
  assert (NL : forall a' th', locked_pc (t_pc th) = false ->
           a_cap a' = a_cap (c_ar s) -> a_bpos a' = a_bpos (c_ar s) -> a_bsz a' = a_bsz (c_ar s) ->
           match c_mutex s with
           | None => a_cap a' = a_bpos a' * a_bsz a'
           | Some t0 => if Nat.eqb t0 t then lock_ok a' th'
                        else c_mutex s = Some t0 /\ a_cap a' = a_cap (c_ar s) /\ a_bpos a' = a_bpos (c_ar s) /\ a_bsz a' = a_bsz (c_ar s)
           end).
  { intros a' th' L E1 E2 E3. eapply mutex_P1; eassumption. }
  destruct (t_pc th) eqn:Epc.
  - (* PLoadPos *)
    injection H as <- _ _. unfold set_thr. try rewrite (ia_ub s I).
    eapply InvA_update;
      upd_goals ltac:(unfold thr_ok; simpl; lia) ltac:(apply NL; reflexivity) ltac:(simpl; discriminate) ltac:(auto) idtac.
  - (* PLoadCap *)
    injection H as <- _ _. unfold set_thr. try rewrite (ia_ub s I).
    eapply InvA_update;
      upd_goals ltac:(unfold thr_ok; simpl; destruct (t_old th + t_delta th >=? a_cap (c_ar s)) eqn:E; simpl; lia)
                ltac:(apply NL; reflexivity)
                ltac:(simpl; destruct (t_old th + t_delta th >=? a_cap (c_ar s)); simpl; discriminate) ltac:(auto) idtac.
  - (* PLock *)
    destruct (c_mutex s) eqn:M; [discriminate|]. injection H as <- _ _. unfold set_thr, set_mutex; simpl. try rewrite (ia_ub s I).
    pose proof (ia_mutex s I) as IM. rewrite M in IM.
    eapply InvA_update;
      upd_goals ltac:(unfold thr_ok; simpl; lia) ltac:(rewrite Nat.eqb_refl; unfold lock_ok; simpl; exact IM) ltac:(auto)
                ltac:(intros t0 _ C; congruence) idtac.
  - (* PLockedLoad *)
    injection H as <- _ _. unfold set_thr. try rewrite (ia_ub s I).
    assert (M : c_mutex s = Some t) by (eapply ia_locked; [exact I|exact Ht|rewrite Epc; reflexivity]).
    pose proof (owner_locked s t th I Ht M) as K. unfold lock_ok in K. rewrite Epc in K.
    eapply InvA_update;
      upd_goals ltac:(unfold thr_ok; simpl; lia) ltac:(rewrite M, Nat.eqb_refl; unfold lock_ok; simpl; auto) ltac:(intros _; exact M)
                ltac:(auto) idtac.
  - (* PLockedLoop *)
    assert (M : c_mutex s = Some t) by (eapply ia_locked; [exact I|exact Ht|rewrite Epc; reflexivity]).
    pose proof (owner_locked s t th I Ht M) as K. unfold lock_ok in K. rewrite Epc in K. destruct K as (K1 & K2).
    destruct (t_old th + t_delta th >=? t_cur th) eqn:E.
    + injection H as <- _ _. unfold set_thr; simpl. try rewrite (ia_ub s I).
      destruct (alloc_fields (c_ar s) (c_next s)) as (F1 & F2 & F3 & F4 & F5 & F6).
      eapply InvA_update;
        upd_goals ltac:(unfold thr_ok; simpl; lia)
                  ltac:(rewrite M, Nat.eqb_refl; unfold lock_ok; simpl; rewrite F5, F6, F2; split; [exact K2|nia])
                  ltac:(intros _; exact M) ltac:(auto) ltac:(apply alloc_ok; exact OK).
    + injection H as <- _ _. unfold set_thr, set_mutex; simpl. try rewrite (ia_ub s I).
      eapply InvA_update;
        upd_goals ltac:(unfold thr_ok; simpl; lia) ltac:(idtac) ltac:(simpl; discriminate) ltac:(intros t0 Hne C; congruence) idtac.
  - (* PStoreCap *)
    assert (M : c_mutex s = Some t) by (eapply ia_locked; [exact I|exact Ht|rewrite Epc; reflexivity]).
    pose proof (owner_locked s t th I Ht M) as K. unfold lock_ok in K. rewrite Epc in K. destruct K as (K1 & K2).
    injection H as <- _ _. unfold set_thr, set_ar; simpl. try rewrite (ia_ub s I).
    eapply InvA_update; simpl;
      upd_goals ltac:(unfold thr_ok; simpl; lia) ltac:(rewrite M, Nat.eqb_refl; unfold lock_ok; simpl; lia) ltac:(intros _; exact M)
                ltac:(auto) ltac:(destruct OK as [A1 A2 A3 A4]; constructor; simpl; assumption).
  - (* PCas *)
    destruct Hpc as (C1 & C2).
    destruct (match ch with [] => (false, []) | c :: r => (Z.odd c, r) end) as [spur chr].
    destruct ((a_pos (c_ar s) =? t_old th) && negb spur) eqn:E.
    + apply andb_prop in E. destruct E as [E _]. apply Z.eqb_eq in E.
      injection H as <- _ _. unfold set_thr; simpl. try rewrite (ia_ub s I).
      eapply InvA_update; simpl;
        upd_goals ltac:(unfold thr_ok, buf_index, buf_off; simpl; rewrite Z.eqb_refl;
                        pose proof (shiftr_mono (a_lg (c_ar s)) (t_old th) (t_old th + t_delta th) G1 ltac:(lia)); repeat split; lia)
                  ltac:(apply (NL (set_pos (c_ar s) (t_old th + t_delta th))); reflexivity)
                  ltac:(simpl; discriminate) ltac:(auto)
                  ltac:(destruct OK as [A1 A2 A3 A4]; constructor; simpl; assumption).
    + injection H as <- _ _. unfold set_thr; simpl. try rewrite (ia_ub s I).
      eapply InvA_update;
        upd_goals ltac:(unfold thr_ok; simpl; lia) ltac:(apply NL; reflexivity) ltac:(simpl; discriminate) ltac:(auto) idtac.
  - (* PConstruct *)
    pose proof (construct_buf_exists s th b bs I Hok Epc) as Hb.
    destruct (ok_bufs _ OK b Hb) as (bf & Gb & Lb). rewrite Gb in H.
    injection H as <- _ _. unfold set_thr, set_ar; simpl. try rewrite (ia_ub s I).
    destruct Hpc as (P1 & (P2 & P3) & P4).
    set (bufEnd := if b =? buf_index (c_ar s) (t_old th + t_delta th) then buf_off (c_ar s) (t_old th + t_delta th) else a_bsz (c_ar s)).
    assert (OK' : arena_ok (set_buf (c_ar s) b (fill bf bs bufEnd))).
    { apply set_buf_ok; [exact OK|exact Hb|]. simpl. rewrite fill_from_length. exact Lb. }
    eapply InvA_update; simpl;
      upd_goals ltac:(unfold thr_ok; simpl; destruct (b =? buf_index (c_ar s) (t_old th + t_delta th)) eqn:E; simpl;
                      [lia| apply Z.eqb_neq in E; unfold buf_index in *; simpl;
                            replace (b + 1 =? Z.shiftr (t_old th) (a_lg (c_ar s))) with false by (symmetry; apply Z.eqb_neq; lia);
                            repeat split; lia])
                ltac:(apply (NL (set_buf (c_ar s) b (fill bf bs bufEnd))); reflexivity)
                ltac:(destruct (b =? buf_index (c_ar s) (t_old th + t_delta th)); simpl; discriminate) ltac:(auto) idtac.
  - (* PDone *) discriminate.
Qed.

(* ------------------------------------------------------------------------------------------------ invariant B:
   the ranges claimed by successful CASes tile [p0, pos) *)
Fixpoint chain (p : Z) (l : list (nat * (Z * Z))) : option Z :=
  match l with
  | [] => Some p
  | (_, (lo, hi)) :: r => if (lo =? p) && (lo <=? hi) then chain hi r else None
  end.

Record InvB (p0 : Z) (s : cstate) : Prop := {
  ib_chain : chain p0 (c_log s) = Some (a_pos (c_ar s));
  ib_claimed : forall t th, nth_error (c_thr s) t = Some th -> claimed th = true -> In (t, range_of th) (c_log s);
  ib_log : forall t r, In (t, r) (c_log s) -> exists th, nth_error (c_thr s) t = Some th /\ claimed th = true /\ range_of th = r;
  ib_nodup : NoDup (map fst (c_log s)) }.

Lemma chain_app p l t lo hi q : chain p l = Some q -> chain p (l ++ [(t, (lo, hi))]) = if (lo =? q) && (lo <=? hi) then Some hi else None.
Proof.
  revert p; induction l as [|[t1 [lo1 hi1]] r IH]; intros p H; simpl in *.
  - injection H as ->. reflexivity.
  - destruct ((lo1 =? p) && (lo1 <=? hi1)); [apply IH; exact H|discriminate].
Qed.

Lemma NoDup_app_one {A} (l : list A) x : NoDup l -> ~ In x l -> NoDup (l ++ [x]).
Proof.
  induction l as [|y r IH]; intros N H; simpl.
  - constructor; [intros []|constructor].
  - inversion N; subst. constructor.
    + intros Hin. apply in_app_or in Hin. destruct Hin as [Hin|[->|[]]]; [contradiction|]. apply H. left; reflexivity.
    + apply IH; [assumption|]. intros Hin. apply H. right; exact Hin.
Qed.

Lemma InvB_update p0 s t th th' a' n' m' u' :
  InvB p0 s -> nth_error (c_thr s) t = Some th -> a_pos a' = a_pos (c_ar s) ->
  claimed th' = claimed th -> (claimed th = true -> range_of th' = range_of th) ->
  InvB p0 (CS a' n' m' (upd t th' (c_thr s)) (c_log s) u').
Proof.
  intros [B1 B2 B3 B4] Ht Ep Ec Er. constructor; simpl.
  - rewrite Ep. exact B1.
  - intros t1 th1 H1 C1. apply lookup_upd_inv in H1. destruct H1 as [[-> ->]|[Hne H1]].
    + rewrite Ec in C1. rewrite (Er C1). apply B2; assumption.
    + apply B2; assumption.
  - intros t1 r H1. destruct (B3 t1 r H1) as (th1 & L1 & C1 & R1).
    destruct (Nat.eq_dec t1 t) as [->|Hne].
    + exists th'. assert (th1 = th) by congruence. subst th1.
      split; [eapply lookup_upd_same; eassumption|]. split; [congruence|]. rewrite (Er C1). exact R1.
    + exists th1. split; [rewrite nth_error_upd_neq by congruence; exact L1|]. auto.
  - exact B4.
Qed.

Lemma InvB_step p0 s t ch s' ch' site : InvA s -> InvB p0 s -> step s t ch = Some (s', ch', site) -> InvB p0 s'.
Proof.
  intros I B H. unfold step in H. rewrite (ia_ub s I) in H.
  destruct (nth_error (c_thr s) t) as [th|] eqn:Ht; [|discriminate].
  pose proof (ia_thr s I t th Ht) as Hok. pose proof Hok as (Hd & Hold & Hpc).
  assert (U : forall a' n' m' u' th', a_pos a' = a_pos (c_ar s) -> claimed th' = claimed th ->
              (claimed th = true -> range_of th' = range_of th) -> InvB p0 (CS a' n' m' (upd t th' (c_thr s)) (c_log s) u')).
  { intros. eapply InvB_update; eassumption. }
  destruct (t_pc th) eqn:Epc.
  - injection H as <- _ _. apply U; unfold claimed; rewrite ?Epc; simpl; auto; discriminate.
  - injection H as <- _ _. apply U; unfold claimed; rewrite ?Epc; simpl; auto; try discriminate.
    destruct (t_old th + t_delta th >=? a_cap (c_ar s)); reflexivity.
  - destruct (c_mutex s); [discriminate|]. injection H as <- _ _. apply U; unfold claimed; rewrite ?Epc; simpl; auto; discriminate.
  - injection H as <- _ _. apply U; unfold claimed; rewrite ?Epc; simpl; auto; discriminate.
  - destruct (t_old th + t_delta th >=? t_cur th).
    + injection H as <- _ _. apply U; unfold claimed; rewrite ?Epc; simpl; auto; try discriminate. apply alloc_fields.
    + injection H as <- _ _. apply U; unfold claimed; rewrite ?Epc; simpl; auto; discriminate.
  - injection H as <- _ _. apply U; unfold claimed; rewrite ?Epc; simpl; auto; discriminate.
  - (* PCas *)
    destruct (match ch with [] => (false, []) | c :: r => (Z.odd c, r) end) as [spur chr].
    destruct ((a_pos (c_ar s) =? t_old th) && negb spur) eqn:E.
    + apply andb_prop in E. destruct E as [E _]. apply Z.eqb_eq in E.
      injection H as <- _ _. unfold set_thr; simpl.
      destruct B as [B1 B2 B3 B4].
      assert (NotIn : ~ In t (map fst (c_log s))).
      { intros Hin. apply in_map_iff in Hin. destruct Hin as ([t1 r1] & E1 & Hin). simpl in E1; subst t1.
        destruct (B3 t r1 Hin) as (th1 & L1 & C1 & _). assert (th1 = th) by congruence. subst th1.
        unfold claimed in C1. rewrite Epc in C1. discriminate. }
      constructor; simpl.
      * rewrite (chain_app _ _ _ _ _ _ B1). rewrite E, Z.eqb_refl. simpl.
        replace (t_old th <=? t_old th + t_delta th) with true by (symmetry; apply Z.leb_le; lia). reflexivity.
      * intros t1 th1 H1 C1. apply in_or_app. apply lookup_upd_inv in H1. destruct H1 as [[-> ->]|[Hne H1]].
        -- right. left. reflexivity.
        -- left. apply B2; assumption.
      * intros t1 r H1. apply in_app_or in H1. destruct H1 as [H1|[H1|[]]].
        -- destruct (B3 t1 r H1) as (th1 & L1 & C1 & R1).
           assert (Hne : t1 <> t). { intros ->. apply NotIn. apply in_map_iff. exists (t, r). auto. }
           exists th1. split; [rewrite nth_error_upd_neq by congruence; exact L1|]. auto.
        -- injection H1 as <- <-. eexists. split; [eapply lookup_upd_same; eassumption|]. split; reflexivity.
      * rewrite map_app; simpl. apply NoDup_app_one; assumption.
    + injection H as <- _ _. apply U; unfold claimed; rewrite ?Epc; simpl; auto; discriminate.
  - (* PConstruct *)
    destruct (get_buf (c_ar s) b) as [bf|].
    + injection H as <- _ _. apply U; unfold claimed; rewrite ?Epc; simpl; auto.
      destruct (b =? buf_index (c_ar s) (t_old th + t_delta th)); reflexivity.
    + injection H as <- _ _. destruct B as [B1 B2 B3 B4]. constructor; simpl; assumption.
  - discriminate.
Qed.

(* ------------------------------------------------------------------------------------------------ invariant C:
   cells: ranges are default-constructed as constructObjects proceeds; nobody else's cells are touched *)
Lemma nth_fill_from l : forall i lo hi k,
  nth_error (fill_from i lo hi l) k =
  match nth_error l k with
  | Some c => Some (if (lo <=? i + Z.of_nat k) && (i + Z.of_nat k <? hi) then Some dflt else c)
  | None => None
  end.
Proof.
  induction l as [|c r IH]; intros i lo hi [|k]; simpl; try reflexivity.
  - rewrite Z.add_0_r. reflexivity.
  - rewrite IH. replace (i + 1 + Z.of_nat k) with (i + Z.pos (Pos.of_succ_nat k)) by lia. reflexivity.
Qed.

Lemma get_cell_frame a a' i :
  a_lg a' = a_lg a -> a_mask a' = a_mask a -> get_buf a' (buf_index a i) = get_buf a (buf_index a i) -> get_cell a' i = get_cell a i.
Proof. intros E1 E2 E3. unfold get_cell, buf_index, buf_off in *. rewrite E1, E2, E3. reflexivity. Qed.

Lemma get_of_cell a a' i : get_cell a' i = get_cell a i -> get a' i = get a i.
Proof. unfold get. intros ->. reflexivity. Qed.

Definition constructed_upto (a : arena) (th : thr) : Prop :=
  match t_pc th with
  | PConstruct b _ => forall i, t_old th <= i < t_old th + t_delta th -> buf_index a i < b -> get a i = Some dflt
  | PDone => forall i, t_old th <= i < t_old th + t_delta th -> get a i = Some dflt
  | _ => True
  end.

Record InvC (a0 : arena) (s : cstate) : Prop := {
  ic_thr : forall t th, nth_error (c_thr s) t = Some th -> constructed_upto (c_ar s) th;
  ic_old : forall i, 0 <= i < a_pos a0 -> get_cell (c_ar s) i = get_cell a0 i }.

Lemma constructed_upto_frame a a' th :
  a_lg a' = a_lg a -> 0 <= t_old th ->
  (forall i, t_old th <= i < t_old th + t_delta th -> get a' i = get a i) ->
  constructed_upto a th -> constructed_upto a' th.
Proof.
  intros E1 Ho F. unfold constructed_upto, buf_index. rewrite E1. destruct (t_pc th); auto.
  - intros H i Hi Hb. rewrite F by exact Hi. apply H; assumption.
  - intros H i Hi. rewrite F by exact Hi. apply H; assumption.
Qed.

(* index below the number of existing buffers *)
Lemma buf_index_lt a i : arena_ok a -> 0 <= i < a_bpos a * a_bsz a -> 0 <= buf_index a i < a_bpos a.
Proof.
  intros OK Hi. destruct (ok_geom _ OK) as (G1 & G2 & G3). pose proof (bsz_pos _ OK) as BP.
  unfold buf_index. rewrite shiftr_div by assumption. rewrite <- G2.
  split; [apply Z.div_pos; lia|]. apply Z.div_lt_upper_bound; lia.
Qed.

Lemma InvC_update a0 s t th a' n' m' th' lg' u' :
  InvA s -> InvC a0 s -> a_pos a0 <= a_pos (c_ar s) -> nth_error (c_thr s) t = Some th ->
  a_lg a' = a_lg (c_ar s) -> a_mask a' = a_mask (c_ar s) ->
  (forall i, 0 <= i < a_pos (c_ar s) -> get_cell a' i = get_cell (c_ar s) i) ->
  constructed_upto a' th' ->
  InvC a0 (CS a' n' m' (upd t th' (c_thr s)) lg' u').
Proof.
  intros IA [C1 C2] Hp0 Ht E1 E2 F Hth'. constructor; simpl.
  - intros t1 th1 H1. apply lookup_upd_inv in H1. destruct H1 as [[-> ->]|[Hne H1]]; [exact Hth'|].
    pose proof (ia_thr s IA t1 th1 H1) as (Hd & Ho & Hpc).
    assert (R : claimed th1 = true -> t_old th1 + t_delta th1 <= a_pos (c_ar s)).
    { unfold claimed. destruct (t_pc th1); try discriminate; intros _; [destruct Hpc as (P & _); exact P|exact Hpc]. }
    pose proof (C1 t1 th1 H1) as K. unfold constructed_upto in *. unfold buf_index in *. rewrite E1.
    destruct (t_pc th1) eqn:Epc; auto.
    + intros i Hi Hb. rewrite (get_of_cell (c_ar s) a' i); [apply K; assumption|]. apply F.
      assert (t_old th1 + t_delta th1 <= a_pos (c_ar s)) by (apply R; unfold claimed; rewrite Epc; reflexivity). lia.
    + intros i Hi. rewrite (get_of_cell (c_ar s) a' i); [apply K; assumption|]. apply F.
      assert (t_old th1 + t_delta th1 <= a_pos (c_ar s)) by (apply R; unfold claimed; rewrite Epc; reflexivity). lia.
  - intros i Hi. rewrite F by lia. apply C2. exact Hi.
Qed.

Lemma chain_props l : forall p q, chain p l = Some q ->
  p <= q /\
  (forall t lo hi, In (t, (lo, hi)) l -> p <= lo /\ lo <= hi /\ hi <= q) /\
  (forall i, p <= i < q -> exists t lo hi, In (t, (lo, hi)) l /\ lo <= i < hi) /\
  (forall t1 r1 t2 r2, In (t1, r1) l -> In (t2, r2) l -> t1 <> t2 -> snd r1 <= fst r2 \/ snd r2 <= fst r1).
Proof.
  induction l as [|[t0 [lo0 hi0]] r IH]; intros p q H; simpl in H.
  - injection H as <-. split; [lia|]. split; [intros ? ? ? []|]. split; [intros i Hi; lia|]. intros ? ? ? ? [].
  - destruct ((lo0 =? p) && (lo0 <=? hi0)) eqn:E; [|discriminate]. apply andb_prop in E. destruct E as [E1 E2].
    apply Z.eqb_eq in E1. apply Z.leb_le in E2. subst lo0.
    destruct (IH hi0 q H) as (I1 & I2 & I3 & I4).
    split; [lia|]. split; [|split].
    + intros t lo hi [Hin|Hin]; [injection Hin as <- <- <-; lia|]. destruct (I2 t lo hi Hin). lia.
    + intros i Hi. destruct (Z_lt_ge_dec i hi0) as [L|G].
      * exists t0, p, hi0. split; [left; reflexivity|lia].
      * destruct (I3 i ltac:(lia)) as (t & lo & hi & Hin & Hr). exists t, lo, hi. split; [right; exact Hin|exact Hr].
    + intros t1 [lo1 hi1] t2 [lo2 hi2] [H1|H1] [H2|H2] Hne; simpl.
      * congruence.
      * injection H1 as <- <- <-. destruct (I2 t2 lo2 hi2 H2). left; lia.
      * injection H2 as <- <- <-. destruct (I2 t1 lo1 hi1 H1). right; lia.
      * apply (I4 t1 (lo1, hi1) t2 (lo2, hi2)); assumption.
Qed.

(* the cells written by one step of constructObjects in buffer b are exactly the indices of the thread's own range that live in b *)
Lemma construct_window lg old e b i :
  0 <= lg -> 0 <= old -> old <= e -> 0 <= i ->
  Z.shiftr old lg <= b <= Z.shiftr e lg -> Z.shiftr i lg = b ->
  let bs := if b =? Z.shiftr old lg then Z.land old (2 ^ lg - 1) else 0 in
  let bufEnd := if b =? Z.shiftr e lg then Z.land e (2 ^ lg - 1) else 2 ^ lg in
  (bs <= Z.land i (2 ^ lg - 1) < bufEnd) <-> (old <= i < e).
Proof.
  intros Hlg Ho He Hi Hb Eb; cbv zeta.
  destruct (index_split_proof lg old Hlg Ho) as (S1 & S2 & S3).
  destruct (index_split_proof lg e Hlg ltac:(lia)) as (T1 & T2 & T3).
  destruct (index_split_proof lg i Hlg Hi) as (U1 & U2 & U3). cbv zeta in *.
  rewrite Eb in U3.
  set (B := 2 ^ lg) in *. set (so := Z.land old (B - 1)) in *. set (eo := Z.land e (B - 1)) in *. set (o := Z.land i (B - 1)) in *.
  set (sb := Z.shiftr old lg) in *. set (eb := Z.shiftr e lg) in *.
  assert (BP : 0 < B) by (apply Z.pow_pos_nonneg; lia).
  destruct (b =? sb) eqn:E1; destruct (b =? eb) eqn:E2;
    [apply Z.eqb_eq in E1|apply Z.eqb_eq in E1|apply Z.eqb_neq in E1|apply Z.eqb_neq in E1];
    [apply Z.eqb_eq in E2|apply Z.eqb_neq in E2|apply Z.eqb_eq in E2|apply Z.eqb_neq in E2]; split; intros K; nia.
Qed.

Lemma construct_step_cells a th b bs bf :
  arena_ok a -> thr_ok a th -> t_pc th = PConstruct b bs -> 0 <= b < a_bpos a -> get_buf a b = Some bf ->
  Z.of_nat (length (cells bf)) = a_bsz a ->
  let e := t_old th + t_delta th in
  let bufEnd := if b =? buf_index a e then buf_off a e else a_bsz a in
  let a' := set_buf a b (fill bf bs bufEnd) in
  forall i, 0 <= i ->
    (buf_index a i = b /\ t_old th <= i < e -> get a' i = Some dflt) /\
    (~ (buf_index a i = b /\ t_old th <= i < e) -> get_cell a' i = get_cell a i).
Proof.
  intros OK (Hd & Ho & Hpc) Epc Hb Gb Lb; cbv zeta. rewrite Epc in Hpc. destruct Hpc as (P1 & P2 & P3).
  destruct (ok_geom _ OK) as (G1 & G2 & G3). pose proof (ok_bpos _ OK) as BPOS.
  intros i Hi.
  set (e := t_old th + t_delta th) in *.
  set (bufEnd := if b =? buf_index a e then buf_off a e else a_bsz a).
  set (a' := set_buf a b (fill bf bs bufEnd)).
  assert (EL : a_lg a' = a_lg a) by reflexivity. assert (EM : a_mask a' = a_mask a) by reflexivity.
  destruct (Z.eq_dec (buf_index a i) b) as [Eb|Nb].
  - (* same buffer *)
    assert (Gb' : get_buf a' (buf_index a i) = Some (fill bf bs bufEnd)).
    { unfold a'. rewrite get_buf_set_buf by (unfold buf_index in *; lia). rewrite Eb, Z.eqb_refl.
      replace (b <? a_tsz a) with true by (symmetry; apply Z.ltb_lt; lia). reflexivity. }
    destruct (index_split_proof (a_lg a) i G1 Hi) as (U1 & U2 & U3). cbv zeta in U1, U2, U3.
    assert (W := construct_window (a_lg a) (t_old th) e b i G1 Ho ltac:(unfold e; lia) Hi P2 Eb). cbv zeta in W.
    unfold buf_index, buf_off in *. rewrite G3 in *. rewrite <- P3 in W.
    assert (EQ : (if b =? Z.shiftr e (a_lg a) then Z.land e (2 ^ a_lg a - 1) else 2 ^ a_lg a) = bufEnd).
    { unfold bufEnd. rewrite G2, G3. reflexivity. }
    rewrite EQ in W.
    set (o := Z.land i (2 ^ a_lg a - 1)) in *.
    assert (Hc : exists c, nth_error (cells bf) (Z.to_nat o) = Some c).
    { destruct (nth_error (cells bf) (Z.to_nat o)) eqn:N; [eauto|]. apply nth_error_None in N. lia. }
    destruct Hc as (c & Hc).
    assert (GC' : get_cell a' i = Some (if (bs <=? o) && (o <? bufEnd) then Some dflt else c)).
    { unfold get_cell, buf_index, buf_off. rewrite EL, EM. rewrite Gb'. simpl. rewrite nth_fill_from.
      fold o. rewrite Hc. rewrite Z2Nat.id by lia. reflexivity. }
    assert (GC : get_cell a i = Some c).
    { unfold get_cell, buf_index, buf_off. rewrite G3, Eb, Gb. exact Hc. }
    split.
    + intros (_ & Hr). apply W in Hr. unfold get. rewrite GC'.
      replace ((bs <=? o) && (o <? bufEnd)) with true; [reflexivity|].
      symmetry. apply andb_true_intro. split; [apply Z.leb_le|apply Z.ltb_lt]; lia.
    + intros Hn. rewrite GC', GC.
      replace ((bs <=? o) && (o <? bufEnd)) with false; [reflexivity|].
      symmetry. apply andb_false_iff. destruct (Z_le_gt_dec bs o); [|left; apply Z.leb_gt; lia].
      destruct (Z_lt_ge_dec o bufEnd); [|right; apply Z.ltb_ge; lia].
      exfalso. apply Hn. split; [exact Eb|]. apply W. lia.
  - split; [intros (C & _); contradiction|]. intros _.
    apply get_cell_frame; try reflexivity. unfold a'. rewrite get_buf_set_buf by (unfold buf_index in *; try lia; apply Z.shiftr_nonneg; lia).
    replace (b =? buf_index a i) with false by (symmetry; apply Z.eqb_neq; congruence). reflexivity.
Qed.

Lemma claimed_in_pos s t th : InvA s -> nth_error (c_thr s) t = Some th -> claimed th = true ->
  0 <= t_old th /\ 0 <= t_delta th /\ t_old th + t_delta th <= a_pos (c_ar s).
Proof.
  intros IA Ht C. pose proof (ia_thr s IA t th Ht) as (Hd & Ho & Hpc). unfold claimed in C.
  destruct (t_pc th); try discriminate; [destruct Hpc as (P & _)|]; lia.
Qed.

Lemma claimed_disjoint p0 s t1 th1 t2 th2 : InvB p0 s ->
  nth_error (c_thr s) t1 = Some th1 -> nth_error (c_thr s) t2 = Some th2 -> claimed th1 = true -> claimed th2 = true -> t1 <> t2 ->
  t_old th1 + t_delta th1 <= t_old th2 \/ t_old th2 + t_delta th2 <= t_old th1.
Proof.
  intros IB H1 H2 C1 C2 Hne.
  destruct (chain_props _ _ _ (ib_chain p0 s IB)) as (_ & _ & _ & D).
  exact (D t1 (range_of th1) t2 (range_of th2) (ib_claimed p0 s IB t1 th1 H1 C1) (ib_claimed p0 s IB t2 th2 H2 C2) Hne).
Qed.

Lemma claimed_above_p0 p0 s t th : InvB p0 s -> nth_error (c_thr s) t = Some th -> claimed th = true -> p0 <= t_old th.
Proof.
  intros IB H C. destruct (chain_props _ _ _ (ib_chain p0 s IB)) as (_ & R & _ & _).
  destruct (R t (t_old th) (t_old th + t_delta th) (ib_claimed p0 s IB t th H C)). lia.
Qed.

Lemma InvC_step a0 s t ch s' ch' site :
  InvA s -> InvB (a_pos a0) s -> InvC a0 s -> step s t ch = Some (s', ch', site) -> InvC a0 s'.
Proof.
  intros IA IB IC H.
  assert (Hp0 : a_pos a0 <= a_pos (c_ar s)) by (destruct (chain_props _ _ _ (ib_chain _ s IB)) as (P & _); exact P).
  unfold step in H. rewrite (ia_ub s IA) in H.
  destruct (nth_error (c_thr s) t) as [th|] eqn:Ht; [|discriminate].
  pose proof (ia_thr s IA t th Ht) as Hok. pose proof Hok as (Hd & Hold & Hpc).
  pose proof (ia_ok s IA) as OK. pose proof (ia_pos s IA) as Hpos. pose proof (ia_cap s IA) as Hcap.
  destruct (ok_geom _ OK) as (G1 & G2 & G3).
  assert (U : forall a' n' m' lg' u' th', a_lg a' = a_lg (c_ar s) -> a_mask a' = a_mask (c_ar s) ->
              (forall i, 0 <= i < a_pos (c_ar s) -> get_cell a' i = get_cell (c_ar s) i) -> constructed_upto a' th' ->
              InvC a0 (CS a' n' m' (upd t th' (c_thr s)) lg' u')).
  { intros. eapply InvC_update; eassumption. }
  destruct (t_pc th) eqn:Epc.
  - injection H as <- _ _. apply U; try reflexivity; try exact Logic.I.
  - injection H as <- _ _. apply U; try reflexivity; unfold constructed_upto; simpl;
    destruct (t_old th + t_delta th >=? a_cap (c_ar s)); exact Logic.I.
  - destruct (c_mutex s); [discriminate|]. injection H as <- _ _. apply U; try reflexivity; try exact Logic.I.
  - injection H as <- _ _. apply U; try reflexivity; try exact Logic.I.
  - destruct (t_old th + t_delta th >=? t_cur th).
    + injection H as <- _ _. destruct (alloc_fields (c_ar s) (c_next s)) as (F1 & F2 & F3 & F4 & F5 & F6).
      apply U; try assumption; try exact Logic.I.
      intros i Hi. apply get_cell_frame; try assumption. apply get_buf_alloc_old; [exact OK|].
      apply buf_index_lt; [exact OK|]. lia.
    + injection H as <- _ _. apply U; try reflexivity; try exact Logic.I.
  - injection H as <- _ _. apply U; try reflexivity; try exact Logic.I.
  - (* PCas *)
    destruct (match ch with [] => (false, []) | c :: r => (Z.odd c, r) end) as [spur chr].
    destruct ((a_pos (c_ar s) =? t_old th) && negb spur).
    + injection H as <- _ _. apply U; try reflexivity.
      unfold constructed_upto; simpl. intros i Hi Hb. unfold buf_index in *; simpl in Hb.
      pose proof (shiftr_mono (a_lg (c_ar s)) (t_old th) i G1 ltac:(lia)). lia.
    + injection H as <- _ _. apply U; try reflexivity; try exact Logic.I.
  - (* PConstruct *)
    pose proof (construct_buf_exists s th b bs IA Hok Epc) as Hb.
    destruct (ok_bufs _ OK b Hb) as (bf & Gb & Lb). rewrite Gb in H.
    injection H as <- _ _. unfold set_thr, set_ar; simpl.
    pose proof (construct_step_cells (c_ar s) th b bs bf OK Hok Epc Hb Gb Lb) as W. cbv zeta in W.
    set (e := t_old th + t_delta th) in *.
    set (bufEnd := if b =? buf_index (c_ar s) e then buf_off (c_ar s) e else a_bsz (c_ar s)) in *.
    set (a' := set_buf (c_ar s) b (fill bf bs bufEnd)) in *.
    assert (Ct : claimed th = true) by (unfold claimed; rewrite Epc; reflexivity).
    destruct Hpc as (P1 & (P2 & P3) & P4).
    destruct IC as [C1 C2]. constructor; simpl.
    + intros t1 th1 H1. apply lookup_upd_inv in H1. destruct H1 as [[-> ->]|[Hne H1]].
      * (* the stepping thread *)
        pose proof (C1 t th Ht) as K. unfold constructed_upto in K. rewrite Epc in K.
        assert (Main : forall i, t_old th <= i < e -> buf_index (c_ar s) i <= b -> get a' i = Some dflt).
        { intros i Hi Hle. destruct (W i ltac:(lia)) as (W1 & W2).
          destruct (Z.eq_dec (buf_index (c_ar s) i) b) as [Eb|Nb]; [apply W1; auto|].
          rewrite (get_of_cell (c_ar s) a' i); [apply K; [exact Hi|lia]|]. apply W2. intros (C & _). contradiction. }
        unfold constructed_upto; simpl. destruct (b =? buf_index (c_ar s) e) eqn:E; simpl.
        -- apply Z.eqb_eq in E. intros i Hi. apply Main; [exact Hi|]. rewrite E. unfold buf_index. apply shiftr_mono; [exact G1|lia].
        -- intros i Hi Hlt. apply Main; [exact Hi|]. unfold buf_index in *; simpl in Hlt. lia.
      * (* other threads: their ranges are disjoint from the cells written *)
        pose proof (C1 t1 th1 H1) as K. unfold constructed_upto in *. unfold buf_index in *; simpl.
        assert (F : claimed th1 = true -> forall i, t_old th1 <= i < t_old th1 + t_delta th1 -> get a' i = get (c_ar s) i).
        { intros Cl i Hi. destruct (claimed_in_pos s t1 th1 IA H1 Cl) as (Q1 & Q2 & Q3).
          destruct (W i ltac:(lia)) as (_ & W2). apply get_of_cell, W2. intros (_ & Hr).
          destruct (claimed_disjoint _ s t1 th1 t th IB H1 Ht Cl Ct Hne); unfold e in *; lia. }
        destruct (t_pc th1) eqn:Epc1; auto.
        -- intros i Hi Hlt. rewrite F; [apply K; assumption| unfold claimed; rewrite Epc1; reflexivity | exact Hi].
        -- intros i Hi. rewrite F; [apply K; assumption| unfold claimed; rewrite Epc1; reflexivity | exact Hi].
    + intros i Hi. rewrite <- C2 by exact Hi. destruct (W i ltac:(lia)) as (_ & W2). apply W2. intros (_ & Hr).
      pose proof (claimed_above_p0 _ s t th IB Ht Ct). lia.
  - discriminate.
Qed.

(* ------------------------------------------------------------------------------------------------ all schedules *)
(* a quiescent arena (no grow_by in flight) *)
Definition arena_wf (a : arena) : Prop :=
  arena_ok a /\ 0 <= a_pos a < a_cap a /\ a_cap a = a_bpos a * a_bsz a.

Definition Inv (a0 : arena) (s : cstate) : Prop := InvA s /\ InvB (a_pos a0) s /\ InvC a0 s.

Lemma nth_error_map_inv {A B} (f : A -> B) l n y : nth_error (map f l) n = Some y -> exists x, nth_error l n = Some x /\ y = f x.
Proof.
  revert n; induction l as [|a r IH]; intros [|n] H; simpl in *; try discriminate.
  - injection H as <-. eauto.
  - apply IH; exact H.
Qed.

Lemma Inv_init a0 nid deltas : arena_wf a0 -> Forall (fun d => 0 <= d) deltas -> Inv a0 (init_state a0 nid deltas).
Proof.
  intros (OK & Hpos & Hcap) Hd.
  assert (T : forall t th, nth_error (c_thr (init_state a0 nid deltas)) t = Some th -> exists d, th = Thr PLoadPos d 0 0 /\ 0 <= d).
  { intros t th H. simpl in H. apply nth_error_map_inv in H. destruct H as (d & Hn & ->). exists d. split; [reflexivity|].
    rewrite Forall_forall in Hd. apply Hd. eapply nth_error_In; eassumption. }
  split; [|split].
  - constructor; simpl; try assumption; try reflexivity; try lia.
    + intros t th H. destruct (T t th H) as (d & -> & Hd0). unfold thr_ok; simpl. lia.
    + intros t th H. destruct (T t th H) as (d & -> & Hd0). simpl. discriminate.
  - constructor; simpl.
    + reflexivity.
    + intros t th H. destruct (T t th H) as (d & -> & Hd0). simpl. discriminate.
    + intros t r [].
    + constructor.
  - constructor; simpl.
    + intros t th H. destruct (T t th H) as (d & -> & Hd0). exact Logic.I.
    + reflexivity.
Qed.

Lemma Inv_step a0 s t ch s' ch' site : Inv a0 s -> step s t ch = Some (s', ch', site) -> Inv a0 s'.
Proof.
  intros (IA & IB & IC) H. split; [|split].
  - eapply InvA_step; eassumption.
  - eapply InvB_step; eassumption.
  - eapply InvC_step; eassumption.
Qed.

Lemma Inv_reach a0 s0 s : Inv a0 s0 -> reach step s0 s -> Inv a0 s.
Proof. intros I R. revert s R. apply reach_inv; [exact I|]. intros. eapply Inv_step; eassumption. Qed.

(* ---- buffers are never moved *)
Definition stable_rel (a a' : arena) : Prop :=
  a_lg a' = a_lg a /\ a_mask a' = a_mask a /\ a_bpos a <= a_bpos a' /\
  forall b, 0 <= b < a_bpos a -> exists bf bf', get_buf a b = Some bf /\ get_buf a' b = Some bf' /\ bid bf' = bid bf.

Lemma stable_refl a : arena_ok a -> stable_rel a a.
Proof.
  intros OK. split; [reflexivity|]. split; [reflexivity|]. split; [lia|].
  intros b Hb. destruct (ok_bufs _ OK b Hb) as (bf & G & _). exists bf, bf. auto.
Qed.

Lemma stable_same_tbl a a' : arena_ok a -> a_lg a' = a_lg a -> a_mask a' = a_mask a -> a_bpos a' = a_bpos a -> a_tbl a' = a_tbl a -> stable_rel a a'.
Proof.
  intros OK E1 E2 E3 E4. split; [exact E1|]. split; [exact E2|]. split; [lia|].
  intros b Hb. destruct (ok_bufs _ OK b Hb) as (bf & G & _). exists bf, bf. split; [exact G|]. split; [|reflexivity].
  unfold get_buf in *. rewrite E4. exact G.
Qed.

Lemma stable_trans a b c : stable_rel a b -> stable_rel b c -> stable_rel a c.
Proof.
  intros (A1 & A2 & A3 & A4) (B1 & B2 & B3 & B4). split; [congruence|]. split; [congruence|]. split; [lia|].
  intros k Hk. destruct (A4 k Hk) as (bf & bf' & G1 & G2 & E). destruct (B4 k ltac:(lia)) as (bf2 & bf2' & G3 & G4 & E').
  exists bf, bf2'. split; [exact G1|]. split; [exact G4|]. congruence.
Qed.

Lemma step_stable s t ch s' ch' site : InvA s -> step s t ch = Some (s', ch', site) -> stable_rel (c_ar s) (c_ar s').
Proof.
  intros IA H. pose proof (ia_ok s IA) as OK.
  unfold step in H. rewrite (ia_ub s IA) in H.
  destruct (nth_error (c_thr s) t) as [th|] eqn:Ht; [|discriminate].
  pose proof (ia_thr s IA t th Ht) as Hok.
  destruct (t_pc th) eqn:Epc.
  - injection H as <- _ _. apply stable_refl; exact OK.
  - injection H as <- _ _. apply stable_refl; exact OK.
  - destruct (c_mutex s); [discriminate|]. injection H as <- _ _. apply stable_refl; exact OK.
  - injection H as <- _ _. apply stable_refl; exact OK.
  - destruct (t_old th + t_delta th >=? t_cur th).
    + injection H as <- _ _. simpl. destruct (alloc_fields (c_ar s) (c_next s)) as (F1 & F2 & F3 & F4 & F5 & F6).
      split; [exact F1|]. split; [exact F3|]. split; [lia|].
      intros b Hb. destruct (ok_bufs _ OK b Hb) as (bf & G & _). exists bf, bf. split; [exact G|]. split; [|reflexivity].
      rewrite get_buf_alloc_old; assumption.
    + injection H as <- _ _. apply stable_refl; exact OK.
  - injection H as <- _ _. simpl. apply stable_same_tbl; try reflexivity; exact OK.
  - destruct (match ch with [] => (false, []) | c :: r => (Z.odd c, r) end) as [spur chr].
    destruct ((a_pos (c_ar s) =? t_old th) && negb spur).
    + injection H as <- _ _. simpl. apply stable_same_tbl; try reflexivity; exact OK.
    + injection H as <- _ _. apply stable_refl; exact OK.
  - pose proof (construct_buf_exists s th b bs IA Hok Epc) as Hb.
    destruct (ok_bufs _ OK b Hb) as (bf & Gb & Lb). rewrite Gb in H.
    injection H as <- _ _. simpl.
    split; [reflexivity|]. split; [reflexivity|]. split; [simpl; lia|].
    intros k Hk. destruct (ok_bufs _ OK k Hk) as (bfk & Gk & _).
    rewrite get_buf_set_buf by lia. destruct (b =? k) eqn:E.
    + apply Z.eqb_eq in E; subst k. pose proof (ok_bpos _ OK).
      replace (b <? a_tsz (c_ar s)) with true by (symmetry; apply Z.ltb_lt; lia).
      eexists _, _. split; [exact Gk|]. split; [reflexivity|]. simpl. congruence.
    + exists bfk, bfk. auto.
  - discriminate.
Qed.

Lemma reach_stable s1 s2 : InvA s1 -> reach step s1 s2 -> InvA s2 /\ stable_rel (c_ar s1) (c_ar s2).
Proof.
  intros IA R. revert s2 R. apply reach_inv.
  - split; [exact IA|]. apply stable_refl, ia_ok, IA.
  - intros s t ch s' ch' site (IAs & St) H. split; [eapply InvA_step; eassumption|].
    eapply stable_trans; [exact St|]. eapply step_stable; eassumption.
Qed.

(* ---- threads keep their delta; the thread table keeps its length *)
Lemma step_shape s t ch s' ch' site : step s t ch = Some (s', ch', site) ->
  length (c_thr s') = length (c_thr s) /\
  forall t1, option_map t_delta (nth_error (c_thr s') t1) = option_map t_delta (nth_error (c_thr s) t1).
Proof.
  intros H. unfold step in H. destruct (c_ub s); [discriminate|].
  destruct (nth_error (c_thr s) t) as [th|] eqn:Ht; [|discriminate].
  assert (U : forall a n m lg u p o c, let s1 := CS a n m (upd t (Thr p (t_delta th) o c) (c_thr s)) lg u in
              length (c_thr s1) = length (c_thr s) /\
              forall t1, option_map t_delta (nth_error (c_thr s1) t1) = option_map t_delta (nth_error (c_thr s) t1)).
  { intros; cbv zeta; simpl. split; [apply upd_length|]. intros t1. destruct (Nat.eq_dec t t1) as [<-|Hne].
    - erewrite lookup_upd_same by eassumption. rewrite Ht. reflexivity.
    - rewrite nth_error_upd_neq by exact Hne. reflexivity. }
  destruct (t_pc th).
  - injection H as <- _ _. apply U.
  - injection H as <- _ _. apply U.
  - destruct (c_mutex s); [discriminate|]. injection H as <- _ _. apply U.
  - injection H as <- _ _. apply U.
  - destruct (t_old th + t_delta th >=? t_cur th); injection H as <- _ _; apply U.
  - injection H as <- _ _. apply U.
  - destruct (match ch with [] => (false, []) | c :: r => (Z.odd c, r) end) as [spur chr].
    destruct ((a_pos (c_ar s) =? t_old th) && negb spur); injection H as <- _ _; apply U.
  - destruct (get_buf (c_ar s) b).
    + injection H as <- _ _. apply U.
    + injection H as <- _ _. simpl. auto.
  - discriminate.
Qed.

Lemma reach_shape s0 s : reach step s0 s ->
  length (c_thr s) = length (c_thr s0) /\
  forall t1, option_map t_delta (nth_error (c_thr s) t1) = option_map t_delta (nth_error (c_thr s0) t1).
Proof.
  intros R. revert s R. apply reach_inv; [auto|].
  intros s t ch s' ch' site (L & D) H. destruct (step_shape _ _ _ _ _ _ H) as (L' & D').
  split; [congruence|]. intros t1. rewrite D'. apply D.
Qed.

Lemma init_delta a nid deltas t : option_map t_delta (nth_error (c_thr (init_state a nid deltas)) t) = nth_error deltas t.
Proof. simpl. rewrite nth_error_map. destruct (nth_error deltas t); reflexivity. Qed.

(* ---- the theorems about all interleavings *)
Theorem growby_disjoint_cover_proof a0 nid deltas s :
  arena_wf a0 -> Forall (fun d => 0 <= d) deltas -> reach step (init_state a0 nid deltas) s ->
  (forall t1 t2 th1 th2, t1 <> t2 -> nth_error (c_thr s) t1 = Some th1 -> nth_error (c_thr s) t2 = Some th2 ->
     claimed th1 = true -> claimed th2 = true ->
     snd (range_of th1) <= fst (range_of th2) \/ snd (range_of th2) <= fst (range_of th1)) /\
  (forall t th, nth_error (c_thr s) t = Some th -> claimed th = true ->
     a_pos a0 <= fst (range_of th) /\ fst (range_of th) <= snd (range_of th) /\ snd (range_of th) <= a_pos (c_ar s) /\
     nth_error deltas t = Some (snd (range_of th) - fst (range_of th))) /\
  (forall i, a_pos a0 <= i < a_pos (c_ar s) ->
     exists t th, nth_error (c_thr s) t = Some th /\ claimed th = true /\ fst (range_of th) <= i < snd (range_of th)).
Proof.
  intros WF Hd R. destruct (Inv_reach a0 _ s (Inv_init a0 nid deltas WF Hd) R) as (IA & IB & IC).
  destruct (chain_props _ _ _ (ib_chain _ s IB)) as (P1 & P2 & P3 & P4).
  split; [|split].
  - intros t1 t2 th1 th2 Hne H1 H2 C1 C2. unfold range_of; simpl. eapply claimed_disjoint; eassumption.
  - intros t th H C. destruct (P2 t _ _ (ib_claimed _ s IB t th H C)) as (Q1 & Q2 & Q3). unfold range_of; simpl.
    split; [lia|]. split; [lia|]. split; [lia|].
    destruct (reach_shape _ _ R) as (_ & D). specialize (D t). rewrite init_delta, H in D. simpl in D. rewrite <- D. f_equal. lia.
  - intros i Hi. destruct (P3 i Hi) as (t & lo & hi & Hin & Hr). destruct (ib_log _ s IB t _ Hin) as (th & L & C & E).
    exists t, th. rewrite E. simpl. auto.
Qed.

Theorem growby_no_uninit_read_proof a0 nid deltas s :
  arena_wf a0 -> Forall (fun d => 0 <= d) deltas -> reach step (init_state a0 nid deltas) s -> c_ub s = false.
Proof. intros WF Hd R. destruct (Inv_reach a0 _ s (Inv_init a0 nid deltas WF Hd) R) as (IA & _). apply ia_ub, IA. Qed.

Theorem growby_default_constructed_proof a0 nid deltas s t th :
  arena_wf a0 -> Forall (fun d => 0 <= d) deltas -> reach step (init_state a0 nid deltas) s ->
  nth_error (c_thr s) t = Some th -> t_pc th = PDone ->
  forall i, fst (range_of th) <= i < snd (range_of th) -> get (c_ar s) i = Some dflt.
Proof.
  intros WF Hd R H E i Hi. destruct (Inv_reach a0 _ s (Inv_init a0 nid deltas WF Hd) R) as (IA & IB & IC).
  pose proof (ic_thr a0 s IC t th H) as K. unfold constructed_upto in K. rewrite E in K. apply K. exact Hi.
Qed.

Theorem refs_stable_proof a0 nid deltas s1 s2 :
  arena_wf a0 -> Forall (fun d => 0 <= d) deltas -> reach step (init_state a0 nid deltas) s1 -> reach step s1 s2 ->
  (forall i, 0 <= i < a_cap (c_ar s1) -> exists ad, addr (c_ar s1) i = Some ad /\ addr (c_ar s2) i = Some ad) /\
  (forall i, 0 <= i < a_pos a0 -> get_cell (c_ar s2) i = get_cell a0 i).
Proof.
  intros WF Hd R1 R2. destruct (Inv_reach a0 _ s1 (Inv_init a0 nid deltas WF Hd) R1) as (IA1 & _).
  pose proof (reach_trans step _ _ _ R1 R2) as R. destruct (Inv_reach a0 _ s2 (Inv_init a0 nid deltas WF Hd) R) as (_ & _ & IC2).
  split; [|apply (ic_old a0 s2 IC2)].
  destruct (reach_stable s1 s2 IA1 R2) as (_ & (E1 & E2 & E3 & E4)).
  intros i Hi. pose proof (ia_cap s1 IA1). destruct (buf_index_lt (c_ar s1) i (ia_ok s1 IA1) ltac:(lia)) as (B1 & B2).
  destruct (E4 _ (conj B1 B2)) as (bf & bf' & G1 & G2 & E).
  exists (bid bf, buf_off (c_ar s1) i). unfold addr, buf_index, buf_off in *. rewrite E1, E2, G1, G2, E. auto.
Qed.

(* ---- when every call has returned, the size is the old size plus the sum of the deltas *)
From Coq Require Import Permutation.
Definition zsum (l : list Z) : Z := fold_right Z.add 0 l.

Lemma zsum_perm l l' : Permutation l l' -> zsum l = zsum l'.
Proof. induction 1; simpl; lia. Qed.

Lemma chain_sum l : forall p q, chain p l = Some q -> q = p + zsum (map (fun x => snd (snd x) - fst (snd x)) l).
Proof.
  induction l as [|[t [lo hi]] r IH]; intros p q H; simpl in *.
  - injection H as <-. lia.
  - destruct ((lo =? p) && (lo <=? hi)) eqn:E; [|discriminate]. apply andb_prop in E. destruct E as [E _]. apply Z.eqb_eq in E.
    rewrite (IH _ _ H). lia.
Qed.

Lemma zsum_nth deltas : zsum (map (fun t => nth t deltas 0) (seq 0 (length deltas))) = zsum deltas.
Proof.
  induction deltas as [|d r IH]; simpl; [reflexivity|].
  rewrite <- seq_shift, map_map. simpl. rewrite IH. reflexivity.
Qed.

Theorem growby_total_proof a0 nid deltas s :
  arena_wf a0 -> Forall (fun d => 0 <= d) deltas -> reach step (init_state a0 nid deltas) s ->
  finished s = true -> a_pos (c_ar s) = a_pos a0 + zsum deltas.
Proof.
  intros WF Hd R F. destruct (Inv_reach a0 _ s (Inv_init a0 nid deltas WF Hd) R) as (IA & IB & IC).
  destruct (reach_shape _ _ R) as (L & D). simpl in L. rewrite map_length in L.
  rewrite (chain_sum _ _ _ (ib_chain _ s IB)). f_equal.
  assert (E : map (fun x => snd (snd x) - fst (snd x)) (c_log s) = map (fun t => nth t deltas 0) (map fst (c_log s))).
  { rewrite map_map. apply map_ext_in. intros [t [lo hi]] Hin. simpl.
    destruct (ib_log _ s IB t _ Hin) as (th & Ht & _ & Er). specialize (D t). rewrite init_delta, Ht in D. simpl in D.
    symmetry in D. apply (nth_error_nth _ _ 0) in D. rewrite D. unfold range_of in Er. injection Er as <- <-. lia. }
  rewrite E. rewrite <- (zsum_nth deltas). rewrite <- L. apply zsum_perm, Permutation_map. apply NoDup_Permutation.
  - apply (ib_nodup _ s IB).
  - apply seq_NoDup.
  - intros t. rewrite in_seq. split.
    + intros Hin. apply in_map_iff in Hin. destruct Hin as ([t1 r] & <- & Hin). simpl.
      destruct (ib_log _ s IB t1 r Hin) as (th & Ht & _). assert (t1 < length (c_thr s))%nat by (apply nth_error_Some; congruence). lia.
    + intros Ht. destruct (nth_error (c_thr s) t) as [th|] eqn:N; [|apply nth_error_None in N; lia].
      unfold finished in F. rewrite forallb_forall in F. pose proof (F th (nth_error_In _ _ N)) as Dn.
      assert (C : claimed th = true) by (unfold is_done in Dn; unfold claimed; destruct (t_pc th); try discriminate; reflexivity).
      apply in_map_iff. exists (t, range_of th). split; [reflexivity|]. apply (ib_claimed _ s IB t th N C).
Qed.

(* ------------------------------------------------------------------------------------------------ layer (a) *)
Lemma run_thread_reach fuel : forall s t s', run_thread fuel s t = Some s' ->
  reach step s s' /\ exists th, nth_error (c_thr s') t = Some th /\ t_pc th = PDone.
Proof.
  induction fuel as [|f IH]; intros s t s' H; simpl in H; [discriminate|].
  destruct (nth_error (c_thr s) t) as [th|] eqn:Ht; [|discriminate].
  destruct (is_done th) eqn:Dn.
  - injection H as <-. split; [apply reach_refl|]. exists th. split; [exact Ht|]. unfold is_done in Dn. destruct (t_pc th); try discriminate; reflexivity.
  - destruct (step s t []) as [[[s1 ch1] site1]|] eqn:E; [|discriminate].
    destruct (IH _ _ _ H) as (R & X). split; [|exact X].
    eapply reach_trans; [|exact R]. eapply reach_step; [apply reach_refl|exact E].
Qed.

Theorem grow_spec_proof a d nid a' r n' :
  arena_wf a -> 0 <= d -> grow a d nid = Some (a', r, n') ->
  r = a_pos a /\ a_pos a' = a_pos a + d /\ arena_wf a' /\
  (forall i, r <= i < r + d -> get a' i = Some dflt) /\
  (forall i, 0 <= i < a_pos a -> get_cell a' i = get_cell a i) /\
  (forall i, 0 <= i < a_cap a -> exists ad, addr a i = Some ad /\ addr a' i = Some ad).
Proof.
  intros WF Hd G. unfold grow in G.
  destruct (run_thread (grow_fuel a d) (init_state a nid [d]) 0) as [s|] eqn:Rn; [|discriminate].
  destruct (c_ub s) eqn:UB; [discriminate|].
  destruct (c_thr s) as [|th0 rest] eqn:Th; [discriminate|]. injection G as <- <- <-.
  destruct (run_thread_reach _ _ _ _ Rn) as (R & th & Ht & Epc). rewrite Th in Ht. simpl in Ht. injection Ht as ->.
  assert (FD : Forall (fun d => 0 <= d) [d]) by (constructor; [exact Hd|constructor]).
  destruct (Inv_reach a _ s (Inv_init a nid [d] WF FD) R) as (IA & IB & IC).
  destruct (reach_shape _ _ R) as (L & D). simpl in L. rewrite Th in L. simpl in L.
  assert (rest = []) by (destruct rest; [reflexivity|simpl in L; discriminate]). subst rest.
  assert (Ht : nth_error (c_thr s) 0 = Some th) by (rewrite Th; reflexivity).
  assert (Cl : claimed th = true) by (unfold claimed; rewrite Epc; reflexivity).
  assert (Ed : t_delta th = d). { specialize (D 0%nat). rewrite Ht in D. simpl in D. congruence. }
  (* the log is exactly [(0, range)] *)
  assert (Only : forall t r, In (t, r) (c_log s) -> t = 0%nat).
  { intros t r Hin. destruct (ib_log _ s IB t r Hin) as (th1 & H1 & _).
    assert (t < length (c_thr s))%nat by (apply nth_error_Some; congruence). rewrite Th in H. simpl in H. lia. }
  pose proof (ib_claimed _ s IB 0%nat th Ht Cl) as Hin. pose proof (ib_nodup _ s IB) as ND. pose proof (ib_chain _ s IB) as CH.
  assert (LG : c_log s = [(0%nat, range_of th)]).
  { destruct (c_log s) as [|[t1 r1] [|[t2 r2] l]] eqn:EL.
    - destruct Hin.
    - destruct Hin as [Hin|[]]. rewrite Hin. reflexivity.
    - exfalso. assert (t1 = 0%nat) by (apply (Only t1 r1); left; reflexivity).
      assert (t2 = 0%nat) by (apply (Only t2 r2); right; left; reflexivity). subst. simpl in ND. inversion ND; subst. apply H1. left; reflexivity. }
  rewrite LG in CH. unfold range_of in CH. simpl in CH.
  destruct ((t_old th =? a_pos a) && (t_old th <=? t_old th + t_delta th)) eqn:E; [|discriminate].
  apply andb_prop in E. destruct E as [E _]. apply Z.eqb_eq in E. injection CH as CH.
  (* quiescent again *)
  assert (MN : c_mutex s = None).
  { destruct (c_mutex s) as [t0|] eqn:M; [|reflexivity]. exfalso.
    pose proof (ia_mutex s IA) as IM. rewrite M in IM. destruct IM as (th0 & L0 & K0).
    assert (t0 = 0%nat). { assert (t0 < length (c_thr s))%nat by (apply nth_error_Some; congruence). rewrite Th in H. simpl in H. lia. }
    subst t0. assert (th0 = th) by congruence. subst th0. apply lock_ok_locked in K0. rewrite Epc in K0. discriminate. }
  pose proof (ia_mutex s IA) as IM. rewrite MN in IM.
  split; [exact E|]. split; [lia|]. split; [split; [apply ia_ok, IA|split; [apply ia_pos, IA|exact IM]]|].
  split.
  - intros i Hi. pose proof (ic_thr a s IC 0%nat th Ht) as K. unfold constructed_upto in K. rewrite Epc in K. apply K. lia.
  - split; [apply (ic_old a s IC)|].
    assert (IA0 : InvA (init_state a nid [d])) by (apply (Inv_init a nid [d] WF FD)).
    destruct (reach_stable _ s IA0 R) as (_ & (E1 & E2 & E3 & E4)). simpl in *.
    destruct WF as (OK & Hpos & Hcap).
    intros i Hi. destruct (buf_index_lt a i OK ltac:(lia)) as (B1 & B2).
    destruct (E4 _ (conj B1 B2)) as (bf & bf' & G1 & G2 & Eb).
    exists (bid bf, buf_off a i). unfold addr, buf_index, buf_off in *. rewrite E1, E2, G1, G2, Eb. auto.
Qed.

(* ---- constructor *)
Lemma ctor_lg_nonneg m : 0 <= ctor_lg m.
Proof. unfold ctor_lg, log2i. pose proof (Z.log2_nonneg m). destruct (Z.shiftl 1 (Z.log2 m) =? m); lia. Qed.

Theorem new_arena_spec_proof m init nid a n :
  0 <= init -> new_arena m init nid = Some (a, n) ->
  arena_wf a /\ a_pos a = init /\ a_bsz a = 2 ^ ctor_lg m /\ (forall i, 0 <= i < init -> get a i = Some dflt).
Proof.
  intros Hi H. unfold new_arena in H. pose proof (ctor_lg_nonneg m) as L.
  set (lg := ctor_lg m) in *. rewrite Z.shiftl_1_l in H.
  set (a0 := Arena lg (2 ^ lg) (2 ^ lg - 1) 0 0 [] 0 0) in *.
  assert (OK0 : arena_ok a0).
  { constructor; simpl; unfold a_tsz; simpl; try lia; auto; intros b Hb; lia. }
  pose proof (alloc_ok a0 nid OK0) as OK1. destruct (alloc_fields a0 nid) as (F1 & F2 & F3 & F4 & F5 & F6).
  assert (BP : 0 < 2 ^ lg) by (apply Z.pow_pos_nonneg; lia).
  set (a1 := set_cap (alloc_buffer a0 nid) (2 ^ lg)) in *.
  assert (WF1 : arena_wf a1).
  { split; [destruct OK1 as [A1 A2 A3 A4]; constructor; simpl; assumption|]. unfold a1, set_cap. cbn [a_pos a_cap a_bpos a_bsz]. rewrite F4, F6, F2. unfold a0. cbn [a_pos a_bpos a_bsz]. lia. }
  destruct (init >? 0) eqn:E.
  - destruct (grow a1 init (S nid)) as [[[a2 r] n2]|] eqn:G; [|discriminate]. injection H as <- <-.
    destruct (grow_spec_proof a1 init (S nid) a2 r n2 WF1 Hi G) as (R1 & R2 & R3 & R4 & _).
    assert (P1 : a_pos a1 = 0) by (unfold a1, set_cap; cbn [a_pos]; rewrite F4; reflexivity).
    split; [exact R3|]. split; [lia|]. split.
    + destruct R3 as (OK2 & _). destruct (ok_geom _ OK2) as (_ & G2 & _).
      unfold grow in G. destruct (run_thread _ _ _) as [s|] eqn:Rn; [|discriminate]. destruct (c_ub s); [discriminate|].
      destruct (c_thr s); [discriminate|]. injection G as <- _ _.
      destruct (run_thread_reach _ _ _ _ Rn) as (R & _).
      assert (IA0 : InvA (init_state a1 (S nid) [init])). { apply (Inv_init a1 (S nid) [init] WF1). constructor; [exact Hi|constructor]. }
      destruct (reach_stable _ s IA0 R) as (IAs & (E1 & _)). simpl in E1.
      destruct (ok_geom _ (ia_ok s IAs)) as (_ & G2' & _). rewrite G2', E1. reflexivity.
    + intros i Hr. apply R4. lia.
  - injection H as <- <-. rewrite Z.gtb_ltb in E. apply Z.ltb_ge in E.
    split; [exact WF1|]. unfold a1, set_cap; cbn [a_pos a_bsz]. rewrite F4, F2. unfold a0; cbn [a_pos a_bsz]. split; [lia|]. split; [reflexivity|]. intros i Hr; lia.
Qed.

(* ---- copy constructor *)
Lemma copy_entries_spec l : forall nid l', copy_entries l nid = Some l' ->
  length l' = length l /\
  forall k, nth_error l' k =
            option_map (fun e => match e with Some bf => Some (Buf (nid + k) (cells bf)) | None => None end) (nth_error l k).
Proof.
  induction l as [|[bf|] r IH]; intros nid l' H; simpl in H.
  - injection H as <-. split; [reflexivity|]. intros [|k]; reflexivity.
  - destruct (copy_entries r (S nid)) as [r'|] eqn:E; [|discriminate]. injection H as <-.
    destruct (IH _ _ E) as (L & N). split; [simpl; congruence|].
    intros [|k]; simpl; [rewrite Nat.add_0_r; reflexivity|]. rewrite N. replace (S nid + k)%nat with (nid + S k)%nat by lia. reflexivity.
  - discriminate.
Qed.

Lemma copy_entries_none l : forall nid, copy_entries l nid = None <-> exists k, nth_error l k = Some None.
Proof.
  induction l as [|[bf|] r IH]; intros nid; simpl.
  - split; [discriminate|]. intros ([|k] & H); discriminate.
  - destruct (copy_entries r (S nid)) as [r'|] eqn:E.
    + split; [discriminate|]. intros ([|k] & H); simpl in H; [discriminate|].
      assert (X : copy_entries r (S nid) = None) by (apply IH; eauto). congruence.
    + split; [|reflexivity]. intros _. destruct (proj1 (IH (S nid)) E) as (k & Hk). exists (S k). exact Hk.
  - split; [|reflexivity]. intros _. exists 0%nat. reflexivity.
Qed.

Lemma nth_error_firstn_lt {A} (l : list A) : forall n k, (k < n)%nat -> nth_error (firstn n l) k = nth_error l k.
Proof. induction l as [|x r IH]; intros [|n] [|k] H; simpl; try reflexivity; try lia. apply IH; lia. Qed.
Lemma nth_error_firstn_ge {A} (l : list A) : forall n k, (n <= k)%nat -> nth_error (firstn n l) k = None.
Proof. intros n k H. apply nth_error_None. rewrite firstn_length. lia. Qed.

Lemma contents_ext a c : a_pos c = a_pos a -> (forall i, get_cell c i = get_cell a i) -> contents c = contents a.
Proof. intros E H. unfold contents. rewrite E. apply map_ext. intros k. apply get_of_cell, H. Qed.

(* the copy constructor is defined on every arena and exact: same size, capacity, buffer count, table capacity, every cell
   equal, fresh buffers only (deep copy) *)
Theorem copy_equal_proof a nid :
  arena_ok a ->
  exists c n', copy_ctor a nid = Some (c, n') /\
    a_pos c = a_pos a /\ a_cap c = a_cap a /\ a_bpos c = a_bpos a /\ a_tsz c = a_tsz a /\
    (forall i, get_cell c i = get_cell a i) /\ contents c = contents a /\
    (forall b bf, get_buf c b = Some bf -> (nid <= bid bf < n')%nat) /\
    arena_ok c.
Proof.
  intros OK. pose proof (ok_bpos _ OK) as BP. unfold a_tsz in BP.
  unfold copy_ctor. replace (a_bpos a >? a_tsz a) with false by (symmetry; unfold a_tsz; rewrite Z.gtb_ltb; apply Z.ltb_ge; lia).
  set (used := Z.to_nat (a_bpos a)).
  assert (Hu : (used <= length (a_tbl a))%nat) by (unfold used; lia).
  destruct (copy_entries (firstn used (a_tbl a)) nid) as [t|] eqn:CE.
  2:{ exfalso. apply copy_entries_none in CE. destruct CE as (k & Hk).
      destruct (Nat.lt_ge_cases k used) as [Lt|Ge]; [|rewrite nth_error_firstn_ge in Hk by exact Ge; discriminate].
      rewrite nth_error_firstn_lt in Hk by exact Lt.
      destruct (ok_bufs _ OK (Z.of_nat k) ltac:(unfold used in Lt; lia)) as (bf & G & _). unfold get_buf in G. rewrite Nat2Z.id, Hk in G. discriminate. }
  destruct (copy_entries_spec _ _ _ CE) as (L & N). rewrite firstn_length, Nat.min_l in L by exact Hu.
  eexists _, _. split; [reflexivity|]. cbn [a_pos a_cap a_bpos].
  set (c := Arena (a_lg a) (a_bsz a) (a_mask a) (a_pos a) (a_cap a) (t ++ repeat None (length (a_tbl a) - used)) (a_bpos a) 0).
  assert (TL : length (a_tbl c) = length (a_tbl a)) by (unfold c; simpl; rewrite app_length, repeat_length; lia).
  assert (NT : forall k, nth_error (a_tbl c) k =
                         option_map (fun e => match e with Some bf => Some (Buf (nid + k) (cells bf)) | None => None end) (nth_error (a_tbl a) k)).
  { intros k. unfold c; simpl. destruct (Nat.lt_ge_cases k used) as [Lt|Ge].
    - rewrite nth_error_app1 by lia. rewrite N, nth_error_firstn_lt by exact Lt. reflexivity.
    - rewrite nth_error_app2 by lia. destruct (Nat.lt_ge_cases k (length (a_tbl a))) as [Lt2|Ge2].
      + rewrite nth_error_repeat by lia.
        pose proof (ok_uninit _ OK (Z.of_nat k) ltac:(unfold a_tsz, used in *; lia)) as U. rewrite Nat2Z.id in U. rewrite U. reflexivity.
      + replace (nth_error (a_tbl a) k) with (@None (option buf)) by (symmetry; apply nth_error_None; exact Ge2).
        apply nth_error_None. rewrite repeat_length. lia. }
  assert (GB : forall b, get_buf c b = option_map (fun bf => Buf (nid + Z.to_nat b) (cells bf)) (get_buf a b)).
  { intros b. unfold get_buf. rewrite NT. destruct (nth_error (a_tbl a) (Z.to_nat b)) as [[bf|]|]; reflexivity. }
  assert (GC : forall i, get_cell c i = get_cell a i).
  { intros i. unfold get_cell. replace (buf_index c i) with (buf_index a i) by reflexivity. replace (buf_off c i) with (buf_off a i) by reflexivity.
    rewrite GB. destruct (get_buf a (buf_index a i)); reflexivity. }
  split; [reflexivity|]. split; [reflexivity|]. split; [reflexivity|]. split; [unfold a_tsz; rewrite TL; reflexivity|].
  split; [exact GC|]. split; [apply contents_ext; [reflexivity|exact GC]|]. split.
  - intros b bf H. rewrite GB in H. destruct (get_buf a b) as [bf0|] eqn:G0; [|discriminate]. injection H as <-. simpl.
    (* only entries below buffersPos_ are buffers *)
    assert (Z.to_nat b < used)%nat.
    { destruct (Nat.lt_ge_cases (Z.to_nat b) used) as [Lt|Ge]; [exact Lt|exfalso]. unfold get_buf in G0.
      destruct (Nat.lt_ge_cases (Z.to_nat b) (length (a_tbl a))) as [Lt2|Ge2].
      - pose proof (ok_uninit _ OK (Z.of_nat (Z.to_nat b)) ltac:(unfold a_tsz, used in *; lia)) as U. rewrite Nat2Z.id in U.
        rewrite U in G0. discriminate.
      - replace (nth_error (a_tbl a) (Z.to_nat b)) with (@None (option buf)) in G0 by (symmetry; apply nth_error_None; exact Ge2). discriminate. }
    lia.
  - destruct OK as [A1 A2 A3 A4]. constructor.
    + exact A1.
    + unfold a_tsz. rewrite TL. exact A2.
    + intros b Hb. rewrite GB. destruct (A3 b Hb) as (bf & G & Lb). rewrite G. simpl. eexists; split; [reflexivity|exact Lb].
    + unfold a_tsz. rewrite TL. intros b Hb. rewrite NT. unfold a_tsz in A4. rewrite (A4 b Hb). reflexivity.
Qed.

(* the former refutation witness (minBuffSize 2, grow to 5 elements: 3 buffers in a table of 4) is now copied exactly *)
Theorem copy_regression_proof :
  exists a1 n1 a r n c n',
    new_arena 2 0 0 = Some (a1, n1) /\ grow a1 5 n1 = Some (a, r, n) /\ a_pos a = 5 /\ a_bpos a = 3 /\ a_tsz a = 4 /\
    copy_ctor a n = Some (c, n') /\ shape c = shape a /\ contents c = repeat (Some dflt) 5 /\ contents a = repeat (Some dflt) 5.
Proof. vm_compute. do 7 eexists. repeat split; reflexivity. Qed.

(* ---- move construction, move assignment, swap, copy assignment on the slots *)
Lemma slot_set_same w s a n : (s < length (w_slots w))%nat -> slot (set_slot w s (Some a) n) s = Some a.
Proof. intros H. unfold slot, set_slot; simpl. rewrite nth_error_upd_eq by exact H. reflexivity. Qed.
Lemma slot_set_other w s x a n : s <> x -> slot (set_slot w s a n) x = slot w x.
Proof. intros H. unfold slot, set_slot; simpl. rewrite nth_error_upd_neq by exact H. reflexivity. Qed.
Lemma slot_some_lt w s a : slot w s = Some a -> (s < length (w_slots w))%nat.
Proof. unfold slot. intros H. apply nth_error_Some. destruct (nth_error (w_slots w) s); [discriminate|discriminate H]. Qed.
Lemma slot_empty_lt w s : slot_empty w s = true -> (s < length (w_slots w))%nat /\ slot w s = None.
Proof.
  unfold slot_empty, slot. destruct (nth_error (w_slots w) s) as [[a|]|] eqn:E; try discriminate. intros _.
  split; [apply nth_error_Some; congruence|reflexivity].
Qed.

Theorem swap_exact_proof w x y a b w' out :
  slot w x = Some a -> slot w y = Some b -> exec_op w (OSwap x y) = Some (w', out) ->
  slot w' x = Some b /\ slot w' y = Some a /\ out = full b ++ full a.
Proof.
  intros Hx Hy H. simpl in H. rewrite Hy, Hx in H. injection H as <- <-.
  pose proof (slot_some_lt _ _ _ Hx) as Lx. pose proof (slot_some_lt _ _ _ Hy) as Ly.
  split; [|split; [|reflexivity]].
  - destruct (Nat.eq_dec y x) as [->|Hne].
    + rewrite slot_set_same; [congruence|]. unfold set_slot; simpl. rewrite upd_length. exact Lx.
    + rewrite slot_set_other by exact Hne. apply slot_set_same. exact Lx.
  - apply slot_set_same. unfold set_slot; simpl. rewrite upd_length. exact Ly.
Qed.

Theorem move_assign_exact_proof w d s a b w' out :
  slot w s = Some a -> slot w d = Some b -> exec_op w (OMoveAssign d s) = Some (w', out) ->
  slot w' d = (if Nat.eqb d s then Some b else Some a) /\ (d <> s -> slot w' d = Some a) /\ out = full a ++ full b.
Proof.
  intros Hs Hd H. simpl in H. rewrite Hs, Hd in H. injection H as <- <-.
  pose proof (slot_some_lt _ _ _ Hs) as Ls. pose proof (slot_some_lt _ _ _ Hd) as Ld.
  assert (X : d <> s -> slot (set_slot (set_slot w d (Some a) (w_next w)) s (Some b) (w_next w)) d = Some a).
  { intros Hne. rewrite slot_set_other by congruence. apply slot_set_same. exact Ld. }
  split; [|split; [exact X|reflexivity]].
  destruct (Nat.eqb d s) eqn:E.
  - apply Nat.eqb_eq in E; subst s. apply slot_set_same. unfold set_slot; simpl. rewrite upd_length. exact Ld.
  - apply Nat.eqb_neq in E. apply X, E.
Qed.

Theorem move_exact_proof w d s a w' out :
  slot w s = Some a -> exec_op w (OMove d s) = Some (w', out) ->
  slot w' d = Some a /\ slot w' s = Some zero_arena /\ contents zero_arena = [].
Proof.
  intros Hs H. simpl in H. rewrite Hs in H. destruct (slot_empty w d) eqn:E; [|discriminate]. injection H as <- <-.
  destruct (slot_empty_lt _ _ E) as (Ld & Nd). pose proof (slot_some_lt _ _ _ Hs) as Ls.
  assert (Hne : s <> d) by (intros ->; congruence).
  split; [|split; [|reflexivity]].
  - rewrite slot_set_other by exact Hne. apply slot_set_same. exact Ld.
  - apply slot_set_same. unfold set_slot; simpl. rewrite upd_length. exact Ls.
Qed.

Theorem copy_op_exact_proof w d s a w' out :
  slot w s = Some a -> arena_ok a -> exec_op w (OCopy d s) = Some (w', out) ->
  exists c, slot w' d = Some c /\ slot w' s = Some a /\ a_pos c = a_pos a /\ contents c = contents a /\
            (forall b bf, get_buf c b = Some bf -> (w_next w <= bid bf)%nat).
Proof.
  intros Hs OK H. simpl in H. rewrite Hs in H. destruct (slot_empty w d) eqn:E; [|discriminate].
  destruct (copy_ctor a (w_next w)) as [[c n]|] eqn:CC; [|discriminate]. injection H as <- <-.
  destruct (slot_empty_lt _ _ E) as (Ld & Nd).
  destruct (copy_equal_proof a (w_next w) OK) as (c' & n' & CC' & P1 & _ & _ & _ & _ & P2 & P3 & _).
  rewrite CC in CC'. injection CC' as <- <-.
  exists c. split; [apply slot_set_same; exact Ld|]. split.
  - rewrite slot_set_other; [exact Hs|]. intros ->. congruence.
  - split; [exact P1|]. split; [exact P2|]. intros b bf G. apply (P3 b bf G).
Qed.

Theorem assign_exact_proof w d s a old w' out :
  slot w s = Some a -> slot w d = Some old -> arena_ok a -> exec_op w (OAssign d s) = Some (w', out) ->
  exists c, slot w' d = Some c /\ a_pos c = a_pos a /\ contents c = contents a /\ (d <> s -> slot w' s = Some a).
Proof.
  intros Hs Hd OK H. simpl in H. rewrite Hs, Hd in H.
  destruct (copy_ctor a (w_next w)) as [[c n]|] eqn:CC; [|discriminate]. injection H as <- _.
  destruct (copy_equal_proof a (w_next w) OK) as (c' & n' & CC' & P1 & _ & _ & _ & _ & P2 & _).
  rewrite CC in CC'. injection CC' as <- <-.
  pose proof (slot_some_lt _ _ _ Hd) as Ld.
  exists c. split; [unfold slot; simpl; rewrite nth_error_upd_eq by exact Ld; reflexivity|].
  split; [exact P1|]. split; [exact P2|].
  intros Hne. unfold slot in *; simpl. rewrite nth_error_upd_neq by exact Hne. exact Hs.
Qed.

Lemma run_sched_reach sched : forall s, reach step s (run_sched s sched).
Proof.
  induction sched as [|[t c] r IH]; intros s; simpl; [apply reach_refl|].
  destruct (step s t [c]) as [[[s1 ch1] site1]|] eqn:E; [|apply IH].
  eapply reach_trans; [|apply IH]. eapply reach_step; [apply reach_refl|exact E].
Qed.

Lemma copy_wf a nid c n' : arena_wf a -> copy_ctor a nid = Some (c, n') -> arena_wf c.
Proof.
  intros (OK & Hp & Hc) E.
  destruct (copy_equal_proof a nid OK) as (c' & n2 & E' & P1 & P2 & P3 & _ & _ & _ & _ & OKc).
  rewrite E in E'. injection E' as <- <-.
  assert (B : a_bsz c = a_bsz a).
  { unfold copy_ctor in E. destruct (a_bpos a >? a_tsz a); [discriminate|]. destruct (copy_entries _ _); [|discriminate].
    injection E as <- _. reflexivity. }
  split; [exact OKc|]. rewrite P1, P2, P3, B. auto.
Qed.
