(* C32, iterators: the bucket-walking iterator of ConcurrentVector denotes the index it was made from, and its
   arithmetic is index arithmetic (also across bucket boundaries). *)
From Coq Require Import ZArith List Bool Lia ZifyBool.
From DV Require Import Base.MachInt Model.CVecModel Proofs.CVecBucketProofs.
Import ListNotations.
Local Open Scope Z_scope.

Ltac Zify.zify_post_hook ::= Z.div_mod_to_equations.

Lemma bucket_start_is_cap shift b : 1 <= b -> bucket_start shift b = bucket_cap shift b.
Proof.
  intros H. unfold bucket_start, bucket_cap. destruct (b <=? 0) eqn:E0; [lia|]. destruct (b <=? 1) eqn:E1; [|reflexivity].
  assert (b = 1) by lia. subst. f_equal. lia.
Qed.

Lemma fit_index_of shift i : 0 <= shift -> 0 <= i -> fit_index (fit_of_index shift i) = i.
Proof.
  intros Hs Hi. unfold fit_index, fit_of_index. rewrite bsi_eta.
  pose proof (bsi_facts shift i Hs Hi) as (B & S & C & E).
  destruct (bkt shift i =? 0) eqn:E0.
  - assert (Z0 : bkt shift i = 0) by lia. rewrite Z0 in E. unfold bucket_start in E. simpl in E. lia.
  - rewrite bucket_start_is_cap in E by lia. lia.
Qed.

Lemma fit_inc_spec shift i : 0 <= shift -> 0 <= i -> fit_inc (fit_of_index shift i) = fit_of_index shift (i + 1).
Proof.
  intros Hs Hi. unfold fit_inc, fit_of_index. rewrite !bsi_eta.
  pose proof (bsi_facts shift i Hs Hi) as (B & S & C & E).
  pose proof (bsi_facts shift (i + 1) Hs ltac:(lia)) as (B' & S' & C' & E').
  destruct (bsi_succ shift i Hs Hi) as [(K0 & K1 & K2 & K3) | (K0 & K1 & K2)].
  - replace (sub shift i + 1 =? capof shift i) with false by lia. rewrite K1, K2, K3. reflexivity.
  - replace (sub shift i + 1 =? capof shift i) with true by lia. rewrite K1, K2. f_equal.
    rewrite C', K1, C. destruct (1 <? bkt shift i + 1) eqn:E1.
    + rewrite bucket_cap_next by lia. lia.
    + assert (Z0 : bkt shift i = 0) by lia. rewrite Z0. reflexivity.
Qed.

Lemma fit_dec_spec shift i : 0 <= shift -> 1 <= i -> fit_dec (fit_of_index shift i) = fit_of_index shift (i - 1).
Proof.
  intros Hs Hi. unfold fit_dec, fit_of_index. rewrite !bsi_eta.
  pose proof (bsi_facts shift (i - 1) Hs ltac:(lia)) as (B & S & C & E).
  destruct (bsi_succ shift (i - 1) Hs ltac:(lia)) as [(K0 & K1 & K2 & K3) | (K0 & K1 & K2)]; replace (i - 1 + 1) with i in * by lia.
  - rewrite K1, K2, K3. replace (sub shift (i - 1) + 1 - 1 <? 0) with false by lia. f_equal. f_equal. lia.
  - rewrite K1, K2. replace (0 - 1 <? 0) with true by lia. replace (bkt shift (i - 1) + 1 =? 0) with false by lia.
    replace (bkt shift (i - 1) + 1 - 1) with (bkt shift (i - 1)) by lia.
    pose proof (bsi_facts shift i Hs ltac:(lia)) as (_ & _ & C' & _). rewrite C', K1.
    assert (L : (if 1 <? bkt shift (i - 1) + 1 then Z.shiftr (bucket_cap shift (bkt shift (i - 1) + 1)) 1 else bucket_cap shift (bkt shift (i - 1) + 1))
                = capof shift (i - 1)).
    { rewrite C. destruct (1 <? bkt shift (i - 1) + 1) eqn:E1.
      - rewrite bucket_cap_next by lia. rewrite Z.shiftr_div_pow2 by lia. change (2 ^ 1) with 2. rewrite Z.mul_comm, Z.div_mul by lia. reflexivity.
      - assert (Z0 : bkt shift (i - 1) = 0) by lia. rewrite Z0. reflexivity. }
    rewrite L. f_equal. f_equal. lia.
Qed.

Lemma fit_add_spec shift i n : 0 <= shift -> 0 <= i -> 0 <= i + n -> fit_add shift (fit_of_index shift i) n = fit_of_index shift (i + n).
Proof.
  intros Hs Hi Hn. unfold fit_add. pose proof (fit_index_of shift i Hs Hi) as FI. unfold fit_of_index in *. rewrite bsi_eta in *.
  pose proof (bsi_facts shift i Hs Hi) as (B & S & C & E).
  destruct ((0 <=? sub shift i + n) && (sub shift i + n <? capof shift i)) eqn:E1.
  - pose proof (bkt_of_start shift (bkt shift i) (sub shift i + n) Hs B ltac:(lia)) as (K1 & K2 & K3).
    replace (bucket_start shift (bkt shift i) + (sub shift i + n)) with (i + n) in * by lia.
    rewrite bsi_eta, K1, K2, K3, C. reflexivity.
  - rewrite FI. reflexivity.
Qed.

Lemma fit_diff_spec shift i j : 0 <= shift -> 0 <= i -> 0 <= j -> fit_diff (fit_of_index shift i) (fit_of_index shift j) = i - j.
Proof.
  intros Hs Hi Hj. pose proof (fit_index_of shift i Hs Hi) as Fi. pose proof (fit_index_of shift j Hs Hj) as Fj.
  unfold fit_diff, fit_index, fit_of_index in *. rewrite !bsi_eta in *.
  pose proof (bsi_facts shift i Hs Hi) as (Bi & Si & Ci & Ei). pose proof (bsi_facts shift j Hs Hj) as (Bj & Sj & Cj & Ej).
  destruct (bkt shift i =? bkt shift j) eqn:E; [|lia].
  assert (Eq : bkt shift i = bkt shift j) by lia. rewrite Eq in Ei. lia.
Qed.

Lemma fit_lt_spec shift i j : 0 <= shift -> 0 <= i -> 0 <= j -> fit_lt (fit_of_index shift i) (fit_of_index shift j) = (i <? j).
Proof.
  intros Hs Hi Hj. unfold fit_lt, fit_of_index. rewrite !bsi_eta.
  pose proof (bsi_facts shift i Hs Hi) as (Bi & Si & Ci & Ei). pose proof (bsi_facts shift j Hs Hj) as (Bj & Sj & Cj & Ej).
  destruct (Z.lt_trichotomy (bkt shift i) (bkt shift j)) as [Lt|[Eq|Gt]].
  - replace (bkt shift i <? bkt shift j) with true by lia. simpl.
    destruct (Z_lt_ge_dec i j) as [L|G]; [lia|]. pose proof (bkt_mono shift j i Hs ltac:(lia)). lia.
  - replace (bkt shift i <? bkt shift j) with false by lia. replace (bkt shift i =? bkt shift j) with true by lia. simpl.
    rewrite Eq in Ei. lia.
  - replace (bkt shift i <? bkt shift j) with false by lia. replace (bkt shift i =? bkt shift j) with false by lia. simpl.
    destruct (Z_lt_ge_dec i j) as [L|G]; [|lia]. pose proof (bkt_mono shift i j Hs ltac:(lia)). lia.
Qed.

Lemma fit_eq_spec shift i j : 0 <= shift -> 0 <= i -> 0 <= j -> fit_eq (fit_of_index shift i) (fit_of_index shift j) = (i =? j).
Proof.
  intros Hs Hi Hj. unfold fit_eq, fit_of_index. rewrite !bsi_eta.
  pose proof (bsi_facts shift i Hs Hi) as (Bi & Si & Ci & Ei). pose proof (bsi_facts shift j Hs Hj) as (Bj & Sj & Cj & Ej).
  destruct (i =? j) eqn:E.
  - assert (i = j) by lia. subst j. rewrite !Z.eqb_refl. reflexivity.
  - destruct ((bkt shift i =? bkt shift j) && (sub shift i =? sub shift j)) eqn:E2; [|reflexivity].
    exfalso. assert (i = j); [|lia]. apply (bsi_inj shift); lia.
Qed.
