(* C35: SPSCRingBuffer is an exactly-once bounded FIFO -- invariant over all interleavings of Model/SpscModel.v *)
From Coq Require Import ZArith List Bool Lia.
From DV Require Import Base.MachInt Base.Sched Base.Life Model.SpscModel.
Import ListNotations.
Local Open Scope Z_scope.

(* ================= ring index arithmetic ================= *)
Lemma is_pow2_log2 k : 0 < k -> is_pow2 k = true -> k = 2 ^ Z.log2 k.
Proof.
  intros Hk E. unfold is_pow2 in E. apply Z.eqb_eq in E.
  destruct (Z.log2_spec k Hk) as [L U].
  destruct (Z.eq_dec k (2 ^ Z.log2 k)) as [|N]; [assumption|exfalso].
  assert (Hn : 0 <= Z.log2 k) by apply Z.log2_nonneg.
  assert (L1 : Z.log2 (k - 1) = Z.log2 k).
  { apply Z.log2_unique; [exact Hn|]. rewrite Z.pow_succ_r in * by exact Hn. lia. }
  assert (B1 : Z.testbit k (Z.log2 k) = true) by (apply Z.bit_log2; exact Hk).
  assert (B2 : Z.testbit (k - 1) (Z.log2 k) = true).
  { rewrite <- L1. apply Z.bit_log2. assert (0 < 2 ^ Z.log2 k) by (apply Z.pow_pos_nonneg; lia). lia. }
  assert (B3 : Z.testbit (Z.land k (k - 1)) (Z.log2 k) = true) by (rewrite Z.land_spec, B1, B2; reflexivity).
  rewrite E, Z.bits_0 in B3. discriminate.
Qed.

Lemma ring_wrap_mod k i : 0 < k -> ring_wrap k i = i mod k.
Proof.
  intros Hk. unfold ring_wrap. destruct (is_pow2 k) eqn:E; [|reflexivity].
  pose proof (is_pow2_log2 k Hk E) as P.
  assert (Hn : 0 <= Z.log2 k) by apply Z.log2_nonneg.
  replace (k - 1) with (Z.ones (Z.log2 k)) by (rewrite Z.ones_equiv; lia).
  rewrite Z.land_ones by exact Hn. rewrite <- P. reflexivity.
Qed.

Lemma two63_lt_64 : 2 ^ 63 < 2 ^ 64. Proof. reflexivity. Qed.

Lemma increment_mod k i : 0 < k -> 0 <= i < k -> k < 2 ^ 63 -> increment k i = (i + 1) mod k.
Proof.
  intros Hk Hi Hb. unfold increment. rewrite wrap_small by (pose proof two63_lt_64; lia). apply ring_wrap_mod. exact Hk.
Qed.

Lemma mod_window k a p q : 0 < k -> a <= p < a + k -> a <= q < a + k -> p mod k = q mod k -> p = q.
Proof.
  intros Hk Hp Hq E.
  pose proof (Z.div_mod p k ltac:(lia)) as Dp. pose proof (Z.div_mod q k ltac:(lia)) as Dq.
  rewrite E in Dp.
  assert (p / k = q / k) by nia.
  congruence.
Qed.

Lemma mod_plus_k a k : 0 < k -> (a + k) mod k = a mod k.
Proof. intros. replace (a + k) with (a + 1 * k) by lia. apply Z_mod_plus_full. Qed.

Lemma succ_mod a k : 0 < k -> ((a mod k) + 1) mod k = (a + 1) mod k.
Proof. intros. rewrite Zplus_mod_idemp_l. reflexivity. Qed.

(* ================= lists ================= *)
Definition zlen {A} (l : list A) : Z := Z.of_nat (length l).

Lemma zlen_app {A} (a b : list A) : zlen (a ++ b) = zlen a + zlen b.
Proof. unfold zlen. rewrite app_length. lia. Qed.
Lemma zlen_nonneg {A} (l : list A) : 0 <= zlen l. Proof. unfold zlen. lia. Qed.
Lemma zlen_nil {A} : zlen (@nil A) = 0. Proof. reflexivity. Qed.
Lemma zlen_one {A} (x : A) : zlen [x] = 1. Proof. reflexivity. Qed.

Lemma nth_z_app1 (l l' : list Z) p : 0 <= p < zlen l -> nth (Z.to_nat p) (l ++ l') 0 = nth (Z.to_nat p) l 0.
Proof. unfold zlen. intros. apply app_nth1. lia. Qed.

Lemma nth_z_last (l : list Z) v : nth (Z.to_nat (zlen l)) (l ++ [v]) 0 = v.
Proof. unfold zlen. rewrite Nat2Z.id. rewrite app_nth2 by lia. rewrite Nat.sub_diag. reflexivity. Qed.

Lemma firstn_succ_nth (l : list Z) n : (n < length l)%nat -> firstn (S n) l = firstn n l ++ [nth n l 0].
Proof.
  revert n; induction l as [|a l IH]; intros n H; [simpl in H; lia|].
  destruct n as [|n]; [reflexivity|]. simpl in H.
  rewrite (firstn_cons (S n) a l), (firstn_cons n a l). change (nth (S n) (a :: l) 0) with (nth n l 0).
  rewrite (IH n) by lia. reflexivity.
Qed.

Lemma firstn_app_le {A} (l l' : list A) n : (n <= length l)%nat -> firstn n (l ++ l') = firstn n l.
Proof.
  intros H. rewrite firstn_app. replace (n - length l)%nat with 0%nat by lia. simpl. apply app_nil_r.
Qed.

(* ---- values in a result log ---- *)
Lemma vals_of_cons tag t v r : vals_of tag ((t, v) :: r) = vals_of tag r ++ (if t =? tag then [v] else []).
Proof.
  unfold vals_of. cbn [rev]. rewrite filter_app, map_app. f_equal. cbn [filter fst]. destruct (t =? tag); reflexivity.
Qed.

Lemma vals_of_logrs tag t vs r :
  vals_of tag (rev (map (fun v => (t, v)) vs) ++ r) = vals_of tag r ++ (if t =? tag then vs else []).
Proof.
  unfold vals_of. rewrite rev_app_distr, rev_involutive, filter_app, map_app. f_equal.
  induction vs as [|v vs IH]; [destruct (t =? tag); reflexivity|].
  cbn [map filter fst]. destruct (t =? tag) eqn:E; cbn [map snd]; [f_equal|]; exact IH.
Qed.

(* ================= lifetime ledger helpers ================= *)
Lemma take_lget i l j : lget l i = Alive -> lget (destroy i (move_from i l)) j = if i =? j then Dead else lget l j.
Proof.
  intros A.
  assert (L1 : is_live (lget l i) = true) by (rewrite A; reflexivity).
  assert (L2 : is_live (lget (move_from i l) i) = true).
  { rewrite lget_move_from_live by exact L1. rewrite Z.eqb_refl. reflexivity. }
  rewrite lget_destroy_live by exact L2. destruct (i =? j) eqn:E; [reflexivity|].
  rewrite lget_move_from_live by exact L1. rewrite E. reflexivity.
Qed.

Lemma take_errs i l : lget l i = Alive -> l_errs (destroy i (move_from i l)) = l_errs l.
Proof.
  intros A.
  assert (L1 : is_live (lget l i) = true) by (rewrite A; reflexivity).
  assert (L2 : is_live (lget (move_from i l) i) = true).
  { rewrite lget_move_from_live by exact L1. rewrite Z.eqb_refl. reflexivity. }
  rewrite errs_destroy_live by exact L2. apply errs_move_from_live. exact L1.
Qed.

(* ================= the global invariant on (indices, slots, ledger, logs) =================
   pu = values accepted so far (committed by a tail store), po = values delivered so far (committed by a head store),
   pw = values written by the push operation in flight, pr = values read by the pop operation in flight.
   Positions are counted from 0 without wrapping: position p lives in slot p mod k. *)
Definition G (k h t : Z) (sl : Z -> Z) (l : ledger) (pu po pr pw : list Z) : Prop :=
  (2 <= k < 2 ^ 63) /\ h = zlen po mod k /\ t = zlen pu mod k /\
  zlen po + zlen pr <= zlen pu /\ zlen pu + zlen pw <= zlen po + k - 1 /\
  po ++ pr = firstn (Z.to_nat (zlen po + zlen pr)) pu /\
  (forall p, zlen po <= p < zlen pu + zlen pw -> sl (p mod k) = nth (Z.to_nat p) (pu ++ pw) 0) /\
  (forall p, zlen po + zlen pr <= p < zlen pu + zlen pw -> lget l (p mod k) = Alive) /\
  (forall p, zlen pu + zlen pw <= p < zlen po + zlen pr + k -> is_live (lget l (p mod k)) = false) /\
  l_errs l = [].

Lemma G_init k : 2 <= k < 2 ^ 63 -> G k 0 0 (fun _ => 0) ledger0 [] [] [] [].
Proof.
  intros Kb. unfold G, zlen. cbn [length app Z.of_nat].
  split; [exact Kb|]. split; [rewrite Z.mod_0_l; lia|]. split; [rewrite Z.mod_0_l; lia|].
  split; [lia|]. split; [lia|]. split; [reflexivity|].
  split; [intros p Hp; lia|]. split; [intros p Hp; lia|]. split; [intros p Hp; reflexivity | reflexivity].
Qed.

(* placement-new of v at the next free position *)
Lemma G_write k h t sl l pu po pr pw v :
  G k h t sl l pu po pr pw -> zlen pu + zlen pw < zlen po + k - 1 ->
  G k h t (fupd sl ((zlen pu + zlen pw) mod k) v) (construct KMove ((zlen pu + zlen pw) mod k) l) pu po pr (pw ++ [v]).
Proof.
  intros (Kb & Eh & Et & B1 & B2 & P1 & V1 & L1 & L2 & Ok) Lt.
  pose proof (zlen_nonneg pr) as Npr. pose proof (zlen_nonneg pw) as Npw. pose proof (zlen_nonneg po) as Npo.
  set (i := (zlen pu + zlen pw) mod k).
  unfold G. rewrite zlen_app, zlen_one.
  split; [exact Kb|]. split; [exact Eh|]. split; [exact Et|]. split; [exact B1|]. split; [lia|]. split; [exact P1|].
  split; [|split; [|split]].
  - intros p Hp. unfold fupd. rewrite app_assoc.
    destruct (Z.eq_dec p (zlen pu + zlen pw)) as [->|N].
    + fold i. rewrite Z.eqb_refl. rewrite <- zlen_app. apply eq_sym, nth_z_last.
    + destruct (p mod k =? i) eqn:E.
      * apply Z.eqb_eq in E. exfalso. apply N. apply (mod_window k (zlen po)); [lia | lia | lia | exact E].
      * rewrite nth_z_app1 by (rewrite zlen_app; lia). apply V1. lia.
  - intros p Hp. rewrite lget_construct. destruct (i =? p mod k) eqn:E; [reflexivity|]. apply L1.
    destruct (Z.eq_dec p (zlen pu + zlen pw)) as [->|N]; [|lia]. unfold i in E. rewrite Z.eqb_refl in E. discriminate.
  - intros p Hp. rewrite lget_construct. destruct (i =? p mod k) eqn:E.
    + apply Z.eqb_eq in E. exfalso.
      assert (zlen pu + zlen pw = p); [|lia]. apply (mod_window k (zlen po + zlen pr)); [lia | lia | lia | exact E].
    + apply L2. lia.
  - rewrite errs_construct_fresh; [exact Ok|]. apply L2. lia.
Qed.

(* tail store: the values in flight become visible *)
Lemma G_commit_w k h t sl l pu po pr pw :
  G k h t sl l pu po pr pw -> G k h ((zlen pu + zlen pw) mod k) sl l (pu ++ pw) po pr [].
Proof.
  intros (Kb & Eh & Et & B1 & B2 & P1 & V1 & L1 & L2 & Ok).
  pose proof (zlen_nonneg pr) as Npr. pose proof (zlen_nonneg pw) as Npw. pose proof (zlen_nonneg po) as Npo.
  unfold G. rewrite zlen_app, zlen_nil, app_nil_r, !Z.add_0_r.
  split; [exact Kb|]. split; [exact Eh|]. split; [reflexivity|]. split; [lia|]. split; [exact B2|].
  split; [|split; [exact V1|split; [exact L1|split; [exact L2|exact Ok]]]].
  rewrite firstn_app_le; [exact P1|]. unfold zlen in *. lia.
Qed.

(* move-out + destructor of the oldest element not yet read *)
Lemma G_take k h t sl l pu po pr pw :
  G k h t sl l pu po pr pw -> zlen po + zlen pr < zlen pu ->
  G k h t sl (destroy ((zlen po + zlen pr) mod k) (move_from ((zlen po + zlen pr) mod k) l)) pu po
    (pr ++ [sl ((zlen po + zlen pr) mod k)]) pw.
Proof.
  intros (Kb & Eh & Et & B1 & B2 & P1 & V1 & L1 & L2 & Ok) Lt.
  pose proof (zlen_nonneg pr) as Npr. pose proof (zlen_nonneg pw) as Npw. pose proof (zlen_nonneg po) as Npo.
  set (i := (zlen po + zlen pr) mod k).
  assert (A : lget l i = Alive) by (apply L1; lia).
  unfold G. rewrite zlen_app, zlen_one.
  split; [exact Kb|]. split; [exact Eh|]. split; [exact Et|]. split; [lia|]. split; [exact B2|].
  split; [|split; [exact V1|split; [|split]]].
  - rewrite app_assoc, P1. unfold i. rewrite V1 by lia. rewrite nth_z_app1 by lia.
    replace (Z.to_nat (zlen po + (zlen pr + 1))) with (S (Z.to_nat (zlen po + zlen pr))) by lia.
    rewrite firstn_succ_nth; [reflexivity|]. unfold zlen in *. lia.
  - intros p Hp. rewrite take_lget by exact A. destruct (i =? p mod k) eqn:E; [|apply L1; lia].
    apply Z.eqb_eq in E. exfalso.
    assert (zlen po + zlen pr = p); [|lia]. apply (mod_window k (zlen po + zlen pr)); [lia | lia | lia | exact E].
  - intros p Hp. rewrite take_lget by exact A. destruct (i =? p mod k) eqn:E; [reflexivity|]. apply L2.
    destruct (Z.eq_dec p (zlen po + zlen pr + k)) as [->|N]; [|lia].
    unfold i in E. rewrite mod_plus_k, Z.eqb_refl in E by lia. discriminate.
  - rewrite take_errs by exact A. exact Ok.
Qed.

(* head store: the values read in flight are delivered *)
Lemma G_commit_r k h t sl l pu po pr pw :
  G k h t sl l pu po pr pw -> G k ((zlen po + zlen pr) mod k) t sl l pu (po ++ pr) [] pw.
Proof.
  intros (Kb & Eh & Et & B1 & B2 & P1 & V1 & L1 & L2 & Ok).
  pose proof (zlen_nonneg pr) as Npr. pose proof (zlen_nonneg pw) as Npw. pose proof (zlen_nonneg po) as Npo.
  unfold G. rewrite zlen_app, zlen_nil, app_nil_r, !Z.add_0_r.
  split; [exact Kb|]. split; [reflexivity|]. split; [exact Et|]. split; [exact B1|]. split; [lia|]. split; [exact P1|].
  split; [|split; [exact L1|split; [exact L2|exact Ok]]].
  intros p Hp. apply V1. lia.
Qed.

(* ================= threads ================= *)
Definition prod_op (o : op) : Prop :=
  match o with OPush _ | OPushBatch _ | OSize | OEmpty | OFull => True | _ => False end.
Definition cons_op (o : op) : Prop :=
  match o with OPop | OSize | OEmpty | OFull => True | OPopBatch m => 0 <= m | _ => False end.

(* values written / read by the operation in flight *)
Definition wl (p : pc) : list Z :=
  match p with PPushStoreTail v _ => [v] | PBWrite _ _ _ _ wr => wr | PBStoreTail _ _ wr => wr | _ => [] end.
Definition rl (p : pc) : list Z :=
  match p with PPopStoreHead _ v => [v] | PQRead _ _ _ acc => acc | PQStoreHead _ _ acc => acc | _ => [] end.

(* what the producer knows at each program point (tl = tail, T = #accepted, H = #delivered) *)
Definition prod_facts (k tl T H : Z) (p : pc) : Prop :=
  match p with
  | PStart | PDone | PPushLoadTail _ | PBLoadTail _ | PSizeLoadHead | PSizeLoadTail _ | PEmpty | PFull => True
  | PPushLoadHead v ct => ct = tl
  | PPushWrite v ct => ct = tl /\ T - H < k - 1
  | PPushStoreTail v ct => ct = tl
  | PBLoadHead vs ct => ct = tl
  | PBWrite vs tp cnt avail wr => vs <> [] /\ tp = (T + cnt) mod k /\ cnt = zlen wr /\ cnt < avail /\ T + avail - H <= k - 1
  | PBStoreTail tp cnt wr => tp = (T + cnt) mod k /\ cnt = zlen wr /\ 0 < cnt
  | _ => False
  end.

(* what the consumer knows at each program point (hd = head) *)
Definition cons_facts (k hd T H : Z) (p : pc) : Prop :=
  match p with
  | PStart | PDone | PPopLoadHead | PSizeLoadHead | PSizeLoadTail _ | PEmpty | PFull => True
  | PPopLoadTail c => c = hd
  | PPopRead c => c = hd /\ H < T
  | PPopStoreHead c v => c = hd
  | PQLoadHead m => 0 <= m
  | PQLoadTail m c => c = hd /\ 0 <= m
  | PQRead hp i cnt acc => hp = (H + i) mod k /\ i = zlen acc /\ i < cnt /\ H + cnt <= T
  | PQStoreHead hp cnt acc => hp = (H + cnt) mod k /\ cnt = zlen acc /\ 0 < cnt
  | _ => False
  end.

Definition Inv (s : state) : Prop :=
  G (K s) (head s) (tail s) (slots s) (led s) (pushed s) (popped s) (rl (tpc (th1 s))) (wl (tpc (th0 s))) /\
  prod_facts (K s) (tail s) (zlen (pushed s)) (zlen (popped s)) (tpc (th0 s)) /\
  cons_facts (K s) (head s) (zlen (pushed s)) (zlen (popped s)) (tpc (th1 s)) /\
  Forall prod_op (prog (th0 s)) /\ Forall cons_op (prog (th1 s)).

Lemma prod_facts_mono k tl T H H' p : H <= H' -> prod_facts k tl T H p -> prod_facts k tl T H' p.
Proof. intros L. destruct p; cbn; try tauto; intros; intuition lia. Qed.

Lemma cons_facts_mono k hd T T' H p : T <= T' -> cons_facts k hd T H p -> cons_facts k hd T' H p.
Proof. intros L. destruct p; cbn; try tauto; intros; intuition lia. Qed.

Lemma next_res th : res (next th) = res th.
Proof. unfold next. destruct (prog th); reflexivity. Qed.
Lemma next_wl th : wl (tpc (next th)) = [].
Proof. unfold next. destruct (prog th) as [|o r]; [reflexivity|]. destruct o; reflexivity. Qed.
Lemma next_rl th : rl (tpc (next th)) = [].
Proof. unfold next. destruct (prog th) as [|o r]; [reflexivity|]. destruct o; reflexivity. Qed.

Lemma next_prod k tl T H th : Forall prod_op (prog th) ->
  prod_facts k tl T H (tpc (next th)) /\ Forall prod_op (prog (next th)).
Proof.
  intros F. unfold next. destruct (prog th) as [|o r]; cbn; [split; [exact I | constructor]|].
  inversion F as [|? ? Fo Fr]; subst. split; [|exact Fr]. destruct o; cbn in *; tauto.
Qed.

Lemma next_cons k hd T H th : Forall cons_op (prog th) ->
  cons_facts k hd T H (tpc (next th)) /\ Forall cons_op (prog (next th)).
Proof.
  intros F. unfold next. destruct (prog th) as [|o r]; cbn; [split; [exact I | constructor]|].
  inversion F as [|? ? Fo Fr]; subst. split; [|exact Fr]. destruct o; cbn in *; tauto.
Qed.

Lemma prog_logr th a b : prog (logr th a b) = prog th. Proof. reflexivity. Qed.
Lemma prog_logrs th a b : prog (logrs th a b) = prog th. Proof. reflexivity. Qed.

(* a step of thread 0 that leaves head and thread 1 alone *)
Lemma prod_step_inv s th' tl' sl' l' :
  Inv s ->
  G (K s) (head s) tl' sl' l' (vals_of r_push (res th')) (popped s) (rl (tpc (th1 s))) (wl (tpc th')) ->
  prod_facts (K s) tl' (zlen (vals_of r_push (res th'))) (zlen (popped s)) (tpc th') ->
  zlen (pushed s) <= zlen (vals_of r_push (res th')) ->
  Forall prod_op (prog th') ->
  Inv (ST (K s) (head s) tl' sl' l' th' (th1 s)).
Proof.
  intros (_ & _ & CF & _ & FC) Gn PF Le FP. unfold Inv, pushed, popped. cbn [K head tail slots led th0 th1].
  split; [exact Gn|]. split; [exact PF|]. split; [|split; [exact FP | exact FC]].
  eapply cons_facts_mono; [exact Le | exact CF].
Qed.

(* a step of thread 1 that leaves tail, slots and thread 0 alone *)
Lemma cons_step_inv s th' hd' l' :
  Inv s ->
  G (K s) hd' (tail s) (slots s) l' (pushed s) (vals_of r_pop (res th')) (rl (tpc th')) (wl (tpc (th0 s))) ->
  cons_facts (K s) hd' (zlen (pushed s)) (zlen (vals_of r_pop (res th'))) (tpc th') ->
  zlen (popped s) <= zlen (vals_of r_pop (res th')) ->
  Forall cons_op (prog th') ->
  Inv (ST (K s) hd' (tail s) (slots s) l' (th0 s) th').
Proof.
  intros (_ & PF & _ & FP & _) Gn CF Le FC. unfold Inv, pushed, popped. cbn [K head tail slots led th0 th1].
  split; [exact Gn|]. split; [|split; [exact CF | split; [exact FP | exact FC]]].
  eapply prod_facts_mono; [exact Le | exact PF].
Qed.
