(* C35: SPSCRingBuffer is an exactly-once bounded FIFO -- invariant over all interleavings of Model/SpscModel.v *)
From Coq Require Import ZArith List Bool Lia.
From DV Require Import Base.MachInt Base.Sched Base.Life Model.SpscModel.
Import ListNotations.
Local Open Scope Z_scope.

(* ================= ring index arithmetic ================= *)
Lemma is_pow2_log2 k : 0 < k -> is_pow2 k = true -> k = 2 ^ Z.log2 k.
Proof.
  intros Hk E. unfold is_pow2 in E. apply Z.eqb_eq in E.
  destruct (Z.log2_spec k Hk) as [L U].
  destruct (Z.eq_dec k (2 ^ Z.log2 k)) as [|N]; [assumption|exfalso].
  assert (Hn : 0 <= Z.log2 k) by apply Z.log2_nonneg.
  assert (L1 : Z.log2 (k - 1) = Z.log2 k).
  { apply Z.log2_unique; [exact Hn|]. rewrite Z.pow_succ_r in * by exact Hn. lia. }
  assert (B1 : Z.testbit k (Z.log2 k) = true) by (apply Z.bit_log2; exact Hk).
  assert (B2 : Z.testbit (k - 1) (Z.log2 k) = true).
  { rewrite <- L1. apply Z.bit_log2. assert (0 < 2 ^ Z.log2 k) by (apply Z.pow_pos_nonneg; lia). lia. }
  assert (B3 : Z.testbit (Z.land k (k - 1)) (Z.log2 k) = true) by (rewrite Z.land_spec, B1, B2; reflexivity).
  rewrite E, Z.bits_0 in B3. discriminate.
Qed.

Lemma ring_wrap_mod k i : 0 < k -> ring_wrap k i = i mod k.
Proof.
  intros Hk. unfold ring_wrap. destruct (is_pow2 k) eqn:E; [|reflexivity].
  pose proof (is_pow2_log2 k Hk E) as P.
  assert (Hn : 0 <= Z.log2 k) by apply Z.log2_nonneg.
  replace (k - 1) with (Z.ones (Z.log2 k)) by (rewrite Z.ones_equiv; lia).
  rewrite Z.land_ones by exact Hn. rewrite <- P. reflexivity.
Qed.

Lemma two63_lt_64 : 2 ^ 63 < 2 ^ 64. Proof. reflexivity. Qed.

Lemma increment_mod k i : 0 < k -> 0 <= i < k -> k < 2 ^ 63 -> increment k i = (i + 1) mod k.
Proof.
  intros Hk Hi Hb. unfold increment. rewrite wrap_small by (pose proof two63_lt_64; lia). apply ring_wrap_mod. exact Hk.
Qed.

Lemma mod_window k a p q : 0 < k -> a <= p < a + k -> a <= q < a + k -> p mod k = q mod k -> p = q.
Proof.
  intros Hk Hp Hq E.
  pose proof (Z.div_mod p k ltac:(lia)) as Dp. pose proof (Z.div_mod q k ltac:(lia)) as Dq.
  rewrite E in Dp.
  assert (p / k = q / k) by nia.
  congruence.
Qed.

Lemma mod_plus_k a k : 0 < k -> (a + k) mod k = a mod k.
Proof. intros. replace (a + k) with (a + 1 * k) by lia. apply Z_mod_plus_full. Qed.

Lemma succ_mod a k : 0 < k -> ((a mod k) + 1) mod k = (a + 1) mod k.
Proof. intros. rewrite Zplus_mod_idemp_l. reflexivity. Qed.

(* ================= lists ================= *)
Definition zlen {A} (l : list A) : Z := Z.of_nat (length l).

Lemma zlen_app {A} (a b : list A) : zlen (a ++ b) = zlen a + zlen b.
Proof. unfold zlen. rewrite app_length. lia. Qed.
Lemma zlen_nonneg {A} (l : list A) : 0 <= zlen l. Proof. unfold zlen. lia. Qed.
Lemma zlen_nil {A} : zlen (@nil A) = 0. Proof. reflexivity. Qed.
Lemma zlen_one {A} (x : A) : zlen [x] = 1. Proof. reflexivity. Qed.

Lemma nth_z_app1 (l l' : list Z) p : 0 <= p < zlen l -> nth (Z.to_nat p) (l ++ l') 0 = nth (Z.to_nat p) l 0.
Proof. unfold zlen. intros. apply app_nth1. lia. Qed.

Lemma nth_z_last (l : list Z) v : nth (Z.to_nat (zlen l)) (l ++ [v]) 0 = v.
Proof. unfold zlen. rewrite Nat2Z.id. rewrite app_nth2 by lia. rewrite Nat.sub_diag. reflexivity. Qed.

Lemma firstn_succ_nth (l : list Z) n : (n < length l)%nat -> firstn (S n) l = firstn n l ++ [nth n l 0].
Proof.
  revert n; induction l as [|a l IH]; intros n H; [simpl in H; lia|].
  destruct n as [|n]; [reflexivity|]. simpl in H.
  rewrite (firstn_cons (S n) a l), (firstn_cons n a l). change (nth (S n) (a :: l) 0) with (nth n l 0).
  rewrite (IH n) by lia. reflexivity.
Qed.

Lemma firstn_app_le {A} (l l' : list A) n : (n <= length l)%nat -> firstn n (l ++ l') = firstn n l.
Proof.
  intros H. rewrite firstn_app. replace (n - length l)%nat with 0%nat by lia. simpl. apply app_nil_r.
Qed.

(* ---- values in a result log ---- *)
Lemma vals_of_cons tag t v r : vals_of tag ((t, v) :: r) = vals_of tag r ++ (if t =? tag then [v] else []).
Proof.
  unfold vals_of. cbn [rev]. rewrite filter_app, map_app. f_equal. cbn [filter fst]. destruct (t =? tag); reflexivity.
Qed.

Lemma vals_of_logrs tag t vs r :
  vals_of tag (rev (map (fun v => (t, v)) vs) ++ r) = vals_of tag r ++ (if t =? tag then vs else []).
Proof.
  unfold vals_of. rewrite rev_app_distr, rev_involutive, filter_app, map_app. f_equal.
  induction vs as [|v vs IH]; [destruct (t =? tag); reflexivity|].
  cbn [map filter fst]. destruct (t =? tag) eqn:E; cbn [map snd]; [f_equal|]; exact IH.
Qed.

(* ================= lifetime ledger helpers ================= *)
Lemma take_lget i l j : lget l i = Alive -> lget (destroy i (move_from i l)) j = if i =? j then Dead else lget l j.
Proof.
  intros A.
  assert (L1 : is_live (lget l i) = true) by (rewrite A; reflexivity).
  assert (L2 : is_live (lget (move_from i l) i) = true).
  { rewrite lget_move_from_live by exact L1. rewrite Z.eqb_refl. reflexivity. }
  rewrite lget_destroy_live by exact L2. destruct (i =? j) eqn:E; [reflexivity|].
  rewrite lget_move_from_live by exact L1. rewrite E. reflexivity.
Qed.

Lemma take_errs i l : lget l i = Alive -> l_errs (destroy i (move_from i l)) = l_errs l.
Proof.
  intros A.
  assert (L1 : is_live (lget l i) = true) by (rewrite A; reflexivity).
  assert (L2 : is_live (lget (move_from i l) i) = true).
  { rewrite lget_move_from_live by exact L1. rewrite Z.eqb_refl. reflexivity. }
  rewrite errs_destroy_live by exact L2. apply errs_move_from_live. exact L1.
Qed.

(* ================= the global invariant on (indices, slots, ledger, logs) =================
   pu = values accepted so far (committed by a tail store), po = values delivered so far (committed by a head store),
   pw = values written by the push operation in flight, pr = values moved out by the pop operation in flight, d = how many
   of the latter have also been destroyed (d <= |pr| <= d + 1 in every reachable state: the element moved out last may still
   await its destructor call).
   Positions are counted from 0 without wrapping: position p lives in slot p mod k. *)
Definition G (k h t : Z) (sl : Z -> Z) (l : ledger) (pu po pr : list Z) (d : Z) (pw : list Z) : Prop :=
  (2 <= k < 2 ^ 63) /\ h = zlen po mod k /\ t = zlen pu mod k /\
  zlen po + zlen pr <= zlen pu /\ zlen pu + zlen pw <= zlen po + k - 1 /\
  0 <= d <= zlen pr /\
  po ++ pr = firstn (Z.to_nat (zlen po + zlen pr)) pu /\
  (forall p, zlen po <= p < zlen pu + zlen pw -> sl (p mod k) = nth (Z.to_nat p) (pu ++ pw) 0) /\
  (forall p, zlen po + zlen pr <= p < zlen pu + zlen pw -> lget l (p mod k) = Alive) /\
  (forall p, zlen po + d <= p < zlen po + zlen pr -> lget l (p mod k) = MovedFrom) /\
  (forall p, zlen pu + zlen pw <= p < zlen po + d + k -> is_live (lget l (p mod k)) = false) /\
  l_errs l = [].

Lemma G_init k : 2 <= k < 2 ^ 63 -> G k 0 0 (fun _ => 0) ledger0 [] [] [] 0 [].
Proof.
  intros Kb. unfold G, zlen. cbn [length app Z.of_nat].
  split; [exact Kb|]. split; [rewrite Z.mod_0_l; lia|]. split; [rewrite Z.mod_0_l; lia|].
  split; [lia|]. split; [lia|]. split; [lia|]. split; [reflexivity|].
  split; [intros p Hp; lia|]. split; [intros p Hp; lia|]. split; [intros p Hp; lia|]. split; [intros p Hp; reflexivity | reflexivity].
Qed.

(* placement-new of v at the next free position *)
Lemma G_write k h t sl l pu po pr d pw v :
  G k h t sl l pu po pr d pw -> zlen pu + zlen pw < zlen po + k - 1 ->
  G k h t (fupd sl ((zlen pu + zlen pw) mod k) v) (construct KMove ((zlen pu + zlen pw) mod k) l) pu po pr d (pw ++ [v]).
Proof.
  intros (Kb & Eh & Et & B1 & B2 & Bd & P1 & V1 & L1 & Lm & L2 & Ok) Lt.
  pose proof (zlen_nonneg pr) as Npr. pose proof (zlen_nonneg pw) as Npw. pose proof (zlen_nonneg po) as Npo.
  set (i := (zlen pu + zlen pw) mod k).
  unfold G. rewrite zlen_app, zlen_one.
  split; [exact Kb|]. split; [exact Eh|]. split; [exact Et|]. split; [exact B1|]. split; [lia|]. split; [exact Bd|]. split; [exact P1|].
  split; [|split; [|split; [|split]]].
  - intros p Hp. unfold fupd. rewrite app_assoc.
    destruct (Z.eq_dec p (zlen pu + zlen pw)) as [->|N].
    + fold i. rewrite Z.eqb_refl. rewrite <- zlen_app. apply eq_sym, nth_z_last.
    + destruct (p mod k =? i) eqn:E.
      * apply Z.eqb_eq in E. exfalso. apply N. apply (mod_window k (zlen po)); [lia | lia | lia | exact E].
      * rewrite nth_z_app1 by (rewrite zlen_app; lia). apply V1. lia.
  - intros p Hp. rewrite lget_construct. destruct (i =? p mod k) eqn:E; [reflexivity|]. apply L1.
    destruct (Z.eq_dec p (zlen pu + zlen pw)) as [->|N]; [|lia]. unfold i in E. rewrite Z.eqb_refl in E. discriminate.
  - intros p Hp. rewrite lget_construct. destruct (i =? p mod k) eqn:E; [|apply Lm; exact Hp].
    apply Z.eqb_eq in E. exfalso.
    assert (zlen pu + zlen pw = p); [|lia]. apply (mod_window k (zlen po)); [lia | lia | lia | exact E].
  - intros p Hp. rewrite lget_construct. destruct (i =? p mod k) eqn:E.
    + apply Z.eqb_eq in E. exfalso.
      assert (zlen pu + zlen pw = p); [|lia]. apply (mod_window k (zlen po + d)); [lia | lia | lia | exact E].
    + apply L2. lia.
  - rewrite errs_construct_fresh; [exact Ok|]. apply L2. lia.
Qed.

(* tail store: the values in flight become visible *)
Lemma G_commit_w k h t sl l pu po pr d pw :
  G k h t sl l pu po pr d pw -> G k h ((zlen pu + zlen pw) mod k) sl l (pu ++ pw) po pr d [].
Proof.
  intros (Kb & Eh & Et & B1 & B2 & Bd & P1 & V1 & L1 & Lm & L2 & Ok).
  pose proof (zlen_nonneg pr) as Npr. pose proof (zlen_nonneg pw) as Npw. pose proof (zlen_nonneg po) as Npo.
  unfold G. rewrite zlen_app, zlen_nil, app_nil_r, !Z.add_0_r.
  split; [exact Kb|]. split; [exact Eh|]. split; [reflexivity|]. split; [lia|]. split; [exact B2|]. split; [exact Bd|].
  split; [|split; [exact V1|split; [exact L1|split; [exact Lm|split; [exact L2|exact Ok]]]]].
  rewrite firstn_app_le; [exact P1|]. unfold zlen in *. lia.
Qed.

(* move-out of the oldest element not yet read (its destructor has not run yet) *)
Lemma G_move k h t sl l pu po pr d pw :
  G k h t sl l pu po pr d pw -> d = zlen pr -> zlen po + zlen pr < zlen pu ->
  G k h t sl (move_from ((zlen po + zlen pr) mod k) l) pu po (pr ++ [sl ((zlen po + zlen pr) mod k)]) d pw.
Proof.
  intros (Kb & Eh & Et & B1 & B2 & Bd & P1 & V1 & L1 & Lm & L2 & Ok) Ed Lt.
  pose proof (zlen_nonneg pr) as Npr. pose proof (zlen_nonneg pw) as Npw. pose proof (zlen_nonneg po) as Npo.
  set (i := (zlen po + zlen pr) mod k).
  assert (A : lget l i = Alive) by (apply L1; lia).
  assert (Lv : is_live (lget l i) = true) by (rewrite A; reflexivity).
  unfold G. rewrite zlen_app, zlen_one.
  split; [exact Kb|]. split; [exact Eh|]. split; [exact Et|]. split; [lia|]. split; [exact B2|]. split; [lia|].
  split; [|split; [exact V1|split; [|split; [|split]]]].
  - rewrite app_assoc, P1. unfold i. rewrite V1 by lia. rewrite nth_z_app1 by lia.
    replace (Z.to_nat (zlen po + (zlen pr + 1))) with (S (Z.to_nat (zlen po + zlen pr))) by lia.
    rewrite firstn_succ_nth; [reflexivity|]. unfold zlen in *. lia.
  - intros p Hp. rewrite lget_move_from_live by exact Lv. destruct (i =? p mod k) eqn:E; [|apply L1; lia].
    apply Z.eqb_eq in E. exfalso.
    assert (zlen po + zlen pr = p); [|lia]. apply (mod_window k (zlen po + zlen pr)); [lia | lia | lia | exact E].
  - intros p Hp. rewrite lget_move_from_live by exact Lv. destruct (i =? p mod k) eqn:E; [reflexivity|].
    assert (p = zlen po + zlen pr) by lia. subst p. unfold i in E. rewrite Z.eqb_refl in E. discriminate.
  - intros p Hp. rewrite lget_move_from_live by exact Lv. destruct (i =? p mod k) eqn:E; [|apply L2; exact Hp].
    apply Z.eqb_eq in E. exfalso.
    assert (zlen po + zlen pr = p); [|lia]. apply (mod_window k (zlen po + zlen pr)); [lia | lia | lia | exact E].
  - rewrite errs_move_from_live by exact Lv. exact Ok.
Qed.

(* destructor call on the element moved out last *)
Lemma G_destroy k h t sl l pu po pr d pw :
  G k h t sl l pu po pr d pw -> zlen pr = d + 1 ->
  G k h t sl (destroy ((zlen po + d) mod k) l) pu po pr (d + 1) pw.
Proof.
  intros (Kb & Eh & Et & B1 & B2 & Bd & P1 & V1 & L1 & Lm & L2 & Ok) Ed.
  pose proof (zlen_nonneg pr) as Npr. pose proof (zlen_nonneg pw) as Npw. pose proof (zlen_nonneg po) as Npo.
  set (i := (zlen po + d) mod k).
  assert (A : lget l i = MovedFrom) by (apply Lm; lia).
  assert (Lv : is_live (lget l i) = true) by (rewrite A; reflexivity).
  unfold G.
  split; [exact Kb|]. split; [exact Eh|]. split; [exact Et|]. split; [exact B1|]. split; [exact B2|]. split; [lia|].
  split; [exact P1|]. split; [exact V1|]. split; [|split; [|split]].
  - intros p Hp. rewrite lget_destroy_live by exact Lv. destruct (i =? p mod k) eqn:E; [|apply L1; lia].
    apply Z.eqb_eq in E. exfalso.
    assert (zlen po + d = p); [|lia]. apply (mod_window k (zlen po + d)); [lia | lia | lia | exact E].
  - intros p Hp. lia.
  - intros p Hp. rewrite lget_destroy_live by exact Lv. destruct (i =? p mod k) eqn:E; [reflexivity|]. apply L2.
    destruct (Z.eq_dec p (zlen po + d + k)) as [->|N]; [|lia].
    unfold i in E. rewrite mod_plus_k, Z.eqb_refl in E by lia. discriminate.
  - rewrite errs_destroy_live by exact Lv. exact Ok.
Qed.

(* head store: the values read in flight are delivered (all of them have been destroyed) *)
Lemma G_commit_r k h t sl l pu po pr d pw :
  G k h t sl l pu po pr d pw -> d = zlen pr -> G k ((zlen po + zlen pr) mod k) t sl l pu (po ++ pr) [] 0 pw.
Proof.
  intros (Kb & Eh & Et & B1 & B2 & Bd & P1 & V1 & L1 & Lm & L2 & Ok) Ed.
  pose proof (zlen_nonneg pr) as Npr. pose proof (zlen_nonneg pw) as Npw. pose proof (zlen_nonneg po) as Npo.
  unfold G. rewrite zlen_app, zlen_nil, app_nil_r, !Z.add_0_r.
  split; [exact Kb|]. split; [reflexivity|]. split; [exact Et|]. split; [exact B1|]. split; [lia|]. split; [lia|]. split; [exact P1|].
  split; [|split; [exact L1|split; [|split; [|exact Ok]]]].
  - intros p Hp. apply V1. lia.
  - intros p Hp. lia.
  - intros p Hp. apply L2. lia.
Qed.

(* ================= threads ================= *)
Definition prod_op (o : op) : Prop :=
  match o with OPush _ | OPushBatch _ | OSize | OEmpty | OFull => True | _ => False end.
Definition cons_op (o : op) : Prop :=
  match o with OPop | OSize | OEmpty | OFull => True | OPopBatch m => 0 <= m | _ => False end.

(* values written / read by the operation in flight *)
Definition wl (p : pc) : list Z :=
  match p with PPushStoreTail v _ => [v] | PBWrite _ _ _ _ wr => wr | PBStoreTail _ _ wr => wr | _ => [] end.
Definition rl (p : pc) : list Z :=
  match p with PPopDestroy _ v | PPopStoreHead _ v => [v] | PQRead _ _ _ acc | PQDestroy _ _ _ acc | PQStoreHead _ _ acc => acc | _ => [] end.
(* how many of the values moved out in flight have also been destroyed *)
Definition dl (p : pc) : Z :=
  match p with PPopStoreHead _ _ => 1 | PQRead _ i _ _ | PQDestroy _ i _ _ => i | PQStoreHead _ cnt _ => cnt | _ => 0 end.

(* what the producer knows at each program point (tl = tail, T = #accepted, H = #delivered) *)
Definition prod_facts (k tl T H : Z) (p : pc) : Prop :=
  match p with
  | PStart | PDone | PPushLoadTail _ | PBLoadTail _ | PSizeLoadHead | PSizeLoadTail _ | PEmpty | PFull => True
  | PPushLoadHead v ct => ct = tl
  | PPushWrite v ct => ct = tl /\ T - H < k - 1
  | PPushStoreTail v ct => ct = tl
  | PBLoadHead vs ct => ct = tl
  | PBWrite vs tp cnt avail wr => vs <> [] /\ tp = (T + cnt) mod k /\ cnt = zlen wr /\ cnt < avail /\ T + avail - H <= k - 1
  | PBStoreTail tp cnt wr => tp = (T + cnt) mod k /\ cnt = zlen wr /\ 0 < cnt
  | _ => False
  end.

(* what the consumer knows at each program point (hd = head) *)
Definition cons_facts (k hd T H : Z) (p : pc) : Prop :=
  match p with
  | PStart | PDone | PPopLoadHead | PSizeLoadHead | PSizeLoadTail _ | PEmpty | PFull => True
  | PPopLoadTail c => c = hd
  | PPopRead c => c = hd /\ H < T
  | PPopDestroy c v => c = hd
  | PPopStoreHead c v => c = hd
  | PQLoadHead m => 0 <= m
  | PQLoadTail m c => c = hd /\ 0 <= m
  | PQRead hp i cnt acc => hp = (H + i) mod k /\ i = zlen acc /\ i < cnt /\ H + cnt <= T
  | PQDestroy hp i cnt acc => hp = (H + i) mod k /\ i + 1 = zlen acc /\ i < cnt /\ H + cnt <= T
  | PQStoreHead hp cnt acc => hp = (H + cnt) mod k /\ cnt = zlen acc /\ 0 < cnt
  | _ => False
  end.

Definition Inv (s : state) : Prop :=
  G (K s) (head s) (tail s) (slots s) (led s) (pushed s) (popped s) (rl (tpc (th1 s))) (dl (tpc (th1 s))) (wl (tpc (th0 s))) /\
  prod_facts (K s) (tail s) (zlen (pushed s)) (zlen (popped s)) (tpc (th0 s)) /\
  cons_facts (K s) (head s) (zlen (pushed s)) (zlen (popped s)) (tpc (th1 s)) /\
  Forall prod_op (prog (th0 s)) /\ Forall cons_op (prog (th1 s)).

Lemma prod_facts_mono k tl T H H' p : H <= H' -> prod_facts k tl T H p -> prod_facts k tl T H' p.
Proof. intros L. destruct p; cbn; try tauto; intros; intuition lia. Qed.

Lemma cons_facts_mono k hd T T' H p : T <= T' -> cons_facts k hd T H p -> cons_facts k hd T' H p.
Proof. intros L. destruct p; cbn; try tauto; intros; intuition lia. Qed.

Lemma next_res th : res (next th) = res th.
Proof. unfold next. destruct (prog th); reflexivity. Qed.
Lemma next_wl th : wl (tpc (next th)) = [].
Proof. unfold next. destruct (prog th) as [|o r]; [reflexivity|]. destruct o; reflexivity. Qed.
Lemma next_rl th : rl (tpc (next th)) = [].
Proof. unfold next. destruct (prog th) as [|o r]; [reflexivity|]. destruct o; reflexivity. Qed.
Lemma next_dl th : dl (tpc (next th)) = 0.
Proof. unfold next. destruct (prog th) as [|o r]; [reflexivity|]. destruct o; reflexivity. Qed.

Lemma next_prod k tl T H th : Forall prod_op (prog th) ->
  prod_facts k tl T H (tpc (next th)) /\ Forall prod_op (prog (next th)).
Proof.
  intros F. unfold next. destruct (prog th) as [|o r]; cbn; [split; [exact I | constructor]|].
  inversion F as [|? ? Fo Fr]; subst. split; [|exact Fr]. destruct o; cbn in *; tauto.
Qed.

Lemma next_cons k hd T H th : Forall cons_op (prog th) ->
  cons_facts k hd T H (tpc (next th)) /\ Forall cons_op (prog (next th)).
Proof.
  intros F. unfold next. destruct (prog th) as [|o r]; cbn; [split; [exact I | constructor]|].
  inversion F as [|? ? Fo Fr]; subst. split; [|exact Fr]. destruct o; cbn in *; tauto.
Qed.

Lemma prog_logr th a b : prog (logr th a b) = prog th. Proof. reflexivity. Qed.
Lemma prog_logrs th a b : prog (logrs th a b) = prog th. Proof. reflexivity. Qed.

(* a step of thread 0 that leaves head and thread 1 alone *)
Lemma prod_step_inv s th' tl' sl' l' :
  Inv s ->
  G (K s) (head s) tl' sl' l' (vals_of r_push (res th')) (popped s) (rl (tpc (th1 s))) (dl (tpc (th1 s))) (wl (tpc th')) ->
  prod_facts (K s) tl' (zlen (vals_of r_push (res th'))) (zlen (popped s)) (tpc th') ->
  zlen (pushed s) <= zlen (vals_of r_push (res th')) ->
  Forall prod_op (prog th') ->
  Inv (ST (K s) (head s) tl' sl' l' th' (th1 s)).
Proof.
  intros (_ & _ & CF & _ & FC) Gn PF Le FP. unfold Inv, pushed, popped. cbn [K head tail slots led th0 th1].
  split; [exact Gn|]. split; [exact PF|]. split; [|split; [exact FP | exact FC]].
  eapply cons_facts_mono; [exact Le | exact CF].
Qed.

(* a step of thread 1 that leaves tail, slots and thread 0 alone *)
Lemma cons_step_inv s th' hd' l' :
  Inv s ->
  G (K s) hd' (tail s) (slots s) l' (pushed s) (vals_of r_pop (res th')) (rl (tpc th')) (dl (tpc th')) (wl (tpc (th0 s))) ->
  cons_facts (K s) hd' (zlen (pushed s)) (zlen (vals_of r_pop (res th'))) (tpc th') ->
  zlen (popped s) <= zlen (vals_of r_pop (res th')) ->
  Forall cons_op (prog th') ->
  Inv (ST (K s) hd' (tail s) (slots s) l' (th0 s) th').
Proof.
  intros (_ & PF & _ & FP & _) Gn CF Le FC. unfold Inv, pushed, popped. cbn [K head tail slots led th0 th1].
  split; [exact Gn|]. split; [|split; [exact CF | split; [exact FP | exact FC]]].
  eapply prod_facts_mono; [exact Le | exact PF].
Qed.

Lemma avail_push_spec k T H : 0 < k -> 0 <= H -> H <= T <= H + k - 1 ->
  avail_push k (T mod k) (H mod k) = k - 1 - (T - H).
Proof.
  intros Hk H0 B. unfold avail_push.
  pose proof (Z.div_mod T k ltac:(lia)) as DT. pose proof (Z.div_mod H k ltac:(lia)) as DH.
  pose proof (Z.mod_pos_bound T k Hk) as BT. pose proof (Z.mod_pos_bound H k Hk) as BH.
  destruct (H mod k <=? T mod k) eqn:E.
  - apply Z.leb_le in E. assert (T / k = H / k) by nia. nia.
  - apply Z.leb_gt in E. assert (T / k = H / k + 1) by nia. nia.
Qed.

Lemma avail_pop_spec k T H : 0 < k -> 0 <= H -> H <= T <= H + k - 1 ->
  avail_pop k (H mod k) (T mod k) = T - H.
Proof.
  intros Hk H0 B. unfold avail_pop.
  pose proof (Z.div_mod T k ltac:(lia)) as DT. pose proof (Z.div_mod H k ltac:(lia)) as DH.
  pose proof (Z.mod_pos_bound T k Hk) as BT. pose proof (Z.mod_pos_bound H k Hk) as BH.
  destruct (H mod k <=? T mod k) eqn:E.
  - apply Z.leb_le in E. assert (T / k = H / k) by nia. nia.
  - apply Z.leb_gt in E. assert (T / k = H / k + 1) by nia. nia.
Qed.

Lemma full_test k T H : 2 <= k < 2 ^ 63 -> 0 <= H -> H <= T <= H + k - 1 ->
  (increment k (T mod k) =? H mod k) = (T - H =? k - 1).
Proof.
  intros Kb H0 B. rewrite increment_mod by (try apply Z.mod_pos_bound; lia). rewrite succ_mod by lia.
  destruct (T - H =? k - 1) eqn:E.
  - apply Z.eqb_eq in E. apply Z.eqb_eq. replace (T + 1) with (H + k) by lia. apply mod_plus_k. lia.
  - apply Z.eqb_neq in E. apply Z.eqb_neq. intros M. apply E.
    assert (T + 1 = H + k); [|lia].
    apply (mod_window k (H + 1)); [lia | lia | lia |]. rewrite mod_plus_k by lia. exact M.
Qed.

Lemma empty_test k T H : 2 <= k -> 0 <= H -> H <= T <= H + k - 1 ->
  (H mod k =? T mod k) = (H =? T).
Proof.
  intros Kb H0 B. destruct (H =? T) eqn:E.
  - apply Z.eqb_eq in E. subst. apply Z.eqb_refl.
  - apply Z.eqb_neq in E. apply Z.eqb_neq. intros M. apply E. apply (mod_window k H); [lia | lia | lia | exact M].
Qed.

Ltac st_simpl := unfold set_thread, set_tail, set_head, write_slot, move_slot, destroy_slot; cbn [K head tail slots led th0 th1].

Lemma G_bounds k h t sl l pu po pr d pw : G k h t sl l pu po pr d pw ->
  2 <= k < 2 ^ 63 /\ h = zlen po mod k /\ t = zlen pu mod k /\ 0 <= zlen po /\ zlen po + zlen pr <= zlen pu /\ zlen pu + zlen pw <= zlen po + k - 1 /\ 0 <= zlen pr /\ 0 <= zlen pw.
Proof.
  intros (Kb & Eh & Et & B1 & B2 & _ & _). pose proof (zlen_nonneg pr). pose proof (zlen_nonneg pw). pose proof (zlen_nonneg po). tauto.
Qed.



Lemma next_pf k tl T H th : Forall prod_op (prog th) -> prod_facts k tl T H (tpc (next th)).
Proof. intros F. apply next_prod. exact F. Qed.
Lemma next_pp th : Forall prod_op (prog th) -> Forall prod_op (prog (next th)).
Proof. intros F. apply (next_prod 0 0 0 0). exact F. Qed.
Lemma next_cf k hd T H th : Forall cons_op (prog th) -> cons_facts k hd T H (tpc (next th)).
Proof. intros F. apply next_cons. exact F. Qed.
Lemma next_cp th : Forall cons_op (prog th) -> Forall cons_op (prog (next th)).
Proof. intros F. apply (next_cons 0 0 0 0). exact F. Qed.

Lemma vals_next_logr tag th t v :
  vals_of tag (res (next (logr th t v))) = vals_of tag (res th) ++ (if t =? tag then [v] else []).
Proof. rewrite next_res. cbn [logr res]. apply vals_of_cons. Qed.

(* an operation of thread 0 completes without accepting anything *)
Lemma prod_done_inv s t v :
  Inv s -> wl (tpc (th0 s)) = [] -> (t =? r_push) = false ->
  Inv (ST (K s) (head s) (tail s) (slots s) (led s) (next (logr (th0 s) t v)) (th1 s)).
Proof.
  intros I0 W Nt. pose proof I0 as (Gs & PF & CF & FP & FC). rewrite W in Gs.
  assert (V : vals_of r_push (res (next (logr (th0 s) t v))) = pushed s).
  { rewrite vals_next_logr, Nt, app_nil_r. reflexivity. }
  apply prod_step_inv; [exact I0 | rewrite next_wl, V; exact Gs | rewrite V; apply next_pf; exact FP | rewrite V; apply Z.le_refl | apply next_pp; exact FP].
Qed.

Lemma step_prod s ch s' ch' site : Inv s -> step s 0 ch = Some (s', ch', site) -> Inv s'.
Proof.
  intros I0 E. pose proof I0 as (Gs & PF & CF & FP & FC).
  unfold step in E. cbn [get_thread] in E.
  pose proof (G_bounds _ _ _ _ _ _ _ _ _ _ Gs) as (Kb & Eh & Et & H0 & B1 & B2 & Nr & Nw).
  destruct (tpc (th0 s)) eqn:P; cbn [wl prod_facts] in Gs, PF, B2; try contradiction; try (change (zlen (@nil Z)) with 0 in B2; rewrite Z.add_0_r in B2).
  - (* PStart *) injection E as <- _ _. st_simpl.
    apply prod_step_inv; [exact I0 | rewrite next_wl, next_res; exact Gs | rewrite next_res; apply next_pf; exact FP | rewrite next_res; apply Z.le_refl | apply next_pp; exact FP].
  - (* PPushLoadTail *) injection E as <- _ _. st_simpl.
    apply prod_step_inv; [exact I0 | exact Gs | reflexivity | apply Z.le_refl | exact FP].
  - (* PPushLoadHead *) subst ct.
    destruct (increment (K s) (tail s) =? head s) eqn:C; injection E as <- _ _; st_simpl.
    + apply prod_done_inv; [exact I0 | rewrite P; reflexivity | reflexivity].
    + apply prod_step_inv; [exact I0 | exact Gs | | apply Z.le_refl | exact FP].
      cbn. split; [reflexivity|]. rewrite Eh, Et in C. rewrite full_test in C by lia. apply Z.eqb_neq in C. change (zlen (pushed s) - zlen (popped s) < K s - 1). lia.
  - (* PPushWrite *) destruct PF as [-> Lt]. injection E as <- _ _. st_simpl.
    apply prod_step_inv; [exact I0 | | reflexivity | apply Z.le_refl | exact FP].
    cbn [goto tpc res wl]. pose proof (G_write _ _ _ _ _ _ _ _ _ _ v Gs) as W.
    change (zlen (@nil Z)) with 0 in W. rewrite Z.add_0_r, <- Et in W. apply W. lia.
  - (* PPushStoreTail *) subst ct. injection E as <- _ _. st_simpl.
    assert (V : vals_of r_push (res (next (logr (th0 s) r_push v))) = pushed s ++ [v]).
    { rewrite vals_next_logr. reflexivity. }
    apply prod_step_inv; [exact I0 | | rewrite V; apply next_pf; exact FP | rewrite V, zlen_app; change (zlen [v]) with 1; lia | apply next_pp; exact FP].
    rewrite next_wl, V. pose proof (G_commit_w _ _ _ _ _ _ _ _ _ _ Gs) as W.
    change (zlen [v]) with 1 in W. change (zlen [v]) with 1 in B2.
    rewrite Et, increment_mod, succ_mod by (try apply Z.mod_pos_bound; lia). exact W.
  - (* PBLoadTail *) injection E as <- _ _. st_simpl.
    apply prod_step_inv; [exact I0 | exact Gs | reflexivity | apply Z.le_refl | exact FP].
  - (* PBLoadHead *) subst ct.
    assert (A : avail_push (K s) (tail s) (head s) = K s - 1 - (zlen (pushed s) - zlen (popped s))).
    { rewrite Eh, Et. apply avail_push_spec; lia. }
    destruct (avail_push (K s) (tail s) (head s) =? 0) eqn:C.
    + injection E as <- _ _; st_simpl. apply prod_done_inv; [exact I0 | rewrite P; reflexivity | reflexivity].
    + apply Z.eqb_neq in C. destruct vs as [|v0 vs'].
      * injection E as <- _ _; st_simpl. apply prod_done_inv; [exact I0 | rewrite P; reflexivity | reflexivity].
      * injection E as <- _ _; st_simpl.
        apply prod_step_inv; [exact I0 | exact Gs | | apply Z.le_refl | exact FP].
        cbn [goto tpc res prod_facts]. change (vals_of r_push (res (th0 s))) with (pushed s).
        split; [discriminate|]. split; [rewrite Z.add_0_r; exact Et|]. split; [reflexivity|]. lia.
  - (* PBWrite *) destruct PF as (Nv & -> & -> & Lt & Ba). destruct vs as [|v rest]; [contradiction|].
    pose proof (zlen_nonneg wr) as Nwr.
    pose proof (G_write _ _ _ _ _ _ _ _ _ _ v Gs ltac:(lia)) as W.
    assert (Etp : increment (K s) ((zlen (pushed s) + zlen wr) mod K s) = (zlen (pushed s) + (zlen wr + 1)) mod K s).
    { rewrite increment_mod, succ_mod, Z.add_assoc by (try apply Z.mod_pos_bound; lia). reflexivity. }
    assert (Ecn : zlen wr + 1 = zlen (wr ++ [v])) by (rewrite zlen_app; reflexivity).
    destruct rest as [|r0 r1]; [|destruct (zlen wr + 1 <? avail) eqn:C]; injection E as <- _ _; st_simpl.
    + apply prod_step_inv; [exact I0 | exact W | | apply Z.le_refl | exact FP].
      cbn [goto tpc res prod_facts]. change (vals_of r_push (res (th0 s))) with (pushed s).
      split; [exact Etp|]. split; [exact Ecn|]. lia.
    + apply prod_step_inv; [exact I0 | exact W | | apply Z.le_refl | exact FP].
      cbn [goto tpc res prod_facts]. change (vals_of r_push (res (th0 s))) with (pushed s). apply Z.ltb_lt in C.
      split; [discriminate|]. split; [exact Etp|]. split; [exact Ecn|]. lia.
    + apply prod_step_inv; [exact I0 | exact W | | apply Z.le_refl | exact FP].
      cbn [goto tpc res prod_facts]. change (vals_of r_push (res (th0 s))) with (pushed s).
      split; [exact Etp|]. split; [exact Ecn|]. lia.
  - (* PBStoreTail *) destruct PF as (-> & -> & Pos). injection E as <- _ _. st_simpl.
    assert (V : vals_of r_push (res (next (logr (logrs (th0 s) r_push wr) r_pushb (zlen wr)))) = pushed s ++ wr).
    { rewrite vals_next_logr. change (r_pushb =? r_push) with false. rewrite app_nil_r. cbn [logrs res].
      rewrite vals_of_logrs. reflexivity. }
    apply prod_step_inv; [exact I0 | | rewrite V; apply next_pf; exact FP | rewrite V, zlen_app; lia | apply next_pp; exact FP].
    rewrite next_wl, V. exact (G_commit_w _ _ _ _ _ _ _ _ _ _ Gs).
  - (* PSizeLoadHead *) injection E as <- _ _. st_simpl.
    apply prod_step_inv; [exact I0 | exact Gs | reflexivity | apply Z.le_refl | exact FP].
  - (* PSizeLoadTail *) injection E as <- _ _. st_simpl. apply prod_done_inv; [exact I0 | rewrite P; reflexivity | reflexivity].
  - (* PEmpty *) injection E as <- _ _. st_simpl. apply prod_done_inv; [exact I0 | rewrite P; reflexivity | reflexivity].
  - (* PFull *) injection E as <- _ _. st_simpl. apply prod_done_inv; [exact I0 | rewrite P; reflexivity | reflexivity].
  - discriminate.
Qed.

(* an operation of thread 1 completes without delivering anything *)
Lemma cons_done_inv s t v :
  Inv s -> rl (tpc (th1 s)) = [] -> dl (tpc (th1 s)) = 0 -> (t =? r_pop) = false ->
  Inv (ST (K s) (head s) (tail s) (slots s) (led s) (th0 s) (next (logr (th1 s) t v))).
Proof.
  intros I0 W Wd Nt. pose proof I0 as (Gs & PF & CF & FP & FC). rewrite W, Wd in Gs.
  assert (V : vals_of r_pop (res (next (logr (th1 s) t v))) = popped s).
  { rewrite vals_next_logr, Nt, app_nil_r. reflexivity. }
  apply cons_step_inv; [exact I0 | rewrite next_rl, next_dl, V; exact Gs | rewrite V; apply next_cf; exact FC | rewrite V; apply Z.le_refl | apply next_cp; exact FC].
Qed.

Lemma step_cons s ch s' ch' site : Inv s -> step s 1 ch = Some (s', ch', site) -> Inv s'.
Proof.
  intros I0 E. pose proof I0 as (Gs & PF & CF & FP & FC).
  unfold step in E. cbn [get_thread] in E.
  pose proof (G_bounds _ _ _ _ _ _ _ _ _ _ Gs) as (Kb & Eh & Et & H0 & B1 & B2 & Nr & Nw).
  destruct (tpc (th1 s)) eqn:P; cbn [rl dl cons_facts] in Gs, CF, B1; try contradiction; try (change (zlen (@nil Z)) with 0 in B1; rewrite Z.add_0_r in B1).
  - (* PStart *) injection E as <- _ _. st_simpl.
    apply cons_step_inv; [exact I0 | rewrite next_rl, next_dl, next_res; exact Gs | rewrite next_res; apply next_cf; exact FC | rewrite next_res; apply Z.le_refl | apply next_cp; exact FC].
  - (* PPopLoadHead *) injection E as <- _ _. st_simpl.
    apply cons_step_inv; [exact I0 | exact Gs | reflexivity | apply Z.le_refl | exact FC].
  - (* PPopLoadTail *) subst ch0.
    destruct (head s =? tail s) eqn:C; injection E as <- _ _; st_simpl.
    + apply cons_done_inv; [exact I0 | rewrite P; reflexivity | rewrite P; reflexivity | reflexivity].
    + apply cons_step_inv; [exact I0 | exact Gs | | apply Z.le_refl | exact FC].
      cbn. split; [reflexivity|]. rewrite Eh, Et in C. rewrite empty_test in C by lia. apply Z.eqb_neq in C.
      change (zlen (popped s) < zlen (pushed s)). lia.
  - (* PPopRead *) destruct CF as [-> Lt]. injection E as <- _ _. st_simpl.
    apply cons_step_inv; [exact I0 | | reflexivity | apply Z.le_refl | exact FC].
    cbn [goto tpc res rl dl]. pose proof (G_move _ _ _ _ _ _ _ _ _ _ Gs eq_refl) as W.
    change (zlen (@nil Z)) with 0 in W. rewrite Z.add_0_r, <- Eh in W. apply W. lia.
  - (* PPopDestroy *) subst ch0. injection E as <- _ _. st_simpl.
    apply cons_step_inv; [exact I0 | | reflexivity | apply Z.le_refl | exact FC].
    cbn [goto tpc res rl dl]. pose proof (G_destroy _ _ _ _ _ _ _ _ _ _ Gs eq_refl) as W.
    rewrite Z.add_0_r, <- Eh in W. exact W.
  - (* PPopStoreHead *) subst ch0. injection E as <- _ _. st_simpl.
    assert (V : vals_of r_pop (res (next (logr (th1 s) r_pop v))) = popped s ++ [v]).
    { rewrite vals_next_logr. reflexivity. }
    apply cons_step_inv; [exact I0 | | rewrite V; apply next_cf; exact FC | rewrite V, zlen_app; change (zlen [v]) with 1; lia | apply next_cp; exact FC].
    rewrite next_rl, next_dl, V. pose proof (G_commit_r _ _ _ _ _ _ _ _ _ _ Gs eq_refl) as W.
    change (zlen [v]) with 1 in W. change (zlen [v]) with 1 in B1.
    rewrite Eh, increment_mod, succ_mod by (try apply Z.mod_pos_bound; lia). exact W.
  - (* PQLoadHead *) injection E as <- _ _. st_simpl.
    apply cons_step_inv; [exact I0 | exact Gs | cbn; split; [reflexivity | exact CF] | apply Z.le_refl | exact FC].
  - (* PQLoadTail *) destruct CF as [-> M0].
    assert (A : avail_pop (K s) (head s) (tail s) = zlen (pushed s) - zlen (popped s)).
    { rewrite Eh, Et. apply avail_pop_spec; lia. }
    destruct ((avail_pop (K s) (head s) (tail s) =? 0) || (Z.min (avail_pop (K s) (head s) (tail s)) m =? 0)) eqn:C;
      injection E as <- _ _; st_simpl.
    + apply cons_done_inv; [exact I0 | rewrite P; reflexivity | rewrite P; reflexivity | reflexivity].
    + apply orb_false_iff in C. destruct C as [C1 C2]. apply Z.eqb_neq in C1, C2.
      apply cons_step_inv; [exact I0 | exact Gs | | apply Z.le_refl | exact FC].
      cbn [goto tpc res cons_facts]. change (vals_of r_pop (res (th1 s))) with (popped s).
      split; [rewrite Z.add_0_r; exact Eh|]. split; [reflexivity|]. lia.
  - (* PQRead *) destruct CF as (-> & -> & Lt & Bc). injection E as <- _ _. st_simpl.
    pose proof (zlen_nonneg acc) as Nacc.
    pose proof (G_move _ _ _ _ _ _ _ _ _ _ Gs eq_refl ltac:(lia)) as W.
    apply cons_step_inv; [exact I0 | exact W | | apply Z.le_refl | exact FC].
    cbn [goto tpc res cons_facts]. change (vals_of r_pop (res (th1 s))) with (popped s).
    split; [reflexivity|]. split; [rewrite zlen_app; reflexivity|]. lia.
  - (* PQDestroy *) destruct CF as (-> & Ea & Lt & Bc).
    pose proof (zlen_nonneg acc) as Nacc.
    assert (Bd : 0 <= i) by (destruct Gs as (_ & _ & _ & _ & _ & Bd & _); lia).
    pose proof (G_destroy _ _ _ _ _ _ _ _ _ _ Gs (eq_sym Ea)) as W.
    assert (Ehp : increment (K s) ((zlen (popped s) + i) mod K s) = (zlen (popped s) + (i + 1)) mod K s).
    { rewrite increment_mod, succ_mod, Z.add_assoc by (try apply Z.mod_pos_bound; lia). reflexivity. }
    destruct (i + 1 <? cnt) eqn:C; injection E as <- _ _; st_simpl.
    + apply cons_step_inv; [exact I0 | exact W | | apply Z.le_refl | exact FC].
      cbn [goto tpc res cons_facts]. change (vals_of r_pop (res (th1 s))) with (popped s). apply Z.ltb_lt in C.
      split; [exact Ehp|]. split; [exact Ea|]. lia.
    + apply Z.ltb_ge in C. assert (cnt = i + 1) by lia. subst cnt.
      apply cons_step_inv; [exact I0 | exact W | | apply Z.le_refl | exact FC].
      cbn [goto tpc res cons_facts]. change (vals_of r_pop (res (th1 s))) with (popped s).
      split; [exact Ehp|]. split; [exact Ea|]. lia.
  - (* PQStoreHead *) destruct CF as (-> & -> & Pos). injection E as <- _ _. st_simpl.
    assert (V : vals_of r_pop (res (next (logr (logrs (th1 s) r_pop acc) r_popb (zlen acc)))) = popped s ++ acc).
    { rewrite vals_next_logr. change (r_popb =? r_pop) with false. rewrite app_nil_r. cbn [logrs res].
      rewrite vals_of_logrs. reflexivity. }
    apply cons_step_inv; [exact I0 | | rewrite V; apply next_cf; exact FC | rewrite V, zlen_app; lia | apply next_cp; exact FC].
    rewrite next_rl, next_dl, V. exact (G_commit_r _ _ _ _ _ _ _ _ _ _ Gs eq_refl).
  - (* PSizeLoadHead *) injection E as <- _ _. st_simpl.
    apply cons_step_inv; [exact I0 | exact Gs | reflexivity | apply Z.le_refl | exact FC].
  - (* PSizeLoadTail *) injection E as <- _ _. st_simpl. apply cons_done_inv; [exact I0 | rewrite P; reflexivity | rewrite P; reflexivity | reflexivity].
  - (* PEmpty *) injection E as <- _ _. st_simpl. apply cons_done_inv; [exact I0 | rewrite P; reflexivity | rewrite P; reflexivity | reflexivity].
  - (* PFull *) injection E as <- _ _. st_simpl. apply cons_done_inv; [exact I0 | rewrite P; reflexivity | rewrite P; reflexivity | reflexivity].
  - discriminate.
Qed.

Lemma init_inv k p0 p1 : 2 <= k < 2 ^ 63 -> Forall prod_op p0 -> Forall cons_op p1 -> Inv (init k p0 p1).
Proof.
  intros Kb F0 F1. unfold Inv, init, pushed, popped. cbn [K head tail slots led th0 th1 tpc prog res rl wl vals_of rev filter map].
  split; [apply G_init; exact Kb|]. split; [exact I|]. split; [exact I|]. split; assumption.
Qed.

Theorem spsc_inv k p0 p1 s : 2 <= k < 2 ^ 63 -> Forall prod_op p0 -> Forall cons_op p1 ->
  reach step (init k p0 p1) s -> Inv s.
Proof.
  intros Kb F0 F1 R. apply (reach_inv step Inv (init k p0 p1)); [apply init_inv; assumption | | exact R].
  intros s1 t ch s1' ch' site I E. destruct t as [|[|t]].
  - eapply step_prod; eauto.
  - eapply step_cons; eauto.
  - unfold step in E. cbn [get_thread] in E. discriminate.
Qed.

(* ---- contents ---- *)
Lemma skipn_nth_cons (l : list Z) n : (n < length l)%nat -> skipn n l = nth n l 0 :: skipn (S n) l.
Proof.
  revert n; induction l as [|a l IH]; intros n H; [simpl in H; lia|].
  destruct n as [|n]; [reflexivity|]. simpl in H. cbn [skipn nth]. apply IH. lia.
Qed.

Lemma ring_read_spec sl k pu : 2 <= k < 2 ^ 63 -> forall n H,
  0 <= H -> H + Z.of_nat n <= zlen pu ->
  (forall p, H <= p < H + Z.of_nat n -> sl (p mod k) = nth (Z.to_nat p) pu 0) ->
  ring_read sl k (H mod k) n = firstn n (skipn (Z.to_nat H) pu).
Proof.
  intros Kb. induction n as [|n IH]; intros H H0 B V; [reflexivity|].
  cbn [ring_read]. rewrite increment_mod, succ_mod by (try apply Z.mod_pos_bound; lia).
  rewrite (skipn_nth_cons pu (Z.to_nat H)) by (unfold zlen in B; lia). cbn [firstn]. f_equal.
  - apply V. lia.
  - rewrite IH; [| lia | lia | intros p Hp; apply V; lia]. replace (Z.to_nat (H + 1)) with (S (Z.to_nat H)) by lia. reflexivity.
Qed.

Lemma occupancy_spec s : Inv s -> occupancy s = zlen (pushed s) - zlen (popped s) /\ 0 <= occupancy s <= K s - 1.
Proof.
  intros (Gs & _). destruct (G_bounds _ _ _ _ _ _ _ _ _ _ Gs) as (Kb & Eh & Et & H0 & B1 & B2 & Nr & Nw).
  unfold occupancy. rewrite Eh, Et, <- Zminus_mod. rewrite Z.mod_small by lia. lia.
Qed.

Lemma popped_prefix s : Inv s -> popped s = firstn (Z.to_nat (zlen (popped s))) (pushed s).
Proof.
  intros (Gs & _). destruct (G_bounds _ _ _ _ _ _ _ _ _ _ Gs) as (Kb & Eh & Et & H0 & B1 & B2 & Nr & Nw).
  destruct Gs as (_ & _ & _ & _ & _ & _ & P1 & _).
  assert (E : firstn (Z.to_nat (zlen (popped s))) (popped s ++ rl (tpc (th1 s))) = popped s).
  { rewrite firstn_app_le by (unfold zlen; lia). apply firstn_all2. unfold zlen. lia. }
  rewrite <- E at 1. rewrite P1, firstn_firstn. f_equal. lia.
Qed.

Lemma contents_spec s : Inv s -> contents s = skipn (Z.to_nat (zlen (popped s))) (pushed s).
Proof.
  intros I0. destruct (occupancy_spec s I0) as [Oc Ob]. destruct I0 as (Gs & _).
  destruct (G_bounds _ _ _ _ _ _ _ _ _ _ Gs) as (Kb & Eh & Et & H0 & B1 & B2 & Nr & Nw).
  destruct Gs as (_ & _ & _ & _ & _ & _ & _ & V1 & _).
  unfold contents. rewrite Eh.
  rewrite (ring_read_spec (slots s) (K s) (pushed s) Kb); [| lia | lia |].
  - apply firstn_all2. rewrite skipn_length. unfold zlen in *. lia.
  - intros p Hp. rewrite V1 by lia. apply nth_z_app1. lia.
Qed.

Theorem spsc_exactly_once_in_order_inv s : Inv s -> pushed s = popped s ++ contents s.
Proof.
  intros I0. rewrite (contents_spec s I0). rewrite (popped_prefix s I0) at 1. symmetry. apply firstn_skipn.
Qed.

Theorem spsc_bounded_inv s : Inv s ->
  zlen (contents s) = occupancy s /\ 0 <= occupancy s <= K s - 1 /\
  zlen (pushed s) + zlen (wl (tpc (th0 s))) - zlen (popped s) <= K s - 1.
Proof.
  intros I0. destruct (occupancy_spec s I0) as [Oc Ob]. pose proof (contents_spec s I0) as C.
  destruct I0 as (Gs & _). destruct (G_bounds _ _ _ _ _ _ _ _ _ _ Gs) as (Kb & Eh & Et & H0 & B1 & B2 & Nr & Nw).
  split; [|split; [exact Ob | lia]].
  rewrite C. unfold zlen in *. rewrite skipn_length. lia.
Qed.

Theorem push_ok_iff_not_full_inv s v ct ch s' ch' site :
  Inv s -> tpc (th0 s) = PPushLoadHead v ct -> step s 0 ch = Some (s', ch', site) ->
  (occupancy s = K s - 1 /\ res (th0 s') = (r_pushfail, v) :: res (th0 s)) \/
  (occupancy s < K s - 1 /\ tpc (th0 s') = PPushWrite v ct).
Proof.
  intros I0 P E. destruct (occupancy_spec s I0) as [Oc Ob]. destruct I0 as (Gs & PF & _).
  destruct (G_bounds _ _ _ _ _ _ _ _ _ _ Gs) as (Kb & Eh & Et & H0 & B1 & B2 & Nr & Nw).
  rewrite P in PF, B2. cbn in PF, B2. subst ct.
  unfold step in E. cbn [get_thread] in E. rewrite P in E.
  assert (C : (increment (K s) (tail s) =? head s) = (occupancy s =? K s - 1)).
  { rewrite Eh, Et, Oc. apply full_test; lia. }
  rewrite C in E. destruct (occupancy s =? K s - 1) eqn:D; injection E as <- _ _.
  - left. apply Z.eqb_eq in D. split; [exact D|]. cbn [set_thread th0]. rewrite next_res. reflexivity.
  - right. apply Z.eqb_neq in D. split; [lia | reflexivity].
Qed.

Theorem pop_ok_iff_not_empty_inv s c ch s' ch' site :
  Inv s -> tpc (th1 s) = PPopLoadTail c -> step s 1 ch = Some (s', ch', site) ->
  (occupancy s = 0 /\ res (th1 s') = (r_popfail, 0) :: res (th1 s)) \/
  (0 < occupancy s /\ tpc (th1 s') = PPopRead c).
Proof.
  intros I0 P E. destruct (occupancy_spec s I0) as [Oc Ob]. destruct I0 as (Gs & _ & CF & _).
  destruct (G_bounds _ _ _ _ _ _ _ _ _ _ Gs) as (Kb & Eh & Et & H0 & B1 & B2 & Nr & Nw).
  rewrite P in CF, B1. cbn in CF, B1. subst c.
  unfold step in E. cbn [get_thread] in E. rewrite P in E.
  assert (C : (head s =? tail s) = (occupancy s =? 0)).
  { rewrite Eh, Et, Oc. rewrite empty_test by lia. destruct (zlen (popped s) =? zlen (pushed s)) eqn:D1; symmetry; [apply Z.eqb_eq; apply Z.eqb_eq in D1 | apply Z.eqb_neq; apply Z.eqb_neq in D1]; lia. }
  rewrite C in E. destruct (occupancy s =? 0) eqn:D; injection E as <- _ _.
  - left. apply Z.eqb_eq in D. split; [exact D|]. cbn [set_thread th1]. rewrite next_res. reflexivity.
  - right. apply Z.eqb_neq in D. split; [lia | reflexivity].
Qed.

(* the free space / number of elements a batch operation computes from its two loads is exact at the second load *)
Theorem pushb_avail_as_observed_inv s vs ct : Inv s -> tpc (th0 s) = PBLoadHead vs ct ->
  avail_push (K s) ct (head s) = K s - 1 - occupancy s.
Proof.
  intros I0 P. destruct (occupancy_spec s I0) as [Oc Ob]. destruct I0 as (Gs & PF & _).
  destruct (G_bounds _ _ _ _ _ _ _ _ _ _ Gs) as (Kb & Eh & Et & H0 & B1 & B2 & Nr & Nw).
  rewrite P in PF, B2. cbn in PF, B2. subst ct. rewrite Oc, Eh, Et. apply avail_push_spec; lia.
Qed.

Theorem popb_avail_as_observed_inv s m c : Inv s -> tpc (th1 s) = PQLoadTail m c ->
  avail_pop (K s) c (tail s) = occupancy s.
Proof.
  intros I0 P. destruct (occupancy_spec s I0) as [Oc Ob]. destruct I0 as (Gs & _ & CF & _).
  destruct (G_bounds _ _ _ _ _ _ _ _ _ _ Gs) as (Kb & Eh & Et & H0 & B1 & B2 & Nr & Nw).
  rewrite P in CF, B1. cbn in CF, B1. destruct CF as [-> _]. rewrite Oc, Eh, Et. apply avail_pop_spec; lia.
Qed.

(* ---- lifetimes ---- *)
Theorem lifetimes_inv s : Inv s ->
  l_errs (led s) = [] /\
  (forall p, zlen (popped s) + zlen (rl (tpc (th1 s))) <= p < zlen (pushed s) + zlen (wl (tpc (th0 s))) -> lget (led s) (p mod K s) = Alive) /\
  (forall p, zlen (popped s) + dl (tpc (th1 s)) <= p < zlen (popped s) + zlen (rl (tpc (th1 s))) -> lget (led s) (p mod K s) = MovedFrom) /\
  (forall p, zlen (pushed s) + zlen (wl (tpc (th0 s))) <= p < zlen (popped s) + dl (tpc (th1 s)) + K s -> is_live (lget (led s) (p mod K s)) = false) /\
  0 <= dl (tpc (th1 s)) <= zlen (rl (tpc (th1 s))).
Proof. intros ((_ & _ & _ & _ & _ & Bd & _ & _ & L1 & Lm & L2 & Ok) & _). auto. Qed.

Lemma dtor_loop_spec k T : 2 <= k < 2 ^ 63 -> forall fuel l H,
  0 <= H <= T -> T - H <= Z.of_nat fuel -> T - H <= k - 1 ->
  (forall p, H <= p < T -> lget l (p mod k) = Alive) ->
  (forall p, T <= p < H + k -> is_live (lget l (p mod k)) = false) -> l_errs l = [] ->
  l_errs (dtor_loop fuel k l (H mod k) (T mod k)) = [] /\
  forall p, T <= p < T + k -> is_live (lget (dtor_loop fuel k l (H mod k) (T mod k)) (p mod k)) = false.
Proof.
  intros Kb. induction fuel as [|fuel IH]; intros l H B Bf Bk L1 L2 Ok.
  - cbn [dtor_loop]. assert (H = T) by lia. subst H. split; [exact Ok | exact L2].
  - cbn [dtor_loop]. rewrite empty_test by lia. destruct (H =? T) eqn:E.
    + apply Z.eqb_eq in E. subst H. split; [exact Ok | exact L2].
    + apply Z.eqb_neq in E. rewrite increment_mod, succ_mod by (try apply Z.mod_pos_bound; lia).
      assert (A : is_live (lget l (H mod k)) = true) by (rewrite L1 by lia; reflexivity).
      apply IH; [lia | lia | lia | | | ].
      * intros p Hp. rewrite lget_destroy_live by exact A. destruct (H mod k =? p mod k) eqn:M; [|apply L1; lia].
        apply Z.eqb_eq in M. exfalso. assert (H = p); [|lia]. apply (mod_window k H); [lia | lia | lia | exact M].
      * intros p Hp. rewrite lget_destroy_live by exact A. destruct (H mod k =? p mod k) eqn:M; [reflexivity|]. apply L2.
        destruct (Z.eq_dec p (H + k)) as [->|N]; [|lia]. rewrite mod_plus_k, Z.eqb_refl in M by lia. discriminate.
      * rewrite errs_destroy_live by exact A. exact Ok.
Qed.

(* after the destructor (called when no operation is in flight) no slot holds an element that still needs a destructor,
   and no misuse was recorded: every element was destroyed exactly once *)
Theorem dtor_balanced_inv s : Inv s -> rl (tpc (th1 s)) = [] -> wl (tpc (th0 s)) = [] ->
  l_errs (dtor s) = [] /\ forall i, 0 <= i < K s -> is_live (lget (dtor s) i) = false.
Proof.
  intros I0 R W. destruct I0 as (Gs & _). rewrite R, W in Gs.
  destruct (G_bounds _ _ _ _ _ _ _ _ _ _ Gs) as (Kb & Eh & Et & H0 & B1 & B2 & Nr & Nw).
  destruct Gs as (_ & _ & _ & _ & _ & Bd & _ & _ & L1 & _ & L2 & Ok).
  change (zlen (@nil Z)) with 0 in *.
  assert (D0 : dl (tpc (th1 s)) = 0) by lia. rewrite D0 in L2. rewrite !Z.add_0_r in *.
  unfold dtor. rewrite Eh, Et.
  destruct (dtor_loop_spec (K s) (zlen (pushed s)) Kb (Z.to_nat (K s)) (led s) (zlen (popped s))) as [D1 D2]; [lia | lia | lia | intros p Hp; apply L1; lia | intros p Hp; apply L2; lia | exact Ok |].
  split; [exact D1|]. intros i Hi.
  set (T := zlen (pushed s)) in *.
  specialize (D2 (T + (i - T) mod K s)).
  pose proof (Z.mod_pos_bound (i - T) (K s) ltac:(lia)) as Bm.
  rewrite Zplus_mod_idemp_r in D2. replace (T + (i - T)) with i in D2 by lia. rewrite (Z.mod_small i (K s)) in D2 by lia.
  apply D2. lia.
Qed.

(* ================= the statements of Props/Properties_C35.v ================= *)
Definition spsc_domain (k : Z) (p0 p1 : list op) : Prop :=
  2 <= k < 2 ^ 63 /\ Forall prod_op p0 /\ Forall cons_op p1.

Lemma spsc_reach_inv k p0 p1 s : spsc_domain k p0 p1 -> reach step (init k p0 p1) s -> Inv s.
Proof. intros (Kb & F0 & F1) R. eapply spsc_inv; eauto. Qed.

Lemma spsc_exactly_once_in_order k p0 p1 s : spsc_domain k p0 p1 ->
  reach step (init k p0 p1) s -> pushed s = popped s ++ contents s.
Proof. intros D R. apply spsc_exactly_once_in_order_inv. eapply spsc_reach_inv; eauto. Qed.

Lemma spsc_bounded k p0 p1 s : spsc_domain k p0 p1 -> reach step (init k p0 p1) s ->
  zlen (contents s) = occupancy s /\ 0 <= occupancy s <= K s - 1 /\
  zlen (pushed s) + zlen (wl (tpc (th0 s))) - zlen (popped s) <= K s - 1.
Proof. intros D R. apply spsc_bounded_inv. eapply spsc_reach_inv; eauto. Qed.

Lemma push_ok_iff_not_full_as_observed k p0 p1 s v ct ch s' ch' site : spsc_domain k p0 p1 ->
  reach step (init k p0 p1) s -> tpc (th0 s) = PPushLoadHead v ct -> step s 0 ch = Some (s', ch', site) ->
  (occupancy s = K s - 1 /\ res (th0 s') = (r_pushfail, v) :: res (th0 s)) \/
  (occupancy s < K s - 1 /\ tpc (th0 s') = PPushWrite v ct).
Proof. intros D R. apply push_ok_iff_not_full_inv. eapply spsc_reach_inv; eauto. Qed.

Lemma pop_ok_iff_not_empty_as_observed k p0 p1 s c ch s' ch' site : spsc_domain k p0 p1 ->
  reach step (init k p0 p1) s -> tpc (th1 s) = PPopLoadTail c -> step s 1 ch = Some (s', ch', site) ->
  (occupancy s = 0 /\ res (th1 s') = (r_popfail, 0) :: res (th1 s)) \/
  (0 < occupancy s /\ tpc (th1 s') = PPopRead c).
Proof. intros D R. apply pop_ok_iff_not_empty_inv. eapply spsc_reach_inv; eauto. Qed.

Lemma pushb_avail_as_observed k p0 p1 s vs ct : spsc_domain k p0 p1 ->
  reach step (init k p0 p1) s -> tpc (th0 s) = PBLoadHead vs ct -> avail_push (K s) ct (head s) = K s - 1 - occupancy s.
Proof. intros D R. apply pushb_avail_as_observed_inv. eapply spsc_reach_inv; eauto. Qed.

Lemma popb_avail_as_observed k p0 p1 s m c : spsc_domain k p0 p1 ->
  reach step (init k p0 p1) s -> tpc (th1 s) = PQLoadTail m c -> avail_pop (K s) c (tail s) = occupancy s.
Proof. intros D R. apply popb_avail_as_observed_inv. eapply spsc_reach_inv; eauto. Qed.

Lemma spsc_lifetimes k p0 p1 s : spsc_domain k p0 p1 -> reach step (init k p0 p1) s ->
  l_errs (led s) = [] /\
  (forall p, zlen (popped s) + zlen (rl (tpc (th1 s))) <= p < zlen (pushed s) + zlen (wl (tpc (th0 s))) ->
             lget (led s) (p mod K s) = Alive) /\
  (forall p, zlen (popped s) + dl (tpc (th1 s)) <= p < zlen (popped s) + zlen (rl (tpc (th1 s))) ->
             lget (led s) (p mod K s) = MovedFrom) /\
  (forall p, zlen (pushed s) + zlen (wl (tpc (th0 s))) <= p < zlen (popped s) + dl (tpc (th1 s)) + K s ->
             is_live (lget (led s) (p mod K s)) = false) /\
  0 <= dl (tpc (th1 s)) <= zlen (rl (tpc (th1 s))).
Proof. intros D R. apply lifetimes_inv. eapply spsc_reach_inv; eauto. Qed.

Lemma spsc_dtor_balanced k p0 p1 s : spsc_domain k p0 p1 -> reach step (init k p0 p1) s ->
  rl (tpc (th1 s)) = [] -> wl (tpc (th0 s)) = [] ->
  l_errs (dtor s) = [] /\ forall i, 0 <= i < K s -> is_live (lget (dtor s) i) = false.
Proof. intros D R. apply dtor_balanced_inv. eapply spsc_reach_inv; eauto. Qed.

Lemma increment_is_succ_mod k i : 0 < k < 2 ^ 63 -> 0 <= i < k -> increment k i = (i + 1) mod k.
Proof. intros Hk Hi. apply increment_mod; lia. Qed.

Lemma spsc_run_reach fuel k p0 p1 sched : reach step (init k p0 p1) (fst (fst (run_spsc fuel k p0 p1 sched))).
Proof. apply run_reach. apply reach_refl. Qed.

(* ================= the payload is dead before the head store that hands the slot(s) back ================= *)
Lemma spsc_payload_dead_before_release k p0 p1 s : spsc_domain k p0 p1 -> reach step (init k p0 p1) s ->
  match tpc (th1 s) with
  | PPopStoreHead c v => is_live (lget (led s) c) = false
  | PQStoreHead hp cnt acc => forall j, 0 <= j < cnt -> is_live (lget (led s) ((zlen (popped s) + j) mod K s)) = false
  | _ => True
  end.
Proof.
  intros D R. pose proof (spsc_reach_inv k p0 p1 s D R) as (Gs & _ & CF & _).
  destruct (G_bounds _ _ _ _ _ _ _ _ _ _ Gs) as (Kb & Eh & Et & H0 & B1 & B2 & Nr & Nw).
  destruct (tpc (th1 s)) eqn:P; try exact I; cbn [rl dl cons_facts] in Gs, CF, B1, B2.
  - subst ch. destruct Gs as (_ & _ & _ & _ & _ & _ & _ & _ & _ & _ & L2 & _).
    rewrite Eh, <- (mod_plus_k (zlen (popped s)) (K s)) by lia. apply L2. change (zlen [v]) with 1 in *. lia.
  - destruct CF as (-> & -> & Pos). destruct Gs as (_ & _ & _ & _ & _ & _ & _ & _ & _ & _ & L2 & _).
    intros j Hj. rewrite <- (mod_plus_k (zlen (popped s) + j) (K s)) by lia. apply L2. lia.
Qed.
