(* C01 (and the conservation half of C03): ledger conservation for the thread-pool core model, for ALL accepted event
   sequences (any number of threads, tasks, pool sizes incl. 0, interleaved resizes). *)
From Coq Require Import ZArith List Bool Lia.
From DV Require Import Model.PoolModel Proofs.PoolProofs.
Import ListNotations.
Local Open Scope Z_scope.

Definition held_ids (h : option (id * hkind)) : list id := match h with Some (x, _) => [x] | None => [] end.
Definition th_ids (th : thread) : list id := pend th ++ held_ids (held th) ++ map fst (exec th).

(* number of places of the ledger in which id t currently is (queued in a tier, pending at its submitter, held, executing)
   plus the number of times its body has completed *)
Definition tot (t : id) (s : state) : Z :=
  cnt t (map snd (central s)) + sumf (cnt t) (rings s) + sumf (cnt t) (steals s) + sumf (fun th => cnt t (th_ids th)) (threads s) + cnt t (done s).

Ltac simp_ids :=
  cbn [th_ids held_ids map fst snd app
       trole pend held exec tpc pcstk lwd owed credit ringCount
       with_pend with_held with_exec with_pc with_pcstk with_lwd with_owed with_credit with_ringCount with_role] in *.
Ltac rw_eqs := repeat match goal with H : ?x = _ |- context[?x] => rewrite H end.
Ltac split_kinds := repeat match goal with |- context[match ?k with KInline => _ | KLocal => _ | KExec => _ | KDrain => _ end] => destruct k end.
Ltac pose_cnt t :=
  repeat match goal with
  | |- context[firstn ?n ?l] => lazymatch goal with H : cnt t (firstn n l) + _ = _ |- _ => fail | _ => pose proof (cnt_firstn_skipn t n l) end
  end;
  repeat match goal with
  | H : take_central _ _ _ = Some _ |- _ => pose proof (take_central_cnt _ _ _ _ H t); clear H
  end.
Ltac split_ifs := repeat match goal with |- context[if ?b then 1 else 0] => destruct b | H : context[if ?b then 1 else 0] |- _ => destruct b end.
Ltac cnt_norm := repeat first [rewrite cnt_app | rewrite cnt_cons | rewrite cnt_nil | rewrite cnt_map_snd_app | rewrite cnt_map_pair].

Section C01.
  Variables rcap scap share : Z.
  Local Notation accept := (accept rcap scap share).
  Local Notation accepts := (accepts rcap scap share).

  Lemma accept_delta s tid e s' : accept s tid e = Some s' ->
    forall t, tot t s' - cnt t (gens s') = tot t s - cnt t (gens s).
  Proof.
    intros H t. unfold accept, accept_rz, getT in H.
    set (th := lget th0 tid (threads s)) in *.
    destruct (trole th) eqn:Hrole; try discriminate H.
    all: destruct e; cbn [is_rz_event] in H; inv_guards H; subst s'; unfold tot; simp_proj;
      rewrite ?(sumf_lset (cnt t) [] (eq_refl _)), ?(sumf_lset (fun th => cnt t (th_ids th)) th0 (eq_refl _)), ?sumf_app, ?(sumf_repeat0 (cnt t) [] _ (eq_refl _));
      fold th; simp_proj; split_kinds; unfold th_ids in *; simp_ids; bool_hyps; rw_eqs; simp_ids; pose_cnt t; cnt_norm; split_ifs.
    all: try lia.
    Show.
  Abort.
End C01.
