(* C01 (and the conservation half of C03): ledger conservation for the thread-pool core model, for ALL accepted event
   sequences (any number of threads, tasks, pool sizes incl. 0, interleaved resizes). *)
From Coq Require Import ZArith List Bool Lia.
From DV Require Import Model.PoolModel Proofs.PoolProofs Proofs.C03Proofs.
Import ListNotations.
Local Open Scope Z_scope.

Definition held_ids (h : option (id * hkind)) : list id := match h with Some (x, _) => [x] | None => [] end.
Definition th_ids (th : thread) : list id := pend th ++ held_ids (held th) ++ map fst (exec th).

(* number of places of the ledger in which id t currently is (queued in a tier, pending at its submitter, held, executing)
   plus the number of times its body has completed *)
Definition tot (t : id) (s : state) : Z :=
  cnt t (map snd (central s)) + sumf (cnt t) (rings s) + sumf (cnt t) (steals s) + sumf (fun th => cnt t (th_ids th)) (threads s) + cnt t (done s).

Ltac simp_ids :=
  cbn [th_ids held_ids map fst snd app
       trole pend held exec tpc pcstk lwd owed credit ringCount
       with_pend with_held with_exec with_pc with_pcstk with_lwd with_owed with_credit with_ringCount with_role] in *.
Ltac rw_eqs := repeat match goal with H : ?x = _ |- context[?x] => rewrite H end.
Ltac split_kinds := repeat match goal with |- context[match ?k with KInline => _ | KLocal => _ | KExec => _ end] => destruct k end.
Ltac pose_cnt t :=
  repeat match goal with
  | |- context[firstn ?n ?l] => lazymatch goal with H : cnt t (firstn n l) + _ = _ |- _ => fail | _ => pose proof (cnt_firstn_skipn t n l) end
  end;
  repeat match goal with
  | H : take_central _ _ _ = Some _ |- _ => pose proof (take_central_cnt _ _ _ _ H t); clear H
  end.
Ltac split_ifs := repeat match goal with |- context[if ?b then 1 else 0] => destruct b | H : context[if ?b then 1 else 0] |- _ => destruct b end.
Ltac cnt_norm := repeat first [rewrite cnt_app | rewrite cnt_cons | rewrite cnt_nil | rewrite cnt_map_snd_app | rewrite cnt_map_pair].

Section C01.
  Variables rcap scap share : Z.
  Local Notation accept := (accept rcap scap share).
  Local Notation accepts := (accepts rcap scap share).

  Lemma accept_delta s tid e s' : accept s tid e = Some s' ->
    forall t, tot t s' - cnt t (gens s') = tot t s - cnt t (gens s).
  Proof.
    intros H t. unfold accept, accept_rz, getT in H.
    set (th := lget th0 tid (threads s)) in *.
    destruct (trole th) eqn:Hrole; try discriminate H.
    all: destruct e; cbn [is_rz_event] in H; inv_guards H; subst s'; unfold tot; simp_proj;
      rewrite ?(sumf_lset (cnt t) [] (eq_refl _)), ?(sumf_lset (fun th => cnt t (th_ids th)) th0 (eq_refl _)), ?sumf_app, ?(sumf_repeat0 (cnt t) [] _ (eq_refl _));
      fold th; simp_proj; split_kinds; unfold th_ids in *; simp_ids; bool_hyps; rw_eqs; simp_ids; pose_cnt t; cnt_norm; split_ifs.
    all: lia.
  Qed.

  Lemma accept_gens s tid e s' : accept s tid e = Some s' ->
    gens s' = gens s \/ exists t, gens s' = t :: gens s /\ mem t (gens s) = false.
  Proof.
    intros H. unfold accept, accept_rz, getT in H.
    set (th := lget th0 tid (threads s)) in *.
    destruct (trole th) eqn:Hrole; try discriminate H.
    all: destruct e; cbn [is_rz_event] in H; inv_guards H; subst s'; simp_proj; auto.
    all: right; eexists; split; [reflexivity|]; bool_hyps; assumption.
  Qed.

  (* the ledger invariant: every generated id is in exactly one place (or has completed exactly once) *)
  Definition Cons (s : state) : Prop := NoDup (gens s) /\ forall t, tot t s = cnt t (gens s).

  Lemma Cons_init n0 : Cons (init share n0).
  Proof.
    split; [constructor|]. intros t. unfold tot, init. cbn.
    rewrite !(sumf_repeat0 (cnt t) [] _ (eq_refl _)). reflexivity.
  Qed.

  Lemma Cons_step s tid e s' : Cons s -> accept s tid e = Some s' -> Cons s'.
  Proof.
    intros [ND I] H. split.
    - destruct (accept_gens _ _ _ _ H) as [->|[t [-> Hm]]]; [assumption|].
      constructor; [|assumption]. intros Hin. apply cnt_In in Hin. apply cnt_mem in Hm. lia.
    - intros t. pose proof (accept_delta _ _ _ _ H t). specialize (I t). lia.
  Qed.

  Lemma Cons_accepts tr : forall s s', Cons s -> accepts s tr = Some s' -> Cons s'.
  Proof.
    induction tr as [|[t e] r IH]; cbn [PoolModel.accepts]; intros s s' C H; [injection H as <-; exact C|].
    destruct (accept s t e) as [s1|] eqn:E; [|discriminate]. eapply IH; [|exact H]. eapply Cons_step; eauto.
  Qed.

  Lemma tot_parts_nonneg t s :
    0 <= cnt t (map snd (central s)) /\ 0 <= sumf (cnt t) (rings s) /\ 0 <= sumf (cnt t) (steals s) /\
    0 <= sumf (fun th => cnt t (th_ids th)) (threads s) /\ 0 <= cnt t (done s).
  Proof.
    repeat split; try apply cnt_nonneg; apply sumf_nonneg; intros; apply cnt_nonneg.
  Qed.

  (* C01 pool_conservation *)
  Theorem conservation n0 tr s : accepts (init share n0) tr = Some s ->
    NoDup (gens s) /\
    (forall t, In t (gens s) -> tot t s = 1 /\ cnt t (done s) <= 1) /\
    (forall t, ~ In t (gens s) -> tot t s = 0 /\ cnt t (done s) = 0).
  Proof.
    intros H. destruct (Cons_accepts _ _ _ (Cons_init n0) H) as [ND I]. split; [exact ND|]. split; intros t Ht.
    - pose proof (proj1 (cnt_NoDup _) ND t). apply cnt_In in Ht. pose proof (tot_parts_nonneg t s). specialize (I t). unfold tot in *. lia.
    - assert (cnt t (gens s) = 0) by (pose proof (cnt_nonneg t (gens s)); destruct (Z.eq_dec (cnt t (gens s)) 0); [assumption | exfalso; apply Ht, cnt_In; lia]).
      pose proof (tot_parts_nonneg t s). specialize (I t). unfold tot in *. lia.
  Qed.

  (* every single event -- in particular every event of resizeLocked -- preserves the ledger invariant (C03 resize_conservation) *)
  Theorem step_conservation s tid e s' : Cons s -> accept s tid e = Some s' -> Cons s'.
  Proof. exact (Cons_step s tid e s'). Qed.

  (* ---------- frame: an event of thread u does not touch the record of another thread ---------- *)
  Lemma accept_frame s u e s' tid : accept s u e = Some s' -> u <> tid -> getT s' tid = getT s tid.
  Proof.
    intros H Hne. unfold accept, accept_rz in H.
    set (th := getT s u) in *.
    destruct (trole th) eqn:Hrole; try discriminate H.
    all: destruct e; cbn [is_rz_event] in H; inv_guards H; subst s'; unfold getT; simp_proj; try reflexivity.
    all: apply lget_lset_other; assumption.
  Qed.

  (* ---------- ring_overflow_falls_back ---------- *)
  Lemma ring_push_fail_sets_pc s tid r s' : accept s tid (ERingPushFail r) = Some s' ->
    tpc (getT s' tid) = PMustCentral /\ pend (getT s' tid) = pend (getT s tid) /\ pend (getT s tid) <> [].
  Proof.
    intros H. unfold accept in H. cbn [is_rz_event] in H.
    destruct (trole (getT s tid)); try discriminate H.
    all: inv_guards H; try subst s'; rewrite getT_setT_same; simp_proj; bool_hyps; auto.
  Qed.

  Lemma must_central_next s tid e s' : tpc (getT s tid) = PMustCentral -> accept s tid e = Some s' ->
    exists tok t rest, e = EEnqCentral tok 1 /\ pend (getT s tid) = t :: rest /\ pend (getT s' tid) = rest /\
                       In (pkey tid tok, t) (central s') /\
                       tpc (getT s' tid) = (if nilb rest then PFellBack else PMustCentral).
  Proof.
    intros Hpc H. unfold accept in H.
    set (th := getT s tid) in *.
    destruct (trole th) eqn:Hrole; try discriminate H.
    all: rewrite Hpc in H; destruct e; cbn [pc_allows negb is_rz_event pc_free pc_eqb orb andb] in H; try discriminate H.
    all: inv_guards H; bool_hyps; subst.
    all: destruct (pend th) as [|t rest] eqn:Hp; [unfold len in *; cbn [length] in *; lia|].
    all: exists tok, t, rest; rewrite getT_setT_same || (unfold getT; simp_proj; rewrite lget_lset_same); simp_proj.
    all: change (Z.to_nat 1) with 1%nat; cbn [firstn skipn map].
    all: repeat split; try reflexivity.
    all: apply in_or_app; right; left; reflexivity.
  Qed.

  (* the obligation created by a failed ring push survives the events of all other threads *)
  Lemma obligation_stable tr : forall s s' tid, accepts s tr = Some s' -> (forall u e, In (u, e) tr -> u <> tid) ->
    getT s' tid = getT s tid.
  Proof.
    induction tr as [|[u e] r IH]; cbn [PoolModel.accepts]; intros s s' tid H Hn; [injection H as <-; reflexivity|].
    destruct (accept s u e) as [s1|] eqn:E; [|discriminate].
    rewrite (IH _ _ _ H) by (intros; eapply Hn; right; eauto).
    eapply accept_frame; [exact E|]. eapply Hn. left. reflexivity.
  Qed.

  (* C01 ring_overflow_falls_back: after a failed ring push of thread tid (id t at the head of its pending list), whatever the
     other threads do, the next event of tid is the central enqueue of that same id *)
  Theorem ring_overflow_falls_back s tid r s1 : accept s tid (ERingPushFail r) = Some s1 ->
    exists t rest, pend (getT s1 tid) = t :: rest /\
      forall tr s2 e s3, accepts s1 tr = Some s2 -> (forall u e', In (u, e') tr -> u <> tid) -> accept s2 tid e = Some s3 ->
        exists tok, e = EEnqCentral tok 1 /\ In (pkey tid tok, t) (central s3) /\ pend (getT s3 tid) = rest.
  Proof.
    intros H. destruct (ring_push_fail_sets_pc _ _ _ _ H) as [Hpc [Hp Hne]].
    destruct (pend (getT s1 tid)) as [|t rest] eqn:Hp1; [congruence|].
    exists t, rest. split; [reflexivity|]. intros tr s2 e s3 Htr Hn He.
    pose proof (obligation_stable _ _ _ _ Htr Hn) as Hst.
    destruct (must_central_next s2 tid e s3) as [tok [t' [rest' [-> [Hp2 [Hp3 [Hin _]]]]]]]; [rewrite Hst; exact Hpc | exact He|].
    rewrite Hst, Hp1 in Hp2. injection Hp2 as <- <-. exists tok. auto.
  Qed.

  (* zero-thread pool: forceEnqueue reads numThreads_ == 0 and must run the task inline on the submitter *)
  Theorem zero_threads_runs_inline s tid nz s1 : numThreads s = 0 -> accept s tid (ELoadNumThreads nz 1) = Some s1 ->
    nz = false /\ tpc (getT s1 tid) = PMustInline /\
    forall tr s2 e s3, accepts s1 tr = Some s2 -> (forall u e', In (u, e') tr -> u <> tid) -> accept s2 tid e = Some s3 ->
      exists site t rest, e = EInline site /\ pend (getT s2 tid) = t :: rest /\ held (getT s3 tid) = Some (t, KInline).
  Proof.
    intros Hz H. unfold accept in H. set (th := getT s tid) in *.
    assert (nz = false /\ tpc (getT s1 tid) = PMustInline) as [-> Hpc].
    { destruct (trole th); try discriminate H.
      all: cbn [is_rz_event] in H; inv_guards H; bool_hyps; subst s1; rewrite ?getT_setT_same; simp_proj.
      all: rewrite Hz in *; cbn in *; try discriminate; destruct nz; cbn in *; try discriminate; auto; try congruence. }
    split; [reflexivity|]. split; [exact Hpc|].
    intros tr s2 e s3 Htr Hn He. pose proof (obligation_stable _ _ _ _ Htr Hn) as Hst.
    unfold accept in He. rewrite Hst, Hpc in He.
    destruct (trole (getT s1 tid)); try discriminate He.
    all: destruct e; cbn [pc_allows negb is_rz_event] in He; try discriminate He.
    all: rewrite <- Hst in He; inv_guards He; subst s3; rewrite getT_setT_same; simp_proj; eauto.
    all: exists site, i, l; auto.
  Qed.

  (* ---------- dtor_drains_all ---------- *)
  Definition is_worker (th : thread) : Z := match trole th with RWorker _ => 1 | _ => 0 end.
  Definition wcount (s : state) : Z := sumf is_worker (threads s).

  Lemma accept_wcount s tid e s' : accept s tid e = Some s' -> nworkers s' - wcount s' = nworkers s - wcount s.
  Proof.
    intros H. unfold accept, accept_rz, getT in H.
    set (th := lget th0 tid (threads s)) in *.
    destruct (trole th) eqn:Hrole; try discriminate H.
    all: destruct e; cbn [is_rz_event] in H; inv_guards H; subst s'; unfold wcount; simp_proj;
      rewrite ?(sumf_lset is_worker th0 (eq_refl _)); fold th; unfold is_worker; simp_proj; rewrite ?Hrole; try lia.
    all: destruct h; simp_proj; rewrite Hrole; lia.
  Qed.

  Lemma wcount_inv n0 tr s : accepts (init share n0) tr = Some s -> nworkers s = wcount s.
  Proof.
    assert (forall tr s s', accepts s tr = Some s' -> nworkers s' - wcount s' = nworkers s - wcount s) as G.
    { clear. induction tr as [|[t e] r IH]; cbn [PoolModel.accepts]; intros s s' H; [injection H as <-; reflexivity|].
      destruct (accept s t e) as [s1|] eqn:E; [|discriminate]. rewrite (IH _ _ H). eapply accept_wcount; eauto. }
    intros H. specialize (G _ _ _ H). assert (nworkers (init share n0) - wcount (init share n0) = 0) by reflexivity. lia.
  Qed.

  Lemma wcount_zero s u : wcount s = 0 -> is_worker (getT s u) = 0.
  Proof.
    intros H. unfold getT, lget. destruct (Nat.lt_ge_cases u (length (threads s))) as [Hl|Hl].
    - eapply sumf_zero_all; [| exact H | apply nth_In; exact Hl]. intros x. unfold is_worker. destruct (trole x); lia.
    - rewrite nth_overflow by assumption. reflexivity.
  Qed.


  (* a thread with nothing pending cannot place anything; its pending list stays empty unless it generates *)
  Lemma accept_pend_empty s u e s' : is_gen e = false -> pend (getT s u) = [] -> accept s u e = Some s' ->
    pend (getT s' u) = [] /\ stale_place share s u e = 0.
  Proof.
    intros Hg Hp H. unfold accept, accept_rz in H. unfold PoolModel.stale_place.
    set (th := getT s u) in *.
    destruct (trole th) eqn:Hrole; try discriminate H.
    all: destruct e; try discriminate Hg; cbn [is_rz_event] in H; rewrite ?Hp in H; cbn [nilb negb andb len length Z.of_nat] in H;
      inv_guards H; try subst s'; rewrite ?getT_setT_same; unfold getT; simp_proj; rewrite ?lget_lset_same; simp_proj; fold (getT s u); fold th; rewrite ?Hp.
    all: bool_hyps; try discriminate; try lia; try (split; reflexivity); try (split; [assumption|reflexivity]).
    all: destruct h; simp_proj; auto.
  Qed.

  Definition joined (ph : phase) : bool :=
    match ph with PhBegin | PhStopped | PhWoken | PhCentral1 | PhJoining => false | _ => true end.
  Definition is_dtor_end (e : event) : bool := match e with EDtorEnd => true | _ => false end.

  Lemma accept_rz_nonowner s a e s' d dt n ph : rz s = RActive d dt n ph -> a <> d -> accept s a e = Some s' -> rz s' = rz s.
  Proof.
    intros Hrz Hne H. unfold accept, accept_rz in H. rewrite Hrz in H.
    set (th := getT s a) in *.
    destruct (trole th) eqn:Hrole; try discriminate H.
    all: destruct e; cbn [is_rz_event] in H; inv_guards H; try subst s'; simp_proj; try reflexivity.
    all: bool_hyps; congruence.
  Qed.

  Lemma accept_role s a e s' : accept s a e = Some s' ->
    trole (getT s a) <> REnded /\
    (trole (getT s' a) = trole (getT s a) \/
     (trole (getT s a) = RNone /\ exists i, trole (getT s' a) = RWorker i) \/
     ((exists i, trole (getT s a) = RWorker i) /\ trole (getT s' a) = REnded /\ th_ids (getT s' a) = [])).
  Proof.
    intros H. unfold accept, accept_rz in H.
    set (th := getT s a) in *.
    destruct (trole th) eqn:Hrole; try discriminate H.
    all: split; [discriminate|].
    all: destruct e; cbn [is_rz_event] in H; inv_guards H; try subst s'; rewrite ?getT_setT_same; unfold getT; simp_proj;
      rewrite ?lget_lset_same; simp_proj; fold (getT s a); fold th; rewrite ?Hrole; auto.
    all: try (destruct h; simp_proj; rewrite ?Hrole; auto).
    all: try (right; left; split; [reflexivity | eexists; reflexivity]).
    all: right; right; split; [eexists; reflexivity|]; split; [reflexivity|].
    all: unfold idle_thread in *; bool_hyps; unfold th_ids; simp_proj.
    all: repeat match goal with H : _ = [] |- _ => rewrite H end; match goal with H : held _ = None |- _ => rewrite H end; reflexivity.
  Qed.

  Definition phase_ok (ph : phase) : bool := pre_drain ph || late ph.

  Lemma accept_dtor_owner s d n ph e s' : rz s = RActive d true n ph -> is_dtor_end e = false -> accept s d e = Some s' ->
    exists ph', rz s' = RActive d true n ph' /\ (joined ph = true -> joined ph' = true) /\
                (joined ph = false -> joined ph' = true -> nworkers s' = 0) /\
                (phase_ok ph = true -> phase_ok ph' = true) /\ (late ph = true -> late ph' = true) /\
                (late ph = false -> late ph' = true -> pend (getT s' d) = [] /\ joined ph = true).
  Proof.
    intros Hrz Hde H. unfold accept, accept_rz in H. rewrite Hrz in H.
    set (th := getT s d) in *.
    destruct (trole th) eqn:Hrole; try discriminate H.
    all: destruct e; try discriminate Hde; cbn [is_rz_event] in H; inv_guards H; try subst s'; simp_proj; rewrite ?Hrz.
    all: try (eexists; split; [reflexivity|]; repeat split; first [tauto | intros; congruence]).
    all: unfold after_ring, after_steal; unfold ring_phase; unfold steal_phase.
    all: repeat match goal with |- context[if ?b then _ else _] => destruct b end.
    all: eexists; split; [reflexivity|]; cbn [joined phase_ok pre_drain late orb]; repeat split; intros; try reflexivity; try discriminate; try assumption.
    all: bool_hyps; try assumption; try discriminate.
  Qed.

  Lemma stale_open_pre s d n ph a e : rz s = RActive d true n ph -> pre_drain ph = true -> stale_place share s a e = 0.
  Proof.
    intros Hrz Hp.
    assert (forall r, PoolModel.ring_open s r = true) as Ho1
      by (intros r; unfold PoolModel.ring_open, ring_drain_pending; rewrite Hrz, Hp; cbn [orb]; apply orb_true_r).
    assert (forall r, PoolModel.steal_open share s r = true) as Ho2
      by (intros r; unfold PoolModel.steal_open, steal_drain_pending; rewrite Hrz, Hp; cbn [orb]; apply orb_true_r).
    assert (central_open s = true) as Ho3 by (unfold central_open; rewrite Hrz; exact Hp).
    unfold PoolModel.stale_place. destruct e; try reflexivity; rewrite ?Ho1, ?Ho2, ?Ho3; try reflexivity.
    - destruct (pc_eqb _ _); reflexivity.
    - rewrite andb_false_r. reflexivity.
    - destruct ok; reflexivity.
  Qed.

  Lemma th_ids_nil_pend th : th_ids th = [] -> pend th = [].
  Proof. unfold th_ids. intros H. apply app_eq_nil in H. tauto. Qed.

  Definition joinedb (r : rzs) : bool := match r with RActive _ _ _ ph => joined ph | RDead => true | RIdle => false end.

  (* the documented contract of ~ThreadPool, as predicates on the state in which the destructor starts and on the events after it:
     no submission is in progress, and threads other than the destructor's and the pool's own workers are not inside the pool and
     make no call while the destructor runs ("illegal to call the destructor while any OTHER thread makes calls to the pool").
     Tasks that the destructor or the workers run may submit more work; the only exclusion is [late_gen]: a task generated after the
     destructor's last central-queue drain (the known finding dtor-drain-task-reschedules). *)
  Definition quiet (s1 : state) (d : nat) : Prop :=
    (forall u, pend (getT s1 u) = []) /\
    (forall u, u <> d -> is_worker (getT s1 u) = 0 -> th_ids (getT s1 u) = []).
  Definition contract_event (s1 : state) (d : nat) (ae : nat * event) : Prop :=
    is_dtor_end (snd ae) = false /\ (fst ae = d \/ is_worker (getT s1 (fst ae)) = 1).

  Record J (s1 : state) (d : nat) (s : state) : Prop := {
    Jrz : exists n ph, rz s = RActive d true n ph /\ phase_ok ph = true;
    Jpend : late_state s = true -> forall u, pend (getT s u) = [];
    Jcov : CovP share s;
    Jw : nworkers s = wcount s;
    Jk1 : forall u, u <> d -> is_worker (getT s1 u) = 0 -> getT s u = getT s1 u;
    Jk2 : forall u, u <> d -> is_worker (getT s1 u) = 1 ->
            ((exists i, trole (getT s u) = RWorker i) /\ joinedb (rz s) = false) \/
            (trole (getT s u) = REnded /\ th_ids (getT s u) = []) }.

  Lemma is_worker_cases th : (is_worker th = 1 /\ exists i, trole th = RWorker i) \/ (is_worker th = 0 /\ forall i, trole th <> RWorker i).
  Proof. unfold is_worker. destruct (trole th); [right | left | right]; split; eauto; try discriminate; try reflexivity. Qed.

  Lemma J_step s1 d s a e s' : (forall u, pend (getT s1 u) = []) ->
    J s1 d s -> contract_event s1 d (a, e) -> is_gen e && late_state s = false -> accept s a e = Some s' -> J s1 d s'.
  Proof.
    intros Qp [[n [ph [Hrz Hok]]] Hp Hc Hw K1 K2] (Hde & Ha) Hlg H. cbn [fst snd] in *.
    assert (late_state s = late ph) as Hls by (unfold late_state; rewrite Hrz; reflexivity).
    assert (stale_place share s a e = 0 /\ (late ph = true -> pend (getT s' a) = [])) as [Hst Hp'].
    { destruct (late ph) eqn:El.
      - rewrite Hls in Hlg. rewrite andb_true_r in Hlg. rewrite Hls in Hp. specialize (Hp eq_refl).
        destruct (accept_pend_empty _ _ _ _ Hlg (Hp a) H). auto.
      - split; [|discriminate]. unfold phase_ok in Hok. rewrite El, orb_false_r in Hok. eapply stale_open_pre; eauto. }
    pose proof (accept_wcount _ _ _ _ H) as Hwc.
    assert (exists ph', rz s' = RActive d true n ph' /\ (joined ph = true -> joined ph' = true) /\
                        (joined ph = false -> joined ph' = true -> nworkers s' = 0) /\ phase_ok ph' = true /\ (late ph = true -> late ph' = true) /\
                        (late ph = false -> late ph' = true -> a = d /\ pend (getT s' d) = [] /\ joined ph = true))
      as (ph' & Hrz' & Hj1 & Hj2 & Hok' & Hl1 & Hl2).
    { destruct (Nat.eq_dec a d) as [->|Hne].
      - destruct (accept_dtor_owner _ _ _ _ _ _ Hrz Hde H) as (ph' & A & B & C & D & E & F). exists ph'.
        split; [exact A|]. split; [exact B|]. split; [exact C|]. split; [auto|]. split; [exact E|].
        intros X Y. destruct (F X Y). auto.
      - rewrite (accept_rz_nonowner _ _ _ _ _ _ _ _ Hrz Hne H). exists ph. rewrite Hrz.
        split; [reflexivity|]. split; [tauto|]. split; [intros; congruence|]. split; [exact Hok|]. split; [tauto|]. intros; congruence. }
    assert (late_state s' = late ph') as Hls' by (unfold late_state; rewrite Hrz'; reflexivity).
    constructor.
    - eauto.
    - rewrite Hls'. intros Hl' u. destruct (late ph) eqn:El.
      + rewrite Hls in Hp. specialize (Hp eq_refl). destruct (Nat.eq_dec a u) as [<-|Hne]; [auto|]. rewrite (accept_frame _ _ _ _ _ H Hne). apply Hp.
      + destruct (Hl2 eq_refl Hl') as (-> & Hpd & Hjn). destruct (Nat.eq_dec d u) as [<-|Hne]; [exact Hpd|].
        rewrite (accept_frame _ _ _ _ _ H Hne).
        destruct (is_worker_cases (getT s1 u)) as [[Hwk _] | [Hz _]].
        * destruct (K2 u (not_eq_sym Hne) Hwk) as [[_ Hjb] | [_ Hids]]; [|apply th_ids_nil_pend; exact Hids].
          rewrite Hrz in Hjb. cbn [joinedb] in Hjb. rewrite Hjn in Hjb. discriminate.
        * rewrite (K1 u (not_eq_sym Hne) Hz). apply Qp.
    - eapply cov_step; eauto.
    - lia.
    - intros u Hu Hwk. rewrite <- (K1 u Hu Hwk). apply (accept_frame _ _ _ _ _ H). intros ->. destruct Ha as [?|Ha]; [contradiction | rewrite Ha in Hwk; discriminate].
    - intros u Hu Hwk. specialize (K2 u Hu Hwk). destruct (Nat.eq_dec a u) as [<-|Hne].
      + destruct (accept_role _ _ _ _ H) as [Hnot [Hsame | [[Hnone _] | [_ [Hend Hids]]]]].
        * destruct K2 as [[Hr Hjb] | [Hr _]]; [|rewrite Hr in Hnot; contradiction].
          left. rewrite Hsame. split; [exact Hr|]. rewrite (accept_rz_nonowner _ _ _ _ _ _ _ _ Hrz Hu H). exact Hjb.
        * destruct K2 as [[[i Hr] _] | [Hr _]]; rewrite Hr in Hnone; discriminate.
        * right. auto.
      + rewrite (accept_frame _ _ _ _ _ H Hne). destruct K2 as [[Hr Hjb] | K2]; [|right; exact K2].
        left. split; [exact Hr|]. rewrite Hrz'. rewrite Hrz in Hjb. cbn [joinedb] in *.
        destruct (joined ph') eqn:E; [|reflexivity]. exfalso.
        specialize (Hj2 Hjb eq_refl). assert (wcount s' = 0) as Hz by lia.
        pose proof (wcount_zero _ u Hz) as Hzu. rewrite (accept_frame _ _ _ _ _ H Hne) in Hzu.
        destruct Hr as [i Hr]. unfold is_worker in Hzu. rewrite Hr in Hzu. discriminate.
  Qed.

  Lemma J_accepts s1 d tr : (forall u, pend (getT s1 u) = []) -> forall s s', J s1 d s -> Forall (contract_event s1 d) tr ->
    late_gen rcap scap share s tr = false -> accepts s tr = Some s' -> J s1 d s'.
  Proof.
    intros Qp. induction tr as [|[a e] r IH]; cbn [PoolModel.accepts PoolModel.late_gen]; intros s s' Hj Hf Hl H; [injection H as <-; exact Hj|].
    destruct (accept s a e) as [s2|] eqn:E; [|discriminate]. inversion Hf; subst.
    apply orb_false_iff in Hl. destruct Hl as [Hl1 Hl2].
    eapply IH; [| eassumption | exact Hl2 | exact H]. eapply J_step; eauto.
  Qed.

  Lemma late_gen_app tr1 : forall tr2 s s1, accepts s tr1 = Some s1 ->
    late_gen rcap scap share s (tr1 ++ tr2) = late_gen rcap scap share s tr1 || late_gen rcap scap share s1 tr2.
  Proof.
    induction tr1 as [|[a e] r IH]; cbn [app PoolModel.accepts PoolModel.late_gen]; intros tr2 s s1 H; [injection H as ->; reflexivity|].
    destruct (accept s a e) as [s2|]; [|discriminate]. rewrite (IH _ _ _ H). rewrite orb_assoc. reflexivity.
  Qed.

  Lemma accepts_app tr1 : forall tr2 s s', accepts s (tr1 ++ tr2) = Some s' -> exists s1, accepts s tr1 = Some s1 /\ accepts s1 tr2 = Some s'.
  Proof.
    induction tr1 as [|[a e] r IH]; cbn [app PoolModel.accepts]; intros tr2 s s' H; [eauto|].
    destruct (accept s a e) as [s2|]; [|discriminate]. apply IH. exact H.
  Qed.
  Lemma accepts_app2 tr1 : forall tr2 s s1 s', accepts s tr1 = Some s1 -> accepts s1 tr2 = Some s' -> accepts s (tr1 ++ tr2) = Some s'.
  Proof.
    induction tr1 as [|[a e] r IH]; cbn [app PoolModel.accepts]; intros tr2 s s1 s' H1 H2; [injection H1 as ->; exact H2|].
    destruct (accept s a e) as [s2|]; [|discriminate]. eapply IH; eauto.
  Qed.

  (* C01 dtor_drains_all *)
  Theorem dtor_drains_all n0 tr1 s1 d tr3 s :
    accepts (init share n0) tr1 = Some s1 -> quiet s1 d ->
    Forall (contract_event s1 d) tr3 ->
    accepts s1 ((d, EDtorBegin) :: tr3 ++ [(d, EDtorEnd)]) = Some s ->
    late_gen rcap scap share (init share n0) (tr1 ++ (d, EDtorBegin) :: tr3 ++ [(d, EDtorEnd)]) = false ->
    rz s = RDead /\ central s = [] /\ (forall j, lget [] j (rings s) = []) /\ (forall j, lget [] j (steals s) = []) /\
    (forall u, th_ids (getT s u) = []) /\
    forall t, In t (gens s) -> cnt t (done s) = 1.
  Proof.
    intros H1 [Qp Qi] Hf H Hlate.
    rewrite (late_gen_app _ _ _ _ H1) in Hlate. apply orb_false_iff in Hlate. destruct Hlate as [_ Hlate].
    cbn [PoolModel.late_gen] in Hlate.
    cbn [PoolModel.accepts] in H. destruct (accept s1 d EDtorBegin) as [sa|] eqn:Ea; [|discriminate].
    apply orb_false_iff in Hlate. destruct Hlate as [_ Hlate].
    destruct (accepts_app _ _ _ _ H) as (sb & Hb & He). cbn [PoolModel.accepts] in He.
    rewrite (late_gen_app _ _ _ _ Hb) in Hlate. apply orb_false_iff in Hlate. destruct Hlate as [Hlate _].
    destruct (accept sb d EDtorEnd) as [s'|] eqn:Ee; [|discriminate]. injection He as ->.
    (* J after the destructor's first event *)
    assert (J s1 d sa) as Ja.
    { assert (rz sa = RActive d true 0 PhBegin /\ threads sa = threads s1 /\ rings sa = rings s1 /\ steals sa = steals s1 /\ central sa = central s1 /\ nworkers sa = nworkers s1) as (Hrz & Hth & _).
      { unfold accept, accept_rz in Ea. destruct (trole (getT s1 d)); try discriminate Ea.
        all: cbn [is_rz_event] in Ea; inv_guards Ea; subst sa; simp_proj; repeat split; reflexivity. }
      assert (forall u, getT sa u = getT s1 u) as Hg by (intros u; unfold getT; rewrite Hth; reflexivity).
      constructor.
      - exists 0, PhBegin. split; [exact Hrz | reflexivity].
      - unfold late_state. rewrite Hrz. discriminate.
      - unfold CovP, cov_rings, cov_steals, cov_central, aux, PoolModel.ring_open, PoolModel.steal_open, central_open. rewrite Hrz. cbn.
        repeat split; intros; apply orb_true_r.
      - pose proof (wcount_inv _ _ _ H1). pose proof (accept_wcount _ _ _ _ Ea). lia.
      - intros u _ _. apply Hg.
      - intros u Hu Hwk. left. rewrite Hg, Hrz. split; [|reflexivity].
        destruct (is_worker_cases (getT s1 u)) as [[_ Hr] | [Hz _]]; [exact Hr | rewrite Hz in Hwk; discriminate]. }
    pose proof (J_accepts _ _ _ Qp _ _ Ja Hf Hlate Hb) as [[n [ph [Hrz _]]] Hp Hc Hw K1 K2].
    (* the last event *)
    assert (rz s = RDead /\ ph = PhDrained /\ th_ids (getT s d) = [] /\ forall u, u <> d -> getT s u = getT sb u) as (Hdead & -> & Hd & Hfr).
    { unfold accept, accept_rz in Ee. rewrite Hrz in Ee. destruct (trole (getT sb d)); try discriminate Ee.
      all: cbn [is_rz_event] in Ee; inv_guards Ee; subst s; simp_proj; bool_hyps; repeat split; try reflexivity.
      all: unfold th_ids, getT in *; simp_proj; repeat match goal with H : _ = [] |- _ => rewrite H end; try match goal with H : held _ = None |- _ => rewrite H end; reflexivity. }
    assert (stale_place share sb d EDtorEnd = 0) as Hst by reflexivity.
    pose proof (cov_step _ _ _ _ _ _ _ Hc Ee Hst) as (Cr & Cs & Cc & _).
    unfold cov_rings, cov_steals, cov_central, PoolModel.ring_open, PoolModel.steal_open, central_open, fut_rings, fut_steal in *.
    rewrite Hdead in *. cbn [orb] in *.
    assert (central s = []) as E1 by (destruct (central s); [reflexivity | exfalso; assert (false = true) by (apply Cc; discriminate); discriminate]).
    assert (forall j, lget [] j (rings s) = []) as E2.
    { intros j. destruct (lget [] j (rings s)) eqn:E; [reflexivity|]. exfalso. assert (lget [] j (rings s) <> []) as Hn by (rewrite E; discriminate).
      specialize (Cr j Hn). destruct (Z.of_nat j <? 0) eqn:E0; [apply Z.ltb_lt in E0; lia | discriminate Cr]. }
    assert (forall j, lget [] j (steals s) = []) as E3.
    { intros j. destruct (lget [] j (steals s)) eqn:E; [reflexivity|]. exfalso. assert (lget [] j (steals s) <> []) as Hn by (rewrite E; discriminate).
      specialize (Cs j Hn). destruct (Z.of_nat j <? 0) eqn:E0; [apply Z.ltb_lt in E0; lia | discriminate Cs]. }
    assert (forall u, th_ids (getT s u) = []) as E4.
    { intros u. destruct (Nat.eq_dec u d) as [->|Hu]; [exact Hd|]. rewrite (Hfr u Hu).
      destruct (is_worker_cases (getT s1 u)) as [[Hwk _] | [Hz _]].
      - destruct (K2 u Hu Hwk) as [[_ Hjb] | [_ Hids]]; [|exact Hids]. rewrite Hrz in Hjb. discriminate Hjb.
      - rewrite (K1 u Hu Hz). apply Qi; assumption. }
    repeat split; try assumption.
    intros t Ht.
    assert (accepts (init share n0) (tr1 ++ (d, EDtorBegin) :: tr3 ++ [(d, EDtorEnd)]) = Some s) as Hall.
    { eapply accepts_app2; [exact H1|]. cbn [PoolModel.accepts]. rewrite Ea. eapply accepts_app2; [exact Hb|]. cbn [PoolModel.accepts]. rewrite Ee. reflexivity. }
    destruct (conservation _ _ _ Hall) as (_ & Hin & _). destruct (Hin t Ht) as [Htot _].
    unfold tot in Htot. rewrite E1 in Htot. cbn [map] in Htot. rewrite cnt_nil in Htot.
    assert (forall (l : list (list id)), (forall j, lget [] j l = []) -> sumf (cnt t) l = 0) as Hs0.
    { clear. intros l Hl. assert (forall x, In x l -> x = []) as Hx.
      { intros x Hin. destruct (In_nth _ _ [] Hin) as (j & _ & Hj). rewrite <- Hj. apply Hl. }
      clear Hl. induction l as [|x r IH]; cbn; [reflexivity|]. rewrite (Hx x) by (left; reflexivity). rewrite cnt_nil, IH; [reflexivity|]. intros; apply Hx; right; assumption. }
    rewrite (Hs0 _ E2), (Hs0 _ E3) in Htot.
    assert (sumf (fun th => cnt t (th_ids th)) (threads s) = 0) as Ht0.
    { assert (forall x, In x (threads s) -> th_ids x = []) as Hx.
      { intros x Hix. destruct (In_nth _ _ th0 Hix) as (j & _ & Hj). rewrite <- Hj. apply (E4 j). }
      clear -Hx. induction (threads s) as [|x r IH]; cbn; [reflexivity|]. rewrite (Hx x) by (left; reflexivity). rewrite cnt_nil, IH; [reflexivity|]. intros; apply Hx; right; assumption. }
    rewrite Ht0 in Htot. lia.
  Qed.

  (* executable form of [quiet] (for concrete instances) *)
  Fixpoint forall_idx {A} (f : nat -> A -> bool) (i : nat) (l : list A) : bool :=
    match l with [] => true | x :: r => f i x && forall_idx f (S i) r end.
  Lemma forall_idx_nth {A} (f : nat -> A -> bool) d l : forall i, forall_idx f i l = true -> forall j, (j < length l)%nat -> f (i + j)%nat (nth j l d) = true.
  Proof.
    induction l as [|x r IH]; cbn [forall_idx length]; intros i H j Hj; [lia|].
    apply andb_prop in H. destruct H as [H1 H2]. destruct j as [|j]; cbn [nth].
    - rewrite Nat.add_0_r. exact H1.
    - replace (i + S j)%nat with (S i + j)%nat by lia. apply IH; [exact H2 | lia].
  Qed.
  Definition quietb (s1 : state) (d : nat) : bool :=
    forall_idx (fun u th => nilb (pend th) && (Nat.eqb u d || (is_worker th =? 1) || nilb (th_ids th))) 0 (threads s1).
  Lemma quietb_sound s1 d : quietb s1 d = true -> quiet s1 d.
  Proof.
    intros H. unfold quietb in H. split.
    - intros u. unfold getT, lget. destruct (Nat.lt_ge_cases u (length (threads s1))) as [Hl|Hl].
      + pose proof (forall_idx_nth _ th0 _ _ H u Hl) as E. cbn in E. apply andb_prop in E. destruct E as [E _]. apply nilb_true in E. exact E.
      + rewrite nth_overflow by assumption. reflexivity.
    - intros u Hu Hw. unfold getT, lget in *. destruct (Nat.lt_ge_cases u (length (threads s1))) as [Hl|Hl].
      + pose proof (forall_idx_nth _ th0 _ _ H u Hl) as E. cbn in E. apply andb_prop in E. destruct E as [_ E].
        apply orb_prop in E. destruct E as [E|E]; [apply orb_prop in E; destruct E as [E|E]|].
        * apply Nat.eqb_eq in E. contradiction.
        * apply Z.eqb_eq in E. lia.
        * apply nilb_true in E. exact E.
      + rewrite nth_overflow by assumption. reflexivity.
  Qed.
End C01.

(* witness (= event trace of the REAL code, props/pool_common.py WITNESSES[3]): pool(1) with its worker asleep; schedulePlaced(t0) puts t0 into
   steal ring 0; ~ThreadPool starts at once; the worker exits; the destructor drains central (empty), rings, then steal ring 0: it runs t0,
   whose body calls pool.schedule(t1): numThreads_ is still 1, so t1 is counted and enqueued centrally -- after the last central drain. *)
Definition c01_late_prefix : list (nat * event) :=
  [(1%nat,EWorkerBegin 0); (0%nat,EGen 0); (0%nat,ELoadNumThreads true 1); (0%nat,EAdd 1 1); (0%nat,EStealPush 0 true)].
Definition c01_late_during : list (nat * event) :=
  [(0%nat,EStopAll); (0%nat,EWakeAll); (0%nat,ECentralDone 2); (0%nat,EJoinBegin); (1%nat,EWorkerEnd 0); (0%nat,EJoinDone); (0%nat,ECentralDone 3);
   (0%nat,ERingDone 0); (0%nat,EDrainSteal 0 0); (0%nat,EBodyBegin 0); (0%nat,EGen 1); (0%nat,ELoadNumThreads true 1); (0%nat,EAdd 1 1);
   (0%nat,EEnqCentral 0 1); (0%nat,EBodyEnd 0); (0%nat,EStealDone 0)].

Lemma c01_late_witness :
  exists s1 s, accepts 16 32 8 (init 8 1) c01_late_prefix = Some s1 /\ quiet s1 0 /\ Forall (contract_event s1 0%nat) c01_late_during /\
    accepts 16 32 8 s1 ((0%nat, EDtorBegin) :: c01_late_during ++ [(0%nat, EDtorEnd)]) = Some s /\
    rz s = RDead /\ gens s = [1; 0] /\ done s = [0] /\ central s = [(0, 1)].
Proof.
  eexists. eexists. split; [vm_compute; reflexivity|]. split; [apply quietb_sound; vm_compute; reflexivity|].
  split; [repeat (apply Forall_cons; [unfold contract_event; cbn [fst snd is_dtor_end]; split; [reflexivity|]; first [left; reflexivity | right; vm_compute; reflexivity]|]); apply Forall_nil|].
  vm_compute. repeat split.
Qed.
