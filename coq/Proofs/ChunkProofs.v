From Coq Require Import ZArith List Bool Lia Zdiv Setoid Morphisms.
From DV Require Import Base.MachInt Model.ChunkModel.
Import ListNotations.
Local Open Scope Z_scope.

(* ---------- staticChunkSize ---------- *)
Lemma static_chunk_spec items chunks :
  0 <= items -> 0 < chunks ->
  let '(t, c) := static_chunk items chunks in
  0 <= t <= chunks /\ 0 <= c /\ (t < chunks -> 1 <= c) /\ (0 < items -> 0 < t) /\
  t * c + (chunks - t) * (c - 1) = items /\ c <= items.
Proof.
  intros Hi Hc. unfold static_chunk.
  rewrite quot_div_nonneg by lia.
  pose proof (ceil_div_bounds items chunks Hi Hc) as B. cbv zeta in B.
  set (c := (items + chunks - 1) / chunks) in *.
  assert (0 <= c) by (apply Z.div_pos; lia).
  repeat split; try nia.
Qed.

Lemma static_chunk_gran_spec items chunks g :
  0 <= items -> 0 < chunks -> 1 <= g -> (g | items) ->
  let '(t, c) := static_chunk_gran items chunks g in
  let u := unit_of g in
  0 <= t <= chunks /\ 0 <= c /\ (u | c) /\ (t < chunks -> u <= c) /\ (0 < items -> 0 < t) /\
  t * c + (chunks - t) * (c - u) = items /\ c <= items.
Proof.
  intros Hi Hc Hg [q Hq]. unfold static_chunk_gran, unit_of.
  destruct (g <=? 1) eqn:G1.
  - assert (g = 1) by lia. subst g. change (1 <? 1) with false. cbv iota.
    pose proof (static_chunk_spec items chunks Hi Hc) as S.
    destruct (static_chunk items chunks) as [t c].
    destruct S as (S1 & S2 & S3 & S4 & S5 & S6).
    split; [lia|]. split; [lia|]. split; [exists c; lia|]. repeat split; lia.
  - assert (1 < g) by lia. replace (1 <? g) with true by (symmetry; apply Z.ltb_lt; lia).
    assert (Hq0 : 0 <= q) by nia.
    assert (E : Z.quot items g = q).
    { rewrite quot_div_nonneg by lia. subst items. apply Z.div_mul; lia. }
    rewrite E. rewrite quot_div_nonneg by lia.
    pose proof (ceil_div_bounds q chunks Hq0 Hc) as B. cbv zeta in B.
    set (c := (q + chunks - 1) / chunks) in *.
    assert (0 <= c) by (apply Z.div_pos; lia).
    set (t := chunks - (c * chunks - q)).
    assert (T1 : 0 <= t <= chunks) by (subst t; lia).
    assert (T2 : t * c + (chunks - t) * (c - 1) = q) by (subst t; ring).
    assert (T3 : t < chunks -> 1 <= c) by (subst t; nia).
    split; [lia|]. split; [nia|]. split; [exists c; lia|].
    split; [intros L; specialize (T3 L); nia|].
    split; [intros L; subst t; nia|].
    split; [subst items; rewrite <- T2; ring|].
    assert (c <= q) by (destruct (Z.eq_dec q 0); nia). nia.
Qed.

(* sum of chunk lengths over [0, n) *)
Fixpoint sum_len (f : Z -> Z) (n : nat) : Z :=
  match n with O => 0 | S m => sum_len f m + f (Z.of_nat m) end.

Lemma sum_len_two (t c d : Z) (n : nat) :
  0 <= t ->
  sum_len (fun i => if i <? t then c else d) n =
  Z.min (Z.of_nat n) t * c + (Z.of_nat n - Z.min (Z.of_nat n) t) * d.
Proof.
  intros Ht. induction n as [|n IH].
  - simpl. rewrite Z.min_l by lia. lia.
  - cbn [sum_len]. rewrite IH. rewrite Nat2Z.inj_succ.
    destruct (Z.of_nat n <? t) eqn:E; [apply Z.ltb_lt in E | apply Z.ltb_ge in E].
    + rewrite !Z.min_l by lia. ring.
    + rewrite !Z.min_r by lia. ring.
Qed.

Theorem chunk_len_sum items chunks g :
  0 <= items -> 0 < chunks -> 1 <= g -> (g | items) ->
  sum_len (chunk_len items chunks g) (Z.to_nat chunks) = items.
Proof.
  intros Hi Hc Hg Hd.
  pose proof (static_chunk_gran_spec items chunks g Hi Hc Hg Hd) as S.
  unfold chunk_len. destruct (static_chunk_gran items chunks g) as [t c].
  cbv zeta in S. destruct S as ((S1 & S1') & S2 & S3 & S4 & S5 & S6).
  rewrite sum_len_two by lia. rewrite Z2Nat.id by lia. rewrite Z.min_r by lia. lia.
Qed.

Theorem chunk_len_shape items chunks g i j :
  0 <= items -> 0 < chunks -> 1 <= g -> (g | items) -> 0 <= i <= j -> j < chunks ->
  0 <= chunk_len items chunks g j <= chunk_len items chunks g i /\
  chunk_len items chunks g i - chunk_len items chunks g j <= unit_of g /\
  (unit_of g | chunk_len items chunks g i).
Proof.
  intros Hi Hc Hg Hd Hij Hj.
  pose proof (static_chunk_gran_spec items chunks g Hi Hc Hg Hd) as S.
  unfold chunk_len. destruct (static_chunk_gran items chunks g) as [t c].
  cbv zeta in S. destruct S as ((S1 & S1') & S2 & S3 & S4 & S5 & S6).
  assert (U : 1 <= unit_of g) by (unfold unit_of; destruct (1 <? g) eqn:E; [apply Z.ltb_lt in E|]; lia).
  destruct (i <? t) eqn:Ei; destruct (j <? t) eqn:Ej;
    try apply Z.ltb_lt in Ei; try apply Z.ltb_ge in Ei; try apply Z.ltb_lt in Ej; try apply Z.ltb_ge in Ej;
    repeat split; try lia; try assumption.
  all: try (destruct S3 as [q Hq]; exists (q - 1); lia).
Qed.

(* ---------- modular arithmetic of castk ---------- *)
Lemma castk_mod k z : wf_kind k -> castk k z mod 2 ^ ik_w k = z mod 2 ^ ik_w k.
Proof.
  unfold wf_kind, castk; destruct k as [w s]; simpl; intros Hw.
  assert (P : 0 < 2 ^ w) by (apply pow2_pos; lia).
  destruct s.
  - unfold wrap_s.
    assert (E : 2 ^ w = 2 * 2 ^ (w - 1)).
    { replace w with (Z.succ (w - 1)) at 1 by lia. rewrite Z.pow_succ_r by lia. reflexivity. }
    rewrite Zminus_mod, Zmod_mod, <- Zminus_mod. f_equal. lia.
  - unfold wrap. apply Zmod_mod.
Qed.

Lemma castk_eq_of_mod k a b : wf_kind k -> a mod 2 ^ ik_w k = b mod 2 ^ ik_w k -> castk k a = castk k b.
Proof.
  unfold wf_kind, castk, wrap, wrap_s; destruct k as [w s]; simpl; intros Hw E.
  destruct s; [|exact E].
  f_equal. rewrite (Zplus_mod a), (Zplus_mod b), E. reflexivity.
Qed.

Lemma castk_add_l k a b : wf_kind k -> castk k (castk k a + b) = castk k (a + b).
Proof. intros Hw; apply castk_eq_of_mod; [exact Hw|]. rewrite Zplus_mod, castk_mod, <- Zplus_mod; auto. Qed.
Lemma castk_add_r k a b : wf_kind k -> castk k (a + castk k b) = castk k (a + b).
Proof. intros Hw; rewrite (Z.add_comm a), castk_add_l, (Z.add_comm b); auto. Qed.
Lemma castk_mul_l k a b : wf_kind k -> castk k (castk k a * b) = castk k (a * b).
Proof. intros Hw; apply castk_eq_of_mod; [exact Hw|]. rewrite Zmult_mod, castk_mod, <- Zmult_mod; auto. Qed.
Lemma castk_mul_r k a b : wf_kind k -> castk k (a * castk k b) = castk k (a * b).
Proof. intros Hw; rewrite (Z.mul_comm a), castk_mul_l, (Z.mul_comm b); auto. Qed.
Lemma castk_sub_r k a b : wf_kind k -> castk k (a - castk k b) = castk k (a - b).
Proof. intros Hw; apply castk_eq_of_mod; [exact Hw|]. rewrite Zminus_mod, castk_mod, <- Zminus_mod; auto. Qed.
Lemma castk_sub_l k a b : wf_kind k -> castk k (castk k a - b) = castk k (a - b).
Proof. intros Hw; apply castk_eq_of_mod; [exact Hw|]. rewrite Zminus_mod, castk_mod, <- Zminus_mod; auto. Qed.

(* congruence modulo 2^w as an opaque setoid relation *)
Definition eqk (k : ikind) (a b : Z) : Prop := a mod 2 ^ ik_w k = b mod 2 ^ ik_w k.
#[global] Instance eqk_equiv k : Equivalence (eqk k).
Proof. split; unfold eqk; [intros x; reflexivity | intros x y H; symmetry; exact H | intros x y z H1 H2; congruence]. Qed.
#[global] Instance eqk_add k : Proper (eqk k ==> eqk k ==> eqk k) Z.add.
Proof. intros a b H c d H'; unfold eqk in *. rewrite (Zplus_mod a), (Zplus_mod b), H, H'. reflexivity. Qed.
#[global] Instance eqk_sub k : Proper (eqk k ==> eqk k ==> eqk k) Z.sub.
Proof. intros a b H c d H'; unfold eqk in *. rewrite (Zminus_mod a), (Zminus_mod b), H, H'. reflexivity. Qed.
#[global] Instance eqk_mul k : Proper (eqk k ==> eqk k ==> eqk k) Z.mul.
Proof. intros a b H c d H'; unfold eqk in *. rewrite (Zmult_mod a), (Zmult_mod b), H, H'. reflexivity. Qed.

Lemma castk_eqm k z : wf_kind k -> eqk k (castk k z) z.
Proof. intros; unfold eqk; apply castk_mod; assumption. Qed.

Lemma castk_of_eqm k a b : wf_kind k -> eqk k a b -> in_kind k b -> castk k a = b.
Proof.
  intros Hw E Hb. rewrite <- (castk_id k b Hw Hb). apply castk_eq_of_mod; assumption.
Qed.
Lemma eqk_refl2 k a b : a = b -> eqk k a b.
Proof. intros ->; reflexivity. Qed.
Lemma castk_eq_of_eqk k a b : wf_kind k -> eqk k a b -> castk k a = castk k b.
Proof. intros Hw E. apply castk_eq_of_mod; assumption. Qed.
#[global] Opaque eqk.
