(* C32, part 4: the loops over cells (construct / destroy / assign ranges, std::move, std::move_backward),
   each with its effect on every cell and on the ledger. *)
From Coq Require Import ZArith List Bool Lia ZifyBool.
From DV Require Import Base.MachInt Base.Life Model.CVecModel Proofs.CVecBucketProofs Proofs.CVecStoreProofs Proofs.CVecAllocProofs.
Import ListNotations.
Local Open Scope Z_scope.

Ltac Zify.zify_post_hook ::= Z.div_mod_to_equations.

(* ------------------------------------------------------------------------------------------------ ledger deltas *)
Definition n_ctor_c (c : counters) : Z := c_value c + c_copy c + c_move c.
(* no new misuse, nothing lost, no bad access, dc constructions and dd destructor calls more *)
Definition ldelta (L L' : cled) (dc dd : Z) : Prop :=
  cl_errs L' = cl_errs L /\ cl_glive L' = cl_glive L /\ cl_gmoved L' = cl_gmoved L /\ cl_bad L' = cl_bad L /\
  n_ctor_c (cl_cnt L') = n_ctor_c (cl_cnt L) + dc /\ c_dtor (cl_cnt L') = c_dtor (cl_cnt L) + dd.

Lemma ldelta_refl L : ldelta L L 0 0.
Proof. unfold ldelta; repeat split; lia. Qed.
Lemma ldelta_trans L1 L2 L3 a b c d : ldelta L1 L2 a b -> ldelta L2 L3 c d -> ldelta L1 L3 (a + c) (b + d).
Proof. unfold ldelta; intros (A1 & A2 & A3 & A4 & A5 & A6) (B1 & B2 & B3 & B4 & B5 & B6); repeat split; try congruence; lia. Qed.
Lemma ldelta_eq L L' a b a' b' : ldelta L L' a b -> a = a' -> b = b' -> ldelta L L' a' b'.
Proof. intros H -> ->; exact H. Qed.

(* the lifetime events on one cell *)
Definition destroyed (c : cell) : cell := mkCell (match c_st c with Unborn => Unborn | _ => Dead end) kDeadTag.
Definition assigned (t : Z) (c : cell) : cell := mkCell (if is_live (c_st c) then Alive else c_st c) t.
Definition moved_from (c : cell) : cell := mkCell (if is_live (c_st c) then MovedFrom else c_st c) (c_tag c).

Lemma c_construct_cell k t c L : fst (c_construct k t c L) = mkCell Alive t.
Proof. reflexivity. Qed.
Lemma c_construct_bad k t c L : cl_bad (snd (c_construct k t c L)) = cl_bad L.
Proof. unfold c_construct. destruct (is_live (c_st c)); reflexivity. Qed.
Lemma c_construct_delta k t c L : is_live (c_st c) = false -> ldelta L (snd (c_construct k t c L)) 1 0.
Proof.
  intros H. unfold c_construct. rewrite H. unfold ldelta, n_ctor_c. simpl.
  destruct k; simpl; repeat split; lia.
Qed.
Lemma c_destroy_cell c L : fst (c_destroy c L) = destroyed c.
Proof. unfold c_destroy, destroyed. destruct (c_st c); reflexivity. Qed.
Lemma c_destroy_bad c L : cl_bad (snd (c_destroy c L)) = cl_bad L.
Proof. unfold c_destroy. destruct (c_st c); reflexivity. Qed.
Lemma c_destroy_delta c L : is_live (c_st c) = true -> ldelta L (snd (c_destroy c L)) 0 1.
Proof. intros H. unfold c_destroy. destruct (c_st c); try discriminate; unfold ldelta, n_ctor_c; simpl; repeat split; lia. Qed.
Lemma c_assign_cell k t c L : fst (c_assign_to k t c L) = assigned t c.
Proof. unfold c_assign_to, assigned. destruct (c_st c); reflexivity. Qed.
Lemma c_assign_bad k t c L : cl_bad (snd (c_assign_to k t c L)) = cl_bad L.
Proof. unfold c_assign_to. destruct (c_st c); reflexivity. Qed.
Lemma c_assign_delta k t c L : is_live (c_st c) = true -> ldelta L (snd (c_assign_to k t c L)) 0 0.
Proof.
  intros H. unfold c_assign_to. destruct (c_st c); try discriminate; unfold ldelta, n_ctor_c; destruct k; simpl; repeat split; lia.
Qed.
Lemma c_move_from_cell c L : fst (c_move_from c L) = moved_from c.
Proof. unfold c_move_from, moved_from. destruct c as [st t]; destruct st; reflexivity. Qed.
Lemma c_move_from_bad c L : cl_bad (snd (c_move_from c L)) = cl_bad L.
Proof. unfold c_move_from. destruct (c_st c); reflexivity. Qed.
Lemma c_move_from_delta c L : is_live (c_st c) = true -> snd (c_move_from c L) = L.
Proof. intros H. unfold c_move_from. destruct (c_st c); try discriminate; reflexivity. Qed.

(* ------------------------------------------------------------------------------------------------ same storage *)
Definition same_store (v v' : cvec) : Prop :=
  v_shift v' = v_shift v /\ v_size v' = v_size v /\ length (v_bufs v') = length (v_bufs v) /\
  (forall b, is_alloc (v_bufs v') b = is_alloc (v_bufs v) b) /\ (wfv v -> wfv v').

Lemma same_store_refl v : same_store v v.
Proof. unfold same_store; auto. Qed.
Lemma same_store_trans a b c : same_store a b -> same_store b c -> same_store a c.
Proof.
  intros (A1 & A2 & A3 & A4 & A5) (B1 & B2 & B3 & B4 & B5). unfold same_store.
  split; [congruence|]. split; [congruence|]. split; [congruence|]. split; [|auto].
  intros k. rewrite B4. apply A4.
Qed.
Lemma same_store_set_cell v i c : same_store v (set_cell v i c).
Proof.
  unfold same_store. rewrite set_cell_shift, set_cell_size, set_cell_nbufs.
  split; [reflexivity|]. split; [reflexivity|]. split; [reflexivity|]. split; [|apply wfv_set_cell].
  intros b; apply is_alloc_set_cell.
Qed.
Lemma same_store_valid v v' i : same_store v v' -> wfv v -> 0 <= i -> valid_idx v' i = valid_idx v i.
Proof. intros (S1 & _ & _ & S4 & S5) W Hi. rewrite !valid_idx_alloc by auto. rewrite S1. apply S4. Qed.

(* ------------------------------------------------------------------------------------------------ one cell *)
Lemma upd_cell_valid f i v L : valid_idx v i = true ->
  upd_cell f i (v, L) = (set_cell v i (fst (f (get_cell v i) L)), snd (f (get_cell v i) L)).
Proof. intros H. unfold upd_cell. rewrite H. destruct (f (get_cell v i) L); reflexivity. Qed.

(* result of a loop: storage unchanged in shape, no bad access, cells described pointwise *)
Definition loop_res (v : cvec) (L : cled) (r : cvec * cled) (g : Z -> cell) : Prop :=
  same_store v (fst r) /\ cl_bad (snd r) = cl_bad L /\ forall j, 0 <= j -> get_cell (fst r) j = g j.

Lemma in_range_b (lo hi j : Z) : ((lo <=? j) && (j <? hi) = true) <-> lo <= j < hi.
Proof. lia. Qed.

(* ---- construct [i, i + len) upwards *)
Definition znth (l : list Z) (j : Z) : Z := nth (Z.to_nat j) l 0.

Lemma construct_list_spec k tags : forall i v L, wfv v -> 0 <= i ->
  (forall j, i <= j < i + Z.of_nat (length tags) -> valid_idx v j = true) ->
  loop_res v L (construct_list k tags i (v, L))
    (fun j => if (i <=? j) && (j <? i + Z.of_nat (length tags)) then mkCell Alive (znth tags (j - i)) else get_cell v j) /\
  ((forall j, i <= j < i + Z.of_nat (length tags) -> is_live (c_st (get_cell v j)) = false) ->
   ldelta L (snd (construct_list k tags i (v, L))) (Z.of_nat (length tags)) 0).
Proof.
  induction tags as [|t r IH]; intros i v L W Hi V.
  - simpl. split; [|intros; apply ldelta_refl].
    split; [apply same_store_refl|]. split; [reflexivity|]. intros j Hj.
    replace ((i <=? j) && (j <? i + 0)) with false by lia. reflexivity.
  - cbn [construct_list]. rewrite upd_cell_valid by (apply V; simpl length; lia).
    set (v1 := set_cell v i (fst (c_construct k t (get_cell v i) L))).
    set (L1 := snd (c_construct k t (get_cell v i) L)).
    assert (SS : same_store v v1) by apply same_store_set_cell.
    assert (W1 : wfv v1) by (apply wfv_set_cell; exact W).
    assert (V1 : forall j, i + 1 <= j < i + 1 + Z.of_nat (length r) -> valid_idx v1 j = true).
    { intros j Hj. unfold v1. rewrite valid_idx_set_cell. apply V. simpl length. lia. }
    destruct (IH (i + 1) v1 L1 W1 ltac:(lia) V1) as [(S2 & B2 & C2) D2].
    split.
    + split; [eapply same_store_trans; eauto|]. split; [rewrite B2; unfold L1; apply c_construct_bad|].
      intros j Hj. rewrite C2 by exact Hj. simpl length.
      destruct ((i + 1 <=? j) && (j <? i + 1 + Z.of_nat (length r))) eqn:E1.
      * replace ((i <=? j) && (j <? i + Z.of_nat (S (length r)))) with true by lia.
        unfold znth. replace (Z.to_nat (j - i)) with (S (Z.to_nat (j - (i + 1)))) by lia. reflexivity.
      * unfold v1. rewrite get_set_cell by (auto; try lia; apply V; simpl length; lia).
        destruct (i =? j) eqn:E2.
        -- replace ((i <=? j) && (j <? i + Z.of_nat (S (length r)))) with true by lia.
           rewrite c_construct_cell. unfold znth. replace (Z.to_nat (j - i)) with 0%nat by lia. reflexivity.
        -- replace ((i <=? j) && (j <? i + Z.of_nat (S (length r)))) with false by lia. reflexivity.
    + intros NL. simpl length.
      eapply ldelta_eq; [eapply ldelta_trans; [apply (c_construct_delta k t (get_cell v i) L); apply NL; simpl length; lia | apply D2] | lia | lia].
      intros j Hj. unfold v1. rewrite get_set_cell by (auto; try lia; apply V; simpl length; lia).
      replace (i =? j) with false by lia. apply NL. simpl length. lia.
Qed.

(* ---- a generic downward loop: f applied to hi-1, hi-2, ..., hi-n *)
Section DownLoop.
  Variable f : cell -> cled -> cell * cled.
  Variable fc : cell -> cell.                 (* the cell after the event *)
  Variable good : cell -> bool.               (* the event is legal on this cell *)
  Variables dc dd : Z.
  Hypothesis f_cell : forall c L, fst (f c L) = fc c.
  Hypothesis f_bad : forall c L, cl_bad (snd (f c L)) = cl_bad L.
  Hypothesis f_delta : forall c L, good c = true -> ldelta L (snd (f c L)) dc dd.

  Fixpoint down_loop (n : nat) (hi : Z) (vl : cvec * cled) : cvec * cled :=
    match n with
    | O => vl
    | S n' => down_loop n' (hi - 1) (upd_cell f (hi - 1) vl)
    end.

  Lemma down_loop_spec n : forall hi v L, wfv v -> 0 <= hi - Z.of_nat n ->
    (forall j, hi - Z.of_nat n <= j < hi -> valid_idx v j = true) ->
    loop_res v L (down_loop n hi (v, L))
      (fun j => if (hi - Z.of_nat n <=? j) && (j <? hi) then fc (get_cell v j) else get_cell v j) /\
    ((forall j, hi - Z.of_nat n <= j < hi -> good (get_cell v j) = true) ->
     ldelta L (snd (down_loop n hi (v, L))) (Z.of_nat n * dc) (Z.of_nat n * dd)).
  Proof.
    induction n as [|n IH]; intros hi v L W Hlo V.
    - simpl. split; [|intros; apply ldelta_refl].
      split; [apply same_store_refl|]. split; [reflexivity|]. intros j Hj.
      replace ((hi - 0 <=? j) && (j <? hi)) with false by lia. reflexivity.
    - cbn [down_loop]. rewrite upd_cell_valid by (apply V; lia).
      set (v1 := set_cell v (hi - 1) (fst (f (get_cell v (hi - 1)) L))).
      set (L1 := snd (f (get_cell v (hi - 1)) L)).
      assert (W1 : wfv v1) by (apply wfv_set_cell; exact W).
      assert (V1 : forall j, hi - 1 - Z.of_nat n <= j < hi - 1 -> valid_idx v1 j = true).
      { intros j Hj. unfold v1. rewrite valid_idx_set_cell. apply V. lia. }
      destruct (IH (hi - 1) v1 L1 W1 ltac:(lia) V1) as [(S2 & B2 & C2) D2].
      split.
      + split; [eapply same_store_trans; [apply same_store_set_cell | exact S2]|]. split; [rewrite B2; unfold L1; apply f_bad|].
        intros j Hj. rewrite C2 by exact Hj.
        destruct ((hi - 1 - Z.of_nat n <=? j) && (j <? hi - 1)) eqn:E1.
        * replace ((hi - Z.of_nat (S n) <=? j) && (j <? hi)) with true by lia.
          unfold v1. rewrite get_set_cell by (auto; try lia; apply V; lia). replace (hi - 1 =? j) with false by lia. reflexivity.
        * unfold v1. rewrite get_set_cell by (auto; try lia; apply V; lia).
          destruct (hi - 1 =? j) eqn:E2.
          -- replace ((hi - Z.of_nat (S n) <=? j) && (j <? hi)) with true by lia. rewrite f_cell. replace j with (hi - 1) by lia. reflexivity.
          -- replace ((hi - Z.of_nat (S n) <=? j) && (j <? hi)) with false by lia. reflexivity.
      + intros G.
        eapply ldelta_eq; [eapply ldelta_trans; [apply (f_delta (get_cell v (hi - 1)) L); apply G; lia | apply D2] | lia | lia].
        intros j Hj. unfold v1. rewrite get_set_cell by (auto; try lia; apply V; lia).
        replace (hi - 1 =? j) with false by lia. apply G. lia.
  Qed.
End DownLoop.

Lemma construct_down_eq n hi vl : construct_down n hi vl = down_loop (c_construct KValue 0) n hi vl.
Proof. revert hi vl; induction n; intros; simpl; auto. Qed.
Lemma destroy_down_eq n hi vl : destroy_down n hi vl = down_loop c_destroy n hi vl.
Proof. revert hi vl; induction n; intros; simpl; auto. Qed.

Lemma construct_down_spec n hi v L : wfv v -> 0 <= hi - Z.of_nat n ->
  (forall j, hi - Z.of_nat n <= j < hi -> valid_idx v j = true) ->
  loop_res v L (construct_down n hi (v, L))
    (fun j => if (hi - Z.of_nat n <=? j) && (j <? hi) then mkCell Alive 0 else get_cell v j) /\
  ((forall j, hi - Z.of_nat n <= j < hi -> is_live (c_st (get_cell v j)) = false) ->
   ldelta L (snd (construct_down n hi (v, L))) (Z.of_nat n) 0).
Proof.
  intros W Hlo V. rewrite construct_down_eq.
  pose proof (down_loop_spec (c_construct KValue 0) (fun _ => mkCell Alive 0) (fun c => negb (is_live (c_st c))) 1 0
                (c_construct_cell KValue 0) (c_construct_bad KValue 0)
                ltac:(intros c L0 H; apply c_construct_delta; apply negb_true_iff in H; exact H)
                n hi v L W Hlo V) as [A B].
  split; [exact A|]. intros NL. eapply ldelta_eq; [apply B | lia | lia].
  intros j Hj. rewrite (NL j Hj). reflexivity.
Qed.

Lemma destroy_down_spec n hi v L : wfv v -> 0 <= hi - Z.of_nat n ->
  (forall j, hi - Z.of_nat n <= j < hi -> valid_idx v j = true) ->
  loop_res v L (destroy_down n hi (v, L))
    (fun j => if (hi - Z.of_nat n <=? j) && (j <? hi) then destroyed (get_cell v j) else get_cell v j) /\
  ((forall j, hi - Z.of_nat n <= j < hi -> is_live (c_st (get_cell v j)) = true) ->
   ldelta L (snd (destroy_down n hi (v, L))) 0 (Z.of_nat n)).
Proof.
  intros W Hlo V. rewrite destroy_down_eq.
  pose proof (down_loop_spec c_destroy destroyed (fun c => is_live (c_st c)) 0 1 c_destroy_cell c_destroy_bad c_destroy_delta
                n hi v L W Hlo V) as [A B].
  split; [exact A|]. intros NL. eapply ldelta_eq; [apply B; exact NL | lia | lia].
Qed.

(* ---- copy-assign a list to [i, i + len) *)
Lemma assign_list_spec tags : forall i v L, wfv v -> 0 <= i ->
  (forall j, i <= j < i + Z.of_nat (length tags) -> valid_idx v j = true) ->
  loop_res v L (assign_list tags i (v, L))
    (fun j => if (i <=? j) && (j <? i + Z.of_nat (length tags)) then assigned (znth tags (j - i)) (get_cell v j) else get_cell v j) /\
  ((forall j, i <= j < i + Z.of_nat (length tags) -> is_live (c_st (get_cell v j)) = true) ->
   ldelta L (snd (assign_list tags i (v, L))) 0 0).
Proof.
  induction tags as [|t r IH]; intros i v L W Hi V.
  - simpl. split; [|intros; apply ldelta_refl].
    split; [apply same_store_refl|]. split; [reflexivity|]. intros j Hj.
    replace ((i <=? j) && (j <? i + 0)) with false by lia. reflexivity.
  - cbn [assign_list]. rewrite upd_cell_valid by (apply V; simpl length; lia).
    set (v1 := set_cell v i (fst (c_assign_to KCopy t (get_cell v i) L))).
    set (L1 := snd (c_assign_to KCopy t (get_cell v i) L)).
    assert (W1 : wfv v1) by (apply wfv_set_cell; exact W).
    assert (V1 : forall j, i + 1 <= j < i + 1 + Z.of_nat (length r) -> valid_idx v1 j = true).
    { intros j Hj. unfold v1. rewrite valid_idx_set_cell. apply V. simpl length. lia. }
    destruct (IH (i + 1) v1 L1 W1 ltac:(lia) V1) as [(S2 & B2 & C2) D2].
    split.
    + split; [eapply same_store_trans; [apply same_store_set_cell | exact S2]|]. split; [rewrite B2; unfold L1; apply c_assign_bad|].
      intros j Hj. rewrite C2 by exact Hj. simpl length.
      destruct ((i + 1 <=? j) && (j <? i + 1 + Z.of_nat (length r))) eqn:E1.
      * replace ((i <=? j) && (j <? i + Z.of_nat (S (length r)))) with true by lia.
        unfold v1. rewrite get_set_cell by (auto; try lia; apply V; simpl length; lia). replace (i =? j) with false by lia.
        unfold znth. replace (Z.to_nat (j - i)) with (S (Z.to_nat (j - (i + 1)))) by lia. reflexivity.
      * unfold v1. rewrite get_set_cell by (auto; try lia; apply V; simpl length; lia).
        destruct (i =? j) eqn:E2.
        -- replace ((i <=? j) && (j <? i + Z.of_nat (S (length r)))) with true by lia.
           rewrite c_assign_cell. unfold znth. replace (Z.to_nat (j - i)) with 0%nat by lia. replace j with i by lia. reflexivity.
        -- replace ((i <=? j) && (j <? i + Z.of_nat (S (length r)))) with false by lia. reflexivity.
    + intros NL.
      eapply ldelta_eq; [eapply ldelta_trans; [apply (c_assign_delta KCopy t (get_cell v i) L); apply NL; simpl length; lia | apply D2] | lia | lia].
      intros j Hj. unfold v1. rewrite get_set_cell by (auto; try lia; apply V; simpl length; lia).
      replace (i =? j) with false by lia. apply NL. simpl length. lia.
Qed.

(* ------------------------------------------------------------------------------------------------ moves *)
Definition tag_at (v : cvec) (j : Z) : Z := c_tag (get_cell v j).
Definition st_at (v : cvec) (j : Z) : lstate := c_st (get_cell v j).
Definition live_at (v : cvec) (j : Z) : bool := is_live (st_at v j).

Ltac ifs := repeat match goal with |- context [if ?b then _ else _] => let E := fresh "E" in destruct b eqn:E end.

(* one element move-assigned from src to a different cell dst *)
Lemma move_assign_spec src dst v L : wfv v -> 0 <= src -> 0 <= dst -> src <> dst ->
  valid_idx v src = true -> valid_idx v dst = true ->
  let r := move_assign src dst (v, L) in
  same_store v (fst r) /\ cl_bad (snd r) = cl_bad L /\
  (forall j, 0 <= j -> get_cell (fst r) j =
     if j =? src then c_set_tag kMovedTag (moved_from (get_cell v src))
     else if j =? dst then assigned (tag_at v src) (get_cell v dst) else get_cell v j) /\
  (live_at v src = true -> live_at v dst = true -> ldelta L (snd r) 0 0).
Proof.
  intros W Hs Hd Hne Vs Vd. unfold move_assign. cbn [fst snd].
  rewrite upd_cell_valid by exact Vs.
  set (v1 := set_cell v src (fst (c_move_from (get_cell v src) L))).
  set (L1 := snd (c_move_from (get_cell v src) L)).
  assert (W1 : wfv v1) by (apply wfv_set_cell; exact W).
  assert (Vd1 : valid_idx v1 dst = true) by (unfold v1; rewrite valid_idx_set_cell; exact Vd).
  rewrite upd_cell_valid by exact Vd1.
  set (t := c_tag (get_cell v src)).
  set (v2 := set_cell v1 dst (fst (c_assign_to KMove t (get_cell v1 dst) L1))).
  set (L2 := snd (c_assign_to KMove t (get_cell v1 dst) L1)).
  assert (W2 : wfv v2) by (apply wfv_set_cell; exact W1).
  replace (src =? dst) with false by lia. cbn [fst snd].
  assert (Vs2 : valid_idx v2 src = true) by (unfold v2, v1; rewrite !valid_idx_set_cell; exact Vs).
  rewrite Vs2.
  assert (G1 : forall j, 0 <= j -> get_cell v1 j = if src =? j then moved_from (get_cell v src) else get_cell v j).
  { intros j Hj. unfold v1. rewrite get_set_cell by auto. rewrite c_move_from_cell. reflexivity. }
  assert (G2 : forall j, 0 <= j -> get_cell v2 j = if dst =? j then assigned t (get_cell v dst) else get_cell v1 j).
  { intros j Hj. unfold v2. rewrite get_set_cell by auto. rewrite c_assign_cell. rewrite (G1 dst) by lia.
    replace (src =? dst) with false by lia. reflexivity. }
  split.
  - eapply same_store_trans; [apply same_store_set_cell|]. eapply same_store_trans; [apply same_store_set_cell|]. apply same_store_set_cell.
  - split.
    + unfold L2. rewrite c_assign_bad. unfold L1. apply c_move_from_bad.
    + split.
      * intros j Hj. rewrite get_set_cell by auto. rewrite (G2 src) by lia. replace (dst =? src) with false by lia.
        rewrite (G1 src) by lia. rewrite Z.eqb_refl.
        destruct (src =? j) eqn:E1.
        -- replace (j =? src) with true by lia. reflexivity.
        -- replace (j =? src) with false by lia. rewrite G2 by lia. rewrite G1 by lia. rewrite E1.
           destruct (dst =? j) eqn:E2; [replace (j =? dst) with true by lia | replace (j =? dst) with false by lia]; reflexivity.
      * unfold live_at, st_at. intros Ls Ld. unfold L2.
        assert (E1 : L1 = L) by (unfold L1; apply c_move_from_delta; exact Ls). rewrite E1.
        apply c_assign_delta. rewrite (G1 dst) by lia. replace (src =? dst) with false by lia. exact Ld.
Qed.

(* self move-assignment (insert of an empty range): nothing changes on a live element *)
Lemma move_assign_self i v L : wfv v -> 0 <= i -> valid_idx v i = true ->
  let r := move_assign i i (v, L) in
  same_store v (fst r) /\ cl_bad (snd r) = cl_bad L /\
  (forall j, 0 <= j -> tag_at (fst r) j = tag_at v j) /\
  (forall j, 0 <= j -> j <> i -> get_cell (fst r) j = get_cell v j) /\
  (live_at v i = true -> ldelta L (snd r) 0 0 /\ st_at (fst r) i = Alive).
Proof.
  intros W Hi V. unfold move_assign. cbn [fst snd].
  rewrite upd_cell_valid by exact V.
  set (v1 := set_cell v i (fst (c_move_from (get_cell v i) L))).
  set (L1 := snd (c_move_from (get_cell v i) L)).
  assert (W1 : wfv v1) by (apply wfv_set_cell; exact W).
  assert (V1 : valid_idx v1 i = true) by (unfold v1; rewrite valid_idx_set_cell; exact V).
  rewrite upd_cell_valid by exact V1. rewrite Z.eqb_refl. cbn [fst snd].
  assert (G1 : forall j, 0 <= j -> get_cell v1 j = if i =? j then moved_from (get_cell v i) else get_cell v j).
  { intros j Hj. unfold v1. rewrite get_set_cell by auto. rewrite c_move_from_cell. reflexivity. }
  split; [eapply same_store_trans; apply same_store_set_cell|].
  split; [rewrite c_assign_bad; unfold L1; apply c_move_from_bad|].
  split.
  - intros j Hj. unfold tag_at. rewrite get_set_cell by auto. rewrite c_assign_cell.
    destruct (i =? j) eqn:E; [|rewrite G1 by lia; rewrite E; reflexivity]. replace j with i by lia. reflexivity.
  - split.
    + intros j Hj Hne. rewrite get_set_cell by auto. replace (i =? j) with false by lia. rewrite G1 by lia.
      replace (i =? j) with false by lia. reflexivity.
    + unfold live_at, st_at. intros Li. split.
      * assert (E1 : L1 = L) by (unfold L1; apply c_move_from_delta; exact Li). rewrite E1.
        apply c_assign_delta. rewrite (G1 i) by lia. rewrite Z.eqb_refl. unfold moved_from. simpl. rewrite Li. reflexivity.
      * rewrite get_set_cell by auto. rewrite Z.eqb_refl. rewrite c_assign_cell. unfold assigned. simpl.
        rewrite (G1 i) by lia. rewrite Z.eqb_refl. unfold moved_from. simpl. rewrite Li. reflexivity.
Qed.

(* std::move(dst + d, dst + d + n, dst) with d >= 1 *)
Lemma move_fwd_spec d n : forall dst v L, wfv v -> 1 <= d -> 0 <= dst ->
  (forall j, dst <= j < dst + d + Z.of_nat n -> valid_idx v j = true) ->
  let r := move_fwd n (dst + d) dst (v, L) in
  same_store v (fst r) /\ cl_bad (snd r) = cl_bad L /\
  (forall j, 0 <= j -> tag_at (fst r) j =
     if (dst <=? j) && (j <? dst + Z.of_nat n) then tag_at v (j + d)
     else if (Z.max (dst + d) (dst + Z.of_nat n) <=? j) && (j <? dst + d + Z.of_nat n) then kMovedTag else tag_at v j) /\
  (forall j, 0 <= j -> j < dst \/ dst + d + Z.of_nat n <= j -> get_cell (fst r) j = get_cell v j) /\
  ((forall j, dst <= j < dst + d + Z.of_nat n -> live_at v j = true) ->
   ldelta L (snd r) 0 0 /\
   forall j, dst <= j < dst + d + Z.of_nat n -> st_at (fst r) j = if j <? dst + Z.of_nat n then Alive else
                                                                  if Z.max (dst + d) (dst + Z.of_nat n) <=? j then MovedFrom else st_at v j).
Proof.
  induction n as [|n IH]; intros dst v L W Hd Hdst V.
  - cbn [move_fwd fst snd]. split; [apply same_store_refl|]. split; [reflexivity|]. split.
    + intros j Hj. ifs; try lia; reflexivity.
    + split; [reflexivity|]. intros _. split; [apply ldelta_refl|]. intros j Hj. ifs; try lia; reflexivity.
  - cbn [move_fwd].
    pose proof (move_assign_spec (dst + d) dst v L W ltac:(lia) Hdst ltac:(lia) ltac:(apply V; lia) ltac:(apply V; lia)) as MA.
    cbv zeta in MA. destruct (move_assign (dst + d) dst (v, L)) as [v1 L1] eqn:EM. cbn [fst snd] in MA.
    destruct MA as (S1 & B1 & C1 & D1).
    assert (W1 : wfv v1) by (destruct S1 as (_ & _ & _ & _ & X); auto).
    assert (V1 : forall j, dst + 1 <= j < dst + 1 + d + Z.of_nat n -> valid_idx v1 j = true).
    { intros j Hj. rewrite (same_store_valid v v1) by (auto; lia). apply V. lia. }
    replace (dst + d + 1) with (dst + 1 + d) by lia.
    specialize (IH (dst + 1) v1 L1 W1 Hd ltac:(lia) V1). cbv zeta in IH.
    destruct IH as (S2 & B2 & T2 & F2 & D2).
    assert (TG : forall j, 0 <= j -> tag_at v1 j = if j =? dst + d then kMovedTag else if j =? dst then tag_at v (dst + d) else tag_at v j).
    { intros j Hj. unfold tag_at. rewrite C1 by exact Hj. ifs; reflexivity. }
    split; [eapply same_store_trans; eauto|]. split; [congruence|]. split.
    + intros j Hj. rewrite T2 by exact Hj. rewrite !TG by lia.
      ifs; try lia; try reflexivity; f_equal; lia.
    + split.
      * intros j Hj Hout. rewrite F2 by lia. rewrite C1 by exact Hj. ifs; try lia; reflexivity.
      * intros Lv.
        assert (Lv1 : forall j, dst + 1 <= j < dst + 1 + d + Z.of_nat n -> live_at v1 j = true).
        { intros j Hj. unfold live_at, st_at. rewrite C1 by lia.
          destruct (j =? dst + d) eqn:E1.
          - unfold c_set_tag, moved_from. simpl. pose proof (Lv (dst + d) ltac:(lia)) as X. unfold live_at, st_at in X. rewrite X. reflexivity.
          - replace (j =? dst) with false by lia. apply (Lv j). lia. }
        destruct (D2 Lv1) as (DL & ST).
        split.
        -- eapply ldelta_eq; [eapply ldelta_trans; [apply D1; apply Lv; lia | exact DL] | lia | lia].
        -- intros j Hj. destruct (Z.eq_dec j dst) as [->|Hne].
           ++ unfold st_at. rewrite F2 by lia. rewrite C1 by lia. replace (dst =? dst + d) with false by lia. rewrite Z.eqb_refl.
              replace (dst <? dst + Z.of_nat (S n)) with true by lia. unfold assigned. simpl.
              pose proof (Lv dst ltac:(lia)) as X. unfold live_at, st_at in X. rewrite X. reflexivity.
           ++ rewrite ST by lia. unfold st_at at 1. rewrite C1 by lia.
              destruct (j =? dst + d) eqn:E1.
              ** unfold c_set_tag, moved_from. simpl. pose proof (Lv (dst + d) ltac:(lia)) as X. unfold live_at, st_at in X. rewrite X.
                 ifs; try lia; reflexivity.
              ** replace (j =? dst) with false by lia. fold (st_at v j). ifs; try lia; reflexivity.
Qed.

(* std::move_backward(last - n, last, last + d) with d >= 1 *)
Lemma move_bwd_spec d n : forall last v L, wfv v -> 1 <= d -> 0 <= last - Z.of_nat n ->
  (forall j, last - Z.of_nat n <= j < last + d -> valid_idx v j = true) ->
  let r := move_bwd n last (last + d) (v, L) in
  same_store v (fst r) /\ cl_bad (snd r) = cl_bad L /\
  (forall j, 0 <= j -> tag_at (fst r) j =
     if (last + d - Z.of_nat n <=? j) && (j <? last + d) then tag_at v (j - d)
     else if (last - Z.of_nat n <=? j) && (j <? Z.min last (last + d - Z.of_nat n)) then kMovedTag else tag_at v j) /\
  (forall j, 0 <= j -> j < last - Z.of_nat n \/ last + d <= j -> get_cell (fst r) j = get_cell v j) /\
  ((forall j, last - Z.of_nat n <= j < last + d -> live_at v j = true) ->
   ldelta L (snd r) 0 0 /\
   forall j, last - Z.of_nat n <= j < last + d ->
     st_at (fst r) j = if last + d - Z.of_nat n <=? j then Alive else if j <? Z.min last (last + d - Z.of_nat n) then MovedFrom else st_at v j).
Proof.
  induction n as [|n IH]; intros last v L W Hd Hlo V.
  - cbn [move_bwd fst snd]. split; [apply same_store_refl|]. split; [reflexivity|]. split.
    + intros j Hj. ifs; try lia; reflexivity.
    + split; [reflexivity|]. intros _. split; [apply ldelta_refl|]. intros j Hj. ifs; try lia; reflexivity.
  - cbn [move_bwd].
    pose proof (move_assign_spec (last - 1) (last + d - 1) v L W ltac:(lia) ltac:(lia) ltac:(lia) ltac:(apply V; lia) ltac:(apply V; lia)) as MA.
    cbv zeta in MA. destruct (move_assign (last - 1) (last + d - 1) (v, L)) as [v1 L1] eqn:EM. cbn [fst snd] in MA.
    destruct MA as (S1 & B1 & C1 & D1).
    assert (W1 : wfv v1) by (destruct S1 as (_ & _ & _ & _ & X); auto).
    assert (V1 : forall j, last - 1 - Z.of_nat n <= j < last - 1 + d -> valid_idx v1 j = true).
    { intros j Hj. rewrite (same_store_valid v v1) by (auto; lia). apply V. lia. }
    replace (last + d - 1) with (last - 1 + d) by lia.
    specialize (IH (last - 1) v1 L1 W1 Hd ltac:(lia) V1). cbv zeta in IH.
    destruct IH as (S2 & B2 & T2 & F2 & D2).
    assert (TG : forall j, 0 <= j -> tag_at v1 j = if j =? last - 1 then kMovedTag else if j =? last + d - 1 then tag_at v (last - 1) else tag_at v j).
    { intros j Hj. unfold tag_at. rewrite C1 by exact Hj. ifs; reflexivity. }
    split; [eapply same_store_trans; eauto|]. split; [congruence|]. split.
    + intros j Hj. rewrite T2 by exact Hj.
      ifs; try lia; rewrite ?TG by lia; ifs; try lia; try reflexivity; f_equal; lia.
    + split.
      * intros j Hj Hout. rewrite F2 by lia. rewrite C1 by exact Hj. ifs; try lia; reflexivity.
      * intros Lv.
        assert (Lv1 : forall j, last - 1 - Z.of_nat n <= j < last - 1 + d -> live_at v1 j = true).
        { intros j Hj. unfold live_at, st_at. rewrite C1 by lia.
          destruct (j =? last - 1) eqn:E1.
          - unfold c_set_tag, moved_from. simpl. pose proof (Lv (last - 1) ltac:(lia)) as X. unfold live_at, st_at in X. rewrite X. reflexivity.
          - replace (j =? last + d - 1) with false by lia. apply (Lv j). lia. }
        destruct (D2 Lv1) as (DL & ST).
        split.
        -- eapply ldelta_eq; [eapply ldelta_trans; [apply D1; apply Lv; lia | exact DL] | lia | lia].
        -- intros j Hj. destruct (Z.eq_dec j (last + d - 1)) as [->|Hne].
           ++ unfold st_at. rewrite F2 by lia. rewrite C1 by lia. replace (last + d - 1 =? last - 1) with false by lia. rewrite Z.eqb_refl.
              replace (last + d - Z.of_nat (S n) <=? last + d - 1) with true by lia. unfold assigned. simpl.
              pose proof (Lv (last + d - 1) ltac:(lia)) as X. unfold live_at, st_at in X. rewrite X. reflexivity.
           ++ rewrite ST by lia. unfold st_at at 1. rewrite C1 by lia.
              destruct (j =? last - 1) eqn:E1.
              ** unfold c_set_tag, moved_from. simpl. pose proof (Lv (last - 1) ltac:(lia)) as X. unfold live_at, st_at in X. rewrite X.
                 ifs; try lia; reflexivity.
              ** replace (j =? last + d - 1) with false by lia. fold (st_at v j). ifs; try lia; reflexivity.
Qed.

(* std::move_backward(last - n, last, last): every element move-assigned to itself *)
Lemma move_bwd_self n : forall last v L, wfv v -> 0 <= last - Z.of_nat n ->
  (forall j, last - Z.of_nat n <= j < last -> valid_idx v j = true) ->
  let r := move_bwd n last last (v, L) in
  same_store v (fst r) /\ cl_bad (snd r) = cl_bad L /\
  (forall j, 0 <= j -> tag_at (fst r) j = tag_at v j) /\
  (forall j, 0 <= j -> j < last - Z.of_nat n \/ last <= j -> get_cell (fst r) j = get_cell v j) /\
  ((forall j, last - Z.of_nat n <= j < last -> live_at v j = true) ->
   ldelta L (snd r) 0 0 /\ forall j, last - Z.of_nat n <= j < last -> st_at (fst r) j = Alive).
Proof.
  induction n as [|n IH]; intros last v L W Hlo V.
  - cbn [move_bwd fst snd]. split; [apply same_store_refl|]. split; [reflexivity|]. split; [reflexivity|].
    split; [reflexivity|]. intros _. split; [apply ldelta_refl|]. intros; lia.
  - cbn [move_bwd].
    pose proof (move_assign_self (last - 1) v L W ltac:(lia) ltac:(apply V; lia)) as MA.
    cbv zeta in MA. destruct (move_assign (last - 1) (last - 1) (v, L)) as [v1 L1] eqn:EM. cbn [fst snd] in MA.
    destruct MA as (S1 & B1 & T1 & F1 & D1).
    assert (W1 : wfv v1) by (destruct S1 as (_ & _ & _ & _ & X); auto).
    assert (V1 : forall j, last - 1 - Z.of_nat n <= j < last - 1 -> valid_idx v1 j = true).
    { intros j Hj. rewrite (same_store_valid v v1) by (auto; lia). apply V. lia. }
    specialize (IH (last - 1) v1 L1 W1 ltac:(lia) V1). cbv zeta in IH.
    destruct IH as (S2 & B2 & T2 & F2 & D2).
    split; [eapply same_store_trans; eauto|]. split; [congruence|]. split.
    + intros j Hj. rewrite T2 by exact Hj. apply T1. exact Hj.
    + split.
      * intros j Hj Hout. rewrite F2 by lia. apply F1; lia.
      * intros Lv.
        assert (Lv1 : forall j, last - 1 - Z.of_nat n <= j < last - 1 -> live_at v1 j = true).
        { intros j Hj. unfold live_at, st_at. rewrite F1 by lia. apply (Lv j). lia. }
        destruct (D2 Lv1) as (DL & ST). destruct (D1 (Lv (last - 1) ltac:(lia))) as (DL1 & ST1).
        split.
        -- eapply ldelta_eq; [eapply ldelta_trans; [exact DL1 | exact DL] | lia | lia].
        -- intros j Hj. destruct (Z.eq_dec j (last - 1)) as [->|Hne].
           ++ unfold st_at. rewrite F2 by lia. exact ST1.
           ++ apply ST. lia.
Qed.

(* ------------------------------------------------------------------------------------------------ buffer-addressed loops *)
Lemma upd_bs_as_cell f b j v L : wfv v -> 0 <= b -> 0 <= j < bucket_cap (v_shift v) b ->
  upd_bs f b j (v, L) = upd_cell f (bucket_start (v_shift v) b + j) (v, L).
Proof.
  intros W Hb Hj. unfold upd_bs, upd_cell.
  rewrite valid_bs_as_idx, get_bs_as_cell by assumption.
  destruct (valid_idx v (bucket_start (v_shift v) b + j)); [|reflexivity].
  destruct (f (get_cell v (bucket_start (v_shift v) b + j)) L). rewrite set_bs_as_cell by assumption. reflexivity.
Qed.

Lemma upd_cell_shape f i vl : wfv (fst vl) -> v_shift (fst (upd_cell f i vl)) = v_shift (fst vl) /\ wfv (fst (upd_cell f i vl)).
Proof.
  destruct vl as [v L]. intros W. unfold upd_cell. destruct (valid_idx v i); [|auto].
  destruct (f (get_cell v i) L). simpl. rewrite set_cell_shift. split; [reflexivity | apply wfv_set_cell; exact W].
Qed.

Lemma destroy_down_bs_eq n : forall b hi vl, wfv (fst vl) -> 0 <= b -> 0 <= hi - Z.of_nat n -> hi <= bucket_cap (v_shift (fst vl)) b ->
  destroy_down_bs n b hi vl = destroy_down n (bucket_start (v_shift (fst vl)) b + hi) vl.
Proof.
  induction n as [|n IH]; intros b hi [v L] W Hb Hlo Hhi; [reflexivity|].
  cbn [destroy_down_bs destroy_down]. cbn [fst] in *.
  rewrite upd_bs_as_cell by (auto; lia).
  replace (bucket_start (v_shift v) b + (hi - 1)) with (bucket_start (v_shift v) b + hi - 1) by lia.
  pose proof (upd_cell_shape c_destroy (bucket_start (v_shift v) b + hi - 1) (v, L) W) as [E1 W1]. cbn [fst] in E1.
  rewrite IH; [| exact W1 | exact Hb | lia | rewrite E1; lia].
  rewrite E1. f_equal. lia.
Qed.

Lemma construct_bs_eq k tags : forall b j vl, wfv (fst vl) -> 0 <= b -> 0 <= j -> j + Z.of_nat (length tags) <= bucket_cap (v_shift (fst vl)) b ->
  construct_bs k tags b j vl = construct_list k tags (bucket_start (v_shift (fst vl)) b + j) vl.
Proof.
  induction tags as [|t r IH]; intros b j [v L] W Hb Hj Hhi; [reflexivity|].
  cbn [construct_bs construct_list]. cbn [fst] in *. simpl length in Hhi.
  rewrite upd_bs_as_cell by (auto; lia).
  pose proof (upd_cell_shape (c_construct k t) (bucket_start (v_shift v) b + j) (v, L) W) as [E1 W1]. cbn [fst] in E1.
  rewrite IH; [| exact W1 | exact Hb | lia | rewrite E1; lia].
  rewrite E1. f_equal. lia.
Qed.
