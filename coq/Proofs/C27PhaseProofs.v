(* C27, pipelines whose stages never throw: pipeline() returns only after every generated item went through every stage it is not
   filtered out before; wait()'s drain loops leave no orphan in any gate queue.  (Safety: "when it returns, then ..."; that the
   drain loops terminate is not proved, see Properties_C27.v.) *)
From Coq Require Import ZArith List Bool Lia.
From DV Require Import Base.MachInt Base.Sched Model.PipelineModel Proofs.PipelineProofs Proofs.C27Proofs Proofs.C27FlowProofs Proofs.C27OnceProofs.
Import ListNotations.
Local Open Scope Z_scope.

Definition no_throw (c : cfg) : Prop := c_gthrow c < 0 /\ Forall (fun sc => sc_throws sc = []) (c_stages c).

Lemma no_throw_at c j it : no_throw c -> throws_at c j it = false.
Proof.
  intros [_ F]. unfold throws_at, stage_at.
  assert (E : sc_throws (nth j (c_stages c) dflt_sc) = []).
  { destruct (Nat.lt_ge_cases j (length (c_stages c))) as [L|L].
    - rewrite Forall_forall in F. apply F. apply nth_In. exact L.
    - rewrite nth_overflow by exact L. reflexivity. }
  rewrite E. reflexivity.
Qed.

(* ---------- nothing exception-related ever happens ---------- *)
Definition nt_frame (f : frame) : Prop :=
  match f with
  | FTask _ _ _ (TCatchCas _) _ | FTask _ _ _ TCancel _ | FTask _ _ _ TRGuard _ | FPool _ (PCatchCas _) | FPool _ PCancel => False
  | FMain (MWait _ WDDeq _) | FMain (MWait _ WDDec _) | FMain (MWait _ WDec2 _) => False
  | FGen (GCatchCas _) | FGen GCancel | FPool _ PSkipGen | FPool _ PEnd => False
  | _ => True
  end.
Definition nt_thread (th : thread) : Prop := unw th = None /\ Forall nt_frame (stack th).
Definition bad_kind (k : Z) : bool := (k =? 3) || (k =? 5) || (k =? 7) || (k =? 8) || (k =? 12) || (k =? 13) || (k =? 15) || (k =? 16).
Definition nt_shared (s : shared) : Prop := exc s = None /\ canceled s = false /\ Forall (fun e => bad_kind (e_kind e) = false) (log s).

Lemma strand_q_nt t j q s :
  Forall (fun e => bad_kind (e_kind e) = false) (log s) -> Forall (fun e => bad_kind (e_kind e) = false) (log (strand_q t j q s)).
Proof. revert s; induction q as [|[p it] q IH]; intros s F; cbn; [exact F|]. apply IH. cbn. constructor; [reflexivity | exact F]. Qed.
Lemma strand_gates_nt t j gs s :
  Forall (fun e => bad_kind (e_kind e) = false) (log s) -> Forall (fun e => bad_kind (e_kind e) = false) (log (strand_gates t j gs s)).
Proof. revert j s; induction gs as [|g r IH]; intros j s F; cbn; [exact F|]. apply IH. apply strand_q_nt. exact F. Qed.

Ltac nt_fin :=
  repeat match goal with
  | H : Forall _ (_ :: _) |- _ => inversion H; subst; clear H
  | H : nt_frame _ |- _ => cbn [nt_frame] in H
  | H : False |- _ => contradiction
  | H : _ /\ _ |- _ => destruct H
  end.

Lemma nt_local c t s th ch s1 th1 ch1 site wake :
  no_throw c -> 0 <= gnext s -> nt_shared s -> nt_thread th ->
  mstep_thread c t s th ch = Some (s1, th1, ch1, site, wake) -> nt_shared s1 /\ nt_thread th1.
Proof.
  intros NT G0 (NE & NC & NL) [NU NF] H. pose proof NT as [NG _].
  step_cases H th; try congruence; nt_fin.
  all: try (match goal with E : has_exc _ = true |- _ => unfold has_exc in E; rewrite NE in E; discriminate end).
  all: try (match goal with E : throws_at _ _ _ = true |- _ => rewrite (no_throw_at _ _ _ NT) in E; discriminate end).
  all: try (match goal with E : (gnext _ =? c_gthrow _) = true |- _ => apply Z.eqb_eq in E; lia end).
  all: try congruence.
  all: unfold nt_shared, nt_thread; mnorm; cbn [stack unw]; try rewrite Hst;
       rewrite ?strand_gates_exc, ?strand_gates_canceled; cbn [exc canceled w_exc w_result].
  all: repeat match goal with
       | |- _ /\ _ => split
       | |- Forall _ (_ :: _) => constructor
       | |- Forall _ (log (strand_gates _ _ _ _)) => apply strand_gates_nt
       | |- nt_frame (FMain (first_wait _)) => unfold first_wait; destruct (Nat.ltb _ _)
       | |- nt_frame (FMain (after_wait _ _)) => unfold after_wait; destruct (Nat.ltb _ _)
       | |- nt_frame _ => exact I
       end; cbn [log w_exc w_result] in *; try assumption; try reflexivity; try congruence.
Qed.

Definition NTInv (s : state) : Prop := nt_shared (sh s) /\ Forall nt_thread (threads s).

Lemma NTInv_init c : NTInv (init c).
Proof.
  split; [repeat split; constructor|]. cbn. constructor; [split; [reflexivity | repeat constructor]|].
  apply Forall_forall. intros th Hth. apply in_map_iff in Hth. destruct Hth as [w [<- _]]. split; [reflexivity | repeat constructor].
Qed.
Lemma nt_wake1 th : nt_thread th -> nt_thread (wake1 th).
Proof.
  unfold nt_thread, wake1. intros [U F]. destruct (stack th) as [|f r] eqn:S; [rewrite S; split; assumption|].
  destruct f; try (rewrite S; split; assumption). destruct pc; try (rewrite S; split; assumption). cbn. split; [exact U|].
  inversion F; subst. constructor; [exact I | assumption].
Qed.
Lemma NTInv_mstep c s t ch s' ch' site : no_throw c -> WF c s -> NTInv s -> mstep c s t ch = Some (s', ch', site) -> NTInv s'.
Proof.
  intros NT [[[_ G0] _] _] [NS NTh] H. split.
  - pose proof H as H'. apply mstep_inv in H'. destruct H' as (th & s1 & th1 & wake & N & M & ->). cbn [sh].
    eapply nt_local; eauto. eapply Forall_nth_error; eauto.
  - eapply (Forall_threads_mstep nt_thread); eauto using nt_wake1.
    intros th th1 wake N P M. eapply nt_local; eauto.
Qed.

(* ---------- when can outstanding_ of gate j' change? only by a thread whose top frame is counted in outstanding_ of that gate
              (decrement), or that feeds the gate: a task of the previous stage / a generator instance (increment) ---------- *)
Lemma out_change_local c t s th ch s1 th1 ch1 site wake j' :
  (0 < nstages c)%nat -> wf_shared c s -> wf_thread c th -> (j' < nstages c)%nat ->
  mstep_thread c t s th ch = Some (s1, th1, ch1, site, wake) ->
  g_out (gate_at s1 j') = g_out (gate_at s j') \/
  exists f r, stack th = f :: r /\
    (1 <= mf (m_out j') f \/ (exists j'', j' = S j'' /\ 1 <= mf (m_out j'') f) \/ (j' = 0%nat /\ 1 <= mf (m_genc c) f)).
Proof.
  intros H0 [[WL WG] WB] WT J0 H. unfold wf_thread in *. step_cases H th; wf_fin; subst.
  all: try (left; acct_pre Hst; rewrite ?g_out_nth_upd by reflexivity; reflexivity).
  all: acct_pre Hst; rewrite ?g_out_nth_upd by reflexivity.
  all: try (match goal with |- context [nth ?k (upd_nth ?j _ _) _] =>
              destruct (Nat.eq_dec j k) as [EQ|NE]; [try subst k|left; rewrite (nth_upd_nth_other j k) by exact NE; rewrite ?g_out_nth_upd by reflexivity; reflexivity] end).
  all: right; eexists; eexists; (split; [reflexivity|]).
  all: cbn [mf m_out m_genc gen_live wait_holds].
  all: first [ left; rewrite ?Nat.eqb_refl; cbn [bz andb];
               repeat match goal with |- context [bz ?b] => pose proof (bz_nonneg b); generalize dependent (bz b); intros end; lia
             | right; left; eexists; split; [reflexivity|]; rewrite ?Nat.eqb_refl; cbn [bz andb];
               repeat match goal with |- context [bz ?b] => pose proof (bz_nonneg b); generalize dependent (bz b); intros end; lia
             | right; right; split; [reflexivity | cbn [bz]; lia]
             ].
Qed.

(* ---------- "closed": the generator is finished and the first k gates are empty for good ---------- *)
Definition closed (c : cfg) (s : shared) (k : nat) : Prop :=
  compl s = 0 /\ forall j', (j' < k)%nat -> (j' < nstages c)%nat -> g_out (gate_at s j') = 0.

Lemma closed_stable c s t ch s' ch' site k :
  (0 < nstages c)%nat -> WF c s -> GenInv c s -> OutInv c s -> closed c (sh s) k ->
  mstep c s t ch = Some (s', ch', site) -> closed c (sh s') k.
Proof.
  intros H0 W [G1 G2] O [C0 CO] H. pose proof W as [WS WT]. apply mstep_inv in H. destruct H as (th & s1 & th1 & wake & N & M & ->).
  cbn [sh]. assert (Wth : wf_thread c th) by (eapply Forall_nth_error; eauto).
  split.
  - destruct (genc_local c t (sh s) th ch s1 th1 ch' site wake H0 WS Wth (fun _ _ => C0) M) as [_ [D|[[D _]|[_ (f & r & Hs & Hf)]]]]; [exact D | congruence |].
    exfalso. pose proof (genc_top_le c s t th f r W N Hs). lia.
  - intros j' L1 L2.
    destruct (out_change_local c t (sh s) th ch s1 th1 ch' site wake j' H0 WS Wth L2 M) as [E|(f & r & Hs & [Hf|[(j'' & -> & Hf)|[-> Hf]]])].
    + rewrite E. apply CO; assumption.
    + exfalso. pose proof (top_le_total (m_out j') s t th f r (nonneg_out j') N Hs). rewrite <- (O j' L2) in H. rewrite (CO j' L1 L2) in H. lia.
    + exfalso. pose proof (top_le_total (m_out j'') s t th f r (nonneg_out j'') N Hs).
      assert (L3 : (j'' < nstages c)%nat) by lia. rewrite <- (O j'' L3) in H. rewrite (CO j'' ltac:(lia) L3) in H. lia.
    + exfalso. pose proof (genc_top_le c s t th f r W N Hs). lia.
Qed.

(* ---------- a finished generator instance has seen the end of the input ---------- *)
Definition m_gdone : meas := MS (fun f => match f with FGen GDone | FGen GNStore | FGen GNWake => 1 | _ => 0 end) (fun _ _ => 0) (fun _ => 0) (fun _ => 0).
Lemma nonneg_gdone : nonneg m_gdone.
Proof. repeat split; intros; cbn; nn. Qed.

Lemma gdone_local c t s th ch s1 th1 ch1 site wake :
  no_throw c -> 0 <= gnext s -> nt_shared s -> nt_thread th ->
  mstep_thread c t s th ch = Some (s1, th1, ch1, site, wake) ->
  gnext s <= gnext s1 /\ (dlt m_gdone s th s1 th1 <= 0 \/ c_nitems c <= gnext s1) /\
  (compl s <= compl s1 \/ exists f r, stack th = f :: r /\ 1 <= mf m_gdone f).
Proof.
  intros NT G0 (NE & NC & NL) [NU NF] H. pose proof NT as [NG _]. unfold dlt.
  step_cases H th; try congruence; nt_fin.
  all: try (match goal with E : has_exc _ = true |- _ => unfold has_exc in E; rewrite NE in E; discriminate end).
  all: try (match goal with E : throws_at _ _ _ = true |- _ => rewrite (no_throw_at _ _ _ NT) in E; discriminate end).
  all: try (match goal with E : (gnext _ =? c_gthrow _) = true |- _ => apply Z.eqb_eq in E; lia end).
  all: try congruence.
  all: acct_pre Hst; rewrite ?(gatesw_zero m_gdone) by reflexivity; rewrite ?(strandw_zero m_gdone) by (intros; reflexivity).
  all: cbn [mf mq mb me m_gdone compl gnext w_compl w_gnext].
  all: split; [bool_hyps; lia|]; split.
  all: try (left; timeout 20 acct_fin).
  all: try (right; bool_hyps; lia).
  all: try (left; lia).
  all: try (right; eexists; eexists; split; [reflexivity | cbn; lia]).
Qed.

(* ---------- the phase of the caller ---------- *)
Definition phase_frame (c : cfg) (s : shared) (f : frame) : Prop :=
  match f with
  | FMain (MWait j _ _) => closed c s j
  | FMain (MCtsWait _) | FMain (MCtsHelp _) => closed c s (nstages c)
  | _ => True
  end.

Lemma strand_gates_empty t j gs s : Forall (fun g => g_q g = []) gs -> strand_gates t j gs s = s.
Proof. revert j s; induction gs as [|g r IH]; intros j s F; cbn; [reflexivity|]. inversion F as [|? ? Q F']; subst. rewrite Q. cbn. apply IH. exact F'. Qed.

Lemma closed_weaken c s k k' : (k' <= k)%nat -> closed c s k -> closed c s k'.
Proof. intros L [A B]. split; [exact A|]. intros j' L1 L2. apply B; lia. Qed.

Lemma closed_destroy c t s k : closed c s k -> closed c (destroy_pipes t s) k.
Proof.
  intros [A B]. split.
  - unfold destroy_pipes; cbn [compl w_gates]. rewrite strand_gates_compl. exact A.
  - intros j' L1 L2. destruct (destroy_gate_at t s j') as [_ E]. rewrite E. apply B; assumption.
Qed.

Ltac ph_fin :=
  repeat match goal with
  | H : Forall _ (_ :: _) |- _ => inversion H; subst; clear H
  | H : nt_frame _ |- _ => cbn [nt_frame] in H
  | H : False |- _ => contradiction
  | H : _ /\ _ |- _ => destruct H
  end.

Lemma phase_local c t s th ch s1 th1 ch1 site wake :
  no_throw c -> 0 <= gnext s -> nt_shared s -> nt_thread th ->
  mstep_thread c t s th ch = Some (s1, th1, ch1, site, wake) ->
  (forall k, closed c s k -> closed c s1 k) ->
  (closed c s (nstages c) -> Forall (fun g => g_q g = []) (gates s)) ->
  Forall (phase_frame c s) (stack th) -> (result s <> None -> closed c s (nstages c)) ->
  Forall (fun e => e_kind e <> 11) (log s) -> (forall r, result s = Some r -> r = -1) ->
  Forall (phase_frame c s1) (stack th1) /\ (result s1 <> None -> closed c s1 (nstages c)) /\
  Forall (fun e => e_kind e <> 11) (log s1) /\ (forall r, result s1 = Some r -> r = -1).
Proof.
  intros NT G0 (NE & NC & NL) [NU NF] H. pose proof NT as [NG _].
  step_cases H th; try congruence; ph_fin.
  all: try (match goal with E : has_exc _ = true |- _ => unfold has_exc in E; rewrite NE in E; discriminate end).
  all: try (match goal with E : throws_at _ _ _ = true |- _ => rewrite (no_throw_at _ _ _ NT) in E; discriminate end).
  all: try (match goal with E : (gnext _ =? c_gthrow _) = true |- _ => apply Z.eqb_eq in E; lia end).
  all: try congruence.
  all: intros Stab QE PF RS K11 RV; ph_fin.
  all: assert (PR : forall l, Forall (phase_frame c s) l -> Forall (phase_frame c _) l) by
         (intros l Fl; eapply Forall_impl; [|exact Fl]; intros f Pf; destruct f; try exact I; destruct pc; try exact I; cbn [phase_frame] in *; apply Stab; exact Pf).
  all: cbn [stack w_stack w_depth w_unw push] in *; try rewrite Hst.
  all: repeat match goal with HP : phase_frame _ _ _ |- _ => progress cbn [phase_frame] in HP end.
  all: try (match goal with E : (compl _ =? 0) = true |- _ => apply Z.eqb_eq in E end).
  all: try (match goal with E : (g_out (gate_at _ _) =? 0) = true |- _ => apply Z.eqb_eq in E end).
  all: try (match goal with E : (pout _ - gx _ =? 0) = true |- _ => apply Z.eqb_eq in E end).
  (* destruction of the pipes: all queues are empty, so no event is logged *)
  all: try (match goal with |- context [destroy_pipes ?t ?s0] =>
              assert (QE' : Forall (fun g => g_q g = []) (gates s0)) by (cbn [gates w_result w_exc]; apply QE; assumption);
              assert (LD : log (destroy_pipes t s0) = log s0) by (unfold destroy_pipes; cbn [log w_gates]; rewrite (strand_gates_empty _ _ _ _ QE'); reflexivity);
              assert (RD : result (destroy_pipes t s0) = Some (-1)) by (unfold destroy_pipes; cbn [result w_gates]; rewrite strand_gates_result; reflexivity)
            end).
  all: split; [|split; [|split]].
  (* 1: the frames *)
  all: repeat match goal with
       | |- Forall _ (_ :: _) => apply Forall_cons
       | |- Forall _ [] => apply Forall_nil
       | |- Forall (phase_frame _ _) _ => apply PR; assumption
       end.
  all: try (match goal with |- phase_frame _ _ (FMain (first_wait _)) => unfold first_wait; destruct (Nat.ltb _ _) eqn:LT; cbn [phase_frame];
              [apply Nat.ltb_lt in LT | apply Nat.ltb_ge in LT]; (split; [assumption | intros; lia]) end).
  all: try (match goal with HP : closed _ _ ?j, E : g_out (gate_at _ ?j) = 0 |- phase_frame _ _ (FMain (after_wait _ ?j)) =>
              unfold after_wait; destruct (Nat.ltb _ _) eqn:LT; cbn [phase_frame]; [apply Nat.ltb_lt in LT | apply Nat.ltb_ge in LT];
              (split; [apply HP | let k := fresh "k" in intros k L1 L2; destruct (Nat.eq_dec k j) as [->|NE]; [exact E | apply HP; lia]]) end).
  all: try (match goal with |- phase_frame _ _ _ => cbn [phase_frame]; first [exact I | apply Stab; assumption] end).
  (* 2: once the result is set everything is closed *)
  all: try (match goal with |- result _ <> None -> _ => cbn [result w_bag w_pout w_gates w_compl w_gnext w_done add_log upd_gate gate_enq]; intros R; apply Stab; first [apply RS; exact R | assumption] end).
  (* 3: the log *)
  all: try (match goal with |- Forall _ (log _) => first [ rewrite LD; cbn [log w_result w_exc]; assumption |
              cbn [log w_bag w_pout w_gates w_compl w_gnext w_done add_log upd_gate gate_enq]; repeat (constructor; [cbn; discriminate|]); assumption ] end).
  (* 4: the value of the result *)
  all: try (match goal with |- forall r0, result _ = Some r0 -> _ => first [ rewrite RD; intros r0 Q; injection Q as <-; reflexivity |
              cbn [result w_bag w_pout w_gates w_compl w_gnext w_done add_log upd_gate gate_enq]; assumption ] end).
  all: try (intros r0 Q; rewrite RD in Q; injection Q as <-; reflexivity).
  all: unfold after_wait; destruct (Nat.ltb _ _) eqn:LT; cbn [phase_frame]; [apply Nat.ltb_lt in LT | apply Nat.ltb_ge in LT].
  all: match goal with HP : closed _ _ ?j, E : g_out (gate_at _ ?j) = 0 |- _ =>
         let HA := fresh "HA" in let HB := fresh "HB" in destruct HP as [HA HB];
         split; [exact HA | let k := fresh "k" in let L1 := fresh "L1" in let L2 := fresh "L2" in let NE := fresh "NE" in
                           intros k L1 L2; destruct (Nat.eq_dec k j) as [->|NE]; [exact E | apply HB; lia]] end.
Qed.

(* ---------- closed gates have empty queues ---------- *)
Lemma gatesw_out_ge j0 k gs i :
  (j0 = k + i)%nat -> Z.of_nat (length (g_q (nth i gs dflt_gate))) <= gatesw (m_out j0) k gs.
Proof.
  revert k i; induction gs as [|g r IH]; intros k i E; [destruct i; cbn; lia|].
  cbn [gatesw]. pose proof (gatesw_nonneg (m_out j0) (S k) r (nonneg_out j0)) as N1.
  assert (N0 : 0 <= qw (m_out j0) k (g_q g)) by (unfold qw; apply sumf_nonneg; intros; cbn; apply bz_nonneg).
  destruct i as [|i]; cbn [nth].
  - assert (qw (m_out j0) k (g_q g) = Z.of_nat (length (g_q g))).
    { unfold qw. cbn [mq m_out]. destruct (Nat.eqb_spec j0 k) as [_|NE]; [|lia]. cbn [bz].
      generalize (g_q g). intros l. induction l as [|a l IHl]; [reflexivity|]. cbn [sumf length]. rewrite IHl. lia. }
    lia.
  - specialize (IH (S k) i ltac:(lia)). lia.
Qed.

Lemma closed_queues_empty c s :
  WF c s -> OutInv c s -> closed c (sh s) (nstages c) -> Forall (fun g => g_q g = []) (gates (sh s)).
Proof.
  intros [[[WL _] _] _] O [_ CO]. apply Forall_forall. intros g Hg. destruct (In_nth _ _ dflt_gate Hg) as (j & Lj & <-).
  rewrite WL in Lj. pose proof (O j Lj) as E. unfold gate_at in *. rewrite (CO j Lj Lj) in E.
  pose proof (gatesw_out_ge j 0 (gates (sh s)) j eq_refl) as G.
  assert (T : gatesw (m_out j) 0 (gates (sh s)) <= total (m_out j) s).
  { unfold total, shw. pose proof (nonneg_out j) as (F & Q & B & Ev).
    assert (0 <= bagw (m_out j) (bag (sh s))) by (unfold bagw; apply sumf_nonneg; intros; apply B).
    assert (0 <= logw (m_out j) (log (sh s))) by (unfold logw; apply sumf_nonneg; exact Ev).
    assert (0 <= thsw (m_out j) (threads s)) by (unfold thsw; apply sumf_nonneg; intros; apply sumf_nonneg; exact F). lia. }
  destruct (g_q (nth j (gates (sh s)) dflt_gate)) as [|a l]; [reflexivity|]. cbn [length] in G. lia.
Qed.

(* ---------- the phase invariant of pipelines that never throw ---------- *)
Definition PhaseInv (c : cfg) (s : state) : Prop :=
  Forall (fun th => Forall (phase_frame c (sh s)) (stack th)) (threads s) /\
  (result (sh s) <> None -> closed c (sh s) (nstages c)) /\
  Forall (fun e => e_kind e <> 11) (log (sh s)) /\ (forall r, result (sh s) = Some r -> r = -1) /\
  ((0 < total m_gdone s \/ compl (sh s) < ninst c) -> c_nitems c <= gnext (sh s)).

Lemma PhaseInv_init c : PhaseInv c (init c).
Proof.
  split; [|split; [|split; [|split]]].
  - cbn. constructor; [repeat constructor|]. apply Forall_forall. intros th Hth. apply in_map_iff in Hth. destruct Hth as [w [<- _]]. repeat constructor.
  - cbn. congruence.
  - constructor.
  - cbn. discriminate.
  - rewrite init_total_frames by reflexivity. cbn [sh init compl]. lia.
Qed.

Lemma phase_frame_stab c s s1 f : (forall k, closed c s k -> closed c s1 k) -> phase_frame c s f -> phase_frame c s1 f.
Proof. intros Stab P. destruct f; try exact I. destruct pc; try exact I; cbn [phase_frame] in *; apply Stab; exact P. Qed.

Lemma PhaseInv_mstep c s t ch s' ch' site :
  no_throw c -> (0 < nstages c)%nat -> WF c s -> GenInv c s -> OutInv c s -> NTInv s -> PhaseInv c s ->
  mstep c s t ch = Some (s', ch', site) -> PhaseInv c s'.
Proof.
  intros NT H0 W G O [NS NTh] (PF & RS & K11 & RV & GD) H.
  assert (Stab : forall k, closed c (sh s) k -> closed c (sh s') k) by (intros k Ck; eapply closed_stable; eauto).
  pose proof W as [[[WL G0] WB] WT].
  pose proof H as H'. apply mstep_inv in H'. destruct H' as (th & s1 & th1 & wake & N & M & ->). cbn [sh threads] in *.
  assert (Nth : nt_thread th) by (eapply Forall_nth_error; eauto).
  assert (Pth : Forall (phase_frame c (sh s)) (stack th)) by (eapply (Forall_nth_error (fun th => Forall (phase_frame c (sh s)) (stack th))); eauto).
  destruct (phase_local c t (sh s) th ch s1 th1 ch' site wake NT G0 NS Nth M Stab (closed_queues_empty c s W O) Pth RS K11 RV) as (P1 & P2 & P3 & P4).
  destruct (gdone_local c t (sh s) th ch s1 th1 ch' site wake NT G0 NS Nth M) as (D1 & D2 & D3).
  split; [|split; [exact P2 | split; [exact P3 | split; [exact P4|]]]].
  - apply Forall_set_nth; [|exact P1].
    assert (X : Forall (fun th0 => Forall (phase_frame c s1) (stack th0)) (threads s)).
    { eapply Forall_impl; [|exact PF]. intros th0 F0. eapply Forall_impl; [|exact F0]. intros f. apply phase_frame_stab. exact Stab. }
    destruct wake; [|exact X]. rewrite wake_all_map. apply Forall_forall. intros x Hx. apply in_map_iff in Hx. destruct Hx as [y [<- Hy]].
    rewrite Forall_forall in X. specialize (X y Hy). unfold wake1. destruct (stack y) as [|f r] eqn:S; [rewrite S; constructor|].
    destruct f; try (rewrite S; exact X). destruct pc; try (rewrite S; exact X). cbn. inversion X; subst. constructor; [exact I | assumption].
  - pose proof (total_step m_gdone (threads s) t th (sh s) s1 th1 wake eq_refl N) as T1.
    assert (T0 : total m_gdone (ST (sh s) (threads s)) = total m_gdone s) by (destruct s; reflexivity). rewrite T0 in T1.
    intros [Q|Q]; cbn [sh] in Q |- *.
    + destruct D2 as [D2|D2]; [|exact D2].
      assert (P0 : 0 < total m_gdone s).
      { revert Q T1 D2. generalize (total m_gdone (ST s1 (set_nth (if wake then wake_all (threads s) else threads s) t th1))).
        generalize (dlt m_gdone (sh s) th s1 th1). generalize (total m_gdone s). intros a b d Q T1 D2. lia. }
      assert (c_nitems c <= gnext (sh s)) by (apply GD; left; exact P0). cbn [sh]. lia.
    + destruct D3 as [D3|(f & r & Hs & Hf)].
      * assert (c_nitems c <= gnext (sh s)) by (apply GD; right; lia). cbn [sh]. lia.
      * pose proof (top_le_total m_gdone s t th f r nonneg_gdone N Hs). assert (c_nitems c <= gnext (sh s)) by (apply GD; left; lia). cbn [sh]. lia.
Qed.

Theorem phase_invariants c s :
  no_throw c -> (0 < nstages c)%nat -> reach (mstep c) (init c) s ->
  WF c s /\ PoolInv s /\ OutInv c s /\ GenInv c s /\ NTInv s /\ PhaseInv c s.
Proof.
  intros NT H0 R.
  apply (reach_inv (mstep c) (fun s => WF c s /\ PoolInv s /\ OutInv c s /\ GenInv c s /\ NTInv s /\ PhaseInv c s) (init c)); [| | exact R].
  - split; [apply WF_init|]. split; [apply PoolInv_init|]. split; [apply OutInv_init|]. split; [apply GenInv_init|].
    split; [apply NTInv_init | apply PhaseInv_init].
  - intros s1 t ch s1' ch' site (W & P & O & G & N & Ph) E.
    split; [eapply WF_mstep; eauto|]. split; [eapply PoolInv_mstep; eauto|]. split; [eapply OutInv_mstep; eauto|].
    split; [eapply GenInv_mstep; eauto|]. split; [eapply NTInv_mstep; eauto | eapply PhaseInv_mstep; eauto].
Qed.

(* ---------- at the end nothing is anywhere ---------- *)
Lemma total_le a b s :
  (forall f, mf a f <= mf b f) -> (forall j x, mq a j x <= mq b j x) -> (forall x, mb a x <= mb b x) -> (forall e, me a e <= me b e) ->
  total a s <= total b s.
Proof.
  intros F Q B E. unfold total, shw, thsw, bagw, logw, stackw.
  assert (G : forall k gs, gatesw a k gs <= gatesw b k gs).
  { intros k gs; revert k; induction gs as [|g r IH]; intros k; cbn [gatesw]; [lia|]. specialize (IH (S k)).
    assert (qw a k (g_q g) <= qw b k (g_q g)) by (unfold qw; apply sumf_le; intros; apply Q). lia. }
  specialize (G 0%nat (gates (sh s))).
  assert (sumf (fun e => mb a (snd e)) (bag (sh s)) <= sumf (fun e => mb b (snd e)) (bag (sh s))) by (apply sumf_le; intros; apply B).
  assert (sumf (me a) (log (sh s)) <= sumf (me b) (log (sh s))) by (apply sumf_le; intros; apply E).
  assert (sumf (fun th => sumf (mf a) (stack th)) (threads s) <= sumf (fun th => sumf (mf b) (stack th)) (threads s)) by
    (apply sumf_le; intros; apply sumf_le; intros; apply F).
  lia.
Qed.

Definition m_gl : meas := MS (fun f => match f with FGen pc => bz (gen_live pc) | _ => 0 end) (fun _ _ => 0) (fun _ => 0) (fun _ => 0).

Lemma gl_le_genc c s : WF c s -> total m_gl s <= total (m_genc c) s.
Proof.
  intros [WS WT]. unfold total.
  assert (S0 : shw m_gl (sh s) = 0).
  { unfold shw. rewrite gatesw_zero by reflexivity. unfold bagw, logw. rewrite !sumf_zero; [reflexivity | |]; intros; reflexivity. }
  assert (S1 : 0 <= shw (m_genc c) (sh s)).
  { unfold shw. rewrite gatesw_zero by reflexivity. unfold bagw, logw.
    assert (0 <= sumf (fun e => mb (m_genc c) (snd e)) (bag (sh s))) by (apply sumf_nonneg; intros [p []]; cbn; lia).
    assert (0 <= sumf (me (m_genc c)) (log (sh s))) by (apply sumf_nonneg; intros; cbn; lia). lia. }
  assert (thsw m_gl (threads s) <= thsw (m_genc c) (threads s)); [|lia].
  unfold thsw. apply sumf_le. intros th Hth. unfold stackw. apply sumf_le. intros f Hf.
  rewrite Forall_forall in WT. specialize (WT th Hth). unfold wf_thread in WT. rewrite Forall_forall in WT. specialize (WT f Hf).
  pose proof (ninst_pos c). destruct f; cbn [mf m_gl m_genc]; try lia.
  - destruct pc; cbn in *; lia.
  - destruct tk; try lia. destruct pc; lia.
Qed.

Ltac bzs := repeat match goal with |- context [bz ?b] => let H := fresh in pose proof (bz_nonneg b) as H; generalize dependent (bz b); intros end.
Ltac pw :=
  unfold wait_holds, sched_pre, post_pc, gen_live;
  repeat (cbn [bz andb orb Nat.eqb];
          match goal with
          | |- context [match ?x with _ => _ end] => is_var x; destruct x
          | |- context [Nat.eqb ?a ?b] => destruct (Nat.eqb a b)
          | |- context [tagis ?a ?b] => destruct (tagis a b)
          end);
  cbn [bz andb orb]; try lia.

Lemma pre0_le tag s : total (m_pre 0 tag) s <= total (mplus (m_out 0) m_gl) s.
Proof.
  apply total_le.
  - intros f. cbn [mf m_pre mplus m_out m_gl]. unfold pre_f. pw.
  - intros j x. cbn [mq m_pre mplus m_out m_gl]. unfold pre_q. pw.
  - intros x. cbn [mb m_pre mplus m_out m_gl]. unfold pre_b. pw.
  - intros e. cbn [me m_pre mplus m_out m_gl]. bzs; lia.
Qed.

Lemma preS_le j0 tag s : total (m_pre (S j0) tag) s <= total (mplus (m_out (S j0)) (m_out j0)) s.
Proof.
  apply total_le.
  - intros f. cbn [mf m_pre mplus m_out]. unfold pre_f. pw.
  - intros j x. cbn [mq m_pre mplus m_out]. unfold pre_q. pw.
  - intros x. cbn [mb m_pre mplus m_out]. unfold pre_b. pw.
  - intros e. cbn [me m_pre mplus m_out]. bzs; lia.
Qed.

Lemma post_le j0 tag s : total (m_post j0 tag) s <= total (m_out j0) s.
Proof.
  apply total_le.
  - intros f. cbn [mf m_post m_out]. unfold post_f. pw.
  - intros j x. cbn [mq m_post m_out]. unfold z3. bzs; lia.
  - intros x. cbn [mb m_post m_out]. pw.
  - intros e. cbn [me m_post m_out]. bzs; lia.
Qed.

(* ---------- "finished here" events only where the configuration says so ---------- *)
Definition fin_ok (c : cfg) (e : event) : Prop :=
  e_kind e = 17 -> drops_at c (Z.to_nat (e_j e)) (e_tag e, 0) = true \/ (nstages c <= S (Z.to_nat (e_j e)))%nat.

Lemma strand_q_fin c t j q s : Forall (fin_ok c) (log s) -> Forall (fin_ok c) (log (strand_q t j q s)).
Proof. revert s; induction q as [|[p it] q IH]; intros s F; cbn; [exact F|]. apply IH. cbn. constructor; [unfold fin_ok; cbn; discriminate | exact F]. Qed.
Lemma strand_gates_fin c t j gs s : Forall (fin_ok c) (log s) -> Forall (fin_ok c) (log (strand_gates t j gs s)).
Proof. revert j s; induction gs as [|g r IH]; intros j s F; cbn; [exact F|]. apply IH. apply strand_q_fin. exact F. Qed.

Lemma fin_local c t s th ch s1 th1 ch1 site wake :
  Forall (fin_ok c) (log s) -> mstep_thread c t s th ch = Some (s1, th1, ch1, site, wake) -> Forall (fin_ok c) (log s1).
Proof.
  intros F H. step_cases H th.
  all: mnorm.
  all: repeat match goal with
       | |- Forall _ (log (strand_gates _ _ _ _)) => apply strand_gates_fin
       | |- Forall _ (_ :: _) => constructor
       end; cbn [log w_exc w_result] in *; try assumption.
  all: unfold fin_ok; cbn [e_kind e_j e_tag ev zj]; try discriminate.
  all: intros _; rewrite Nat2Z.id; bool_hyps.
  all: match goal with E : (drops_at _ _ _ || _)%bool = true |- _ => apply orb_true_iff in E; destruct E as [E|E]; [left | right; apply Nat.leb_le; exact E] end.
  all: unfold drops_at in *; cbn [fst] in *; exact E.
Qed.

Theorem fin_invariant c s : reach (mstep c) (init c) s -> Forall (fin_ok c) (log (sh s)).
Proof.
  intros R. apply (reach_inv (mstep c) (fun s => Forall (fin_ok c) (log (sh s))) (init c)); [constructor | | exact R].
  intros s1 t ch s1' ch' site I E. apply mstep_inv in E. destruct E as (th & s2 & th1 & wake & N & M & ->). cbn [sh]. eapply fin_local; eauto.
Qed.

Lemma count_ev_zero k j tag l : (forall e, In e l -> e_kind e <> k) -> count_ev k j tag l = 0.
Proof.
  intros H. unfold count_ev. apply sumf_zero. intros e He. unfold evw. destruct (Z.eqb_spec (e_kind e) k) as [E|E]; [exfalso; exact (H e He E) | reflexivity].
Qed.
Lemma total_lost_zero j tag s :
  (forall e, In e (log (sh s)) -> e_kind e <> 7 /\ e_kind e <> 8 /\ e_kind e <> 11 /\ e_kind e <> 12 /\ e_kind e <> 15) -> total (m_lost j tag) s = 0.
Proof.
  intros H. unfold total, shw. rewrite gatesw_zero by reflexivity.
  assert (B : bagw (m_lost j tag) (bag (sh s)) = 0) by (unfold bagw; apply sumf_zero; intros; reflexivity).
  assert (T : thsw (m_lost j tag) (threads s) = 0).
  { unfold thsw. apply sumf_zero. intros th _. unfold stackw. apply sumf_zero. intros; reflexivity. }
  assert (L : logw (m_lost j tag) (log (sh s)) = 0).
  { unfold logw. apply sumf_zero. intros e He. cbn [me m_lost]. unfold lostw, evw. destruct (H e He) as (A1 & A2 & A3 & A4 & A5).
    destruct (Z.eqb_spec (e_kind e) 7), (Z.eqb_spec (e_kind e) 8), (Z.eqb_spec (e_kind e) 11), (Z.eqb_spec (e_kind e) 12), (Z.eqb_spec (e_kind e) 15); try contradiction.
    reflexivity. }
  lia.
Qed.
