(* C17: definitions composed from the regenerated leaves, and the proofs behind Props/Properties_C17.v *)
From Coq Require Import ZArith List Bool Lia.
From DV Require Import Base.MachInt Model.ChunkModel Proofs.ChunkProofs Proofs.StaticBoundsProofs Gen.GenChunk GenTie.ChunkGenTie Model.ParForModel.
Import ListNotations.
Local Open Scope Z_scope.

Definition gen_chunk_len (items chunks g i : Z) : Z :=
  let '(t, c) := gen_staticChunkSizeGranular items chunks g in
  if i <? t then c else c - unit_of g.

Lemma gen_chunk_len_eq items chunks g i : gen_chunk_len items chunks g i = chunk_len items chunks g i.
Proof. unfold gen_chunk_len, chunk_len. rewrite tie_staticChunkSizeGranular. reflexivity. Qed.

Lemma C17_staticChunkSize_proof : forall items chunks, 0 <= items -> 0 < chunks ->
  let '(t, c) := gen_staticChunkSize items chunks in
  0 <= t <= chunks /\ 0 <= c /\ (t < chunks -> 1 <= c) /\ (0 < items -> 0 < t) /\
  t * c + (chunks - t) * (c - 1) = items /\ c <= items.
Proof. intros items chunks Hi Hc. rewrite tie_staticChunkSize. apply static_chunk_spec; assumption. Qed.

Lemma C17_staticChunkSizeGranular_proof : forall items chunks g, 0 <= items -> 0 < chunks -> 1 <= g -> (g | items) ->
  let '(t, c) := gen_staticChunkSizeGranular items chunks g in
  let u := unit_of g in
  0 <= t <= chunks /\ 0 <= c /\ (u | c) /\ (t < chunks -> u <= c) /\ (0 < items -> 0 < t) /\
  t * c + (chunks - t) * (c - u) = items /\ c <= items.
Proof. intros items chunks g Hi Hc Hg Hd. rewrite tie_staticChunkSizeGranular. apply static_chunk_gran_spec; assumption. Qed.

Lemma sum_len_ext f g n : (forall i, f i = g i) -> sum_len f n = sum_len g n.
Proof. intros E; induction n as [|n IH]; cbn [sum_len]; [reflexivity|]. rewrite IH, E. reflexivity. Qed.

Lemma C17_sizes_sum_proof : forall items chunks g, 0 <= items -> 0 < chunks -> 1 <= g -> (g | items) ->
  sum_len (gen_chunk_len items chunks g) (Z.to_nat chunks) = items.
Proof.
  intros items chunks g Hi Hc Hg Hd.
  rewrite (sum_len_ext _ (chunk_len items chunks g)) by (intros; apply gen_chunk_len_eq).
  apply chunk_len_sum; assumption.
Qed.

Lemma C17_sizes_shape_proof : forall items chunks g i j,
  0 <= items -> 0 < chunks -> 1 <= g -> (g | items) -> 0 <= i <= j -> j < chunks ->
  0 <= gen_chunk_len items chunks g j <= gen_chunk_len items chunks g i /\
  gen_chunk_len items chunks g i - gen_chunk_len items chunks g j <= unit_of g /\
  (unit_of g | gen_chunk_len items chunks g i).
Proof. intros. rewrite !gen_chunk_len_eq. apply chunk_len_shape; assumption. Qed.

Section GenBounds.
  Variable kn : nat.
  Hypothesis Hkn : (kn < 8)%nat.
  Let k := nth kn all_kinds I8.
  Variables s e n g : Z.
  Hypothesis Hs : in_kind k s.
  Hypothesis He : in_kind k e.
  Hypothesis Hse : s <= e.
  Hypothesis Hn : 1 <= n.
  Hypothesis Hg : 1 <= g.
  Hypothesis Hdiv : (g | e - s).
  Hypothesis Hfit : e - s + n < 2 ^ 63.
  Hypothesis Hub : ik_signed k = true -> 32 <= ik_w k -> e - s <= kmax k /\ n <= kmax k.

  Lemma k_wf : wf_kind k /\ ik_w k <= 64.
  Proof.
    subst k. do 8 (destruct kn as [|kn0]; [unfold wf_kind; simpl; lia|]; clear kn; rename kn0 into kn). lia.
  Qed.

  Lemma gen_static_bounds_eq : gen_static_bounds kn s e n g = static_bounds k s e n g.
  Proof.
    destruct k_wf as [Hwf Hw64].
    pose proof (cfg_spec k Hwf s e n g Hse Hn Hg Hdiv Hfit Hub) as CS.
    pose proof (tc_spec s e n g Hse Hn Hg Hdiv) as TS.
    unfold gen_static_bounds, static_bounds. fold k.
    rewrite (range_size_eq k s e n Hse Hn Hfit Hub).
    destruct (static_mapper_cfg k (e - s) n g) as [[cs sc] ti]. cbn [fst snd] in CS.
    destruct CS as (_ & Hti & _). destruct TS as (T1 & _).
    assert (P63 : 2 ^ 63 < 2 ^ 64) by (apply Z.pow_lt_mono_r; lia).
    assert (P0 : 0 < 2 ^ 63) by (apply pow2_pos; lia).
    apply map_ext_in. intros i Hi. apply in_seq in Hi.
    revert Hi Hti. clear Hub Hs He. subst k. clear Hwf Hw64.
    do 8 (destruct kn as [|kn0]; [intros Hi Hti; cbn [gen_mapper_of nth all_kinds];
      first [ apply tie_mapper_i8 | apply tie_mapper_u8 | apply tie_mapper_i16 | apply tie_mapper_u16
            | apply tie_mapper_i32 | apply tie_mapper_u32 | apply tie_mapper_i64; lia | apply tie_mapper_u64; lia ] |];
      clear kn; rename kn0 into kn).
    lia.
  Qed.

  Lemma C17_boundaries_partition_sec :
    contiguous s (gen_static_bounds kn s e n g) e /\
    forall i, (i < Z.to_nat n)%nat ->
      let '(a, b) := nth i (gen_static_bounds kn s e n g) (0, 0) in b - a = gen_chunk_len (e - s) n g (Z.of_nat i).
  Proof.
    destruct k_wf as [Hwf Hw64].
    rewrite gen_static_bounds_eq. split.
    - apply static_bounds_contiguous; assumption.
    - intros i Hi. rewrite gen_chunk_len_eq. apply static_bounds_lengths; assumption.
  Qed.
End GenBounds.

Lemma C17_boundaries_partition_proof : forall kn s e n g,
  (kn < 8)%nat -> let k := nth kn all_kinds I8 in
  in_kind k s -> in_kind k e -> s <= e -> 1 <= n -> 1 <= g -> (g | e - s) -> e - s + n < 2 ^ 63 ->
  (ik_signed k = true -> 32 <= ik_w k -> e - s <= kmax k /\ n <= kmax k) ->
  contiguous s (gen_static_bounds kn s e n g) e /\
  forall i, (i < Z.to_nat n)%nat ->
    let '(a, b) := nth i (gen_static_bounds kn s e n g) (0, 0) in b - a = gen_chunk_len (e - s) n g (Z.of_nat i).
Proof. intros. apply C17_boundaries_partition_sec; assumption. Qed.
