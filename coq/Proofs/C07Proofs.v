(* C07: submissions to a fully parked pool -- refutation witnesses and the invariant for the central-queue paths. *)
From Coq Require Import ZArith List Bool Arith Lia.
From DV Require Import Base.MachInt Base.Sched Model.WakeModel Proofs.WakeLemmas Proofs.C09Proofs.
Import ListNotations.
Local Open Scope Z_scope.

(* ---------- worker program counters while every running flag is true ---------- *)
Definition wpc7 (i : nat) (p : pc) : Prop :=
  match p with
  | PTop j | PRing j | PHint j | PDeq j | PHintClr j | PSteal j | PCross j | PCrossPop j _ | PCrossClr j _
  | PMarkWork j | PWorkSub j | PFlush j | PMarkIdle j false | PProbe j
  | PEnter1 j WLoop | PEnter2 j WLoop | PRecheck j WLoop | PWf0 j WLoop | PWf1 j WLoop | PFutex j WLoop
  | PBlocked j WLoop | PWoken j WLoop | PWf2 j WLoop | PExit1 j WLoop | PExit2 j WLoop => j = i
  | _ => False
  end.

(* the park sequence: entered only after a failed poll round *)
Definition parkseq (p : pc) : bool :=
  match p with
  | PMarkIdle _ false | PEnter1 _ _ | PEnter2 _ _ | PRecheck _ _ | PWf0 _ _ | PWf1 _ _ | PFutex _ _ => true
  | _ => false
  end.

(* the worker has looked at the central queue in its current round (or in the round after which it parked) and found nothing *)
Definition postpoll (th : thread) : Prop :=
  match tpc th with
  | PHintClr _ | PSteal _ | PCross _ | PCrossPop _ _ | PCrossClr _ _ => True
  | PBlocked _ _ => (0 < lfail th)%nat
  | p => parkseq p = true
  end.

(* still in the initial futex wait *)
Definition pristine (th : thread) : Prop := (exists i, tpc th = PBlocked i WLoop) /\ lfail th = O.

Definition Jw (i : nat) (cen : nat) (th : thread) : Prop :=
  wpc7 i (tpc th) /\ prog th = [] /\ (postpoll th -> cen = O) /\ (parkseq (tpc th) = true -> (0 < lfail th)%nat).

Section C07.
  Variable c : cfg.
  Hypothesis gs_pos : (0 < c_gs c)%nat.
  Hypothesis n_pos : (0 < c_n c)%nat.
  Hypothesis wake_mode : c_wake c = true.
  Hypothesis no_tmo : c_tmo c = false.

  Definition flags_true (p : poolst) : Prop := forall i, nth i (runflags p) true = true.
  Definition rings_empty (p : poolst) : Prop := forall i, nth i (rings p) [] = [].
  Definition steals_zero (p : poolst) : Prop := forall j, nth j (steals p) O = O.

  Lemma wpc7_after_task i th : wpc7 i (tpc (after_task i th)) /\ prog (after_task i th) = prog th /\ ~ postpoll (after_task i th)
      /\ parkseq (tpc (after_task i th)) = false.
  Proof. unfold after_task, postpoll. destruct (8 <=? _)%nat; cbn; repeat split; auto; discriminate. Qed.

  Lemma Jw_park_start i cen th : cen = O -> prog th = [] -> (0 < lfail th)%nat -> Jw i cen (park_start c i th).
  Proof.
    intros C P L. unfold park_start, Jw, postpoll. rewrite wake_mode. destruct (lwork th); cbn; repeat split; auto.
  Qed.

  Lemma Jw_round_fail i cen th : cen = O -> prog th = [] -> Jw i cen (round_fail c i th).
  Proof.
    intros C P. unfold round_fail.
    destruct (0 <? ldone th)%nat.
    - destruct (lwork th); unfold Jw, postpoll; cbn; repeat split; auto; discriminate.
    - destruct (_ <? c_spins c)%nat.
      + unfold Jw, postpoll; cbn; repeat split; auto; discriminate.
      + apply Jw_park_start; cbn; auto; lia.
  Qed.

  Lemma nb_after_task i th : ~ pristine (after_task i th).
  Proof. unfold after_task, pristine. destruct (8 <=? _)%nat; cbn; intros [[j H] _]; discriminate. Qed.

  Lemma nb_round_fail i th : ~ pristine (round_fail c i th).
  Proof.
    unfold round_fail, park_start, pristine. rewrite wake_mode.
    destruct (0 <? ldone th)%nat; [destruct (lwork th); cbn; intros [[j H] _]; discriminate|].
    destruct (_ <? c_spins c)%nat; [cbn; intros [[j H] _]; discriminate|].
    cbn. destruct (lwork th); cbn; intros [[j H] _]; discriminate.
  Qed.

  Ltac wkd := repeat match goal with k : wk |- _ => destruct k end.

  Lemma worker_step7 i th w p N o :
    Jw i (central p) th -> flags_true p -> rings_empty p -> steals_zero p -> (hint p = false -> central p = O) ->
    tstep c w p N th = Some o ->
    Jw i (central (o_p o)) (o_th o) /\ runflags (o_p o) = runflags p /\ rings (o_p o) = rings p /\ steals (o_p o) = steals p /\
    (hint (o_p o) = false -> central (o_p o) = O) /\
    (central (o_p o) = central p \/ central p <> O) /\ (central (o_p o) <= central p)%nat /\
    ~ pristine (o_th o) /\ o_wake o = None.
  Proof.
    intros (HW & Hprog & Hpp & Hps) FT RE SZ HH T. unfold tstep in T.
    destruct (tpc th) eqn:P; cbn in HW; try (exfalso; exact HW).
    all: wkd; cbn in HW; try (exfalso; exact HW).
    all: try (match goal with e : bool |- _ => destruct e; cbn in HW; try (exfalso; exact HW) end).
    all: try subst i.
    all: cbn in T; rewrite ?Hprog, ?wake_mode, ?no_tmo, ?FT, ?RE, ?SZ in T; cbn in T.
    all: repeat match type of T with
         | context [if ?b then _ else _] => destruct b eqn:?
         | context [match central ?x with _ => _ end] => destruct (central x) eqn:?
         | context [match lowest_set ?x with _ => _ end] => destruct (lowest_set x) eqn:?
         end.
    all: try discriminate T.
    all: injection T as <-; cbn.
    all: unfold postpoll in Hpp; rewrite P in Hpp; cbn in Hpp; cbn in Hps.
    all: (split; [|repeat match goal with |- _ /\ _ => split end]).
    all: try reflexivity.
    all: try solve [ left; reflexivity | right; congruence | lia | exact HH
                   | intros Hf; specialize (HH Hf); congruence | intros Hf; discriminate Hf
                   | intros [[j Hj] Hl]; cbn in *; try discriminate; try lia ].
    all: try match goal with |- context [after_task ?i ?t] =>
           destruct (wpc7_after_task i t) as (A1 & A2 & A3 & A4); unfold Jw; rewrite A2, A4; cbn; repeat split; auto; try tauto; try discriminate end.
    all: try solve [ apply Jw_round_fail; cbn; auto ].
    all: try solve [ unfold Jw, postpoll; cbn; repeat split; auto; try discriminate; try tauto; try lia ].
    all: try solve [ apply nb_after_task | apply nb_round_fail | intros [[j0 Hj] Hl]; cbn in *; discriminate ].
    all: try solve [ intros Hf; apply HH; congruence ].
  Qed.

  (* ---------- the producer ---------- *)
  Definition ck_ok (k : ck) : Prop := match k with CSched | CBulk _ => True | _ => False end.

  (* after its first futex wake the producer only claims / bumps / wakes *)
  Definition ppcB (p : pc) : Prop :=
    match p with
    | PDone => True
    | PClTotal k | PClNext k | PClMask k _ _ | PClTry k _ _ _ _ | PClBump k _ _ | PClWake k _ _ | PClStore k _ _ => ck_ok k
    | PSeedTotal _ false | PSeedFast _ _ false | PRgLoad _ _ _ _ false | PRgBump _ _ _ _ _ false | PRgWake _ _ _ _ _ false => True
    | _ => False
    end.

  Lemma ppcB_ret_claim k r th : ck_ok k -> prog th = [] -> ppcB (tpc (ret_claim c k r th)) /\ prog (ret_claim c k r th) = [].
  Proof.
    intros K P. destruct k; cbn in K; try contradiction; cbn.
    - unfold next. rewrite P. cbn. auto.
    - destruct r as [t|]; [destruct rem; cbn; auto|]; unfold next; rewrite P; cbn; auto.
  Qed.

  Lemma ppcB_claim_scan k g gi m th : ck_ok k -> prog th = [] -> ppcB (tpc (claim_scan c k g gi m th)) /\ prog (claim_scan c k g gi m th) = [].
  Proof.
    intros K P. unfold claim_scan. destruct (lowest_set m); [cbn; auto|].
    destruct (S gi <? ngroups c)%nat; [cbn; auto|]. apply ppcB_ret_claim; auto.
  Qed.

  Lemma producerB_step th w p N o :
    ppcB (tpc th) -> prog th = [] -> tstep c w p N th = Some o ->
    ppcB (tpc (o_th o)) /\ prog (o_th o) = [] /\ o_p o = p.
  Proof.
    intros HP Hprog T. unfold tstep in T.
    destruct (tpc th) eqn:P; cbn in HP; try (exfalso; exact HP).
    all: try (match goal with e : bool |- _ => match type of HP with context [e] => destruct e; try (exfalso; exact HP) end end).
    all: cbn in T.
    all: repeat match type of T with
         | (if ?b then _ else _) = _ => destruct b eqn:?
         | (match ?x with _ => _ end) = _ => destruct x eqn:?
         end.
    all: try discriminate T.
    all: injection T as <-; cbn.
    all: try solve [ repeat split; auto ].
    all: try solve [ split; [|split]; try reflexivity; try (apply ppcB_ret_claim; auto); try (apply ppcB_claim_scan; auto) ].
    all: try solve [ unfold next; rewrite Hprog; cbn; auto ].
    all: repeat match goal with |- context [if ?b then _ else _] => destruct b end; cbn; unfold next; rewrite ?Hprog; cbn; auto.
  Qed.

  (* ---------- phase A: nobody has been woken yet; only the producer can move ---------- *)
  Definition allset (w : wakest) : Prop := forall i, (i < c_n c)%nat -> nth i (bits w) false = true.

  Definition Apc (w : wakest) (p : poolst) (th : thread) : Prop :=
    match tpc th with
    | PStart => (prog th = [OSchedule] \/ exists k, (0 < k)%nat /\ prog th = [OBulk k]) /\ workrem p = 0 /\ allset w
    | PScAdd => prog th = [] /\ workrem p = 0 /\ allset w
    | PScEnq | PScHint => prog th = [] /\ workrem p = 1 /\ allset w
    | PScTotal => prog th = [] /\ workrem p = 1 /\ hint p = true /\ allset w
    | PScWork sl => prog th = [] /\ workrem p = 1 /\ hint p = true /\ sl = Z.of_nat (c_n c) /\ allset w
    | PBkAdd k | PBkEnq k | PBkHint k => prog th = [] /\ (0 < k)%nat /\ allset w
    | PBkTotal k => prog th = [] /\ (0 < k)%nat /\ hint p = true /\ allset w
    | PBkNotW k sl => prog th = [] /\ (0 < k)%nat /\ hint p = true /\ sl = Z.of_nat (c_n c) /\ allset w
    | PClTotal k | PClNext k => prog th = [] /\ ck_ok k /\ hint p = true /\ allset w
    | PClMask k g gi => prog th = [] /\ ck_ok k /\ hint p = true /\ g = O /\ gi = O /\ allset w
    | PClTry k g gi m b => prog th = [] /\ ck_ok k /\ hint p = true /\ g = O /\ b = O /\ allset w
    | PClBump k g t | PClWake k g t => prog th = [] /\ ck_ok k /\ hint p = true /\ g = O
    | PSeedTotal tw lg => prog th = [] /\ hint p = true /\ (0 < tw)%nat /\ lg = false /\ allset w
    | PRgLoad sd g last tw lg => prog th = [] /\ hint p = true /\ (0 < tw)%nat /\ lg = false /\ g = O /\ allset w
    | PRgBump sd g last tw k lg | PRgWake sd g last tw k lg => prog th = [] /\ hint p = true /\ lg = false /\ g = O /\ (0 < k)%nat
    | _ => False
    end.

  Lemma grp0_head w : length (bits w) = c_n c -> allset w -> exists r, grp_bits c (bits w) O = true :: r.
  Proof.
    intros L A. unfold grp_bits. cbn. specialize (A O n_pos).
    destruct (bits w) as [|b r] eqn:B; [cbn in L; lia|]. cbn in A. subst b.
    destruct (c_gs c) as [|g] eqn:G; [lia|]. cbn. eauto.
  Qed.

  Lemma producerA_step th w p N o :
    Apc w p th -> total w = Z.of_nat (c_n c) -> notworking p = Z.of_nat (c_n c) -> nextg w = O -> length (bits w) = c_n c ->
    tstep c w p N th = Some o ->
    (o_wake o = None /\ Apc (o_w o) (o_p o) (o_th o) /\ total (o_w o) = Z.of_nat (c_n c) /\ notworking (o_p o) = Z.of_nat (c_n c) /\
     nextg (o_w o) = O /\ length (bits (o_w o)) = c_n c /\
     runflags (o_p o) = runflags p /\ rings (o_p o) = rings p /\ steals (o_p o) = steals p)
    \/
    ((exists k, o_wake o = Some (O, S k)) /\ ppcB (tpc (o_th o)) /\ prog (o_th o) = [] /\ o_p o = p /\ hint p = true).
  Proof.
    intros A Tt Nw Ng Lb T. unfold tstep in T. unfold Apc in A.
    destruct (tpc th) eqn:P; try (exfalso; exact A).
    all: cbn in T.
    - (* PStart *) destruct A as ([Hp|[k [Hk Hp]]] & Wr & AS); unfold next in T; rewrite Hp in T; cbn in T; injection T as <-; cbn;
        left; repeat split; auto; unfold Apc; cbn; auto.
    - (* PClTotal *) destruct A as (Hp & K & Hh & AS). rewrite Tt in T.
      replace (Z.of_nat (c_n c) <=? 0) with false in T by (symmetry; apply Z.leb_gt; lia).
      injection T as <-; cbn. left; repeat split; auto; unfold Apc; cbn; auto.
    - (* PClNext *) destruct A as (Hp & K & Hh & AS). rewrite Ng in T.
      assert (G0 : (if (ngroups c <=? 0)%nat then O else O) = O) by (destruct (ngroups c <=? 0)%nat; reflexivity).
      rewrite G0 in T. injection T as <-; cbn. left; repeat split; auto; unfold Apc; cbn; auto.
    - (* PClMask *) destruct A as (Hp & K & Hh & -> & -> & AS).
      destruct (grp0_head w Lb AS) as [r Hr]. unfold claim_scan in T. rewrite Hr in T. cbn in T.
      injection T as <-; cbn. left; repeat split; auto; unfold Apc; cbn; auto.
    - (* PClTry *) destruct A as (Hp & K & Hh & -> & -> & AS). cbn in T. rewrite (AS O n_pos) in T.
      injection T as <-; cbn. left; repeat split; auto; try (rewrite length_upd; auto); unfold Apc; cbn; auto.
    - (* PClBump *) destruct A as (Hp & K & Hh & ->). injection T as <-; cbn.
      left; repeat split; auto; unfold Apc; cbn; auto.
    - (* PClWake *) destruct A as (Hp & K & Hh & ->). injection T as <-; cbn.
      right. split; [exists O; reflexivity|]. repeat split; auto.
    - (* PSeedTotal *) destruct A as (Hp & Hh & Hk & -> & AS). rewrite Tt in T.
      replace (Z.of_nat (c_n c) =? 0) with false in T by (symmetry; apply Z.eqb_neq; lia).
      injection T as <-; cbn. left; repeat split; auto; unfold Apc; cbn; auto.
    - (* PRgLoad *) destruct A as (Hp & Hh & Hk & -> & -> & AS).
      destruct (grp0_head w Lb AS) as [r Hr]. rewrite Hr in T.
      injection T as <-; cbn. left; repeat split; auto. unfold Apc; cbn. repeat split; auto.
      destruct last; cbn; [|lia]. rewrite ?Nat.sub_0_r. destruct c0; [lia|]. cbn. lia.
    - (* PRgBump *) destruct A as (Hp & Hh & -> & -> & Hk). destruct n as [|n']; [lia|].
      injection T as <-; cbn. left; repeat split; auto; unfold Apc; cbn; repeat split; auto; lia.
    - (* PRgWake *) destruct A as (Hp & Hh & -> & -> & Hk). destruct n as [|n']; [lia|].
      injection T as <-; cbn. right. split; [exists n'; reflexivity|].
      destruct last; cbn; [|repeat split; auto]. unfold next; rewrite Hp; cbn. repeat split; auto.
    - (* PScAdd *) destruct A as (Hp & Wr & AS). injection T as <-; cbn. left; repeat split; auto; unfold Apc; cbn; repeat split; auto; lia.
    - (* PScEnq *) destruct A as (Hp & Wr & AS). injection T as <-; cbn. left; repeat split; auto; unfold Apc; cbn; repeat split; auto.
    - (* PScHint *) destruct A as (Hp & Wr & AS). injection T as <-; cbn. left; repeat split; auto; unfold Apc; cbn; repeat split; auto.
    - (* PScTotal *) destruct A as (Hp & Wr & Hh & AS). rewrite Tt in T.
      replace (0 <? Z.of_nat (c_n c)) with true in T by (symmetry; apply Z.ltb_lt; lia).
      injection T as <-; cbn. left; repeat split; auto; unfold Apc; cbn; repeat split; auto.
    - (* PScWork *) destruct A as (Hp & Wr & Hh & -> & AS). rewrite Wr in T.
      replace (Z.of_nat (c_n c) - Z.of_nat (c_n c) <? 1) with true in T by (symmetry; apply Z.ltb_lt; lia).
      injection T as <-; cbn. left; repeat split; auto; unfold Apc; cbn; repeat split; auto.
    - (* PBkAdd *) destruct A as (Hp & Hk & AS). injection T as <-; cbn. left; repeat split; auto; unfold Apc; cbn; repeat split; auto.
    - (* PBkEnq *) destruct A as (Hp & Hk & AS). injection T as <-; cbn. left; repeat split; auto; unfold Apc; cbn; repeat split; auto.
    - (* PBkHint *) destruct A as (Hp & Hk & AS). injection T as <-; cbn. left; repeat split; auto; unfold Apc; cbn; repeat split; auto.
    - (* PBkTotal *) destruct A as (Hp & Hk & Hh & AS). rewrite Tt in T.
      replace (0 <? Z.of_nat (c_n c)) with true in T by (symmetry; apply Z.ltb_lt; lia).
      injection T as <-; cbn. left; repeat split; auto; unfold Apc; cbn; repeat split; auto.
    - (* PBkNotW *) destruct A as (Hp & Hk & Hh & -> & AS). rewrite Nw in T.
      replace (Z.max 0 (Z.of_nat (c_n c) - Z.of_nat (c_n c))) with 0 in T by lia. cbn in T.
      replace (Z.of_nat c0 - 0) with (Z.of_nat c0) in T by lia.
      remember (Z.to_nat (Z.min (Z.max 0 (Z.of_nat c0)) (Z.of_nat (c_n c)))) as tw eqn:Etw.
      assert (Htw : (0 < tw)%nat) by lia.
      destruct (tw <=? c_bf c)%nat.
      + destruct tw as [|k]; [lia|]. injection T as <-; cbn. left; repeat split; auto; unfold Apc; cbn; repeat split; auto.
      + injection T as <-; cbn. left; repeat split; auto; unfold Apc; cbn; repeat split; auto.
  Qed.

  (* ---------- frames ---------- *)
  Lemma Jw_wake i cen th : Jw i cen th -> Jw i cen (wake_thread th).
  Proof.
    intros J. unfold wake_thread. destruct (tpc th) eqn:P; try exact J.
    destruct J as (W & Pg & Pp & Ps). rewrite P in W. cbn in W. destruct w; try contradiction.
    unfold Jw, postpoll; cbn. repeat split; auto; try discriminate.
  Qed.

  Lemma pristine_wake th : ~ pristine th -> ~ pristine (wake_thread th).
  Proof.
    intros NP. unfold wake_thread. destruct (tpc th) eqn:P; auto.
    unfold pristine; cbn. intros [[j Hj] _]. discriminate.
  Qed.

  Lemma Jw_pristine i cen th : tpc th = PBlocked i WLoop -> lfail th = O -> prog th = [] -> Jw i cen th.
  Proof. intros P L Pg. unfold Jw, postpoll. rewrite P. cbn. repeat split; auto; try lia; try discriminate. Qed.

  Lemma Jw_cen i cen cen' th : Jw i cen th -> (cen' = cen \/ cen <> O) -> Jw i cen' th.
  Proof. intros (W & Pg & Pp & Ps) [->|D]; repeat split; auto. intros PP. specialize (Pp PP). contradiction. Qed.

  Lemma wake_pick_nonempty k ws ch : ws <> [] -> exists u, In u (fst (wake_pick (S k) ws ch [])) /\ In u ws.
  Proof.
    intros NE. destruct ws as [|w0 wr]; [contradiction|]. cbn [wake_pick].
    assert (G : forall n ws ch acc u, In u acc -> In u (fst (wake_pick n ws ch acc))).
    { induction n as [|n IH]; intros ws' ch' acc u Hu; [exact Hu|].
      destruct ws' as [|a r]; [exact Hu|]. cbn [wake_pick].
      destruct (S n <? length (a :: r))%nat; apply IH; right; exact Hu. }
    destruct (S k <? length (w0 :: wr))%nat.
    - eexists; split; [apply G; left; reflexivity|]. apply nth_In. apply Nat2Z.inj_lt. rewrite Z2Nat.id by (apply Z.mod_pos_bound; cbn; lia).
      apply Z.mod_pos_bound. cbn; lia.
    - exists w0. split; [apply G; left; reflexivity | left; reflexivity].
  Qed.

  (* ---------- the invariant ---------- *)
  Definition Inv7 (s : state) : Prop :=
    cf s = c /\ length (threads s) = S (c_n c) /\ flags_true (pl s) /\ rings_empty (pl s) /\ steals_zero (pl s) /\
    exists thp, nth_error (threads s) (c_n c) = Some thp /\
      ((Apc (wks s) (pl s) thp /\ total (wks s) = Z.of_nat (c_n c) /\ notworking (pl s) = Z.of_nat (c_n c) /\ nextg (wks s) = O /\
        length (bits (wks s)) = c_n c /\
        forall i, (i < c_n c)%nat -> exists th, nth_error (threads s) i = Some th /\ tpc th = PBlocked i WLoop /\ lfail th = O /\ prog th = [])
       \/
       (ppcB (tpc thp) /\ prog thp = [] /\ (hint (pl s) = false -> central (pl s) = O) /\
        (forall i, (i < c_n c)%nat -> exists th, nth_error (threads s) i = Some th /\ Jw i (central (pl s)) th) /\
        (exists u th, (u < c_n c)%nat /\ nth_error (threads s) u = Some th /\ ~ pristine th))).

  Lemma step_inv7 s t ch s' ch' site : Inv7 s -> step s t ch = Some (s', ch', site) -> Inv7 s'.
  Proof.
    intros (Hcf & Len & FT & RE & SZ & thp & Np & Ph) E.
    destruct (step_decomp _ _ _ _ _ _ E) as (th & o & woken & N & T & Ec & Ew & Ep & Et & Ewk).
    rewrite Hcf in T.
    assert (Ltt : (t < S (c_n c))%nat) by (rewrite <- Len; apply nth_error_Some; congruence).
    assert (Len' : length (threads s') = S (c_n c)) by (rewrite Et, length_upd, length_wake_tids; exact Len).
    assert (Nt' : nth_error (threads s') t = Some (o_th o)).
    { rewrite Et. apply nth_error_upd_eq. rewrite length_wake_tids, Len. exact Ltt. }
    destruct Ph as [(HA & Tt & Nw & Ng & Lb & Pw)|(PB & Pg & HH & Wk & (u & thu & Hu & Nu & NPu))].
    - (* phase A *)
      destruct (Nat.eq_dec t (c_n c)) as [->|D].
      2: { exfalso. destruct (Pw t ltac:(lia)) as (thw & Nw' & Pc & _). rewrite N in Nw'. injection Nw' as <-.
           unfold tstep in T. rewrite Pc, no_tmo in T. discriminate. }
      rewrite N in Np. injection Np as <-.
      destruct (producerA_step th _ _ _ o HA Tt Nw Ng Lb T) as [(Wn & HA' & Tt' & Nw'' & Ng' & Lb' & Rf & Rr & Rs)|((k & Wk) & PB & Pg & Pp & Hh)].
      + (* still nobody woken *)
        rewrite Wn in Ewk. subst woken. rewrite wake_tids_nil in Et.
        split; [congruence|]. split; [exact Len'|].
        split; [unfold flags_true; rewrite Ep, Rf; exact FT|]. split; [unfold rings_empty; rewrite Ep, Rr; exact RE|].
        split; [unfold steals_zero; rewrite Ep, Rs; exact SZ|].
        exists (o_th o). split; [exact Nt'|]. left. rewrite Ew, Ep.
        repeat split; auto.
        intros i Hi. destruct (Pw i Hi) as (thw & Nw' & Pc & Lf & Pgw). exists thw. rewrite Et, nth_error_upd_neq by lia. auto.
      + (* the first wake: at least one waiter of group 0 is woken *)
        rewrite Wk in Ewk.
        assert (NE : waiters s O <> []).
        { destruct (Pw O n_pos) as (th0 & N0 & P0 & _).
          assert (I0 : In O (waiters s O)).
          { apply in_waiters. exists th0. split; [exact N0|]. unfold blocked_on. rewrite P0, Hcf. unfold grp.
            rewrite Nat.div_0_l by lia. reflexivity. }
          intros Z. rewrite Z in I0. exact I0. }
        destruct (wake_pick_nonempty k (waiters s O) ch NE) as (v & Vin & Vw). rewrite <- Ewk in Vin.
        apply in_waiters in Vw. destruct Vw as (thv & Nv & Bv).
        assert (Vn : (v < c_n c)%nat).
        { assert (v < S (c_n c))%nat by (rewrite <- Len; apply nth_error_Some; congruence).
          destruct (Nat.eq_dec v (c_n c)) as [->|]; [|lia]. exfalso. rewrite N in Nv. injection Nv as <-.
          unfold blocked_on in Bv. unfold Apc in HA. destruct (tpc th); try discriminate; contradiction. }
        split; [congruence|]. split; [exact Len'|].
        rewrite Ep, Pp. split; [exact FT|]. split; [exact RE|]. split; [exact SZ|].
        exists (o_th o). split; [exact Nt'|]. right.
        split; [exact PB|]. split; [exact Pg|]. split; [intros Hf; congruence|].
        split.
        * intros i Hi. destruct (Pw i Hi) as (thw & Nw' & Pc & Lf & Pgw).
          destruct (others_thread s woken (c_n c) (o_th o) i ltac:(lia) thw Nw') as (x & Hx & [->| ->] & _);
            exists x || idtac.
          -- exists thw. split; [rewrite Et; exact Hx|]. apply Jw_pristine; auto.
          -- exists (wake_thread thw). split; [rewrite Et; exact Hx|]. apply Jw_wake. apply Jw_pristine; auto.
        * destruct (others_thread s woken (c_n c) (o_th o) v ltac:(lia) thv Nv) as (x & Hx & _ & Hin).
          exists v, x. split; [exact Vn|]. split; [rewrite Et; exact Hx|]. rewrite (Hin Vin).
          unfold blocked_on in Bv. destruct (tpc thv) eqn:Pv; try discriminate.
          unfold pristine, wake_thread. rewrite Pv. cbn. intros [[j Hj] _]. discriminate.
    - (* phase B *)
      destruct (Nat.eq_dec t (c_n c)) as [->|D].
      + (* the producer *)
        rewrite N in Np. injection Np as <-.
        destruct (producerB_step th _ _ _ o PB Pg T) as (PB' & Pg' & Pp).
        split; [congruence|]. split; [exact Len'|]. rewrite Ep, Pp.
        split; [exact FT|]. split; [exact RE|]. split; [exact SZ|].
        exists (o_th o). split; [exact Nt'|]. right.
        split; [exact PB'|]. split; [exact Pg'|]. split; [exact HH|].
        split.
        * intros i Hi. destruct (Wk i Hi) as (thw & Nw' & Jwi).
          destruct (others_thread s woken (c_n c) (o_th o) i ltac:(lia) thw Nw') as (x & Hx & [->| ->] & _).
          -- exists thw. split; [rewrite Et; exact Hx | exact Jwi].
          -- exists (wake_thread thw). split; [rewrite Et; exact Hx | apply Jw_wake; exact Jwi].
        * destruct (others_thread s woken (c_n c) (o_th o) u ltac:(lia) thu Nu) as (x & Hx & [->| ->] & _).
          -- exists u, thu. split; [exact Hu|]. split; [rewrite Et; exact Hx | exact NPu].
          -- exists u, (wake_thread thu). split; [exact Hu|]. split; [rewrite Et; exact Hx | apply pristine_wake; exact NPu].
      + (* a worker *)
        assert (Lt1 : (t < c_n c)%nat) by lia.
        destruct (Wk t Lt1) as (thw & Nw' & Jwt). rewrite N in Nw'. injection Nw' as <-.
        destruct (worker_step7 t th _ _ _ o Jwt FT RE SZ HH T) as (Jw' & Rf & Rr & Rs & HH' & Cr & Cle & NP' & Wn).
        rewrite Wn in Ewk. subst woken. rewrite wake_tids_nil in Et.
        split; [congruence|]. split; [exact Len'|].
        split; [unfold flags_true; rewrite Ep, Rf; exact FT|]. split; [unfold rings_empty; rewrite Ep, Rr; exact RE|].
        split; [unfold steals_zero; rewrite Ep, Rs; exact SZ|].
        exists thp. split; [rewrite Et, nth_error_upd_neq by lia; exact Np|]. right. rewrite Ep.
        split; [exact PB|]. split; [exact Pg|]. split; [exact HH'|].
        split.
        * intros i Hi. destruct (Nat.eq_dec i t) as [->|Di].
          -- exists (o_th o). split; [exact Nt' | exact Jw'].
          -- destruct (Wk i Hi) as (thi & Ni & Jwi). exists thi. split; [rewrite Et, nth_error_upd_neq by lia; exact Ni|].
             eapply Jw_cen; [exact Jwi | exact Cr].
        * destruct (Nat.eq_dec u t) as [->|Du].
          -- exists t, (o_th o). split; [exact Lt1|]. split; [exact Nt' | exact NP'].
          -- exists u, thu. split; [exact Hu|]. split; [rewrite Et, nth_error_upd_neq by lia; exact Nu | exact NPu].
  Qed.

  (* ---------- initial state: the clean, fully parked pool and one central-queue submission ---------- *)
  Definition central_path (o : op) : bool :=
    match o with OSchedule => true | OBulk k => (0 <? k)%nat | _ => false end.

  Lemma nth_repeat_same {A} (x : A) k m : nth k (repeat x m) x = x.
  Proof. revert k; induction m as [|m IH]; intros [|k]; cbn; auto. Qed.

  Lemma nth_repeat_lt {A} (x d : A) k m : (k < m)%nat -> nth k (repeat x m) d = x.
  Proof. revert k; induction m as [|m IH]; intros [|k] H; cbn; auto; try lia. apply IH; lia. Qed.

  Lemma nth_error_parked_worker e producers i :
    (i < c_n c)%nat -> nth_error (threads (parked c e producers)) i = Some (parked_worker e i).
  Proof.
    intros H. unfold parked; cbn. rewrite nth_error_app1 by (rewrite map_length, seq_length; exact H).
    rewrite nth_error_map. rewrite (List.nth_error_nth' (seq 0 (c_n c)) O) by (rewrite seq_length; exact H).
    rewrite seq_nth by exact H. reflexivity.
  Qed.

  Lemma init_inv7 e o : central_path o = true -> Inv7 (parked c e [[o]]).
  Proof.
    intros CP.
    split; [reflexivity|]. split; [unfold parked; cbn; rewrite app_length, map_length, seq_length; cbn; lia|].
    split; [intros i; unfold parked; cbn; apply nth_repeat_same|].
    split; [intros i; unfold parked; cbn; apply nth_repeat_same|].
    split; [intros i; unfold parked; cbn; apply nth_repeat_same|].
    exists (mk_thread PStart [o]). split.
    { unfold parked; cbn. rewrite nth_error_app2 by (rewrite map_length, seq_length; lia).
      rewrite map_length, seq_length, Nat.sub_diag. reflexivity. }
    left. split.
    { unfold Apc; cbn. split; [|split; [reflexivity|]].
      - destruct o; try discriminate; [left; reflexivity|]. right. exists c0. split; [apply Nat.ltb_lt; exact CP | reflexivity].
      - intros i Hi. apply nth_repeat_lt. exact Hi. }
    split; [reflexivity|]. split; [reflexivity|]. split; [reflexivity|].
    split; [unfold parked; cbn; apply repeat_length|].
    intros i Hi. exists (parked_worker e i). split; [apply nth_error_parked_worker; exact Hi|]. cbn. auto.
  Qed.

  Theorem central_invariant e o s : central_path o = true -> reach step (parked c e [[o]]) s -> Inv7 s.
  Proof.
    intros CP R. apply (reach_inv step Inv7 (parked c e [[o]])); [apply init_inv7; exact CP | | exact R].
    intros s1 t ch s1' ch' site I E. eapply step_inv7; eauto.
  Qed.

  Lemma not_in_tids_where f l u th : tids_where f l O = [] -> nth_error l u = Some th -> f th = false.
  Proof.
    intros E N. destruct (f th) eqn:F; auto. exfalso.
    assert (In u (tids_where f l O)) by (apply in_tids_where; split; [lia|]; rewrite Nat.sub_0_r; eauto).
    rewrite E in H. exact H.
  Qed.

  Lemma forallb_nth {A} (f : A -> bool) (l : list A) d : (forall i, f (nth i l d) = true) -> forallb f l = true.
  Proof.
    intros H. apply forallb_forall. intros x Hx. destruct (In_nth l x d Hx) as (i & _ & <-). apply H.
  Qed.

  (* no quiescent state with pending work: schedule() and scheduleBulkEnqueue(count) into the clean fully parked pool *)
  Theorem no_quiescent_with_pending_central e o s :
    central_path o = true -> reach step (parked c e [[o]]) s -> quiescent s = true -> tiers_empty s = true.
  Proof.
    intros CP R Q.
    destruct (central_invariant e o s CP R) as (Hcf & Len & FT & RE & SZ & thp & Np & Ph).
    unfold quiescent in Q. destruct (cands s) eqn:Cs; [|discriminate]. unfold cands in Cs. rewrite Hcf, no_tmo, app_nil_r in Cs.
    assert (NR : forall u th, nth_error (threads s) u = Some th -> runnable_in (pl s) th = false)
      by (intros u th N; eapply not_in_tids_where; eauto).
    assert (Cen : central (pl s) = O).
    { destruct Ph as [(HA & _)|(PB & Pg & HH & Wk & (u & thu & Hu & Nu & NPu))].
      - exfalso. specialize (NR _ _ Np). unfold Apc in HA. unfold runnable_in in NR. destruct (tpc thp); try discriminate; contradiction.
      - destruct (Wk u Hu) as (thu' & Nu' & (W & _ & Pp & _)). rewrite Nu in Nu'. injection Nu' as <-.
        specialize (NR _ _ Nu). unfold runnable_in in NR.
        destruct (tpc thu) eqn:P; try discriminate; cbn in W; try contradiction.
        apply Pp. unfold postpoll. rewrite P.
        destruct (lfail thu) eqn:Lf; [|lia]. exfalso. apply NPu. split; [|exact Lf]. destruct w; try contradiction. eauto. }
    unfold tiers_empty. rewrite Cen. cbn. rewrite andb_true_r. apply andb_true_iff. split.
    - apply forallb_nth with (d := []). intros i. rewrite RE. reflexivity.
    - apply forallb_nth with (d := O). intros i. rewrite SZ. reflexivity.
  Qed.
End C07.

(* ---------- refutations (evaluated by the VM; the witness states are generalised before any further reasoning) ---------- *)
Lemma run_from_reach fuel s0 sched : reach step s0 (fst (fst (run step cands finished fuel s0 sched []))).
Proof. apply run_reach. apply reach_refl. Qed.

(* (1) ring fast path: 8 threads, 2 tasks, the futex wake picks waiters 5 and 6 *)
Definition ring_cfg : cfg := CFG 8 8 4 true 1 false.
Definition ring_sched : list Z := repeat 0 9 ++ [5; 5] ++ repeat 0 100.
Notation ring_state := (fst (fst (run step cands finished 200 (parked ring_cfg 0 [[ORings 2]]) ring_sched []))) (only parsing).

Lemma ring_props :
  quiescent ring_state = true /\ tiers_empty ring_state = false /\
  map (fun r => length r) (rings (pl ring_state)) = [1; 1; 0; 0; 0; 0; 0; 0]%nat /\
  map tpc (threads ring_state) =
    [PBlocked 0 WLoop; PBlocked 1 WLoop; PBlocked 2 WLoop; PBlocked 3 WLoop; PBlocked 4 WLoop; PBlocked 5 WLoop; PBlocked 6 WLoop;
     PBlocked 7 WLoop; PDone].
Proof. vm_compute. repeat split; reflexivity. Qed.

Lemma refuted_ring :
  exists s, reach step (parked ring_cfg 0 [[ORings 2]]) s /\ quiescent s = true /\ tiers_empty s = false /\
            map (fun r => length r) (rings (pl s)) = [1; 1; 0; 0; 0; 0; 0; 0]%nat.
Proof.
  destruct ring_props as (Q & T & Rg & _).
  exists ring_state. split; [apply run_from_reach|].
  revert Q T Rg. generalize ring_state as s. intros s Q T Rg. auto.
Qed.

(* (2) claimed bit <> woken waiter: after one schedule() the 2-thread pool is idle and fully parked again but worker 0 sleeps with
   its bit clear; a ring dispatch that covers the whole group then wakes only one of the two *)
Definition hidden_cfg : cfg := CFG 2 8 4 true 1 false.
Definition hidden_sched : list Z := repeat 0 12 ++ [1] ++ repeat 0 200.
Notation hidden_mid := (fst (fst (run step cands finished 39 (parked hidden_cfg 0 [[OSchedule; ORings 2]]) hidden_sched []))) (only parsing).
Notation hidden_end := (fst (fst (run step cands finished 200 hidden_mid (repeat 0 200) []))) (only parsing).

Lemma hidden_props :
  map tpc (threads hidden_mid) = [PBlocked 0 WLoop; PBlocked 1 WLoop; PRiAdd 2] /\ tiers_empty hidden_mid = true /\
  bits (wks hidden_mid) = [false; true] /\ total (wks hidden_mid) = 2 /\
  quiescent hidden_end = true /\ tiers_empty hidden_end = false /\
  map tpc (threads hidden_end) = [PBlocked 0 WLoop; PBlocked 1 WLoop; PDone].
Proof. vm_compute. repeat split; reflexivity. Qed.

Lemma refuted_hidden :
  exists s_mid s_end,
    reach step (parked hidden_cfg 0 [[OSchedule; ORings 2]]) s_mid /\
    map tpc (threads s_mid) = [PBlocked 0 WLoop; PBlocked 1 WLoop; PRiAdd 2] /\ tiers_empty s_mid = true /\   (* idle, fully parked, about to submit *)
    reach step s_mid s_end /\ quiescent s_end = true /\ tiers_empty s_end = false.
Proof.
  destruct hidden_props as (M1 & M2 & _ & _ & E1 & E2 & _).
  exists hidden_mid, hidden_end.
  split; [apply run_from_reach|].
  pose proof (run_from_reach 200 hidden_mid (repeat 0 200)) as R2.
  revert M1 M2 E1 E2 R2. generalize hidden_end as s_end. generalize hidden_mid as s_mid. intros s_mid s_end M1 M2 E1 E2 R2. auto.
Qed.

(* (3) placed path: claimAndWakeOne first, push afterwards; the woken worker parks again before the push *)
Notation placed_state := (fst (fst (run step cands finished 200 (parked ring_cfg 0 [[OPlaced]]) (repeat 0 200) []))) (only parsing).

Lemma placed_props :
  quiescent placed_state = true /\ tiers_empty placed_state = false /\ steals (pl placed_state) = [1%nat].
Proof. vm_compute. repeat split; reflexivity. Qed.

Lemma refuted_placed :
  exists s, reach step (parked ring_cfg 0 [[OPlaced]]) s /\ quiescent s = true /\ tiers_empty s = false /\ steals (pl s) = [1%nat].
Proof.
  destruct placed_props as (Q & T & S).
  exists placed_state. split; [apply run_from_reach|].
  revert Q T S. generalize placed_state as s. intros s Q T S. auto.
Qed.
