(* C13: the granularity contract of parallel_for -- at most one invocation has a size that is not a multiple of g, and
   it ends at the range end. *)
From Coq Require Import ZArith List Bool Lia Zdiv Permutation.
From DV Require Import Base.MachInt Model.ChunkModel Proofs.ChunkProofs Proofs.StaticBoundsProofs Gen.GenChunk GenTie.ChunkGenTie
  Model.ParForModel Proofs.C17Proofs Model.DynLeafModel GenTie.DynGenTie Proofs.DynLeafProofs Model.DynModel Proofs.DynListProofs
  Proofs.DynDecideProofs Proofs.DynProofs Model.StripeModel Proofs.StripeProofs Base.Corr Model.C12Check Proofs.C12Proofs Model.C13Check.
Import ListNotations.
Local Open Scope Z_scope.
Ltac Zify.zify_post_hook ::= idtac.

(* ---------- the contract is a property of the multiset of invocations ---------- *)
Lemma gran_okb_perm g e l l' : Permutation l l' -> gran_okb g e l = gran_okb g e l'.
Proof.
  intros P. unfold gran_okb.
  assert (PF : Permutation (filter (nonmult g) l) (filter (nonmult g) l')).
  { clear - P. induction P; cbn [filter].
    - constructor.
    - destruct (nonmult g x); [constructor|]; exact IHP.
    - destruct (nonmult g x), (nonmult g y); try constructor; try apply Permutation_refl.
    - eapply Permutation_trans; eassumption. }
  destruct (filter (nonmult g) l) as [|a [|b r]] eqn:E1.
  - apply Permutation_nil in PF. rewrite PF. reflexivity.
  - apply Permutation_length_1_inv in PF. rewrite PF. reflexivity.
  - pose proof (Permutation_length PF) as L. destruct (filter (nonmult g) l') as [|a' [|b' r']]; cbn [length] in L; try lia; try reflexivity.
Qed.

(* all invocations of l are multiples of g; t is nothing or one invocation that ends at e *)
Lemma gran_ok_app g e l t x : (forall ab, In ab l -> Z.rem (snd ab - fst ab) g = 0) -> t = [] \/ t = [(x, e)] ->
  gran_okb g e (l ++ t) = true.
Proof.
  intros Hl Ht. unfold gran_okb. rewrite filter_app.
  assert (E : filter (nonmult g) l = []).
  { induction l as [|ab r IH]; [reflexivity|]. cbn [filter]. unfold nonmult at 1.
    rewrite (Hl ab) by (left; reflexivity). cbn [Z.eqb negb]. apply IH. intros y Hy. apply Hl. right. exact Hy. }
  rewrite E. cbn [app]. destruct Ht as [->| ->]; [reflexivity|]. cbn [filter].
  destruct (nonmult g (x, e)); [cbn [snd]; apply Z.eqb_refl | reflexivity].
Qed.

Lemma rem_of_divide a g : 1 <= g -> (g | a) -> Z.rem a g = 0.
Proof. intros Hg [q ->]. apply Z.rem_mul. lia. Qed.

Lemma pf_tail_cases c : pf_tail c = [] \/ pf_tail c = [(d_trimmedEnd (pf_decide c), pf_e c)].
Proof. unfold pf_tail. destruct (d_hasTail (pf_decide c)); [right | left]; reflexivity. Qed.

(* ---------------------------------------------------------------- static / serial / empty *)
Lemma C13_static_proof c : pf_dom c ->
  pf_mode c = MEmpty \/ pf_mode c = MSerial \/ pf_mode c = MStatic ->
  exists l, static_calls c = Some l /\ gran_okb (c13_gran c) (pf_e c) l = true.
Proof.
  intros D M. pose proof D as (Hkn & Hs & He & Hub & HN & HmT & Hmi & Hgr & Hfit & Hch).
  destruct (dom_kind c D) as [Hwf Hw64].
  unfold pf_mode in M. unfold static_calls, c13_gran.
  destruct (decide_inv c D) as [[E0 Pth]|[[E0 Pth]|[F Pth]]].
  - rewrite Pth. exists []. split; reflexivity.
  - rewrite Pth. exists [(pf_s c, pf_e c)]. split; [reflexivity|].
    apply (gran_ok_app _ _ [] _ (pf_s c)); [intros ab []|right; reflexivity].
  - destruct F as [Flt Fg Fg1 Fe Fdiv Ftt Ftf Frem FN Fmt Fmi Fadj]. destruct Pth as [Pth|[[Pth _]|[Pth _]]]; rewrite Pth in *.
    2:{ destruct (pf_wait c); destruct M as [M|[M|M]]; discriminate. }
    2:{ destruct M as [M|[M|M]]; discriminate. }
    set (d := pf_decide c) in *. set (n := static_numThreads (pf_kn c) (pf_s c) (d_trimmedEnd d) (pf_N c) (d_maxThreads d) (d_g d)).
    pose proof (static_numThreads_range (pf_kn c) (pf_s c) (d_trimmedEnd d) (pf_N c) (d_maxThreads d) (d_g d) Hkn ltac:(lia) ltac:(lia) FN Fmt Fg1) as Nr.
    fold n in Nr.
    pose proof (C17_boundaries_partition_proof (pf_kn c) (pf_s c) (d_trimmedEnd d) n (d_g d) Hkn) as C17.
    cbv zeta in C17. rewrite (kind_of_nth _ Hkn) in C17.
    destruct C17 as [_ C17]; try assumption; try lia.
    { apply (in_kind_mid _ (pf_s c) _ (pf_e c)); [assumption|assumption|lia]. }
    { intros Sg W32. specialize (Hub Sg W32). lia. }
    eexists. split; [reflexivity|].
    apply (gran_ok_app _ _ _ _ (d_trimmedEnd d)).
    + intros ab Hin. destruct (In_nth _ _ (0, 0) Hin) as (i & Hi & E).
      assert (L : length (gen_static_bounds (pf_kn c) (pf_s c) (d_trimmedEnd d) n (d_g d)) = Z.to_nat n).
      { unfold gen_static_bounds. destruct (static_mapper_cfg _ _ _ _) as [[cs sc] ti]. rewrite map_length, seq_length. reflexivity. }
      rewrite L in Hi. specialize (C17 i Hi). rewrite E in C17. destruct ab as [a b]. cbn [fst snd]. rewrite C17.
      pose proof (C17_sizes_shape_proof (d_trimmedEnd d - pf_s c) n (d_g d) (Z.of_nat i) (Z.of_nat i) ltac:(lia) ltac:(lia) Fg1 Fdiv ltac:(lia) ltac:(lia))
        as (_ & _ & Dv).
      apply rem_of_divide; [exact Fg1|]. unfold unit_of in Dv.
      destruct (1 <? d_g d) eqn:G; [exact Dv|]. apply Z.ltb_ge in G. replace (d_g d) with 1 by lia. apply Z.divide_1_l.
    + destruct (d_hasTail d); [right | left]; reflexivity.
Qed.

(* ---------------------------------------------------------------- dynamic *)
Lemma min_mult g a b : (g | a) -> (g | b) -> (g | Z.min a b).
Proof. intros Ha Hb. destruct (Z.min_spec a b) as [[_ ->]|[_ ->]]; assumption. Qed.

Lemma rem_1 a : Z.rem a 1 = 0.
Proof. apply Z.rem_1_r. Qed.

Lemma C13_dynamic_proof c l3 sched : pf_dom c -> pf_mode c = MDynamic ->
  exists dc, pf_dyncfg c l3 = Some dc /\
    (dyn_complete dc sched = true -> gran_okb (c13_gran c) (pf_e c) (dyn_calls dc sched) = true).
Proof.
  intros D M. pose proof D as (Hkn & Hs & He & Hub & HN & HmT & Hmi & Hgr & Hfit & Hch).
  destruct (dom_kind c D) as [Hwf Hw64].
  destruct (C12_dynamic_facts c l3 D M) as (F & cs & eg & E & Cs & Fit & Dv & W1 & W2).
  destruct (C12_dynamic_proof c l3 D M) as (_ & dc' & E' & Pm & _).
  rewrite E in E'. inversion E'; subst dc'; clear E'.
  destruct F as [Flt Fg Fg1 Fe Fdiv Ftt Ftf Frem FN Fmt Fmi Fadj].
  eexists. split; [exact E|]. intros Hc. rewrite (gran_okb_perm _ _ _ _ (Pm sched Hc)).
  unfold dyn_canon, c13_gran. cbn [dc_tail dc_nc].
  set (dc := DC _ _ _ _ _ _ _ _ _).
  apply (gran_ok_app _ _ _ _ (d_trimmedEnd (pf_decide c))); [|apply pf_tail_cases].
  intros ab Hin. apply in_map_iff in Hin. destruct Hin as (i & <- & Hi). apply in_seq in Hi.
  assert (InE : in_kind (kind_of (pf_kn c)) (d_trimmedEnd (pf_decide c))) by (apply (in_kind_mid _ (pf_s c) _ (pf_e c)); [assumption|assumption|lia]).
  assert (NC : 0 <= (d_trimmedEnd (pf_decide c) - pf_s c + cs - 1) / cs) by (apply Z.div_pos; lia).
  rewrite (dyn_chunk_exact dc Hwf Hw64 Hs InE ltac:(cbn; lia) Cs Fit eq_refl (Z.of_nat i)) by (cbn [dc dc_nc]; lia).
  cbn [fst snd]. apply rem_of_divide; [exact Fg1|].
  replace (dc_s dc + doff dc (Z.of_nat i + 1) - (dc_s dc + doff dc (Z.of_nat i))) with (doff dc (Z.of_nat i + 1) - doff dc (Z.of_nat i)) by lia.
  apply Z.divide_sub_r; unfold doff; cbn [dc dc_cs dc_e dc_s]; apply min_mult; try exact Fdiv; apply Z.divide_mul_r; exact Dv.
Qed.

(* ---------------------------------------------------------------- adaptive *)
(* every stripe boundary is start + a multiple of g (initStripeState aligns the offset from start) *)
Lemma stripe_end_mult k s e P g i cursor : wf_kind k -> ik_w k <= 64 -> in_kind k s -> in_kind k e -> s < e ->
  1 <= g -> (g | e - s) -> (g | cursor - s) -> 0 <= i -> i + 1 <= P -> P < 2 ^ 32 -> e - s < 2 ^ 63 ->
  (g | stripe_end k s e P g i cursor - s).
Proof.
  intros Hwf Hw64 Hs He Hse Hg De Dc Hi HiP HP Hfit. unfold stripe_end.
  destruct (i + 1 =? P); [exact De|].
  pose proof (kmax_lt_p64 k Hwf Hw64) as (K1 & K2 & K3 & K4).
  assert (U : ik_signed k = false -> 0 <= s) by (intros U; unfold in_kind, kmin in Hs; rewrite U in Hs; lia).
  assert (Ek : e <= kmax k) by (unfold in_kind in He; lia).
  rewrite (W_in k (e - s)) by (intros; pose proof p63_lt_p64; lia).
  rewrite (wrap_small 32 (i + 1)) by lia.
  rewrite quot_div_nonneg by lia.
  assert (PER : 0 <= (i + 1) * ((e - s) / P) <= e - s).
  { assert (0 <= (e - s) / P) by (apply Z.div_pos; lia).
    pose proof (Z.mul_div_le (e - s) P ltac:(lia)). split; [nia|].
    assert ((i + 1) * ((e - s) / P) <= P * ((e - s) / P)) by (apply Z.mul_le_mono_nonneg_r; lia). lia. }
  rewrite (W_in k ((i + 1) * ((e - s) / P))) by (intros; pose proof p63_lt_p64; lia).
  set (off := (i + 1) * ((e - s) / P)) in *.
  replace (Z.max 1 g) with g by lia.
  rewrite rem_mod_nonneg by lia.
  pose proof (Z.mod_pos_bound off g ltac:(lia)) as MB. pose proof (Z.div_mod off g ltac:(lia)) as DM.
  assert (MLE : off mod g <= off) by (apply Z.mod_le; lia).
  rewrite (W_in k (off - off mod g)) by (intros; pose proof p63_lt_p64; lia).
  rewrite (W_in k (s + (off - off mod g))) by (intros Sg; specialize (U Sg); lia).
  rewrite castk_id by (try assumption; unfold in_kind in *; lia).
  set (se := s + (off - off mod g)).
  assert (Dse : (g | se - s)) by (exists (off / g); subst se; lia).
  destruct (se <=? cursor); [destruct (e <=? cursor) | destruct (e <=? se)]; assumption.
Qed.

Lemma stripe_bounds_mult k s e P g : wf_kind k -> ik_w k <= 64 -> in_kind k s -> in_kind k e -> s < e ->
  1 <= g -> (g | e - s) -> P < 2 ^ 32 -> e - s < 2 ^ 63 ->
  forall n i cursor, (g | cursor - s) -> 0 <= i -> i + Z.of_nat n <= P ->
  forall b e0, In (b, e0) (stripe_bounds_from k s e P g n i cursor) -> (g | b - s) /\ (g | e0 - s).
Proof.
  intros Hwf Hw64 Hs He Hse Hg De HP Hfit. induction n as [|n IH]; intros i cursor Dc Hi HiP b e0 Hin; [destruct Hin|].
  cbn [stripe_bounds_from] in Hin.
  pose proof (stripe_end_mult k s e P g i cursor Hwf Hw64 Hs He Hse Hg De Dc Hi ltac:(lia) HP Hfit) as Dse.
  destruct Hin as [Hin|Hin].
  - inversion Hin; subst. split; assumption.
  - apply (IH (i + 1) (stripe_end k s e P g i cursor) Dse ltac:(lia) ltac:(lia) b e0 Hin).
Qed.

Lemma C13_adaptive_proof c sched : pf_dom c -> pf_mode c = MAdaptive -> 
  exists sc, pf_scfg c = Some sc /\
    (stripe_complete sc sched = true -> stripe_nowrap sc sched = true ->
     gran_okb (c13_gran c) (pf_e c) (stripe_calls sc sched) = true).
Proof.
  intros D M. pose proof D as (Hkn & Hs & He & Hub & HN & HmT & Hmi & Hgr & Hfit & Hch).
  destruct (dom_kind c D) as [Hwf Hw64].
  destruct (C12_adaptive_facts c D M) as (F & Wt & C0 & cs & SCE & Cs & Dv & NL).
  destruct (C12_adaptive_proof c D M) as (_ & sc' & E' & Pm & _).
  rewrite SCE in E'. inversion E'; subst sc'; clear E'.
  destruct F as [Flt Fg Fg1 Fe Fdiv Ftt Ftf Frem FN Fmt Fmi Fadj].
  eexists. split; [exact SCE|]. intros Hc Hn. rewrite (gran_okb_perm _ _ _ _ (Pm sched Hc Hn)).
  unfold stripe_canon, c13_gran. cbn [sc_tail]. set (sc := SC _ _ _ _ _ _ _).
  set (g := d_g (pf_decide c)) in *. set (e' := d_trimmedEnd (pf_decide c)) in *.
  apply (gran_ok_app _ _ _ _ e'); [|apply pf_tail_cases].
  assert (ST : sc_step sc = cs) by reflexivity.
  rewrite ST.
  intros ab Hin. apply in_flat_map in Hin. destruct Hin as ([b e0] & Hb & Hin).
  unfold stripe_chunks in Hin. apply in_map_iff in Hin. destruct Hin as (i & <- & _). cbn [fst snd].
  apply rem_of_divide; [lia|].
  assert (InE : in_kind (kind_of (pf_kn c)) e') by (apply (in_kind_mid _ (pf_s c) _ (pf_e c)); [assumption|assumption|lia]).
  assert (P31 : 2 ^ 31 < 2 ^ 32) by (apply Z.pow_lt_mono_r; lia).
  destruct (stripe_bounds_mult (kind_of (pf_kn c)) (pf_s c) e' (Z.of_nat (Z.to_nat (pf_numToLaunch c + 1))) g
              Hwf Hw64 Hs InE ltac:(lia) Fg1 Fdiv ltac:(lia) ltac:(lia)
              (Z.to_nat (pf_numToLaunch c + 1)) 0 (pf_s c) ltac:(exists 0; lia) ltac:(lia) ltac:(lia) b e0 Hb) as [Db De0].
  replace (Z.min (b + (Z.of_nat i + 1) * cs) e0 - (b + Z.of_nat i * cs))
    with (Z.min ((b - pf_s c) + (Z.of_nat i + 1) * cs) (e0 - pf_s c) - (b - pf_s c) - Z.of_nat i * cs) by lia.
  apply Z.divide_sub_r; [apply Z.divide_sub_r; [apply min_mult; [apply Z.divide_add_r; [exact Db | apply Z.divide_mul_r; exact Dv] | exact De0] | exact Db]
                        | apply Z.divide_mul_r; exact Dv].
Qed.

(* ---------------------------------------------------------------- all modes *)
Lemma C13_holds_proof c x : pf_dom c -> pf_complete c x = true ->
  c12_nowrap c x = true ->
  exists l, pf_calls c x = Some l /\ gran_okb (c13_gran c) (pf_e c) l = true.
Proof.
  intros D Hc Nw. unfold pf_calls, pf_complete, c12_nowrap in *.
  destruct (pf_mode c) eqn:M.
  - apply (C13_static_proof c D). unfold pf_mode in *. left. exact M.
  - apply (C13_static_proof c D). right; left. exact M.
  - apply (C13_static_proof c D). right; right. exact M.
  - destruct (C13_adaptive_proof c (ex_stripe x) D M) as (sc & E & A). rewrite E in *.
    eexists. split; [reflexivity | apply A; assumption].
  - destruct (C13_dynamic_proof c (ex_l3 x) (ex_dyn x) D M) as (dc & E & A). rewrite E in *.
    eexists. split; [reflexivity | apply A; assumption].
Qed.

(* the former witness of the finding adaptive-absolute-alignment (int32 [3,1003), g = 8, adaptive, 5 workers) *)
Definition c13_witness : pfcfg := PF 4 3 1003 0 4 2147483647 1 8 true.
Definition c13_witness_exec : exec := EX 0 [] (own_then_poll 5 40).
