(* C13: the granularity contract of parallel_for -- at most one invocation has a size that is not a multiple of g, and
   it ends at the range end. *)
From Coq Require Import ZArith List Bool Lia Zdiv Permutation.
From DV Require Import Base.MachInt Model.ChunkModel Proofs.ChunkProofs Proofs.StaticBoundsProofs Gen.GenChunk GenTie.ChunkGenTie
  Model.ParForModel Proofs.C17Proofs Model.DynLeafModel GenTie.DynGenTie Proofs.DynLeafProofs Model.DynModel Proofs.DynListProofs
  Proofs.DynDecideProofs Proofs.DynProofs Model.StripeModel Proofs.StripeProofs Base.Corr Model.C12Check Proofs.C12Proofs Model.C13Check.
Import ListNotations.
Local Open Scope Z_scope.
Ltac Zify.zify_post_hook ::= idtac.

(* ---------- the contract is a property of the multiset of invocations ---------- *)
Lemma gran_okb_perm g e l l' : Permutation l l' -> gran_okb g e l = gran_okb g e l'.
Proof.
  intros P. unfold gran_okb.
  assert (PF : Permutation (filter (nonmult g) l) (filter (nonmult g) l')).
  { clear - P. induction P; cbn [filter].
    - constructor.
    - destruct (nonmult g x); [constructor|]; exact IHP.
    - destruct (nonmult g x), (nonmult g y); try constructor; try apply Permutation_refl.
    - eapply Permutation_trans; eassumption. }
  destruct (filter (nonmult g) l) as [|a [|b r]] eqn:E1.
  - apply Permutation_nil in PF. rewrite PF. reflexivity.
  - apply Permutation_length_1_inv in PF. rewrite PF. reflexivity.
  - pose proof (Permutation_length PF) as L. destruct (filter (nonmult g) l') as [|a' [|b' r']]; cbn [length] in L; try lia; try reflexivity.
Qed.

(* all invocations of l are multiples of g; t is nothing or one invocation that ends at e *)
Lemma gran_ok_app g e l t x : (forall ab, In ab l -> Z.rem (snd ab - fst ab) g = 0) -> t = [] \/ t = [(x, e)] ->
  gran_okb g e (l ++ t) = true.
Proof.
  intros Hl Ht. unfold gran_okb. rewrite filter_app.
  assert (E : filter (nonmult g) l = []).
  { induction l as [|ab r IH]; [reflexivity|]. cbn [filter]. unfold nonmult at 1.
    rewrite (Hl ab) by (left; reflexivity). cbn [Z.eqb negb]. apply IH. intros y Hy. apply Hl. right. exact Hy. }
  rewrite E. cbn [app]. destruct Ht as [->| ->]; [reflexivity|]. cbn [filter].
  destruct (nonmult g (x, e)); [cbn [snd]; apply Z.eqb_refl | reflexivity].
Qed.

Lemma rem_of_divide a g : 1 <= g -> (g | a) -> Z.rem a g = 0.
Proof. intros Hg [q ->]. apply Z.rem_mul. lia. Qed.

Lemma pf_tail_cases c : pf_tail c = [] \/ pf_tail c = [(d_trimmedEnd (pf_decide c), pf_e c)].
Proof. unfold pf_tail. destruct (d_hasTail (pf_decide c)); [right | left]; reflexivity. Qed.

(* ---------------------------------------------------------------- static / serial / empty *)
Lemma C13_static_proof c : pf_dom c ->
  pf_mode c = MEmpty \/ pf_mode c = MSerial \/ pf_mode c = MStatic ->
  exists l, static_calls c = Some l /\ gran_okb (c13_gran c) (pf_e c) l = true.
Proof.
  intros D M. pose proof D as ((Hkn & Hs & He & Hub & HN & HmT & Hmi & Hgr & Hfit & Hch) & Hovf).
  destruct (dom_kind c D) as [Hwf Hw64].
  unfold pf_mode in M. unfold static_calls, c13_gran.
  destruct (decide_inv c D) as [[E0 Pth]|[[E0 Pth]|[F Pth]]].
  - rewrite Pth. exists []. split; reflexivity.
  - rewrite Pth. exists [(pf_s c, pf_e c)]. split; [reflexivity|].
    apply (gran_ok_app _ _ [] _ (pf_s c)); [intros ab []|right; reflexivity].
  - destruct F as [Flt Fg Fg1 Fe Fdiv Ftt Ftf Frem FN Fmt Fmi Fadj]. destruct Pth as [Pth|[[Pth _]|[Pth _]]]; rewrite Pth in *.
    2:{ destruct (pf_wait c); destruct M as [M|[M|M]]; discriminate. }
    2:{ destruct M as [M|[M|M]]; discriminate. }
    set (d := pf_decide c) in *. set (n := static_numThreads (pf_kn c) (pf_s c) (d_trimmedEnd d) (pf_N c) (d_maxThreads d) (d_g d)).
    pose proof (static_numThreads_range (pf_kn c) (pf_s c) (d_trimmedEnd d) (pf_N c) (d_maxThreads d) (d_g d) Hkn ltac:(lia) ltac:(lia) FN Fmt Fg1) as Nr.
    fold n in Nr.
    pose proof (C17_boundaries_partition_proof (pf_kn c) (pf_s c) (d_trimmedEnd d) n (d_g d) Hkn) as C17.
    cbv zeta in C17. rewrite (kind_of_nth _ Hkn) in C17.
    destruct C17 as [_ C17]; try assumption; try lia.
    { apply (in_kind_mid _ (pf_s c) _ (pf_e c)); [assumption|assumption|lia]. }
    { intros Sg W32. specialize (Hub Sg W32). lia. }
    eexists. split; [reflexivity|].
    apply (gran_ok_app _ _ _ _ (d_trimmedEnd d)).
    + intros ab Hin. destruct (In_nth _ _ (0, 0) Hin) as (i & Hi & E).
      assert (L : length (gen_static_bounds (pf_kn c) (pf_s c) (d_trimmedEnd d) n (d_g d)) = Z.to_nat n).
      { unfold gen_static_bounds. destruct (static_mapper_cfg _ _ _ _) as [[cs sc] ti]. rewrite map_length, seq_length. reflexivity. }
      rewrite L in Hi. specialize (C17 i Hi). rewrite E in C17. destruct ab as [a b]. cbn [fst snd]. rewrite C17.
      pose proof (C17_sizes_shape_proof (d_trimmedEnd d - pf_s c) n (d_g d) (Z.of_nat i) (Z.of_nat i) ltac:(lia) ltac:(lia) Fg1 Fdiv ltac:(lia) ltac:(lia))
        as (_ & _ & Dv).
      apply rem_of_divide; [exact Fg1|]. unfold unit_of in Dv.
      destruct (1 <? d_g d) eqn:G; [exact Dv|]. apply Z.ltb_ge in G. replace (d_g d) with 1 by lia. apply Z.divide_1_l.
    + destruct (d_hasTail d); [right | left]; reflexivity.
Qed.

(* ---------------------------------------------------------------- dynamic *)
Lemma min_mult g a b : (g | a) -> (g | b) -> (g | Z.min a b).
Proof. intros Ha Hb. destruct (Z.min_spec a b) as [[_ ->]|[_ ->]]; assumption. Qed.

Lemma rem_1 a : Z.rem a 1 = 0.
Proof. apply Z.rem_1_r. Qed.

Lemma C13_dynamic_proof c l3 sched : pf_dom c -> pf_mode c = MDynamic ->
  exists dc, pf_dyncfg c l3 = Some dc /\
    (dyn_complete dc sched = true -> gran_okb (c13_gran c) (pf_e c) (dyn_calls dc sched) = true).
Proof.
  intros D M. pose proof D as ((Hkn & Hs & He & Hub & HN & HmT & Hmi & Hgr & Hfit & Hch) & Hovf).
  destruct (dom_kind c D) as [Hwf Hw64].
  destruct (C12_dynamic_facts c l3 D M) as (F & cs & eg & E & Cs & Fit & Dv & W1 & W2).
  destruct (C12_dynamic_proof c l3 D M) as (_ & dc' & E' & Pm & _).
  rewrite E in E'. inversion E'; subst dc'; clear E'.
  destruct F as [Flt Fg Fg1 Fe Fdiv Ftt Ftf Frem FN Fmt Fmi Fadj].
  eexists. split; [exact E|]. intros Hc. rewrite (gran_okb_perm _ _ _ _ (Pm sched Hc)).
  unfold dyn_canon, c13_gran. cbn [dc_tail dc_nc].
  set (dc := DC _ _ _ _ _ _ _ _ _).
  apply (gran_ok_app _ _ _ _ (d_trimmedEnd (pf_decide c))); [|apply pf_tail_cases].
  intros ab Hin. apply in_map_iff in Hin. destruct Hin as (i & <- & Hi). apply in_seq in Hi.
  assert (InE : in_kind (kind_of (pf_kn c)) (d_trimmedEnd (pf_decide c))) by (apply (in_kind_mid _ (pf_s c) _ (pf_e c)); [assumption|assumption|lia]).
  assert (NC : 0 <= (d_trimmedEnd (pf_decide c) - pf_s c + cs - 1) / cs) by (apply Z.div_pos; lia).
  rewrite (dyn_chunk_exact dc Hwf Hw64 Hs InE ltac:(cbn; lia) Cs Fit eq_refl (Z.of_nat i)) by (cbn [dc dc_nc]; lia).
  cbn [fst snd]. apply rem_of_divide; [exact Fg1|].
  replace (dc_s dc + doff dc (Z.of_nat i + 1) - (dc_s dc + doff dc (Z.of_nat i))) with (doff dc (Z.of_nat i + 1) - doff dc (Z.of_nat i)) by lia.
  apply Z.divide_sub_r; unfold doff; cbn [dc dc_cs dc_e dc_s]; apply min_mult; try exact Fdiv; apply Z.divide_mul_r; exact Dv.
Qed.

(* ---------------------------------------------------------------- adaptive, start a multiple of g *)
Lemma align_exact k v g : wf_kind k -> in_kind k v -> 2 <= g <= kmax k -> kmin k <= g * (v / g) ->
  align_down k v g = g * (v / g).
Proof.
  intros Hwf Hv Hg Hlow. unfold align_down.
  replace (g <=? 1) with false by (symmetry; apply Z.leb_gt; lia).
  assert (K0 : kmin k <= 0) by (unfold kmin; destruct (ik_signed k); [pose proof (pow2_pos (ik_w k - 1) ltac:(unfold wf_kind in Hwf; lia)); lia | lia]).
  assert (CG : castk k g = g) by (apply castk_id; [assumption | unfold in_kind; lia]). rewrite CG.
  pose proof (Z.quot_rem' v g) as QR. pose proof (Z.rem_bound_pos v g) as RP. pose proof (Z.rem_bound_pos_neg v g) as RN.
  set (q := Z.quot v g) in *. set (r := Z.rem v g) in *.
  assert (Qk : in_kind k q).
  { unfold in_kind in *. destruct (Z.le_gt_cases 0 v) as [P|P].
    - specialize (RP P ltac:(lia)). assert (0 <= q) by nia. assert (q <= v) by nia. lia.
    - specialize (RN ltac:(lia) ltac:(lia)). assert (q <= 0) by nia. assert (v <= q) by nia. lia. }
  rewrite (castk_id k q) by assumption.
  pose proof (Z.div_mod v g ltac:(lia)) as DM. pose proof (Z.mod_pos_bound v g ltac:(lia)) as MB.
  assert (Vle : g * (v / g) <= v) by lia.
  assert (FIN : forall d, d = v / g -> castk k (d * g) = g * (v / g)).
  { intros d ->. rewrite Z.mul_comm. apply castk_id; [assumption | unfold in_kind in *; lia]. }
  destruct (ik_signed k && negb (q * g =? v) && (v <? 0)) eqn:C.
  - apply andb_true_iff in C. destruct C as [C C3]. apply andb_true_iff in C. destruct C as [_ C2].
    apply negb_true_iff, Z.eqb_neq in C2. apply Z.ltb_lt in C3.
    specialize (RN ltac:(lia) ltac:(lia)).
    assert (Dq : v / g = q - 1).
    { symmetry. apply (Z.div_unique v g (q - 1) (r + g)); [left; lia | lia]. }
    assert (Q1 : in_kind k (q - 1)).
    { unfold in_kind in *. rewrite <- Dq. split; [|lia]. nia. }
    rewrite (castk_id k (q - 1)) by assumption. apply FIN. lia.
  - apply FIN. apply andb_false_iff in C. destruct C as [C|C].
    + apply andb_false_iff in C. destruct C as [C|C].
      * (* unsigned: v >= 0 *)
        assert (0 <= v) by (unfold in_kind, kmin in Hv; rewrite C in Hv; lia).
        subst q. apply quot_div_nonneg; lia.
      * apply negb_false_iff, Z.eqb_eq in C. apply (Z.div_unique v g q 0); [left; lia | lia].
    + apply Z.ltb_ge in C. subst q. apply quot_div_nonneg; lia.
Qed.

(* with start a multiple of g every stripe boundary is a multiple of g *)
Lemma stripe_end_mult k s e P g i cursor : wf_kind k -> ik_w k <= 64 -> in_kind k s -> in_kind k e -> s < e ->
  2 <= g <= kmax k -> (g | s) -> (g | e) -> (g | cursor) -> 0 <= i -> i + 1 <= P -> P < 2 ^ 32 ->
  e - s < 2 ^ 63 ->
  (g | stripe_end k s e P g i cursor).
Proof.
  intros Hwf Hw64 Hs He Hse Hg Ds De Dc Hi HiP HP Hfit. unfold stripe_end.
  destruct (i + 1 =? P); [exact De|].
  pose proof (kmax_lt_p64 k Hwf Hw64) as (K1 & K2 & K3 & K4).
  assert (U : ik_signed k = false -> 0 <= s) by (intros U; unfold in_kind, kmin in Hs; rewrite U in Hs; lia).
  assert (Ek : e <= kmax k) by (unfold in_kind in He; lia).
  rewrite (W_in k (e - s)) by (intros; pose proof p63_lt_p64; lia).
  rewrite (wrap_small 32 (i + 1)) by lia.
  rewrite quot_div_nonneg by lia.
  assert (PER : 0 <= (i + 1) * ((e - s) / P) <= e - s).
  { assert (0 <= (e - s) / P) by (apply Z.div_pos; lia).
    pose proof (Z.mul_div_le (e - s) P ltac:(lia)). split; [nia|]. 
    assert ((i + 1) * ((e - s) / P) <= P * ((e - s) / P)) by (apply Z.mul_le_mono_nonneg_r; lia). lia. }
  rewrite (W_in k ((i + 1) * ((e - s) / P))) by (intros; pose proof p63_lt_p64; lia).
  rewrite (W_in k (s + (i + 1) * ((e - s) / P))) by (intros Sg; specialize (U Sg); lia).
  set (v := s + (i + 1) * ((e - s) / P)) in *.
  assert (Vk : in_kind k v) by (unfold in_kind in *; lia).
  rewrite (castk_id k v) by assumption.
  replace (Z.max 1 g) with g by lia.
  assert (LOW : kmin k <= g * (v / g)).
  { destruct Ds as [m Hm]. assert (m <= v / g) by (apply Z.div_le_lower_bound; nia). unfold in_kind in Hs. nia. }
  rewrite (align_exact k v g Hwf Vk Hg LOW).
  set (se := g * (v / g)).
  assert (Dse : (g | se)) by (exists (v / g); subst se; lia).
  destruct (se <=? cursor); [destruct (e <=? cursor) | destruct (e <=? se)]; assumption.
Qed.

Lemma stripe_bounds_mult k s e P g : wf_kind k -> ik_w k <= 64 -> in_kind k s -> in_kind k e -> s < e ->
  2 <= g <= kmax k -> (g | s) -> (g | e) -> P < 2 ^ 32 -> e - s < 2 ^ 63 ->
  forall n i cursor, (g | cursor) -> 0 <= i -> i + Z.of_nat n <= P ->
  forall b e0, In (b, e0) (stripe_bounds_from k s e P g n i cursor) -> (g | b) /\ (g | e0).
Proof.
  intros Hwf Hw64 Hs He Hse Hg Ds De HP Hfit. induction n as [|n IH]; intros i cursor Dc Hi HiP b e0 Hin; [destruct Hin|].
  cbn [stripe_bounds_from] in Hin.
  pose proof (stripe_end_mult k s e P g i cursor Hwf Hw64 Hs He Hse Hg Ds De Dc Hi ltac:(lia) HP Hfit) as Dse.
  destruct Hin as [Hin|Hin].
  - inversion Hin; subst. split; assumption.
  - apply (IH (i + 1) (stripe_end k s e P g i cursor) Dse ltac:(lia) ltac:(lia) b e0 Hin).
Qed.

Lemma C13_adaptive_proof c sched : pf_dom c -> pf_mode c = MAdaptive -> c12_narrow_domain c = false ->
  c13_misaligned_domain c = false ->
  exists sc, pf_scfg c = Some sc /\
    (stripe_complete sc sched = true -> stripe_nowrap sc sched = true ->
     gran_okb (c13_gran c) (pf_e c) (stripe_calls sc sched) = true).
Proof.
  intros D M Nar Mis. pose proof D as ((Hkn & Hs & He & Hub & HN & HmT & Hmi & Hgr & Hfit & Hch) & Hovf).
  destruct (dom_kind c D) as [Hwf Hw64].
  destruct (C12_adaptive_facts c D M Nar) as (F & Wt & C0 & cs & SCE & Cs & Dv & NarE & NL).
  destruct (C12_adaptive_proof c D M Nar) as (_ & sc' & E' & Pm & _).
  rewrite SCE in E'. inversion E'; subst sc'; clear E'.
  destruct F as [Flt Fg Fg1 Fe Fdiv Ftt Ftf Frem FN Fmt Fmi Fadj].
  eexists. split; [exact SCE|]. intros Hc Hn. rewrite (gran_okb_perm _ _ _ _ (Pm sched Hc Hn)).
  unfold stripe_canon, c13_gran. cbn [sc_tail]. set (sc := SC _ _ _ _ _ _ _).
  set (g := d_g (pf_decide c)) in *. set (e' := d_trimmedEnd (pf_decide c)) in *.
  apply (gran_ok_app _ _ _ _ e'); [|apply pf_tail_cases].
  assert (ST : sc_step sc = cs) by (unfold sc_step; cbn [sc sc_k sc_cs]; exact NarE).
  rewrite ST.
  intros ab Hin. apply in_flat_map in Hin. destruct Hin as ([b e0] & Hb & Hin).
  unfold stripe_chunks in Hin. apply in_map_iff in Hin. destruct Hin as (i & <- & _). cbn [fst snd].
  destruct (Z.le_gt_cases g 1) as [G1|G1].
  { replace g with 1 by lia. apply rem_1. }
  apply rem_of_divide; [lia|].
  (* start is a multiple of g *)
  unfold c13_misaligned_domain in Mis. rewrite M in Mis. unfold c13_gran in Mis. fold g in Mis.
  replace (1 <? g) with true in Mis by (symmetry; apply Z.ltb_lt; lia). cbn [andb] in Mis.
  apply negb_false_iff, Z.eqb_eq in Mis. apply Z.mod_divide in Mis; [|lia].
  assert (De : (g | e')) by (replace e' with ((e' - pf_s c) + pf_s c) by lia; apply Z.divide_add_r; assumption).
  assert (InE : in_kind (kind_of (pf_kn c)) e') by (apply (in_kind_mid _ (pf_s c) _ (pf_e c)); [assumption|assumption|lia]).
  assert (Gk : g <= kmax (kind_of (pf_kn c))).
  { pose proof (castk_in (kind_of (pf_kn c)) cs Hwf) as CI. rewrite NarE in CI. unfold in_kind in CI.
    destruct Dv as [m Hm]. assert (1 <= m) by nia. nia. }
  assert (P31 : 2 ^ 31 < 2 ^ 32) by (apply Z.pow_lt_mono_r; lia).
  destruct (stripe_bounds_mult (kind_of (pf_kn c)) (pf_s c) e' (Z.of_nat (Z.to_nat (pf_numToLaunch c + 1))) g
              Hwf Hw64 Hs InE ltac:(lia) ltac:(lia) Mis De ltac:(lia) ltac:(lia)
              (Z.to_nat (pf_numToLaunch c + 1)) 0 (pf_s c) Mis ltac:(lia) ltac:(lia) b e0 Hb) as [Db De0].
  replace (Z.min (b + (Z.of_nat i + 1) * cs) e0 - (b + Z.of_nat i * cs))
    with (Z.min (b + (Z.of_nat i + 1) * cs) e0 - b - Z.of_nat i * cs) by lia.
  apply Z.divide_sub_r; [apply Z.divide_sub_r; [apply min_mult; [apply Z.divide_add_r; [exact Db | apply Z.divide_mul_r; exact Dv] | exact De0] | exact Db]
                        | apply Z.divide_mul_r; exact Dv].
Qed.

(* ---------------------------------------------------------------- all modes, refutation *)
Lemma C13_holds_except_proof c x : pf_dom c -> pf_complete c x = true ->
  c12_narrow_domain c = false -> c12_nowrap c x = true -> c13_misaligned_domain c = false ->
  exists l, pf_calls c x = Some l /\ gran_okb (c13_gran c) (pf_e c) l = true.
Proof.
  intros D Hc Nar Nw Mis. unfold pf_calls, pf_complete, c12_nowrap in *.
  destruct (pf_mode c) eqn:M.
  - apply (C13_static_proof c D). unfold pf_mode in *. left. exact M.
  - apply (C13_static_proof c D). right; left. exact M.
  - apply (C13_static_proof c D). right; right. exact M.
  - destruct (C13_adaptive_proof c (ex_stripe x) D M Nar Mis) as (sc & E & A). rewrite E in *.
    eexists. split; [reflexivity | apply A; assumption].
  - destruct (C13_dynamic_proof c (ex_l3 x) (ex_dyn x) D M) as (dc & E & A). rewrite E in *.
    eexists. split; [reflexivity | apply A; assumption].
Qed.

(* the witness: int32 range [3, 1003), granularity 8, adaptive, 4-thread pool (5 workers).  Every worker drains its own
   stripe (no steals); the execution is complete and no cursor wraps; stripe 0 = [3, 200) ends with [195, 200) *)
Definition c13_witness : pfcfg := PF 4 3 1003 0 4 2147483647 1 8 true.
Definition c13_witness_exec : exec := EX 0 [] (own_then_poll 5 40).

Lemma C13_refuted_proof :
  pf_dom c13_witness /\ pf_complete c13_witness c13_witness_exec = true /\
  c12_narrow_domain c13_witness = false /\ c12_nowrap c13_witness c13_witness_exec = true /\
  c13_misaligned_domain c13_witness = true /\
  exists l, pf_calls c13_witness c13_witness_exec = Some l /\ In (195, 200) l /\ In (1000, 1003) l /\
            gran_okb (c13_gran c13_witness) (pf_e c13_witness) l = false.
Proof.
  split.
  { split; [|vm_compute; reflexivity]. unfold pf_dom_wide.
    cbn [c13_witness pf_kn pf_s pf_e pf_chunk pf_N pf_maxThreads pf_minItems pf_gran].
    split; [lia|]. unfold kind_of, in_kind; cbn [nth all_kinds I32 kmin kmax ik_signed ik_w].
    repeat split; try lia; try (intros; vm_compute; discriminate). }
  split; [vm_compute; reflexivity|]. split; [vm_compute; reflexivity|]. split; [vm_compute; reflexivity|].
  split; [vm_compute; reflexivity|].
  destruct (pf_calls c13_witness c13_witness_exec) as [l|] eqn:E; [|vm_compute in E; discriminate].
  exists l. split; [reflexivity|]. vm_compute in E. inversion E; subst l; clear E.
  split; [apply In_of_existsb; vm_compute; reflexivity|]. split; [apply In_of_existsb; vm_compute; reflexivity|].
  vm_compute. reflexivity.
Qed.
