(* Lemmas about the Plan model (Model/PlanModel.v) shared by C14 and C48. *)
From Coq Require Import ZArith List Bool Lia FinFun.
From DV Require Import Base.MachInt Model.ChunkModel Gen.GenChunk Model.ParForModel Model.PlanModel.
Import ListNotations.
Local Open Scope Z_scope.

(* ------------------------------------------------------------------ generic: chains and antichains *)

(* the thread of control a call belongs to: task j, or the calling thread (-1).  The exit action of the last
   worker is put on chain 0: it is ordered after every Task call, so it never shares an antichain with one. *)
Definition chain (a : call) : Z := match c_who a with Task j => j | LastWorker => 0 | _ => -1 end.

Definition antichain (p l : list call) : Prop :=
  NoDup l /\ incl l p /\ forall a b, In a l -> In b l -> a <> b -> seqb a b = false.

Lemma antichain_bound p ids :
  (forall a, In a p -> In (chain a) ids) ->
  (forall a b, In a p -> In b p -> a <> b -> chain a = chain b -> seqb a b = true \/ seqb b a = true) ->
  forall l, antichain p l -> (length l <= length ids)%nat.
Proof.
  intros Hids Hcmp l (Hnd & Hinc & Hanti).
  assert (Hm : NoDup (map chain l)).
  { clear Hids. induction l as [|a l IH]; simpl; [constructor|].
    inversion Hnd as [|x y Hnotin Hnd']; subst. constructor.
    - intro Hin. apply in_map_iff in Hin. destruct Hin as (b & Heq & Hb).
      assert (Hab : a <> b) by (intro; subst; contradiction).
      assert (Ha : In a p) by (apply Hinc; left; reflexivity).
      assert (Hbp : In b p) by (apply Hinc; right; assumption).
      destruct (Hcmp a b Ha Hbp Hab (eq_sym Heq)) as [E|E].
      + rewrite (Hanti a b) in E; [discriminate|left; reflexivity|right; assumption|assumption].
      + rewrite (Hanti b a) in E; [discriminate|right; assumption|left; reflexivity|congruence].
    - apply IH; [assumption| |].
      + intros x Hx. apply Hinc. right. assumption.
      + intros x y Hx Hy. apply Hanti; right; assumption. }
  rewrite <- (map_length chain l). apply NoDup_incl_length; [assumption|].
  intros x Hx. apply in_map_iff in Hx. destruct Hx as (a & <- & Ha). apply Hids, Hinc, Ha.
Qed.

Definition excl_in (p : list call) : Prop :=
  forall a b, In a p -> In b p -> a <> b -> seqb a b = false -> seqb b a = false -> c_state a <> c_state b.

Definition states_exclusive (p : list call) : Prop :=
  forall i j a b, i <> j -> nth_error p i = Some a -> nth_error p j = Some b ->
    seqb a b = false -> seqb b a = false -> c_state a <> c_state b.

Lemma excl_of_in p : NoDup p -> excl_in p -> states_exclusive p.
Proof.
  intros Hnd Hex i j a b Hij Hi Hj. apply Hex.
  - eapply nth_error_In; eassumption.
  - eapply nth_error_In; eassumption.
  - intro E. subst b. apply Hij. rewrite NoDup_nth_error in Hnd. apply Hnd.
    + apply nth_error_Some. congruence.
    + congruence.
Qed.

Lemma NoDup_app2 {A} (l1 l2 : list A) :
  NoDup l1 -> NoDup l2 -> (forall x, In x l1 -> In x l2 -> False) -> NoDup (l1 ++ l2).
Proof.
  induction l1 as [|a l1 IH]; simpl; intros H1 H2 Hd; [assumption|].
  inversion H1; subst. constructor.
  - rewrite in_app_iff. intros [H|H]; [contradiction|]. eapply Hd; [left; reflexivity|exact H].
  - apply IH; [assumption|assumption|]. intros x Hx. apply Hd. right. assumption.
Qed.

Definition zrange (n : Z) : list Z := map Z.of_nat (seq 0 (Z.to_nat n)).

Lemma zrange_in n x : In x (zrange n) <-> 0 <= x < n.
Proof.
  unfold zrange. rewrite in_map_iff. split.
  - intros (i & <- & Hi). apply in_seq in Hi. lia.
  - intros H. exists (Z.to_nat x). split; [lia|]. apply in_seq. lia.
Qed.

Lemma zrange_length n : Z.of_nat (length (zrange n)) = Z.max 0 n.
Proof. unfold zrange. rewrite map_length, seq_length. lia. Qed.

(* ------------------------------------------------------------------ worker (dynamic / adaptive) plans *)

Lemma wc_k_range T k cl a : In a (worker_calls T k cl) -> k <= c_k a < k + Z.of_nat (length cl).
Proof.
  revert k. induction cl as [|[[w lo] hi] r IH]; simpl; intros k H; [contradiction|].
  destruct H as [<-|H]; simpl; [lia|]. apply IH in H. lia.
Qed.

Lemma wc_k_inj T k cl a b : In a (worker_calls T k cl) -> In b (worker_calls T k cl) -> c_k a = c_k b -> a = b.
Proof.
  revert k. induction cl as [|[[w lo] hi] r IH]; simpl; intros k Ha Hb E; [contradiction|].
  destruct Ha as [<-|Ha]; destruct Hb as [<-|Hb]; simpl in *.
  - reflexivity.
  - apply wc_k_range in Hb. lia.
  - apply wc_k_range in Ha. lia.
  - eapply IH; eassumption.
Qed.

Lemma wc_nodup T k cl : NoDup (worker_calls T k cl).
Proof.
  revert k. induction cl as [|[[w lo] hi] r IH]; simpl; intros k; constructor; [|apply IH].
  intro H. apply wc_k_range in H. simpl in H. lia.
Qed.

Lemma wc_who T wait k cl a : claims_ok T wait cl = true -> In a (worker_calls T k cl) ->
  0 <= c_state a < T + b2z wait /\
  ((c_who a = Task (c_state a) /\ c_state a < T) \/ (c_who a = CallerPre /\ T <= c_state a)).
Proof.
  revert k. induction cl as [|[[w lo] hi] r IH]; simpl; intros k Hok H; [contradiction|].
  apply andb_true_iff in Hok. destruct Hok as (Hw & Hr). apply andb_true_iff in Hw. destruct Hw as (H0 & H1).
  apply Z.leb_le in H0. apply Z.ltb_lt in H1.
  destruct H as [<-|H]; simpl.
  - split; [lia|]. destruct (w <? T) eqn:E; [left; split; [reflexivity|apply Z.ltb_lt; assumption]
                                            |right; split; [reflexivity|apply Z.ltb_ge; assumption]].
  - eapply IH; eassumption.
Qed.

Lemma worker_tail_in c d k a : In a (worker_tail c d k) ->
  d_hasTail d = true /\ a = CALL (if pf_wait c then CallerPost else LastWorker) k 0 (d_trimmedEnd d) (pf_e c).
Proof. unfold worker_tail. destruct (d_hasTail d); simpl; [intros [<-|[]]; auto|intros []]. Qed.

Lemma worker_plan_nodup c d cl : NoDup (worker_plan c d cl).
Proof.
  unfold worker_plan. apply NoDup_app2.
  - apply wc_nodup.
  - unfold worker_tail. destruct (d_hasTail d); repeat constructor; simpl; tauto.
  - intros x H1 H2. apply worker_tail_in in H2. destruct H2 as (_ & ->).
    apply wc_k_range in H1. simpl in H1. lia.
Qed.

Lemma worker_plan_excl c d cl :
  claims_ok (pf_numToLaunch c d) (pf_wait c) cl = true -> excl_in (worker_plan c d cl).
Proof.
  intros Hok a b Ha Hb Hab S1 S2. unfold worker_plan in *. rewrite in_app_iff in Ha, Hb.
  destruct Ha as [Ha|Ha]; destruct Hb as [Hb|Hb].
  - (* two claims: same state -> same runner -> ordered by claim number *)
    intro E.
    assert (Hk : c_k a <> c_k b) by (intro K; apply Hab; eapply wc_k_inj; eassumption).
    pose proof (wc_who _ _ _ _ _ Hok Ha) as (_ & Wa). pose proof (wc_who _ _ _ _ _ Hok Hb) as (_ & Wb).
    unfold seqb in S1, S2.
    destruct Wa as [(Wa & La)|(Wa & La)]; destruct Wb as [(Wb & Lb)|(Wb & Lb)]; try lia;
      rewrite Wa, Wb in S1, S2; rewrite ?E, ?Z.eqb_refl in S1, S2; simpl in S1, S2;
      apply Z.ltb_ge in S1; apply Z.ltb_ge in S2; lia.
  - (* claim vs tail *)
    apply worker_tail_in in Hb. destruct Hb as (_ & ->).
    pose proof (wc_who _ _ _ _ _ Hok Ha) as (Ra & Wa). unfold seqb in S1. simpl in S1.
    destruct (pf_wait c) eqn:W; destruct Wa as [(Wa & La)|(Wa & La)]; rewrite Wa in S1; try discriminate.
    simpl in Ra. lia.
  - apply worker_tail_in in Ha. destruct Ha as (_ & ->).
    pose proof (wc_who _ _ _ _ _ Hok Hb) as (Rb & Wb). unfold seqb in S2. simpl in S2.
    destruct (pf_wait c) eqn:W; destruct Wb as [(Wb & Lb)|(Wb & Lb)]; rewrite Wb in S2; try discriminate.
    simpl in Rb. lia.
  - apply worker_tail_in in Ha. apply worker_tail_in in Hb. destruct Ha as (_ & ->). destruct Hb as (_ & ->).
    exfalso. apply Hab. reflexivity.
Qed.

Definition worker_ids (T : Z) (wait : bool) : list Z := zrange (Z.max 1 T) ++ (if wait then [-1] else []).

Lemma worker_plan_chain_ids c d cl a :
  claims_ok (pf_numToLaunch c d) (pf_wait c) cl = true ->
  In a (worker_plan c d cl) -> In (chain a) (worker_ids (pf_numToLaunch c d) (pf_wait c)).
Proof.
  intros Hok Ha. unfold worker_plan in Ha. rewrite in_app_iff in Ha. unfold worker_ids. rewrite in_app_iff.
  destruct Ha as [Ha|Ha].
  - pose proof (wc_who _ _ _ _ _ Hok Ha) as (Ra & [(Wa & La)|(Wa & La)]); unfold chain; rewrite Wa.
    + left. apply zrange_in. lia.
    + right. destruct (pf_wait c); simpl in *; [left; reflexivity|lia].
  - apply worker_tail_in in Ha. destruct Ha as (_ & ->). unfold chain. simpl.
    destruct (pf_wait c); simpl; [right; left; reflexivity|left; apply zrange_in; lia].
Qed.

Lemma worker_plan_chain_cmp c d cl a b :
  claims_ok (pf_numToLaunch c d) (pf_wait c) cl = true ->
  In a (worker_plan c d cl) -> In b (worker_plan c d cl) -> a <> b -> chain a = chain b ->
  seqb a b = true \/ seqb b a = true.
Proof.
  intros Hok Ha Hb Hab E. unfold worker_plan in *. rewrite in_app_iff in Ha, Hb.
  destruct Ha as [Ha|Ha]; destruct Hb as [Hb|Hb].
  - assert (Hk : c_k a <> c_k b) by (intro K; apply Hab; eapply wc_k_inj; eassumption).
    pose proof (wc_who _ _ _ _ _ Hok Ha) as (Ra & Wa). pose proof (wc_who _ _ _ _ _ Hok Hb) as (Rb & Wb).
    unfold chain in E. unfold seqb.
    destruct Wa as [(Wa & La)|(Wa & La)]; destruct Wb as [(Wb & Lb)|(Wb & Lb)]; rewrite Wa, Wb in *; lia.
  - apply worker_tail_in in Hb. destruct Hb as (_ & ->).
    pose proof (wc_who _ _ _ _ _ Hok Ha) as (Ra & Wa). left. unfold seqb. simpl.
    destruct (pf_wait c) eqn:W; destruct Wa as [(Wa & La)|(Wa & La)]; rewrite Wa; try reflexivity.
    simpl in Ra. lia.
  - apply worker_tail_in in Ha. destruct Ha as (_ & ->).
    pose proof (wc_who _ _ _ _ _ Hok Hb) as (Rb & Wb). right. unfold seqb. simpl.
    destruct (pf_wait c) eqn:W; destruct Wb as [(Wb & Lb)|(Wb & Lb)]; rewrite Wb; try reflexivity.
    simpl in Rb. lia.
  - apply worker_tail_in in Ha. apply worker_tail_in in Hb. destruct Ha as (_ & ->). destruct Hb as (_ & ->).
    exfalso. apply Hab. reflexivity.
Qed.

(* ------------------------------------------------------------------ static plans *)

Lemma static_task_who c d n cc j : c_who (static_task c d n cc j) = Task j.
Proof. unfold static_task. destruct (static_chunk_at _ _ _ _ _ _). reflexivity. Qed.
Lemma static_task_k c d n cc j : c_k (static_task c d n cc j) = 0.
Proof. unfold static_task. destruct (static_chunk_at _ _ _ _ _ _). reflexivity. Qed.
Lemma static_task_state c d n cc j : c_state (static_task c d n cc j) = static_chunkIdx (pf_wait c) cc j.
Proof. unfold static_task. destruct (static_chunk_at _ _ _ _ _ _). reflexivity. Qed.

Definition static_caller (c : pfcfg) (d : pfdec) (n cc : Z) : call :=
  let '(a, b) := static_chunk_at (pf_kn c) (pf_s c) (d_trimmedEnd d) n (d_g d) cc in CALL CallerPre 0 cc a b.

Lemma static_caller_who c d n cc : c_who (static_caller c d n cc) = CallerPre.
Proof. unfold static_caller. destruct (static_chunk_at _ _ _ _ _ _). reflexivity. Qed.
Lemma static_caller_k c d n cc : c_k (static_caller c d n cc) = 0.
Proof. unfold static_caller. destruct (static_chunk_at _ _ _ _ _ _). reflexivity. Qed.
Lemma static_caller_state c d n cc : c_state (static_caller c d n cc) = cc.
Proof. unfold static_caller. destruct (static_chunk_at _ _ _ _ _ _). reflexivity. Qed.

Definition static_nsched (c : pfcfg) (d : pfdec) : Z := if pf_wait c then static_n c d - 1 else static_n c d.

Inductive static_member (c : pfcfg) (d : pfdec) (ring : Z) (a : call) : Prop :=
| SM_task j : 0 <= j < static_nsched c d ->
    a = static_task c d (static_n c d) (static_callerChunk (pf_wait c) ring (static_n c d)) j -> static_member c d ring a
| SM_caller : pf_wait c = true ->
    a = static_caller c d (static_n c d) (static_callerChunk (pf_wait c) ring (static_n c d)) -> static_member c d ring a
| SM_tail : d_hasTail d = true ->
    a = CALL (if pf_wait c then CallerPost else CallerPre) 1 0 (d_trimmedEnd d) (pf_e c) -> static_member c d ring a.

Lemma static_plan_in c d ring a : In a (static_plan c d ring) -> static_member c d ring a.
Proof.
  unfold static_plan. rewrite !in_app_iff. intros [H|[H|H]].
  - apply in_map_iff in H. destruct H as (j & <- & Hj). apply in_seq in Hj.
    apply SM_task with (j := Z.of_nat j); [|reflexivity]. unfold static_nsched. lia.
  - destruct (pf_wait c) eqn:W; [|contradiction]. destruct H as [<-|[]].
    apply SM_caller; [exact W|]. rewrite W. unfold static_caller. reflexivity.
  - unfold caller_tail in H. destruct (d_hasTail d) eqn:T; [|contradiction]. destruct H as [<-|[]].
    apply SM_tail; [exact T|reflexivity].
Qed.

Lemma static_plan_nodup c d ring : NoDup (static_plan c d ring).
Proof.
  unfold static_plan. apply NoDup_app2; [|apply NoDup_app2|].
  - apply FinFun.Injective_map_NoDup; [|apply seq_NoDup].
    intros x y E. apply (f_equal c_who) in E. rewrite !static_task_who in E. injection E. lia.
  - destruct (pf_wait c); repeat constructor; simpl; tauto.
  - unfold caller_tail. destruct (d_hasTail d); repeat constructor; simpl; tauto.
  - intros x H1 H2. destruct (pf_wait c) eqn:W; [|contradiction]. destruct H1 as [<-|[]].
    unfold caller_tail in H2. destruct (d_hasTail d); [|contradiction]. destruct H2 as [E|[]].
    apply (f_equal c_k) in E. simpl in E.
    destruct (static_chunk_at _ _ _ _ _ _) in E. simpl in E. discriminate.
  - intros x H1 H2. apply in_map_iff in H1. destruct H1 as (j & <- & _).
    rewrite in_app_iff in H2. destruct H2 as [H2|H2].
    + destruct (pf_wait c); [|contradiction]. destruct H2 as [E|[]].
      apply (f_equal c_who) in E. rewrite static_task_who in E.
      destruct (static_chunk_at _ _ _ _ _ _) in E. simpl in E. discriminate.
    + unfold caller_tail in H2. destruct (d_hasTail d); [|contradiction]. destruct H2 as [E|[]].
      apply (f_equal c_who) in E. rewrite static_task_who in E. simpl in E. destruct (pf_wait c); discriminate.
Qed.

(* the state index of a scheduled closure is the REMAPPED chunk index: it skips the caller's chunk *)
Lemma chunkIdx_inj wait cc j j' : static_chunkIdx wait cc j = static_chunkIdx wait cc j' -> j = j'.
Proof. unfold static_chunkIdx. destruct wait; simpl; [|auto]. destruct (cc <=? j) eqn:A; destruct (cc <=? j') eqn:B; lia. Qed.
Lemma chunkIdx_skips cc j : static_chunkIdx true cc j <> cc.
Proof. unfold static_chunkIdx. simpl. destruct (cc <=? j) eqn:A; lia. Qed.

Lemma static_plan_excl c d ring :
  (pf_wait c = false -> d_hasTail d = false) -> excl_in (static_plan c d ring).
Proof.
  intros Hdom a b Ha Hb Hab S1 S2.
  apply static_plan_in in Ha. apply static_plan_in in Hb.
  destruct Ha as [j Hj ->| W -> | T ->]; destruct Hb as [j' Hj' ->| W' -> | T' ->];
    rewrite ?static_task_state, ?static_caller_state; simpl.
  - intro E. apply chunkIdx_inj in E. subst j'. apply Hab. reflexivity.
  - rewrite W'. apply chunkIdx_skips.
  - destruct (pf_wait c) eqn:W.
    + unfold seqb in S1. rewrite static_task_who in S1. simpl in S1. discriminate.
    + rewrite (Hdom eq_refl) in T'. discriminate.
  - rewrite W. intro E. symmetry in E. revert E. apply chunkIdx_skips.
  - exfalso. apply Hab. reflexivity.
  - unfold seqb in S1. rewrite static_caller_who in S1. rewrite W in S1. simpl in S1. discriminate.
  - destruct (pf_wait c) eqn:W.
    + unfold seqb in S2. rewrite static_task_who in S2. simpl in S2. discriminate.
    + rewrite (Hdom eq_refl) in T. discriminate.
  - unfold seqb in S2. rewrite static_caller_who in S2. rewrite W' in S2. simpl in S2. discriminate.
  - exfalso. apply Hab. reflexivity.
Qed.

Definition static_ids (c : pfcfg) (d : pfdec) : list Z :=
  zrange (static_nsched c d) ++ (if pf_wait c || d_hasTail d then [-1] else []).

Lemma static_plan_chain_ids c d ring a : In a (static_plan c d ring) -> In (chain a) (static_ids c d).
Proof.
  intros Ha. apply static_plan_in in Ha. unfold static_ids. rewrite in_app_iff.
  destruct Ha as [j Hj ->| W -> | T ->]; unfold chain.
  - rewrite static_task_who. left. apply zrange_in. assumption.
  - rewrite static_caller_who, W. right. left. reflexivity.
  - simpl. rewrite T, orb_true_r. right. destruct (pf_wait c); left; reflexivity.
Qed.

Lemma static_plan_chain_cmp c d ring a b :
  In a (static_plan c d ring) -> In b (static_plan c d ring) -> a <> b -> chain a = chain b ->
  seqb a b = true \/ seqb b a = true.
Proof.
  intros Ha Hb Hab E. apply static_plan_in in Ha. apply static_plan_in in Hb.
  destruct Ha as [j Hj ->| W -> | T ->]; destruct Hb as [j' Hj' ->| W' -> | T' ->]; unfold chain in E;
    rewrite ?static_task_who, ?static_caller_who in E; simpl in E.
  - subst j'. exfalso. apply Hab. reflexivity.
  - lia.
  - destruct (pf_wait c); simpl in E; lia.
  - lia.
  - exfalso. apply Hab. reflexivity.
  - left. unfold seqb. rewrite static_caller_who, W. reflexivity.
  - destruct (pf_wait c); simpl in E; lia.
  - right. unfold seqb. rewrite static_caller_who, W'. reflexivity.
  - exfalso. apply Hab. reflexivity.
Qed.

(* ------------------------------------------------------------------ the decisions: thread counts *)

Ltac destr_ifs :=
  repeat match goal with
         | |- context [if ?b then _ else _] => destruct b eqn:?
         end.

(* adjustChunkSizing never raises maxThreads, except in the branch "explicit chunk size, range.size() <=
   poolThreads + wait" where it REPLACES it by range.size() - wait; that branch leaves isStatic unchanged
   and is only taken for ranges that are not kStatic *)
Lemma adj_spec kn s e ch m st mi N w :
  let r := gen_adjustChunkSizing_of kn s e ch m st mi N w in
  fst r <= m \/
  (snd r = st /\ gen_range_isStatic_of kn ch = false /\ (ik_signed (kind_of kn) = false -> 0 <= fst r < 2 ^ 64)).
Proof.
  destruct kn as [|[|[|[|[|[|[|kn]]]]]]]; cbv zeta;
    cbv [gen_adjustChunkSizing_of gen_range_isStatic_of
         gen_adjustChunkSizing_i8 gen_adjustChunkSizing_u8 gen_adjustChunkSizing_i16 gen_adjustChunkSizing_u16
         gen_adjustChunkSizing_i32 gen_adjustChunkSizing_u32 gen_adjustChunkSizing_i64 gen_adjustChunkSizing_u64];
    destr_ifs; cbn [fst snd];
    try (left; lia);
    try (right; split; [reflexivity|split];
         [match goal with H : negb ?x = true |- ?x = false => apply negb_true_iff in H; exact H end
         |first [intros HS; discriminate HS | intros _; apply wrap_range; lia]]);
    left;
    match goal with H : (_ <? _) = true |- _ => apply Z.ltb_lt in H; lia end.
Qed.

Lemma pf_decide_par c :
  let d := pf_decide c in
  3 <= path_code (d_path d) + 1 -> 2 <= path_code (d_path d) ->
  2 <= d_maxThreads d /\
  (d_path d = PStatic -> d_maxThreads d <= user_maxThreads c).
Proof.
  cbv zeta. unfold pf_decide.
  destruct (gen_range_empty_of (pf_kn c) (pf_s c) (pf_e c)); [simpl; lia|].
  destruct (gen_computeGranularity_of (pf_kn c) (pf_s c) (pf_e c) (pf_chunk c) (pf_gran c)) as [[g te] ht].
  destruct (gen_range_empty_of (pf_kn c) (pf_s c) te || (pf_N c =? 0)); [simpl; lia|].
  pose proof (adj_spec (pf_kn c) (pf_s c) te (pf_chunk c) (Z.max (wrap_s 32 (pf_maxThreads c)) 1)
                (gen_range_isStatic_of (pf_kn c) (pf_chunk c)) (Z.max 1 (pf_minItems c)) (pf_N c) (pf_wait c)) as A.
  cbv zeta in A.
  destruct (gen_adjustChunkSizing_of (pf_kn c) (pf_s c) te (pf_chunk c) (Z.max (wrap_s 32 (pf_maxThreads c)) 1)
              (gen_range_isStatic_of (pf_kn c) (pf_chunk c)) (Z.max 1 (pf_minItems c)) (pf_N c) (pf_wait c)) as [m' st'].
  simpl in A.
  destruct (m' <? 2) eqn:M; [simpl; lia|]. apply Z.ltb_ge in M.
  destruct st' eqn:ST.
  - simpl. intros _ _. split; [assumption|]. intros _. unfold user_maxThreads.
    destruct A as [A|(A1 & A2 & _)]; [lia|]. rewrite A2 in A1. discriminate.
  - destruct (pf_chunk c =? 0); simpl; intros _ _; (split; [assumption|discriminate]).
Qed.

Lemma user_maxThreads_range c : 1 <= user_maxThreads c < 2 ^ 31.
Proof.
  unfold user_maxThreads. pose proof (wrap_s_range 32 (pf_maxThreads c) ltac:(lia)) as R.
  change (2 ^ (32 - 1)) with 2147483648 in R. change (2 ^ 31) with 2147483648. lia.
Qed.

Lemma static_numThreads_le kn s e N m g : 1 <= m -> static_numThreads kn s e N m g <= m.
Proof.
  intros Hm. unfold static_numThreads.
  destruct (1 <? g); [|lia].
  destruct (Z.quot (gen_range_size_of kn s e) g <? Z.min (Z.min (N + 1) m) (gen_range_size_of kn s e)) eqn:E; [|lia].
  apply Z.ltb_lt in E. lia.
Qed.

Lemma numToLaunch_le c d : 2 <= d_maxThreads d < 2 ^ 63 ->
  Z.max 1 (pf_numToLaunch c d) + b2z (pf_wait c) <= d_maxThreads d.
Proof.
  intros Hm. unfold pf_numToLaunch, size_sub, wop.
  assert (B : 0 <= b2z (pf_wait c) <= 1) by (destruct (pf_wait c); simpl; lia).
  destruct (ik_signed (wide (kind_of (pf_kn c)))); [lia|].
  assert (W : ik_w (wide (kind_of (pf_kn c))) = 64) by reflexivity. rewrite W.
  rewrite wrap_small; [lia|]. change (2 ^ 64) with (2 * 2 ^ 63). lia.
Qed.

(* on the parallel paths the adjusted thread count of an unsigned index kind is a uint64 value *)
Lemma pf_decide_mt_range c :
  let d := pf_decide c in
  2 <= path_code (d_path d) -> ik_signed (kind_of (pf_kn c)) = false -> d_maxThreads d < 2 ^ 64.
Proof.
  cbv zeta. unfold pf_decide.
  destruct (gen_range_empty_of (pf_kn c) (pf_s c) (pf_e c)); [simpl; lia|].
  destruct (gen_computeGranularity_of (pf_kn c) (pf_s c) (pf_e c) (pf_chunk c) (pf_gran c)) as [[g te] ht].
  destruct (gen_range_empty_of (pf_kn c) (pf_s c) te || (pf_N c =? 0)); [simpl; lia|].
  pose proof (adj_spec (pf_kn c) (pf_s c) te (pf_chunk c) (Z.max (wrap_s 32 (pf_maxThreads c)) 1)
                (gen_range_isStatic_of (pf_kn c) (pf_chunk c)) (Z.max 1 (pf_minItems c)) (pf_N c) (pf_wait c)) as A.
  cbv zeta in A.
  destruct (gen_adjustChunkSizing_of (pf_kn c) (pf_s c) te (pf_chunk c) (Z.max (wrap_s 32 (pf_maxThreads c)) 1)
              (gen_range_isStatic_of (pf_kn c) (pf_chunk c)) (Z.max 1 (pf_minItems c)) (pf_N c) (pf_wait c)) as [m' st'].
  simpl in A.
  assert (R : ik_signed (kind_of (pf_kn c)) = false -> m' < 2 ^ 64).
  { intros U. destruct A as [A|(_ & _ & A)]; [|apply A, U].
    pose proof (wrap_s_range 32 (pf_maxThreads c) ltac:(lia)) as W. change (2 ^ (32 - 1)) with 2147483648 in W.
    assert (2147483648 < 2 ^ 64) by reflexivity. lia. }
  destruct (m' <? 2); [simpl; lia|].
  destruct st'; [|destruct (pf_chunk c =? 0)]; simpl; intros _; exact R.
Qed.
