(* The dynamic (shared counter) path: for EVERY claim order the body invocations are, as a multiset, the
   schedule-independent plan dyn_canon; and dyn_canon tiles [start, end). *)
From Coq Require Import ZArith List Bool Lia Zdiv Permutation.
From DV Require Import Base.MachInt Model.ChunkModel Proofs.ChunkProofs Proofs.StaticBoundsProofs Model.ParForModel Model.DynLeafModel Proofs.DynLeafProofs
  Model.DynModel Proofs.DynListProofs.
Import ListNotations.
Local Open Scope Z_scope.
Ltac Zify.zify_post_hook ::= Z.div_mod_to_equations.

Lemma upd_same {A} (f : nat -> A) i v : upd f i v i = v.
Proof. unfold upd. rewrite Nat.eqb_refl. reflexivity. Qed.
Lemma upd_other {A} (f : nat -> A) i j v : j <> i -> upd f i v j = f j.
Proof. intros H. unfold upd. destruct (Nat.eqb_spec j i); [contradiction | reflexivity]. Qed.

(* number of workers below n that satisfy f *)
Definition countb (f : nat -> bool) (n : nat) : nat := length (filter f (seq 0 n)).

Lemma countb_le f n : (countb f n <= n)%nat.
Proof.
  unfold countb. rewrite <- (seq_length n 0) at 2. generalize (seq 0 n). intros l.
  induction l as [|x r IH]; [reflexivity|]. cbn [filter]. destruct (f x); cbn [length]; lia.
Qed.

Lemma countb_upd f n w : (w < n)%nat -> f w = false -> countb (upd f w true) n = S (countb f n).
Proof.
  unfold countb. induction n as [|n IH]; intros Hw Hf; [lia|].
  rewrite seq_S, !filter_app, !app_length. cbn [Nat.add filter].
  destruct (Nat.eq_dec w n) as [->|N].
  - rewrite upd_same, Hf. cbn [length].
    assert (E : filter (upd f n true) (seq 0 n) = filter f (seq 0 n)).
    { apply filter_ext_in. intros a Ha. apply in_seq in Ha. apply upd_other. lia. }
    rewrite E. lia.
  - rewrite upd_other by lia. rewrite IH by (try lia; assumption). destruct (f n); cbn [length]; lia.
Qed.

Lemma countb_all f n : (forall w, (w < n)%nat -> f w = true) -> countb f n = n.
Proof.
  intros H. unfold countb.
  replace (filter f (seq 0 n)) with (seq 0 n); [apply seq_length|].
  symmetry. assert (A : forall x, In x (seq 0 n) -> f x = true) by (intros x Hx; apply in_seq in Hx; apply H; lia).
  revert A. generalize (seq 0 n). intros l A. induction l as [|x r IH]; [reflexivity|]. cbn [filter].
  rewrite (A x) by (left; reflexivity). f_equal. apply IH. intros y Hy. apply A. right. exact Hy.
Qed.

Lemma countb_lt f n w : (w < n)%nat -> f w = false -> (countb f n < n)%nat.
Proof.
  intros Hw Hf. pose proof (countb_upd f n w Hw Hf) as E. pose proof (countb_le (upd f w true) n). lia.
Qed.

Section DynRun.
  Variable c : dyncfg.
  Hypothesis Hwork : 1 <= dc_workers c.
  Hypothesis Hgrp : 1 <= dc_groups c <= dc_workers c.
  Hypothesis Hnc : 0 <= dc_nc c.
  Hypothesis Hlaunch : dc_wait c = false -> dc_workers c = dc_launch c.

  Local Notation tw := (Z.to_nat (dc_workers c)).
  Local Notation G := (ngroups c).

  (* ---- group arithmetic ---- *)
  Lemma gcount_nonneg g : 0 <= gcount c g.
  Proof.
    unfold gcount, grp_count, grp_base, grp_extra. destruct (dc_groups c <=? 1) eqn:E; [lia|apply Z.leb_gt in E].
    rewrite quot_div_nonneg by lia. assert (0 <= dc_nc c / dc_groups c) by (apply Z.div_pos; lia).
    destruct (Z.of_nat g <? Z.rem (dc_nc c) (dc_groups c)); lia.
  Qed.

  Lemma multi_facts : dc_groups c <=? 1 = false ->
    let eg := dc_groups c in let b := grp_base c in let x := grp_extra c in
    1 < eg /\ 0 <= b /\ 0 <= x < eg /\ dc_nc c = eg * b + x.
  Proof.
    intros E. apply Z.leb_gt in E. cbv zeta. unfold grp_base, grp_extra.
    rewrite quot_div_nonneg, rem_mod_nonneg by lia.
    pose proof (Z.div_mod (dc_nc c) (dc_groups c) ltac:(lia)).
    pose proof (Z.mod_pos_bound (dc_nc c) (dc_groups c) ltac:(lia)).
    assert (0 <= dc_nc c / dc_groups c) by (apply Z.div_pos; lia). lia.
  Qed.

  Lemma tiling :
    flat_map (fun g => zrange (gstart c g) (Z.to_nat (gcount c g))) (seq 0 G) = zrange 0 (Z.to_nat (dc_nc c)).
  Proof.
    unfold ngroups, gstart, gcount. destruct (dc_groups c <=? 1) eqn:E.
    - cbn [seq flat_map]. apply app_nil_r.
    - destruct (multi_facts E) as (E1 & Hb & Hx & Hn). cbv zeta in *.
      assert (T : forall n, (n <= Z.to_nat (dc_groups c))%nat ->
                flat_map (fun g => zrange (grp_start c (Z.of_nat g)) (Z.to_nat (grp_count c (Z.of_nat g)))) (seq 0 n)
                = zrange 0 (Z.to_nat (grp_start c (Z.of_nat n)))).
      { induction n as [|n IH]; intros Hn'.
        - unfold grp_start. cbn [seq flat_map Z.of_nat]. replace (0 * grp_base c + Z.min 0 (grp_extra c)) with 0 by lia. reflexivity.
        - rewrite seq_S, flat_map_app, IH by lia. cbn [Nat.add flat_map]. rewrite app_nil_r.
          unfold grp_start, grp_count. rewrite Nat2Z.inj_succ.
          set (x := grp_extra c) in *. set (b := grp_base c) in *.
          destruct (Z.of_nat n <? x) eqn:L; [apply Z.ltb_lt in L | apply Z.ltb_ge in L].
          + replace (Z.to_nat (Z.succ (Z.of_nat n) * b + Z.min (Z.succ (Z.of_nat n)) x))
              with (Z.to_nat (Z.of_nat n * b + Z.min (Z.of_nat n) x) + Z.to_nat (b + 1))%nat by nia.
            rewrite zrange_app. f_equal. f_equal. nia.
          + replace (Z.to_nat (Z.succ (Z.of_nat n) * b + Z.min (Z.succ (Z.of_nat n)) x))
              with (Z.to_nat (Z.of_nat n * b + Z.min (Z.of_nat n) x) + Z.to_nat (b + 0))%nat by nia.
            rewrite zrange_app. f_equal. f_equal. nia. }
      rewrite T by lia. f_equal. f_equal. unfold grp_start. rewrite Z2Nat.id by lia. lia.
  Qed.

  (* every counter has a worker *)
  Lemma wgroup_lt w : (w < tw)%nat -> (wgroup c w < G)%nat.
  Proof.
    intros Hw. unfold wgroup, ngroups. destruct (dc_groups c <=? 1) eqn:E; [lia|]. apply Z.leb_gt in E.
    unfold grp_of_worker.
    assert (Q : 0 <= Z.quot (Z.of_nat w * dc_groups c) (dc_workers c) < dc_groups c).
    { rewrite quot_div_nonneg by nia. split; [apply Z.div_pos; nia|]. apply Z.div_lt_upper_bound; nia. }
    destruct ((Z.of_nat w =? dc_launch c) && (dc_groups c <=? Z.quot (Z.of_nat w * dc_groups c) (dc_workers c))); lia.
  Qed.

  Lemma wgroup_onto g : (g < G)%nat -> exists w, (w < tw)%nat /\ wgroup c w = g.
  Proof.
    unfold wgroup, ngroups. destruct (dc_groups c <=? 1) eqn:E.
    - intros Hg. exists 0%nat. split; lia.
    - apply Z.leb_gt in E. intros Hg.
      set (eg := dc_groups c) in *. set (t := dc_workers c) in *.
      set (w := (Z.of_nat g * t + eg - 1) / eg).
      pose proof (ceil_div_bounds (Z.of_nat g * t) eg ltac:(nia) ltac:(lia)) as B. cbv zeta in B. fold w in B.
      assert (W0 : 0 <= w) by (subst w; apply Z.div_pos; nia).
      assert (Wt : w < t) by nia.
      exists (Z.to_nat w). split; [lia|].
      unfold grp_of_worker. fold eg t. rewrite Z2Nat.id by lia.
      assert (Q : Z.quot (w * eg) t = Z.of_nat g).
      { rewrite quot_div_nonneg by nia. symmetry. apply (Z.div_unique _ _ _ (w * eg - Z.of_nat g * t)). nia. nia. }
      rewrite Q.
      replace (eg <=? Z.of_nat g) with false by (symmetry; apply Z.leb_gt; lia). rewrite andb_false_r. lia.
  Qed.

  (* ---- invariant of the run ---- *)
  Definition single : bool := dc_groups c <=? 1.
  Definition Inv (st : dstate) : Prop :=
    (forall g, 0 <= ds_ctr st g) /\
    ds_exit st = Z.of_nat (countb (ds_done st) tw) /\
    (forall w, (w < tw)%nat -> ds_done st w = true -> gcount c (wgroup c w) < ds_ctr st (wgroup c w)) /\
    (single = true -> ds_exit st = Z.max 0 (ds_ctr st 0%nat - dc_nc c)).

  Lemma Inv_init : Inv dyn_init.
  Proof.
    unfold Inv, dyn_init; cbn [ds_ctr ds_exit ds_done]. split; [intros; lia|]. split.
    - unfold countb. replace (filter (fun _ : nat => false) (seq 0 tw)) with (@nil nat); [reflexivity|].
      symmetry. generalize (seq 0 tw). induction l; simpl; auto.
    - split; [intros; discriminate | intros; lia].
  Qed.

  Definition tailflag (x : Z) : nat := if dc_workers c <=? x then 1%nat else 0%nat.
  Definition lo (g : nat) (x : Z) : Z := Z.min x (gcount c g).

  Lemma step_spec st w : Inv st ->
    let '(st1, claim, tl) := dyn_step c st w in
    Inv st1 /\ (forall g, ds_ctr st g <= ds_ctr st1 g) /\
    (forall g, with_key fst g (match claim with Some cl => [cl] | None => [] end) =
               map (pair g) (zrange (lo g (ds_ctr st g)) (Z.to_nat (lo g (ds_ctr st1 g) - lo g (ds_ctr st g))))) /\
    (forall cl, claim = Some cl -> (fst cl < G)%nat) /\
    (dc_wait c = false -> ((if tl then 1 else 0) + tailflag (ds_exit st))%nat = tailflag (ds_exit st1)) /\
    (dc_wait c = true -> tl = false) /\ ds_exit st <= ds_exit st1.
  Proof.
    intros (I1 & I2 & I3 & I4). unfold dyn_step.
    destruct (ds_done st w || negb (Z.of_nat w <? dc_workers c)) eqn:Skip.
    { split; [repeat split; assumption|]. split; [intros; lia|]. split.
      - intros g. cbn [with_key filter]. replace (lo g (ds_ctr st g) - lo g (ds_ctr st g)) with 0 by lia. reflexivity.
      - split; [intros; discriminate|]. split; [intros; reflexivity|]. split; [intros; reflexivity | lia]. }
    apply orb_false_iff in Skip. destruct Skip as [Dn Lt]. apply negb_false_iff, Z.ltb_lt in Lt.
    assert (Hw : (w < tw)%nat) by lia.
    set (g0 := wgroup c w). set (cur := ds_ctr st g0).
    pose proof (gcount_nonneg g0) as GC. pose proof (I1 g0) as C0. fold cur in C0.
    assert (CTR : forall g, ds_ctr st g <= upd (ds_ctr st) g0 (cur + 1) g).
    { intros g. destruct (Nat.eq_dec g g0) as [->|N]; [rewrite upd_same; fold cur; lia | rewrite upd_other by exact N; lia]. }
    destruct (gcount c g0 <=? cur) eqn:Fail; [apply Z.leb_le in Fail | apply Z.leb_gt in Fail]; cbn [ds_ctr ds_exit ds_done].
    - (* the claim fails: the worker leaves *)
      pose proof (countb_lt (ds_done st) tw w Hw Dn) as CL.
      split; [|split; [exact CTR|]].
      + unfold Inv; cbn [ds_ctr ds_exit ds_done]. split.
        { intros g. specialize (CTR g). specialize (I1 g). lia. }
        split; [rewrite countb_upd by assumption; lia|]. split.
        * intros w' Hw' D'. destruct (Nat.eq_dec w' w) as [->|N].
          -- fold g0. rewrite upd_same. lia.
          -- rewrite upd_other in D' by exact N. specialize (I3 w' Hw' D'). specialize (CTR (wgroup c w')). lia.
        * intros Sg. specialize (I4 Sg). unfold single in Sg.
          assert (H : wgroup c w = 0%nat) by (unfold wgroup; rewrite Sg; reflexivity).
          unfold cur, g0 in *. rewrite H in *. rewrite upd_same. unfold gcount in Fail. rewrite Sg in Fail. lia.
      + split.
        { intros g. cbn [with_key filter]. destruct (Nat.eq_dec g g0) as [->|N].
          - rewrite upd_same. fold cur. unfold lo. replace (Z.min (cur + 1) (gcount c g0) - Z.min cur (gcount c g0)) with 0 by lia. reflexivity.
          - rewrite upd_other by exact N. replace (lo g (ds_ctr st g) - lo g (ds_ctr st g)) with 0 by lia. reflexivity. }
        split; [intros; discriminate|]. split; [|split; [intros Wt; rewrite Wt; reflexivity | lia]].
        intros Nw. rewrite Nw. cbn [negb andb].
        assert (FL : (if dc_groups c <=? 1 then cur =? dc_nc c + dc_launch c - 1
                      else (ds_exit st + 1 =? dc_workers c) && (dc_nc c + dc_workers c - 1 =? dc_nc c + dc_launch c - 1))
                     = (ds_exit st + 1 =? dc_workers c)).
        { rewrite <- (Hlaunch Nw). destruct (dc_groups c <=? 1) eqn:Sg.
          - specialize (I4 Sg). assert (H : wgroup c w = 0%nat) by (unfold wgroup; rewrite Sg; reflexivity).
            unfold gcount in Fail. rewrite Sg in Fail. unfold cur, g0 in *. rewrite H in *.
            destruct (ds_ctr st 0%nat =? dc_nc c + dc_workers c - 1) eqn:A; destruct (ds_exit st + 1 =? dc_workers c) eqn:B;
              try reflexivity; [apply Z.eqb_eq in A; apply Z.eqb_neq in B | apply Z.eqb_neq in A; apply Z.eqb_eq in B]; lia.
          - rewrite Z.eqb_refl, andb_true_r. reflexivity. }
        rewrite FL. unfold tailflag. rewrite I2.
        destruct (Z.of_nat (countb (ds_done st) tw) + 1 =? dc_workers c) eqn:A; [apply Z.eqb_eq in A | apply Z.eqb_neq in A].
        * replace (dc_workers c <=? Z.of_nat (countb (ds_done st) tw)) with false by (symmetry; apply Z.leb_gt; lia).
          replace (dc_workers c <=? Z.of_nat (countb (ds_done st) tw) + 1) with true by (symmetry; apply Z.leb_le; lia). reflexivity.
        * replace (dc_workers c <=? Z.of_nat (countb (ds_done st) tw)) with false by (symmetry; apply Z.leb_gt; lia).
          replace (dc_workers c <=? Z.of_nat (countb (ds_done st) tw) + 1) with false by (symmetry; apply Z.leb_gt; lia). reflexivity.
    - (* the claim succeeds *)
      split; [|split; [exact CTR|]].
      + unfold Inv; cbn [ds_ctr ds_exit ds_done]. split.
        { intros g. specialize (CTR g). specialize (I1 g). lia. }
        split; [exact I2|]. split.
        * intros w' Hw' D'. specialize (I3 w' Hw' D'). specialize (CTR (wgroup c w')). lia.
        * intros Sg. specialize (I4 Sg). unfold single in Sg.
          assert (H : wgroup c w = 0%nat) by (unfold wgroup; rewrite Sg; reflexivity).
          unfold cur, g0 in *. rewrite H in *. rewrite upd_same. unfold gcount in Fail. rewrite Sg in Fail. lia.
      + split.
        { intros g. unfold with_key. cbn [filter fst]. destruct (Nat.eqb_spec g0 g) as [<-|N].
          - rewrite upd_same. fold cur. unfold lo.
            replace (Z.min (cur + 1) (gcount c g0) - Z.min cur (gcount c g0)) with 1 by lia.
            replace (Z.min cur (gcount c g0)) with cur by lia. reflexivity.
          - rewrite upd_other by (intros ->; apply N; reflexivity).
            replace (lo g (ds_ctr st g) - lo g (ds_ctr st g)) with 0 by lia. reflexivity. }
        split; [intros cl E; inversion E; subst cl; cbn [fst]; apply wgroup_lt; exact Hw|].
        split; [intros _; reflexivity|]. split; [intros _; reflexivity | lia].
  Qed.

  Lemma run_spec sched : forall st, Inv st ->
    let '(st2, claims, tails) := dyn_run c st sched in
    Inv st2 /\ (forall g, ds_ctr st g <= ds_ctr st2 g) /\
    (forall g, with_key fst g claims = map (pair g) (zrange (lo g (ds_ctr st g)) (Z.to_nat (lo g (ds_ctr st2 g) - lo g (ds_ctr st g))))) /\
    (forall cl, In cl claims -> (fst cl < G)%nat) /\
    (dc_wait c = false -> (tails + tailflag (ds_exit st))%nat = tailflag (ds_exit st2)) /\
    (dc_wait c = true -> tails = 0%nat) /\ ds_exit st <= ds_exit st2.
  Proof.
    induction sched as [|w r IH]; intros st I.
    - cbn [dyn_run]. split; [exact I|]. split; [intros; lia|]. split.
      + intros g. cbn [with_key filter]. replace (lo g (ds_ctr st g) - lo g (ds_ctr st g)) with 0 by lia. reflexivity.
      + split; [intros cl []|]. split; [intros; reflexivity|]. split; [intros; reflexivity | lia].
    - cbn [dyn_run]. pose proof (step_spec st w I) as S.
      destruct (dyn_step c st w) as [[st1 claim] tl]. destruct S as (I1 & M1 & K1 & L1 & T1 & W1 & X1).
      specialize (IH st1 I1). destruct (dyn_run c st1 r) as [[st2 claims] tails].
      destruct IH as (I2 & M2 & K2 & L2 & T2 & W2 & X2).
      split; [exact I2|]. split; [intros g; specialize (M1 g); specialize (M2 g); lia|]. split.
      + intros g. rewrite with_key_app, K1, K2, <- map_app. f_equal.
        specialize (M1 g). specialize (M2 g). unfold lo.
        pose proof (gcount_nonneg g).
        replace (Z.to_nat (Z.min (ds_ctr st2 g) (gcount c g) - Z.min (ds_ctr st g) (gcount c g)))
          with (Z.to_nat (Z.min (ds_ctr st1 g) (gcount c g) - Z.min (ds_ctr st g) (gcount c g)) +
                Z.to_nat (Z.min (ds_ctr st2 g) (gcount c g) - Z.min (ds_ctr st1 g) (gcount c g)))%nat by lia.
        rewrite zrange_app. f_equal. f_equal. lia.
      + split.
        { intros cl Hin. apply in_app_or in Hin. destruct Hin as [Hin|Hin]; [|apply L2; exact Hin].
          destruct claim as [cl0|]; [|destruct Hin]. destruct Hin as [<-|[]]. apply L1. reflexivity. }
        split; [intros Nw; specialize (T1 Nw); specialize (T2 Nw); lia|].
        split; [intros Wt; rewrite (W1 Wt), (W2 Wt); reflexivity | lia].
  Qed.

  (* ---- the theorem: any complete schedule hands the body exactly the plan ---- *)
  Theorem dyn_partition sched : (length (dc_tail c) <= 1)%nat -> dyn_complete c sched = true ->
    Permutation (dyn_calls c sched) (dyn_canon c).
  Proof.
    intros Htl Hc. unfold dyn_complete, dyn_calls, dyn_canon in *.
    pose proof (run_spec sched dyn_init Inv_init) as R.
    destruct (dyn_run c dyn_init sched) as [[st2 claims] tails]. cbn [fst] in Hc.
    destruct R as ((J1 & J2 & J3 & J4) & M & K & L & T & Wt & X).
    unfold dyn_all_done in Hc. rewrite forallb_forall in Hc.
    assert (AD : forall w, (w < tw)%nat -> ds_done st2 w = true) by (intros w Hw; apply Hc; apply in_seq; lia).
    assert (FULL : forall g, (g < G)%nat -> with_key fst g claims = map (pair g) (zrange 0 (Z.to_nat (gcount c g)))).
    { intros g Hg. rewrite K. cbn [dyn_init ds_ctr]. unfold lo.
      destruct (wgroup_onto g Hg) as (w & Hw & <-). specialize (J3 w Hw (AD w Hw)).
      pose proof (gcount_nonneg (wgroup c w)). f_equal. f_equal; [lia|]. f_equal. lia. }
    apply Permutation_app.
    - eapply Permutation_trans; [apply Permutation_map; apply (perm_by_key fst claims G L)|].
      rewrite (flat_map_ext_in' _ (fun g => map (pair g) (zrange 0 (Z.to_nat (gcount c g)))))
        by (intros g Hg; apply in_seq in Hg; apply FULL; lia).
      rewrite map_flat_map.
      rewrite (flat_map_ext_in' _ (fun g => map (dyn_chunk c) (zrange (gstart c g) (Z.to_nat (gcount c g))))).
      2:{ intros g _. rewrite (zrange_shift (gstart c g)), !map_map. apply map_ext. intros i. reflexivity. }
      rewrite <- map_flat_map, tiling, zrange_seq, map_map. apply Permutation_refl.
    - destruct (dc_wait c) eqn:Wm; [apply Permutation_refl|].
      specialize (T eq_refl). cbn [dyn_init ds_exit] in T.
      assert (E2 : ds_exit st2 = dc_workers c) by (rewrite J2, countb_all by exact AD; lia).
      unfold tailflag in T. rewrite E2 in T.
      replace (dc_workers c <=? 0) with false in T by (symmetry; apply Z.leb_gt; lia).
      replace (dc_workers c <=? dc_workers c) with true in T by (symmetry; apply Z.leb_le; lia).
      replace tails with 1%nat by lia. cbn [repeat concat]. rewrite app_nil_r. apply Permutation_refl.
  Qed.
End DynRun.

(* ---- the plan tiles [start, end) ---- *)
Lemma W_in k z : (ik_signed k = false -> 0 <= z < 2 ^ 64) -> wop (wide k) z = z.
Proof.
  intros H. unfold wop, wide; simpl. destruct (ik_signed k); [reflexivity|]. apply wrap_small. apply H. reflexivity.
Qed.

Section DynCanon.
  Variable c : dyncfg.
  Local Notation k := (dc_k c).
  Local Notation s := (dc_s c).
  Local Notation e := (dc_e c).
  Local Notation cs := (dc_cs c).
  Local Notation nc := (dc_nc c).
  Hypothesis Hwf : wf_kind k.
  Hypothesis Hw64 : ik_w k <= 64.
  Hypothesis Hs : in_kind k s.
  Hypothesis He : in_kind k e.
  Hypothesis Hse : s < e.
  Hypothesis Hcs : 1 <= cs.
  Hypothesis Hfit : e - s < 2 ^ 63.
  Hypothesis Hncv : nc = (e - s + cs - 1) / cs.

  Lemma nc_bounds : 1 <= nc /\ (nc - 1) * cs < e - s <= nc * cs.
  Proof.
    pose proof (ceil_div_bounds (e - s) cs ltac:(lia) ltac:(lia)) as B. cbv zeta in B. rewrite <- Hncv in B.
    split; [nia|lia].
  Qed.

  Definition doff (i : Z) : Z := Z.min (i * cs) (e - s).

  Lemma dyn_chunk_exact i : 0 <= i < nc -> dyn_chunk c i = (s + doff i, s + doff (i + 1)).
  Proof.
    intros Hi. destruct nc_bounds as [N1 N2]. pose proof (kmax_lt_p64 k Hwf Hw64) as (K1 & K2 & K3 & K4).
    assert (U : ik_signed k = false -> 0 <= s) by (intros U; unfold in_kind, kmin in Hs; rewrite U in Hs; lia).
    assert (Ek : e <= kmax k) by (unfold in_kind in He; lia).
    assert (I1 : i * cs <= (nc - 1) * cs) by nia.
    unfold dyn_chunk.
    rewrite (W_in k (i * cs)) by (intros; nia).
    rewrite (W_in k (s + i * cs)) by (intros Sg; specialize (U Sg); lia).
    rewrite (castk_id k (s + i * cs)) by (try assumption; unfold in_kind in *; lia).
    rewrite (W_in k (i + 1)) by (intros; lia).
    unfold doff. rewrite (Z.min_l (i * cs)) by lia.
    destruct (i + 1 =? nc) eqn:L; [apply Z.eqb_eq in L | apply Z.eqb_neq in L].
    - rewrite Z.min_r by nia. f_equal. lia.
    - assert (I2 : (i + 1) * cs <= (nc - 1) * cs) by nia.
      rewrite (W_in k (s + i * cs + cs)) by (intros Sg; specialize (U Sg); lia).
      rewrite castk_id by (try assumption; unfold in_kind in *; lia).
      rewrite Z.min_l by lia. f_equal. lia.
  Qed.

  Lemma dyn_body_contiguous :
    contiguous s (map (fun i => dyn_chunk c (Z.of_nat i)) (seq 0 (Z.to_nat nc))) e.
  Proof.
    destruct nc_bounds as [N1 N2].
    rewrite (map_ext_in _ (fun i => (s + doff (Z.of_nat i), s + doff (Z.of_nat i + 1))))
      by (intros i Hi; apply in_seq in Hi; apply dyn_chunk_exact; lia).
    pose proof (Proofs.StaticBoundsProofs.contiguous_offsets doff s (Z.to_nat nc) 0) as C.
    replace (s + doff (Z.of_nat 0)) with s in C by (unfold doff; cbn [Z.of_nat]; lia).
    replace (s + doff (Z.of_nat (0 + Z.to_nat nc))) with e in C by (unfold doff; rewrite Nat.add_0_l, Z2Nat.id by lia; lia).
    apply C. intros i Hi. unfold doff. nia.
  Qed.

  Lemma dyn_canon_contiguous efull : (dc_tail c = [] /\ e = efull) \/ (dc_tail c = [(e, efull)] /\ e <= efull) ->
    contiguous s (dyn_canon c) efull.
  Proof.
    intros [[T E]|[T E]]; unfold dyn_canon; rewrite T.
    - rewrite app_nil_r, <- E. apply dyn_body_contiguous.
    - eapply contiguous_app; [apply dyn_body_contiguous|]. cbn [contiguous]. auto.
  Qed.

  (* sizes: every chunk but the last has size chunkSize; the last one ends at the (trimmed) end *)
  Lemma dyn_chunk_size i : 0 <= i < nc ->
    let '(a, b) := dyn_chunk c i in (b - a = cs \/ b = e) /\ (i + 1 < nc -> b - a = cs).
  Proof.
    intros Hi. rewrite dyn_chunk_exact by exact Hi. destruct nc_bounds as [N1 N2]. unfold doff.
    destruct (Z.eq_dec (i + 1) nc) as [L|L].
    - split; [right; nia | intros; lia].
    - assert ((i + 1) * cs <= (nc - 1) * cs) by nia. split; [left; nia | intros; nia].
  Qed.
End DynCanon.
