(* C20: timed waits -- "true" only when complete, "false" only after the requested time (or a non-positive request). *)
From Coq Require Import ZArith List Bool Lia.
From DV Require Import Base.MachInt Base.Sched Model.EventModel Model.TimedModel Proofs.C21Proofs.
Import ListNotations.
Local Open Scope Z_scope.

(* ---------- list facts ---------- *)
Lemma nth_error_set_nth_eq {A} (l : list A) t x old : nth_error l t = Some old -> nth_error (set_nth l t x) t = Some x.
Proof.
  revert t; induction l as [|a l IH]; intros [|t] H; cbn in *; try discriminate; [reflexivity | eapply IH; eauto].
Qed.

Lemma nth_error_set_nth_neq {A} (l : list A) t u x : u <> t -> nth_error (set_nth l t x) u = nth_error l u.
Proof.
  revert t u; induction l as [|a l IH]; intros [|t] [|u] H; cbn; try reflexivity; try (exfalso; apply H; reflexivity).
  apply IH. intros ->. apply H. reflexivity.
Qed.

Lemma getz_set_nth_neq l t u x : u <> t -> getz (set_nth l t x) u = getz l u.
Proof.
  unfold getz. revert t u; induction l as [|a l IH]; intros [|t] [|u] H; cbn; try reflexivity; try (exfalso; apply H; reflexivity).
  apply IH. intros ->. apply H. reflexivity.
Qed.

Lemma getz_set_nth_eq l t x : (t < length l)%nat -> getz (set_nth l t x) t = x.
Proof.
  unfold getz. revert t; induction l as [|a l IH]; intros [|t] H; cbn in *; try lia; try reflexivity. apply IH; lia.
Qed.

Lemma length_set_nth {A} (l : list A) t x : length (set_nth l t x) = length l.
Proof. revert t; induction l as [|a l IH]; intros [|t]; cbn; auto. Qed.

Lemma nth_error_wake_all ths u : nth_error (wake_all ths) u =
  option_map (fun th => match tpc th with PBlocked v k => goto th (PWoken v k) | _ => th end) (nth_error ths u).
Proof. unfold wake_all. apply nth_error_map. Qed.

Lemma cons_neq {A} (x : A) l : x :: l <> l.
Proof. revert x; induction l as [|a l IH]; intros x H; [discriminate | injection H as _ H; exact (IH _ H)]. Qed.

(* ---------- effect of a base step on the pcs ---------- *)
Definition woke (p p' : pc) : Prop := p' = p \/ exists v k, p = PBlocked v k /\ p' = PWoken v k.

Lemma step_others s t ch s' ch' site :
  step s t ch = Some (s', ch', site) ->
  length (threads s') = length (threads s) /\
  forall u thu', u <> t -> nth_error (threads s') u = Some thu' ->
    exists thu, nth_error (threads s) u = Some thu /\ woke (tpc thu) (tpc thu').
Proof.
  intros E. unfold step in E.
  destruct (nth_error (threads s) t) as [th|] eqn:N; [|discriminate].
  assert (SIMPLE : forall w' th' site0, Some (ST w' (timeouts s) (set_nth (threads s) t th'), ch, site0) = Some (s', ch', site) ->
     length (threads s') = length (threads s) /\
     forall u thu', u <> t -> nth_error (threads s') u = Some thu' ->
       exists thu, nth_error (threads s) u = Some thu /\ woke (tpc thu) (tpc thu')).
  { intros w' th' site0 E0. injection E0 as <- _ _. cbn. split; [apply length_set_nth|].
    intros u thu' Hu Hn. rewrite nth_error_set_nth_neq in Hn by exact Hu. exists thu'. split; [exact Hn | left; reflexivity]. }
  destruct (tpc th) eqn:P; try (eapply SIMPLE; exact E); try discriminate.
  - (* PNotifyWake *) injection E as <- _ _. cbn. split; [rewrite length_set_nth; unfold wake_all; apply map_length|].
    intros u thu' Hu Hn. rewrite nth_error_set_nth_neq in Hn by exact Hu. rewrite nth_error_wake_all in Hn.
    destruct (nth_error (threads s) u) as [thu|]; [|discriminate]. cbn in Hn. injection Hn as <-.
    exists thu. split; [reflexivity|]. destruct (tpc thu) eqn:Pu; try (left; rewrite Pu; reflexivity).
    right. exists v, kind. split; reflexivity.
  - destruct (word s =? v); eapply SIMPLE; exact E.
  - destruct (word s =? cur); eapply SIMPLE; exact E.
  - destruct ((kind =? 1) && timeouts s); [eapply SIMPLE; exact E | discriminate].
  - destruct (word s =? v); [|destruct pos]; eapply SIMPLE; exact E.
  - destruct (word s =? wrap_s 32 n); eapply SIMPLE; exact E.
  - destruct (1 <? word s); eapply SIMPLE; exact E.
Qed.

(* pcs of a waitFor loop (kind 1) *)
Definition k1 (p : pc) : Prop :=
  match p with PWaitLoad _ 1 | PWaitFutex _ _ 1 | PBlocked _ 1 | PWoken _ 1 => True | _ => False end.

Lemma entry_not_k1 o : ~ k1 (entry o).
Proof. destruct o; cbn; auto. Qed.
Lemma next_not_k1 th : ~ k1 (tpc (next th)).
Proof. unfold next. destruct (prog th); cbn; [auto | apply entry_not_k1]. Qed.

Lemma woke_k1 p p' : woke p p' -> k1 p' -> k1 p.
Proof. intros [->|(v & k & -> & ->)] H; [exact H|]. cbn in *. exact H. Qed.

(* the stepping thread: where can a kind-1 pc come from *)
Lemma step_self s t ch s' ch' site th :
  nth_error (threads s) t = Some th -> step s t ch = Some (s', ch', site) ->
  exists th', nth_error (threads s') t = Some th' /\
    (k1 (tpc th') -> k1 (tpc th) \/ exists v, tpc th = PWfLoad0 v true) /\
    (forall v, tpc th' = PBlocked v 1 -> exists cur, tpc th = PWaitFutex v cur 1).
Proof.
  intros N E. unfold step in E. rewrite N in E.
  assert (SIMPLE : forall w' th' site0, Some (ST w' (timeouts s) (set_nth (threads s) t th'), ch, site0) = Some (s', ch', site) ->
     (k1 (tpc th') -> k1 (tpc th) \/ exists v, tpc th = PWfLoad0 v true) ->
     (forall v, tpc th' = PBlocked v 1 -> exists cur, tpc th = PWaitFutex v cur 1) ->
     exists th'', nth_error (threads s') t = Some th'' /\
       (k1 (tpc th'') -> k1 (tpc th) \/ exists v, tpc th = PWfLoad0 v true) /\
       (forall v, tpc th'' = PBlocked v 1 -> exists cur, tpc th = PWaitFutex v cur 1)).
  { intros w' th' site0 E0 H1 H2. injection E0 as <- _ _. cbn. exists th'. split; [eapply nth_error_set_nth_eq; eauto | split; assumption]. }
  assert (NX : forall th0, (k1 (tpc (next th0)) -> k1 (tpc th) \/ exists v, tpc th = PWfLoad0 v true) /\
                           (forall v, tpc (next th0) = PBlocked v 1 -> exists cur, tpc th = PWaitFutex v cur 1)).
  { intros th0. split; [intros K; exfalso; exact (next_not_k1 _ K)|].
    intros v Hv. exfalso. pose proof (next_not_k1 th0) as K. rewrite Hv in K. apply K. exact I. }
  destruct (tpc th) eqn:P; try discriminate.
  - eapply SIMPLE; [exact E | apply NX | apply NX].
  - eapply SIMPLE; [exact E | cbn; intros [] | cbn; intros ? ?; discriminate].
  - (* PNotifyWake *) injection E as <- _ _. cbn. exists (next th). split.
    + eapply nth_error_set_nth_eq. rewrite nth_error_wake_all, N. reflexivity.
    + apply NX.
  - (* PWaitLoad *) destruct (word s =? v).
    + eapply SIMPLE; [exact E | apply NX | apply NX].
    + eapply SIMPLE; [exact E | cbn; intros K; left; exact K | cbn; intros ? ?; discriminate].
  - (* PWaitFutex *) destruct (word s =? cur).
    + eapply SIMPLE; [exact E | cbn; intros K; left; exact K |]. cbn. intros v0 Hv. injection Hv as -> ->. exists cur. reflexivity.
    + eapply SIMPLE; [exact E | cbn; intros K; left; exact K | cbn; intros ? ?; discriminate].
  - (* PBlocked *) destruct ((kind =? 1) && timeouts s); [|discriminate]. eapply SIMPLE; [exact E | apply NX | apply NX].
  - (* PWoken *) eapply SIMPLE; [exact E | cbn; intros K; left; exact K | cbn; intros ? ?; discriminate].
  - (* PWfLoad0 *) destruct (word s =? v); [|destruct pos].
    + eapply SIMPLE; [exact E | apply NX | apply NX].
    + eapply SIMPLE; [exact E | cbn; intros _; right; exists v; reflexivity | cbn; intros ? ?; discriminate].
    + eapply SIMPLE; [exact E | apply NX | apply NX].
  - destruct (word s =? wrap_s 32 n).
    + eapply SIMPLE; [exact E | cbn; intros [] | cbn; intros ? ?; discriminate].
    + eapply SIMPLE; [exact E | apply NX | apply NX].
  - eapply SIMPLE; [exact E | apply NX | apply NX].
  - destruct (1 <? word s).
    + eapply SIMPLE; [exact E | cbn; intros [] | cbn; intros ? ?; discriminate].
    + eapply SIMPLE; [exact E | cbn; intros [] | cbn; intros ? ?; discriminate].
  - eapply SIMPLE; [exact E | apply NX | apply NX].
  - eapply SIMPLE; [exact E | apply NX | apply NX].
Qed.

(* ---------- the invariant of the clocked system ---------- *)
Definition ok_entry (e : Z * Z * bool) : Prop := let '(el, rq, pos) := e in pos = false \/ rq <= el.

Definition TInv (s : tstate) : Prop :=
  length (tcall s) = length (threads (base s)) /\ length (tblock s) = length (threads (base s)) /\
  (forall t th, nth_error (threads (base s)) t = Some th -> k1 (tpc th) -> getz (tcall s) t <= now s) /\
  (forall t th v, nth_error (threads (base s)) t = Some th -> tpc th = PBlocked v 1 -> getz (tcall s) t <= getz (tblock s) t) /\
  Forall ok_entry (flog s).

Lemma tinit_inv w0 progs : TInv (tinit w0 progs).
Proof.
  unfold TInv, tinit, init; cbn. rewrite !map_length. repeat split; auto.
  - intros t th N K. apply nth_error_In in N. apply in_map_iff in N. destruct N as [p [<- _]]. contradiction.
  - intros t th v N P. apply nth_error_In in N. apply in_map_iff in N. destruct N as [p [<- _]]. discriminate.
Qed.

Lemma nth_error_lt {A} (l : list A) t x : nth_error l t = Some x -> (t < length l)%nat.
Proof. intros H. apply nth_error_Some. rewrite H. discriminate. Qed.

Lemma tstep_inv req s e ch s' : TInv s -> tstep req s e ch = Some s' -> TInv s'.
Proof.
  intros (L1 & L2 & I1 & I2 & I3) E. destruct e as [d|t]; cbn in E.
  - destruct (0 <=? d) eqn:D; [|discriminate]. apply Z.leb_le in D. injection E as <-. unfold TInv; cbn.
    repeat split; auto. intros t th N K. specialize (I1 t th N K). lia.
  - destruct (nth_error (threads (base s)) t) as [th|] eqn:N; [|discriminate].
    destruct (step (base s) t ch) as [[[b' ch'] site]|] eqn:St; [|discriminate].
    destruct (step_others _ _ _ _ _ _ St) as [Len Oth].
    destruct (step_self _ _ _ _ _ _ _ N St) as (th' & N' & Sk & Sb).
    pose proof (nth_error_lt _ _ _ N) as Lt.
    (* generic preservation for the cases that touch neither array *)
    assert (GEN : forall fl, Forall ok_entry fl -> (forall v, tpc th <> PWfLoad0 v true) -> (forall v c, tpc th <> PWaitFutex v c 1) ->
               TInv (TS b' (now s) (tcall s) (tblock s) fl)).
    { intros fl Hfl NW NF. unfold TInv; cbn. rewrite Len. repeat split; auto.
      - intros u thu Nu K. destruct (Nat.eq_dec u t) as [->|Hu].
        + rewrite N' in Nu. injection Nu as <-. destruct (Sk K) as [K0|[v Pv]]; [exact (I1 _ _ N K0) | exfalso; exact (NW _ Pv)].
        + destruct (Oth _ _ Hu Nu) as (thu0 & Nu0 & W). exact (I1 _ _ Nu0 (woke_k1 _ _ W K)).
      - intros u thu v Nu P. destruct (Nat.eq_dec u t) as [->|Hu].
        + rewrite N' in Nu. injection Nu as <-. destruct (Sb _ P) as [c Pc]. exfalso. exact (NF _ _ Pc).
        + destruct (Oth _ _ Hu Nu) as (thu0 & Nu0 & [W|(v0 & k & _ & W)]); [|rewrite W in P; discriminate].
          rewrite W in P. exact (I2 _ _ _ Nu0 P). }
    destruct (tpc th) eqn:P; try (injection E as <-; apply GEN; [exact I3 | intros ? ?; discriminate | intros ? ? ?; discriminate]).
    + (* PWaitFutex *)
      destruct (Z.eq_dec kind 1) as [->|NK].
      * injection E as <-. unfold TInv; cbn. rewrite Len, length_set_nth. repeat split; auto.
        -- intros u thu Nu K. destruct (Nat.eq_dec u t) as [->|Hu].
           ++ assert (K0 : k1 (tpc th)) by (rewrite P; exact I). exact (I1 _ _ N K0).
           ++ destruct (Oth _ _ Hu Nu) as (thu0 & Nu0 & W). exact (I1 _ _ Nu0 (woke_k1 _ _ W K)).
        -- intros u thu v0 Nu Pb. destruct (Nat.eq_dec u t) as [->|Hu].
           ++ rewrite getz_set_nth_eq by lia. assert (K0 : k1 (tpc th)) by (rewrite P; exact I). exact (I1 _ _ N K0).
           ++ rewrite getz_set_nth_neq by exact Hu.
              destruct (Oth _ _ Hu Nu) as (thu0 & Nu0 & [W|(v1 & k & _ & W)]); [|rewrite W in Pb; discriminate].
              rewrite W in Pb. exact (I2 _ _ _ Nu0 Pb).
      * assert (E' : Some (TS b' (now s) (tcall s) (tblock s) (flog s)) = Some s').
        { destruct kind as [|[p|p|]|p]; try exact E. contradiction. }
        injection E' as <-. apply GEN; [exact I3 | intros ? ?; discriminate |]. intros v0 c0 Q. injection Q as _ _ Q. contradiction.
    + (* PBlocked *)
      destruct (Z.eq_dec kind 1) as [->|NK].
      * destruct (getz (tblock s) t + req t <=? now s) eqn:Dl; [|discriminate]. apply Z.leb_le in Dl. injection E as <-.
        apply GEN; [|intros ? ?; discriminate | intros ? ? ?; discriminate].
        constructor; [|exact I3]. cbn. right. pose proof (I2 _ _ _ N P). lia.
      * assert (E' : Some (TS b' (now s) (tcall s) (tblock s) (flog s)) = Some s').
        { destruct kind as [|[p|p|]|p]; try exact E. contradiction. }
        injection E' as <-. apply GEN; [exact I3 | intros ? ?; discriminate | intros ? ? ?; discriminate].
    + (* PWfLoad0 *)
      injection E as <-. unfold TInv; cbn. rewrite Len, length_set_nth. repeat split; auto.
      * intros u thu Nu K. destruct (Nat.eq_dec u t) as [->|Hu].
        -- rewrite getz_set_nth_eq by lia. lia.
        -- rewrite getz_set_nth_neq by exact Hu. destruct (Oth _ _ Hu Nu) as (thu0 & Nu0 & W). exact (I1 _ _ Nu0 (woke_k1 _ _ W K)).
      * intros u thu v0 Nu Pb. destruct (Nat.eq_dec u t) as [->|Hu].
        -- rewrite N' in Nu. injection Nu as <-. destruct (Sb _ Pb) as [c Pc]. discriminate Pc.
        -- rewrite getz_set_nth_neq by exact Hu.
           destruct (Oth _ _ Hu Nu) as (thu0 & Nu0 & [W|(v1 & k & _ & W)]); [|rewrite W in Pb; discriminate].
           rewrite W in Pb. exact (I2 _ _ _ Nu0 Pb).
      * destruct (negb (word (base s) =? v) && negb pos) eqn:B; [|exact I3].
        constructor; [|exact I3]. cbn. left. apply andb_true_iff in B. destruct B as [_ B]. destruct pos; [discriminate | reflexivity].
Qed.

Theorem trun_inv req evs : forall s s', TInv s -> trun req s evs = Some s' -> TInv s'.
Proof.
  induction evs as [|e r IH]; intros s s' I E; cbn in E; [injection E as <-; exact I|].
  destruct (tstep req s e []) as [s1|] eqn:T; [|discriminate]. eapply IH; [eapply tstep_inv; eauto | exact E].
Qed.

(* the user-facing statement: every waitFor that reported a timeout either had a non-positive request or at least
   the requested time elapsed between its call and its return, in every clocked run *)
Theorem timeout_only_after_elapsed req w0 progs evs s :
  trun req (tinit w0 progs) evs = Some s -> Forall ok_entry (flog s).
Proof. intros E. pose proof (trun_inv req evs _ _ (tinit_inv w0 progs) E) as (_ & _ & _ & _ & F). exact F. Qed.

(* erasure: the clocked system's thread steps are steps of the untimed model (so C21's theorems and the lockstep tie apply) *)
Theorem tstep_erase req s t ch s' : tstep req s (Thr t) ch = Some s' ->
  exists ch' site, step (base s) t ch = Some (base s', ch', site).
Proof.
  cbn. destruct (nth_error (threads (base s)) t) as [th|]; [|discriminate].
  destruct (step (base s) t ch) as [[[b' ch'] site]|]; [|discriminate]. intros E. exists ch', site.
  destruct (tpc th); try (injection E as <-; reflexivity).
  - destruct kind as [|[p|p|]|p]; injection E as <-; reflexivity.
  - destruct kind as [|[p|p|]|p]; try (injection E as <-; reflexivity).
    destruct (getz (tblock s) t + req t <=? now s); [injection E as <-; reflexivity | discriminate].
Qed.

(* "true" only when complete: a waitFor result 1 is produced only by a load that read the completed value *)
Ltac tagfail R := exfalso; unfold r_wait, r_waitfor, r_trywait, r_completed in R; first [discriminate R | (injection R; intros; discriminate) | (injection R; intros; lia)].

Theorem waitfor_true_sound s t ch s' ch' site th th' :
  nth_error (threads s) t = Some th -> step s t ch = Some (s', ch', site) -> nth_error (threads s') t = Some th' ->
  res th' = (r_waitfor, 1) :: res th ->
  exists v, ((exists pos, tpc th = PWfLoad0 v pos) \/ tpc th = PWaitLoad v 1) /\ word s = v.
Proof.
  intros N E N' R. unfold step in E. rewrite N in E.
  assert (SIMPLE : forall w' x site0, Some (ST w' (timeouts s) (set_nth (threads s) t x), ch, site0) = Some (s', ch', site) -> th' = x).
  { intros w' x site0 E0. injection E0 as <- _ _. cbn in N'. rewrite (nth_error_set_nth_eq _ _ _ _ N) in N'. congruence. }
  assert (NOLOG : forall x, res x = res th -> th' = x -> False).
  { intros x Rx ->. rewrite Rx in R. symmetry in R. exact (cons_neq _ _ R). }
  assert (NX : forall x, res (next x) = res x). { intros x. unfold next. destruct (prog x); reflexivity. }
  destruct (tpc th) eqn:P; try discriminate;
    try (exfalso; eapply NOLOG; [|eapply SIMPLE; exact E]; rewrite ?NX; reflexivity).
  - (* PNotifyWake *) exfalso. injection E as <- _ _. cbn in N'.
    rewrite (nth_error_set_nth_eq _ _ _ th) in N' by (rewrite nth_error_wake_all, N; cbn; destruct (tpc th); try reflexivity; discriminate).
    injection N' as <-. eapply NOLOG; [|reflexivity]. apply NX.
  - (* PWaitLoad *) destruct (word s =? v) eqn:Ew.
    + apply Z.eqb_eq in Ew. pose proof (SIMPLE _ _ _ E) as ->. rewrite NX in R. unfold logk in R.
      destruct (kind =? 2) eqn:K2; [exfalso; symmetry in R; exact (cons_neq _ _ R)|].
      destruct (kind =? 1) eqn:K1; cbn in R; [|tagfail R].
      apply Z.eqb_eq in K1. subst kind. exists v. split; [right; reflexivity | exact Ew].
    + exfalso; eapply NOLOG; [|eapply SIMPLE; exact E]; reflexivity.
  - destruct (word s =? cur); exfalso; (eapply NOLOG; [|eapply SIMPLE; exact E]); reflexivity.
  - destruct ((kind =? 1) && timeouts s); [|discriminate]. pose proof (SIMPLE _ _ _ E) as ->. rewrite NX in R. cbn in R. tagfail R.
  - (* PWfLoad0 *) destruct (word s =? v) eqn:Ew; [|destruct pos].
    + apply Z.eqb_eq in Ew. exists v. split; [left; exists pos; reflexivity | exact Ew].
    + exfalso; eapply NOLOG; [|eapply SIMPLE; exact E]; reflexivity.
    + pose proof (SIMPLE _ _ _ E) as ->. rewrite NX in R. cbn in R. tagfail R.
  - destruct (word s =? wrap_s 32 n); exfalso; (eapply NOLOG; [|eapply SIMPLE; exact E]); rewrite ?NX; reflexivity.
  - pose proof (SIMPLE _ _ _ E) as ->. rewrite NX in R. cbn in R. tagfail R.
  - destruct (1 <? word s); exfalso; (eapply NOLOG; [|eapply SIMPLE; exact E]); reflexivity.
  - pose proof (SIMPLE _ _ _ E) as ->. rewrite NX in R. cbn in R. tagfail R.
Qed.

Lemma to_timespec_spec r : 0 <= r ->
  let '(sec, ns) := to_timespec r in sec * 1000000000 + ns = r /\ 0 <= sec /\ 0 <= ns < 1000000000.
Proof.
  intros H. unfold to_timespec. rewrite Z.quot_div_nonneg, Z.rem_mod_nonneg by lia.
  pose proof (Z.div_mod r 1000000000 ltac:(lia)). pose proof (Z.mod_pos_bound r 1000000000 ltac:(lia)).
  assert (0 <= r / 1000000000) by (apply Z.div_pos; lia). lia.
Qed.

Lemma timed_inline_iff allowInline status :
  timed_wait_runs_inline allowInline status = true <-> allowInline = true /\ status = 0.
Proof. unfold timed_wait_runs_inline. rewrite andb_true_iff, Z.eqb_eq. tauto. Qed.
