(* C18: invariants over ALL interleavings of Model/FutureModel.v (any number of threads, any programs, any schedule,
   with or without spurious CAS failures and futex time-outs). *)
From Coq Require Import ZArith List Bool Lia.
From DV Require Import Base.MachInt Base.Sched Model.FutureModel.
Import ListNotations.
Local Open Scope Z_scope.

(* ---------- lists ---------- *)
Lemma in_set_nth {A} (l : list A) t x y : In y (set_nth l t x) -> y = x \/ In y l.
Proof.
  revert t; induction l as [|a l IH]; intros t H; [destruct t; contradiction|].
  destruct t as [|t]; cbn in H.
  - destruct H as [<-|H]; [left; reflexivity | right; right; exact H].
  - destruct H as [<-|H]; [right; left; reflexivity|]. destruct (IH _ H) as [->|H']; [left; reflexivity | right; right; exact H'].
Qed.

Lemma set_nth_in {A} (l : list A) t x old : nth_error l t = Some old -> In x (set_nth l t x).
Proof.
  revert t; induction l as [|a l IH]; intros t H; [destruct t; discriminate|].
  destruct t as [|t]; cbn in *; [left; reflexivity | right; eapply IH; exact H].
Qed.

Lemma set_nth_keeps {A} (l : list A) t x old y : nth_error l t = Some old -> In y l -> y <> old -> In y (set_nth l t x).
Proof.
  revert t; induction l as [|a l IH]; intros t N H D; [contradiction|].
  destruct t as [|t]; cbn in *.
  - injection N as ->. destruct H as [->|H]; [contradiction | right; exact H].
  - destruct H as [->|H]; [left; reflexivity | right; eapply IH; eauto].
Qed.

Lemma Forall_set_nth {A} (P : A -> Prop) l t x : Forall P l -> P x -> Forall P (set_nth l t x).
Proof.
  intros F Px. apply Forall_forall. intros y Hy. destruct (in_set_nth _ _ _ _ Hy) as [->|H]; [exact Px|].
  rewrite Forall_forall in F. apply F, H.
Qed.

Lemma zsum_set_nth {A} (f : A -> Z) l t x old :
  nth_error l t = Some old -> zsum f (set_nth l t x) = zsum f l - f old + f x.
Proof.
  unfold zsum. revert t; induction l as [|a l IH]; intros t N; [destruct t; discriminate|].
  destruct t as [|t]; cbn in *.
  - injection N as ->. lia.
  - rewrite (IH _ N). lia.
Qed.

Lemma zsum_map_same {A} (f : A -> Z) (h : A -> A) l : (forall x, f (h x) = f x) -> zsum f (map h l) = zsum f l.
Proof. intros E. unfold zsum. induction l as [|a l IH]; cbn; [reflexivity | rewrite E, IH; reflexivity]. Qed.

Lemma zsum_nonneg {A} (f : A -> Z) l : (forall x, In x l -> 0 <= f x) -> 0 <= zsum f l.
Proof.
  induction l as [|a l IH]; intros H; [cbn; lia|]. change (0 <= f a + zsum f l).
  assert (0 <= f a) by (apply H; left; reflexivity). assert (0 <= zsum f l) by (apply IH; intros; apply H; right; assumption). lia.
Qed.

Lemma zsum_ge_elem {A} (f : A -> Z) l x : (forall y, In y l -> 0 <= f y) -> In x l -> f x <= zsum f l.
Proof.
  induction l as [|a l IH]; intros H I; [contradiction|]. change (f x <= f a + zsum f l).
  assert (0 <= f a) by (apply H; left; reflexivity).
  assert (0 <= zsum f l) by (apply zsum_nonneg; intros; apply H; right; assumption).
  destruct I as [->|I]; [lia|]. assert (f x <= zsum f l) by (apply IH; [intros; apply H; right; assumption | exact I]). lia.
Qed.

Lemma zsum_zero_elem {A} (f : A -> Z) l x : (forall y, In y l -> 0 <= f y) -> zsum f l = 0 -> In x l -> f x = 0.
Proof. intros H Z I. pose proof (zsum_ge_elem f l x H I). specialize (H _ I). lia. Qed.

(* ---------- step decomposition ---------- *)
Definition woken (wk : bool) (ths : list thread) : list thread := if wk then wake_all ths else ths.

Lemma step_inv s t ch s' ch' site :
  step s t ch = Some (s', ch', site) ->
  exists th g' th' wk, nth_error (threads s) t = Some th /\
    tstep (conf s) (sh s) th ch = Some (g', th', wk, ch', site) /\
    s' = ST (conf s) g' (set_nth (woken wk (threads s)) t th').
Proof.
  unfold step. destruct (nth_error (threads s) t) as [th|] eqn:N; [|discriminate].
  destruct (tstep (conf s) (sh s) th ch) as [[[[[g' th'] wk] ch1] site1]|] eqn:T; [|discriminate].
  intros E. injection E as <- <- <-. exists th, g', th', wk. auto.
Qed.

Lemma nth_woken wk ths t th : nth_error ths t = Some th -> nth_error (woken wk ths) t = Some (if wk then wake1 th else th).
Proof. destruct wk; cbn; [|auto]. intros N. unfold wake_all. rewrite nth_error_map, N. reflexivity. Qed.

(* lifting a per-thread predicate that is stable under wake1 *)
Lemma Forall_woken (P : thread -> Prop) wk ths : (forall x, P x -> P (wake1 x)) -> Forall P ths -> Forall P (woken wk ths).
Proof.
  intros W F. destruct wk; cbn; [|exact F]. unfold wake_all. apply Forall_forall. intros y Hy.
  apply in_map_iff in Hy. destruct Hy as [x [<- Hx]]. apply W. rewrite Forall_forall in F. apply F, Hx.
Qed.

Lemma Forall_step (P P' : thread -> Prop) wk ths t th' :
  (forall x, P x -> P' x) -> (forall x, P' x -> P' (wake1 x)) -> Forall P ths -> P' th' ->
  Forall P' (set_nth (woken wk ths) t th').
Proof.
  intros Fr W F Px. apply Forall_set_nth; [|exact Px]. apply Forall_woken; [exact W|].
  eapply Forall_impl; [|exact F]. exact Fr.
Qed.

Lemma zsum_step (f : thread -> Z) wk ths t th th' :
  (forall x, f (wake1 x) = f x) -> nth_error ths t = Some th ->
  zsum f (set_nth (woken wk ths) t th') = zsum f ths - f th + f th'.
Proof.
  intros W N. rewrite (zsum_set_nth f _ t th' _ (nth_woken wk _ _ _ N)).
  assert (E : zsum f (woken wk ths) = zsum f ths) by (destruct wk; cbn; [apply zsum_map_same; exact W | reflexivity]).
  rewrite E. destruct wk; [rewrite W|]; reflexivity.
Qed.

(* thread fields through the small updaters *)
Lemma wake1_fields x : prog (wake1 x) = prog x /\ res (wake1 x) = res x /\ hnd (wake1 x) = hnd x /\ tok (wake1 x) = tok x.
Proof. unfold wake1. destruct (tpc x); cbn; auto. Qed.

(* ---------- case analysis of one thread step ---------- *)
Ltac zb :=
  repeat match goal with
         | H : (_ =? _) = true |- _ => apply Z.eqb_eq in H
         | H : (_ =? _) = false |- _ => apply Z.eqb_neq in H
         | H : (_ && _) = true |- _ => apply andb_prop in H; destruct H
         end;
  unfold kReady, kRunning, kNotStarted in *.

Ltac tcases T :=
  unfold tstep in T; cbv zeta in T;
  match type of T with context [tpc ?th] => destruct (tpc th) eqn:Epc end;
  try (destruct (spurious _ _) as [sp ch1] eqn:Esp);
  cbn [touch word refc conts cell fcount freed tsc chain disp bad_touch bad_disp bad_get] in T;
  repeat match type of T with
         | context [if ?b then _ else _] => destruct b eqn:?
         | context [match chain ?g with _ => _ end] => destruct (chain g) eqn:?
         | context [match ?r with [] => _ | _ :: _ => _ end] => destruct r eqn:?
         end;
  try discriminate; injection T as <- <- <- <- <-.

Ltac fsimp :=
  cbn [tpc prog res hnd tok goto logr addh untok word refc conts cell fcount freed tsc chain disp bad_touch bad_disp bad_get
       set_word set_refc set_conts set_result set_freed set_tsc set_chain dispatch read_result touch] in *.

Lemma next_pc_cases th : tpc (next th) = PDone \/ exists o, tpc (next th) = entry o.
Proof. unfold next. destruct (prog th) as [|o r]; cbn; [left; reflexivity | right; exists o; reflexivity]. Qed.

(* pcs that are only reached after the kReady store *)
Definition rr (p : pc) : bool :=
  match p with
  | PNotifyWake _ | PTsc _ | PChainLoad _ | PChainCas _ _ | PDispatch _ _ _ | PGetResult | PThenDirect _ => true
  | _ => false
  end.

Lemma rr_next th : rr (tpc (next th)) = false.
Proof. destruct (next_pc_cases th) as [->|[o ->]]; [reflexivity | destruct o; reflexivity]. Qed.
Lemma rr_fallback th k : rr (tpc (fallback th k)) = false.
Proof. destruct k as [|g|p [|]|]; cbn; try reflexivity; apply rr_next. Qed.
Lemma rr_wake1 x : rr (tpc (wake1 x)) = rr (tpc x).
Proof. unfold wake1. destruct (tpc x) eqn:E; cbn; rewrite ?E; reflexivity. Qed.

Definition word_ok (g : shared) : Prop := word g = 0 \/ word g = 1 \/ word g = 2.
Definition rr_ok (g : shared) (th : thread) : Prop := rr (tpc th) = true -> word g = 2.

Lemma A_tstep c g th ch g' th' wk ch' site :
  tstep c g th ch = Some (g', th', wk, ch', site) -> word_ok g -> rr_ok g th ->
  word_ok g' /\ rr_ok g' th' /\ (word g' = word g \/ word g' = 2 \/ (word g = 0 /\ word g' = 1)).
Proof.
  intros T W R. unfold word_ok, rr_ok in *. tcases T; zb; cbn in *;
    (split; [lia|]); (split; [|lia]); rewrite ?Epc; cbn;
    try (intros _; first [lia | apply R; reflexivity]);
    try (rewrite rr_next; discriminate); try (rewrite rr_fallback; discriminate); try discriminate.
Qed.

(* ---------- B: the NotStarted->Running window: one winner, one functor execution ---------- *)
Definition win (th : thread) : Z := match tpc th with PFunc _ | PNotifyStore _ => 1 | _ => 0 end.
Definition inf (th : thread) : Z := match tpc th with PFunc _ => 1 | _ => 0 end.
Definition b1 (w : Z) : Z := if w =? 1 then 1 else 0.
Definition b0 (w : Z) : Z := if w =? 0 then 0 else 1.
Definition cell_ok (c : cfg) (g : shared) : Prop :=
  0 <= fcount g /\ (fcount g = 0 -> cell g = 0) /\ (fcount g <> 0 -> cell g = val c).

Lemma win_next th : win (next th) = 0.
Proof. unfold win. destruct (next_pc_cases th) as [->|[o ->]]; [reflexivity | destruct o; reflexivity]. Qed.
Lemma inf_next th : inf (next th) = 0.
Proof. unfold inf. destruct (next_pc_cases th) as [->|[o ->]]; [reflexivity | destruct o; reflexivity]. Qed.
Lemma win_finish th k : win (finish th k) = 0.
Proof. destruct k as [|[|]|p u|]; cbn; try reflexivity; apply win_next. Qed.
Lemma inf_finish th k : inf (finish th k) = 0.
Proof. destruct k as [|[|]|p u|]; cbn; try reflexivity; apply inf_next. Qed.
Lemma win_fallback th k : win (fallback th k) = 0.
Proof. destruct k as [|g|p [|]|]; cbn; try reflexivity; apply win_next. Qed.
Lemma inf_fallback th k : inf (fallback th k) = 0.
Proof. destruct k as [|g|p [|]|]; cbn; try reflexivity; apply inf_next. Qed.
Lemma win_wake1 x : win (wake1 x) = win x.
Proof. unfold wake1, win. destruct (tpc x) eqn:E; cbn; rewrite ?E; reflexivity. Qed.
Lemma inf_wake1 x : inf (wake1 x) = inf x.
Proof. unfold wake1, inf. destruct (tpc x) eqn:E; cbn; rewrite ?E; reflexivity. Qed.
Lemma win_range x : 0 <= win x <= 1. Proof. unfold win. destruct (tpc x); lia. Qed.
Lemma inf_le_win x : 0 <= inf x <= win x. Proof. unfold win, inf. destruct (tpc x); lia. Qed.

Ltac eqb_goal := repeat match goal with |- context [?a =? ?b] => destruct (Z.eqb_spec a b) end.

Lemma B_tstep c g th ch g' th' wk ch' site :
  tstep c g th ch = Some (g', th', wk, ch', site) -> (win th = 1 -> word g = 1) -> cell_ok c g ->
  b1 (word g') - b1 (word g) = win th' - win th /\
  b0 (word g') - b0 (word g) = (inf th' + fcount g') - (inf th + fcount g) /\ cell_ok c g'.
Proof.
  intros T Hw (C0 & C1 & C2). unfold cell_ok.
  tcases T; zb; rewrite ?win_next, ?inf_next, ?win_finish, ?inf_finish, ?win_fallback, ?inf_fallback;
    unfold win, inf in *; fsimp; rewrite ?Epc in *; unfold b0, b1;
    try (assert (word g = 1) by (apply Hw; reflexivity));
    (split; [eqb_goal; lia|]); (split; [eqb_goal; lia|]); (split; [lia|]); (split; intros; try lia; auto).
Qed.

(* ---------- C: reference counting ---------- *)
Definition own (th : thread) : Z := hnd th + tok th.
Definition tokbit (k : Z) : Prop := k = 0 \/ k = 1.

(* programs never use a handle / the OnceFunction they do not hold: h handles, k = 1 iff the thread owns the OnceFunction *)
Fixpoint wfp (h k : Z) (p : list op) : Prop :=
  match p with
  | [] => True
  | ORun :: r => k = 1 /\ wfp h 0 r
  | OCopy :: r => 1 <= h /\ wfp (h + 1) k r
  | ODrop :: r => 1 <= h /\ wfp (h - 1) k r
  | _ :: r => 1 <= h /\ wfp h k r
  end.

Definition boundary (h k : Z) (p : list op) : Prop := 0 <= h /\ tokbit k /\ wfp h k p.
Definition user (h k : Z) (p : list op) : Prop := 1 <= h /\ tokbit k /\ wfp h k p.
Definition kont_inv (K : kont) (h k : Z) (p : list op) : Prop :=
  match K with KRunner => k = 1 /\ 0 <= h /\ wfp h 0 p | _ => user h k p end.

Definition pc_kont (p : pc) : option kont :=
  match p with
  | PRunCas k | PFunc k | PNotifyStore k | PNotifyWake k | PTsc k | PChainLoad k | PChainCas k _ | PDispatch k _ _
  | PWcLoad k | PWaitLoad k | PWaitFutex k _ | PBlocked k | PWoken k | PWfLoad0 k | PWuLoad k => Some k
  | _ => None
  end.

Definition thr_ok (th : thread) : Prop :=
  let h := hnd th in let k := tok th in let p := prog th in
  match tpc th with
  | PStart => boundary h k p
  | PDone => 0 <= h /\ tokbit k
  | PDecRef true => k = 1 /\ 0 <= h /\ wfp h 0 p
  | PDecRef false => 1 <= h /\ tokbit k /\ wfp (h - 1) k p
  | PIncRef => 1 <= h /\ tokbit k /\ wfp (h + 1) k p
  | q => match pc_kont q with Some K => kont_inv K h k p | None => user h k p end
  end.

Definition count_incs (p : list op) : Z := zsum (fun o => match o with OCopy | OThen _ => 1 | _ => 0 end) p.
Definition incs (th : thread) : Z := count_incs (prog th) + match tpc th with PIncRef | PThenInc _ => 1 | _ => 0 end.

Lemma count_incs_nonneg p : 0 <= count_incs p.
Proof. apply zsum_nonneg. intros o _. destruct o; lia. Qed.
Lemma incs_nonneg th : 0 <= incs th.
Proof. unfold incs. pose proof (count_incs_nonneg (prog th)). destruct (tpc th); lia. Qed.

Lemma ok_next X : boundary (hnd X) (tok X) (prog X) -> thr_ok (next X).
Proof.
  unfold boundary, thr_ok, next, tokbit. intros (H0 & Hk & W). destruct (prog X) as [|o r]; cbn; [auto|].
  destruct o; cbn in *; unfold user, tokbit; intuition lia.
Qed.
Lemma ok_finish X K : kont_inv K (hnd X) (tok X) (prog X) -> thr_ok (finish X K).
Proof.
  destruct K as [|[|]|p u|]; cbn; unfold user; intros H; try exact H; apply ok_next; cbn; unfold boundary; intuition lia.
Qed.
Lemma ok_fallback X K : kont_inv K (hnd X) (tok X) (prog X) -> thr_ok (fallback X K).
Proof.
  destruct K as [|g|p [|]|]; cbn; unfold user; intros H; try exact H. apply ok_next; cbn; unfold boundary; intuition lia.
Qed.
Lemma own_next X : own (next X) = own X.
Proof. unfold own, next. destruct (prog X); reflexivity. Qed.
Lemma own_finish X K : own (finish X K) = own X.
Proof. destruct K as [|[|]|p u|]; cbn; rewrite ?own_next; reflexivity. Qed.
Lemma own_fallback X K : own (fallback X K) = own X.
Proof. destruct K as [|g|p [|]|]; cbn; rewrite ?own_next; reflexivity. Qed.
Lemma incs_next X : incs (next X) = count_incs (prog X).
Proof.
  unfold incs, next. destruct (prog X) as [|o r]; cbn [tpc prog]; [change (count_incs []) with 0; lia|].
  change (count_incs (o :: r)) with ((match o with OCopy | OThen _ => 1 | _ => 0 end) + count_incs r).
  destruct o; cbn [entry]; lia.
Qed.
Lemma incs_finish X K : incs (finish X K) = count_incs (prog X).
Proof. destruct K as [|[|]|p u|]; unfold finish; rewrite ?incs_next; unfold incs; cbn [tpc prog goto logr]; lia. Qed.
Lemma incs_fallback X K : incs (fallback X K) = count_incs (prog X).
Proof. destruct K as [|g|p [|]|]; unfold fallback; rewrite ?incs_next; unfold incs; cbn [tpc prog goto logr]; lia. Qed.
Lemma own_wake1 x : own (wake1 x) = own x.
Proof. unfold own. destruct (wake1_fields x) as (_ & _ & -> & ->). reflexivity. Qed.
Lemma incs_wake1 x : incs (wake1 x) = incs x.
Proof. unfold incs, wake1. destruct (tpc x) eqn:E; cbn; rewrite ?E; reflexivity. Qed.
Lemma ok_wake1 x : thr_ok x -> thr_ok (wake1 x).
Proof. unfold thr_ok, wake1. destruct (tpc x) eqn:E; cbn; rewrite ?E; auto. Qed.

Lemma kont_inv_own K h k p : kont_inv K h k p -> 0 <= h /\ tokbit k /\ 1 <= h + k.
Proof. unfold kont_inv, user, tokbit. destruct K; intuition lia. Qed.
Lemma thr_ok_own th : thr_ok th -> 0 <= hnd th /\ tokbit (tok th) /\ (tpc th <> PStart -> tpc th <> PDone -> 1 <= own th).
Proof.
  unfold thr_ok, own. destruct (tpc th) eqn:E; cbn; unfold boundary, user, tokbit;
    try (intros H; apply kont_inv_own in H; unfold tokbit in H; intuition lia); try (intuition (try congruence; lia)).
  destruct runner; intuition lia.
Qed.

Lemma wrap32_small z : 0 <= z < 4294967296 -> wrap 32 z = z.
Proof. intros H. apply wrap_small. change (2 ^ 32) with 4294967296. exact H. Qed.

Definition freed_ok (g : shared) : Prop := freed g = (if refc g =? 0 then 1 else 0) /\ bad_touch g = false.

Lemma C_tstep c g th ch g' th' wk ch' site B :
  tstep c g th ch = Some (g', th', wk, ch', site) -> thr_ok th -> own th <= refc g -> 0 <= conts g ->
  refc g + incs th <= B -> B < 4294967296 -> freed_ok g ->
  thr_ok th' /\ refc g' - conts g' - own th' = refc g - conts g - own th /\ 0 <= conts g' /\
  refc g' + incs th' <= refc g + incs th /\ freed_ok g'.
Proof.
  intros T OK Ho Hc Hb HB (Hf & Ht).
  pose proof (thr_ok_own _ OK) as (Hh & Hk & Hown).
  pose proof (count_incs_nonneg (prog th)) as Hci.
  unfold freed_ok, tokbit in *.
  tcases T; zb;
    try (assert (H1 : 1 <= own th) by (apply Hown; discriminate));
    try (assert (F0 : freed g = 0) by (rewrite Hf; destruct (Z.eqb_spec (refc g) 0); lia));
    rewrite ?own_next, ?own_finish, ?own_fallback, ?incs_next, ?incs_finish, ?incs_fallback;
    unfold thr_ok in OK; rewrite Epc in OK; cbn [pc_kont] in OK;
    unfold own, incs in *; rewrite ?Epc in *; fsimp;
    rewrite ?wrap32_small by lia; rewrite ?Ht, ?F0; cbn [orb Z.ltb Z.compare].
  all: (split; [first [apply ok_next | apply ok_finish | apply ok_fallback | (unfold thr_ok; rewrite ?Epc; fsimp; cbn [pc_kont])]|]).
  all: try (split; [lia|]); try (split; [lia|]); try (split; [lia|]).
  all: fsimp; try exact OK; try (split; [exact Hf | reflexivity]); try (unfold boundary, user, tokbit in *; intuition lia).
  all: try (split; [eqb_goal; lia | reflexivity]).
  all: destruct k; try discriminate; cbn [kont_inv] in OK; unfold boundary, user, tokbit in *; intuition lia.
Qed.

(* ---------- F: what get() returns ---------- *)
Definition get_ok (v : Z) (th : thread) : Prop :=
  Forall (fun p => (fst p = r_get \/ fst p = r_getx) -> snd p = v) (res th).

Lemma get_ok_next v X : get_ok v X -> get_ok v (next X).
Proof. unfold get_ok, next. destruct (prog X); exact (fun H => H). Qed.
Lemma get_ok_goto v X p : get_ok v X -> get_ok v (goto X p).
Proof. exact (fun H => H). Qed.
Lemma get_ok_addh v X d : get_ok v X -> get_ok v (addh X d).
Proof. exact (fun H => H). Qed.
Lemma get_ok_untok v X : get_ok v X -> get_ok v (untok X).
Proof. exact (fun H => H). Qed.
Lemma get_ok_logr v X tag x : ((tag = r_get \/ tag = r_getx) -> x = v) -> get_ok v X -> get_ok v (logr X tag x).
Proof. intros H G. unfold get_ok, logr; cbn. constructor; [exact H | exact G]. Qed.
Lemma get_ok_finish v X K : get_ok v X -> get_ok v (finish X K).
Proof.
  intros G. destruct K as [|[|]|p u|]; cbn [finish]; try exact G.
  - apply get_ok_next, get_ok_logr; [unfold r_wait, r_get, r_getx; lia | exact G].
  - apply get_ok_next, get_ok_logr; [unfold r_waitfor, r_get, r_getx; lia | exact G].
  - apply get_ok_next; exact G.
Qed.
Lemma get_ok_fallback v X K : get_ok v X -> get_ok v (fallback X K).
Proof. intros G. destruct K as [|g|p [|]|]; cbn; try exact G. apply get_ok_next; exact G. Qed.
Lemma get_ok_wake1 v x : get_ok v x -> get_ok v (wake1 x).
Proof. unfold get_ok. destruct (wake1_fields x) as (_ & -> & _). exact (fun H => H). Qed.

Lemma res_next X : res (next X) = res X.
Proof. unfold next. destruct (prog X); reflexivity. Qed.
Lemma res_fallback X K : res (fallback X K) = res X.
Proof. destruct K as [|g|p [|]|]; cbn [fallback]; rewrite ?res_next; reflexivity. Qed.

Ltac get_ok_tac G :=
  try apply get_ok_finish; unfold get_ok in *; rewrite ?res_next, ?res_fallback; cbn [res logr goto addh untok];
  repeat (constructor; [cbn [fst snd]; unfold r_get, r_getx, r_wait, r_waitfor, r_ready, r_func, r_disp, r_dealloc, r_tswait; try lia|]);
  try exact G.

Lemma F_tstep c g th ch g' th' wk ch' site :
  tstep c g th ch = Some (g', th', wk, ch', site) -> get_ok (val c) th -> rr_ok g th ->
  (word g = 2 -> cell g = val c) -> val c <> 0 -> bad_get g = false ->
  get_ok (val c) th' /\ bad_get g' = false.
Proof.
  intros T G R Hc Hv Hb. unfold rr_ok in R.
  tcases T; fsimp; (split; [get_ok_tac G | try exact Hb]).
  all: assert (W : word g = 2) by (apply R; reflexivity); specialize (Hc W).
  1,3: intros _; exact Hc.
  all: rewrite Hb, W, Hc; cbn [orb negb kReady Z.eqb Pos.eqb]; destruct (Z.eqb_spec (val c) 0); [contradiction | reflexivity].
Qed.

(* ---------- the global invariant ---------- *)
Lemma zsum_le {A} (f h : A -> Z) l : (forall x, In x l -> f x <= h x) -> zsum f l <= zsum h l.
Proof.
  induction l as [|a l IH]; intros H; [cbn; lia|]. change (f a + zsum f l <= h a + zsum h l).
  assert (f a <= h a) by (apply H; left; reflexivity). assert (zsum f l <= zsum h l) by (apply IH; intros; apply H; right; assumption). lia.
Qed.
Lemma zsum_map {A B} (f : B -> Z) (h : A -> B) l : zsum f (map h l) = zsum (fun x => f (h x)) l.
Proof. unfold zsum. induction l as [|a l IH]; cbn; [reflexivity | rewrite IH; reflexivity]. Qed.
Lemma zsum_ext {A} (f h : A -> Z) l : (forall x, f x = h x) -> zsum f l = zsum h l.
Proof. intros E. unfold zsum. induction l as [|a l IH]; cbn; [reflexivity | rewrite IH, E; reflexivity]. Qed.
Lemma zsum_const0 {A} (f : A -> Z) l : (forall x, f x = 0) -> zsum f l = 0.
Proof. intros E. unfold zsum. induction l as [|a l IH]; cbn; [reflexivity | rewrite IH, E; reflexivity]. Qed.

Record Inv18 (B : Z) (s : state) : Prop := {
  iK : 0 <= orphan (conf s) /\ val (conf s) <> 0 /\ B < 4294967296;
  iA1 : word_ok (sh s);
  iA2 : Forall (rr_ok (sh s)) (threads s);
  iB1 : zsum win (threads s) = b1 (word (sh s));
  iB2 : zsum inf (threads s) + fcount (sh s) = b0 (word (sh s));
  iB3 : cell_ok (conf s) (sh s);
  iC1 : Forall thr_ok (threads s);
  iC2 : refc (sh s) = orphan (conf s) + conts (sh s) + zsum own (threads s);
  iC3 : 0 <= conts (sh s);
  iC4 : refc (sh s) + zsum incs (threads s) <= B;
  iC5 : freed_ok (sh s);
  iF1 : Forall (get_ok (val (conf s))) (threads s);
  iF2 : bad_get (sh s) = false }.

Lemma own_nonneg_all ths : Forall thr_ok ths -> forall y, In y ths -> 0 <= own y.
Proof.
  intros F y Hy. rewrite Forall_forall in F. destruct (thr_ok_own _ (F _ Hy)) as (H0 & Hk & _). unfold own, tokbit in *. lia.
Qed.

(* consequences used both in the step proof and in the theorems *)
Lemma inv_ready_cell B s : Inv18 B s -> word (sh s) = 2 -> fcount (sh s) = 1 /\ cell (sh s) = val (conf s).
Proof.
  intros I W. destruct I. rewrite W in *. unfold b1, b0 in *; cbn in iB4, iB5.
  assert (zsum inf (threads s) <= zsum win (threads s)) by (apply zsum_le; intros x _; apply inf_le_win).
  assert (0 <= zsum inf (threads s)) by (apply zsum_nonneg; intros x _; apply inf_le_win).
  destruct iB6 as (C0 & C1 & C2). assert (fcount (sh s) = 1) by lia. split; [assumption | apply C2; lia].
Qed.

Lemma Inv18_step B s t ch s' ch' site : Inv18 B s -> step s t ch = Some (s', ch', site) -> Inv18 B s'.
Proof.
  intros I E. pose proof (inv_ready_cell _ _ I) as RC.
  destruct I as [K A1 A2 B1 B2 B3 C1 C2 C3 C4 C5 F1 F2].
  destruct (step_inv _ _ _ _ _ _ E) as (th & g' & th' & wk & N & T & ->). clear E.
  pose proof (nth_error_In _ _ N) as Hin.
  pose proof A2 as A2'. rewrite Forall_forall in A2'. pose proof (A2' _ Hin) as Rth.
  pose proof C1 as C1'. rewrite Forall_forall in C1'. pose proof (C1' _ Hin) as OKth.
  pose proof F1 as F1'. rewrite Forall_forall in F1'. pose proof (F1' _ Hin) as Gth.
  pose proof (own_nonneg_all _ C1) as Hon.
  assert (Hw : win th = 1 -> word (sh s) = 1).
  { intros W1. pose proof (zsum_ge_elem win _ _ (fun y _ => proj1 (win_range y)) Hin) as L. rewrite B1 in L. unfold b1 in L.
    destruct (Z.eqb_spec (word (sh s)) 1); [assumption | lia]. }
  assert (Ho : own th <= refc (sh s)).
  { pose proof (zsum_ge_elem own _ _ Hon Hin). destruct K. lia. }
  assert (Hb : refc (sh s) + incs th <= B).
  { pose proof (zsum_ge_elem incs _ _ (fun y _ => incs_nonneg y) Hin). lia. }
  destruct K as (K1 & K2 & K3).
  destruct (A_tstep _ _ _ _ _ _ _ _ _ T A1 Rth) as (A1' & Rth' & Wd).
  destruct (B_tstep _ _ _ _ _ _ _ _ _ T Hw B3) as (D1 & D2 & B3').
  destruct (C_tstep _ _ _ _ _ _ _ _ _ B T OKth Ho C3 Hb K3 C5) as (OK' & D3 & C3' & D4 & C5').
  destruct (F_tstep _ _ _ _ _ _ _ _ _ T Gth Rth (fun W => proj2 (RC W)) K2 F2) as (G' & F2').
  constructor; cbn [conf sh threads].
  - auto.
  - exact A1'.
  - apply Forall_step with (P := rr_ok (sh s)); auto.
    + unfold rr_ok. intros x Hx Rx. specialize (Hx Rx). lia.
    + unfold rr_ok. intros x Hx. rewrite rr_wake1. exact Hx.
  - rewrite (zsum_step win wk _ t th th' win_wake1 N). lia.
  - rewrite (zsum_step inf wk _ t th th' inf_wake1 N). lia.
  - exact B3'.
  - apply Forall_step with (P := thr_ok); auto. apply ok_wake1.
  - rewrite (zsum_step own wk _ t th th' own_wake1 N). lia.
  - exact C3'.
  - rewrite (zsum_step incs wk _ t th th' incs_wake1 N). lia.
  - exact C5'.
  - apply Forall_step with (P := get_ok (val (conf s))); auto. apply get_ok_wake1.
  - exact F2'.
Qed.

(* ---------- initial states ---------- *)
Definition refc0 (c : cfg) (ds : list tdesc) : Z := orphan c + zsum (fun d => let '(h, k, _) := d in h + k) ds.
Definition wf_init (B : Z) (c : cfg) (ds : list tdesc) : Prop :=
  Forall (fun d => let '(h, k, p) := d in boundary h k p) ds /\
  0 <= orphan c /\ val c <> 0 /\ B < 4294967296 /\ 1 <= refc0 c ds /\
  refc0 c ds + zsum (fun d => let '(_, _, p) := d in count_incs p) ds <= B.

Lemma Inv18_init B c ds : wf_init B c ds -> Inv18 B (init c ds).
Proof.
  intros (W & O & V & HB & R1 & RB). unfold refc0 in *.
  constructor; cbn [conf sh threads init init_sh word refc conts cell fcount freed bad_touch bad_get].
  - auto.
  - left; reflexivity.
  - apply Forall_forall. intros x Hx. apply in_map_iff in Hx. destruct Hx as [[[h k] p] [<- _]]. intros R; discriminate R.
  - rewrite zsum_map. apply zsum_const0. intros [[h k] p]. reflexivity.
  - rewrite zsum_map. rewrite (zsum_const0 (fun x => inf (mk_thread x))); [reflexivity | intros [[h k] p]; reflexivity].
  - unfold cell_ok; cbn. split; [lia | split; [reflexivity | intros H; contradiction H; reflexivity]].
  - apply Forall_forall. intros x Hx. apply in_map_iff in Hx. destruct Hx as [[[h k] p] [<- Hd]].
    rewrite Forall_forall in W. exact (W _ Hd).
  - rewrite zsum_map. rewrite (zsum_ext (fun x => own (mk_thread x)) (fun d => let '(h, k, _) := d in h + k)); [rewrite Z.add_0_r; reflexivity | intros [[h k] p]; reflexivity].
  - lia.
  - rewrite zsum_map. rewrite (zsum_ext (fun x => incs (mk_thread x)) (fun d => let '(_, _, p) := d in count_incs p)); [exact RB|].
    intros [[h k] p]. unfold incs; cbn [mk_thread prog tpc]. lia.
  - unfold freed_ok; cbn. split; [|reflexivity]. destruct (Z.eqb_spec (orphan c + zsum (fun d => let '(h, k, _) := d in h + k) ds) 0); [lia | reflexivity].
  - apply Forall_forall. intros x Hx. apply in_map_iff in Hx. destruct Hx as [[[h k] p] [<- _]]. constructor.
  - reflexivity.
Qed.

Theorem inv18_reach B c ds s : wf_init B c ds -> reach step (init c ds) s -> Inv18 B s.
Proof.
  intros W R. apply (reach_inv step (Inv18 B) (init c ds)); [apply Inv18_init; exact W | | exact R].
  intros s1 t ch s1' ch' site I E. eapply Inv18_step; eauto.
Qed.

(* ---------- the C18 theorems ---------- *)
Theorem functor_runs_once B c ds s : wf_init B c ds -> reach step (init c ds) s ->
  fcount (sh s) + zsum inf (threads s) = (if word (sh s) =? kNotStarted then 0 else 1) /\
  0 <= fcount (sh s) <= 1 /\
  zsum win (threads s) = (if word (sh s) =? kRunning then 1 else 0) /\
  (word (sh s) = kReady -> fcount (sh s) = 1 /\ cell (sh s) = val c).
Proof.
  intros W R. pose proof (inv18_reach _ _ _ _ W R) as I. pose proof (inv_ready_cell _ _ I) as RC. destruct I as [K A1 A2 B1 B2 B3 C1 C2 C3 C4 C5 F1 F2].
  assert (0 <= zsum inf (threads s)) by (apply zsum_nonneg; intros x _; apply inf_le_win).
  destruct B3 as (C0 & _). unfold b0, b1, kNotStarted, kRunning, kReady in *.
  assert (Ec : conf s = c).
  { clear -R. induction R as [|s1 t ch s1' ch' site R IH E]; [reflexivity|].
    destruct (step_inv _ _ _ _ _ _ E) as (th & g' & th' & wk & _ & _ & ->). exact IH. }
  rewrite Ec in RC. split; [destruct (word (sh s) =? 0); lia|]. split; [destruct (word (sh s) =? 0); lia|].
  split; [exact B1 | exact RC].
Qed.

Lemma conf_reach c ds s : reach step (init c ds) s -> conf s = c.
Proof.
  intros R. induction R as [|s1 t ch s1' ch' site R IH E]; [reflexivity|].
  destruct (step_inv _ _ _ _ _ _ E) as (th & g' & th' & wk & _ & _ & ->). exact IH.
Qed.

Theorem get_after_ready B c ds s : wf_init B c ds -> reach step (init c ds) s ->
  bad_get (sh s) = false /\
  (forall th tag v, In th (threads s) -> In (tag, v) (res th) -> tag = r_get \/ tag = r_getx -> v = val c) /\
  (forall th, In th (threads s) -> tpc th = PGetResult -> word (sh s) = kReady /\ cell (sh s) = val c).
Proof.
  intros W R. pose proof (inv18_reach _ _ _ _ W R) as I. pose proof (inv_ready_cell _ _ I) as RC.
  rewrite (conf_reach _ _ _ R) in RC. destruct I as [K A1 A2 B1 B2 B3 C1 C2 C3 C4 C5 F1 F2]. cbn beta in *. rewrite (conf_reach _ _ _ R) in *. split; [assumption|]. split.
  - intros th tag v Hth Hr Ht. rewrite Forall_forall in F1. specialize (F1 _ Hth). unfold get_ok in F1.
    rewrite Forall_forall in F1. exact (F1 _ Hr Ht).
  - intros th Hth P. rewrite Forall_forall in A2. specialize (A2 _ Hth). unfold rr_ok in A2. rewrite P in A2.
    assert (word (sh s) = 2) by (apply A2; reflexivity). split; [assumption | apply RC; assumption].
Qed.

Theorem refcount_safe B c ds s : wf_init B c ds -> reach step (init c ds) s ->
  bad_touch (sh s) = false /\
  freed (sh s) = (if refc (sh s) =? 0 then 1 else 0) /\
  refc (sh s) = orphan c + conts (sh s) + zsum own (threads s) /\
  (forall th, In th (threads s) -> 0 <= hnd th /\ (tok th = 0 \/ tok th = 1) /\
       (tpc th <> PStart -> tpc th <> PDone -> 1 <= own th /\ freed (sh s) = 0)).
Proof.
  intros W R. pose proof (inv18_reach _ _ _ _ W R) as I. destruct I as [K A1 A2 B1 B2 B3 C1 C2 C3 C4 C5 F1 F2]. rewrite (conf_reach _ _ _ R) in *.
  destruct C5 as (Hf & Ht). split; [assumption|]. split; [assumption|]. split; [assumption|].
  intros th Hth. pose proof C1 as OK. rewrite Forall_forall in OK. destruct (thr_ok_own _ (OK _ Hth)) as (H0 & Hk & H1).
  split; [assumption|]. split; [exact Hk|]. intros N1 N2. specialize (H1 N1 N2). split; [assumption|].
  pose proof (zsum_ge_elem own _ _ (own_nonneg_all _ C1) Hth). destruct K as (K1 & _).
  rewrite Hf. destruct (Z.eqb_spec (refc (sh s)) 0); [lia | reflexivity].
Qed.

(* ---------- non-vacuity witness ---------- *)
Definition nv_cfg := CFG true false 7 false false false 0.
Definition nv_ds : list tdesc := [(0, 1, [ORun]); (1, 0, [OGet; ODrop]); (1, 0, [OCopy; OWait; ODrop; ODrop])].
Lemma nonvacuous_c18 :
  wf_init 100 nv_cfg nv_ds /\
  let '(s, _, st) := run_future 80 nv_cfg nv_ds [0;1;2;0;1;2;0;1;2;0;1;2;0;1;2;0;1;2;0;1;2;0;1;2;0;1;2;0;1;2;0;1;2;0;1;2;0;0;0;0;0;0;0;0;0;0] in
  st = SDone /\ fcount (sh s) = 1 /\ freed (sh s) = 1 /\ refc (sh s) = 0 /\
  map (fun th => rev (res th)) (threads s) = [[(r_func, 1)]; [(r_get, 7); (r_dealloc, 1)]; [(r_wait, 1)]].
Proof.
  split.
  - unfold wf_init, nv_ds, nv_cfg, refc0. split.
    + apply Forall_cons; [|apply Forall_cons; [|apply Forall_cons; [|apply Forall_nil]]]; unfold boundary, tokbit; cbn; intuition lia.
    + cbn. repeat split; lia.
  - vm_compute. repeat split; reflexivity.
Qed.
