(* C27, the end-to-end statement for pipelines whose stages never throw: when pipeline() has returned, every item 0..n-1 was
   generated exactly once and entered and left, exactly once, every stage up to the first one that filters it out; nothing was left
   in a gate queue (orphans are recovered by wait()).  Safety statement over all interleavings; termination is not proved. *)
From Coq Require Import ZArith List Bool Lia.
From DV Require Import Base.MachInt Base.Sched Model.PipelineModel Proofs.PipelineProofs Proofs.C27Proofs Proofs.C27FlowProofs
                       Proofs.C27OnceProofs Proofs.C27PhaseProofs.
Import ListNotations.
Local Open Scope Z_scope.

Definition dropped_before (c : cfg) (j : nat) (tag : Z) : bool := existsb (fun m => drops_at c m (tag, 0)) (seq 0 j).

Lemma dropped_before_S c j tag : dropped_before c (S j) tag = dropped_before c j tag || drops_at c j (tag, 0).
Proof. unfold dropped_before. rewrite seq_S, existsb_app. cbn. rewrite orb_false_r. reflexivity. Qed.

Lemma total_zero_between m s : nonneg m -> total m s <= 0 -> total m s = 0.
Proof. intros N L. pose proof (total_nonneg m s N). lia. Qed.

Lemma nonneg_gl : nonneg m_gl.
Proof. repeat split; intros; cbn; try lia. destruct f; try lia. apply bz_nonneg. Qed.

Section End.
  Variable c : cfg.
  Variable s : state.
  Hypothesis NT : no_throw c.
  Hypothesis H0 : (0 < nstages c)%nat.
  Hypothesis R : reach (mstep c) (init c) s.
  Hypothesis RES : result (sh s) <> None.

  Let INV := phase_invariants c s NT H0 R.

  Lemma end_closed : closed c (sh s) (nstages c).
  Proof. destruct INV as (_ & _ & _ & _ & _ & (_ & RS & _)). exact (RS RES). Qed.

  Lemma end_out_zero j : (j < nstages c)%nat -> total (m_out j) s = 0.
  Proof. intros L. destruct INV as (_ & _ & O & _). rewrite <- (O j L). destruct end_closed as [_ CO]. apply CO; assumption. Qed.

  Lemma end_gl_zero : total m_gl s = 0.
  Proof.
    destruct INV as (W & _ & _ & [G _] & _). apply total_zero_between; [apply nonneg_gl|].
    pose proof (gl_le_genc c s W). destruct end_closed as [C0 _]. lia.
  Qed.

  Lemma end_pre_zero j tag : (j < nstages c)%nat -> total (m_pre j tag) s = 0.
  Proof.
    intros L. apply total_zero_between; [apply nonneg_pre|]. destruct j as [|j].
    - pose proof (pre0_le tag s) as P. rewrite total_plus, (end_out_zero 0 L), end_gl_zero in P. lia.
    - pose proof (preS_le j tag s) as P. rewrite total_plus, (end_out_zero (S j) L), (end_out_zero j ltac:(lia)) in P. lia.
  Qed.

  Lemma end_post_zero j tag : (j < nstages c)%nat -> total (m_post j tag) s = 0.
  Proof. intros L. apply total_zero_between; [apply nonneg_post|]. pose proof (post_le j tag s). rewrite (end_out_zero j L) in H. lia. Qed.

  Lemma end_log_kinds e : In e (log (sh s)) -> bad_kind (e_kind e) = false /\ e_kind e <> 11.
  Proof.
    intros He. destruct INV as (_ & _ & _ & _ & [(_ & _ & NL) _] & (_ & _ & K11 & _)).
    rewrite Forall_forall in NL, K11. split; [apply NL | apply K11]; exact He.
  Qed.

  Lemma end_lost_zero j tag : total (m_lost j tag) s = 0.
  Proof.
    apply total_lost_zero. intros e He. destruct (end_log_kinds e He) as [B K]. unfold bad_kind in B.
    repeat (apply orb_false_iff in B; destruct B as [B ?]).
    repeat match goal with H : (_ =? _) = false |- _ => apply Z.eqb_neq in H end. repeat split; assumption.
  Qed.

  Lemma end_thrown_zero j tag : count_ev 3 j tag (log (sh s)) = 0.
  Proof. apply count_ev_zero. intros e He E. destruct (end_log_kinds e He) as [B _]. rewrite E in B. discriminate. Qed.

  Lemma end_fin_zero j tag :
    drops_at c j (tag, 0) = false -> (S j < nstages c)%nat -> count_ev 17 j tag (log (sh s)) = 0.
  Proof.
    intros D L. pose proof (fin_invariant c s R) as F. rewrite Forall_forall in F.
    unfold count_ev. apply sumf_zero. intros e He. unfold evw.
    destruct (Z.eqb_spec (e_kind e) 17) as [K|K]; [|reflexivity]. destruct (Z.eqb_spec (e_j e) (Z.of_nat j)) as [J|J]; [|reflexivity].
    destruct (Z.eqb_spec (e_tag e) tag) as [T|T]; [|reflexivity]. exfalso.
    destruct (F e He K) as [X|X]; rewrite J, Nat2Z.id in X; [rewrite T in X; congruence | lia].
  Qed.

  Lemma end_generated tag : 0 <= tag < c_nitems c -> total (m_gen4 tag) s = 1.
  Proof.
    intros [T0 T1]. destruct (flow_invariant c s H0 R tag) as (_ & I4 & _). rewrite I4. unfold gen4_val.
    destruct INV as (_ & _ & _ & _ & _ & (_ & _ & _ & _ & GD)). destruct end_closed as [C0 _]. pose proof (ninst_pos c).
    assert (c_nitems c <= gnext (sh s)) by (apply GD; right; lia). pose proof NT as [NG _].
    replace (0 <=? tag) with true by (symmetry; apply Z.leb_le; lia). replace (tag <? gnext (sh s)) with true by (symmetry; apply Z.ltb_lt; lia).
    replace (tag <? c_nitems c) with true by (symmetry; apply Z.ltb_lt; lia). replace (tag =? c_gthrow c) with false by (symmetry; apply Z.eqb_neq; lia).
    reflexivity.
  Qed.

  Lemma end_entered tag j :
    0 <= tag < c_nitems c -> (j < nstages c)%nat -> dropped_before c j tag = false -> count_ev 1 j tag (log (sh s)) = 1.
  Proof.
    intros T. induction j as [|j IH]; intros L D.
    - destruct (flow_invariant c s H0 R tag) as (I0 & _ & _). rewrite Q0_split in I0.
      rewrite (end_pre_zero 0 tag L), (end_lost_zero 0 tag), (end_generated tag T), total_ev in I0. lia.
    - rewrite dropped_before_S in D. apply orb_false_iff in D. destruct D as [D1 D2].
      specialize (IH ltac:(lia) D1). destruct (flow_invariant c s H0 R tag) as (_ & _ & IQ). specialize (IQ j). rewrite Q_split in IQ.
      rewrite (end_post_zero j tag ltac:(lia)), (end_pre_zero (S j) tag L), (end_lost_zero (S j) tag), !total_ev in IQ.
      rewrite (end_thrown_zero j tag), (end_fin_zero j tag D2 L), IH in IQ. lia.
  Qed.

  Lemma end_exited tag j :
    0 <= tag < c_nitems c -> (j < nstages c)%nat -> dropped_before c j tag = false -> count_ev 2 j tag (log (sh s)) = 1.
  Proof.
    intros T L D. pose proof (body_invariant c s j tag H0 R) as IB. rewrite B_split, !total_ev in IB.
    pose proof (body_le_post j tag s) as BP. rewrite (end_post_zero j tag L) in BP.
    assert (B0 : 0 <= total (m_body j tag) s).
    { apply total_nonneg. repeat split; intros; cbn; unfold body_f, z3; try lia.
      destruct f; try lia. destruct pc; try lia. apply bz_nonneg. }
    rewrite (end_thrown_zero j tag), (end_entered tag j T L D) in IB. lia.
  Qed.
End End.

Theorem pipeline_returns_after_all c s r :
  no_throw c -> (0 < nstages c)%nat -> reach (mstep c) (init c) s -> result (sh s) = Some r ->
  r = -1 /\
  (forall tag, 0 <= tag < c_nitems c ->
     total (m_gen4 tag) s = 1 /\
     forall j, (j < nstages c)%nat -> dropped_before c j tag = false ->
       count_ev 1 j tag (log (sh s)) = 1 /\ count_ev 2 j tag (log (sh s)) = 1) /\
  (forall e, In e (log (sh s)) -> e_kind e <> 11).
Proof.
  intros NT H0 R RES. assert (RN : result (sh s) <> None) by congruence.
  split; [|split].
  - destruct (phase_invariants c s NT H0 R) as (_ & _ & _ & _ & _ & (_ & _ & _ & RV & _)). exact (RV r RES).
  - intros tag T. split; [apply (end_generated c s NT H0 R RN tag T)|]. intros j L D.
    split; [apply (end_entered c s NT H0 R RN tag j T L D) | apply (end_exited c s NT H0 R RN tag j T L D)].
  - intros e He. apply (end_log_kinds c s NT H0 R e He).
Qed.

(* whenever the caller is past wait() of every stage, all gate queues are empty (and stay so): an item orphaned by the race between
   the completion callback and a concurrent enqueue has been dispatched by wait()'s drain loop *)
Theorem orphan_recovered c s :
  no_throw c -> (0 < nstages c)%nat -> reach (mstep c) (init c) s -> result (sh s) <> None ->
  Forall (fun g => g_q g = []) (gates (sh s)).
Proof.
  intros NT H0 R RN. destruct (phase_invariants c s NT H0 R) as (W & _ & O & _ & _ & (_ & RS & _)).
  exact (closed_queues_empty c s W O (RS RN)).
Qed.
