(* Helper lemmas and the invariant definitions for the Chase-Lev deque model (Model/ChaseLevModel.v); used by Proofs/C36Proofs.v *)
From Coq Require Import ZArith List Bool Lia Permutation.
From DV Require Import Base.MachInt Base.Sched Model.ChaseLevModel.
Import ListNotations.
Local Open Scope Z_scope.

(* ---------- list helpers ---------- *)
Lemma in_set_nth {A} (l : list A) t x y : In y (set_nth l t x) -> y = x \/ In y l.
Proof.
  revert t; induction l as [|a l IH]; intros t H; [destruct t; contradiction|].
  destruct t as [|t]; cbn in H.
  - destruct H as [<-|H]; [left; reflexivity | right; right; exact H].
  - destruct H as [<-|H]; [right; left; reflexivity|]. destruct (IH _ H) as [->|H']; [left; reflexivity | right; right; exact H'].
Qed.

Lemma Forall_set_nth {A} (P : A -> Prop) l t x : Forall P l -> P x -> Forall P (set_nth l t x).
Proof.
  intros F Px. apply Forall_forall. intros y Hy. destruct (in_set_nth _ _ _ _ Hy) as [->|H]; [exact Px|].
  rewrite Forall_forall in F. apply F, H.
Qed.

Lemma length_set_nth {A} (l : list A) t x : length (set_nth l t x) = length l.
Proof. revert t; induction l as [|a l IH]; intros [|t]; cbn; auto. Qed.

Lemma nth_set_nth_same {A} (l : list A) n x d : (n < length l)%nat -> nth n (set_nth l n x) d = x.
Proof. revert n; induction l as [|a l IH]; intros [|n] H; cbn in *; try lia; auto. apply IH. lia. Qed.

Lemma nth_set_nth_other {A} (l : list A) n m x d : n <> m -> nth n (set_nth l m x) d = nth n l d.
Proof. revert n m; induction l as [|a l IH]; intros [|n] [|m] H; cbn; auto; try congruence. Qed.

Lemma nth_error_set_nth_same {A} (l : list A) n x old : nth_error l n = Some old -> nth_error (set_nth l n x) n = Some x.
Proof. revert n; induction l as [|a l IH]; intros [|n] H; cbn in *; try discriminate; auto. Qed.

Lemma nth_error_set_nth_other {A} (l : list A) n m x : n <> m -> nth_error (set_nth l m x) n = nth_error l n.
Proof. revert n m; induction l as [|a l IH]; intros [|n] [|m] H; cbn; auto; try congruence. Qed.

Lemma flat_map_set_nth_same {A B} (f : A -> list B) l n x old :
  nth_error l n = Some old -> f x = f old -> flat_map f (set_nth l n x) = flat_map f l.
Proof.
  revert n; induction l as [|a l IH]; intros [|n] H E; cbn in *; try discriminate; auto.
  - injection H as ->. rewrite E. reflexivity.
  - f_equal. eauto.
Qed.

Lemma flat_map_set_nth_cons {A B} (f : A -> list B) l n x old v :
  nth_error l n = Some old -> f x = v :: f old -> Permutation (flat_map f (set_nth l n x)) (v :: flat_map f l).
Proof.
  revert n; induction l as [|a l IH]; intros [|n] H E; cbn in *; try discriminate.
  - injection H as ->. rewrite E. reflexivity.
  - rewrite (IH _ H E). symmetry. apply Permutation_middle.
Qed.

(* ---------- slots ---------- *)
Definition pow2cap (cp : Z) : Prop := exists k, 0 <= k /\ cp = 2 ^ k.

Lemma pow2cap_pos cp : pow2cap cp -> 0 < cp.
Proof. intros [k [Hk ->]]. apply pow2_pos; exact Hk. Qed.

Lemma sidx_mod cp i : pow2cap cp -> Z.of_nat (sidx cp i) = i mod cp.
Proof.
  intros [k [Hk ->]]. unfold sidx.
  replace (2 ^ k - 1) with (Z.ones k) by (rewrite Z.ones_equiv; lia).
  rewrite Z.land_ones by lia. rewrite Z2Nat.id; [reflexivity|].
  apply Z.mod_pos_bound. apply pow2_pos; exact Hk.
Qed.

Lemma sidx_lt cp (sl : list Z) i : pow2cap cp -> length sl = Z.to_nat cp -> (sidx cp i < length sl)%nat.
Proof.
  intros P L. pose proof (sidx_mod cp i P) as E. pose proof (pow2cap_pos _ P) as C.
  pose proof (Z.mod_pos_bound i cp C). lia.
Qed.

Lemma sidx_neq cp i b : pow2cap cp -> 0 < b - i < cp -> sidx cp i <> sidx cp b.
Proof.
  intros P R E. pose proof (sidx_mod cp i P) as Ei. pose proof (sidx_mod cp b P) as Eb. rewrite E in Ei.
  assert (M : i mod cp = b mod cp) by lia.
  assert (Z0 : (b - i) mod cp = 0) by (rewrite Zminus_mod, M, Z.sub_diag; apply Z.mod_0_l; lia).
  rewrite Z.mod_small in Z0 by lia. lia.
Qed.

Lemma rd_wr_same cp sl b v : pow2cap cp -> length sl = Z.to_nat cp -> rd cp (wr cp sl b v) b = v.
Proof. intros P L. unfold rd, wr. apply nth_set_nth_same. apply sidx_lt; assumption. Qed.

Lemma rd_wr_other cp sl b v i : sidx cp i <> sidx cp b -> rd cp (wr cp sl b v) i = rd cp sl i.
Proof. intros N. unfold rd, wr. apply nth_set_nth_other. exact N. Qed.

(* ---------- ranges and the logical content ---------- *)
Lemma zrange_snoc n : forall a, zrange a (S n) = zrange a n ++ [a + Z.of_nat n].
Proof.
  induction n as [|n IH]; intros a.
  - cbn. f_equal. lia.
  - change (zrange a (S (S n))) with (a :: zrange (a + 1) (S n)). rewrite IH. cbn [zrange app]. do 3 f_equal. lia.
Qed.

Lemma in_zrange n : forall a i, In i (zrange a n) -> a <= i < a + Z.of_nat n.
Proof.
  induction n as [|n IH]; intros a i H; cbn [zrange] in H; [contradiction|].
  destruct H as [<-|H]; [lia|]. apply IH in H. lia.
Qed.

Lemma cont_snoc tp lb sl cp : tp <= lb -> cont tp (lb + 1) sl cp = cont tp lb sl cp ++ [rd cp sl lb].
Proof.
  intros H. unfold cont. replace (Z.to_nat (lb + 1 - tp)) with (S (Z.to_nat (lb - tp))) by lia.
  rewrite zrange_snoc, map_app. cbn [map]. do 3 f_equal. lia.
Qed.

Lemma cont_head tp lb sl cp : tp < lb -> cont tp lb sl cp = rd cp sl tp :: cont (tp + 1) lb sl cp.
Proof.
  intros H. unfold cont. replace (Z.to_nat (lb - tp)) with (S (Z.to_nat (lb - (tp + 1)))) by lia. reflexivity.
Qed.

Lemma cont_empty tp lb sl cp : lb <= tp -> cont tp lb sl cp = [].
Proof. intros H. unfold cont. replace (Z.to_nat (lb - tp)) with O by lia. reflexivity. Qed.

Lemma cont_wr tp lb sl cp b v :
  pow2cap cp -> lb <= b -> b - tp < cp -> cont tp lb (wr cp sl b v) cp = cont tp lb sl cp.
Proof.
  intros P H1 H2. unfold cont. apply map_ext_in. intros i Hi. apply in_zrange in Hi.
  apply rd_wr_other. apply sidx_neq; [exact P | lia].
Qed.

Lemma cont_length tp lb sl cp : Z.of_nat (length (cont tp lb sl cp)) = Z.max 0 (lb - tp).
Proof.
  unfold cont. rewrite map_length.
  assert (L : forall n a, length (zrange a n) = n) by (induction n as [|n IH]; intros a; cbn; auto).
  rewrite L. lia.
Qed.

(* ---------- the invariant ---------- *)
(* a thief whose CAS could still succeed must not take the element the owner is taking without CAS *)
Definition nores (opc : pc) (t : Z) : Prop := match opc with PPopSlot b t0 => t0 < b -> t < b | _ => True end.

Definition steal_ok (tp lb : Z) (sl : list Z) (cp : Z) (opc p : pc) : Prop :=
  match p with
  | PStealLoadB t => t <= tp
  | PStealSlot t => t <= tp /\ (tp = t -> t < lb /\ nores opc t)
  | PStealCas t out => t <= tp /\ (tp = t -> t < lb /\ nores opc t /\ out = rd cp sl t)
  | _ => True
  end.

Definition owner_ok (tp bt : Z) (sl : list Z) (cp : Z) (p : pc) : Prop :=
  match p with
  | PPushLoadT v b => b = bt
  | PPushSlot v b => b = bt /\ b - tp < cp
  | PPushStoreB v b => b = bt /\ b - tp < cp /\ rd cp sl b = v
  | PPopStoreB b => b = bt - 1
  | PPopLoadT b => b = bt
  | PPopRestore b => b = bt
  | PPopSlot b t => b = bt /\ t <= b /\ (t < b -> tp <= b)
  | PPopStoreB2 b t out => b = bt /\ t = b /\ out = rd cp sl b
  | PPopCas b t out => bt = b + 1 /\ t = b /\ out = rd cp sl b
  | _ => True
  end.

Definition steal_pc (p : pc) : bool :=
  match p with PStart | PDone | PStealLoadT | PStealLoadB _ | PStealSlot _ | PStealCas _ _ => true | _ => false end.
Definition steal_op (o : op) : Prop := o = OSteal.
Definition steal_only (th : thread) : Prop := steal_pc (tpc th) = true /\ Forall steal_op (prog th).

Definition thief_ok (tp lb : Z) (sl : list Z) (cp : Z) (opc : pc) (th : thread) : Prop :=
  steal_only th /\ steal_ok tp lb sl cp opc (tpc th).

Definition InvC (tp bt : Z) (sl : list Z) (cp : Z) (ow : thread) (ths : list thread) : Prop :=
  pow2cap cp /\ length sl = Z.to_nat cp /\
  tp <= bt + resv (tpc ow) <= tp + cp /\
  owner_ok tp bt sl cp (tpc ow) /\
  steal_ok tp (bt + resv (tpc ow)) sl cp (tpc ow) (tpc ow) /\
  Forall (thief_ok tp (bt + resv (tpc ow)) sl cp (tpc ow)) ths.

Definition Inv (s : state) : Prop := InvC (top s) (bot s) (slots s) (cap s) (owner s) (thieves s).

(* what a step logged, and what that means for the content *)
Definition logged (th th' : thread) (e : option (rtag * Z)) : Prop :=
  res th' = match e with Some x => x :: res th | None => res th end.

Definition eff (e : option (rtag * Z)) (c c' : list Z) : Prop :=
  match e with
  | Some (RPushOk, v) => c' = c ++ [v]
  | Some (RPopOk, v) => c = c' ++ [v]
  | Some (RStealOk, v) => c = v :: c'
  | _ => c' = c
  end.

(* ---------- thread helpers ---------- *)
Lemma entry_resv o : resv (entry o) = 0. Proof. destruct o; reflexivity. Qed.
Lemma next_resv th : resv (tpc (next th)) = 0.
Proof. unfold next. destruct (prog th); cbn; [reflexivity | apply entry_resv]. Qed.
Lemma fin_resv th g v : resv (tpc (fin th g v)) = 0. Proof. apply next_resv. Qed.

Lemma next_owner_ok tp bt sl cp th : owner_ok tp bt sl cp (tpc (next th)).
Proof. unfold next. destruct (prog th) as [|o r]; cbn; [exact I | destruct o; exact I]. Qed.
Lemma next_steal_ok tp lb sl cp opc th : steal_ok tp lb sl cp opc (tpc (next th)).
Proof. unfold next. destruct (prog th) as [|o r]; cbn; [exact I | destruct o; exact I]. Qed.
Lemma next_nores th t : nores (tpc (next th)) t.
Proof. unfold next. destruct (prog th) as [|o r]; cbn; [exact I | destruct o; exact I]. Qed.

Lemma next_steal_only th : Forall steal_op (prog th) -> steal_only (next th).
Proof.
  intros F. unfold next. destruct (prog th) as [|o r]; split; cbn; auto.
  - inversion F as [|? ? E ?]; subst. rewrite E. reflexivity.
  - inversion F; assumption.
Qed.

Lemma res_next th : res (next th) = res th.
Proof. unfold next. destruct (prog th); reflexivity. Qed.
Lemma res_fin th g v : res (fin th g v) = (g, v) :: res th.
Proof. unfold fin. rewrite res_next. reflexivity. Qed.
Lemma prog_logr th g v : prog (logr th g v) = prog th. Proof. reflexivity. Qed.

(* weakening of a non-stepping thread's condition when top is unchanged *)
Lemma steal_ok_weaken tp lb lb' sl sl' cp opc opc' p :
  steal_ok tp lb sl cp opc p ->
  (tp < lb -> nores opc tp -> tp < lb' /\ nores opc' tp /\ rd cp sl' tp = rd cp sl tp) ->
  steal_ok tp lb' sl' cp opc' p.
Proof.
  intros H W. destruct p; cbn in *; auto.
  - destruct H as [H1 H2]. split; [exact H1|]. intros E. destruct (H2 E) as [A B]. subst t.
    destruct (W A B) as (X & Y & _). auto.
  - destruct H as [H1 H2]. split; [exact H1|]. intros E. destruct (H2 E) as (A & B & C). subst t.
    destruct (W A B) as (X & Y & Z0). rewrite Z0. auto.
Qed.

(* ... and when top is incremented: its CAS can no longer succeed *)
Lemma steal_ok_incr tp lb lb' sl sl' cp opc opc' p :
  steal_ok tp lb sl cp opc p -> steal_ok (tp + 1) lb' sl' cp opc' p.
Proof.
  intros H. destruct p; cbn in *; auto; try lia; destruct H as [H1 _]; (split; [lia | intros E; lia]).
Qed.

Lemma thieves_weaken tp lb lb' sl sl' cp opc opc' ths :
  Forall (thief_ok tp lb sl cp opc) ths ->
  (tp < lb -> nores opc tp -> tp < lb' /\ nores opc' tp /\ rd cp sl' tp = rd cp sl tp) ->
  Forall (thief_ok tp lb' sl' cp opc') ths.
Proof.
  intros F W. eapply Forall_impl; [|exact F]. intros th [A B]. split; [exact A|]. eapply steal_ok_weaken; eauto.
Qed.

Lemma thieves_incr tp lb lb' sl sl' cp opc opc' ths :
  Forall (thief_ok tp lb sl cp opc) ths -> Forall (thief_ok (tp + 1) lb' sl' cp opc') ths.
Proof.
  intros F. eapply Forall_impl; [|exact F]. intros th [A B]. split; [exact A|]. eapply steal_ok_incr; eauto.
Qed.
