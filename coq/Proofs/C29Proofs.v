(* C29: pipeline exceptions -- what holds for every interleaving of Model/PipelineModel.v (first captured exception is the one
   rethrown, a captured exception was thrown by a stage, the generator stops, the pool is left empty), and what does NOT hold
   (witnesses: leaked payload of a task skipped by the cancelled wrapper; pipeline() blocked forever on the completion latch of a
   skipped generator instance; an exception leaving execute() while tasks that reference the pipes are still queued). *)
From Coq Require Import ZArith List Bool Lia.
From DV Require Import Base.MachInt Base.Sched Model.PipelineModel Proofs.PipelineProofs Proofs.C27Proofs Proofs.C27FlowProofs
                       Proofs.C27OnceProofs Proofs.C27PhaseProofs.
Import ListNotations.
Local Open Scope Z_scope.

(* ---------- the exceptions captured by trySetCurrentException, newest first ---------- *)
Definition caps (l : list event) : list Z := map e_tag (filter (fun e => e_kind e =? 16) l).

Lemma caps_cons_other e l : (e_kind e =? 16) = false -> caps (e :: l) = caps l.
Proof. intros H. unfold caps; cbn [filter]. rewrite H. reflexivity. Qed.
Lemma caps_strand_q t j q s : caps (log (strand_q t j q s)) = caps (log s).
Proof. revert s; induction q as [|[p it] q IH]; intros s; cbn; [reflexivity|]. rewrite IH. reflexivity. Qed.
Lemma caps_strand_gates t j gs s : caps (log (strand_gates t j gs s)) = caps (log s).
Proof. revert j s; induction gs as [|g r IH]; intros j s; cbn; [reflexivity|]. rewrite IH. apply caps_strand_q. Qed.

Definition cap_ok (s : shared) : Prop :=
  result s = None -> match exc s with None => caps (log s) = [] | Some e => caps (log s) = [e] end.

Lemma cap_local c t s th ch s1 th1 ch1 site wake :
  cap_ok s -> mstep_thread c t s th ch = Some (s1, th1, ch1, site, wake) ->
  cap_ok s1 /\ (result s1 = None -> result s = None) /\
  (result s = None -> forall r, result s1 = Some r -> (exc s = None /\ r = -1 /\ caps (log s1) = []) \/ (exc s = Some r /\ caps (log s1) = [r])).
Proof.
  intros C H. unfold cap_ok in *. step_cases H th.
  all: mnorm; rewrite ?strand_gates_result, ?strand_gates_exc, ?caps_strand_gates; cbn [result exc log w_result w_exc].
  all: repeat rewrite caps_cons_other by reflexivity.
  all: split; [|split]; try (intros; congruence); try assumption.
  all: try (intros RN; specialize (C RN)).
  all: try (match goal with He : exc _ = None |- _ => rewrite He in C end).
  all: try (match goal with He : exc _ = Some _ |- _ => rewrite He in C end).
  all: try (unfold caps; cbn [filter e_kind Z.eqb Pos.eqb map e_tag]; fold (caps (log s)); rewrite C; reflexivity).
  all: try (match goal with He : exc ?s0 <> None |- _ => destruct (exc s0); [exact C | congruence] end).
  all: try (intros r0 Q; injection Q as <-).
  all: first [ left; repeat split; solve [reflexivity | exact C] | right; repeat split; solve [reflexivity | exact C] ].
Qed.

Theorem cap_invariant c s : reach (mstep c) (init c) s -> cap_ok (sh s).
Proof.
  intros R. apply (reach_inv (mstep c) (fun s => cap_ok (sh s)) (init c)); [intros _; reflexivity | | exact R].
  intros s1 t ch s1' ch' site I E. apply mstep_inv in E. destruct E as (th & s2 & th1 & wake & N & M & ->). cbn [sh].
  eapply cap_local; eauto.
Qed.

(* pipeline() rethrows exactly when an exception was captured, and it rethrows the one captured by the first (and, up to that
   moment, only) successful compare-exchange of trySetCurrentException *)
Theorem first_exception_rethrown c s t ch s' ch' site r :
  reach (mstep c) (init c) s -> mstep c s t ch = Some (s', ch', site) ->
  result (sh s) = None -> result (sh s') = Some r ->
  (exc (sh s) = None /\ r = -1 /\ caps (log (sh s')) = []) \/ (exc (sh s) = Some r /\ caps (log (sh s')) = [r]).
Proof.
  intros R E RN RS. pose proof (cap_invariant c s R) as C. apply mstep_inv in E. destruct E as (th & s2 & th1 & wake & N & M & ->). cbn [sh] in *.
  destruct (cap_local c t (sh s) th ch s2 th1 ch' site wake C M) as (_ & _ & K). exact (K RN r RS).
Qed.

(* ---------- the generator stops producing once it has observed the exception ---------- *)
Theorem generator_stops c t s th r ch s1 th1 ch1 site wake :
  stack th = FGen GExc :: r -> unw th = None -> has_exc s = true ->
  mstep_thread c t s th ch = Some (s1, th1, ch1, site, wake) ->
  stack th1 = FGen GDone :: r /\ s1 = s.
Proof.
  intros Hs Hu He H. unfold mstep_thread in H. rewrite Hs, Hu in H. cbn in H. rewrite He in H. unfold ok in H.
  injection H as <- <- _ _ _. split; reflexivity.
Qed.
(* ... and from its CompletionGuard an instance only ever goes on to notify and to return *)
Theorem generator_done_is_final c t s th r ch s1 th1 ch1 site wake pc :
  stack th = FGen pc :: r -> gen_live pc = false \/ pc = GDone ->
  mstep_thread c t s th ch = Some (s1, th1, ch1, site, wake) ->
  stack th1 = r \/ exists pc', stack th1 = FGen pc' :: r /\ (pc' = GNStore \/ pc' = GNWake).
Proof.
  intros Hs Hp H. unfold mstep_thread in H. rewrite Hs in H.
  destruct (unw th); destruct pc; cbn in Hp; destruct Hp as [Hp|Hp]; try discriminate; cbn in H; unfold ok in H.
  all: try (destruct (compl s =? 1); injection H as _ <- _ _ _; cbn; [right; eexists; split; [reflexivity | left; reflexivity] | left; reflexivity]).
  all: try (injection H as _ <- _ _ _; cbn; first [left; reflexivity | right; eexists; split; [reflexivity | right; reflexivity]]).
Qed.

(* ---------- the pool is left empty: at the step at which pipeline() returns, the task set counts no task (outstandingTaskCount_ =
   pout - gx = 0), nothing is queued, and the only wrappers still on some thread's stack are those of skipped generator tasks whose
   functor is being destroyed (program point PEnd: the CompletionGuard counts the latch down, then workRemaining_ is decremented;
   the guard shares ownership of the completion event, /repo 0db1b9f) ---------- *)
Definition m_gx : meas := MS (fun f => match f with FPool _ PEnd => 1 | _ => 0 end) (fun _ _ => 0) (fun _ => 0) (fun _ => 0).
Definition m_busy : meas := MS (fun f => match f with FPool _ PEnd => 0 | FPool _ _ => 1 | _ => 0 end) (fun _ _ => 0) (fun _ => 1) (fun _ => 0).

Lemma gx_local c t s th ch s1 th1 ch1 site wake :
  mstep_thread c t s th ch = Some (s1, th1, ch1, site, wake) -> dlt m_gx s th s1 th1 = gx s1 - gx s.
Proof.
  intros H. unfold dlt. step_cases H th.
  all: acct_pre Hst.
  all: rewrite ?(gatesw_zero m_gx) by reflexivity.
  all: rewrite ?(strandw_zero m_gx) by (intros; reflexivity).
  all: cbn [mf mq mb me m_gx gx w_gx w_pout w_exc w_result]; unfold destroy_pipes; cbn [gx w_gates].
  all: try (assert (GS : forall t0 j0 gs0 s0, gx (strand_gates t0 j0 gs0 s0) = gx s0) by
              (clear; intros t0 j0 gs0; revert j0; induction gs0 as [|g r0 IH]; intros j0 s0; cbn; [reflexivity|]; rewrite IH;
               generalize (g_q g); intros q; revert s0; induction q as [|[p it] q IHq]; intros s0; cbn; [reflexivity | rewrite IHq; reflexivity]);
            rewrite ?GS; cbn [gx w_exc w_result]).
  all: acct_fin.
Qed.

Theorem gx_invariant c s : reach (mstep c) (init c) s -> gx (sh s) = total m_gx s.
Proof.
  intros R. apply (reach_inv (mstep c) (fun s => gx (sh s) = total m_gx s) (init c)); [| | exact R].
  - rewrite init_total_frames by reflexivity. reflexivity.
  - intros s1 t ch s1' ch' site I E. apply mstep_inv in E. destruct E as (th & s2 & th1 & wake & N & M & ->).
    pose proof (gx_local c t (sh s1) th ch s2 th1 ch' site wake M) as D.
    pose proof (total_step m_gx (threads s1) t th (sh s1) s2 th1 wake eq_refl N) as T1.
    destruct s1 as [s0 ths]; cbn [sh threads] in *. lia.
Qed.

Lemma done_local c t s th ch s1 th1 ch1 site wake :
  mstep_thread c t s th ch = Some (s1, th1, ch1, site, wake) -> done s = false -> done s1 = true -> pout s1 - gx s1 = 0.
Proof.
  intros H. step_cases H th.
  all: mnorm; rewrite ?strand_gates_done, ?strand_gates_pout; cbn [done pout gx w_done w_result w_exc w_gx w_pout]; try congruence.
  all: intros _ _; bool_hyps; try lia.
  all: match goal with E : (pout _ - gx _ =? 0) = true |- _ => apply Z.eqb_eq in E; exact E end.
Qed.

Lemma busy_split s : total m_pool s = total m_busy s + total m_gx s.
Proof.
  rewrite <- total_plus. apply total_ext; intros; cbn [mf mq mb me mplus m_pool m_busy m_gx]; try lia.
  destruct f; try lia. destruct pc; lia.
Qed.

Theorem pool_usable_after c s t ch s' ch' site :
  reach (mstep c) (init c) s -> mstep c s t ch = Some (s', ch', site) -> done (sh s) = false -> done (sh s') = true ->
  pout (sh s') - gx (sh s') = 0 /\ bag (sh s') = [] /\
  forall th, In th (threads s') -> forall f, In f (stack th) -> match f with FPool _ PEnd => True | FPool _ _ => False | _ => True end.
Proof.
  intros R E D0 D1.
  assert (R' : reach (mstep c) (init c) s') by (eapply reach_step; eauto).
  pose proof (pool_invariant c s' R') as P. pose proof (gx_invariant c s' R') as G. unfold PoolInv in P. rewrite busy_split in P.
  pose proof E as E'. apply mstep_inv in E'. destruct E' as (th & s2 & th1 & wake & N & M & ->). cbn [sh] in *.
  pose proof (done_local c t (sh s) th ch s2 th1 ch' site wake M D0 D1) as P0. split; [exact P0|].
  set (st' := ST s2 (set_nth (if wake then wake_all (threads s) else threads s) t th1)) in *.
  assert (BZ : total m_busy st' = 0) by lia. unfold total, shw in BZ. rewrite gatesw_zero in BZ by reflexivity. cbn [sh threads st'] in BZ.
  set (ths' := set_nth (if wake then wake_all (threads s) else threads s) t th1) in *.
  assert (B0 : 0 <= bagw m_busy (bag s2)) by (unfold bagw; apply sumf_nonneg; intros; cbn; lia).
  assert (L0 : logw m_busy (log s2) = 0) by (unfold logw; apply sumf_zero; intros; reflexivity).
  assert (FN : forall g, 0 <= mf m_busy g) by (intros g; destruct g; cbn; try lia; destruct pc; lia).
  assert (T0 : 0 <= thsw m_busy ths') by (unfold thsw; apply sumf_nonneg; intros; apply sumf_nonneg; exact FN).
  split.
  - assert (bagw m_busy (bag s2) = 0) by lia. destruct (bag s2) as [|a l]; [reflexivity|]. unfold bagw in H; cbn [sumf mb m_busy] in H.
    assert (0 <= sumf (fun e => mb m_busy (snd e)) l) by (apply sumf_nonneg; intros; cbn; lia). cbn [mb m_busy] in *. lia.
  - intros th' Ht f Hf. cbn [threads st'] in Ht. assert (TZ : thsw m_busy ths' = 0) by lia.
    assert (FZ : mf m_busy f = 0).
    { assert (mf m_busy f <= stackw m_busy (stack th')) by (unfold stackw; apply sumf_in_le; [exact FN | exact Hf]).
      assert (stackw m_busy (stack th') <= thsw m_busy ths') by
        (unfold thsw; apply (sumf_in_le (fun th0 => stackw m_busy (stack th0))); [intros; apply sumf_nonneg; exact FN | exact Ht]).
      pose proof (FN f). lia. }
    destruct f; try exact I. destruct pc; try exact I; cbn in FZ; discriminate.
Qed.

(* ---------- what holds when no stage throws: no payload is ever skipped or stranded, pipeline() returns normally ---------- *)
Theorem no_leak_without_exceptions c s :
  no_throw c -> (0 < nstages c)%nat -> reach (mstep c) (init c) s ->
  (forall e, In e (log (sh s)) -> e_kind e <> 8 /\ e_kind e <> 11) /\ (forall r, result (sh s) = Some r -> r = -1).
Proof.
  intros NT H0 R. destruct (phase_invariants c s NT H0 R) as (_ & _ & _ & _ & [(_ & _ & NL) _] & (_ & _ & K11 & RV & _)).
  split; [|exact RV]. intros e He. rewrite Forall_forall in NL, K11. split; [|apply K11; exact He].
  intros K. specialize (NL e He). rewrite K in NL. discriminate.
Qed.

(* ================= what does NOT hold: three witnesses ================= *)
Fixpoint mrun (c : cfg) (ts : list nat) (s : state) : option state :=
  match ts with
  | [] => Some s
  | t :: r => match mstep c s t [] with Some (s', _, _) => mrun c r s' | None => None end
  end.
Lemma mrun_reach c ts : forall s s' s0, mrun c ts s = Some s' -> reach (mstep c) s0 s -> reach (mstep c) s0 s'.
Proof.
  induction ts as [|t r IH]; intros s s' s0 H R; cbn in H; [injection H as <-; exact R|].
  destruct (mstep c s t []) as [[[s1 c1] si]|] eqn:M; [|discriminate]. eapply IH; [exact H|]. eapply reach_step; eauto.
Qed.

Lemma no_throw_iff c : has_throw c = false -> no_throw c.
Proof.
  unfold has_throw, no_throw. intros H. apply orb_false_iff in H. destruct H as [A B]. split; [apply Z.leb_gt in A; lia|].
  apply Forall_forall. intros sc Hs. destruct (sc_throws sc) eqn:E; [reflexivity|].
  exfalso. assert (existsb (fun sc => match sc_throws sc with [] => false | _ => true end) (c_stages c) = true).
  { apply existsb_exists. exists sc. split; [exact Hs | rewrite E; reflexivity]. } congruence.
Qed.

(* (1) leak: 1 pool thread, 2 items, one sink with limit 4 that throws at item 1.  Item 0's task sits in the pool when the
   exception is captured; the cancelled wrapper skips it (event kind 8): its payload is never destroyed.  pipeline() returns. *)
Definition c_leak : cfg := CFG 1 32 1 2 (-1) [SC 4 false [] [1]] false [(true, 0)].
Definition s_leak : state := fst (fst (run_pipe 60 c_leak (repeat 0 60))).
Lemma leak_facts :
  done (sh s_leak) = true /\ result (sh s_leak) = Some 1001 /\ pout (sh s_leak) = 0 /\
  existsb (fun e => e_kind e =? 8) (log (sh s_leak)) = true.
Proof. vm_compute. repeat split; reflexivity. Qed.
Theorem leak_refuted :
  has_throw c_leak = true /\
  exists s, reach (mstep c_leak) (init c_leak) s /\ done (sh s) = true /\ result (sh s) = Some 1001 /\
            exists e, In e (log (sh s)) /\ e_kind e = 8.
Proof.
  split; [reflexivity|]. exists s_leak. split; [unfold s_leak; apply run_pipe_reach|]. pose proof leak_facts as (A & B & _ & D).
  split; [exact A|]. split; [exact B|].
  apply existsb_exists in D. destruct D as (e & He & Ke). exists e. split; [exact He | apply Z.eqb_eq; exact Ke].
Qed.

(* (2) REPAIRED (/repo 0db1b9f), former witness of "pipeline() never returns": 2 generator instances, 1 item, a serial sink that
   throws.  The second instance is skipped by the cancelled wrapper, but the CompletionGuard it owns by value now counts the latch
   down when the skipped functor is destroyed: the run returns, rethrowing exception 1000. *)
Definition c_hang : cfg := CFG 2 64 2 1 (-1) [SC 1 false [] [0]] false [(true, 0)].
Definition s_hang : state := fst (fst (run_pipe 60 c_hang (repeat 0 60))).
Lemma hang_fixed :
  has_throw c_hang = true /\ done (sh s_hang) = true /\ result (sh s_hang) = Some 1000 /\ compl (sh s_hang) = 0 /\
  existsb (fun e => e_kind e =? 13) (log (sh s_hang)) = true.
Proof. vm_compute. repeat split; reflexivity. Qed.

(* the general fact behind the repair: in every reachable state of every pipeline the completion latch equals the number of
   generator instances that have not yet passed their CompletionGuard -- not yet dispatched, queued, popped, running, or skipped
   with the guard still pending; so a positive latch always has somebody who will count it down *)
Theorem latch_owned c s : (0 < nstages c)%nat -> reach (mstep c) (init c) s -> compl (sh s) = total (m_genc c) s.
Proof. intros H0 R. destruct (acct_invariants c s H0 R) as (_ & _ & _ & [G _]). exact G. Qed.

(* (3) REPAIRED (/repo eb2d079), former witness of "the exception leaves pipeline() through execute()": poolLoadFactor_ 0, the second
   generator instance runs inline inside execute() and the generator throws at once.  The functor now records the exception in the
   task set; execute() goes on, wait() rethrows it: the run returns with exception 0 and nothing is left in the pool. *)
Definition c_esc : cfg := CFG 3 0 3 3 0 [SC 1 false [] []] false [(true, 0)].
Definition s_esc : state := fst (fst (run_pipe 60 c_esc (repeat 0 60))).
Lemma escape_fixed :
  has_throw c_esc = true /\ done (sh s_esc) = true /\ result (sh s_esc) = Some 0 /\ pout (sh s_esc) = 0 /\
  map escaping (threads s_esc) = [false; false].
Proof. vm_compute. repeat split; reflexivity. Qed.

(* the general fact behind the repair: a generator functor never lets an exception out -- whatever it does, the thread is not
   unwinding afterwards (its own throw and a throw of an inline downstream stage both end in its catch) *)
Theorem generator_catches c t s th pc r ch s1 th1 ch1 site wake :
  stack th = FGen pc :: r -> mstep_thread c t s th ch = Some (s1, th1, ch1, site, wake) -> unw th1 = None.
Proof.
  intros Hs H. step_cases H th; try discriminate; cbn [unw w_unw w_stack w_depth push]; try reflexivity; try assumption.
Qed.

Theorem holds_except c s :
  has_throw c = false -> (0 < nstages c)%nat -> reach (mstep c) (init c) s ->
  (forall e, In e (log (sh s)) -> e_kind e <> 8 /\ e_kind e <> 11) /\ (forall r, result (sh s) = Some r -> r = -1).
Proof. intros H. exact (no_leak_without_exceptions c s (no_throw_iff c H)). Qed.
