(* C45: threadId is stable per thread and unique across threads -- invariant over ALL interleavings of
   Model/ThreadIdModel.v, any number of threads, any programs of calls and scheduling points. *)
From Coq Require Import ZArith List Bool Lia.
From DV Require Import Base.MachInt Base.Sched Model.ThreadIdModel.
Import ListNotations.
Local Open Scope Z_scope.

Fixpoint sumz {A} (f : A -> Z) (l : list A) : Z := match l with [] => 0 | x :: r => f x + sumz f r end.

Lemma sumz_set_nth {A} (f : A -> Z) l t x old :
  nth_error l t = Some old -> sumz f (set_nth l t x) = sumz f l - f old + f x.
Proof.
  revert t; induction l as [|a l IH]; intros t N; [destruct t; discriminate|].
  destruct t as [|t]; cbn in *.
  - injection N as ->. lia.
  - rewrite (IH _ N). lia.
Qed.

Lemma sumz_le_length {A} (f : A -> Z) l : (forall x, f x <= 1) -> sumz f l <= Z.of_nat (length l).
Proof. intros H. induction l as [|a l IH]; cbn [sumz length]; [lia|]. specialize (H a). lia. Qed.

Lemma length_set_nth {A} (l : list A) t x : length (set_nth l t x) = length l.
Proof. revert t; induction l as [|a l IH]; intros [|t]; cbn; auto. Qed.

Lemma nth_error_set_nth_same {A} (l : list A) t x old : nth_error l t = Some old -> nth_error (set_nth l t x) t = Some x.
Proof. revert t; induction l as [|a l IH]; intros [|t] N; cbn in *; try discriminate; auto. Qed.

Lemma nth_error_set_nth_other {A} (l : list A) t x i : i <> t -> nth_error (set_nth l t x) i = nth_error l i.
Proof.
  revert t i; induction l as [|a l IH]; intros [|t] [|i] D; cbn; auto; try congruence.
Qed.

Lemma in_set_nth {A} (l : list A) t x y : In y (set_nth l t x) -> y = x \/ In y l.
Proof.
  revert t; induction l as [|a l IH]; intros t H; [destruct t; contradiction|].
  destruct t as [|t]; cbn in H.
  - destruct H as [<-|H]; [left; reflexivity | right; right; exact H].
  - destruct H as [<-|H]; [right; left; reflexivity|]. destruct (IH _ H) as [->|H']; [left; reflexivity | right; right; exact H'].
Qed.

Definition valid (th : thread) : Z := if cache th =? inval then 0 else 1.
Definition nvalid (l : list thread) : Z := sumz valid l.

Lemma valid_le1 th : valid th <= 1. Proof. unfold valid. destruct (_ =? _); lia. Qed.

Definition thread_ok (c0 k : Z) (th : thread) : Prop :=
  (cache th = inval -> res th = []) /\
  (forall e, In e (res th) -> e = (r_tid, cache th)) /\
  (cache th <> inval -> c0 <= cache th < k) /\
  (tpc th = PFetch -> cache th = inval).

Definition distinct (l : list thread) : Prop :=
  forall i j a b, i <> j -> nth_error l i = Some a -> nth_error l j = Some b ->
    cache a <> inval -> cache b <> inval -> cache a <> cache b.

Record Inv (c0 : Z) (n : nat) (s : state) : Prop := {
  i_len : length (threads s) = n;
  i_ctr : ctr s = c0 + nvalid (threads s);
  i_ok : Forall (thread_ok c0 (ctr s)) (threads s);
  i_dist : distinct (threads s)
}.

Lemma cache_settle p c r : cache (settle p c r) = c.
Proof. revert r; induction p as [|o p IH]; intros r; cbn [settle]; [reflexivity|]. destruct o; [|reflexivity]. destruct (c =? inval); [reflexivity | apply IH]. Qed.

Lemma settle_ok c0 k p c r :
  (c = inval -> r = []) -> (forall e, In e r -> e = (r_tid, c)) -> (c <> inval -> c0 <= c < k) ->
  thread_ok c0 k (settle p c r).
Proof.
  revert r; induction p as [|o p IH]; intros r H1 H2 H3; cbn [settle].
  - unfold thread_ok; cbn [tpc cache res]. split; [exact H1|]. split; [exact H2|]. split; [exact H3|discriminate].
  - destruct o.
    + destruct (c =? inval) eqn:E.
      * apply Z.eqb_eq in E. unfold thread_ok; cbn [tpc cache res]. split; [exact H1|]. split; [exact H2|]. split; [exact H3|intros _; exact E].
      * apply Z.eqb_neq in E. apply IH.
        -- intros; contradiction.
        -- intros e [<-|He]; [reflexivity | apply H2; exact He].
        -- exact H3.
    + unfold thread_ok; cbn [tpc cache res]. split; [exact H1|]. split; [exact H2|]. split; [exact H3|discriminate].
Qed.

Lemma thread_ok_mono c0 k k' th : k <= k' -> thread_ok c0 k th -> thread_ok c0 k' th.
Proof. intros L (a & b & c & d). split; [exact a|]. split; [exact b|]. split; [|exact d]. intros H. specialize (c H). lia. Qed.

Lemma valid_settle p c r : valid (settle p c r) = (if c =? inval then 0 else 1).
Proof. unfold valid. rewrite cache_settle. reflexivity. Qed.

Section Step.
  Variables (c0 : Z) (n : nat).
  Hypothesis c0_nonneg : 0 <= c0.
  Hypothesis bound : c0 + Z.of_nat n <= 2 ^ 64 - 1.

  Lemma step_inv s t ch s' ch' site : Inv c0 n s -> step s t ch = Some (s', ch', site) -> Inv c0 n s'.
  Proof.
    intros [L C F D] E. unfold step in E.
    destruct (nth_error (threads s) t) as [th|] eqn:N; [|discriminate].
    pose proof (nth_error_In _ _ N) as Hin. pose proof F as F'. rewrite Forall_forall in F'.
    destruct (F' _ Hin) as (K1 & K2 & K3 & K4).
    assert (Same : forall th', cache th' = cache th ->
              thread_ok c0 (ctr s) th' -> Inv c0 n (ST (ctr s) (set_nth (threads s) t th'))).
    { intros th' Ec Ok. constructor; cbn [ctr threads].
      - rewrite length_set_nth. exact L.
      - unfold nvalid. rewrite (sumz_set_nth _ _ _ _ _ N).
        assert (Ev : valid th' = valid th) by (unfold valid; rewrite Ec; reflexivity).
        unfold nvalid in C. lia.
      - apply Forall_forall. intros y Hy. destruct (in_set_nth _ _ _ _ Hy) as [->|Hy']; [exact Ok | apply F'; exact Hy'].
      - intros i j a b Dij Ni Nj Va Vb.
        destruct (Nat.eq_dec i t) as [->|Di]; destruct (Nat.eq_dec j t) as [->|Dj]; try congruence.
        + rewrite (nth_error_set_nth_same _ _ _ _ N) in Ni. injection Ni as <-.
          rewrite (nth_error_set_nth_other _ _ _ _ Dj) in Nj. rewrite Ec in *. exact (D t j th b Dij N Nj Va Vb).
        + rewrite (nth_error_set_nth_same _ _ _ _ N) in Nj. injection Nj as <-.
          rewrite (nth_error_set_nth_other _ _ _ _ Di) in Ni. rewrite Ec in *. exact (D i t a th Dij Ni N Va Vb).
        + rewrite (nth_error_set_nth_other _ _ _ _ Di) in Ni. rewrite (nth_error_set_nth_other _ _ _ _ Dj) in Nj. exact (D i j a b Dij Ni Nj Va Vb). }
    destruct (tpc th) eqn:P.
    - injection E as <- _ _. apply Same; [apply cache_settle | apply settle_ok; auto].
    - (* PFetch *) injection E as <- _ _.
      assert (Ci : cache th = inval) by (apply K4; reflexivity).
      assert (Vt : valid th = 0) by (unfold valid; rewrite Ci, Z.eqb_refl; reflexivity).
      (* at least thread t is still invalid, so fewer than n ids have been handed out *)
      assert (NV : nvalid (threads s) + 1 <= Z.of_nat n).
      { pose proof (sumz_le_length valid (set_nth (threads s) t (TH PDone [] 0 [])) valid_le1) as B.
        rewrite (sumz_set_nth _ _ _ _ _ N), Vt, length_set_nth, L in B. unfold valid at 2 in B. cbn [cache] in B.
        change (0 =? inval) with false in B. unfold nvalid. lia. }
      assert (NN : 0 <= nvalid (threads s)).
      { unfold nvalid. clear. induction (threads s) as [|a l IH]; cbn [sumz]; [lia|]. unfold valid at 1. destruct (_ =? _); lia. }
      assert (Vlt : ctr s < inval) by (unfold inval; lia).
      assert (Vne : ctr s <> inval) by lia.
      assert (W : wrap 64 (ctr s + 1) = ctr s + 1) by (apply wrap_small; unfold inval in Vlt; lia).
      rewrite W. constructor; cbn [ctr threads].
      + rewrite length_set_nth. exact L.
      + unfold nvalid. rewrite (sumz_set_nth _ _ _ _ _ N), Vt, valid_settle.
        apply Z.eqb_neq in Vne. rewrite Vne. unfold nvalid in C. lia.
      + apply Forall_forall. intros y Hy. destruct (in_set_nth _ _ _ _ Hy) as [->|Hy'].
        * apply settle_ok; [intros; contradiction | | intros; lia].
          rewrite (K1 Ci). intros e [<-|[]]. reflexivity.
        * apply (thread_ok_mono c0 (ctr s)); [lia | apply F'; exact Hy'].
      + intros i j a b Dij Ni Nj Va Vb.
        destruct (Nat.eq_dec i t) as [->|Di]; destruct (Nat.eq_dec j t) as [->|Dj]; try congruence.
        * rewrite (nth_error_set_nth_same _ _ _ _ N) in Ni. injection Ni as <-. rewrite cache_settle.
          rewrite (nth_error_set_nth_other _ _ _ _ Dj) in Nj.
          destruct (F' _ (nth_error_In _ _ Nj)) as (_ & _ & R & _). specialize (R Vb). lia.
        * rewrite (nth_error_set_nth_same _ _ _ _ N) in Nj. injection Nj as <-. rewrite cache_settle.
          rewrite (nth_error_set_nth_other _ _ _ _ Di) in Ni.
          destruct (F' _ (nth_error_In _ _ Ni)) as (_ & _ & R & _). specialize (R Va). lia.
        * rewrite (nth_error_set_nth_other _ _ _ _ Di) in Ni. rewrite (nth_error_set_nth_other _ _ _ _ Dj) in Nj. exact (D i j a b Dij Ni Nj Va Vb).
    - injection E as <- _ _. apply Same; [apply cache_settle | apply settle_ok; auto].
    - discriminate.
  Qed.

  Lemma init_inv progs : length progs = n -> Inv c0 n (init c0 progs).
  Proof.
    intros L. constructor; unfold init; cbn [ctr threads].
    - rewrite map_length. exact L.
    - assert (Z0 : nvalid (map (fun p => TH PStart p inval []) progs) = 0); [|lia].
      unfold nvalid. clear. induction progs as [|p r IH]; cbn [map sumz]; [reflexivity|]. rewrite IH.
      unfold valid. cbn [cache]. rewrite Z.eqb_refl. reflexivity.
    - apply Forall_forall. intros th Hth. apply in_map_iff in Hth. destruct Hth as [p [<- _]].
      unfold thread_ok; cbn [tpc cache res]. split; [reflexivity|]. split; [intros e []|]. split; [intros X; exfalso; apply X; reflexivity | discriminate].
    - intros i j a b _ Ni _ Va _. apply nth_error_In in Ni. apply in_map_iff in Ni. destruct Ni as [p [<- _]].
      exfalso. apply Va. reflexivity.
  Qed.

  Theorem tid_invariant progs s : length progs = n -> reach step (init c0 progs) s -> Inv c0 n s.
  Proof.
    intros L Re. apply (reach_inv step (Inv c0 n) (init c0 progs)); [apply init_inv; exact L | | exact Re].
    intros s1 t ch s1' ch' site I E. eapply step_inv; eauto.
  Qed.

  (* every id a thread ever obtained equals its (valid) cached id: repeated calls return the same value *)
  Theorem tid_stable progs s th x y :
    length progs = n -> reach step (init c0 progs) s -> In th (threads s) ->
    In x (ids_of th) -> In y (ids_of th) -> x = y /\ x <> inval /\ c0 <= x < c0 + Z.of_nat n.
  Proof.
    intros L Re Hth Hx Hy. destruct (tid_invariant _ _ L Re) as [Ln C F D].
    rewrite Forall_forall in F. destruct (F _ Hth) as (K1 & K2 & K3 & K4).
    unfold ids_of in *. apply in_map_iff in Hx. destruct Hx as [ex [<- Hex]]. apply in_map_iff in Hy. destruct Hy as [ey [<- Hey]].
    rewrite (K2 _ Hex), (K2 _ Hey). cbn [snd].
    assert (V : cache th <> inval) by (intros Ci; rewrite (K1 Ci) in Hex; contradiction).
    split; [reflexivity|]. split; [exact V|]. specialize (K3 V).
    pose proof (sumz_le_length valid (threads s) valid_le1) as B. fold (nvalid (threads s)) in B. lia.
  Qed.

  (* ids obtained by different threads differ *)
  Theorem tid_injective progs s i j a b x y :
    length progs = n -> reach step (init c0 progs) s -> i <> j ->
    nth_error (threads s) i = Some a -> nth_error (threads s) j = Some b ->
    In x (ids_of a) -> In y (ids_of b) -> x <> y.
  Proof.
    intros L Re Dij Ni Nj Hx Hy. destruct (tid_invariant _ _ L Re) as [Ln C F D].
    rewrite Forall_forall in F.
    destruct (F _ (nth_error_In _ _ Ni)) as (A1 & A2 & _ & _). destruct (F _ (nth_error_In _ _ Nj)) as (B1 & B2 & _ & _).
    unfold ids_of in *. apply in_map_iff in Hx. destruct Hx as [ex [<- Hex]]. apply in_map_iff in Hy. destruct Hy as [ey [<- Hey]].
    rewrite (A2 _ Hex), (B2 _ Hey). cbn [snd].
    apply (D i j a b Dij Ni Nj).
    - intros Ci. rewrite (A1 Ci) in Hex. contradiction.
    - intros Ci. rewrite (B1 Ci) in Hey. contradiction.
  Qed.

  (* the counter counts the threads that have an id *)
  Theorem tid_counter progs s : length progs = n -> reach step (init c0 progs) s -> ctr s = c0 + nvalid (threads s).
  Proof. intros L Re. exact (i_ctr _ _ _ (tid_invariant _ _ L Re)). Qed.
End Step.

(* ---------- the corner the bound excludes: the fetch_add that returns kInvalidThread ---------- *)
Definition corner_state : state := fst (fst (run_tid 10 (2 ^ 64 - 1) [[OTid; OTid]] [0; 0; 0; 0])).

Lemma corner_run : map (fun th => rev (ids_of th)) (threads corner_state) = [[2 ^ 64 - 1; 0]] /\ ctr corner_state = 1.
Proof. vm_compute. split; reflexivity. Qed.

Lemma corner_reach : reach step (init (2 ^ 64 - 1) [[OTid; OTid]]) corner_state.
Proof. unfold corner_state, run_tid. apply run_reach. apply reach_refl. Qed.

