(* C15 -- for_each applies the function once per element: proofs over Model/ForEachModel.v. *)
From Coq Require Import ZArith List Bool Lia.
From DV Require Import Base.MachInt Model.ChunkModel Gen.GenChunk GenTie.ChunkGenTie Model.ParForModel Model.PlanModel
  Model.ForEachModel Proofs.ChunkProofs Proofs.StaticBoundsProofs.
Import ListNotations.
Local Open Scope Z_scope.

(* the chunks computed from the REGENERATED staticChunkSize are ChunkModel.foreach_bounds *)
Lemma fe_bounds_eq n nt : fe_bounds n nt = foreach_bounds n nt.
Proof. unfold fe_bounds, foreach_bounds. rewrite tie_staticChunkSize. reflexivity. Qed.

Fixpoint pair_count (l : list (Z * Z)) (i : Z) : Z :=
  match l with [] => 0 | (a, b) :: r => (if (a <=? i) && (i <? b) then 1 else 0) + pair_count r i end.

Lemma contiguous_le s l e : contiguous s l e -> s <= e.
Proof.
  revert s. induction l as [|[a b] r IH]; simpl; intros s H; [lia|].
  destruct H as (-> & H1 & H2). apply IH in H2. lia.
Qed.

Lemma contiguous_count s l e i : contiguous s l e ->
  pair_count l i = if (s <=? i) && (i <? e) then 1 else 0.
Proof.
  revert s. induction l as [|[a b] r IH]; simpl; intros s H.
  - subst e. destruct (s <=? i) eqn:E1; destruct (i <? s) eqn:E2; simpl; lia.
  - destruct H as (-> & H1 & H2). pose proof (contiguous_le _ _ _ H2) as L. rewrite (IH _ H2).
    destruct (s <=? i) eqn:E1; destruct (i <? b) eqn:E2; destruct (b <=? i) eqn:E3; destruct (i <? e) eqn:E4; simpl; lia.
Qed.

Lemma visit_calls wait nt a b i :
  visit_count (map (fun x : nat * (Z * Z) => let '(i, (lo, hi)) := x in CALL (fe_who wait nt (Z.of_nat i)) 0 0 lo hi)
                   (combine (seq a (length b)) b)) i = pair_count b i.
Proof.
  revert a. induction b as [|[lo hi] r IH]; simpl; intros a; [reflexivity|].
  unfold covers. simpl. f_equal. apply IH.
Qed.

Lemma fe_numThreads_pos c : 0 <= fe_n c -> 0 <= fe_N c -> fe_decide c = FPar -> 1 <= fe_numThreads c.
Proof.
  intros Hn HN. unfold fe_decide.
  destruct ((fe_n c =? 0) || (wrap 32 (fe_maxThreads c) =? 0)) eqn:E; [discriminate|].
  destruct (fe_numThreads c =? 0) eqn:Z0; [discriminate|]. intros _.
  apply orb_false_iff in E. destruct E as (E1 & _).
  unfold fe_numThreads, fe_limit in *. destruct (fe_wait c); simpl in *; lia.
Qed.

Lemma C15_foreach_once_proof : forall c p, 0 <= fe_n c -> 0 <= fe_N c -> fe_plan c = Some p ->
  forall i, visit_count p i = if (0 <=? i) && (i <? fe_n c) then 1 else 0.
Proof.
  intros c p Hn HN Hp i. unfold fe_plan in Hp. destruct (fe_decide c) eqn:D; try discriminate.
  - injection Hp as <-. simpl. unfold covers. simpl. lia.
  - injection Hp as <-. pose proof (fe_numThreads_pos c Hn HN D) as Hnt.
    unfold fe_calls. rewrite visit_calls, fe_bounds_eq.
    apply contiguous_count. apply foreach_bounds_contiguous; assumption.
Qed.

(* the call fails to return normally exactly on the domain of the finding *)
Lemma C15_divzero_iff_proof : forall c, 0 <= fe_n c -> 0 <= fe_N c ->
  (fe_plan c = None <-> c15_dom c = true).
Proof.
  intros c Hn HN. unfold fe_plan, fe_decide, c15_dom, fe_numThreads, fe_limit.
  destruct (fe_n c =? 0) eqn:E1; simpl.
  - split; [discriminate|]. intro H. destruct (fe_N c =? 0); simpl in H; [|discriminate].
    destruct (fe_wait c); simpl in H; [discriminate|]. destruct (0 <? fe_n c) eqn:E; [lia|discriminate].
  - destruct (wrap 32 (fe_maxThreads c) =? 0) eqn:E2; simpl.
    + split; [discriminate|]. rewrite !andb_false_r. discriminate.
    + rewrite andb_true_r.
      destruct (Z.min (Z.min (fe_N c + b2z (fe_wait c)) (Z.max (wrap_s 32 (fe_maxThreads c)) 1)) (fe_n c) =? 0) eqn:E3.
      * split; [intros _|reflexivity]. destruct (fe_wait c); simpl in *.
        -- lia.
        -- destruct (fe_N c =? 0) eqn:E4; destruct (0 <? fe_n c) eqn:E5; simpl; try reflexivity; lia.
      * split; [discriminate|]. intro H. destruct (fe_wait c); simpl in *.
        -- rewrite andb_false_r in H. discriminate.
        -- destruct (fe_N c =? 0) eqn:E4; simpl in H; [|discriminate]. lia.
Qed.

Lemma C15_refuted_proof :
  exists c, 0 <= fe_N c /\ 0 < fe_n c /\ fe_decide c = FDivZero /\ fe_numThreads c = 0 /\ fe_plan c = None /\
            c15_dom c = true /\ c = FE 5 0 3 false.
Proof. exists (FE 5 0 3 false). vm_compute. repeat split; try reflexivity; discriminate. Qed.

Lemma C15_holds_except_proof : forall c, 0 <= fe_n c -> 0 <= fe_N c -> c15_dom c = false ->
  exists p, fe_plan c = Some p /\ forall i, visit_count p i = if (0 <=? i) && (i <? fe_n c) then 1 else 0.
Proof.
  intros c Hn HN Hd. destruct (fe_plan c) as [p|] eqn:P.
  - exists p. split; [reflexivity|]. apply C15_foreach_once_proof; assumption.
  - apply C15_divzero_iff_proof in P; [congruence|assumption|assumption].
Qed.

(* every application is made by a scheduled closure or by the calling thread before tasks.wait(): nothing is
   deferred past the wait (completion then follows from the task set's wait contract) *)
Lemma C15_no_deferred_proof : forall c p, fe_plan c = Some p ->
  forall a, In a p -> c_who a = CallerPre \/ exists j, c_who a = Task j.
Proof.
  intros c p Hp a Ha. unfold fe_plan in Hp. destruct (fe_decide c); try discriminate; injection Hp as <-.
  - destruct Ha as [<-|[]]. left. reflexivity.
  - unfold fe_calls in Ha. apply in_map_iff in Ha. destruct Ha as ([i [lo hi]] & <- & _). simpl.
    unfold fe_who. destruct (fe_wait c && (Z.of_nat i =? fe_numThreads c - 1)); [left; reflexivity|right; eexists; reflexivity].
Qed.

(* number of chunks = numThreads <= the caller's limit (used by C48) *)
Lemma fe_plan_length_proof : forall c p, 0 <= fe_n c -> 0 <= fe_N c -> fe_plan c = Some p ->
  Z.of_nat (length p) <= Z.max 1 (wrap_s 32 (fe_maxThreads c)).
Proof.
  intros c p Hn HN Hp. unfold fe_plan in Hp. destruct (fe_decide c) eqn:D; try discriminate; injection Hp as <-.
  - simpl. lia.
  - pose proof (fe_numThreads_pos c Hn HN D) as Hnt.
    unfold fe_calls. rewrite map_length, combine_length, seq_length, Nat.min_id.
    unfold fe_bounds. destruct (gen_staticChunkSize (fe_n c) (fe_numThreads c)) as [t cc].
    rewrite map_length, seq_length. unfold fe_numThreads, fe_limit in *. lia.
Qed.
