(* C15 -- for_each applies the function once per element: proofs over Model/ForEachModel.v. *)
From Coq Require Import ZArith List Bool Lia.
From DV Require Import Base.MachInt Model.ChunkModel Gen.GenChunk GenTie.ChunkGenTie Model.ParForModel Model.PlanModel
  Model.ForEachModel Proofs.ChunkProofs Proofs.StaticBoundsProofs.
Import ListNotations.
Local Open Scope Z_scope.

(* the chunks computed from the REGENERATED staticChunkSize are ChunkModel.foreach_bounds *)
Lemma fe_bounds_eq n nt : fe_bounds n nt = foreach_bounds n nt.
Proof. unfold fe_bounds, foreach_bounds. rewrite tie_staticChunkSize. reflexivity. Qed.

Fixpoint pair_count (l : list (Z * Z)) (i : Z) : Z :=
  match l with [] => 0 | (a, b) :: r => (if (a <=? i) && (i <? b) then 1 else 0) + pair_count r i end.

Lemma contiguous_le s l e : contiguous s l e -> s <= e.
Proof.
  revert s. induction l as [|[a b] r IH]; simpl; intros s H; [lia|].
  destruct H as (-> & H1 & H2). apply IH in H2. lia.
Qed.

Lemma contiguous_count s l e i : contiguous s l e ->
  pair_count l i = if (s <=? i) && (i <? e) then 1 else 0.
Proof.
  revert s. induction l as [|[a b] r IH]; simpl; intros s H.
  - subst e. destruct (s <=? i) eqn:E1; destruct (i <? s) eqn:E2; simpl; lia.
  - destruct H as (-> & H1 & H2). pose proof (contiguous_le _ _ _ H2) as L. rewrite (IH _ H2).
    destruct (s <=? i) eqn:E1; destruct (i <? b) eqn:E2; destruct (b <=? i) eqn:E3; destruct (i <? e) eqn:E4; simpl; lia.
Qed.

Lemma visit_calls wait nt a b i :
  visit_count (map (fun x : nat * (Z * Z) => let '(i, (lo, hi)) := x in CALL (fe_who wait nt (Z.of_nat i)) 0 0 lo hi)
                   (combine (seq a (length b)) b)) i = pair_count b i.
Proof.
  revert a. induction b as [|[lo hi] r IH]; simpl; intros a; [reflexivity|].
  unfold covers. simpl. f_equal. apply IH.
Qed.

Lemma fe_numThreads_pos c : 1 <= fe_numThreads c.
Proof. unfold fe_numThreads. lia. Qed.

(* every element of [0,n) is visited by exactly one chunk and nothing else is: for EVERY pool size (zero threads
   included), wait mode, maxThreads and n *)
Lemma C15_foreach_once_proof : forall c, 0 <= fe_n c ->
  forall i, visit_count (fe_plan c) i = if (0 <=? i) && (i <? fe_n c) then 1 else 0.
Proof.
  intros c Hn i. unfold fe_plan. destruct (fe_decide c) eqn:D.
  - simpl. unfold covers. simpl. lia.
  - unfold fe_calls. rewrite visit_calls, fe_bounds_eq.
    apply contiguous_count. apply foreach_bounds_contiguous; [assumption|apply fe_numThreads_pos].
Qed.

(* every application is made by a scheduled closure or by the calling thread before tasks.wait(): nothing is
   deferred past the wait (completion then follows from the task set's wait contract) *)
Lemma C15_no_deferred_proof : forall c a, In a (fe_plan c) -> c_who a = CallerPre \/ exists j, c_who a = Task j.
Proof.
  intros c a Ha. unfold fe_plan in Ha. destruct (fe_decide c).
  - destruct Ha as [<-|[]]. left. reflexivity.
  - unfold fe_calls in Ha. apply in_map_iff in Ha. destruct Ha as ([i [lo hi]] & <- & _). simpl.
    unfold fe_who. destruct (fe_wait c && (Z.of_nat i =? fe_numThreads c - 1)); [left; reflexivity|right; eexists; reflexivity].
Qed.

(* wait=true: the calling thread takes the last chunk; at most numThreads - 1 closures are scheduled *)
Lemma C15_thread_count_proof : forall c, 1 <= fe_numThreads c <= Z.max 1 (wrap_s 32 (fe_maxThreads c)).
Proof. intros c. unfold fe_numThreads, fe_limit. lia. Qed.

(* number of chunks = numThreads <= the caller's limit (used by C48) *)
Lemma fe_plan_length_proof : forall c, Z.of_nat (length (fe_plan c)) <= Z.max 1 (wrap_s 32 (fe_maxThreads c)).
Proof.
  intros c. unfold fe_plan. destruct (fe_decide c).
  - simpl. lia.
  - pose proof (fe_numThreads_pos c) as Hnt.
    unfold fe_calls. rewrite map_length, combine_length, seq_length, Nat.min_id.
    unfold fe_bounds. destruct (gen_staticChunkSize (fe_n c) (fe_numThreads c)) as [t cc].
    rewrite map_length, seq_length. unfold fe_numThreads, fe_limit in *. lia.
Qed.

(* the functor a chunk applies is the value captured at schedule time (version 0), never a later state of the
   caller's object *)
Lemma C15_functor_value_proof : forall c a, In a (fe_plan c) -> c_state a = 0.
Proof.
  intros c a Ha. unfold fe_plan in Ha. destruct (fe_decide c).
  - destruct Ha as [<-|[]]. reflexivity.
  - unfold fe_calls in Ha. apply in_map_iff in Ha. destruct Ha as ([i [lo hi]] & <- & _). reflexivity.
Qed.
