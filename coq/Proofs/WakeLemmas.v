(* Structural lemmas about Model/WakeModel.v shared by the C07 and C09 proofs. *)
From Coq Require Import ZArith List Bool Arith Lia.
From DV Require Import Base.MachInt Base.Sched Model.WakeModel.
Import ListNotations.
Local Open Scope Z_scope.

(* ---------- upd ---------- *)
Lemma length_upd {A} (l : list A) n x : length (upd l n x) = length l.
Proof. revert n; induction l as [|a l IH]; intros [|n]; cbn; auto. Qed.

Lemma nth_error_upd_eq {A} (l : list A) n x : (n < length l)%nat -> nth_error (upd l n x) n = Some x.
Proof. revert n; induction l as [|a l IH]; intros [|n] H; cbn in *; try lia; auto. apply IH; lia. Qed.

Lemma nth_error_upd_neq {A} (l : list A) n m x : n <> m -> nth_error (upd l n x) m = nth_error l m.
Proof. revert n m; induction l as [|a l IH]; intros [|n] [|m] H; cbn; auto; try congruence. Qed.

Lemma nth_upd_eq {A} (l : list A) n x d : (n < length l)%nat -> nth n (upd l n x) d = x.
Proof. revert n; induction l as [|a l IH]; intros [|n] H; cbn in *; try lia; auto. apply IH; lia. Qed.

Lemma nth_upd_neq {A} (l : list A) n m x d : n <> m -> nth m (upd l n x) d = nth m l d.
Proof. revert n m; induction l as [|a l IH]; intros [|n] [|m] H; cbn; auto; try congruence. Qed.

Lemma nth_error_nth_eq {A} (l : list A) n x d : nth_error l n = Some x -> nth n l d = x.
Proof. revert n; induction l as [|a l IH]; intros [|n] H; cbn in *; try discriminate; [congruence | auto]. Qed.

(* ---------- wake_tids ---------- *)
Lemma wake_thread_pc th : tpc (wake_thread th) = match tpc th with PBlocked i w => PWoken i w | p => p end.
Proof. unfold wake_thread. destruct (tpc th) eqn:E; cbn; auto. Qed.

Lemma wake_thread_id th : (forall i w, tpc th <> PBlocked i w) -> wake_thread th = th.
Proof. unfold wake_thread. destruct (tpc th); intros H; auto. exfalso; eapply H; eauto. Qed.

Lemma wake_thread_fields th :
  prog (wake_thread th) = prog th /\ lep (wake_thread th) = lep th /\ lpre (wake_thread th) = lpre th.
Proof. unfold wake_thread. destruct (tpc th); cbn; auto. Qed.

Lemma length_wake_tids l k wk : length (wake_tids l k wk) = length l.
Proof. revert k; induction l as [|a l IH]; intros k; cbn; auto. Qed.

Lemma wake_tids_nil l k : wake_tids l k [] = l.
Proof. revert k; induction l as [|a l IH]; intros k; cbn; auto. rewrite IH; auto. Qed.

Lemma nth_error_wake_tids l k wk u :
  nth_error (wake_tids l k wk) u =
  option_map (fun th => if existsb (Nat.eqb (k + u)) wk then wake_thread th else th) (nth_error l u).
Proof.
  revert k u; induction l as [|a l IH]; intros k [|u]; cbn; auto.
  - rewrite Nat.add_0_r. reflexivity.
  - rewrite IH. replace (S k + u)%nat with (k + S u)%nat by lia. reflexivity.
Qed.

(* every thread of the new list is the old one, possibly woken *)
Lemma nth_error_wake_tids_cases l wk u th :
  nth_error l u = Some th ->
  nth_error (wake_tids l O wk) u = Some th \/ nth_error (wake_tids l O wk) u = Some (wake_thread th).
Proof. intros H. rewrite nth_error_wake_tids, H. cbn. destruct (existsb _ wk); auto. Qed.

(* ---------- tids_where / waiters ---------- *)
Lemma in_tids_where f l k u :
  In u (tids_where f l k) <-> (k <= u)%nat /\ exists th, nth_error l (u - k) = Some th /\ f th = true.
Proof.
  revert k; induction l as [|a l IH]; intros k; cbn.
  - split; [tauto|]. intros [_ [th [H _]]]. destruct (u - k)%nat; discriminate.
  - destruct (f a) eqn:Fa; cbn; rewrite IH; split.
    + intros [<-|[L [th [N F]]]].
      * split; [lia|]. exists a. rewrite Nat.sub_diag. auto.
      * split; [lia|]. exists th. replace (u - k)%nat with (S (u - S k)) by lia. auto.
    + intros [L [th [N F]]]. destruct (Nat.eq_dec k u) as [->|D]; [left; auto|right].
      split; [lia|]. exists th. replace (u - k)%nat with (S (u - S k)) in N by lia. auto.
    + intros [L [th [N F]]]. split; [lia|]. exists th. replace (u - k)%nat with (S (u - S k)) by lia. auto.
    + intros [L [th [N F]]]. destruct (Nat.eq_dec k u) as [->|D].
      * rewrite Nat.sub_diag in N. cbn in N. congruence.
      * split; [lia|]. exists th. replace (u - k)%nat with (S (u - S k)) in N by lia. auto.
Qed.

Lemma in_waiters s g u :
  In u (waiters s g) <-> exists th, nth_error (threads s) u = Some th /\ blocked_on (cf s) g th = true.
Proof.
  unfold waiters. rewrite in_tids_where. rewrite Nat.sub_0_r. split; [intros [_ H]; exact H | intros H; split; [lia | exact H]].
Qed.

(* ---------- wake_pick ---------- *)
Lemma wake_pick_all n ws ch acc : (length ws <= n)%nat -> wake_pick n ws ch acc = (rev ws ++ acc, ch).
Proof.
  revert ws acc; induction n as [|n IH]; intros ws acc H.
  - destruct ws; cbn in *; [reflexivity | lia].
  - destruct ws as [|w0 wr]; cbn [wake_pick]; [reflexivity|].
    replace (S n <? length (w0 :: wr))%nat with false by (symmetry; apply Nat.ltb_ge; cbn in *; lia).
    rewrite IH by (cbn in H; lia). cbn. rewrite <- app_assoc. reflexivity.
Qed.

Lemma wake_pick_all_in n ws ch u : (length ws <= n)%nat -> In u ws -> In u (fst (wake_pick n ws ch [])).
Proof. intros H I. rewrite wake_pick_all by exact H. cbn. rewrite app_nil_r. apply -> in_rev. exact I. Qed.

(* ---------- decomposition of a step ---------- *)
Lemma step_decomp s t ch s' ch' site :
  step s t ch = Some (s', ch', site) ->
  exists th o woken,
    nth_error (threads s) t = Some th /\
    tstep (cf s) (wks s) (pl s) (length (threads s)) th = Some o /\
    cf s' = cf s /\ wks s' = o_w o /\ pl s' = o_p o /\
    threads s' = upd (wake_tids (threads s) O woken) t (o_th o) /\
    match o_wake o with
    | None => woken = []
    | Some (g, n) => woken = fst (wake_pick n (waiters s g) ch [])
    end.
Proof.
  unfold step. intros E.
  destruct (nth_error (threads s) t) as [th|] eqn:N; [|discriminate].
  destruct (tstep _ _ _ _ th) as [o|] eqn:T; [|discriminate].
  destruct (o_wake o) as [[g n]|] eqn:W.
  - destruct (wake_pick n (waiters s g) ch []) as [woken ch2] eqn:P.
    injection E as <- _ _. exists th, o, woken. cbn. rewrite W, P. repeat split; auto.
  - injection E as <- _ _. exists th, o, []. cbn. rewrite W, wake_tids_nil. repeat split; auto.
Qed.

(* threads other than the stepping one are unchanged or woken *)
Lemma step_others s t ch s' ch' site u th :
  step s t ch = Some (s', ch', site) -> u <> t -> nth_error (threads s) u = Some th ->
  nth_error (threads s') u = Some th \/ nth_error (threads s') u = Some (wake_thread th).
Proof.
  intros E D N. destruct (step_decomp _ _ _ _ _ _ E) as (th0 & o & woken & _ & _ & _ & _ & _ & Ht & _).
  rewrite Ht, nth_error_upd_neq by auto. apply nth_error_wake_tids_cases. exact N.
Qed.

Lemma step_length s t ch s' ch' site : step s t ch = Some (s', ch', site) -> length (threads s') = length (threads s).
Proof.
  intros E. destruct (step_decomp _ _ _ _ _ _ E) as (th0 & o & woken & _ & _ & _ & _ & _ & Ht & _).
  rewrite Ht, length_upd, length_wake_tids. reflexivity.
Qed.

Lemma step_self s t ch s' ch' site :
  step s t ch = Some (s', ch', site) ->
  exists th o, nth_error (threads s) t = Some th /\ tstep (cf s) (wks s) (pl s) (length (threads s)) th = Some o /\
               nth_error (threads s') t = Some (o_th o).
Proof.
  intros E. destruct (step_decomp _ _ _ _ _ _ E) as (th0 & o & woken & N & T & _ & _ & _ & Ht & _).
  exists th0, o. repeat split; auto. rewrite Ht. apply nth_error_upd_eq. rewrite length_wake_tids.
  apply nth_error_Some. congruence.
Qed.

(* ---------- group arithmetic ---------- *)
Lemma grp_lt c i : (0 < c_gs c)%nat -> (i < c_n c)%nat -> (grp c i < ngroups c)%nat.
Proof.
  intros G H. unfold grp, ngroups.
  apply Nat.div_lt_upper_bound; [lia|].
  pose proof (Nat.div_mod (c_n c + c_gs c - 1) (c_gs c) ltac:(lia)) as D.
  pose proof (Nat.mod_upper_bound (c_n c + c_gs c - 1) (c_gs c) ltac:(lia)) as M.
  nia.
Qed.

Lemma nth_firstn_lt {A} (l : list A) m k d : (k < m)%nat -> nth k (firstn m l) d = nth k l d.
Proof. revert m k; induction l as [|a l IH]; intros m k Hk; destruct m; destruct k; cbn; auto; try lia. apply IH; lia. Qed.

Lemma nth_skipn' {A} (l : list A) m k d : nth k (skipn m l) d = nth (m + k) l d.
Proof. revert m k; induction l as [|a l IH]; intros m k; destruct m; cbn; auto. destruct k; auto. Qed.

Lemma nth_grp_bits c bs g i :
  (0 < c_gs c)%nat -> grp c i = g -> nth (i - g * c_gs c) (grp_bits c bs g) false = nth i bs false.
Proof.
  intros G E. unfold grp_bits, grp in *.
  pose proof (Nat.div_mod i (c_gs c) ltac:(lia)) as D.
  pose proof (Nat.mod_upper_bound i (c_gs c) ltac:(lia)) as M.
  assert (L : (g * c_gs c <= i)%nat) by (subst g; nia).
  assert (U : (i - g * c_gs c < c_gs c)%nat) by (subst g; nia).
  rewrite nth_firstn_lt by exact U. rewrite nth_skipn'. f_equal. lia.
Qed.

Lemma grp_bits_none c bs g i :
  (0 < c_gs c)%nat -> grp c i = g -> existsb (fun b => b) (grp_bits c bs g) = false -> nth i bs false = false.
Proof.
  intros G E X. rewrite <- (nth_grp_bits c bs g i G E).
  destruct (nth (i - g * c_gs c) (grp_bits c bs g) false) eqn:N; auto.
  exfalso. assert (In true (grp_bits c bs g)).
  { destruct (Nat.lt_ge_cases (i - g * c_gs c) (length (grp_bits c bs g))) as [L|L].
    - rewrite <- N. apply nth_In. exact L.
    - rewrite nth_overflow in N by exact L. discriminate. }
  assert (existsb (fun b => b) (grp_bits c bs g) = true) by (apply existsb_exists; exists true; auto).
  congruence.
Qed.

(* ---------- epochs ---------- *)
Definition epochs_ok (w : wakest) : Prop := Forall (fun e => 0 <= e < 2 ^ 32) (epochs w).

Lemma bump_epoch_ok w g : epochs_ok w -> epochs_ok (bump_epoch w g).
Proof.
  unfold epochs_ok, bump_epoch. cbn. intros F.
  apply Forall_forall. intros e He.
  apply In_nth_error in He. destruct He as [k Hk].
  destruct (Nat.eq_dec g k) as [->|D].
  - destruct (Nat.lt_ge_cases k (length (epochs w))) as [L|L].
    + rewrite nth_error_upd_eq in Hk by exact L. injection Hk as <-. apply wrap_range. lia.
    + assert (nth_error (upd (epochs w) k (wrap 32 (nth k (epochs w) 0 + 1))) k = None).
      { apply nth_error_None. rewrite length_upd. exact L. }
      congruence.
  - rewrite nth_error_upd_neq in Hk by exact D. rewrite Forall_forall in F. apply F. eapply nth_error_In; eauto.
Qed.

Lemma bump_epoch_mono w g g' :
  epochs_ok w -> wrapped (bump_epoch w g) = false ->
  nth g' (epochs w) 0 <= nth g' (epochs (bump_epoch w g)) 0.
Proof.
  unfold bump_epoch. cbn. intros F Wr. apply orb_false_iff in Wr. destruct Wr as [_ Wr]. apply Z.eqb_neq in Wr.
  destruct (Nat.eq_dec g g') as [->|D].
  - destruct (Nat.lt_ge_cases g' (length (epochs w))) as [L|L].
    + rewrite nth_upd_eq by exact L.
      assert (0 <= nth g' (epochs w) 0 < 2 ^ 32).
      { unfold epochs_ok in F. rewrite Forall_forall in F. apply F. apply nth_In. exact L. }
      rewrite wrap_small by lia. lia.
    + rewrite !nth_overflow; [lia | rewrite length_upd; exact L | exact L].
  - rewrite nth_upd_neq by exact D. lia.
Qed.

Lemma bump_epoch_strict w g :
  epochs_ok w -> wrapped (bump_epoch w g) = false -> (g < length (epochs w))%nat ->
  nth g (epochs (bump_epoch w g)) 0 = nth g (epochs w) 0 + 1.
Proof.
  unfold bump_epoch. cbn. intros F Wr L. apply orb_false_iff in Wr. destruct Wr as [_ Wr]. apply Z.eqb_neq in Wr.
  rewrite nth_upd_eq by exact L.
  assert (0 <= nth g (epochs w) 0 < 2 ^ 32).
  { unfold epochs_ok in F. rewrite Forall_forall in F. apply F. apply nth_In. exact L. }
  rewrite wrap_small by lia. reflexivity.
Qed.

Lemma bump_epoch_wrapped w g : wrapped (bump_epoch w g) = false -> wrapped w = false.
Proof. unfold bump_epoch. cbn. intros H. apply orb_false_iff in H. tauto. Qed.

Lemma bump_epoch_bits w g : bits (bump_epoch w g) = bits w.
Proof. reflexivity. Qed.

Lemma bump_epoch_length w g : length (epochs (bump_epoch w g)) = length (epochs w).
Proof. unfold bump_epoch. cbn. apply length_upd. Qed.
