(* Counting lemmas for the small-buffer allocator model (Model/SmallBufModel.v); used by Proofs/C41Proofs.v *)
From Coq Require Import ZArith List Bool Lia.
From DV Require Import Base.MachInt Base.Sched Model.SmallBufModel.
Import ListNotations.
Local Open Scope Z_scope.

Definition cnt (x : Z) (l : list Z) : nat := count_occ Z.eq_dec l x.

Lemma cnt_app x l1 l2 : cnt x (l1 ++ l2) = (cnt x l1 + cnt x l2)%nat.
Proof. apply count_occ_app. Qed.

Lemma cnt_nil x : cnt x [] = O. Proof. reflexivity. Qed.

Lemma cnt_one x y : cnt x [y] = if Z.eq_dec y x then 1%nat else O.
Proof. unfold cnt. cbn. destruct (Z.eq_dec y x); reflexivity. Qed.

Lemma NoDup_cnt l : NoDup l <-> forall x, (cnt x l <= 1)%nat.
Proof. apply NoDup_count_occ. Qed.

Lemma cnt_In x l : In x l <-> (cnt x l > 0)%nat.
Proof. apply count_occ_In. Qed.

Lemma in_set_nth {A} (l : list A) t x y : In y (set_nth l t x) -> y = x \/ In y l.
Proof.
  revert t; induction l as [|a l IH]; intros t H; [destruct t; contradiction|].
  destruct t as [|t]; cbn in H.
  - destruct H as [<-|H]; [left; reflexivity | right; right; exact H].
  - destruct H as [<-|H]; [right; left; reflexivity|]. destruct (IH _ H) as [->|H']; [left; reflexivity | right; right; exact H'].
Qed.

Lemma Forall_set_nth {A} (P : A -> Prop) l t x : Forall P l -> P x -> Forall P (set_nth l t x).
Proof.
  intros F Px. apply Forall_forall. intros y Hy. destruct (in_set_nth _ _ _ _ Hy) as [->|H]; [exact Px|].
  rewrite Forall_forall in F. apply F, H.
Qed.

Lemma length_set_nth {A} (l : list A) t x : length (set_nth l t x) = length l.
Proof. revert t; induction l as [|a l IH]; intros [|t]; cbn; auto. Qed.

Lemma cnt_flat_map_set_nth {A} (f : A -> list Z) l t x old b :
  nth_error l t = Some old ->
  (cnt b (flat_map f (set_nth l t x)) + cnt b (f old) = cnt b (flat_map f l) + cnt b (f x))%nat.
Proof.
  revert t; induction l as [|a l IH]; intros [|t] H; cbn [set_nth flat_map nth_error] in *; try discriminate.
  - injection H as ->. rewrite !cnt_app. lia.
  - rewrite !cnt_app. specialize (IH _ H). lia.
Qed.

Lemma filter_len_set_nth {A} (f : A -> bool) l t x old :
  nth_error l t = Some old ->
  Z.of_nat (length (filter f (set_nth l t x))) = Z.of_nat (length (filter f l)) - b2z (f old) + b2z (f x).
Proof.
  revert t; induction l as [|a l IH]; intros [|t] H; cbn in *; try discriminate.
  - injection H as ->. destruct (f old), (f x); cbn [length b2z]; lia.
  - specialize (IH _ H). destruct (f a); cbn [length]; lia.
Qed.

Lemma filter_len_le {A} (f : A -> bool) l : (length (filter f l) <= length l)%nat.
Proof. induction l as [|a l IH]; cbn; [lia|]. destruct (f a); cbn; lia. Qed.

Lemma cnt_remove_nth (l : list Z) : forall i, (i < length l)%nat -> forall x,
  (cnt x l = cnt x (remove_nth l i) + cnt x [nth i l 0%Z])%nat.
Proof.
  induction l as [|a l IH]; intros [|i] H x; cbn in H; try lia.
  - cbn [remove_nth nth]. change (a :: l) with ([a] ++ l). rewrite cnt_app. lia.
  - cbn [remove_nth nth]. change (a :: l) with ([a] ++ l). change (a :: remove_nth l i) with ([a] ++ remove_nth l i).
    rewrite !cnt_app. rewrite (IH i ltac:(lia) x). lia.
Qed.

Lemma cnt_removelast_last (l : list Z) x : l <> [] -> (cnt x l = cnt x (removelast l) + cnt x [last l 0%Z])%nat.
Proof. intros H. rewrite (app_removelast_last 0 H) at 1. apply cnt_app. Qed.

Lemma cnt_firstn_skipn n (l : list Z) x : (cnt x l = cnt x (firstn n l) + cnt x (skipn n l))%nat.
Proof. rewrite <- (firstn_skipn n l) at 1. apply cnt_app. Qed.

(* chunks of a slab *)
Lemma cnt_chunks c slab : forall n from b,
  cnt b (chunks c slab from n) = if (slab * pm c + from <=? b) && (b <? slab * pm c + from + Z.of_nat n) then 1%nat else O.
Proof.
  unfold chunks. intros n. induction n as [|n IH]; intros from b.
  - cbn. destruct (slab * pm c + from <=? b) eqn:A; destruct (b <? slab * pm c + from + 0) eqn:B; cbn; try reflexivity.
    apply Z.leb_le in A. apply Z.ltb_lt in B. lia.
  - rewrite seq_S, map_app. change (cnt b (map (fun i => slab * pm c + from + Z.of_nat i) (seq 0 n) ++ map (fun i => slab * pm c + from + Z.of_nat i) [(0 + n)%nat]) =
      (if (slab * pm c + from <=? b) && (b <? slab * pm c + from + Z.of_nat (S n)) then 1%nat else 0%nat)).
    rewrite cnt_app, IH. cbn [map]. rewrite cnt_one.
    destruct (Z.eq_dec (slab * pm c + from + Z.of_nat (0 + n)) b) as [E|E];
      destruct (slab * pm c + from <=? b) eqn:A; destruct (b <? slab * pm c + from + Z.of_nat n) eqn:B;
      destruct (b <? slab * pm c + from + Z.of_nat (S n)) eqn:C; cbn; try reflexivity;
      try apply Z.leb_le in A; try apply Z.leb_gt in A; try apply Z.ltb_lt in B; try apply Z.ltb_ge in B;
      try apply Z.ltb_lt in C; try apply Z.ltb_ge in C; lia.
Qed.

Lemma map_seq_from {B} n : forall (f : nat -> B) k, map f (seq k n) = map (fun i => f (k + i)%nat) (seq 0 n).
Proof.
  induction n as [|n IH]; intros f k; cbn [seq map]; [reflexivity|]. f_equal; [f_equal; lia|].
  rewrite (IH f (S k)). rewrite (IH (fun i => f (k + i)%nat) 1%nat). apply map_ext. intros i. f_equal. lia.
Qed.

Lemma chunks_split c slab a b : chunks c slab 0 (a + b) = chunks c slab 0 a ++ chunks c slab (Z.of_nat a) b.
Proof.
  unfold chunks. rewrite seq_app, map_app. f_equal. rewrite map_seq_from. apply map_ext. intros i. lia.
Qed.

Lemma length_chunks c slab from n : length (chunks c slab from n) = n.
Proof. unfold chunks. rewrite map_length, seq_length. reflexivity. Qed.

Lemma NoDup_app_l (l1 l2 : list Z) : NoDup (l1 ++ l2) -> NoDup l1.
Proof. rewrite !NoDup_cnt. intros H x. specialize (H x). rewrite cnt_app in H. lia. Qed.

Lemma NoDup_snoc_notin (l : list Z) b : NoDup (l ++ [b]) -> ~ In b l.
Proof.
  rewrite NoDup_cnt. intros H Hin. apply cnt_In in Hin. specialize (H b). rewrite cnt_app, cnt_one in H.
  destruct (Z.eq_dec b b); [lia | contradiction].
Qed.

Lemma filter_len_ge {A} (f : A -> bool) l t old : nth_error l t = Some old -> b2z (f old) <= Z.of_nat (length (filter f l)).
Proof.
  revert t; induction l as [|a l IH]; intros [|t] H; cbn in *; try discriminate.
  - injection H as ->. destruct (f old); cbn [length b2z]; lia.
  - specialize (IH _ H). destruct (f a); cbn [length]; lia.
Qed.
