(* C32, part 3: the three reallocation strategies allocate what the following accesses need.
   ainv n: "a vector of size n can be used": every buffer up to the one holding index n is there, and when index n
   lies past the strategy's check index of its buffer, the next buffer is there too (whoever crossed the check
   index allocated it).  Every growth path re-establishes ainv for the new size; nothing else is needed, because
   sizes only shrink otherwise and shrink_to_fit keeps one buffer past the one holding index size. *)
From Coq Require Import ZArith List Bool Lia.
From DV Require Import Base.MachInt Base.Life Model.CVecModel Proofs.CVecBucketProofs Proofs.CVecStoreProofs.
Import ListNotations.
Local Open Scope Z_scope.

Ltac Zify.zify_post_hook ::= Z.div_mod_to_equations.

Definition grows (shift : Z) (bs bs' : list (option bucket)) : Prop :=
  length bs' = length bs /\
  forall b, match get_buf bs b with
            | Some l => get_buf bs' b = Some l
            | None => get_buf bs' b = None \/ get_buf bs' b = Some (fresh_bucket (bucket_cap shift b))
            end.

Lemma grows_refl shift bs : grows shift bs bs.
Proof. split; [reflexivity|]. intros b. destruct (get_buf bs b); auto. Qed.

Lemma grows_trans shift a b c : grows shift a b -> grows shift b c -> grows shift a c.
Proof.
  intros [L1 G1] [L2 G2]. split; [congruence|]. intros k. specialize (G1 k). specialize (G2 k).
  destruct (get_buf a k) as [l|].
  - rewrite G1 in G2. exact G2.
  - destruct G1 as [G1|G1]; rewrite G1 in G2; auto.
Qed.

Lemma grows_alloc shift bs bs' b : grows shift bs bs' -> is_alloc bs b = true -> is_alloc bs' b = true.
Proof. intros [_ G] H. unfold is_alloc in *. specialize (G b). destruct (get_buf bs b); [rewrite G; reflexivity | discriminate]. Qed.

Lemma grows_set_fresh shift bs b : 0 <= b < Z.of_nat (length bs) -> is_alloc bs b = false ->
  grows shift bs (set_buf bs b (Some (fresh_bucket (bucket_cap shift b)))).
Proof.
  intros Hb Hn. split; [apply length_set_buf|]. intros k. rewrite get_buf_set_buf.
  destruct ((b =? k) && (0 <=? b) && (b <? Z.of_nat (length bs))) eqn:E.
  - assert (b = k) by lia; subst k. unfold is_alloc in Hn. destruct (get_buf bs b); [discriminate | auto].
  - destruct (get_buf bs k); auto.
Qed.

Lemma is_alloc_set_fresh bs b x : 0 <= b < Z.of_nat (length bs) -> is_alloc (set_buf bs b (Some x)) b = true.
Proof. intros Hb. rewrite is_alloc_set_buf. rewrite Z.eqb_refl. replace (0 <=? b) with true by lia. replace (b <? Z.of_nat (length bs)) with true by lia. reflexivity. Qed.

Lemma fresh_bucket_length cap : 0 <= cap -> Z.of_nat (length (fresh_bucket cap)) = cap.
Proof. intros. unfold fresh_bucket. rewrite repeat_length. lia. Qed.

Lemma wfv_grows v bs' : wfv v -> grows (v_shift v) (v_bufs v) bs' -> wfv (with_bufs v bs').
Proof.
  intros [Hs W] [_ G]. split; [exact Hs|]. intros b l H. simpl in *. specialize (G b).
  destruct (get_buf (v_bufs v) b) as [l0|] eqn:E.
  - rewrite G in H. inversion H; subst. apply (W _ _ E).
  - destruct G as [G|G]; rewrite G in H; [discriminate|]. inversion H; subst.
    assert (0 <= b) by (apply get_buf_some_range in G; lia).
    apply fresh_bucket_length. pose proof (bucket_cap_pos (v_shift v) b Hs ltac:(lia)). lia.
Qed.

(* allocation changes no cell: unallocated storage reads as raw, and so does a fresh buffer *)
Lemma get_cell_grows v bs' i : grows (v_shift v) (v_bufs v) bs' -> get_cell (with_bufs v bs') i = get_cell v i.
Proof.
  intros [_ G]. unfold get_cell, get_bs. simpl. rewrite bsi_eta. specialize (G (bkt (v_shift v) i)).
  destruct (get_buf (v_bufs v) (bkt (v_shift v) i)) as [l|].
  - rewrite G. reflexivity.
  - destruct G as [G|G]; rewrite G; [reflexivity|].
    destruct (0 <=? sub (v_shift v) i); [|reflexivity]. unfold fresh_bucket. apply nth_repeat_raw.
Qed.

(* ------------------------------------------------------------------------------------------------ ainv *)
Definition alloc_upto (shift : Z) (bs : list (option bucket)) (n : Z) : Prop :=
  forall b, 0 <= b <= bkt shift n -> is_alloc bs b = true.
Definition ainv (strat shift : Z) (bs : list (option bucket)) (n : Z) : Prop :=
  alloc_upto shift bs n /\
  (alloc_check_index strat (capof shift n) < sub shift n -> is_alloc bs (bkt shift n + 1) = true).
(* buffers 0 and 1 exist from construction to destruction *)
Definition base (bs : list (option bucket)) : Prop := is_alloc bs 0 = true /\ is_alloc bs 1 = true.

Lemma bucket_cap_0 shift : bucket_cap shift 0 = 2 ^ shift.
Proof. reflexivity. Qed.
Lemma bucket_cap_1 shift : bucket_cap shift 1 = 2 ^ shift.
Proof. reflexivity. Qed.

Lemma check_index_range strat cap : 1 <= cap -> 0 <= alloc_check_index strat cap <= cap - 1.
Proof.
  intros H. unfold alloc_check_index. destruct (strat =? 0); [lia|]. destruct (strat =? 1); [|lia].
  rewrite Z.quot_div_nonneg by lia. lia.
Qed.

Lemma ainv_grows strat shift bs bs' n : grows shift bs bs' -> ainv strat shift bs n -> ainv strat shift bs' n.
Proof.
  intros G [A B]. split.
  - intros b Hb. eapply grows_alloc; eauto.
  - intros H. eapply grows_alloc; eauto.
Qed.
Lemma base_grows shift bs bs' : grows shift bs bs' -> base bs -> base bs'.
Proof. intros G [A B]. split; eapply grows_alloc; eauto. Qed.

(* a smaller size can be used as well *)
Lemma ainv_smaller strat shift bs n m : 0 <= shift -> 0 <= m <= n -> ainv strat shift bs n -> ainv strat shift bs m.
Proof.
  intros Hs Hm [A B].
  pose proof (bkt_mono shift m n Hs Hm) as M.
  pose proof (bsi_facts shift m Hs ltac:(lia)) as (Bm & Sm & Cm & Em).
  pose proof (bsi_facts shift n Hs ltac:(lia)) as (Bn & Sn & Cn & En).
  split.
  - intros b Hb. apply A. lia.
  - intros H. destruct (Z.eq_dec (bkt shift m) (bkt shift n)) as [Eq|Ne].
    + rewrite Eq. apply B. rewrite Eq in *. rewrite Cn. rewrite Cm in H. lia.
    + apply A. lia.
Qed.

(* ------------------------------------------------------------------------------------------------ allocAsNecessary(binfo) *)
Lemma alloc1_spec strat shift bs n :
  0 <= shift -> 0 <= n -> base bs -> ainv strat shift bs n -> bkt shift n + 1 < Z.of_nat (length bs) ->
  let '(bs', bad) := alloc1 strat bs (bkt shift n) (sub shift n) (capof shift n) in
  grows shift bs bs' /\ bad = 0 /\ ainv strat shift bs' (n + 1).
Proof.
  intros Hs Hn [B0 B1] [A B] Room.
  pose proof (bsi_facts shift n Hs Hn) as (Bn & Sn & Cn & En).
  pose proof (bucket_cap_pos shift (bkt shift n) Hs Bn) as CP.
  pose proof (check_index_range strat (capof shift n) ltac:(lia)) as CR.
  unfold alloc1.
  set (b := bkt shift n) in *. set (s := sub shift n) in *. set (cap := capof shift n) in *.
  set (chk := alloc_check_index strat cap) in *.
  set (bs1 := if s =? chk then if is_alloc bs (b + 1) then bs else set_buf bs (b + 1) (Some (fresh_bucket (cap * 2))) else bs).
  assert (G : grows shift bs bs1).
  { unfold bs1. destruct (s =? chk); [|apply grows_refl]. destruct (is_alloc bs (b + 1)) eqn:E; [apply grows_refl|].
    assert (1 <= b). { destruct (Z.eq_dec b 0) as [Z0|]; [|lia]. rewrite Z0 in E. simpl in E. congruence. }
    replace (cap * 2) with (bucket_cap shift (b + 1)) by (rewrite bucket_cap_next by lia; lia).
    apply grows_set_fresh; [lia | exact E]. }
  assert (N : s = chk -> is_alloc bs1 (b + 1) = true).
  { intros Eq. unfold bs1. replace (s =? chk) with true by lia. destruct (is_alloc bs (b + 1)) eqn:E; [exact E|].
    apply is_alloc_set_fresh. lia. }
  assert (Ab : is_alloc bs1 b = true) by (eapply grows_alloc; [exact G | apply A; lia]).
  rewrite Ab. split; [exact G|]. split; [reflexivity|].
  assert (Nx : chk <= s -> is_alloc bs1 (b + 1) = true).
  { intros Hle. destruct (Z.eq_dec s chk) as [Eq|Ne]; [apply N; exact Eq|]. eapply grows_alloc; [exact G|]. apply B. lia. }
  destruct (bsi_succ shift n Hs Hn) as [(S1 & K1 & K2 & K3) | (S1 & K1 & K2)]; fold b s cap in S1, K1, K2.
  - fold cap in K3. split.
    + intros k Hk. rewrite K1 in Hk. eapply grows_alloc; [exact G | apply A; exact Hk].
    + rewrite K1, K2, K3. fold chk. intros H. apply Nx. lia.
  - split.
    + intros k Hk. rewrite K1 in Hk. destruct (Z.eq_dec k (b + 1)) as [->|]; [apply Nx; lia|].
      eapply grows_alloc; [exact G | apply A; lia].
    + rewrite K2. intros H. exfalso.
      pose proof (bsi_facts shift (n + 1) Hs ltac:(lia)) as (_ & S2 & _ & _).
      pose proof (check_index_range strat (capof shift (n + 1)) ltac:(lia)). lia.
Qed.

(* ------------------------------------------------------------------------------------------------ allocAsNecessary(binfo, len, bend) *)
Lemma alloc_loop_spec shift n : forall bs bk cap,
  0 <= shift -> 1 <= bk -> cap = bucket_cap shift bk -> bk + Z.of_nat n <= Z.of_nat (length bs) ->
  let '(bs', bk', cap') := alloc_loop n bs bk cap in
  grows shift bs bs' /\ bk' = bk + Z.of_nat n /\ cap' = bucket_cap shift bk' /\
  (forall b, bk <= b < bk + Z.of_nat n -> is_alloc bs' b = true).
Proof.
  induction n as [|n IH]; intros bs bk cap Hs Hbk Hcap Room.
  - simpl. split; [apply grows_refl|]. split; [lia|]. split; [replace (bk + Z.of_nat 0) with bk by lia; exact Hcap|]. intros; lia.
  - cbn [alloc_loop].
    set (bs1 := if is_alloc bs bk then bs else set_buf bs bk (Some (fresh_bucket cap))).
    assert (G1 : grows shift bs bs1).
    { unfold bs1. destruct (is_alloc bs bk) eqn:E; [apply grows_refl|]. subst cap. apply grows_set_fresh; [lia | exact E]. }
    assert (A1 : is_alloc bs1 bk = true).
    { unfold bs1. destruct (is_alloc bs bk) eqn:E; [exact E|]. apply is_alloc_set_fresh. lia. }
    assert (L1 : length bs1 = length bs) by (destruct G1; assumption).
    specialize (IH bs1 (bk + 1) (cap * 2) Hs ltac:(lia) ltac:(rewrite bucket_cap_next by lia; lia) ltac:(lia)).
    destruct (alloc_loop n bs1 (bk + 1) (cap * 2)) as [[bs' bk'] cap'].
    destruct IH as (G2 & E2 & C2 & A2).
    split; [eapply grows_trans; eauto|]. split; [lia|]. split; [exact C2|].
    intros b Hb. destruct (Z.eq_dec b bk) as [->|]; [eapply grows_alloc; eauto|]. apply A2. lia.
Qed.

Lemma count_unalloc_zero n : forall bs bk, (forall b, bk <= b < bk + Z.of_nat n -> is_alloc bs b = true) -> count_unalloc n bs bk = 0.
Proof.
  induction n as [|n IH]; intros bs bk H; [reflexivity|]. cbn [count_unalloc].
  rewrite (H bk) by lia. rewrite IH; [reflexivity|]. intros b Hb. apply H. lia.
Qed.

Lemma alloc_range_spec strat shift bs n len :
  0 <= shift -> 0 <= n -> 0 <= len -> base bs -> ainv strat shift bs n -> bkt shift (n + len) + 1 < Z.of_nat (length bs) ->
  let '(bs', bad) := alloc_range strat bs (bkt shift n) (sub shift n) (capof shift n) len
                                 (bkt shift (n + len)) (sub shift (n + len)) (capof shift (n + len)) in
  grows shift bs bs' /\ bad = 0 /\ ainv strat shift bs' (n + len).
Proof.
  intros Hs Hn Hlen [B0 B1] [A B] Room.
  pose proof (bsi_facts shift n Hs Hn) as (Bn & Sn & Cn & En).
  pose proof (bsi_facts shift (n + len) Hs ltac:(lia)) as (Be & Se & Ce & Ee).
  pose proof (bkt_mono shift n (n + len) Hs ltac:(lia)) as Mono.
  pose proof (bucket_cap_pos shift (bkt shift n) Hs Bn) as CP.
  pose proof (check_index_range strat (capof shift n) ltac:(lia)) as CR.
  pose proof (check_index_range strat (capof shift (n + len)) ltac:(lia)) as CRe.
  unfold alloc_range.
  set (b := bkt shift n) in *. set (s := sub shift n) in *. set (cap := capof shift n) in *.
  set (eb := bkt shift (n + len)) in *. set (es := sub shift (n + len)) in *. set (ecap := capof shift (n + len)) in *.
  set (chk := alloc_check_index strat cap) in *. set (echk := alloc_check_index strat ecap) in *.
  set (cur := (s <=? chk) && (chk <? s + len)).
  (* past the check index of its buffer => next buffer exists *)
  assert (Nxt : chk < s -> is_alloc bs (b + 1) = true) by exact B.
  set (bs1 := if cur || (b <? eb) then _ else bs).
  assert (Main : grows shift bs bs1 /\ (forall k, b < k <= eb -> is_alloc bs1 k = true) /\ (echk < es -> is_alloc bs1 (eb + 1) = true)).
  { unfold bs1. destruct (cur || (b <? eb)) eqn:Ecb.
    - set (b0 := b + 1 + b2z (negb cur)).
      set (c0 := cap * 2 ^ (b2z (negb (b =? 0)) + b2z (negb cur))).
      assert (Hc0 : c0 = bucket_cap shift b0).
      { unfold c0, b0. rewrite Cn. destruct cur; destruct (b =? 0) eqn:Eb0; cbn [negb b2z].
        - assert (Hb : b = 0) by lia. rewrite Hb. change (2 ^ (0 + 0)) with 1. change (0 + 1 + 0) with 1.
          rewrite bucket_cap_0, bucket_cap_1. lia.
        - replace (b + 1 + 0) with (b + 1) by lia. rewrite bucket_cap_next by lia. change (2 ^ (1 + 0)) with 2. lia.
        - assert (Hb : b = 0) by lia. rewrite Hb. change (2 ^ (0 + 1)) with 2. change (0 + 1 + 1) with (1 + 1).
          rewrite bucket_cap_next by lia. rewrite bucket_cap_0, bucket_cap_1. lia.
        - replace (b + 1 + 1) with ((b + 1) + 1) by lia. rewrite !bucket_cap_next by lia. change (2 ^ (1 + 1)) with 4. lia. }
      assert (Hb0 : b0 <= eb + 1).
      { unfold b0. destruct cur eqn:Ec; simpl b2z; [lia|]. simpl in Ecb. lia. }
      pose proof (alloc_loop_spec shift (Z.to_nat (eb + 1 - b0)) bs b0 c0 Hs ltac:(unfold b0; destruct cur; simpl; lia) Hc0 ltac:(lia)) as LS.
      destruct (alloc_loop (Z.to_nat (eb + 1 - b0)) bs b0 c0) as [[bs' bk] capk].
      destruct LS as (G1 & Ebk & Ecap & A1).
      assert (Ebk' : bk = eb + 1) by lia.
      assert (L1 : length bs' = length bs) by (destruct G1; assumption).
      set (bs2 := if echk <? es then (if is_alloc bs' bk then bs' else set_buf bs' bk (Some (fresh_bucket capk))) else bs').
      assert (G2 : grows shift bs' bs2).
      { unfold bs2. destruct (echk <? es); [|apply grows_refl]. destruct (is_alloc bs' bk) eqn:E; [apply grows_refl|].
        rewrite Ecap. apply grows_set_fresh; [lia | exact E]. }
      split; [eapply grows_trans; eauto|]. split.
      + intros k Hk. eapply grows_alloc; [exact G2|].
        destruct (Z_lt_ge_dec k b0) as [Lt|Ge].
        * (* k = b + 1 and the current buffer's check index was already passed *)
          assert (k = b + 1 /\ cur = false) as [-> Ec]. { unfold b0 in Lt. destruct cur; simpl in Lt; lia. }
          eapply grows_alloc; [exact G1|]. apply Nxt.
          unfold cur in Ec.
          assert (cap <= s + len).
          { pose proof (bucket_start_mono shift (b + 1) eb Hs ltac:(lia)) as M. rewrite bucket_start_next in M by lia. lia. }
          lia.
        * apply A1. lia.
      + intros H. unfold bs2. replace (echk <? es) with true by lia. rewrite Ebk' in *.
        destruct (is_alloc bs' (eb + 1)) eqn:E; [exact E|]. apply is_alloc_set_fresh. lia.
    - split; [apply grows_refl|]. split; [intros; lia|].
      intros H. assert (eb = b) by lia. assert (cur = false) by (destruct cur; simpl in Ecb; congruence).
      replace (eb + 1) with (b + 1) by lia. apply Nxt.
      assert (es = s + len) by (rewrite H0 in Ee; lia). assert (ecap = cap) by (rewrite Ce, Cn, H0; reflexivity).
      unfold cur in H1. unfold echk in H. rewrite H3 in H. fold chk in H. lia. }
  destruct Main as (G & Mid & Last).
  assert (All : forall k, 0 <= k <= eb -> is_alloc bs1 k = true).
  { intros k Hk. destruct (Z_le_gt_dec k b); [eapply grows_alloc; [exact G | apply A; lia] | apply Mid; lia]. }
  split; [exact G|]. split.
  - apply count_unalloc_zero. intros k Hk. apply All. lia.
  - split; [intros k Hk; apply All; exact Hk | exact Last].
Qed.
