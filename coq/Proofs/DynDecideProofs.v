(* What parallel_for decides (pf_decide over the regenerated leaves) in plain arithmetic, for configurations in the
   documented domain. *)
From Coq Require Import ZArith List Bool Lia Zdiv.
From DV Require Import Base.MachInt Model.ChunkModel Proofs.ChunkProofs Gen.GenChunk Model.ParForModel Model.DynLeafModel
  GenTie.DynGenTie Proofs.DynLeafProofs Model.DynModel.
Import ListNotations.
Local Open Scope Z_scope.

(* the documented domain of parallel_for (see ASSUMPTIONS of props/C12.py) *)
Definition pf_dom_wide (c : pfcfg) : Prop :=
  (pf_kn c < 8)%nat /\
  let k := kind_of (pf_kn c) in
  in_kind k (pf_s c) /\ in_kind k (pf_e c) /\
  (ik_signed k = true -> 32 <= ik_w k -> pf_e c - pf_s c <= kmax k) /\
  0 <= pf_N c < 2 ^ 31 /\ 0 <= pf_maxThreads c < 2 ^ 32 /\ 0 <= pf_minItems c < 2 ^ 32 /\ 0 <= pf_gran c < 2 ^ 32 /\
  2 * (pf_e c - pf_s c) + 64 * (pf_N c + 1) + pf_gran c + 1 < 2 ^ 63 /\
  (pf_chunk c = 0 \/ pf_chunk c = kmax k \/ 1 <= pf_chunk c < kmax k).
(* (the former finding explicit-chunk-overflow-64bit, which had to be excluded here, is fixed in /repo) *)
Definition pf_dom (c : pfcfg) : Prop := pf_dom_wide c.

Lemma kind_of_wf kn : (kn < 8)%nat -> wf_kind (kind_of kn) /\ ik_w (kind_of kn) <= 64.
Proof.
  intros H. unfold kind_of. do 8 (destruct kn as [|kn]; [unfold wf_kind; simpl; lia|]). lia.
Qed.

Lemma kind_of_nth kn : (kn < 8)%nat -> nth kn all_kinds I8 = kind_of kn.
Proof. intros H. unfold kind_of. apply nth_indep. simpl. lia. Qed.

Definition m_decide (c : pfcfg) : pfdec :=
  let k := kind_of (pf_kn c) in
  if m_range_empty (pf_s c) (pf_e c) then DEC PEmpty 1 (pf_e c) false 0 1 else
  let '(g, trimmedEnd, hasTail) := m_computeGranularity k (pf_s c) (pf_e c) (pf_chunk c) (pf_gran c) in
  let minItems := Z.max 1 (pf_minItems c) in
  let maxThreads := Z.max (wrap_s 32 (pf_maxThreads c)) 1 in
  let isStatic := m_isStatic k (pf_chunk c) in
  if m_range_empty (pf_s c) trimmedEnd || (pf_N c =? 0) then DEC PSerial g trimmedEnd hasTail 1 minItems else
  let '(maxThreads', isStatic') :=
    m_adjustChunkSizing k (pf_s c) trimmedEnd (pf_chunk c) maxThreads isStatic minItems (pf_N c) (pf_wait c) in
  if maxThreads' <? 2 then DEC PSerial g trimmedEnd hasTail maxThreads' minItems else
  if isStatic' then DEC PStatic g trimmedEnd hasTail maxThreads' minItems else
  if (pf_chunk c =? 0) then DEC PAdaptive g trimmedEnd hasTail maxThreads' minItems
  else DEC PDynamic g trimmedEnd hasTail maxThreads' minItems.

Lemma pf_decide_eq c : (pf_kn c < 8)%nat -> pf_decide c = m_decide c.
Proof.
  intros H. unfold pf_decide, m_decide.
  rewrite !tie_range_empty_of, tie_computeGranularity_of, tie_isStatic_of by exact H.
  destruct (m_range_empty (pf_s c) (pf_e c)); [reflexivity|].
  destruct (m_computeGranularity (kind_of (pf_kn c)) (pf_s c) (pf_e c) (pf_chunk c) (pf_gran c)) as [[g te] tl].
  rewrite tie_range_empty_of, tie_adjustChunkSizing_of by exact H. reflexivity.
Qed.

(* adjustChunkSizing never turns a static request into a dynamic one *)
Lemma adjust_keeps_static k s e chunk mt st mi N w :
  snd (m_adjustChunkSizing k s e chunk mt st mi N w) = false -> st = false.
Proof.
  unfold m_adjustChunkSizing.
  repeat match goal with |- context [if ?b then _ else _] => destruct b end; cbn [snd]; intros H; first [exact H | discriminate H].
Qed.

(* the facts every parallel (non-serial) path starts from *)
Record par_facts (c : pfcfg) : Prop := PFA {
  pfa_lt : pf_s c < pf_e c;
  pfa_g : d_g (pf_decide c) = (if (pf_chunk c =? 0) || (pf_chunk c =? kmax (kind_of (pf_kn c))) then Z.max 1 (pf_gran c) else 1);
  pfa_g1 : 1 <= d_g (pf_decide c);
  pfa_e : pf_s c < d_trimmedEnd (pf_decide c) <= pf_e c;
  pfa_div : (d_g (pf_decide c) | d_trimmedEnd (pf_decide c) - pf_s c);
  pfa_tail_t : d_hasTail (pf_decide c) = true -> d_trimmedEnd (pf_decide c) < pf_e c;
  pfa_tail_f : d_hasTail (pf_decide c) = false -> d_trimmedEnd (pf_decide c) = pf_e c;
  pfa_rem : pf_e c - d_trimmedEnd (pf_decide c) < d_g (pf_decide c);
  pfa_N : 1 <= pf_N c;
  pfa_mt : 2 <= d_maxThreads (pf_decide c);
  pfa_mi : d_minItems (pf_decide c) = Z.max 1 (pf_minItems c);
  pfa_adj : exists st', m_adjustChunkSizing (kind_of (pf_kn c)) (pf_s c) (d_trimmedEnd (pf_decide c)) (pf_chunk c)
                          (Z.max (wrap_s 32 (pf_maxThreads c)) 1) (m_isStatic (kind_of (pf_kn c)) (pf_chunk c))
                          (Z.max 1 (pf_minItems c)) (pf_N c) (pf_wait c) = (d_maxThreads (pf_decide c), st') /\
                        (st' = true <-> d_path (pf_decide c) = PStatic) }.

Lemma decide_inv c : pf_dom c ->
  (pf_e c <= pf_s c /\ d_path (pf_decide c) = PEmpty) \/
  (pf_s c < pf_e c /\ d_path (pf_decide c) = PSerial) \/
  (par_facts c /\ (d_path (pf_decide c) = PStatic \/
                   (d_path (pf_decide c) = PAdaptive /\ pf_chunk c = 0) \/
                   (d_path (pf_decide c) = PDynamic /\ pf_chunk c <> 0 /\ pf_chunk c <> kmax (kind_of (pf_kn c))))).
Proof.
  intros (Hkn & Hs & He & Hub & HN & HmT & Hmi & Hgr & Hfit & Hch).
  destruct (kind_of_wf _ Hkn) as [Hwf Hw64].
  pose proof (pf_decide_eq c Hkn) as D. unfold m_decide, m_range_empty in D.
  destruct (pf_e c <=? pf_s c) eqn:E0; [apply Z.leb_le in E0; left; split; [exact E0 | rewrite D; reflexivity] | apply Z.leb_gt in E0].
  right.
  pose proof (cg_spec (kind_of (pf_kn c)) Hwf Hw64 (pf_s c) (pf_e c) Hs He E0 ltac:(lia) Hub (pf_chunk c) (pf_gran c) Hgr) as CG.
  destruct (m_computeGranularity (kind_of (pf_kn c)) (pf_s c) (pf_e c) (pf_chunk c) (pf_gran c)) as [[g te] tl].
  destruct CG as (G0 & G1 & G2 & G3 & G4 & G5 & G6).
  destruct ((te <=? pf_s c) || (pf_N c =? 0)) eqn:E1; [left; split; [exact E0 | rewrite D; reflexivity]|].
  apply orb_false_iff in E1. destruct E1 as [E1 E2]. apply Z.leb_gt in E1. apply Z.eqb_neq in E2.
  destruct (m_adjustChunkSizing (kind_of (pf_kn c)) (pf_s c) te (pf_chunk c) (Z.max (wrap_s 32 (pf_maxThreads c)) 1)
              (m_isStatic (kind_of (pf_kn c)) (pf_chunk c)) (Z.max 1 (pf_minItems c)) (pf_N c) (pf_wait c)) as [mt' st'] eqn:ADJ.
  destruct (mt' <? 2) eqn:E3; [left; split; [exact E0 | rewrite D; reflexivity] | apply Z.ltb_ge in E3].
  right.
  assert (KS : st' = false -> pf_chunk c <> kmax (kind_of (pf_kn c))).
  { intros F. pose proof (adjust_keeps_static (kind_of (pf_kn c)) (pf_s c) te (pf_chunk c) (Z.max (wrap_s 32 (pf_maxThreads c)) 1)
                  (m_isStatic (kind_of (pf_kn c)) (pf_chunk c)) (Z.max 1 (pf_minItems c)) (pf_N c) (pf_wait c)) as K.
    rewrite ADJ in K. specialize (K F). unfold m_isStatic in K. apply Z.eqb_neq in K. exact K. }
  destruct st' eqn:ST.
  - split; [|left; rewrite D; reflexivity].
    constructor; rewrite ?D; cbn [d_g d_trimmedEnd d_hasTail d_maxThreads d_minItems d_path]; try assumption; try lia.
    eexists; split; [exact ADJ | tauto].
  - destruct (Z.eq_dec (pf_chunk c) 0) as [E4|E4];
      [replace (pf_chunk c =? 0) with true in D by (symmetry; apply Z.eqb_eq; exact E4)
      |replace (pf_chunk c =? 0) with false in D by (symmetry; apply Z.eqb_neq; exact E4)].
    + split; [|right; left; split; [rewrite D; reflexivity | exact E4]].
      constructor; rewrite ?D; cbn [d_g d_trimmedEnd d_hasTail d_maxThreads d_minItems d_path]; try assumption; try lia.
      eexists; split; [exact ADJ | split; intros; discriminate].
    + split; [|right; right; split; [rewrite D; reflexivity | split; [exact E4 | apply KS; reflexivity]]].
      constructor; rewrite ?D; cbn [d_g d_trimmedEnd d_hasTail d_maxThreads d_minItems d_path]; try assumption; try lia.
      eexists; split; [exact ADJ | split; intros; discriminate].
Qed.
