(* SubgraphT::clear(): the edge surgery (decrementDependentCounters, markNodesWithPredicessors,
   removePredecessorDependencies with its swap-remove loop and early return) keeps the graph well-formed:
   afterwards no dependents_ list mentions a destroyed node and every numPredecessors_ equals the number of
   occurrences in the remaining dependents_ lists.  Also: addNode / dependsOn / addSubgraph / biPropDependsOn keep it. *)
From Coq Require Import ZArith List Bool PArith FMapPositive Lia Arith Permutation.
From DV Require Import Base.MachInt Model.GraphModel Proofs.C30Proofs Proofs.C31Proofs.
Import ListNotations.
Local Open Scope Z_scope.

Arguments countp : simpl never.
Arguments tsum : simpl never.

(* ------------------------------------------------------------------------------------------------ the swap-remove loop *)

Definition cntm (marked : positive -> bool) (l : list positive) : nat := length (filter marked l).
Definition unm (marked : positive -> bool) (l : list positive) : list positive := filter (fun d => negb (marked d)) l.

Lemma cntm_app m l1 l2 : cntm m (l1 ++ l2) = (cntm m l1 + cntm m l2)%nat.
Proof. unfold cntm. rewrite filter_app, app_length. reflexivity. Qed.
Lemma unm_app m l1 l2 : unm m (l1 ++ l2) = unm m l1 ++ unm m l2.
Proof. unfold unm. apply filter_app. Qed.
Lemma cntm_zero_unm m l : cntm m l = 0%nat -> unm m l = l.
Proof.
  unfold cntm, unm. induction l as [|a l IH]; [reflexivity|]. simpl. destruct (m a); simpl; [discriminate|]. intros H. rewrite IH; auto.
Qed.

Lemma nth_mid (A : list positive) b R d : nth (length A) (A ++ b :: R) d = b.
Proof. rewrite app_nth2 by lia. rewrite Nat.sub_diag. reflexivity. Qed.
Lemma set_nth_mid (A : list positive) b x R : set_nth (length A) x (A ++ b :: R) = A ++ x :: R.
Proof. induction A as [|a A IH]; [reflexivity|]. simpl. rewrite IH. reflexivity. Qed.
Lemma firstn_exact (A R : list positive) : firstn (length A) (A ++ R) = A.
Proof. rewrite firstn_app, Nat.sub_diag, firstn_all. simpl. apply app_nil_r. Qed.

Lemma exists_last_or_nil (l : list positive) : l = [] \/ exists mid last, l = mid ++ [last].
Proof.
  destruct l as [|a l]; [left; reflexivity|]. right. destruct (@exists_last _ (a :: l)) as [mid [last E]]; [discriminate|]. exists mid, last. exact E.
Qed.

Lemma sr_loop_spec marked : forall fuel A B C budget,
  (length B <= fuel)%nat -> 0 < budget < 18446744073709551616 -> Z.of_nat (cntm marked B) <= budget ->
  let r := sr_loop fuel marked (A ++ B ++ C) (length A) (length A + length B) budget in
  Permutation (fst (fst r)) (A ++ unm marked B) /\
  ((Z.of_nat (cntm marked B) < budget /\ snd (fst r) = budget - Z.of_nat (cntm marked B) /\ snd r = false) \/
   (Z.of_nat (cntm marked B) = budget /\ snd (fst r) = 0 /\ snd r = true)).
Proof.
  induction fuel as [|f IH]; intros A B C budget Hf Hb Hk; cbv zeta.
  - destruct B; [|simpl in Hf; lia]. cbn [sr_loop fst snd length]. rewrite Nat.add_0_r. cbn [app]. rewrite firstn_exact.
    split; [rewrite app_nil_r; apply Permutation_refl|]. left. simpl. split; [lia|]. split; [lia | reflexivity].
  - destruct B as [|b0 B'].
    + cbn [sr_loop length]. rewrite Nat.add_0_r, Nat.ltb_irrefl. cbn [fst snd app]. rewrite firstn_exact.
      split; [rewrite app_nil_r; apply Permutation_refl|]. left. simpl. split; [lia|]. split; [lia | reflexivity].
    + cbn [sr_loop]. assert (Hlt : (length A <? length A + length (b0 :: B'))%nat = true) by (apply Nat.ltb_lt; simpl; lia).
      rewrite Hlt. cbn [app]. rewrite nth_mid.
      destruct (marked b0) eqn:Em.
      * (* remove: overwrite with the last element of the window *)
        assert (W : wrap64 (budget - 1) = budget - 1) by (apply wrap64_small; lia).
        rewrite W.
        assert (HkB : cntm marked (b0 :: B') = S (cntm marked B')) by (unfold cntm; simpl; rewrite Em; reflexivity).
        assert (HuB : unm marked (b0 :: B') = unm marked B') by (unfold unm; simpl; rewrite Em; reflexivity).
        rewrite HkB, HuB in *.
        destruct (exists_last_or_nil B') as [->|[mid [last ->]]].
        -- (* the window had one element *)
           cbn [length]. replace (length A + 1 - 1)%nat with (length A) by lia. cbn [app]. rewrite nth_mid, set_nth_mid.
           destruct (budget - 1 =? 0) eqn:E0.
           ++ apply Z.eqb_eq in E0. cbn [fst snd]. rewrite firstn_exact. split; [rewrite app_nil_r; apply Permutation_refl|].
              right. simpl in *. split; [lia|]. split; reflexivity.
           ++ apply Z.eqb_neq in E0.
              specialize (IH A [] (b0 :: C) (budget - 1)). cbn [app length] in IH. rewrite Nat.add_0_r in IH.
              destruct IH as [P Q]; [simpl in Hf; lia | lia | simpl; lia|]. split; [exact P|].
              destruct Q as [[Q1 [Q2 Q3]]|[Q1 _]]; [|simpl in Q1; lia]. left. simpl in *. split; [lia|]. split; [lia | exact Q3].
        -- (* general case: last moves into slot i *)
           assert (Hn : nth (length A + length (b0 :: mid ++ [last]) - 1) (A ++ b0 :: (mid ++ [last]) ++ C) 1%positive = last).
           { replace (A ++ b0 :: (mid ++ [last]) ++ C) with ((A ++ b0 :: mid) ++ last :: C) by (rewrite <- !app_assoc; reflexivity).
             replace (length A + length (b0 :: mid ++ [last]) - 1)%nat with (length (A ++ b0 :: mid)) by (rewrite !app_length; simpl; rewrite app_length; simpl; lia).
             apply nth_mid. }
           rewrite Hn, set_nth_mid.
           replace (length A + length (b0 :: mid ++ [last]) - 1)%nat with (length A + length (last :: mid))%nat by (simpl; rewrite app_length; simpl; lia).
           replace (A ++ last :: (mid ++ [last]) ++ C) with (A ++ (last :: mid) ++ (last :: C)) by (simpl; rewrite <- app_assoc; reflexivity).
           assert (Hc : cntm marked (mid ++ [last]) = cntm marked (last :: mid)).
           { rewrite cntm_app. change (last :: mid) with ([last] ++ mid). rewrite cntm_app. lia. }
           assert (Hu : Permutation (unm marked (last :: mid)) (unm marked (mid ++ [last]))).
           { rewrite unm_app. change (last :: mid) with ([last] ++ mid). rewrite unm_app. apply Permutation_app_comm. }
           rewrite Hc in *.
           destruct (budget - 1 =? 0) eqn:E0.
           ++ apply Z.eqb_eq in E0. cbn [fst snd].
              replace (A ++ (last :: mid) ++ last :: C) with ((A ++ last :: mid) ++ last :: C) by (rewrite <- app_assoc; reflexivity).
              replace (length A + length (last :: mid))%nat with (length (A ++ last :: mid)) by (rewrite app_length; reflexivity).
              rewrite firstn_exact. assert (Z0 : cntm marked (last :: mid) = 0%nat) by lia.
              split.
              ** apply Permutation_app_head. eapply Permutation_trans; [|exact Hu]. rewrite (cntm_zero_unm _ _ Z0). apply Permutation_refl.
              ** right. split; [lia|]. split; reflexivity.
           ++ apply Z.eqb_neq in E0.
              specialize (IH A (last :: mid) (last :: C) (budget - 1)).
              destruct IH as [P Q]; [simpl in Hf; rewrite app_length in Hf; simpl in *; lia | lia | lia|]. split.
              ** eapply Permutation_trans; [exact P|]. apply Permutation_app_head. exact Hu.
              ** destruct Q as [[Q1 [Q2 Q3]]|[Q1 [Q2 Q3]]]; [left | right]; (split; [lia|]; split; [lia | assumption]).
      * (* keep: i++ *)
        assert (HkB : cntm marked (b0 :: B') = cntm marked B') by (unfold cntm; simpl; rewrite Em; reflexivity).
        assert (HuB : unm marked (b0 :: B') = b0 :: unm marked B') by (unfold unm; simpl; rewrite Em; reflexivity).
        rewrite HkB, HuB in *.
        specialize (IH (A ++ [b0]) B' C budget).
        replace ((A ++ [b0]) ++ B' ++ C) with (A ++ b0 :: B' ++ C) in IH by (rewrite <- app_assoc; reflexivity).
        replace (length (A ++ [b0])) with (S (length A)) in IH by (rewrite app_length; simpl; lia).
        replace (S (length A) + length B')%nat with (length A + length (b0 :: B'))%nat in IH by (simpl; lia).
        destruct IH as [P Q]; [simpl in Hf; lia | lia | lia|]. split; [|exact Q].
        eapply Permutation_trans; [exact P|]. rewrite <- app_assoc. apply Permutation_refl.
Qed.

(* ------------------------------------------------------------------------------------------------ folding the loop over the surviving nodes *)

Lemma getl_add_same (m : lmap) n v : getl (PM.add n v m) n = v.
Proof. unfold getl. rewrite PM.gss. reflexivity. Qed.
Lemma getl_add_other (m : lmap) n k v : n <> k -> getl (PM.add k v m) n = getl m n.
Proof. intros H. unfold getl. rewrite PM.gso by exact H. reflexivity. Qed.

Definition Tm (marked : positive -> bool) (dm : lmap) (ps : list positive) : nat := tsum (fun p => cntm marked (getl dm p)) ps.

Lemma fold_sr marked : forall ps dm b ret,
  NoDup ps ->
  (ret = false -> 0 < b < 18446744073709551616 /\ Z.of_nat (Tm marked dm ps) <= b) ->
  (ret = true -> Tm marked dm ps = 0%nat) ->
  let r := fold_left (sr_node marked) ps (dm, b, ret) in
  (forall p, Permutation (getl (fst (fst r)) p) (if memp p ps then unm marked (getl dm p) else getl dm p)) /\
  (ret = false -> (Z.of_nat (Tm marked dm ps) < b /\ snd (fst r) = b - Z.of_nat (Tm marked dm ps) /\ snd r = false) \/
                  (Z.of_nat (Tm marked dm ps) = b /\ snd r = true)) /\
  (ret = true -> snd r = true).
Proof.
  induction ps as [|p ps IH]; intros dm b ret Hnd H0 H1; cbv zeta.
  - cbn [fold_left fst snd]. split; [intros p; simpl; apply Permutation_refl|]. split; [|auto].
    intros E. destruct (H0 E) as [A B]. left. unfold Tm in *. rewrite tsum_nil in *. simpl. split; [lia|]. split; [lia | exact E].
  - inversion Hnd as [|? ? Hp Hnd']; subst. cbn [fold_left].
    assert (HT : Tm marked dm (p :: ps) = (cntm marked (getl dm p) + Tm marked dm ps)%nat) by (unfold Tm; rewrite tsum_cons; reflexivity).
    destruct ret.
    + (* already returned *)
      change (sr_node marked (dm, b, true) p) with (dm, b, true).
      specialize (H1 eq_refl). rewrite HT in H1.
      destruct (IH dm b true Hnd' (fun E => ltac:(discriminate)) (fun _ => ltac:(lia))) as [A [_ C]].
      split; [|split; [intros E; discriminate | exact C]].
      intros q. eapply Permutation_trans; [apply A|]. unfold memp. cbn [existsb]. fold (memp q ps).
      destruct (Pos.eqb q p) eqn:Eq; [|apply Permutation_refl]. apply Pos.eqb_eq in Eq. subst q.
      apply memp_false in Hp. rewrite Hp. cbn [orb]. rewrite cntm_zero_unm by lia. apply Permutation_refl.
    + destruct (H0 eq_refl) as [Hb Hk]. rewrite HT in Hk.
      set (l := getl dm p).
      pose proof (sr_loop_spec marked (S (length l)) [] l [] b ltac:(lia) Hb ltac:(fold l in Hk; lia)) as SP.
      cbv zeta in SP. cbn [app length Nat.add] in SP. rewrite app_nil_r in SP.
      destruct (sr_loop (S (length l)) marked l 0 (length l) b) as [[l' b'] r'] eqn:ES. cbn [fst snd] in SP. destruct SP as [SP1 SP2].
      assert (EN : sr_node marked (dm, b, false) p = (PM.add p l' dm, b', r')).
      { unfold sr_node. cbv zeta. fold l. rewrite ES. reflexivity. }
      rewrite EN.
      set (dm1 := PM.add p l' dm).
      assert (Hsame : forall q, q <> p -> getl dm1 q = getl dm q) by (intros q Hq; unfold dm1; apply getl_add_other; exact Hq).
      assert (HT1 : Tm marked dm1 ps = Tm marked dm ps).
      { unfold Tm, tsum. f_equal. apply map_ext_in. intros q Hq. rewrite Hsame; [reflexivity | intros ->; contradiction]. }
      assert (Hfin : forall (r : lmap * Z * bool),
                 (forall q, Permutation (getl (fst (fst r)) q) (if memp q ps then unm marked (getl dm1 q) else getl dm1 q)) ->
                 forall q, Permutation (getl (fst (fst r)) q) (if memp q (p :: ps) then unm marked (getl dm q) else getl dm q)).
      { intros r A q. eapply Permutation_trans; [apply A|]. unfold memp at 2. cbn [existsb]. fold (memp q ps).
        destruct (Pos.eqb q p) eqn:Eq.
        - apply Pos.eqb_eq in Eq. subst q. apply memp_false in Hp. rewrite Hp. cbn [orb]. unfold dm1. rewrite getl_add_same. exact SP1.
        - apply Pos.eqb_neq in Eq. rewrite (Hsame q Eq). cbn [orb]. apply Permutation_refl. }
      destruct SP2 as [[Q1 [Q2 Q3]]|[Q1 [Q2 Q3]]]; subst b' r'.
      * destruct (IH dm1 (b - Z.of_nat (cntm marked l)) false Hnd') as [A [B _]].
        { intros _. rewrite HT1. fold l in Hk. lia. }
        { intros E; discriminate. }
        split; [apply Hfin; exact A|]. split; [|intros E; discriminate]. intros _. specialize (B eq_refl). rewrite HT1 in B. rewrite HT. fold l.
        destruct B as [[B1 [B2 B3]]|[B1 B3]]; [left | right].
        -- split; [clear - B1; lia|]. split; [transitivity (b - Z.of_nat (cntm marked l) - Z.of_nat (Tm marked dm ps)); [exact B2 | clear; lia] | exact B3].
        -- split; [clear - B1; lia | exact B3].
      * destruct (IH dm1 0 true Hnd') as [A [_ C]].
        { intros E; discriminate. }
        { intros _. rewrite HT1. fold l in Hk. lia. }
        split; [apply Hfin; exact A|]. split; [|intros E; discriminate]. intros _. right. rewrite HT. fold l.
        split; [fold l in Hk; lia | apply C; reflexivity].
Qed.

Fixpoint others (sg j : nat) (subs : list (list positive)) : list positive :=
  match subs with
  | [] => []
  | s :: r => (if Nat.eqb j sg then [] else s) ++ others sg (S j) r
  end.

Lemma sr_subs_fold marked sg : forall subs j st, sr_subs marked sg j subs st = fold_left (sr_node marked) (others sg j subs) st.
Proof.
  induction subs as [|s r IH]; intros j st; [reflexivity|]. cbn [sr_subs others]. rewrite fold_left_app, IH.
  destruct (Nat.eqb j sg); reflexivity.
Qed.

Lemma concat_set_nth_nil : forall subs sg j, concat (set_nth (sg - j) [] subs) = others sg j subs \/ True.
Proof. intros. right. exact I. Qed.

Lemma others_spec : forall subs sg j ns, (j <= sg)%nat -> nth_error subs (sg - j) = Some ns ->
  concat (set_nth (sg - j) [] subs) = others sg j subs /\ Permutation (concat subs) (ns ++ others sg j subs).
Proof.
  induction subs as [|s r IH]; intros sg j ns Hj Hn; [destruct (sg - j)%nat; discriminate|].
  cbn [others]. destruct (Nat.eqb j sg) eqn:E.
  - apply Nat.eqb_eq in E. subst j. rewrite Nat.sub_diag in *. simpl in Hn. injection Hn as ->. cbn [set_nth concat app].
    assert (HO : forall r k, (sg < k)%nat -> others sg k r = concat r).
    { clear. induction r as [|s r IH]; intros k Hk; [reflexivity|]. cbn [others concat]. destruct (Nat.eqb k sg) eqn:E; [apply Nat.eqb_eq in E; lia|].
      rewrite IH by lia. reflexivity. }
    rewrite HO by lia. split; [reflexivity | apply Permutation_refl].
  - apply Nat.eqb_neq in E. assert (Hlt : (j < sg)%nat) by lia.
    replace (sg - j)%nat with (S (sg - S j)) in * by lia. simpl in Hn. cbn [set_nth concat].
    destruct (IH sg (S j) ns ltac:(lia) Hn) as [A B]. split; [rewrite A; reflexivity|].
    eapply Permutation_trans; [apply Permutation_app_head; exact B|]. rewrite !app_assoc. apply Permutation_app_tail. apply Permutation_app_comm.
Qed.

(* ------------------------------------------------------------------------------------------------ steps 1 and 2 *)

Definition okd (m : zmap) (d : positive) (k : nat) : Prop := k = 0%nat \/ (Z.of_nat k <= getz m d < 18446744073709551616).

Lemma dec_np_list_spec ds : forall m d, okd m d (countp d ds) -> getz (dec_np_list m ds) d = getz m d - Z.of_nat (countp d ds).
Proof.
  unfold dec_np_list. induction ds as [|a ds IH]; intros m d H; cbn [fold_left]; [rewrite countp_nil; simpl; lia|].
  rewrite (countp_cons d a) in *. destruct (Pos.eq_dec a d) as [->|Ne].
  - destruct H as [H|H]; [lia|].
    assert (W : wrap64 (getz m d - 1) = getz m d - 1) by (apply wrap64_small; lia).
    rewrite IH.
    + rewrite getz_add_same, W. lia.
    + unfold okd. rewrite getz_add_same, W. right. lia.
  - assert (Nd : d <> a) by (intros E; apply Ne; symmetry; exact E). rewrite IH.
    + rewrite getz_add_other by exact Nd. simpl. lia.
    + unfold okd in *. rewrite getz_add_other by exact Nd. simpl in H. exact H.
Qed.

Lemma step1_spec (dp : positive -> list positive) ns : forall m d,
  okd m d (tsum (fun n => countp d (dp n)) ns) ->
  getz (fold_left (fun m n => dec_np_list m (dp n)) ns m) d = getz m d - Z.of_nat (tsum (fun n => countp d (dp n)) ns).
Proof.
  induction ns as [|a ns IH]; intros m d H; cbn [fold_left]; [rewrite tsum_nil; simpl; lia|].
  rewrite tsum_cons in *.
  assert (H1 : okd m d (countp d (dp a))) by (unfold okd in *; destruct H as [H|H]; [left; lia | right; lia]).
  rewrite IH.
  - rewrite (dec_np_list_spec (dp a) m d H1). lia.
  - unfold okd in *. rewrite (dec_np_list_spec (dp a) m d H1). destruct H as [H|H]; [left; lia | right; lia].
Qed.

Definition step2 (st : zmap * Z) (n : positive) : zmap * Z :=
  if getz (fst st) n =? 0 then st else (PM.add n K64 (fst st), wrap64 (snd st + getz (fst st) n)).

Lemma clear_step2_fold np ns : clear_step2 np ns = fold_left step2 ns (np, 0).
Proof. unfold clear_step2. apply fold_left_ext. intros [m tot] n. unfold step2. cbn [fst snd]. destruct (getz m n =? 0); reflexivity. Qed.

Definition zs (f : positive -> Z) (l : list positive) : Z := fold_right (fun n a => f n + a) 0 l.

Lemma step2_spec ns : forall m tot,
  NoDup ns -> 0 <= tot -> (forall n, In n ns -> 0 <= getz m n) -> tot + zs (getz m) ns < 18446744073709551616 ->
  let r := fold_left step2 ns (m, tot) in
  snd r = tot + zs (getz m) ns /\
  forall d, getz (fst r) d = if memp d ns && negb (getz m d =? 0) then K64 else getz m d.
Proof.
  induction ns as [|a ns IH]; intros m tot Hnd Ht Hp Hb; cbv zeta.
  - cbn [fold_left fst snd zs fold_right]. split; [lia | intros d; reflexivity].
  - inversion Hnd as [|? ? Ha Hnd']; subst. cbn [fold_left]. cbn [zs fold_right] in Hb. fold (zs (getz m) ns) in Hb.
    assert (Hzs : forall m', (forall n, In n ns -> getz m' n = getz m n) -> zs (getz m') ns = zs (getz m) ns).
    { clear - Ha. intros m' H. induction ns as [|b ns IH]; [reflexivity|]. cbn [zs fold_right]. fold (zs (getz m') ns) (zs (getz m) ns).
      rewrite H by (left; reflexivity). rewrite IH; [reflexivity | intros E; apply Ha; right; exact E | intros n Hn; apply H; right; exact Hn]. }
    assert (Hnn : 0 <= zs (getz m) ns).
    { clear - Hp. induction ns as [|b ns IH]; [simpl; lia|]. cbn [zs fold_right]. fold (zs (getz m) ns).
      pose proof (Hp b (or_intror (or_introl eq_refl))). assert (0 <= zs (getz m) ns) by (apply IH; intros n [<-|Hn]; apply Hp; [left | right; right]; auto). lia. }
    pose proof (Hp a (or_introl eq_refl)) as Hpa.
    assert (ES : step2 (m, tot) a = if getz m a =? 0 then (m, tot) else (PM.add a K64 m, wrap64 (tot + getz m a))) by reflexivity.
    rewrite ES. clear ES. destruct (getz m a =? 0) eqn:E0.
    + apply Z.eqb_eq in E0. destruct (IH m tot Hnd' Ht (fun n Hn => Hp n (or_intror Hn)) ltac:(lia)) as [A B].
      split; [cbn [zs fold_right]; fold (zs (getz m) ns); lia|]. intros d. eapply eq_trans; [exact (B d)|]. unfold memp at 2. cbn [existsb]. fold (memp d ns).
      destruct (Pos.eqb d a) eqn:Ed; [|reflexivity]. apply Pos.eqb_eq in Ed. subst d. apply memp_false in Ha. rewrite Ha, E0. reflexivity.
    + apply Z.eqb_neq in E0.
      assert (W : wrap64 (tot + getz m a) = tot + getz m a) by (apply wrap64_small; lia).
      rewrite W. set (m' := PM.add a K64 m).
      assert (Hm' : forall n, In n ns -> getz m' n = getz m n) by (intros n Hn; unfold m'; apply getz_add_other; intros ->; contradiction).
      destruct (IH m' (tot + getz m a) Hnd' ltac:(lia)) as [A B].
      { intros n Hn. rewrite Hm' by exact Hn. apply Hp. right. exact Hn. }
      { rewrite (Hzs m' Hm'). lia. }
      rewrite (Hzs m' Hm') in A. split; [eapply eq_trans; [exact A|]; cbn [zs fold_right]; fold (zs (getz m) ns); lia|].
      intros d. eapply eq_trans; [exact (B d)|]. unfold memp at 2. cbn [existsb]. fold (memp d ns). destruct (Pos.eqb d a) eqn:Ed.
      * apply Pos.eqb_eq in Ed. subst d. apply memp_false in Ha. rewrite Ha. cbn [andb orb]. unfold m'. rewrite getz_add_same.
        apply Z.eqb_neq in E0. rewrite E0. reflexivity.
      * apply Pos.eqb_neq in Ed. unfold m'. rewrite getz_add_other by exact Ed. reflexivity.
Qed.

(* ------------------------------------------------------------------------------------------------ counting lemmas *)

Lemma countp_perm d l1 l2 : Permutation l1 l2 -> countp d l1 = countp d l2.
Proof. intros H. induction H; try reflexivity; rewrite ?countp_cons; try lia; try congruence. Qed.

Lemma countp_unm marked d l : countp d (unm marked l) = if marked d then 0%nat else countp d l.
Proof.
  unfold unm. induction l as [|a l IH]; [destruct (marked d); reflexivity|]. cbn [filter]. destruct (marked a) eqn:Ea; cbn [negb].
  - rewrite IH, (countp_cons d a). destruct (Pos.eq_dec a d) as [->|Ne]; [rewrite Ea; reflexivity | destruct (marked d); lia].
  - rewrite !countp_cons, IH. destruct (Pos.eq_dec a d) as [->|Ne]; [rewrite Ea; reflexivity | destruct (marked d); lia].
Qed.

Lemma filt_count ns l : NoDup ns -> length (filter (fun d => memp d ns) l) = tsum (fun n => countp n l) ns.
Proof.
  intros Hnd. induction l as [|a l IH].
  - simpl. symmetry. apply tsum_zero. intros; apply countp_nil.
  - cbn [filter]. assert (E : tsum (fun n => countp n (a :: l)) ns = ((if memp a ns then 1 else 0) + tsum (fun n => countp n l) ns)%nat).
    { clear IH. induction ns as [|b ns IHn]; [reflexivity|]. inversion Hnd as [|? ? Hb Hnd']; subst. rewrite !tsum_cons, (IHn Hnd'), (countp_cons b a).
      unfold memp at 2. cbn [existsb]. fold (memp a ns). destruct (Pos.eq_dec a b) as [->|Ne].
      - rewrite Pos.eqb_refl. apply memp_false in Hb. rewrite Hb. simpl. lia.
      - apply Pos.eqb_neq in Ne. rewrite Ne. simpl. lia. }
    rewrite E. destruct (memp a ns); simpl; rewrite IH; reflexivity.
Qed.

Lemma tsum_swap {A B} (f : A -> B -> nat) la lb :
  tsum (fun a => tsum (fun b => f a b) lb) la = tsum (fun b => tsum (fun a => f a b) la) lb.
Proof.
  induction la as [|a la IH].
  - rewrite tsum_nil. symmetry. apply tsum_zero. intros; apply tsum_nil.
  - rewrite tsum_cons, IH. clear IH. induction lb as [|b lb IHb]; [rewrite !tsum_nil; reflexivity|].
    rewrite !tsum_cons, <- IHb. lia.
Qed.

Lemma tsum_le {A} (f h : A -> nat) l : (forall a, In a l -> (f a <= h a)%nat) -> (tsum f l <= tsum h l)%nat.
Proof.
  induction l as [|a l IH]; intros H; [rewrite !tsum_nil; lia|]. rewrite !tsum_cons.
  pose proof (H a (or_introl eq_refl)). assert (tsum f l <= tsum h l)%nat by (apply IH; intros b Hb; apply H; right; exact Hb). lia.
Qed.

Lemma remove_keys_getz (m : zmap) ns d : getz (remove_keys m ns) d = if memp d ns then 0 else getz m d.
Proof.
  unfold remove_keys. revert m. induction ns as [|a ns IH]; intros m; [reflexivity|]. cbn [fold_left]. rewrite IH.
  unfold memp at 2. cbn [existsb]. fold (memp d ns). destruct (memp d ns); [rewrite orb_true_r; reflexivity|]. rewrite orb_false_r.
  unfold getz. destruct (Pos.eqb d a) eqn:E.
  - apply Pos.eqb_eq in E. subst. rewrite PM.grs. reflexivity.
  - apply Pos.eqb_neq in E. rewrite PM.gro by exact E. reflexivity.
Qed.
Lemma remove_keys_getl (m : lmap) ns d : getl (remove_keys m ns) d = if memp d ns then [] else getl m d.
Proof.
  unfold remove_keys. revert m. induction ns as [|a ns IH]; intros m; [reflexivity|]. cbn [fold_left]. rewrite IH.
  unfold memp at 2. cbn [existsb]. fold (memp d ns). destruct (memp d ns); [rewrite orb_true_r; reflexivity|]. rewrite orb_false_r.
  unfold getl. destruct (Pos.eqb d a) eqn:E.
  - apply Pos.eqb_eq in E. subst. rewrite PM.grs. reflexivity.
  - apply Pos.eqb_neq in E. rewrite PM.gro by exact E. reflexivity.
Qed.

(* ------------------------------------------------------------------------------------------------ clear keeps the graph well-formed *)

Lemma NoDup_app_r {A} (l1 l2 : list A) : NoDup (l1 ++ l2) -> NoDup l2.
Proof. induction l1 as [|a l1 IH]; intros H; [exact H|]. simpl in H. inversion H; subst. apply IH. assumption. Qed.
Lemma filter_len_le {A} (f : A -> bool) l : (length (filter f l) <= length l)%nat.
Proof. induction l as [|a l IH]; [simpl; lia|]. simpl. destruct (f a); simpl; lia. Qed.

Definition fresh_ok (g : graph) : Prop := forall n, In n (g_nodes g) -> (n < g_next g)%positive.
Definition small_graph (g : graph) : Prop := Z.of_nat (edge_count (xg_of g)) < 18446744073709551615.

Lemma wfgb_intro g :
  NoDup (g_nodes g) -> (forall p d, In p (g_nodes g) -> In d (getl (g_deps g) p) -> In d (g_nodes g)) ->
  (forall d, In d (g_nodes g) -> getz (g_np g) d = Z.of_nat (np_count g d)) ->
  (forall d, In d (g_nodes g) -> Z.of_nat (np_count g d) < K64) -> wfgb g = true.
Proof.
  intros H1 H2 H3 H4. unfold wfgb, wfxb. cbn [xg_of x_nodes x_deps].
  rewrite (NoDup_nodupb _ H1). cbn [andb]. apply andb_true_iff. split; [apply andb_true_iff; split|].
  - apply forallb_forall. intros p Hp. apply forallb_forall. intros d Hd. apply memp_In. eapply H2; eauto.
  - apply forallb_forall. intros d Hd. apply Z.eqb_eq. apply H3. exact Hd.
  - apply forallb_forall. intros d Hd. apply Z.ltb_lt. apply H4. exact Hd.
Qed.

Lemma wfgb_np g : wfgb g = true -> forall d, In d (g_nodes g) -> getz (g_np g) d = Z.of_nat (np_count g d).
Proof.
  unfold wfgb. intros H d Hd. apply andb_true_iff in H. destruct H as [H _]. apply andb_true_iff in H. destruct H as [_ H].
  rewrite forallb_forall in H. apply Z.eqb_eq. apply H. exact Hd.
Qed.

Lemma clear_wf g sg :
  wfgb g = true -> small_graph g -> fresh_ok g ->
  wfgb (clear_subgraph g sg) = true /\ fresh_ok (clear_subgraph g sg) /\ small_graph (clear_subgraph g sg) /\
  (forall n, In n (g_nodes (clear_subgraph g sg)) -> In n (g_nodes g)).
Proof.
  intros Hwf Hsmall Hfresh. unfold clear_subgraph.
  destruct (nth_error (g_subs g) sg) as [ns|] eqn:Hsg; [|repeat split; auto].
  destruct (wfgb_parts g Hwf) as [Hnd [Hcl Hbd]]. pose proof (wfgb_np g Hwf) as Hnp.
  set (nodes := g_nodes g) in *. set (dp := fun n => getl (g_deps g) n).
  set (O := others sg 0 (g_subs g)).
  destruct (others_spec (g_subs g) sg 0 ns (Nat.le_0_l _)) as [HO HP]; [rewrite Nat.sub_0_r; exact Hsg|]. rewrite Nat.sub_0_r in HO. fold O in HO, HP.
  change (concat (g_subs g)) with nodes in HP.
  assert (HNsO : NoDup (ns ++ O)) by (eapply Permutation_NoDup; eauto).
  assert (HNns : NoDup ns) by (apply NoDup_app_l in HNsO; exact HNsO).
  assert (HNO : NoDup O) by (apply NoDup_app_r in HNsO; exact HNsO).
  assert (Hdisj : forall n, In n ns -> ~ In n O).
  { intros n H1 H2. apply in_split in H1. destruct H1 as [l1 [l2 ->]]. rewrite <- app_assoc in HNsO. apply NoDup_remove_2 in HNsO.
    apply HNsO. rewrite app_assoc. apply in_app_iff. right. exact H2. }
  assert (Hin : forall n, In n nodes <-> In n ns \/ In n O).
  { intros n. rewrite <- in_app_iff. split; [apply Permutation_in; exact HP | apply Permutation_in; apply Permutation_sym; exact HP]. }
  assert (HSP : forall d, SP g nodes d = (SP g ns d + SP g O d)%nat).
  { intros d. unfold SP. rewrite (tsum_perm _ _ _ HP), tsum_app. reflexivity. }
  (* step 1 *)
  set (np1 := clear_step1_np g ns).
  assert (Hnp1 : forall d, In d nodes -> getz np1 d = Z.of_nat (SP g O d)).
  { intros d Hd. unfold np1. change (clear_step1_np g ns) with (fold_left (fun m n => dec_np_list m (dp n)) ns (g_np g)).
    rewrite (step1_spec dp ns (g_np g) d).
    - rewrite (Hnp d Hd). change (np_count g d) with (SP g nodes d). rewrite HSP. unfold SP, dp. lia.
    - right. rewrite (Hnp d Hd). change (np_count g d) with (SP g nodes d). pose proof (Hbd d Hd) as B. change (np_count g d) with (SP g nodes d) in B.
      rewrite HSP in *. unfold SP, dp, K64 in *. lia. }
  (* step 2 *)
  rewrite clear_step2_fold.
  assert (Hzs' : forall l, (forall n, In n l -> In n nodes) -> zs (getz np1) l = Z.of_nat (tsum (fun n => SP g O n) l)).
  { induction l as [|a l IH]; intros Hsub; [reflexivity|]. cbn [zs fold_right]. fold (zs (getz np1) l). rewrite tsum_cons, IH, Hnp1.
    - lia.
    - apply Hsub. left. reflexivity.
    - intros n Hn. apply Hsub. right. exact Hn. }
  assert (Hzs : zs (getz np1) ns = Z.of_nat (tsum (fun n => SP g O n) ns)) by (apply Hzs'; intros n Hn; apply Hin; left; exact Hn).
  assert (Hswap : tsum (fun n => SP g O n) ns = tsum (fun p => tsum (fun n => countp n (dp p)) ns) O).
  { unfold SP. apply (tsum_swap (fun n p => countp n (dp p)) ns O). }
  assert (Hcnt_le : forall p, (tsum (fun n => countp n (dp p)) ns <= length (dp p))%nat).
  { intros p. rewrite <- (filt_count ns (dp p) HNns). apply filter_len_le. }
  assert (Htot_le : (tsum (fun n => SP g O n) ns <= edge_count (xg_of g))%nat).
  { rewrite Hswap. unfold edge_count. cbn [xg_of x_nodes x_deps]. fold nodes.
    eapply Nat.le_trans; [apply (tsum_le _ (fun p => length (dp p))); intros p _; apply Hcnt_le|].
    apply (tsum_incl_le (fun p => length (dp p)) O nodes HNO). intros p Hp. apply Hin. right. exact Hp. }
  destruct (step2_spec ns np1 0 HNns (Z.le_refl 0)) as [Htot Hnp2].
  { intros n Hn. rewrite Hnp1 by (apply Hin; left; exact Hn). lia. }
  { rewrite Hzs. unfold small_graph in Hsmall. lia. }
  set (r2 := fold_left step2 ns (np1, 0)) in *. rewrite (surjective_pairing r2).
  set (np2 := fst r2) in *. set (tot := snd r2) in *.
  rewrite Z.add_0_l, Hzs in Htot.
  set (marked := fun d => getz np2 d =? K64).
  assert (Hmark : forall d, In d nodes -> marked d = memp d ns && negb (Nat.eqb (SP g O d) 0)).
  { intros d Hd. unfold marked. rewrite Hnp2, (Hnp1 d Hd).
    assert (B : Z.of_nat (SP g O d) < K64). { pose proof (Hbd d Hd) as B. change (np_count g d) with (SP g nodes d) in B. rewrite HSP in B. lia. }
    destruct (memp d ns); cbn [andb].
    - destruct (Nat.eqb (SP g O d) 0) eqn:E.
      + apply Nat.eqb_eq in E. rewrite E. reflexivity.
      + apply Nat.eqb_neq in E. replace (Z.of_nat (SP g O d) =? 0) with false by (symmetry; apply Z.eqb_neq; lia). reflexivity.
    - apply Z.eqb_neq. lia. }
  assert (HmarkO : forall p d, In p O -> In d (dp p) -> marked d = memp d ns).
  { intros p d Hp Hd. assert (Hdn : In d nodes) by (apply (Hcl p d); [apply Hin; right; exact Hp | exact Hd]).
    rewrite (Hmark d Hdn). destruct (memp d ns); [|reflexivity]. cbn [andb].
    assert (1 <= SP g O d)%nat.
    { unfold SP. apply in_split in Hp. destruct Hp as [l1 [l2 E]]. rewrite E, tsum_app, tsum_cons. apply countp_In in Hd. unfold dp in Hd. lia. }
    destruct (Nat.eqb (SP g O d) 0) eqn:E; [apply Nat.eqb_eq in E; lia | reflexivity]. }
  assert (HcntmO : forall p, In p O -> cntm marked (dp p) = tsum (fun n => countp n (dp p)) ns).
  { intros p Hp. rewrite <- (filt_count ns (dp p) HNns). unfold cntm. f_equal. apply filter_ext_in. intros d Hd. apply (HmarkO p d Hp Hd). }
  assert (HT : Tm marked (g_deps g) O = tsum (fun n => SP g O n) ns).
  { rewrite Hswap. unfold Tm, tsum. f_equal. apply map_ext_in. intros p Hp. apply (HcntmO p Hp). }
  set (deps3 := if tot =? 0 then g_deps g else fst (fst (sr_subs marked sg 0 (g_subs g) (g_deps g, tot, false)))).
  assert (Hd3 : forall p, In p O -> Permutation (getl deps3 p) (unm marked (dp p))).
  { intros p Hp. unfold deps3. destruct (tot =? 0) eqn:E0.
    - apply Z.eqb_eq in E0. assert (Z0 : cntm marked (dp p) = 0%nat).
      { assert (Tm marked (g_deps g) O = 0%nat) by lia. unfold Tm in H. apply (tsum_zero_inv _ O p H Hp). }
      rewrite (cntm_zero_unm _ _ Z0). apply Permutation_refl.
    - apply Z.eqb_neq in E0. rewrite sr_subs_fold. fold O.
      destruct (fold_sr marked O (g_deps g) tot false HNO) as [A _].
      + intros _. unfold small_graph in Hsmall. split; [lia | rewrite HT; lia].
      + intros E; discriminate.
      + specialize (A p). apply memp_In in Hp. rewrite Hp in A. exact A. }
  (* the resulting graph *)
  set (g' := mkG (g_bip g) (set_nth sg [] (g_subs g)) (remove_keys np2 ns) (remove_keys (g_cnt g) ns) (remove_keys deps3 ns)
                 (remove_keys (g_setof g) ns) (clear_step1_sets g ns) (remove_keys (g_cls g) ns) (g_next g) (g_nextset g)).
  assert (Hnodes' : g_nodes g' = O) by exact HO.
  assert (HnsO : forall p, In p O -> memp p ns = false) by (intros p Hp; apply memp_false; intros Hn; exact (Hdisj p Hn Hp)).
  assert (Hdeps' : forall p, In p O -> Permutation (getl (g_deps g') p) (unm marked (dp p))).
  { intros p Hp. cbn [g' g_deps]. rewrite remove_keys_getl, (HnsO p Hp). apply Hd3. exact Hp. }
  assert (HunmO : forall p d, In p O -> In d (unm marked (dp p)) -> In d O).
  { intros p d Hp Hd. unfold unm in Hd. apply filter_In in Hd. destruct Hd as [Hd Hm]. rewrite (HmarkO p d Hp Hd) in Hm.
    apply negb_true_iff, memp_false in Hm. assert (Hdn : In d nodes) by (apply (Hcl p d); [apply Hin; right; exact Hp | exact Hd]).
    apply Hin in Hdn. tauto. }
  assert (Hcount' : forall d, In d O -> np_count g' d = SP g O d).
  { intros d Hd. unfold np_count. rewrite Hnodes'. unfold SP. change (list_sum (map ?f O)) with (tsum f O). unfold tsum. f_equal.
    apply map_ext_in. intros p Hp. rewrite (countp_perm d _ _ (Hdeps' p Hp)), countp_unm.
    assert (Hdn : In d nodes) by (apply Hin; right; exact Hd). rewrite (Hmark d Hdn), (HnsO d Hd). reflexivity. }
  split; [|split; [|split]].
  - apply wfgb_intro; rewrite ?Hnodes'.
    + exact HNO.
    + intros p d Hp Hd. eapply Permutation_in in Hd; [|apply Hdeps'; exact Hp]. eapply HunmO; eauto.
    + intros d Hd. rewrite (Hcount' d Hd). cbn [g' g_np]. rewrite remove_keys_getz, (HnsO d Hd), Hnp2, (HnsO d Hd). cbn [andb].
      apply Hnp1. apply Hin. right. exact Hd.
    + intros d Hd. rewrite (Hcount' d Hd). assert (Hdn : In d nodes) by (apply Hin; right; exact Hd).
      pose proof (Hbd d Hdn) as B. change (np_count g d) with (SP g nodes d) in B. rewrite HSP in B. lia.
  - intros n Hn. rewrite Hnodes' in Hn. apply Hfresh. apply Hin. right. exact Hn.
  - unfold small_graph, edge_count in *. cbn [xg_of x_nodes x_deps] in *. rewrite Hnodes'. fold nodes in Hsmall.
    change (list_sum (map ?f O)) with (tsum f O). change (list_sum (map ?f nodes)) with (tsum f nodes) in Hsmall.
    assert ((tsum (fun n => length (getl (g_deps g') n)) O <= tsum (fun n => length (getl (g_deps g) n)) nodes)%nat); [|lia].
    eapply Nat.le_trans; [|apply (tsum_incl_le (fun n => length (getl (g_deps g) n)) O nodes HNO); intros p Hp; apply Hin; right; exact Hp].
    apply tsum_le. intros p Hp. rewrite (Permutation_length (Hdeps' p Hp)). unfold unm. apply filter_len_le.
  - intros n Hn. rewrite Hnodes' in Hn. apply Hin. right. exact Hn.
Qed.

(* ------------------------------------------------------------------------------------------------ the other construction ops *)

Lemma concat_set_nth_snoc (x : positive) : forall subs sg l, nth_error subs sg = Some l ->
  Permutation (concat (set_nth sg (l ++ [x]) subs)) (x :: concat subs).
Proof.
  induction subs as [|s r IH]; intros sg l H; [destruct sg; discriminate|]. destruct sg as [|sg]; simpl in H.
  - injection H as ->. cbn [set_nth concat]. rewrite <- app_assoc. eapply Permutation_trans; [apply Permutation_app_head, Permutation_app_comm|].
    rewrite app_assoc. apply Permutation_sym, Permutation_cons_append.
  - cbn [set_nth concat]. eapply Permutation_trans; [apply Permutation_app_head, (IH sg l H)|]. apply Permutation_sym, Permutation_middle.
Qed.

Lemma np_count_le_edges g d : (np_count g d <= edge_count (xg_of g))%nat.
Proof.
  unfold np_count, edge_count. cbn [xg_of x_nodes x_deps]. apply (tsum_le (fun p => countp d (getl (g_deps g) p)) (fun n => length (getl (g_deps g) n))).
  intros p _. unfold countp. apply count_occ_bound.
Qed.

Definition op_valid (g : graph) (o : op) : Prop :=
  match o with
  | ONode sg => (sg < length (g_subs g))%nat
  | ODep a b | OBip a b => In a (g_nodes g) /\ In b (g_nodes g)
  | _ => True
  end.

Lemma add_subgraph_wf g : wfgb g = true -> fresh_ok g -> wfgb (add_subgraph g) = true /\ fresh_ok (add_subgraph g).
Proof.
  intros Hwf Hf. assert (E : g_nodes (add_subgraph g) = g_nodes g).
  { unfold g_nodes, add_subgraph. cbn [g_subs]. rewrite concat_app. simpl. apply app_nil_r. }
  split.
  - unfold wfgb, wfxb, np_count in *. cbn [xg_of x_nodes x_deps] in *. rewrite E. exact Hwf.
  - intros n Hn. rewrite E in Hn. apply Hf. exact Hn.
Qed.

Lemma add_node_wf g sg : wfgb g = true -> fresh_ok g -> (sg < length (g_subs g))%nat ->
  wfgb (add_node g sg) = true /\ fresh_ok (add_node g sg).
Proof.
  intros Hwf Hf Hsg. unfold add_node. destruct (nth_error (g_subs g) sg) as [l|] eqn:El; [|apply nth_error_None in El; lia].
  destruct (wfgb_parts g Hwf) as [Hnd [Hcl Hbd]]. pose proof (wfgb_np g Hwf) as Hnp.
  set (id := g_next g).
  set (g' := mkG (g_bip g) (set_nth sg (l ++ [id]) (g_subs g)) (PM.add id 0 (g_np g)) (PM.add id 0 (g_cnt g)) (PM.add id [] (g_deps g))
                 (g_setof g) (g_sets g) (PM.add id id (g_cls g)) (Pos.succ id) (g_nextset g)).
  assert (HP : Permutation (g_nodes g') (id :: g_nodes g)) by (apply concat_set_nth_snoc; exact El).
  assert (Hid : ~ In id (g_nodes g)) by (intros H; specialize (Hf id H); unfold id in Hf; lia).
  assert (Hin : forall n, In n (g_nodes g') <-> n = id \/ In n (g_nodes g)).
  { intros n. split; [intros H; eapply Permutation_in in H; [|exact HP]; destruct H; auto | intros H; eapply Permutation_in; [apply Permutation_sym; exact HP|]; destruct H; [left | right]; auto]. }
  assert (Hdeps : forall p, In p (g_nodes g) -> getl (g_deps g') p = getl (g_deps g) p).
  { intros p Hp. cbn [g' g_deps]. apply getl_add_other. intros ->. contradiction. }
  assert (Hcount : forall d, np_count g' d = np_count g d).
  { intros d. unfold np_count. change (list_sum (map ?f ?l)) with (tsum f l). rewrite (tsum_perm _ _ _ HP), tsum_cons.
    cbn [g' g_deps]. rewrite getl_add_same, countp_nil. cbn [Nat.add]. unfold tsum. f_equal. apply map_ext_in. intros p Hp.
    rewrite getl_add_other; [reflexivity | intros ->; contradiction]. }
  assert (Hc0 : np_count g id = 0%nat).
  { unfold np_count. change (list_sum (map ?f ?l)) with (tsum f l). apply tsum_zero. intros p Hp.
    destruct (Nat.eq_dec (countp id (getl (g_deps g) p)) 0) as [E|E]; [exact E|]. exfalso. apply Hid. apply (Hcl p id Hp). apply countp_In. lia. }
  split.
  - apply wfgb_intro.
    + eapply Permutation_NoDup; [apply Permutation_sym; exact HP|]. constructor; assumption.
    + intros p d Hp Hd. apply Hin in Hp. destruct Hp as [->|Hp].
      * cbn [g' g_deps] in Hd. rewrite getl_add_same in Hd. destruct Hd.
      * rewrite (Hdeps p Hp) in Hd. apply Hin. right. eapply Hcl; eauto.
    + intros d Hd. rewrite Hcount. cbn [g' g_np]. apply Hin in Hd. destruct Hd as [->|Hd].
      * rewrite getz_add_same, Hc0. reflexivity.
      * rewrite getz_add_other by (intros ->; contradiction). apply Hnp. exact Hd.
    + intros d Hd. rewrite Hcount. apply Hin in Hd. destruct Hd as [->|Hd]; [rewrite Hc0; unfold K64; lia | apply Hbd; exact Hd].
  - intros n Hn. apply Hin in Hn. cbn [g' g_next]. destruct Hn as [->|Hn]; [lia|]. specialize (Hf n Hn). fold id in Hf. lia.
Qed.

Lemma depends_on_wf g a b : wfgb g = true -> fresh_ok g -> In a (g_nodes g) -> In b (g_nodes g) -> small_graph (depends_on g a b) ->
  wfgb (depends_on g a b) = true /\ fresh_ok (depends_on g a b).
Proof.
  intros Hwf Hf Ha Hb Hsm. destruct (wfgb_parts g Hwf) as [Hnd [Hcl Hbd]]. pose proof (wfgb_np g Hwf) as Hnp.
  set (g' := depends_on g a b) in *.
  assert (En : g_nodes g' = g_nodes g) by reflexivity.
  assert (Hdb : getl (g_deps g') b = getl (g_deps g) b ++ [a]) by (cbn [g' depends_on g_deps]; apply getl_add_same).
  assert (Hdo : forall p, p <> b -> getl (g_deps g') p = getl (g_deps g) p) by (intros p Hp; cbn [g' depends_on g_deps]; apply getl_add_other; exact Hp).
  assert (Hcount : forall d, np_count g' d = (np_count g d + countp d [a])%nat).
  { intros d. unfold np_count. rewrite En. change (list_sum (map ?f ?l)) with (tsum f l).
    pose proof (tsum_change_one (fun p => countp d (getl (g_deps g') p)) (fun p => countp d (getl (g_deps g) p)) (g_nodes g) b Hnd Hb) as T.
    specialize (T ltac:(intros p Hp; cbv beta; rewrite (Hdo p Hp); reflexivity)). cbv beta in T. rewrite Hdb, countp_app in T. lia. }
  assert (Hle : forall d, Z.of_nat (np_count g' d) < K64).
  { intros d. pose proof (np_count_le_edges g' d). unfold small_graph in Hsm. unfold K64. lia. }
  split.
  - apply wfgb_intro; rewrite ?En.
    + exact Hnd.
    + intros p d Hp Hd. destruct (Pos.eq_dec p b) as [->|Ne].
      * rewrite Hdb in Hd. apply in_app_iff in Hd. destruct Hd as [Hd|[<-|[]]]; [eapply Hcl; eauto | exact Ha].
      * rewrite (Hdo p Ne) in Hd. eapply Hcl; eauto.
    + intros d Hd. specialize (Hle d). rewrite Hcount in *. cbn [g' depends_on g_np]. rewrite (countp_cons d a), countp_nil in *.
      destruct (Pos.eq_dec a d) as [<-|Ne].
      * rewrite getz_add_same, (Hnp a Ha). rewrite wrap64_small; unfold K64 in *; lia.
      * rewrite getz_add_other by (intros E; apply Ne; symmetry; exact E). rewrite (Hnp d Hd). lia.
    + intros d _. apply Hle.
  - intros n Hn. apply Hf. exact Hn.
Qed.

Lemma biprop_same g a b :
  g_subs (biprop_depends_on g a b) = g_subs (depends_on g a b) /\ g_np (biprop_depends_on g a b) = g_np (depends_on g a b) /\
  g_deps (biprop_depends_on g a b) = g_deps (depends_on g a b) /\ g_next (biprop_depends_on g a b) = g_next (depends_on g a b).
Proof. unfold biprop_depends_on. destruct (PM.find a (g_setof g)), (PM.find b (g_setof g)); repeat split; reflexivity. Qed.

Lemma construction_wf_proof : forall g o,
  wfgb g = true -> small_graph g -> fresh_ok g -> op_valid g o ->
  match o with OSub | ONode _ | ODep _ _ | OBip _ _ | OClear _ => True | _ => False end ->
  forall g', apply_op g o = Some g' -> small_graph g' -> wfgb g' = true /\ fresh_ok g'.
Proof.
  intros g o Hwf Hsm Hf Hv Hk g' E Hsm'. destruct o; try contradiction; cbn [apply_op] in E; injection E as <-.
  - apply add_subgraph_wf; assumption.
  - apply add_node_wf; assumption.
  - destruct Hv. apply depends_on_wf; assumption.
  - destruct Hv as [Ha Hb]. destruct (g_bip g); [|split; assumption].
    destruct (biprop_same g a b) as [E1 [E2 [E3 E4]]].
    assert (Hsm2 : small_graph (depends_on g a b)).
    { unfold small_graph, edge_count, g_nodes in *. cbn [xg_of x_nodes x_deps] in *. unfold g_nodes in *. rewrite <- E1, <- E3. exact Hsm'. }
    destruct (depends_on_wf g a b Hwf Hf Ha Hb Hsm2) as [W F]. split.
    + unfold wfgb, wfxb, np_count, g_nodes in *. cbn [xg_of x_nodes x_deps] in *. unfold g_nodes in *. rewrite E1, E2, E3. exact W.
    + unfold fresh_ok, g_nodes in *. rewrite E1, E4. exact F.
  - destruct (clear_wf g sg Hwf Hsm Hf) as [W [F _]]. split; assumption.
Qed.

Lemma clear_wf_proof : forall g sg,
  wfgb g = true -> small_graph g -> fresh_ok g ->
  let g' := clear_subgraph g sg in
  wfgb g' = true /\ fresh_ok g' /\ small_graph g' /\
  (forall n, In n (g_nodes g') -> In n (g_nodes g)) /\
  (* no dependents_ list of a surviving node mentions a destroyed node; numPredecessors_ = occurrences *)
  (forall p d, In p (g_nodes g') -> In d (getl (g_deps g') p) -> In d (g_nodes g')) /\
  (forall d, In d (g_nodes g') -> getz (g_np g') d = Z.of_nat (np_count g' d)).
Proof.
  intros g sg Hwf Hsm Hf g'. destruct (clear_wf g sg Hwf Hsm Hf) as [W [F [S I]]]. fold g' in W, F, S, I.
  split; [exact W|]. split; [exact F|]. split; [exact S|]. split; [exact I|]. split.
  - apply (wfgb_parts g' W).
  - apply (wfgb_np g' W).
Qed.
