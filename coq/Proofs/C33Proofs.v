(* C33: ConcurrentVector concurrent growth is exact.
   Part A: arithmetic of allocAsNecessaryImpl (both variants): which reservation allocates which bucket, for every
           strategy, every firstBucketShift, every partition of [0,n) into consecutive reservations.
   Part B: inductive invariant over ALL interleavings of Model/CVecGrowModel.v (any number of threads, any programs). *)
From Coq Require Import ZArith List Bool Lia.
From DV Require Import Base.MachInt Base.Sched Model.CVecModel Model.CVecGrowModel.
Import ListNotations.
Local Open Scope Z_scope.

Ltac Zify.zify_post_hook ::= Z.div_mod_to_equations.

(* ================================================================================================ Part A *)
(* ------------------------------------------------------------------------------------------------ bucket arithmetic *)
Lemma g_pow2_succ a : 0 <= a -> 2 ^ (a + 1) = 2 * 2 ^ a.
Proof. intros H. replace (a + 1) with (Z.succ a) by lia. rewrite Z.pow_succ_r by exact H. reflexivity. Qed.

Lemma g_cap_pos shift b : 0 <= shift -> 0 <= b -> 0 < bucket_cap shift b.
Proof. intros; unfold bucket_cap; destruct (b <=? 1) eqn:E; apply pow2_pos; lia. Qed.

Lemma g_start_next shift b : 0 <= shift -> 0 <= b ->
  bucket_start shift (b + 1) = bucket_start shift b + bucket_cap shift b.
Proof.
  intros Hs Hb. unfold bucket_start, bucket_cap.
  destruct (b + 1 <=? 0) eqn:E1; [lia|].
  destruct (b <=? 0) eqn:E2; destruct (b <=? 1) eqn:E3; try lia.
  - assert (b = 0) by lia. subst. replace (shift + (0 + 1) - 1) with shift by lia. lia.
  - assert (b = 1) by lia. subst. replace (shift + (1 + 1) - 1) with (shift + 1) by lia.
    replace (shift + 1 - 1) with shift by lia. rewrite g_pow2_succ by lia. lia.
  - replace (shift + (b + 1) - 1) with (shift + b - 1 + 1) by lia. rewrite g_pow2_succ by lia. lia.
Qed.

Lemma g_start_nonneg shift b : 0 <= shift -> 0 <= bucket_start shift b.
Proof.
  intros Hs. unfold bucket_start. destruct (b <=? 0) eqn:E; [lia|].
  pose proof (pow2_pos (shift + b - 1)). lia.
Qed.

Lemma g_start_mono shift b b' : 0 <= shift -> 0 <= b <= b' -> bucket_start shift b <= bucket_start shift b'.
Proof.
  intros Hs H. unfold bucket_start.
  destruct (b <=? 0) eqn:E1; destruct (b' <=? 0) eqn:E2.
  - lia.
  - pose proof (pow2_pos (shift + b' - 1)); lia.
  - lia.
  - apply Z.pow_le_mono_r; lia.
Qed.

Lemma g_bsi_spec shift i : 0 <= shift -> 0 <= i ->
  0 <= bkt shift i /\ 0 <= sub shift i < capof shift i /\ capof shift i = bucket_cap shift (bkt shift i) /\
  bucket_start shift (bkt shift i) + sub shift i = i.
Proof.
  intros Hs Hi. unfold bkt, sub, capof, bsi. destruct (i <? 2 ^ shift) eqn:E.
  - unfold bucket_cap, bucket_start; simpl. lia.
  - assert (P : 0 < 2 ^ shift) by (apply pow2_pos; lia).
    assert (Hi' : 0 < i) by lia.
    pose proof (Z.log2_spec i Hi') as [L1 L2].
    assert (Hl : shift <= Z.log2 i) by (apply Z.log2_le_pow2; lia).
    cbn [fst snd]. unfold bucket_cap, bucket_start.
    replace (Z.succ (Z.log2 i)) with (Z.log2 i + 1) in L2 by lia. rewrite g_pow2_succ in L2 by lia.
    destruct (Z.log2 i + 1 - shift <=? 1) eqn:E1; destruct (Z.log2 i + 1 - shift <=? 0) eqn:E2.
    + exfalso; lia.
    + assert (EL : Z.log2 i = shift) by lia. rewrite EL in *. replace (shift + (shift + 1 - shift) - 1) with shift by lia. lia.
    + exfalso; lia.
    + replace (shift + (Z.log2 i + 1 - shift) - 1) with (Z.log2 i) by lia. lia.
Qed.

(* the bucket of x is the unique b with start b <= x < start (b+1) *)
Lemma g_bkt_bounds shift x : 0 <= shift -> 0 <= x ->
  0 <= bkt shift x /\ bucket_start shift (bkt shift x) <= x < bucket_start shift (bkt shift x + 1).
Proof.
  intros Hs Hx. pose proof (g_bsi_spec shift x Hs Hx) as (B & S & C & E).
  rewrite g_start_next by lia. lia.
Qed.

Lemma g_bkt_unique shift x b : 0 <= shift -> 0 <= x -> 0 <= b ->
  bucket_start shift b <= x < bucket_start shift (b + 1) -> bkt shift x = b.
Proof.
  intros Hs Hx Hb H. pose proof (g_bkt_bounds shift x Hs Hx) as (B & L & U).
  destruct (Z_lt_ge_dec (bkt shift x) b) as [Lt|Ge].
  - pose proof (g_start_mono shift (bkt shift x + 1) b Hs ltac:(lia)). lia.
  - destruct (Z_lt_ge_dec b (bkt shift x)) as [Lt|Ge']; [|lia].
    pose proof (g_start_mono shift (b + 1) (bkt shift x) Hs ltac:(lia)). lia.
Qed.

Lemma g_bkt_mono shift x y : 0 <= shift -> 0 <= x <= y -> bkt shift x <= bkt shift y.
Proof.
  intros Hs H.
  pose proof (g_bkt_bounds shift x Hs ltac:(lia)) as (Bx & Lx & Ux).
  pose proof (g_bkt_bounds shift y Hs ltac:(lia)) as (By & Ly & Uy).
  destruct (Z_le_gt_dec (bkt shift x) (bkt shift y)) as [|G]; [assumption|exfalso].
  pose proof (g_start_mono shift (bkt shift y + 1) (bkt shift x) Hs ltac:(lia)). lia.
Qed.

Lemma g_aci_range strat c : 0 < c -> 0 <= alloc_check_index strat c < c.
Proof.
  intros Hc. unfold alloc_check_index. destruct (strat =? 0); [lia|]. destruct (strat =? 1); [|lia].
  split; [apply Z.quot_pos; lia | apply Z.quot_lt; lia].
Qed.

(* the trigger index of bucket k lies in bucket k-1 *)
Lemma g_trigger_bounds strat shift k : 0 <= shift -> 1 <= k ->
  bucket_start shift (k - 1) <= trigger strat shift k < bucket_start shift k.
Proof.
  intros Hs Hk. unfold trigger.
  pose proof (g_aci_range strat (bucket_cap shift (k - 1)) (g_cap_pos shift (k - 1) Hs ltac:(lia))) as R.
  pose proof (g_start_next shift (k - 1) Hs ltac:(lia)) as N. replace (k - 1 + 1) with k in N by lia. lia.
Qed.

Lemma g_trigger_nonneg strat shift k : 0 <= shift -> 1 <= k -> 0 <= trigger strat shift k.
Proof. intros Hs Hk. pose proof (g_trigger_bounds strat shift k Hs Hk). pose proof (g_start_nonneg shift (k - 1) Hs). lia. Qed.

Lemma g_trigger_bkt strat shift k : 0 <= shift -> 1 <= k -> bkt shift (trigger strat shift k) = k - 1.
Proof.
  intros Hs Hk. pose proof (g_trigger_bounds strat shift k Hs Hk) as B.
  apply g_bkt_unique; try lia.
  - pose proof (g_start_nonneg shift (k - 1) Hs). lia.
  - replace (k - 1 + 1) with k by lia. exact B.
Qed.

(* ------------------------------------------------------------------------------------------------ zrange / zspan *)
Lemma in_zrange x a n : In x (zrange a n) <-> a <= x < a + Z.of_nat n.
Proof.
  revert a; induction n as [|n IH]; intros a; cbn [zrange].
  - split; [intros [] | lia].
  - cbn [In]. rewrite IH. lia.
Qed.

Lemma in_zspan x lo hi : In x (zspan lo hi) <-> lo <= x <= hi.
Proof. unfold zspan. rewrite in_zrange. lia. Qed.

Lemma NoDup_zrange a n : NoDup (zrange a n).
Proof.
  revert a; induction n as [|n IH]; intros a; cbn [zrange]; constructor.
  - rewrite in_zrange. lia.
  - apply IH.
Qed.

(* ------------------------------------------------------------------------------------------------ allocs = the buckets whose trigger the reservation covers *)
Theorem allocs1_spec strat shift i k : 0 <= shift -> 0 <= i ->
  (In k (allocs1 strat shift i) <-> 1 <= k /\ trigger strat shift k = i).
Proof.
  intros Hs Hi. pose proof (g_bsi_spec shift i Hs Hi) as (B & S & C & E).
  unfold allocs1. destruct (sub shift i =? alloc_check_index strat (capof shift i)) eqn:Q.
  - apply Z.eqb_eq in Q. cbn [In]. split.
    + intros [<-|[]]. split; [lia|]. unfold trigger. replace (bkt shift i + 1 - 1) with (bkt shift i) by lia. rewrite <- C. lia.
    + intros [Hk T]. left. pose proof (g_trigger_bkt strat shift k Hs Hk) as TB. rewrite T in TB. lia.
  - apply Z.eqb_neq in Q. cbn [In]. split; [intros []|]. intros [Hk T]. exfalso. apply Q.
    pose proof (g_trigger_bkt strat shift k Hs Hk) as TB. rewrite T in TB.
    unfold trigger in T. rewrite <- TB in T. rewrite <- C in T. lia.
Qed.

Theorem allocsN_spec strat shift i d k : 0 <= shift -> 0 <= i -> 0 <= d ->
  (In k (allocsN strat shift i d) <-> 1 <= k /\ i <= trigger strat shift k < i + d).
Proof.
  intros Hs Hi Hd.
  pose proof (g_bsi_spec shift i Hs Hi) as (B & S & C & E).
  pose proof (g_bsi_spec shift (i + d) Hs ltac:(lia)) as (Be & Se & Ce & Ee).
  pose proof (g_bkt_mono shift i (i + d) Hs ltac:(lia)) as Mono.
  pose proof (g_start_next shift (bkt shift i) Hs B) as Nb.
  unfold allocsN.
  set (b := bkt shift i) in *. set (s := sub shift i) in *. set (c := capof shift i) in *.
  set (be := bkt shift (i + d)) in *. set (se := sub shift (i + d)) in *. set (ce := capof shift (i + d)) in *.
  set (chk := alloc_check_index strat c).
  assert (Tb1 : trigger strat shift (b + 1) = bucket_start shift b + chk).
  { unfold trigger, chk. replace (b + 1 - 1) with b by lia. rewrite <- C. reflexivity. }
  assert (Tbe1 : trigger strat shift (be + 1) = bucket_start shift be + alloc_check_index strat ce).
  { unfold trigger. replace (be + 1 - 1) with be by lia. rewrite <- Ce. reflexivity. }
  destruct ((s <=? chk) && (chk <? s + d)) eqn:Cur.
  - (* allocCurrentBucket *)
    apply andb_true_iff in Cur. destruct Cur as [C1 C2]. apply Z.leb_le in C1. apply Z.ltb_lt in C2.
    cbn [orb negb b2z]. rewrite in_app_iff, in_zspan. split.
    + intros [R|L].
      * split; [lia|].
        pose proof (g_trigger_bounds strat shift k Hs ltac:(lia)) as TB.
        pose proof (g_start_mono shift k be Hs ltac:(lia)) as M1.
        split; [|lia].
        destruct (Z.eq_dec k (b + 1)) as [->|Nk]; [lia|].
        pose proof (g_start_mono shift (b + 1) (k - 1) Hs ltac:(lia)). lia.
      * destruct (alloc_check_index strat ce <? se) eqn:Q; [|destruct L]. apply Z.ltb_lt in Q.
        destruct L as [<-|[]]. split; [lia|]. rewrite Tbe1. split; [|lia].
        destruct (Z.eq_dec b be) as [Eb|Nb'].
        -- assert (Ec : ce = c) by congruence. rewrite <- Eb, Ec. fold chk. lia.
        -- pose proof (g_start_mono shift (b + 1) be Hs ltac:(lia)). pose proof (g_aci_range strat ce ltac:(lia)). lia.
    + intros [Hk [T1 T2]].
      pose proof (g_trigger_bkt strat shift k Hs Hk) as TB.
      pose proof (g_bkt_mono shift i (trigger strat shift k) Hs ltac:(lia)) as M1.
      pose proof (g_bkt_mono shift (trigger strat shift k) (i + d) Hs ltac:(pose proof (g_trigger_nonneg strat shift k Hs Hk); lia)) as M2.
      fold b in M1. fold be in M2. rewrite TB in M1, M2.
      destruct (Z_le_gt_dec k be) as [Le|Gt]; [left; lia|right].
      assert (k = be + 1) by lia. subst k. rewrite Tbe1 in T2.
      destruct (alloc_check_index strat ce <? se) eqn:Q; [left; reflexivity|]. apply Z.ltb_ge in Q. lia.
  - (* not allocCurrentBucket *)
    apply andb_false_iff in Cur.
    assert (NC : ~ (s <= chk < s + d)).
    { destruct Cur as [F|F]; [apply Z.leb_gt in F | apply Z.ltb_ge in F]; lia. }
    cbn [orb negb b2z]. destruct (b <? be) eqn:Lt.
    + apply Z.ltb_lt in Lt. rewrite in_app_iff, in_zspan.
      (* the range reaches the next bucket, so the trigger of b+1 lies before i *)
      pose proof (g_start_mono shift (b + 1) be Hs ltac:(lia)) as M0.
      pose proof (g_aci_range strat c ltac:(lia)) as Rc. fold chk in Rc.
      assert (s > chk) by lia.
      split.
      * intros [R|L].
        -- split; [lia|].
           pose proof (g_trigger_bounds strat shift k Hs ltac:(lia)) as TB.
           pose proof (g_start_mono shift k be Hs ltac:(lia)) as M1.
           pose proof (g_start_mono shift (b + 1) (k - 1) Hs ltac:(lia)). lia.
        -- destruct (alloc_check_index strat ce <? se) eqn:Q; [|destruct L]. apply Z.ltb_lt in Q.
           destruct L as [<-|[]]. split; [lia|]. rewrite Tbe1. pose proof (g_aci_range strat ce ltac:(lia)). lia.
      * intros [Hk [T1 T2]].
        pose proof (g_trigger_bkt strat shift k Hs Hk) as TB.
        pose proof (g_bkt_mono shift i (trigger strat shift k) Hs ltac:(lia)) as M1.
        pose proof (g_bkt_mono shift (trigger strat shift k) (i + d) Hs ltac:(pose proof (g_trigger_nonneg strat shift k Hs Hk); lia)) as M2.
        fold b in M1. fold be in M2. rewrite TB in M1, M2.
        assert (k <> b + 1) by (intros ->; rewrite Tb1 in T1; lia).
        destruct (Z_le_gt_dec k be) as [Le|Gt]; [left; lia|right].
        assert (k = be + 1) by lia. subst k. rewrite Tbe1 in T2.
        destruct (alloc_check_index strat ce <? se) eqn:Q; [left; reflexivity|]. apply Z.ltb_ge in Q. lia.
    + apply Z.ltb_ge in Lt. assert (Eb : b = be) by lia.
      split; [intros []|]. intros [Hk [T1 T2]]. exfalso.
      pose proof (g_trigger_bkt strat shift k Hs Hk) as TB.
      pose proof (g_bkt_mono shift i (trigger strat shift k) Hs ltac:(lia)) as M1.
      pose proof (g_bkt_mono shift (trigger strat shift k) (i + d) Hs ltac:(pose proof (g_trigger_nonneg strat shift k Hs Hk); lia)) as M2.
      fold b in M1. fold be in M2. rewrite TB in M1, M2.
      assert (k = b + 1) by lia. subst k. rewrite Tb1 in T1, T2.
      assert (c = ce) by congruence. lia.
Qed.

Lemma NoDup_snoc {A} (l : list A) x : NoDup l -> ~ In x l -> NoDup (l ++ [x]).
Proof.
  induction l as [|a l IH]; intros N H; cbn [app].
  - constructor; [intros [] | constructor].
  - inversion N as [|a' l' Na Nl]; subst. constructor.
    + rewrite in_app_iff. intros [I|[->|[]]]; [exact (Na I) | apply H; left; reflexivity].
    + apply IH; [exact Nl | intros I; apply H; right; exact I].
Qed.

(* every bucket is handed to tryAssignBuffer at most once per call *)
Lemma NoDup_allocsN strat shift i d : NoDup (allocsN strat shift i d).
Proof.
  unfold allocsN. cbv zeta. destruct (_ || _); [|constructor].
  destruct (alloc_check_index strat (capof shift (i + d)) <? sub shift (i + d)).
  - apply NoDup_snoc; [apply NoDup_zrange | rewrite in_zspan; lia].
  - rewrite app_nil_r. apply NoDup_zrange.
Qed.

(* ------------------------------------------------------------------------------------------------ partitions of [0,n) into consecutive reservations *)
Record pres := PR { p_single : bool; p_start : Z; p_delta : Z }.   (* p_single: made by emplace_back (delta 1) *)
Definition pcovers (r : pres) (x : Z) : Prop := p_start r <= x < p_start r + p_delta r.
Definition allocs_of (strat shift : Z) (r : pres) : list Z :=
  if p_single r then allocs1 strat shift (p_start r) else allocsN strat shift (p_start r) (p_delta r).
Definition waits_of (shift : Z) (r : pres) : list Z :=
  if p_single r then waits1 shift (p_start r) else waitsN shift (p_start r) (p_delta r).
Fixpoint partition_from (from : Z) (l : list pres) : Prop :=
  match l with
  | [] => True
  | r :: l' => p_start r = from /\ 0 <= p_delta r /\ (p_single r = true -> p_delta r = 1) /\ partition_from (from + p_delta r) l'
  end.
Fixpoint ptotal (l : list pres) : Z := match l with [] => 0 | r :: l' => p_delta r + ptotal l' end.

Lemma allocs_of_spec strat shift r k :
  0 <= shift -> 0 <= p_start r -> 0 <= p_delta r -> (p_single r = true -> p_delta r = 1) ->
  (In k (allocs_of strat shift r) <-> 1 <= k /\ pcovers r (trigger strat shift k)).
Proof.
  intros Hs H0 Hd H1. unfold allocs_of, pcovers. destruct (p_single r) eqn:S.
  - rewrite allocs1_spec by assumption. rewrite (H1 eq_refl). lia.
  - apply allocsN_spec; assumption.
Qed.

Lemma ptotal_app l1 l2 : ptotal (l1 ++ l2) = ptotal l1 + ptotal l2.
Proof. induction l1 as [|r l1 IH]; cbn [ptotal app]; lia. Qed.

Lemma partition_app f l1 l2 : partition_from f (l1 ++ l2) <-> partition_from f l1 /\ partition_from (f + ptotal l1) l2.
Proof.
  revert f; induction l1 as [|r l1 IH]; intros f; cbn [app partition_from ptotal].
  - replace (f + 0) with f by lia. tauto.
  - rewrite IH. replace (f + p_delta r + ptotal l1) with (f + (p_delta r + ptotal l1)) by lia. tauto.
Qed.

Lemma partition_in f l r : partition_from f l -> In r l ->
  f <= p_start r /\ 0 <= p_delta r /\ (p_single r = true -> p_delta r = 1) /\ p_start r + p_delta r <= f + ptotal l.
Proof.
  revert f; induction l as [|r0 l IH]; intros f P I; [destruct I|].
  cbn [partition_from ptotal] in *. destruct P as (S & D & O & P).
  assert (T : 0 <= ptotal l).
  { clear - P. revert P. generalize (f + p_delta r0). induction l as [|a l IHl]; intros z P; cbn [ptotal partition_from] in *; [lia|].
    destruct P as (_ & Da & _ & P). specialize (IHl _ P). lia. }
  destruct I as [<-|I].
  - repeat split; try assumption; lia.
  - destruct (IH _ P I) as (A & B & C & E). repeat split; try assumption; lia.
Qed.

Lemma partition_split f l x : partition_from f l -> f <= x < f + ptotal l ->
  exists l1 r l2, l = l1 ++ r :: l2 /\ pcovers r x /\ (forall r', In r' (l1 ++ l2) -> ~ pcovers r' x).
Proof.
  revert f; induction l as [|r l IH]; intros f P H; cbn [ptotal partition_from] in *; [lia|].
  destruct P as (S & D & O & P).
  destruct (Z_lt_ge_dec x (f + p_delta r)) as [Lt|Ge].
  - exists [], r, l. split; [reflexivity|]. split; [unfold pcovers; lia|].
    intros r' I C. cbn [app] in I. destruct (partition_in _ _ _ P I) as (A & _). unfold pcovers in C. lia.
  - destruct (IH _ P ltac:(lia)) as (l1 & r0 & l2 & -> & C & U).
    exists (r :: l1), r0, l2. split; [reflexivity|]. split; [exact C|].
    intros r' I C'. cbn [app] in I. destruct I as [<-|I]; [unfold pcovers in C'; lia | exact (U _ I C')].
Qed.

(* fetch_add hands out pairwise disjoint ranges *)
Theorem partition_disjoint f l1 r1 l2 r2 l3 x :
  partition_from f (l1 ++ r1 :: l2 ++ r2 :: l3) -> pcovers r1 x -> ~ pcovers r2 x.
Proof.
  intros P C1 C2. apply partition_app in P. destruct P as [_ P]. cbn [partition_from] in P. destruct P as (S & D & O & P).
  assert (I : In r2 (l2 ++ r2 :: l3)) by (rewrite in_app_iff; right; left; reflexivity).
  destruct (partition_in _ _ _ P I) as (A & _). unfold pcovers in *. lia.
Qed.

(* every bucket >= 1 whose trigger index has been handed out is in the allocation list of exactly one reservation *)
Theorem unique_allocator strat shift l k :
  0 <= shift -> partition_from 0 l -> 1 <= k -> trigger strat shift k < ptotal l ->
  exists l1 r l2, l = l1 ++ r :: l2 /\ In k (allocs_of strat shift r) /\
                  (forall r', In r' (l1 ++ l2) -> ~ In k (allocs_of strat shift r')).
Proof.
  intros Hs P Hk T.
  destruct (partition_split 0 l (trigger strat shift k) P ltac:(pose proof (g_trigger_nonneg strat shift k Hs Hk); lia))
    as (l1 & r & l2 & -> & C & U).
  exists l1, r, l2. split; [reflexivity|].
  assert (W : forall r', In r' (l1 ++ r :: l2) ->
              (In k (allocs_of strat shift r') <-> 1 <= k /\ pcovers r' (trigger strat shift k))).
  { intros r' I. destruct (partition_in _ _ _ P I) as (A & B & O & _). apply allocs_of_spec; try assumption; lia. }
  split.
  - apply W; [rewrite in_app_iff; right; left; reflexivity | split; assumption].
  - intros r' I Q. apply W in Q; [exact (U _ I (proj2 Q))|].
    rewrite in_app_iff in *. cbn [In]. tauto.
Qed.

(* every bucket a reservation waits for (in particular every bucket it constructs into) is allocated by that reservation
   or by one with a smaller start *)
Theorem allocator_precedes strat shift l1 r l2 k :
  0 <= shift -> partition_from 0 (l1 ++ r :: l2) -> 1 <= k -> In k (waits_of shift r) ->
  exists r', In r' (l1 ++ [r]) /\ In k (allocs_of strat shift r') /\ p_start r' <= p_start r.
Proof.
  intros Hs P Hk W.
  pose proof P as P0. apply partition_app in P0. destruct P0 as [P1 P2]. cbn [partition_from] in P2.
  destruct P2 as (S & D & O & _). replace (0 + ptotal l1) with (ptotal l1) in S by lia.
  assert (Pp : partition_from 0 (l1 ++ [r])).
  { apply partition_app. split; [exact P1|]. cbn [partition_from]. repeat split; try assumption; lia. }
  assert (Tp : ptotal (l1 ++ [r]) = p_start r + p_delta r) by (rewrite ptotal_app; cbn [ptotal]; lia).
  assert (S0 : 0 <= p_start r).
  { assert (Ir : In r (l1 ++ r :: l2)) by (rewrite in_app_iff; right; left; reflexivity).
    destruct (partition_in _ _ _ P Ir) as (A & _). lia. }
  (* k <= bucket of the end of the range *)
  assert (Kb : k <= bkt shift (p_start r + p_delta r)).
  { unfold waits_of in W. destruct (p_single r) eqn:Sg.
    - unfold waits1 in W. destruct W as [<-|[]]. apply g_bkt_mono; [exact Hs | lia].
    - unfold waitsN in W. apply in_zspan in W. lia. }
  pose proof (g_bkt_bounds shift (p_start r + p_delta r) Hs ltac:(lia)) as (Bb & Lb & _).
  pose proof (g_start_mono shift k (bkt shift (p_start r + p_delta r)) Hs ltac:(lia)) as M.
  pose proof (g_trigger_bounds strat shift k Hs Hk) as TB.
  destruct (partition_split 0 (l1 ++ [r]) (trigger strat shift k) Pp
              ltac:(pose proof (g_trigger_nonneg strat shift k Hs Hk); lia)) as (m1 & r' & m2 & E & C & _).
  assert (I : In r' (l1 ++ [r])) by (rewrite E, in_app_iff; right; left; reflexivity).
  exists r'. split; [exact I|].
  destruct (partition_in _ _ _ Pp I) as (A & B & O' & En).
  split.
  - apply allocs_of_spec; try assumption; try lia. split; assumption.
  - apply in_app_iff in I. destruct I as [I|[<-|[]]]; [|lia].
    destruct (partition_in _ _ _ P1 I) as (_ & B1 & _ & E1). lia.
Qed.
