(* C33: ConcurrentVector concurrent growth is exact.
   Part A: arithmetic of allocAsNecessaryImpl (both variants): which reservation allocates which bucket, for every
           strategy, every firstBucketShift, every partition of [0,n) into consecutive reservations
           (allocs1_spec, allocsN_spec, unique_allocator, allocator_precedes, partition_disjoint).
   Part B: inductive invariant [Inv] over ALL interleavings of Model/CVecGrowModel.v (any number of threads, any programs):
           one preservation lemma per kind of step (inv_pop, inv_try_null, inv_set_inert, inv_store, inv_cons, inv_fetch),
           step_inv, reach_inv_grow, and the consequences grow_distinct_indices, grow_pointers_stable, grow_no_overwrite,
           grow_final_exact, grow_wait_progress, grow_some_thread_progresses; grow_final_size (counting invariant);
           grow_terminates (every call returns under every fair schedule: lexicographic measure + grow_some_thread_progresses). *)
From Coq Require Import ZArith List Bool Lia.
From DV Require Import Base.MachInt Base.Sched Model.CVecModel Model.CVecGrowModel.
Import ListNotations.
Local Open Scope Z_scope.

Ltac Zify.zify_post_hook ::= Z.div_mod_to_equations.

(* ================================================================================================ Part A *)
(* ------------------------------------------------------------------------------------------------ bucket arithmetic *)
Lemma g_pow2_succ a : 0 <= a -> 2 ^ (a + 1) = 2 * 2 ^ a.
Proof. intros H. replace (a + 1) with (Z.succ a) by lia. rewrite Z.pow_succ_r by exact H. reflexivity. Qed.

Lemma g_cap_pos shift b : 0 <= shift -> 0 <= b -> 0 < bucket_cap shift b.
Proof. intros; unfold bucket_cap; destruct (b <=? 1) eqn:E; apply pow2_pos; lia. Qed.

Lemma g_start_next shift b : 0 <= shift -> 0 <= b ->
  bucket_start shift (b + 1) = bucket_start shift b + bucket_cap shift b.
Proof.
  intros Hs Hb. unfold bucket_start, bucket_cap.
  destruct (b + 1 <=? 0) eqn:E1; [lia|].
  destruct (b <=? 0) eqn:E2; destruct (b <=? 1) eqn:E3; try lia.
  - assert (b = 0) by lia. subst. replace (shift + (0 + 1) - 1) with shift by lia. lia.
  - assert (b = 1) by lia. subst. replace (shift + (1 + 1) - 1) with (shift + 1) by lia.
    replace (shift + 1 - 1) with shift by lia. rewrite g_pow2_succ by lia. lia.
  - replace (shift + (b + 1) - 1) with (shift + b - 1 + 1) by lia. rewrite g_pow2_succ by lia. lia.
Qed.

Lemma g_start_nonneg shift b : 0 <= shift -> 0 <= bucket_start shift b.
Proof.
  intros Hs. unfold bucket_start. destruct (b <=? 0) eqn:E; [lia|].
  pose proof (pow2_pos (shift + b - 1)). lia.
Qed.

Lemma g_start_mono shift b b' : 0 <= shift -> 0 <= b <= b' -> bucket_start shift b <= bucket_start shift b'.
Proof.
  intros Hs H. unfold bucket_start.
  destruct (b <=? 0) eqn:E1; destruct (b' <=? 0) eqn:E2.
  - lia.
  - pose proof (pow2_pos (shift + b' - 1)); lia.
  - lia.
  - apply Z.pow_le_mono_r; lia.
Qed.

Lemma g_bsi_spec shift i : 0 <= shift -> 0 <= i ->
  0 <= bkt shift i /\ 0 <= sub shift i < capof shift i /\ capof shift i = bucket_cap shift (bkt shift i) /\
  bucket_start shift (bkt shift i) + sub shift i = i.
Proof.
  intros Hs Hi. unfold bkt, sub, capof, bsi. destruct (i <? 2 ^ shift) eqn:E.
  - unfold bucket_cap, bucket_start; simpl. lia.
  - assert (P : 0 < 2 ^ shift) by (apply pow2_pos; lia).
    assert (Hi' : 0 < i) by lia.
    pose proof (Z.log2_spec i Hi') as [L1 L2].
    assert (Hl : shift <= Z.log2 i) by (apply Z.log2_le_pow2; lia).
    cbn [fst snd]. unfold bucket_cap, bucket_start.
    replace (Z.succ (Z.log2 i)) with (Z.log2 i + 1) in L2 by lia. rewrite g_pow2_succ in L2 by lia.
    destruct (Z.log2 i + 1 - shift <=? 1) eqn:E1; destruct (Z.log2 i + 1 - shift <=? 0) eqn:E2.
    + exfalso; lia.
    + assert (EL : Z.log2 i = shift) by lia. rewrite EL in *. replace (shift + (shift + 1 - shift) - 1) with shift by lia. lia.
    + exfalso; lia.
    + replace (shift + (Z.log2 i + 1 - shift) - 1) with (Z.log2 i) by lia. lia.
Qed.

(* the bucket of x is the unique b with start b <= x < start (b+1) *)
Lemma g_bkt_bounds shift x : 0 <= shift -> 0 <= x ->
  0 <= bkt shift x /\ bucket_start shift (bkt shift x) <= x < bucket_start shift (bkt shift x + 1).
Proof.
  intros Hs Hx. pose proof (g_bsi_spec shift x Hs Hx) as (B & S & C & E).
  rewrite g_start_next by lia. lia.
Qed.

Lemma g_bkt_unique shift x b : 0 <= shift -> 0 <= x -> 0 <= b ->
  bucket_start shift b <= x < bucket_start shift (b + 1) -> bkt shift x = b.
Proof.
  intros Hs Hx Hb H. pose proof (g_bkt_bounds shift x Hs Hx) as (B & L & U).
  destruct (Z_lt_ge_dec (bkt shift x) b) as [Lt|Ge].
  - pose proof (g_start_mono shift (bkt shift x + 1) b Hs ltac:(lia)). lia.
  - destruct (Z_lt_ge_dec b (bkt shift x)) as [Lt|Ge']; [|lia].
    pose proof (g_start_mono shift (b + 1) (bkt shift x) Hs ltac:(lia)). lia.
Qed.

Lemma g_bkt_mono shift x y : 0 <= shift -> 0 <= x <= y -> bkt shift x <= bkt shift y.
Proof.
  intros Hs H.
  pose proof (g_bkt_bounds shift x Hs ltac:(lia)) as (Bx & Lx & Ux).
  pose proof (g_bkt_bounds shift y Hs ltac:(lia)) as (By & Ly & Uy).
  destruct (Z_le_gt_dec (bkt shift x) (bkt shift y)) as [|G]; [assumption|exfalso].
  pose proof (g_start_mono shift (bkt shift y + 1) (bkt shift x) Hs ltac:(lia)). lia.
Qed.

Lemma g_aci_range strat c : 0 < c -> 0 <= alloc_check_index strat c < c.
Proof.
  intros Hc. unfold alloc_check_index. destruct (strat =? 0); [lia|]. destruct (strat =? 1); [|lia].
  split; [apply Z.quot_pos; lia | apply Z.quot_lt; lia].
Qed.

(* the trigger index of bucket k lies in bucket k-1 *)
Lemma g_trigger_bounds strat shift k : 0 <= shift -> 1 <= k ->
  bucket_start shift (k - 1) <= trigger strat shift k < bucket_start shift k.
Proof.
  intros Hs Hk. unfold trigger.
  pose proof (g_aci_range strat (bucket_cap shift (k - 1)) (g_cap_pos shift (k - 1) Hs ltac:(lia))) as R.
  pose proof (g_start_next shift (k - 1) Hs ltac:(lia)) as N. replace (k - 1 + 1) with k in N by lia. lia.
Qed.

Lemma g_trigger_nonneg strat shift k : 0 <= shift -> 1 <= k -> 0 <= trigger strat shift k.
Proof. intros Hs Hk. pose proof (g_trigger_bounds strat shift k Hs Hk). pose proof (g_start_nonneg shift (k - 1) Hs). lia. Qed.

Lemma g_trigger_bkt strat shift k : 0 <= shift -> 1 <= k -> bkt shift (trigger strat shift k) = k - 1.
Proof.
  intros Hs Hk. pose proof (g_trigger_bounds strat shift k Hs Hk) as B.
  apply g_bkt_unique; try lia.
  - pose proof (g_start_nonneg shift (k - 1) Hs). lia.
  - replace (k - 1 + 1) with k by lia. exact B.
Qed.

(* ------------------------------------------------------------------------------------------------ zrange / zspan *)
Lemma in_zrange x a n : In x (zrange a n) <-> a <= x < a + Z.of_nat n.
Proof.
  revert a; induction n as [|n IH]; intros a; cbn [zrange].
  - split; [intros [] | lia].
  - cbn [In]. rewrite IH. lia.
Qed.

Lemma in_zspan x lo hi : In x (zspan lo hi) <-> lo <= x <= hi.
Proof. unfold zspan. rewrite in_zrange. lia. Qed.

Lemma NoDup_zrange a n : NoDup (zrange a n).
Proof.
  revert a; induction n as [|n IH]; intros a; cbn [zrange]; constructor.
  - rewrite in_zrange. lia.
  - apply IH.
Qed.

(* ------------------------------------------------------------------------------------------------ allocs = the buckets whose trigger the reservation covers *)
Theorem allocs1_spec strat shift i k : 0 <= shift -> 0 <= i ->
  (In k (allocs1 strat shift i) <-> 1 <= k /\ trigger strat shift k = i).
Proof.
  intros Hs Hi. pose proof (g_bsi_spec shift i Hs Hi) as (B & S & C & E).
  unfold allocs1. destruct (sub shift i =? alloc_check_index strat (capof shift i)) eqn:Q.
  - apply Z.eqb_eq in Q. cbn [In]. split.
    + intros [<-|[]]. split; [lia|]. unfold trigger. replace (bkt shift i + 1 - 1) with (bkt shift i) by lia. rewrite <- C. lia.
    + intros [Hk T]. left. pose proof (g_trigger_bkt strat shift k Hs Hk) as TB. rewrite T in TB. lia.
  - apply Z.eqb_neq in Q. cbn [In]. split; [intros []|]. intros [Hk T]. exfalso. apply Q.
    pose proof (g_trigger_bkt strat shift k Hs Hk) as TB. rewrite T in TB.
    unfold trigger in T. rewrite <- TB in T. rewrite <- C in T. lia.
Qed.

Theorem allocsN_spec strat shift i d k : 0 <= shift -> 0 <= i -> 0 <= d ->
  (In k (allocsN strat shift i d) <-> 1 <= k /\ i <= trigger strat shift k < i + d).
Proof.
  intros Hs Hi Hd.
  pose proof (g_bsi_spec shift i Hs Hi) as (B & S & C & E).
  pose proof (g_bsi_spec shift (i + d) Hs ltac:(lia)) as (Be & Se & Ce & Ee).
  pose proof (g_bkt_mono shift i (i + d) Hs ltac:(lia)) as Mono.
  pose proof (g_start_next shift (bkt shift i) Hs B) as Nb.
  unfold allocsN.
  set (b := bkt shift i) in *. set (s := sub shift i) in *. set (c := capof shift i) in *.
  set (be := bkt shift (i + d)) in *. set (se := sub shift (i + d)) in *. set (ce := capof shift (i + d)) in *.
  set (chk := alloc_check_index strat c).
  assert (Tb1 : trigger strat shift (b + 1) = bucket_start shift b + chk).
  { unfold trigger, chk. replace (b + 1 - 1) with b by lia. rewrite <- C. reflexivity. }
  assert (Tbe1 : trigger strat shift (be + 1) = bucket_start shift be + alloc_check_index strat ce).
  { unfold trigger. replace (be + 1 - 1) with be by lia. rewrite <- Ce. reflexivity. }
  destruct ((s <=? chk) && (chk <? s + d)) eqn:Cur.
  - (* allocCurrentBucket *)
    apply andb_true_iff in Cur. destruct Cur as [C1 C2]. apply Z.leb_le in C1. apply Z.ltb_lt in C2.
    cbn [orb negb b2z]. rewrite in_app_iff, in_zspan. split.
    + intros [R|L].
      * split; [lia|].
        pose proof (g_trigger_bounds strat shift k Hs ltac:(lia)) as TB.
        pose proof (g_start_mono shift k be Hs ltac:(lia)) as M1.
        split; [|lia].
        destruct (Z.eq_dec k (b + 1)) as [->|Nk]; [lia|].
        pose proof (g_start_mono shift (b + 1) (k - 1) Hs ltac:(lia)). lia.
      * destruct (alloc_check_index strat ce <? se) eqn:Q; [|destruct L]. apply Z.ltb_lt in Q.
        destruct L as [<-|[]]. split; [lia|]. rewrite Tbe1. split; [|lia].
        destruct (Z.eq_dec b be) as [Eb|Nb'].
        -- assert (Ec : ce = c) by congruence. rewrite <- Eb, Ec. fold chk. lia.
        -- pose proof (g_start_mono shift (b + 1) be Hs ltac:(lia)). pose proof (g_aci_range strat ce ltac:(lia)). lia.
    + intros [Hk [T1 T2]].
      pose proof (g_trigger_bkt strat shift k Hs Hk) as TB.
      pose proof (g_bkt_mono shift i (trigger strat shift k) Hs ltac:(lia)) as M1.
      pose proof (g_bkt_mono shift (trigger strat shift k) (i + d) Hs ltac:(pose proof (g_trigger_nonneg strat shift k Hs Hk); lia)) as M2.
      fold b in M1. fold be in M2. rewrite TB in M1, M2.
      destruct (Z_le_gt_dec k be) as [Le|Gt]; [left; lia|right].
      assert (k = be + 1) by lia. subst k. rewrite Tbe1 in T2.
      destruct (alloc_check_index strat ce <? se) eqn:Q; [left; reflexivity|]. apply Z.ltb_ge in Q. lia.
  - (* not allocCurrentBucket *)
    apply andb_false_iff in Cur.
    assert (NC : ~ (s <= chk < s + d)).
    { destruct Cur as [F|F]; [apply Z.leb_gt in F | apply Z.ltb_ge in F]; lia. }
    cbn [orb negb b2z]. destruct (b <? be) eqn:Lt.
    + apply Z.ltb_lt in Lt. rewrite in_app_iff, in_zspan.
      (* the range reaches the next bucket, so the trigger of b+1 lies before i *)
      pose proof (g_start_mono shift (b + 1) be Hs ltac:(lia)) as M0.
      pose proof (g_aci_range strat c ltac:(lia)) as Rc. fold chk in Rc.
      assert (s > chk) by lia.
      split.
      * intros [R|L].
        -- split; [lia|].
           pose proof (g_trigger_bounds strat shift k Hs ltac:(lia)) as TB.
           pose proof (g_start_mono shift k be Hs ltac:(lia)) as M1.
           pose proof (g_start_mono shift (b + 1) (k - 1) Hs ltac:(lia)). lia.
        -- destruct (alloc_check_index strat ce <? se) eqn:Q; [|destruct L]. apply Z.ltb_lt in Q.
           destruct L as [<-|[]]. split; [lia|]. rewrite Tbe1. pose proof (g_aci_range strat ce ltac:(lia)). lia.
      * intros [Hk [T1 T2]].
        pose proof (g_trigger_bkt strat shift k Hs Hk) as TB.
        pose proof (g_bkt_mono shift i (trigger strat shift k) Hs ltac:(lia)) as M1.
        pose proof (g_bkt_mono shift (trigger strat shift k) (i + d) Hs ltac:(pose proof (g_trigger_nonneg strat shift k Hs Hk); lia)) as M2.
        fold b in M1. fold be in M2. rewrite TB in M1, M2.
        assert (k <> b + 1) by (intros ->; rewrite Tb1 in T1; lia).
        destruct (Z_le_gt_dec k be) as [Le|Gt]; [left; lia|right].
        assert (k = be + 1) by lia. subst k. rewrite Tbe1 in T2.
        destruct (alloc_check_index strat ce <? se) eqn:Q; [left; reflexivity|]. apply Z.ltb_ge in Q. lia.
    + apply Z.ltb_ge in Lt. assert (Eb : b = be) by lia.
      split; [intros []|]. intros [Hk [T1 T2]]. exfalso.
      pose proof (g_trigger_bkt strat shift k Hs Hk) as TB.
      pose proof (g_bkt_mono shift i (trigger strat shift k) Hs ltac:(lia)) as M1.
      pose proof (g_bkt_mono shift (trigger strat shift k) (i + d) Hs ltac:(pose proof (g_trigger_nonneg strat shift k Hs Hk); lia)) as M2.
      fold b in M1. fold be in M2. rewrite TB in M1, M2.
      assert (k = b + 1) by lia. subst k. rewrite Tb1 in T1, T2.
      assert (c = ce) by congruence. lia.
Qed.

Lemma NoDup_snoc {A} (l : list A) x : NoDup l -> ~ In x l -> NoDup (l ++ [x]).
Proof.
  induction l as [|a l IH]; intros N H; cbn [app].
  - constructor; [intros [] | constructor].
  - inversion N as [|a' l' Na Nl]; subst. constructor.
    + rewrite in_app_iff. intros [I|[->|[]]]; [exact (Na I) | apply H; left; reflexivity].
    + apply IH; [exact Nl | intros I; apply H; right; exact I].
Qed.

(* every bucket is handed to tryAssignBuffer at most once per call *)
Lemma NoDup_allocsN strat shift i d : NoDup (allocsN strat shift i d).
Proof.
  unfold allocsN. cbv zeta. destruct (_ || _); [|constructor].
  destruct (alloc_check_index strat (capof shift (i + d)) <? sub shift (i + d)).
  - apply NoDup_snoc; [apply NoDup_zrange | rewrite in_zspan; lia].
  - rewrite app_nil_r. apply NoDup_zrange.
Qed.

(* ------------------------------------------------------------------------------------------------ partitions of [0,n) into consecutive reservations *)
Record pres := PR { p_single : bool; p_start : Z; p_delta : Z }.   (* p_single: made by emplace_back (delta 1) *)
Definition pcovers (r : pres) (x : Z) : Prop := p_start r <= x < p_start r + p_delta r.
Definition allocs_of (strat shift : Z) (r : pres) : list Z :=
  if p_single r then allocs1 strat shift (p_start r) else allocsN strat shift (p_start r) (p_delta r).
Definition waits_of (shift : Z) (r : pres) : list Z :=
  if p_single r then waits1 shift (p_start r) else waitsN shift (p_start r) (p_delta r).
Fixpoint partition_from (from : Z) (l : list pres) : Prop :=
  match l with
  | [] => True
  | r :: l' => p_start r = from /\ 0 <= p_delta r /\ (p_single r = true -> p_delta r = 1) /\ partition_from (from + p_delta r) l'
  end.
Fixpoint ptotal (l : list pres) : Z := match l with [] => 0 | r :: l' => p_delta r + ptotal l' end.

Lemma allocs_of_spec strat shift r k :
  0 <= shift -> 0 <= p_start r -> 0 <= p_delta r -> (p_single r = true -> p_delta r = 1) ->
  (In k (allocs_of strat shift r) <-> 1 <= k /\ pcovers r (trigger strat shift k)).
Proof.
  intros Hs H0 Hd H1. unfold allocs_of, pcovers. destruct (p_single r) eqn:S.
  - rewrite allocs1_spec by assumption. rewrite (H1 eq_refl). lia.
  - apply allocsN_spec; assumption.
Qed.

Lemma ptotal_app l1 l2 : ptotal (l1 ++ l2) = ptotal l1 + ptotal l2.
Proof. induction l1 as [|r l1 IH]; cbn [ptotal app]; lia. Qed.

Lemma partition_app f l1 l2 : partition_from f (l1 ++ l2) <-> partition_from f l1 /\ partition_from (f + ptotal l1) l2.
Proof.
  revert f; induction l1 as [|r l1 IH]; intros f; cbn [app partition_from ptotal].
  - replace (f + 0) with f by lia. tauto.
  - rewrite IH. replace (f + p_delta r + ptotal l1) with (f + (p_delta r + ptotal l1)) by lia. tauto.
Qed.

Lemma partition_in f l r : partition_from f l -> In r l ->
  f <= p_start r /\ 0 <= p_delta r /\ (p_single r = true -> p_delta r = 1) /\ p_start r + p_delta r <= f + ptotal l.
Proof.
  revert f; induction l as [|r0 l IH]; intros f P I; [destruct I|].
  cbn [partition_from ptotal] in *. destruct P as (S & D & O & P).
  assert (T : 0 <= ptotal l).
  { clear - P. revert P. generalize (f + p_delta r0). induction l as [|a l IHl]; intros z P; cbn [ptotal partition_from] in *; [lia|].
    destruct P as (_ & Da & _ & P). specialize (IHl _ P). lia. }
  destruct I as [<-|I].
  - repeat split; try assumption; lia.
  - destruct (IH _ P I) as (A & B & C & E). repeat split; try assumption; lia.
Qed.

Lemma partition_split f l x : partition_from f l -> f <= x < f + ptotal l ->
  exists l1 r l2, l = l1 ++ r :: l2 /\ pcovers r x /\ (forall r', In r' (l1 ++ l2) -> ~ pcovers r' x).
Proof.
  revert f; induction l as [|r l IH]; intros f P H; cbn [ptotal partition_from] in *; [lia|].
  destruct P as (S & D & O & P).
  destruct (Z_lt_ge_dec x (f + p_delta r)) as [Lt|Ge].
  - exists [], r, l. split; [reflexivity|]. split; [unfold pcovers; lia|].
    intros r' I C. cbn [app] in I. destruct (partition_in _ _ _ P I) as (A & _). unfold pcovers in C. lia.
  - destruct (IH _ P ltac:(lia)) as (l1 & r0 & l2 & -> & C & U).
    exists (r :: l1), r0, l2. split; [reflexivity|]. split; [exact C|].
    intros r' I C'. cbn [app] in I. destruct I as [<-|I]; [unfold pcovers in C'; lia | exact (U _ I C')].
Qed.

(* fetch_add hands out pairwise disjoint ranges *)
Theorem partition_disjoint f l1 r1 l2 r2 l3 x :
  partition_from f (l1 ++ r1 :: l2 ++ r2 :: l3) -> pcovers r1 x -> ~ pcovers r2 x.
Proof.
  intros P C1 C2. apply partition_app in P. destruct P as [_ P]. cbn [partition_from] in P. destruct P as (S & D & O & P).
  assert (I : In r2 (l2 ++ r2 :: l3)) by (rewrite in_app_iff; right; left; reflexivity).
  destruct (partition_in _ _ _ P I) as (A & _). unfold pcovers in *. lia.
Qed.

(* every bucket >= 1 whose trigger index has been handed out is in the allocation list of exactly one reservation *)
Theorem unique_allocator strat shift l k :
  0 <= shift -> partition_from 0 l -> 1 <= k -> trigger strat shift k < ptotal l ->
  exists l1 r l2, l = l1 ++ r :: l2 /\ In k (allocs_of strat shift r) /\
                  (forall r', In r' (l1 ++ l2) -> ~ In k (allocs_of strat shift r')).
Proof.
  intros Hs P Hk T.
  destruct (partition_split 0 l (trigger strat shift k) P ltac:(pose proof (g_trigger_nonneg strat shift k Hs Hk); lia))
    as (l1 & r & l2 & -> & C & U).
  exists l1, r, l2. split; [reflexivity|].
  assert (W : forall r', In r' (l1 ++ r :: l2) ->
              (In k (allocs_of strat shift r') <-> 1 <= k /\ pcovers r' (trigger strat shift k))).
  { intros r' I. destruct (partition_in _ _ _ P I) as (A & B & O & _). apply allocs_of_spec; try assumption; lia. }
  split.
  - apply W; [rewrite in_app_iff; right; left; reflexivity | split; assumption].
  - intros r' I Q. apply W in Q; [exact (U _ I (proj2 Q))|].
    rewrite in_app_iff in *. cbn [In]. tauto.
Qed.

(* every bucket a reservation waits for (in particular every bucket it constructs into) is allocated by that reservation
   or by one with a smaller start *)
Theorem allocator_precedes strat shift l1 r l2 k :
  0 <= shift -> partition_from 0 (l1 ++ r :: l2) -> 1 <= k -> In k (waits_of shift r) ->
  exists r', In r' (l1 ++ [r]) /\ In k (allocs_of strat shift r') /\ p_start r' <= p_start r.
Proof.
  intros Hs P Hk W.
  pose proof P as P0. apply partition_app in P0. destruct P0 as [P1 P2]. cbn [partition_from] in P2.
  destruct P2 as (S & D & O & _). replace (0 + ptotal l1) with (ptotal l1) in S by lia.
  assert (Pp : partition_from 0 (l1 ++ [r])).
  { apply partition_app. split; [exact P1|]. cbn [partition_from]. repeat split; try assumption; lia. }
  assert (Tp : ptotal (l1 ++ [r]) = p_start r + p_delta r) by (rewrite ptotal_app; cbn [ptotal]; lia).
  assert (S0 : 0 <= p_start r).
  { assert (Ir : In r (l1 ++ r :: l2)) by (rewrite in_app_iff; right; left; reflexivity).
    destruct (partition_in _ _ _ P Ir) as (A & _). lia. }
  (* k <= bucket of the end of the range *)
  assert (Kb : k <= bkt shift (p_start r + p_delta r)).
  { unfold waits_of in W. destruct (p_single r) eqn:Sg.
    - unfold waits1 in W. destruct W as [<-|[]]. apply g_bkt_mono; [exact Hs | lia].
    - unfold waitsN in W. apply in_zspan in W. lia. }
  pose proof (g_bkt_bounds shift (p_start r + p_delta r) Hs ltac:(lia)) as (Bb & Lb & _).
  pose proof (g_start_mono shift k (bkt shift (p_start r + p_delta r)) Hs ltac:(lia)) as M.
  pose proof (g_trigger_bounds strat shift k Hs Hk) as TB.
  destruct (partition_split 0 (l1 ++ [r]) (trigger strat shift k) Pp
              ltac:(pose proof (g_trigger_nonneg strat shift k Hs Hk); lia)) as (m1 & r' & m2 & E & C & _).
  assert (I : In r' (l1 ++ [r])) by (rewrite E, in_app_iff; right; left; reflexivity).
  exists r'. split; [exact I|].
  destruct (partition_in _ _ _ Pp I) as (A & B & O' & En).
  split.
  - apply allocs_of_spec; try assumption; try lia. split; assumption.
  - apply in_app_iff in I. destruct I as [I|[<-|[]]]; [|lia].
    destruct (partition_in _ _ _ P1 I) as (_ & B1 & _ & E1). lia.
Qed.

(* ================================================================================================ Part B *)
(* ------------------------------------------------------------------------------------------------ the reservation log *)
Definition covers (r : resv) (x : Z) : Prop := r_start r <= x < r_start r + r_delta r.

(* newest first: the head reservation ends at n, each one starts where the previous one ended, the oldest starts at 0 *)
Fixpoint lchain (l : list resv) (n : Z) : Prop :=
  match l with
  | [] => n = 0
  | r :: l' => r_start r + r_delta r = n /\ 0 <= r_delta r /\ lchain l' (r_start r)
  end.

Lemma lchain_nonneg l n : lchain l n -> 0 <= n.
Proof.
  revert n; induction l as [|r l IH]; intros n H; cbn [lchain] in H; [lia|].
  destruct H as (E & D & H). specialize (IH _ H). lia.
Qed.

Lemma lchain_in l n r : lchain l n -> In r l -> 0 <= r_start r /\ 0 <= r_delta r /\ r_start r + r_delta r <= n.
Proof.
  revert n; induction l as [|r0 l IH]; intros n H I; [destruct I|].
  cbn [lchain] in H. destruct H as (E & D & H). pose proof (lchain_nonneg _ _ H) as N.
  destruct I as [<-|I]; [lia|]. destruct (IH _ H I) as (A & B & C). lia.
Qed.

Lemma lchain_covers_unique l n r r' x : lchain l n -> In r l -> In r' l -> covers r x -> covers r' x -> r = r'.
Proof.
  revert n; induction l as [|r0 l IH]; intros n H I I' C C'; [destruct I|].
  cbn [lchain] in H. destruct H as (E & D & H). unfold covers in *.
  destruct I as [<-|I]; destruct I' as [<-|I'].
  - reflexivity.
  - destruct (lchain_in _ _ _ H I') as (_ & _ & B). lia.
  - destruct (lchain_in _ _ _ H I) as (_ & _ & B). lia.
  - eapply IH; eauto.
Qed.

Lemma lchain_cover_exists l n x : lchain l n -> 0 <= x < n -> exists r, In r l /\ covers r x.
Proof.
  revert n; induction l as [|r0 l IH]; intros n H X; cbn [lchain] in H; [lia|].
  destruct H as (E & D & H).
  destruct (Z_le_gt_dec (r_start r0) x) as [Le|Gt].
  - exists r0. split; [left; reflexivity | unfold covers; lia].
  - destruct (IH _ H ltac:(lia)) as (r & I & C). exists r. split; [right; exact I | exact C].
Qed.

Fixpoint rtotal (l : list resv) : Z := match l with [] => 0 | r :: l' => r_delta r + rtotal l' end.
Lemma lchain_total l n : lchain l n -> n = rtotal l.
Proof.
  revert n; induction l as [|r l IH]; intros n H; cbn [lchain rtotal] in *; [exact H|].
  destruct H as (E & D & H). specialize (IH _ H). lia.
Qed.

(* ------------------------------------------------------------------------------------------------ buffers *)
Lemma lookup_in k l : lookup k l <> 0 -> In k (map fst l).
Proof.
  induction l as [|[k' o] l IH]; cbn [lookup map fst In]; [intros H; contradiction|].
  destruct (k =? k') eqn:E; [apply Z.eqb_eq in E; left; symmetry; exact E | intros H; right; exact (IH H)].
Qed.

Lemma in_lookup k l : (forall k' o, In (k', o) l -> o <> 0) -> In k (map fst l) -> lookup k l <> 0.
Proof.
  induction l as [|[k' o] l IH]; cbn [lookup map fst In]; intros NZ I; [destruct I|].
  destruct (k =? k') eqn:E.
  - apply (NZ k' o). left; reflexivity.
  - apply IH; [intros k2 o2 H; apply (NZ k2 o2); right; exact H|].
    destruct I as [I|I]; [apply Z.eqb_neq in E; congruence | exact I].
Qed.

Lemma lookup_cons_other k k' o l : k <> k' -> lookup k ((k', o) :: l) = lookup k l.
Proof. intros N. cbn [lookup]. destruct (k =? k') eqn:E; [apply Z.eqb_eq in E; contradiction | reflexivity]. Qed.

Lemma lookup_cons_mono k k' o l : o <> 0 -> lookup k l <> 0 -> lookup k ((k', o) :: l) <> 0.
Proof. intros O H. cbn [lookup]. destruct (k =? k'); assumption. Qed.

(* ------------------------------------------------------------------------------------------------ agendas *)
Definition rank (m : mop) : nat :=
  match m with
  | MStart | MFetch1 _ | MFetchN _ _ _ | MSizeLoad _ _ => 0
  | MCnt _ => 1
  | MTry _ _ _ | MStore _ _ _ => 2
  | MWait _ _ => 3
  | MCons _ _ => 4
  end%nat.

Fixpoint sorted (l : list mop) : Prop :=
  match l with [] => True | m :: r => (forall m', In m' r -> (rank m <= rank m')%nat) /\ sorted r end.
Definition inert (a : list mop) : Prop := forall m, In m a -> rank m = 0%nat.
Definition ag_shape (a : list mop) : Prop :=
  (exists m, a = [m] /\ rank m = 0%nat) \/ ((forall m, In m a -> (1 <= rank m)%nat) /\ sorted a).
Definition pendingA (k : Z) (a : list mop) : Prop := exists rng o, In (MTry rng k o) a \/ In (MStore rng k o) a.
Fixpoint cons_idxs (a : list mop) : list Z :=
  match a with [] => [] | MCons x _ :: r => x :: cons_idxs r | _ :: r => cons_idxs r end.

Lemma in_cons_idxs a x tag : In (MCons x tag) a -> In x (cons_idxs a).
Proof.
  induction a as [|m a IH]; intros I; [destruct I|].
  destruct I as [->|I]; [left; reflexivity|]. specialize (IH I). destruct m; cbn [cons_idxs]; try exact IH. right; exact IH.
Qed.

Lemma cons_idxs_app a b : cons_idxs (a ++ b) = cons_idxs a ++ cons_idxs b.
Proof. induction a as [|m a IH]; [reflexivity|]. destruct m; cbn [app cons_idxs]; try exact IH. rewrite IH. reflexivity. Qed.

Lemma cons_idxs_norank a : (forall m, In m a -> rank m <> 4%nat) -> cons_idxs a = [].
Proof.
  induction a as [|m a IH]; intros H; [reflexivity|].
  assert (Hm := H m (or_introl eq_refl)).
  destruct m; cbn [cons_idxs]; try (apply IH; intros m' I; apply H; right; exact I). cbn in Hm. contradiction.
Qed.

Lemma NoDup_cons_idxs_tail m a : NoDup (cons_idxs (m :: a)) -> NoDup (cons_idxs a).
Proof. destruct m; cbn [cons_idxs]; intros H; try exact H. inversion H; assumption. Qed.

Lemma sorted_app a b : sorted a -> sorted b -> (forall x y, In x a -> In y b -> (rank x <= rank y)%nat) -> sorted (a ++ b).
Proof.
  induction a as [|m a IH]; intros Sa Sb H; cbn [app]; [exact Sb|].
  cbn [sorted] in *. destruct Sa as [Sm Sa]. split.
  - intros m' I. apply in_app_iff in I. destruct I as [I|I]; [apply Sm; exact I | apply H; [left; reflexivity | exact I]].
  - apply IH; [exact Sa | exact Sb | intros x y Ix Iy; apply H; [right; exact Ix | exact Iy]].
Qed.

Lemma sorted_const a n : (forall m, In m a -> rank m = n) -> sorted a.
Proof.
  induction a as [|m a IH]; intros H; cbn [sorted]; [exact I|]. split.
  - intros m' I. rewrite (H m (or_introl eq_refl)), (H m' (or_intror I)). apply Nat.le_refl.
  - apply IH. intros m' I. apply H. right; exact I.
Qed.

Lemma shape_tail m a : ag_shape (m :: a) -> ag_shape a.
Proof.
  intros [[m0 [E R]]|[P S]].
  - injection E as _ ->. right. split; [intros ? []|exact I].
  - right. split; [intros m' I; apply P; right; exact I | exact (proj2 S)].
Qed.

Lemma shape_rank0_alone m a : ag_shape (m :: a) -> rank m = 0%nat -> a = [].
Proof.
  intros [[m0 [E R]]|[P S]] Z0.
  - injection E as _ ->. reflexivity.
  - specialize (P m (or_introl eq_refl)). lia.
Qed.

Lemma shape_same_rank m m' a : rank m = rank m' -> ag_shape (m :: a) -> ag_shape (m' :: a).
Proof.
  intros R [[m0 [E R0]]|[P S]].
  - injection E as -> ->. left. exists m'. split; [reflexivity | congruence].
  - right. split.
    + intros x [<-|I]; [rewrite <- R; apply P; left; reflexivity | apply P; right; exact I].
    + cbn [sorted] in *. rewrite <- R. exact S.
Qed.

(* the head of an agenda has the least rank *)
Lemma shape_head_le m a x : ag_shape (m :: a) -> In x (m :: a) -> (rank m <= rank x)%nat.
Proof.
  intros [[m0 [E R]]|[P S]] I.
  - injection E as -> ->. destruct I as [<-|[]]. apply Nat.le_refl.
  - destruct I as [<-|I]; [apply Nat.le_refl | exact (proj1 S _ I)].
Qed.

Definition upd (A : nat -> list mop) (t : nat) (a : list mop) : nat -> list mop :=
  fun t' => if Nat.eqb t' t then a else A t'.
Lemma upd_same A t a : upd A t a t = a.
Proof. unfold upd. rewrite Nat.eqb_refl. reflexivity. Qed.
Lemma upd_other A t a t' : t' <> t -> upd A t a t' = A t'.
Proof. intros N. unfold upd. destruct (Nat.eqb t' t) eqn:E; [apply Nat.eqb_eq in E; contradiction | reflexivity]. Qed.

(* ------------------------------------------------------------------------------------------------ the invariant *)
Section Invariant.
  Variable strat shift : Z.
  Hypothesis Hs : 0 <= shift.
  Local Notation trig := (trigger strat shift).

  (* [A t] is the agenda of thread t ([] for a thread that does not exist or has finished) *)
  Record Inv (g : shared) (A : nat -> list mop) : Prop := {
    (* the reservations tile [0, size) *)
    i_chain : lchain (g_rlog g) (g_size g);
    (* buffers are stored at most once, never with null; 0 and 1 exist from the start *)
    i_bnodup : NoDup (map fst (g_bufs g));
    i_bnz : forall k o, In (k, o) (g_bufs g) -> o <> 0;
    i_b01 : lookup 0 (g_bufs g) <> 0 /\ lookup 1 (g_bufs g) <> 0;
    (* each position is constructed at most once, in an allocated buffer, by the reservation that covers it *)
    i_cnodup : NoDup (map gc_idx (g_cells g));
    i_cok : forall c, In c (g_cells g) ->
            gc_buf c <> 0 /\ exists r, In r (g_rlog g) /\ covers r (gc_idx c) /\ gc_tag c = tag_of r (gc_idx c);
    (* obligations of a reservation: the buckets whose trigger it covers, the positions it covers *)
    i_oalloc : forall r k, In r (g_rlog g) -> 1 <= k -> covers r (trig k) ->
               lookup k (g_bufs g) <> 0 \/ pendingA k (A (r_tid r));
    i_ofill : forall r x, In r (g_rlog g) -> covers r x ->
              In x (map gc_idx (g_cells g)) \/ In (MCons x (tag_of r x)) (A (r_tid r));
    (* what is on an agenda is justified by a reservation of that thread *)
    i_tryj : forall t rng k o, In (MTry rng k o) (A t) \/ In (MStore rng k o) (A t) ->
             1 <= k /\ o <> 0 /\ exists r, In r (g_rlog g) /\ r_tid r = t /\ covers r (trig k);
    i_stnull : forall t rng k o, In (MStore rng k o) (A t) -> lookup k (g_bufs g) = 0;
    i_sthead : forall t m rest rng k o, A t = m :: rest -> ~ In (MStore rng k o) rest;
    i_consj : forall t x tag, In (MCons x tag) (A t) ->
              ~ In x (map gc_idx (g_cells g)) /\
              (exists r, In r (g_rlog g) /\ r_tid r = t /\ covers r x /\ tag = tag_of r x) /\
              (lookup (bkt shift x) (g_bufs g) <> 0 \/ exists rng, In (MWait rng (bkt shift x)) (A t));
    i_consnd : forall t, NoDup (cons_idxs (A t));
    i_shape : forall t, ag_shape (A t);
    i_fwf : forall t d tag inc, In (MFetchN d tag inc) (A t) -> 0 <= d;
    i_waitj : forall t rng k, In (MWait rng k) (A t) -> 0 <= k /\ bucket_start shift k <= g_size g
  }.

  Lemma Inv_ext g A B : (forall t, A t = B t) -> Inv g A -> Inv g B.
  Proof.
    intros E I. destruct I. constructor; try assumption; intros; try rewrite <- E in *; eauto.
  Qed.

  Ltac by_tid t' t := let Et := fresh "Etid" in destruct (Nat.eq_dec t' t) as [Et|?N]; [try rewrite Et in *; rewrite ?upd_same in * | rewrite ?upd_other in * by assumption].

  (* -------- the head of the agenda is dropped, shared state unchanged *)
  Lemma inv_pop g A t m rest :
    Inv g A -> A t = m :: rest ->
    (forall rng k o, m = MTry rng k o -> lookup k (g_bufs g) <> 0) ->
    (forall rng k o, m <> MStore rng k o) ->
    (forall x tag, m <> MCons x tag) ->
    (forall rng k, m = MWait rng k -> lookup k (g_bufs g) <> 0) ->
    Inv g (upd A t rest).
  Proof.
    intros I HA HT HS HC HW.
    assert (Sub : forall x, In x rest -> In x (A t)) by (intros x Ix; rewrite HA; right; exact Ix).
    constructor; try (destruct I; assumption).
    - (* oalloc *) intros r k Hr Hk Hc. destruct (i_oalloc _ _ I r k Hr Hk Hc) as [L|P]; [left; exact L|].
      by_tid (r_tid r) t; [|right; exact P].
      rewrite HA in P. destruct P as (rng & o & [[E|P]|[E|P]]).
      + left. eapply HT; eauto.
      + right. exists rng, o. left; exact P.
      + exfalso. eapply HS; eauto.
      + right. exists rng, o. right; exact P.
    - (* ofill *) intros r x Hr Hc. destruct (i_ofill _ _ I r x Hr Hc) as [L|P]; [left; exact L|].
      by_tid (r_tid r) t; [|right; exact P].
      rewrite HA in P. destruct P as [E|P]; [exfalso; eapply HC; eauto | right; exact P].
    - (* tryj *) intros t' rng k o H. by_tid t' t; [|eapply i_tryj; eauto].
      eapply (i_tryj _ _ I t). destruct H as [H|H]; [left|right]; apply Sub; exact H.
    - (* stnull *) intros t' rng k o H. by_tid t' t; [|eapply i_stnull; eauto]. eapply (i_stnull _ _ I t). apply Sub; exact H.
    - (* sthead *) intros t' m' rest' rng k o E. by_tid t' t; [|eapply i_sthead; eauto].
      subst rest. intros H. eapply (i_sthead _ _ I t _ _ rng k o HA). right; exact H.
    - (* consj *) intros t' x tag H. by_tid t' t; [|eapply i_consj; eauto].
      destruct (i_consj _ _ I t x tag (Sub _ H)) as (N & R & W). split; [exact N|]. split; [exact R|].
      destruct W as [W|[rng W]]; [left; exact W|]. rewrite HA in W. destruct W as [E|W]; [left; eapply HW; eauto | right; exists rng; exact W].
    - (* consnd *) intros t'. by_tid t' t; [|apply (i_consnd _ _ I)].
      pose proof (i_consnd _ _ I t) as N. rewrite HA in N. eapply NoDup_cons_idxs_tail; eauto.
    - (* shape *) intros t'. by_tid t' t; [|apply (i_shape _ _ I)].
      pose proof (i_shape _ _ I t) as S. rewrite HA in S. eapply shape_tail; eauto.
    - (* fwf *) intros t' d tag inc H. by_tid t' t; [|eapply i_fwf; eauto]. eapply (i_fwf _ _ I t). apply Sub; exact H.
    - (* waitj *) intros t' rng k H. by_tid t' t; [|eapply i_waitj; eauto]. eapply (i_waitj _ _ I t). apply Sub; exact H.
  Qed.

  (* -------- MTry saw null: the thread is now committed to the store *)
  Lemma inv_try_null g A t rng k o rest :
    Inv g A -> A t = MTry rng k o :: rest -> lookup k (g_bufs g) = 0 ->
    Inv g (upd A t (MStore rng k o :: rest)).
  Proof.
    intros I HA HN.
    assert (Sub : forall x, In x rest -> In x (A t)) by (intros x Ix; rewrite HA; right; exact Ix).
    assert (Hd : In (MTry rng k o) (A t)) by (rewrite HA; left; reflexivity).
    constructor; try (destruct I; assumption).
    - intros r k' Hr Hk Hc. destruct (i_oalloc _ _ I r k' Hr Hk Hc) as [L|P]; [left; exact L|].
      by_tid (r_tid r) t; [|right; exact P]. right.
      rewrite HA in P. destruct P as (rng' & o' & [[E|P]|[E|P]]).
      + injection E as <- <- <-. exists rng, o. right; left; reflexivity.
      + exists rng', o'. left; right; exact P.
      + discriminate E.
      + exists rng', o'. right; right; exact P.
    - intros r x Hr Hc. destruct (i_ofill _ _ I r x Hr Hc) as [L|P]; [left; exact L|].
      by_tid (r_tid r) t; [|right; exact P].
      rewrite HA in P. destruct P as [E|P]; [discriminate E | right; right; exact P].
    - intros t' rng' k' o' H. by_tid t' t; [|eapply i_tryj; eauto].
      eapply (i_tryj _ _ I t). destruct H as [[E|H]|[E|H]].
      + discriminate E.
      + left; apply Sub; exact H.
      + injection E as <- <- <-. left; exact Hd.
      + right; apply Sub; exact H.
    - intros t' rng' k' o' H. by_tid t' t; [|eapply i_stnull; eauto].
      destruct H as [E|H]; [injection E as <- <- <-; exact HN | eapply (i_stnull _ _ I t); apply Sub; exact H].
    - intros t' m' rest' rng' k' o' E. by_tid t' t; [|eapply i_sthead; eauto].
      injection E as <- <-. eapply (i_sthead _ _ I t); eauto.
    - intros t' x tag H. by_tid t' t; [|eapply i_consj; eauto].
      destruct H as [E|H]; [discriminate E|].
      destruct (i_consj _ _ I t x tag (Sub _ H)) as (N & R & W). split; [exact N|]. split; [exact R|].
      destruct W as [W|[rng' W]]; [left; exact W|]. rewrite HA in W. destruct W as [E|W]; [discriminate E | right; exists rng'; right; exact W].
    - intros t'. by_tid t' t; [|apply (i_consnd _ _ I)].
      pose proof (i_consnd _ _ I t) as N. rewrite HA in N. exact N.
    - intros t'. by_tid t' t; [|apply (i_shape _ _ I)].
      pose proof (i_shape _ _ I t) as S. rewrite HA in S. eapply shape_same_rank; [|exact S]. reflexivity.
    - intros t' d tag inc H. by_tid t' t; [|eapply i_fwf; eauto].
      destruct H as [E|H]; [discriminate E | eapply (i_fwf _ _ I t); apply Sub; exact H].
    - intros t' rng' k' H. by_tid t' t; [|eapply i_waitj; eauto].
      destruct H as [E|H]; [discriminate E | eapply (i_waitj _ _ I t); apply Sub; exact H].
  Qed.

  (* -------- an agenda without pending work is replaced by another such agenda (next operation; grow_to_at_least's load) *)
  Lemma inv_set_inert g A t a' :
    Inv g A -> inert (A t) -> inert a' -> ag_shape a' -> (forall d tag inc, In (MFetchN d tag inc) a' -> 0 <= d) ->
    Inv g (upd A t a').
  Proof.
    intros I IA Ia Sh Fw.
    assert (No : forall m, In m a' -> rank m <> 0%nat -> False) by (intros m Im R; apply R, Ia, Im).
    assert (NoA : forall m, In m (A t) -> rank m <> 0%nat -> False) by (intros m Im R; apply R, IA, Im).
    constructor; try (destruct I; assumption).
    - intros r k Hr Hk Hc. destruct (i_oalloc _ _ I r k Hr Hk Hc) as [L|P]; [left; exact L|].
      by_tid (r_tid r) t; [|right; exact P]. exfalso.
      destruct P as (rng & o & [P|P]); eapply NoA; eauto; cbn; discriminate.
    - intros r x Hr Hc. destruct (i_ofill _ _ I r x Hr Hc) as [L|P]; [left; exact L|].
      by_tid (r_tid r) t; [|right; exact P]. exfalso. eapply NoA; eauto; cbn; discriminate.
    - intros t' rng k o H. by_tid t' t; [|eapply i_tryj; eauto]. exfalso. destruct H as [H|H]; eapply No; eauto; cbn; discriminate.
    - intros t' rng k o H. by_tid t' t; [|eapply i_stnull; eauto]. exfalso. eapply No; eauto; cbn; discriminate.
    - intros t' m' rest' rng k o E. by_tid t' t; [|eapply i_sthead; eauto].
      intros H. eapply No; [rewrite E; right; exact H | cbn; discriminate].
    - intros t' x tag H. by_tid t' t; [|eapply i_consj; eauto]. exfalso. eapply No; eauto; cbn; discriminate.
    - intros t'. by_tid t' t; [|apply (i_consnd _ _ I)]. rewrite cons_idxs_norank; [constructor|].
      intros m Im R. eapply No; eauto. rewrite R. discriminate.
    - intros t'. by_tid t' t; [exact Sh | apply (i_shape _ _ I)].
    - intros t' d tag inc H. by_tid t' t; [eapply Fw; eauto | eapply i_fwf; eauto].
    - intros t' rng k H. by_tid t' t; [|eapply i_waitj; eauto]. exfalso. eapply No; eauto; cbn; discriminate.
  Qed.

  (* -------- the committed store *)
  Lemma inv_store g A t rng k o rest :
    Inv g A -> A t = MStore rng k o :: rest ->
    Inv (SH (g_size g) ((k, o) :: g_bufs g) (g_rlog g) (g_cells g)) (upd A t rest).
  Proof.
    intros I HA.
    assert (Sub : forall x, In x rest -> In x (A t)) by (intros x Ix; rewrite HA; right; exact Ix).
    assert (Hd : In (MStore rng k o) (A t)) by (rewrite HA; left; reflexivity).
    destruct (i_tryj _ _ I t rng k o (or_intror Hd)) as (Hk & Ho & r0 & Hr0 & Tr0 & Cr0).
    pose proof (i_stnull _ _ I t rng k o Hd) as HN.
    assert (Mono : forall k', lookup k' (g_bufs g) <> 0 -> lookup k' ((k, o) :: g_bufs g) <> 0)
      by (intros k' H; apply lookup_cons_mono; assumption).
    constructor; cbn [g_size g_bufs g_rlog g_cells]; try (destruct I; assumption).
    - (* bnodup *) cbn [map fst]. constructor; [|apply (i_bnodup _ _ I)].
      intros Ik. apply (in_lookup k (g_bufs g) (i_bnz _ _ I)) in Ik. contradiction.
    - (* bnz *) intros k' o' [E|H]; [injection E as <- <-; exact Ho | eapply i_bnz; eauto].
    - (* b01 *) destruct (i_b01 _ _ I) as [B0 B1]. split; apply Mono; assumption.
    - (* oalloc *) intros r k' Hr Hk' Hc. destruct (i_oalloc _ _ I r k' Hr Hk' Hc) as [L|P]; [left; apply Mono; exact L|].
      by_tid (r_tid r) t; [|right; exact P].
      rewrite HA in P. destruct P as (rng' & o' & [[E|P]|[E|P]]).
      + discriminate E.
      + right. exists rng', o'. left; exact P.
      + injection E as <- <- <-. left. cbn [lookup]. rewrite Z.eqb_refl. exact Ho.
      + right. exists rng', o'. right; exact P.
    - (* ofill *) intros r x Hr Hc. destruct (i_ofill _ _ I r x Hr Hc) as [L|P]; [left; exact L|].
      by_tid (r_tid r) t; [|right; exact P].
      rewrite HA in P. destruct P as [E|P]; [discriminate E | right; exact P].
    - (* tryj *) intros t' rng' k' o' H. by_tid t' t; [|eapply i_tryj; eauto].
      eapply (i_tryj _ _ I t). destruct H as [H|H]; [left|right]; apply Sub; exact H.
    - (* stnull *) intros t' rng' k' o' H. by_tid t' t.
      + exfalso. eapply (i_sthead _ _ I t _ _ rng' k' o' HA). exact H.
      + pose proof (i_stnull _ _ I t' rng' k' o' H) as HN'.
        rewrite lookup_cons_other; [exact HN'|]. intros ->.
        destruct (i_tryj _ _ I t' rng' k o' (or_intror H)) as (_ & _ & r' & Hr' & Tr' & Cr').
        assert (r' = r0) by (eapply lchain_covers_unique; [apply (i_chain _ _ I) | eauto ..]). subst r'. congruence.
    - (* sthead *) intros t' m' rest' rng' k' o' E. by_tid t' t; [|eapply i_sthead; eauto].
      subst rest. intros H. eapply (i_sthead _ _ I t _ _ rng' k' o' HA). right; exact H.
    - (* consj *) intros t' x tag H.
      assert (K : forall (P : Prop), (lookup (bkt shift x) (g_bufs g) <> 0 \/ P) -> (lookup (bkt shift x) ((k, o) :: g_bufs g) <> 0 \/ P))
        by (intros P [L|R]; [left; apply Mono; exact L | right; exact R]).
      by_tid t' t.
      + destruct (i_consj _ _ I t x tag (Sub _ H)) as (N & R & W). split; [exact N|]. split; [exact R|]. apply K.
        destruct W as [W|[rng' W]]; [left; exact W|]. rewrite HA in W. destruct W as [E|W]; [discriminate E | right; exists rng'; exact W].
      + destruct (i_consj _ _ I t' x tag H) as (N' & R & W). split; [exact N'|]. split; [exact R|]. apply K. exact W.
    - (* consnd *) intros t'. by_tid t' t; [|apply (i_consnd _ _ I)].
      pose proof (i_consnd _ _ I t) as N. rewrite HA in N. eapply NoDup_cons_idxs_tail; eauto.
    - (* shape *) intros t'. by_tid t' t; [|apply (i_shape _ _ I)].
      pose proof (i_shape _ _ I t) as S. rewrite HA in S. eapply shape_tail; eauto.
    - (* fwf *) intros t' d tag inc H. by_tid t' t; [|eapply i_fwf; eauto]. eapply (i_fwf _ _ I t). apply Sub; exact H.
    - (* waitj *) intros t' rng' k' H. by_tid t' t; [|eapply i_waitj; eauto]. eapply (i_waitj _ _ I t). apply Sub; exact H.
  Qed.

  (* -------- one element construction *)
  Lemma inv_cons g A t x tag rest :
    Inv g A -> A t = MCons x tag :: rest ->
    Inv (SH (g_size g) (g_bufs g) (g_rlog g) (GCE x tag (lookup (bkt shift x) (g_bufs g)) :: g_cells g)) (upd A t rest).
  Proof.
    intros I HA.
    assert (Sub : forall y, In y rest -> In y (A t)) by (intros y Iy; rewrite HA; right; exact Iy).
    assert (Hd : In (MCons x tag) (A t)) by (rewrite HA; left; reflexivity).
    destruct (i_consj _ _ I t x tag Hd) as (Nx & (r0 & Hr0 & Tr0 & Cr0 & Tg0) & W).
    assert (Bx : lookup (bkt shift x) (g_bufs g) <> 0).
    { destruct W as [W|[rng W]]; [exact W|]. exfalso.
      pose proof (i_shape _ _ I t) as S. rewrite HA in S. rewrite HA in W.
      pose proof (shape_head_le _ _ _ S W) as Le. cbn in Le. lia. }
    constructor; cbn [g_size g_bufs g_rlog g_cells]; try (destruct I; assumption).
    - (* cnodup *) cbn [map gc_idx]. constructor; [exact Nx | apply (i_cnodup _ _ I)].
    - (* cok *) intros c [<-|Ic]; [|eapply i_cok; eauto]. cbn [gc_buf gc_idx gc_tag]. split; [exact Bx|]. exists r0. auto.
    - (* oalloc *) intros r k Hr Hk Hc. destruct (i_oalloc _ _ I r k Hr Hk Hc) as [L|P]; [left; exact L|].
      by_tid (r_tid r) t; [|right; exact P]. right.
      rewrite HA in P. destruct P as (rng' & o' & [[E|P]|[E|P]]); try discriminate E; exists rng', o'; [left|right]; exact P.
    - (* ofill *) intros r x' Hr Hc. cbn [map gc_idx In].
      destruct (i_ofill _ _ I r x' Hr Hc) as [L|P]; [left; right; exact L|].
      by_tid (r_tid r) t; [|right; exact P].
      rewrite HA in P. destruct P as [E|P]; [injection E as <- _; left; left; reflexivity | right; exact P].
    - (* tryj *) intros t' rng' k' o' H. by_tid t' t; [|eapply i_tryj; eauto].
      eapply (i_tryj _ _ I t). destruct H as [H|H]; [left|right]; apply Sub; exact H.
    - (* stnull *) intros t' rng' k' o' H. by_tid t' t; [|eapply i_stnull; eauto]. eapply (i_stnull _ _ I t). apply Sub; exact H.
    - (* sthead *) intros t' m' rest' rng' k' o' E. by_tid t' t; [|eapply i_sthead; eauto].
      subst rest. intros H. eapply (i_sthead _ _ I t _ _ rng' k' o' HA). right; exact H.
    - (* consj *) intros t' x' tag' H. cbn [map gc_idx In]. by_tid t' t.
      + destruct (i_consj _ _ I t x' tag' (Sub _ H)) as (N & R & W'). split; [|split; [exact R|]].
        * intros [E|Ix]; [|exact (N Ix)]. subst x'.
          pose proof (i_consnd _ _ I t) as ND. rewrite HA in ND. cbn [cons_idxs] in ND. inversion ND as [|? ? Nin _]; subst.
          apply Nin. eapply in_cons_idxs; eauto.
        * destruct W' as [W'|[rng' W']]; [left; exact W'|]. rewrite HA in W'.
          destruct W' as [E|W']; [discriminate E | right; exists rng'; exact W'].
      + destruct (i_consj _ _ I t' x' tag' H) as (N' & (r' & Hr' & Tr' & Cr' & Tg') & W'). split; [|split; [eauto|exact W']].
        intros [E|Ix]; [|exact (N' Ix)]. subst x'.
        assert (r' = r0) by (eapply lchain_covers_unique; [apply (i_chain _ _ I) | eauto ..]). subst r'. congruence.
    - (* consnd *) intros t'. by_tid t' t; [|apply (i_consnd _ _ I)].
      pose proof (i_consnd _ _ I t) as N. rewrite HA in N. eapply NoDup_cons_idxs_tail; eauto.
    - (* shape *) intros t'. by_tid t' t; [|apply (i_shape _ _ I)].
      pose proof (i_shape _ _ I t) as S. rewrite HA in S. eapply shape_tail; eauto.
    - (* fwf *) intros t' d tag' inc H. by_tid t' t; [|eapply i_fwf; eauto]. eapply (i_fwf _ _ I t). apply Sub; exact H.
    - (* waitj *) intros t' rng' k' H. by_tid t' t; [|eapply i_waitj; eauto]. eapply (i_waitj _ _ I t). apply Sub; exact H.
  Qed.

  (* -------- a fetch_add: a new reservation, the agenda becomes its plan *)
  Lemma inv_fetch g A t m d tag inc plan :
    Inv g A -> A t = [m] -> rank m = 0%nat -> 0 <= d ->
    (forall k, 1 <= k -> g_size g <= trig k < g_size g + d -> exists rng, In (MTry rng k (g_size g + 1)) plan) ->
    (forall rng k o, In (MTry rng k o) plan -> 1 <= k /\ g_size g <= trig k < g_size g + d /\ o = g_size g + 1) ->
    (forall m', In m' plan -> (1 <= rank m')%nat) ->
    (forall rng k o, ~ In (MStore rng k o) plan) ->
    sorted plan ->
    (forall x, g_size g <= x < g_size g + d -> In (MCons x (tag + inc * (x - g_size g))) plan) ->
    (forall x tag', In (MCons x tag') plan ->
       g_size g <= x < g_size g + d /\ tag' = tag + inc * (x - g_size g) /\ exists rng, In (MWait rng (bkt shift x)) plan) ->
    NoDup (cons_idxs plan) ->
    (forall rng k, In (MWait rng k) plan -> 0 <= k /\ bucket_start shift k <= g_size g + d) ->
    Inv (SH (g_size g + d) (g_bufs g) (RV t (g_size g) d tag inc :: g_rlog g) (g_cells g)) (upd A t plan).
  Proof.
    intros I HA R0 Hd H1 H2 H3 H3b H4 H5 H6 H7 H8.
    set (i := g_size g) in *. set (r0 := RV t i d tag inc).
    pose proof (lchain_nonneg _ _ (i_chain _ _ I)) as Hi. fold i in Hi.
    assert (NoA : forall m', In m' (A t) -> rank m' <> 0%nat -> False).
    { intros m' Im Rm. rewrite HA in Im. destruct Im as [<-|[]]. contradiction. }
    constructor; cbn [g_size g_bufs g_rlog g_cells]; try (destruct I; assumption).
    - (* chain *) cbn [lchain r_start r_delta r0]. split; [reflexivity|]. split; [exact Hd | apply (i_chain _ _ I)].
    - (* cok *) intros c Ic. destruct (i_cok _ _ I c Ic) as (B & r & Hr & Cr & Tr). split; [exact B|]. exists r. split; [right; exact Hr | auto].
    - (* oalloc *) intros r k [<-|Hr] Hk Hc.
      + right. cbn [r_tid r0]. rewrite upd_same. unfold covers in Hc; cbn [r_start r_delta r0] in Hc.
        destruct (H1 k Hk Hc) as [rng Hin]. exists rng, (i + 1). left; exact Hin.
      + destruct (i_oalloc _ _ I r k Hr Hk Hc) as [L|P]; [left; exact L|].
        by_tid (r_tid r) t; [|right; exact P]. exfalso.
        destruct P as (rng & o & [P|P]); eapply NoA; eauto; cbn; discriminate.
    - (* ofill *) intros r x [<-|Hr] Hc.
      + right. cbn [r_tid r0]. rewrite upd_same. unfold covers in Hc; cbn [r_start r_delta r0] in Hc.
        unfold tag_of; cbn [r_tag r_inc r_start r0]. apply H5. exact Hc.
      + destruct (i_ofill _ _ I r x Hr Hc) as [L|P]; [left; exact L|].
        by_tid (r_tid r) t; [|right; exact P]. exfalso. eapply NoA; eauto; cbn; discriminate.
    - (* tryj *) intros t' rng k o H. by_tid t' t.
      + destruct H as [H|H]; [|exfalso; exact (H3b _ _ _ H)].
        destruct (H2 _ _ _ H) as (Hk & Tk & ->). split; [exact Hk|]. split; [lia|].
        exists r0. split; [left; reflexivity|]. split; [reflexivity|]. unfold covers; cbn [r_start r_delta r0]. exact Tk.
      + destruct (i_tryj _ _ I t' rng k o H) as (Hk & Ho & r & Hr & Tr & Cr). split; [exact Hk|]. split; [exact Ho|].
        exists r. split; [right; exact Hr | auto].
    - (* stnull *) intros t' rng k o H. by_tid t' t; [|eapply i_stnull; eauto]. exfalso. exact (H3b _ _ _ H).
    - (* sthead *) intros t' m' rest' rng k o E. by_tid t' t; [|eapply i_sthead; eauto].
      intros H. assert (Ip : In (MStore rng k o) plan) by (rewrite E; right; exact H). exact (H3b _ _ _ Ip).
    - (* consj *) intros t' x tag' H. by_tid t' t.
      + destruct (H6 _ _ H) as (Bx & Tg & W). split; [|split].
        * intros Ix. apply in_map_iff in Ix. destruct Ix as (c & Ec & Ic).
          destruct (i_cok _ _ I c Ic) as (_ & r & Hr & Cr & _).
          destruct (lchain_in _ _ _ (i_chain _ _ I) Hr) as (_ & _ & En). unfold covers in Cr. fold i in En. lia.
        * exists r0. split; [left; reflexivity|]. split; [reflexivity|]. split; [unfold covers; cbn [r_start r_delta r0]; exact Bx|].
          unfold tag_of; cbn [r_tag r_inc r_start r0]. exact Tg.
        * right. exact W.
      + destruct (i_consj _ _ I t' x tag' H) as (N' & (r & Hr & Tr & Cr & Tg) & W). split; [exact N'|]. split; [|exact W].
        exists r. split; [right; exact Hr | auto].
    - (* consnd *) intros t'. by_tid t' t; [exact H7 | apply (i_consnd _ _ I)].
    - (* shape *) intros t'. by_tid t' t; [|apply (i_shape _ _ I)]. right. split; [exact H3 | exact H4].
    - (* fwf *) intros t' d' tag' inc' H. by_tid t' t; [|eapply i_fwf; eauto]. exfalso. pose proof (H3 _ H) as R. cbn in R. lia.
    - (* waitj *) intros t' rng k H. by_tid t' t; [exact (H8 _ _ H)|].
      destruct (i_waitj _ _ I t' rng k H) as (K0 & Ks). fold i in Ks. split; [exact K0 | lia].
  Qed.

  (* -------- the plans of the two variants *)
  Lemma map_rank (f : Z -> mop) l n : (forall k, rank (f k) = n) -> forall m, In m (map f l) -> rank m = n.
  Proof. intros H m Im. apply in_map_iff in Im. destruct Im as (k & <- & _). apply H. Qed.

  Lemma sorted_app' a b n : sorted a -> sorted b -> (forall m, In m a -> (rank m <= n)%nat) -> (forall m, In m b -> (n <= rank m)%nat) ->
    sorted (a ++ b).
  Proof. intros Sa Sb Ha Hb. apply sorted_app; try assumption. intros x y Ix Iy. specialize (Ha _ Ix). specialize (Hb _ Iy). lia. Qed.

  Lemma sorted_4 a b c d :
    (forall m, In m a -> rank m = 1%nat) -> (forall m, In m b -> rank m = 2%nat) ->
    (forall m, In m c -> rank m = 3%nat) -> (forall m, In m d -> rank m = 4%nat) ->
    sorted (a ++ b ++ c ++ d) /\ (forall m, In m (a ++ b ++ c ++ d) -> (1 <= rank m)%nat).
  Proof.
    intros Ra Rb Rc Rd. split.
    - apply sorted_app' with (n := 1%nat); [eapply sorted_const; eauto | | intros m Im; rewrite (Ra _ Im); lia |].
      + apply sorted_app' with (n := 2%nat); [eapply sorted_const; eauto | | intros m Im; rewrite (Rb _ Im); lia |].
        * apply sorted_app' with (n := 3%nat); [eapply sorted_const; eauto | eapply sorted_const; eauto | intros m Im; rewrite (Rc _ Im); lia |].
          intros m Im; rewrite (Rd _ Im); lia.
        * intros m Im. apply in_app_iff in Im. destruct Im as [Im|Im]; [rewrite (Rc _ Im) | rewrite (Rd _ Im)]; lia.
      + intros m Im. rewrite !in_app_iff in Im. destruct Im as [Im|[Im|Im]]; [rewrite (Rb _ Im) | rewrite (Rc _ Im) | rewrite (Rd _ Im)]; lia.
    - intros m Im. rewrite !in_app_iff in Im. destruct Im as [Im|[Im|[Im|Im]]];
        [rewrite (Ra _ Im) | rewrite (Rb _ Im) | rewrite (Rc _ Im) | rewrite (Rd _ Im)]; lia.
  Qed.

  Lemma cons_idxs_conses i d tag inc : cons_idxs (conses i d tag inc) = zrange i (Z.to_nat d).
  Proof. unfold conses. induction (zrange i (Z.to_nat d)) as [|x l IH]; cbn [map cons_idxs]; [reflexivity | rewrite IH; reflexivity]. Qed.

  Lemma inv_fetch1 g A t tag :
    Inv g A -> A t = [MFetch1 tag] ->
    Inv (SH (g_size g + 1) (g_bufs g) (RV t (g_size g) 1 tag 0 :: g_rlog g) (g_cells g)) (upd A t (plan1 strat shift (g_size g) tag)).
  Proof.
    intros I HA. pose proof (lchain_nonneg _ _ (i_chain _ _ I)) as Hi. set (i := g_size g) in *.
    assert (Parts : forall m, In m (plan1 strat shift i tag) ->
              (exists k, m = MTry false k (i + 1) /\ In k (allocs1 strat shift i)) \/ m = MWait false (bkt shift i) \/ m = MCons i tag).
    { intros m Im. unfold plan1, waits1 in Im. rewrite !in_app_iff in Im. destruct Im as [Im|[Im|Im]].
      - apply in_map_iff in Im. destruct Im as (k & <- & Ik). left. exists k. auto.
      - cbn [map In] in Im. destruct Im as [<-|[]]. right; left; reflexivity.
      - destruct Im as [<-|[]]. right; right; reflexivity. }
    assert (S4 := sorted_4 [] (map (fun k => MTry false k (i + 1)) (allocs1 strat shift i)) (map (MWait false) (waits1 shift i)) [MCons i tag]
                    ltac:(intros ? []) (map_rank (fun k => MTry false k (i + 1)) _ 2%nat (fun _ => eq_refl)) (map_rank (MWait false) _ 3%nat (fun _ => eq_refl))
                    ltac:(intros ? [<-|[]]; reflexivity)).
    cbn [app] in S4. fold (plan1 strat shift i tag) in S4. destruct S4 as [S4 R4].
    eapply (inv_fetch g A t (MFetch1 tag) 1 tag 0); try eassumption; try reflexivity; try lia.
    - intros k Hk Tk. exists false. unfold plan1. apply in_app_iff. left. apply in_map_iff. exists k. split; [reflexivity|].
      apply allocs1_spec; [assumption | assumption | split; [exact Hk | fold i in Tk; lia]].
    - intros rng k o Im. destruct (Parts _ Im) as [(k0 & E & Ik)|[E|E]]; try discriminate E.
      injection E as E1 E2 E3. subst rng k o. apply allocs1_spec in Ik; try assumption. fold i. split; [lia|]. split; [lia | reflexivity].
    - intros rng k o Im. destruct (Parts _ Im) as [(k0 & E & Ik)|[E|E]]; discriminate E.
    - intros x Hx. fold i in Hx. assert (x = i) by lia. subst x. unfold plan1. rewrite !in_app_iff. right; right. left.
      f_equal. fold i. lia.
    - intros x tag' Im. destruct (Parts _ Im) as [(k0 & E & Ik)|[E|E]]; try discriminate E. injection E as -> ->. fold i.
      split; [lia|]. split; [lia|]. exists false. unfold plan1, waits1. rewrite !in_app_iff. right; left. left; reflexivity.
    - unfold plan1. rewrite !cons_idxs_app. rewrite (cons_idxs_norank (map _ (allocs1 _ _ _))), (cons_idxs_norank (map _ (waits1 _ _))).
      + cbn. constructor; [intros [] | constructor].
      + intros m Im. apply in_map_iff in Im. destruct Im as (k & <- & _). cbn. discriminate.
      + intros m Im. apply in_map_iff in Im. destruct Im as (k & <- & _). cbn. discriminate.
    - intros rng k Im. destruct (Parts _ Im) as [(k0 & E & Ik)|[E|E]]; try discriminate E. injection E as _ ->. fold i.
      pose proof (g_bkt_bounds shift i Hs Hi). lia.
  Qed.

  Lemma inv_fetchN g A t d tag inc :
    Inv g A -> A t = [MFetchN d tag inc] ->
    Inv (SH (g_size g + d) (g_bufs g) (RV t (g_size g) d tag inc :: g_rlog g) (g_cells g)) (upd A t (planN strat shift (g_size g) d tag inc)).
  Proof.
    intros I HA. pose proof (lchain_nonneg _ _ (i_chain _ _ I)) as Hi. set (i := g_size g) in *.
    assert (Hd : 0 <= d) by (eapply (i_fwf _ _ I t); rewrite HA; left; reflexivity).
    assert (Parts : forall m, In m (planN strat shift i d tag inc) ->
              (exists k, m = MCnt k) \/ (exists k, m = MTry true k (i + 1) /\ In k (allocsN strat shift i d)) \/
              (exists k, m = MWait true k /\ In k (waitsN shift i d)) \/
              (exists x, m = MCons x (tag + inc * (x - i)) /\ i <= x < i + d)).
    { intros m Im. unfold planN in Im. rewrite !in_app_iff in Im. destruct Im as [Im|[Im|[Im|Im]]].
      - apply in_map_iff in Im. destruct Im as (k & <- & Ik). left. exists k. auto.
      - apply in_map_iff in Im. destruct Im as (k & <- & Ik). right; left. exists k. auto.
      - apply in_map_iff in Im. destruct Im as (k & <- & Ik). right; right; left. exists k. auto.
      - unfold conses in Im. apply in_map_iff in Im. destruct Im as (x & <- & Ix). right; right; right. exists x. split; [reflexivity|].
        apply in_zrange in Ix. lia. }
    assert (S4 := sorted_4 (map MCnt (allocsN strat shift i d)) (map (fun k => MTry true k (i + 1)) (allocsN strat shift i d))
                    (map (MWait true) (waitsN shift i d)) (conses i d tag inc)
                    (map_rank MCnt _ 1%nat (fun _ => eq_refl)) (map_rank (fun k => MTry true k (i + 1)) _ 2%nat (fun _ => eq_refl))
                    (map_rank (MWait true) _ 3%nat (fun _ => eq_refl))
                    (map_rank (fun x => MCons x (tag + inc * (x - i))) _ 4%nat (fun _ => eq_refl))).
    fold (planN strat shift i d tag inc) in S4. destruct S4 as [S4 R4].
    eapply (inv_fetch g A t (MFetchN d tag inc) d tag inc); try eassumption; try reflexivity.
    - intros k Hk Tk. exists true. unfold planN. rewrite !in_app_iff. right; left. apply in_map_iff. exists k. split; [reflexivity|].
      apply allocsN_spec; try assumption. split; assumption.
    - intros rng k o Im. destruct (Parts _ Im) as [(k0 & E)|[(k0 & E & Ik)|[(k0 & E & Ik)|(x & E & Ix)]]]; try discriminate E.
      injection E as E1 E2 E3. subst rng k o. apply allocsN_spec in Ik; try assumption. fold i. split; [lia|]. split; [lia | reflexivity].
    - intros rng k o Im. destruct (Parts _ Im) as [(k0 & E)|[(k0 & E & Ik)|[(k0 & E & Ik)|(x & E & Ix)]]]; discriminate E.
    - intros x Hx. fold i in Hx. unfold planN, conses. rewrite !in_app_iff. right; right; right. apply in_map_iff. exists x.
      split; [reflexivity|]. apply in_zrange. lia.
    - intros x tag' Im. destruct (Parts _ Im) as [(k0 & E)|[(k0 & E & Ik)|[(k0 & E & Ik)|(x0 & E & Ix)]]]; try discriminate E.
      injection E as -> ->. fold i. split; [exact Ix|]. split; [reflexivity|]. exists true.
      unfold planN. rewrite !in_app_iff. right; right; left. apply in_map_iff. exists (bkt shift x0). split; [reflexivity|].
      unfold waitsN. apply in_zspan. split; apply g_bkt_mono; try assumption; lia.
    - unfold planN. rewrite !cons_idxs_app.
      rewrite (cons_idxs_norank (map MCnt _)), (cons_idxs_norank (map (fun k => MTry true k (i + 1)) _)), (cons_idxs_norank (map (MWait true) _)).
      + cbn [app]. rewrite cons_idxs_conses. apply NoDup_zrange.
      + intros m Im. apply in_map_iff in Im. destruct Im as (k & <- & _). cbn. discriminate.
      + intros m Im. apply in_map_iff in Im. destruct Im as (k & <- & _). cbn. discriminate.
      + intros m Im. apply in_map_iff in Im. destruct Im as (k & <- & _). cbn. discriminate.
    - intros rng k Im. destruct (Parts _ Im) as [(k0 & E)|[(k0 & E & Ik)|[(k0 & E & Ik)|(x & E & Ix)]]]; try discriminate E.
      injection E as _ ->. fold i. unfold waitsN in Ik. apply in_zspan in Ik.
      pose proof (g_bkt_bounds shift i Hs Hi) as (B0 & _).
      pose proof (g_bkt_bounds shift (i + d) Hs ltac:(lia)) as (B1 & L1 & _).
      pose proof (g_start_mono shift k0 (bkt shift (i + d)) Hs ltac:(lia)). lia.
  Qed.

  (* ------------------------------------------------------------------------------------------------ the step preserves the invariant *)
  Definition agof (s : state) (t : nat) : list mop := match nth_error (threads s) t with Some th => ag th | None => [] end.
  Definition wf_op (o : gop) : Prop := match o with GGrow d _ _ => 0 <= d | _ => True end.
  Definition SInv (s : state) : Prop := Inv (sh s) (agof s) /\ Forall (fun th => Forall wf_op (prog th)) (threads s).

  Lemma nth_error_set_nth_same {X} (l : list X) t x x0 : nth_error l t = Some x0 -> nth_error (set_nth l t x) t = Some x.
  Proof. revert t; induction l as [|a l IH]; intros [|t] H; cbn in *; try discriminate; [reflexivity | eapply IH; eauto]. Qed.
  Lemma nth_error_set_nth_other {X} (l : list X) t t' x : t' <> t -> nth_error (set_nth l t x) t' = nth_error l t'.
  Proof.
    revert t t'; induction l as [|a l IH]; intros [|t] [|t'] N; cbn; try reflexivity; try contradiction.
    apply IH. intros ->. apply N. reflexivity.
  Qed.
  Lemma Forall_set_nth' {X} (P : X -> Prop) l t x : Forall P l -> P x -> Forall P (set_nth l t x).
  Proof.
    revert t; induction l as [|a l IH]; intros t F Px; [destruct t; constructor|].
    inversion F; subst. destruct t as [|t]; cbn; constructor; auto.
  Qed.

  Lemma entry_ok o : wf_op o -> inert (entry o) /\ ag_shape (entry o) /\ (forall d tag inc, In (MFetchN d tag inc) (entry o) -> 0 <= d).
  Proof.
    intros W. destruct o; cbn [entry]; (split; [intros m [<-|[]]; reflexivity|]); (split; [left; eexists; split; reflexivity|]);
      intros d' tag' inc' [E|[]]; try discriminate E. injection E as <- _ _. exact W.
  Qed.

  Lemma step_inv s t ch s' ch' site : SInv s -> gstep strat shift s t ch = Some (s', ch', site) -> SInv s'.
  Proof.
    intros [I W] E. unfold gstep in E.
    destruct (nth_error (threads s) t) as [th|] eqn:N; [|discriminate].
    destruct (ag th) as [|m rest] eqn:Hag; [discriminate|].
    destruct (exec strat shift t m (sh s)) as [[[g' pre] rs] site0] eqn:X.
    injection E as <- _ _. cbn [sh threads].
    assert (HA : agof s t = m :: rest) by (unfold agof; rewrite N; exact Hag).
    assert (Wth : Forall wf_op (prog th)) by (rewrite Forall_forall in W; apply W; eapply nth_error_In; eauto).
    pose proof (i_shape _ _ I t) as Sh. rewrite HA in Sh.
    (* stage 1: the micro-operation *)
    assert (I1 : Inv g' (upd (agof s) t (pre ++ rest))).
    { destruct m; cbn [exec] in X.
      - injection X as <- <- _ _. cbn [app]. eapply inv_pop; eauto; intros; discriminate.
      - injection X as <- <- _ _. rewrite (shape_rank0_alone _ _ Sh eq_refl) in *. rewrite app_nil_r. apply inv_fetch1; assumption.
      - injection X as <- <- _ _. rewrite (shape_rank0_alone _ _ Sh eq_refl) in *. rewrite app_nil_r. apply inv_fetchN; assumption.
      - rewrite (shape_rank0_alone _ _ Sh eq_refl) in *. destruct (g_size (sh s) <? n) eqn:Q.
        + injection X as <- <- _ _. apply Z.ltb_lt in Q. cbn [app]. apply inv_set_inert; try assumption.
          * rewrite HA. intros m [<-|[]]. reflexivity.
          * intros m [<-|[]]. reflexivity.
          * left. eexists; split; reflexivity.
          * intros d' tag' inc' [E|[]]. injection E as <- _ _. lia.
        + injection X as <- <- _ _. cbn [app]. eapply inv_pop; eauto; intros; discriminate.
      - injection X as <- <- _ _. cbn [app]. eapply inv_pop; eauto; intros; discriminate.
      - destruct (lookup k (g_bufs (sh s)) =? 0) eqn:Q; injection X as <- <- _ _; cbn [app].
        + apply Z.eqb_eq in Q. apply inv_try_null; assumption.
        + apply Z.eqb_neq in Q. eapply inv_pop; eauto; try (intros; discriminate).
          intros rng' k' o' E. injection E as _ <- _. exact Q.
      - injection X as <- <- _ _. cbn [app]. apply inv_store with (rng := rng) (o := owner); assumption.
      - destruct (lookup k (g_bufs (sh s)) =? 0) eqn:Q; injection X as <- <- _ _; cbn [app].
        + eapply Inv_ext; [|exact I]. intros t'. destruct (Nat.eq_dec t' t) as [->|Nt]; [rewrite upd_same; exact HA | rewrite upd_other by exact Nt; reflexivity].
        + apply Z.eqb_neq in Q. eapply inv_pop; eauto; try (intros; discriminate).
          intros rng' k' E. injection E as _ <-. exact Q.
      - injection X as <- <- _ _. cbn [app]. apply inv_cons; assumption. }
    (* stage 2: entering the next operation when the agenda is exhausted *)
    set (th' := norm (TH (pre ++ rest) (prog th) (rev rs ++ res th))).
    assert (Ag : forall t', agof (ST g' (set_nth (threads s) t th')) t' = upd (agof s) t (ag th') t').
    { intros t'. unfold agof at 1. cbn [threads]. destruct (Nat.eq_dec t' t) as [->|Nt].
      - rewrite (nth_error_set_nth_same _ _ _ _ N), upd_same. reflexivity.
      - rewrite nth_error_set_nth_other by exact Nt. rewrite upd_other by exact Nt. reflexivity. }
    assert (Cases : (ag th' = pre ++ rest /\ prog th' = prog th) \/
                    (pre ++ rest = [] /\ exists o p, prog th = o :: p /\ ag th' = entry o /\ prog th' = p)).
    { unfold th', norm. cbn [ag prog res]. destruct (pre ++ rest) as [|m0 a0] eqn:Ea.
      - destruct (prog th) as [|o p] eqn:Ep; cbn [ag prog]; [left; auto | right; split; [reflexivity|]; exists o, p; auto].
      - left. cbn [ag prog]. auto. }
    split.
    - eapply Inv_ext; [intros t'; symmetry; apply Ag|].
      destruct Cases as [[Ea Ep]|(Ea & o & p & Ep & Eo & Ep')].
      + rewrite Ea. exact I1.
      + rewrite Ea in I1. rewrite Eo.
        assert (Wo : wf_op o) by (rewrite Ep in Wth; inversion Wth; assumption).
        destruct (entry_ok o Wo) as (E1 & E2 & E3).
        eapply Inv_ext; [|apply (inv_set_inert g' (upd (agof s) t []) t (entry o) I1); try assumption].
        * intros t'. unfold upd. destruct (Nat.eqb t' t); reflexivity.
        * rewrite upd_same. intros ? [].
    - cbn [threads]. apply Forall_set_nth'; [exact W|].
      destruct Cases as [[Ea Ep]|(Ea & o & p & Ep & Eo & Ep')]; [rewrite Ep; exact Wth|].
      rewrite Ep'. rewrite Ep in Wth. inversion Wth; assumption.
  Qed.

  Lemma init_inv progs : Forall (Forall wf_op) progs -> SInv (init progs).
  Proof.
    intros F. split.
    - assert (AgI : forall t, agof (init progs) t = [MStart] \/ agof (init progs) t = []).
      { intros t. unfold agof, init. cbn [threads]. destruct (nth_error _ t) as [th|] eqn:N; [|right; reflexivity].
        apply nth_error_In in N. apply in_map_iff in N. destruct N as (p & <- & _). left; reflexivity. }
      assert (NoI : forall t m, In m (agof (init progs) t) -> m = MStart).
      { intros t m Im. destruct (AgI t) as [E|E]; rewrite E in Im; [destruct Im as [<-|[]]; reflexivity | destruct Im]. }
      constructor; cbn [sh init init_shared g_size g_bufs g_rlog g_cells].
      + reflexivity.
      + cbn. constructor; [intros [E|[]]; discriminate | constructor; [intros [] | constructor]].
      + intros k o [E|[E|[]]]; injection E as _ <-; discriminate.
      + cbn. split; discriminate.
      + constructor.
      + intros c [].
      + intros r k [].
      + intros r x [].
      + intros t rng k o [H|H]; apply NoI in H; discriminate.
      + intros t rng k o H. apply NoI in H; discriminate.
      + intros t m rest rng k o E H. assert (Im : In (MStore rng k o) (agof (init progs) t)) by (rewrite E; right; exact H).
        apply NoI in Im; discriminate.
      + intros t x tag H. apply NoI in H; discriminate.
      + intros t. destruct (AgI t) as [E|E]; rewrite E; cbn; constructor.
      + intros t. destruct (AgI t) as [E|E]; rewrite E; [left; eexists; split; reflexivity | right; split; [intros ? [] | exact Logic.I]].
      + intros t d tag inc H. apply NoI in H; discriminate.
      + intros t rng k H. apply NoI in H; discriminate.
    - unfold init. cbn [threads]. apply Forall_forall. intros th Ith. apply in_map_iff in Ith. destruct Ith as (p & <- & Ip).
      cbn [prog]. rewrite Forall_forall in F. apply F. exact Ip.
  Qed.

  Theorem reach_inv_grow progs s : Forall (Forall wf_op) progs -> reach (gstep strat shift) (init progs) s -> SInv s.
  Proof.
    intros F R. apply (reach_inv (gstep strat shift) SInv (init progs)); [apply init_inv; exact F | | exact R].
    intros s1 t ch s1' ch' site I1 E. eapply step_inv; eauto.
  Qed.

  Lemma plan1_ranks i tag m : In m (plan1 strat shift i tag) -> (1 <= rank m)%nat.
  Proof.
    unfold plan1, waits1. rewrite !in_app_iff. intros [Im|[Im|Im]].
    - apply in_map_iff in Im. destruct Im as (k & <- & _). cbn. lia.
    - apply in_map_iff in Im. destruct Im as (k & <- & _). cbn. lia.
    - destruct Im as [<-|[]]. cbn. lia.
  Qed.
  Lemma planN_ranks i d tag inc m : In m (planN strat shift i d tag inc) -> (1 <= rank m)%nat.
  Proof.
    unfold planN, conses. rewrite !in_app_iff. intros [Im|[Im|[Im|Im]]]; apply in_map_iff in Im; destruct Im as (k & <- & _); cbn; lia.
  Qed.

  (* ------------------------------------------------------------------------------------------------ consequences *)
  Section Reach.
    Variable progs : list (list gop).
    Hypothesis Wf : Forall (Forall wf_op) progs.
    Local Notation reachable := (reach (gstep strat shift) (init progs)).

    (* fetch_add hands out consecutive, pairwise disjoint ranges that tile [0, size); size = sum of the deltas *)
    Theorem grow_distinct_indices s : reachable s ->
      lchain (g_rlog (sh s)) (g_size (sh s)) /\ g_size (sh s) = rtotal (g_rlog (sh s)) /\
      (forall r r' x, In r (g_rlog (sh s)) -> In r' (g_rlog (sh s)) -> covers r x -> covers r' x -> r = r') /\
      (forall x, 0 <= x < g_size (sh s) -> exists r, In r (g_rlog (sh s)) /\ covers r x).
    Proof.
      intros R. destruct (reach_inv_grow progs s Wf R) as [I _]. pose proof (i_chain _ _ I) as C.
      split; [exact C|]. split; [apply lchain_total; exact C|]. split.
      - intros r r' x. apply (lchain_covers_unique _ _ r r' x C).
      - intros x. apply (lchain_cover_exists _ _ x C).
    Qed.

    (* buffers are write-once: a step never changes a non-null buffer pointer (so elements never move) *)
    Theorem grow_pointers_stable_step s t ch s' ch' site k : reachable s -> gstep strat shift s t ch = Some (s', ch', site) ->
      lookup k (g_bufs (sh s)) <> 0 -> lookup k (g_bufs (sh s')) = lookup k (g_bufs (sh s)).
    Proof.
      intros R E NZ. destruct (reach_inv_grow progs s Wf R) as [I _]. unfold gstep in E.
      destruct (nth_error (threads s) t) as [th|] eqn:N; [|discriminate].
      destruct (ag th) as [|m rest] eqn:Hag; [discriminate|].
      destruct (exec strat shift t m (sh s)) as [[[g' pre] rs] site0] eqn:X.
      injection E as <- _ _. cbn [sh].
      assert (HA : agof s t = m :: rest) by (unfold agof; rewrite N; exact Hag).
      destruct m; cbn [exec] in X;
        try (injection X as <- _ _ _; reflexivity);
        try (destruct (_ <? _); injection X as <- _ _ _; reflexivity);
        try (destruct (_ =? _); injection X as <- _ _ _; reflexivity).
      injection X as <- _ _ _. cbn [g_bufs].
      assert (H0 : lookup k0 (g_bufs (sh s)) = 0) by (eapply (i_stnull _ _ I t rng k0 owner); rewrite HA; left; reflexivity).
      apply lookup_cons_other. intros ->. contradiction.
    Qed.

    Theorem grow_pointers_stable s s2 k : reachable s -> reach (gstep strat shift) s s2 ->
      lookup k (g_bufs (sh s)) <> 0 -> lookup k (g_bufs (sh s2)) = lookup k (g_bufs (sh s)).
    Proof.
      intros R R2 NZ. induction R2 as [|s1 t ch s1' ch' site R1 IH E]; [reflexivity|].
      rewrite <- IH. eapply grow_pointers_stable_step; eauto.
      - eapply reach_trans; eauto.
      - rewrite IH. exact NZ.
    Qed.

    (* read backwards: a pointer that is null now was null at every earlier moment -- in particular a buffer that the assign
       loop of allocAsNecessaryImpl stores (null at that moment, i_stnull) was seen null by the sizing loop of the same call,
       so sizeToAlloc accounts for it *)
    Corollary grow_null_backwards s s2 k : reachable s -> reach (gstep strat shift) s s2 ->
      lookup k (g_bufs (sh s2)) = 0 -> lookup k (g_bufs (sh s)) = 0.
    Proof.
      intros R R2 Z2. destruct (Z.eq_dec (lookup k (g_bufs (sh s))) 0) as [E|NZ]; [exact E|].
      rewrite (grow_pointers_stable s s2 k R R2 NZ) in Z2. contradiction.
    Qed.

    (* no position is constructed twice; every construction goes into an allocated buffer and writes the tag that the
       covering reservation assigns to that position *)
    Theorem grow_no_overwrite s : reachable s ->
      NoDup (map gc_idx (g_cells (sh s))) /\
      (forall c, In c (g_cells (sh s)) -> gc_buf c <> 0 /\
         exists r, In r (g_rlog (sh s)) /\ covers r (gc_idx c) /\ gc_tag c = tag_of r (gc_idx c)).
    Proof.
      intros R. destruct (reach_inv_grow progs s Wf R) as [I _]. split; [apply (i_cnodup _ _ I) | apply (i_cok _ _ I)].
    Qed.

    Lemma finished_agof s t : finished s = true -> agof s t = [].
    Proof.
      intros F. unfold agof. destruct (nth_error (threads s) t) as [th|] eqn:N; [|reflexivity].
      unfold finished in F. rewrite forallb_forall in F. specialize (F th (nth_error_In _ _ N)). destruct (ag th); [reflexivity|discriminate].
    Qed.

    (* when every thread has returned, exactly the positions [0, size) have been constructed (each once, by grow_no_overwrite) *)
    Theorem grow_final_exact s : reachable s -> finished s = true ->
      forall x, 0 <= x < g_size (sh s) <-> In x (map gc_idx (g_cells (sh s))).
    Proof.
      intros R F x. destruct (reach_inv_grow progs s Wf R) as [I _]. pose proof (i_chain _ _ I) as C. split.
      - intros Hx. destruct (lchain_cover_exists _ _ x C Hx) as (r & Hr & Cr).
        destruct (i_ofill _ _ I r x Hr Cr) as [L|P]; [exact L|]. rewrite finished_agof in P by exact F. destruct P.
      - intros Ix. apply in_map_iff in Ix. destruct Ix as (c & <- & Ic).
        destruct (i_cok _ _ I c Ic) as (_ & r & Hr & Cr & _). destruct (lchain_in _ _ _ C Hr) as (A0 & _ & En). unfold covers in Cr. lia.
    Qed.

    (* a thread that spins on a null buffer pointer is never alone: another thread, whose next step is a non-blocking
       load or store of the allocation phase, is committed to storing exactly that pointer *)
    Theorem grow_wait_progress s t rng k rest : reachable s ->
      agof s t = MWait rng k :: rest -> lookup k (g_bufs (sh s)) = 0 ->
      exists t' m' rest', t' <> t /\ agof s t' = m' :: rest' /\ (rank m' = 1 \/ rank m' = 2)%nat /\ pendingA k (agof s t').
    Proof.
      intros R HA HN. destruct (reach_inv_grow progs s Wf R) as [I _]. pose proof (i_chain _ _ I) as C.
      destruct (i_waitj _ _ I t rng k ltac:(rewrite HA; left; reflexivity)) as (K0 & Ks).
      destruct (i_b01 _ _ I) as [B0 _].
      assert (Hk : 1 <= k) by (destruct (Z.eq_dec k 0) as [->|]; [contradiction | lia]).
      pose proof (g_trigger_bounds strat shift k Hs Hk) as TB. pose proof (g_trigger_nonneg strat shift k Hs Hk) as TN.
      destruct (lchain_cover_exists _ _ (trigger strat shift k) C ltac:(lia)) as (r & Hr & Cr).
      destruct (i_oalloc _ _ I r k Hr Hk Cr) as [L|P]; [contradiction|].
      pose proof (i_shape _ _ I t) as Sht. rewrite HA in Sht.
      assert (Nt : r_tid r <> t).
      { intros Et. rewrite Et, HA in P. destruct P as (rng' & o' & [[E|P]|[E|P]]); try discriminate E.
        - pose proof (shape_head_le _ _ _ Sht (or_intror P)) as Le. cbn in Le. lia.
        - pose proof (shape_head_le _ _ _ Sht (or_intror P)) as Le. cbn in Le. lia. }
      destruct (agof s (r_tid r)) as [|m' rest'] eqn:Ea.
      { destruct P as (rng' & o' & [[]|[]]). }
      exists (r_tid r), m', rest'. split; [exact Nt|]. split; [exact Ea|]. split; [|rewrite Ea; exact P].
      pose proof (i_shape _ _ I (r_tid r)) as Sh'. rewrite Ea in Sh'.
      destruct P as (rng' & o' & [P|P]).
      - pose proof (shape_head_le _ _ _ Sh' P) as Le. cbn in Le.
        destruct Sh' as [[m0 [E R0]]|[Pr _]].
        + injection E as -> ->. destruct P as [EP|[]]. rewrite EP in R0. cbn in R0. discriminate.
        + specialize (Pr m' (or_introl eq_refl)). lia.
      - pose proof (shape_head_le _ _ _ Sh' P) as Le. cbn in Le.
        destruct Sh' as [[m0 [E R0]]|[Pr _]].
        + injection E as -> ->. destruct P as [EP|[]]. rewrite EP in R0. cbn in R0. discriminate.
        + specialize (Pr m' (or_introl eq_refl)). lia.
    Qed.
    (* consequently, as long as some thread has not returned, some thread can take a step that is not a failed spin *)
    Theorem grow_some_thread_progresses s : reachable s -> finished s = false ->
      exists t m rest, agof s t = m :: rest /\ (forall rng k, m = MWait rng k -> lookup k (g_bufs (sh s)) <> 0).
    Proof.
      intros R F.
      assert (Ex : exists t m rest, agof s t = m :: rest).
      { unfold finished in F. unfold agof.
        assert (G : forall l, forallb (fun th => match ag th with [] => true | _ => false end) l = false ->
                      exists t th m rest, nth_error l t = Some th /\ ag th = m :: rest).
        { induction l as [|a l IH]; cbn [forallb]; [discriminate|]. destruct (ag a) as [|m rest] eqn:Ea; cbn [andb].
          - intros H. destruct (IH H) as (t & th & m & rest & N & E). exists (S t), th, m, rest. auto.
          - intros _. exists 0%nat, a, m, rest. auto. }
        destruct (G _ F) as (t & th & m & rest & N & E). exists t, m, rest. rewrite N. exact E. }
      destruct Ex as (t & m & rest & HA).
      destruct m; try (exists t; eexists; eexists; split; [exact HA | intros; discriminate]).
      destruct (Z.eq_dec (lookup k (g_bufs (sh s))) 0) as [Z0|NZ].
      - destruct (grow_wait_progress s t rng k rest R HA Z0) as (t' & m' & rest' & _ & HA' & Rk & _).
        exists t', m', rest'. split; [exact HA'|]. intros rng' k' E. subst m'. cbn in Rk. destruct Rk; discriminate.
      - exists t, (MWait rng k), rest. split; [exact HA|]. intros rng' k' E. injection E as _ <-. exact NZ.
    Qed.
  End Reach.
End Invariant.

(* ------------------------------------------------------------------------------------------------ final size = total growth of the programs *)
Definition op_delta (o : gop) : Z := match o with GPush _ => 1 | GGrow d _ _ => d | GGrowTo _ _ => 0 end.
Definition mop_delta (m : mop) : Z := match m with MFetch1 _ => 1 | MFetchN d _ _ => d | _ => 0 end.
Definition zsum (l : list Z) : Z := fold_right Z.add 0 l.
Definition pend_th (th : thread) : Z := zsum (map mop_delta (ag th)) + zsum (map op_delta (prog th)).
Definition no_growto (o : gop) : Prop := match o with GGrowTo _ _ => False | _ => True end.
Definition no_sizeload (m : mop) : Prop := match m with MSizeLoad _ _ => False | _ => True end.
Definition static_total (progs : list (list gop)) : Z := zsum (map (fun p => zsum (map op_delta p)) progs).

Lemma zsum_app a b : zsum (a ++ b) = zsum a + zsum b.
Proof. unfold zsum. induction a as [|x a IH]; cbn [app fold_right]; lia. Qed.

Lemma zsum_set_nth (f : thread -> Z) l t th th' : nth_error l t = Some th ->
  zsum (map f (set_nth l t th')) = zsum (map f l) - f th + f th'.
Proof.
  revert t; induction l as [|a l IH]; intros [|t] N; cbn in N; try discriminate.
  - injection N as ->. cbn [set_nth map zsum fold_right]. lia.
  - cbn [set_nth map]. unfold zsum in *. cbn [fold_right]. rewrite (IH _ N). lia.
Qed.

Lemma zsum_zero l : (forall x, In x l -> x = 0) -> zsum l = 0.
Proof. unfold zsum. induction l as [|x l IH]; intros H; cbn [fold_right]; [reflexivity|]. rewrite (H x (or_introl eq_refl)), IH; [reflexivity|]. intros y Iy; apply H; right; exact Iy. Qed.

Lemma mdelta_ranked l : (forall m, In m l -> (1 <= rank m)%nat) -> zsum (map mop_delta l) = 0.
Proof.
  intros H. apply zsum_zero. intros x Ix. apply in_map_iff in Ix. destruct Ix as (m & <- & Im). specialize (H m Im).
  destruct m; cbn in *; try reflexivity; lia.
Qed.

Section StaticSize.
  Variable strat shift : Z.
  Definition QInv (total : Z) (s : state) : Prop :=
    g_size (sh s) + zsum (map pend_th (threads s)) = total /\
    Forall (fun th => Forall no_growto (prog th) /\ Forall no_sizeload (ag th) /\ (ag th = [] -> prog th = [])) (threads s).

  Lemma qstep total s t ch s' ch' site : QInv total s -> gstep strat shift s t ch = Some (s', ch', site) -> QInv total s'.
  Proof.
    intros [Q W] E. unfold gstep in E.
    destruct (nth_error (threads s) t) as [th|] eqn:N; [|discriminate].
    destruct (ag th) as [|m rest] eqn:Hag; [discriminate|].
    destruct (exec strat shift t m (sh s)) as [[[g' pre] rs] site0] eqn:X.
    injection E as <- _ _. cbn [sh threads].
    assert (Wth : Forall no_growto (prog th) /\ Forall no_sizeload (ag th) /\ (ag th = [] -> prog th = [])) by (rewrite Forall_forall in W; apply W; eapply nth_error_In; eauto).
    destruct Wth as (Wp & Wa & _). rewrite Hag in Wa. inversion Wa as [|? ? Wm Wrest]; subst.
    (* effect of the micro-operation on size + pending of this thread *)
    assert (K : g_size g' + zsum (map mop_delta (pre ++ rest)) = g_size (sh s) + mop_delta m + zsum (map mop_delta rest) /\ Forall no_sizeload pre).
    { rewrite map_app, zsum_app. destruct m; cbn [exec] in X; cbn [no_sizeload] in Wm; try contradiction.
      - injection X as <- <- _ _. cbn. split; [lia | constructor].
      - injection X as <- <- _ _. cbn [g_size mop_delta]. rewrite (mdelta_ranked _ (plan1_ranks strat shift _ _)). split; [lia|].
        apply Forall_forall. intros m Im. apply plan1_ranks in Im. destruct m; cbn in *; try exact I; lia.
      - injection X as <- <- _ _. cbn [g_size mop_delta]. rewrite (mdelta_ranked _ (planN_ranks strat shift _ _ _ _)). split; [lia|].
        apply Forall_forall. intros m Im. apply planN_ranks in Im. destruct m; cbn in *; try exact I; lia.
      - injection X as <- <- _ _. cbn. split; [lia | constructor].
      - destruct (_ =? _); injection X as <- <- _ _; cbn; (split; [lia | repeat constructor]).
      - injection X as <- <- _ _. cbn. split; [lia | constructor].
      - destruct (_ =? _); injection X as <- <- _ _; cbn; (split; [lia | repeat constructor]).
      - injection X as <- <- _ _. cbn. split; [lia | constructor]. }
    destruct K as [K Kp].
    set (th0 := TH (pre ++ rest) (prog th) (rev rs ++ res th)).
    assert (Nm : pend_th (norm th0) = pend_th th0 /\ Forall no_growto (prog (norm th0)) /\ Forall no_sizeload (ag (norm th0)) /\
                 (ag (norm th0) = [] -> prog (norm th0) = [])).
    { unfold norm, th0. cbn [ag prog res]. destruct (pre ++ rest) as [|m0 a0] eqn:Ea.
      - destruct (prog th) as [|o p] eqn:Ep.
        + cbn [ag prog]. try rewrite Ea. split; [reflexivity|]. split; [constructor|]. split; [constructor | reflexivity].
        + inversion Wp as [|? ? Wo Wp']; subst. unfold pend_th. cbn [ag prog map]. try rewrite Ea.
          split; [|split; [exact Wp'|split]].
          * destruct o; cbn [no_growto] in Wo; try contradiction; unfold zsum; cbn [entry map mop_delta op_delta fold_right]; lia.
          * destruct o; cbn in *; try contradiction; repeat constructor.
          * destruct o; cbn; discriminate.
      - cbn [ag prog]. try rewrite Ea. split; [reflexivity|]. split; [exact Wp|]. split; [|discriminate]. try rewrite <- Ea. apply Forall_app. split; assumption. }
    destruct Nm as (Nm & Np & Na & Ne).
    split.
    - cbn [sh threads]. rewrite (zsum_set_nth pend_th _ _ _ _ N), Nm. unfold pend_th at 2 3. unfold th0. cbn [ag prog]. rewrite Hag. cbn [map zsum fold_right].
      unfold zsum in *. cbn [fold_right] in *. lia.
    - cbn [sh threads]. apply Forall_set_nth'; [exact W | split; [|split]; assumption].
  Qed.

  Lemma qinit progs : Forall (Forall no_growto) progs -> QInv (static_total progs) (init progs).
  Proof.
    intros F. split.
    - unfold init, static_total. cbn [sh threads init_shared g_size]. rewrite map_map.
      induction progs as [|p progs IH]; [reflexivity|]. inversion F; subst. cbn [map]. unfold zsum in *. cbn [fold_right].
      unfold pend_th at 1. cbn [ag prog map mop_delta fold_right]. specialize (IH ltac:(assumption)). unfold zsum. cbn [fold_right]. lia.
    - unfold init. cbn [threads]. apply Forall_forall. intros th Ith. apply in_map_iff in Ith. destruct Ith as (p & <- & Ip).
      cbn [prog ag]. rewrite Forall_forall in F. split; [apply F; exact Ip | split; [repeat constructor | discriminate]].
  Qed.

  (* programs without grow_to_at_least: when every thread has returned, size = total growth of all calls *)
  Theorem grow_final_size progs s : Forall (Forall no_growto) progs -> reach (gstep strat shift) (init progs) s ->
    finished s = true -> g_size (sh s) = static_total progs.
  Proof.
    intros F R Fin.
    assert (Q : QInv (static_total progs) s).
    { apply (reach_inv (gstep strat shift) (QInv (static_total progs)) (init progs)); [apply qinit; exact F | | exact R].
      intros s1 t ch s1' ch' site Q1 E. eapply qstep; eauto. }
    destruct Q as [Q W]. rewrite <- Q.
    assert (Z0 : zsum (map pend_th (threads s)) = 0); [|lia].
    apply zsum_zero. intros x Ix. apply in_map_iff in Ix. destruct Ix as (th & <- & Ith).
    rewrite Forall_forall in W. destruct (W th Ith) as (_ & _ & Ne).
    unfold finished in Fin. rewrite forallb_forall in Fin. specialize (Fin th Ith).
    destruct (ag th) as [|m a] eqn:Ea; [|discriminate]. unfold pend_th. rewrite Ea, (Ne eq_refl). reflexivity.
  Qed.
End StaticSize.

(* ------------------------------------------------------------------------------------------------ termination under fair scheduling *)
(* lexicographic measure: (operations not yet reserved, micro-operations not yet executed); every step of any thread
   decreases it, except a failed iteration of the spin-wait, which leaves the state unchanged *)
Definition ra (m : mop) : nat := match m with MSizeLoad _ _ => 2 | MFetch1 _ | MFetchN _ _ _ | MStart => 1 | _ => 0 end.
Definition rb (m : mop) : nat := match m with MTry _ _ _ => 2 | _ => 1 end.
Definition nsum (l : list nat) : nat := fold_right Nat.add 0%nat l.
Definition ma_th (th : thread) : nat := (3 * length (prog th) + nsum (map ra (ag th)))%nat.
Definition mb_th (th : thread) : nat := nsum (map rb (ag th)).
Definition MA (s : state) : nat := nsum (map ma_th (threads s)).
Definition MB (s : state) : nat := nsum (map mb_th (threads s)).
Definition mlt (s' s : state) : Prop := (MA s' < MA s)%nat \/ (MA s' = MA s /\ MB s' < MB s)%nat.

Lemma nsum_app a b : nsum (a ++ b) = (nsum a + nsum b)%nat.
Proof. unfold nsum. induction a as [|x a IH]; cbn [app fold_right]; lia. Qed.

Lemma nsum_set_nth (f : thread -> nat) l t th th' : nth_error l t = Some th ->
  (nsum (map f (set_nth l t th')) + f th = nsum (map f l) + f th')%nat.
Proof.
  revert t; induction l as [|a l IH]; intros [|t] N; cbn in N; try discriminate.
  - injection N as ->. cbn [set_nth map]. unfold nsum. cbn [fold_right]. lia.
  - cbn [set_nth map]. unfold nsum in *. cbn [fold_right]. specialize (IH _ N). lia.
Qed.

Lemma set_nth_same {X} (l : list X) t x : nth_error l t = Some x -> set_nth l t x = l.
Proof. revert t; induction l as [|a l IH]; intros [|t] N; cbn in *; try discriminate; [injection N as ->; reflexivity | rewrite (IH _ N); reflexivity]. Qed.

Lemma set_nth_length {X} (l : list X) t x : length (set_nth l t x) = length l.
Proof. revert t; induction l as [|a l IH]; intros [|t]; cbn; try reflexivity. rewrite IH. reflexivity. Qed.

Lemma ra_ranked l : (forall m, In m l -> (1 <= rank m)%nat) -> nsum (map ra l) = 0%nat.
Proof.
  induction l as [|m l IH]; intros H; [reflexivity|]. cbn [map]. unfold nsum in *. cbn [fold_right].
  rewrite IH by (intros m' I'; apply H; right; exact I'). specialize (H m (or_introl eq_refl)).
  destruct m; cbn in *; lia.
Qed.

Section Liveness.
  Variable strat shift : Z.

  Lemma step_measure s t ch s' ch' site : gstep strat shift s t ch = Some (s', ch', site) ->
    mlt s' s \/ (s' = s /\ exists rng k rest, agof s t = MWait rng k :: rest /\ lookup k (g_bufs (sh s)) = 0).
  Proof.
    intros E. unfold gstep in E.
    destruct (nth_error (threads s) t) as [th|] eqn:N; [|discriminate].
    destruct (ag th) as [|m rest] eqn:Hag; [discriminate|].
    destruct (exec strat shift t m (sh s)) as [[[g' pre] rs] site0] eqn:X.
    injection E as <- _ _.
    set (th0 := TH (pre ++ rest) (prog th) (rev rs ++ res th)).
    (* normalisation never increases the measure *)
    assert (Nm : (ma_th (norm th0) < ma_th th0)%nat \/ norm th0 = th0).
    { unfold norm, th0. cbn [ag prog res]. destruct (pre ++ rest) as [|m0 a0] eqn:Ea; [|right; reflexivity].
      destruct (prog th) as [|o p] eqn:Ep; [right; reflexivity|]. left.
      unfold ma_th. cbn [ag prog length map nsum fold_right]. destruct o; cbn; lia. }
    (* effect of the micro-operation itself *)
    assert (K : ((ma_th th0 < ma_th th)%nat \/ (ma_th th0 = ma_th th /\ mb_th th0 < mb_th th)%nat) \/
                (g' = sh s /\ th0 = th /\ exists rng k, m = MWait rng k /\ lookup k (g_bufs (sh s)) = 0)).
    { unfold ma_th, mb_th, th0. cbn [ag prog]. rewrite Hag. rewrite !map_app, !nsum_app. cbn [map].
      assert (C : forall (f : mop -> nat) x l, nsum (f x :: l) = (f x + nsum l)%nat) by reflexivity. rewrite !C.
      destruct m; cbn [exec] in X.
      - injection X as <- <- _ _. left. cbn. lia.
      - injection X as <- <- _ _. left. rewrite (ra_ranked _ (plan1_ranks strat shift _ _)). cbn. lia.
      - injection X as <- <- _ _. left. rewrite (ra_ranked _ (planN_ranks strat shift _ _ _ _)). cbn. lia.
      - destruct (_ <? _); injection X as <- <- _ _; left; cbn; lia.
      - injection X as <- <- _ _. left. cbn. lia.
      - destruct (_ =? _); injection X as <- <- _ _; left; cbn; lia.
      - injection X as <- <- _ _. left. cbn. lia.
      - destruct (lookup k (g_bufs (sh s)) =? 0) eqn:Q; injection X as <- <- <- _.
        + right. split; [reflexivity|]. split.
          * destruct th as [a p r]. cbn [ag prog res] in *. subst a. reflexivity.
          * exists rng, k. split; [reflexivity | apply Z.eqb_eq; exact Q].
        + left. cbn. lia.
      - injection X as <- <- _ _. left. cbn. lia. }
    destruct K as [K|(Eg & Et & rng & k & Em & L0)].
    - left. unfold mlt, MA, MB. cbn [threads].
      pose proof (nsum_set_nth ma_th _ _ _ (norm th0) N) as SA. pose proof (nsum_set_nth mb_th _ _ _ (norm th0) N) as SB.
      destruct Nm as [Nm|Nm]; [left; lia|]. rewrite Nm in *. lia.
    - right. subst m. split.
      + destruct Nm as [Nm|Nm]; [rewrite Et in Nm; unfold norm in Nm; rewrite Hag in Nm; lia|].
        rewrite Nm, Et, Eg, (set_nth_same _ _ _ N). destruct s; reflexivity.
      + exists rng, k, rest. split; [unfold agof; rewrite N; exact Hag | exact L0].
  Qed.

  Hypothesis Hs : 0 <= shift.
  Variable progs : list (list gop).
  Hypothesis Wf : Forall (Forall wf_op) progs.
  Variable pick : nat -> nat.
  (* every thread is scheduled again and again *)
  Hypothesis Fair : forall t n, (t < length progs)%nat -> exists n', (n <= n')%nat /\ pick n' = t.

  (* the run under [pick]: a thread that has returned (or does not exist) is simply skipped *)
  Fixpoint sigma (n : nat) : state :=
    match n with
    | O => init progs
    | S k => match gstep strat shift (sigma k) (pick k) [] with Some (s', _, _) => s' | None => sigma k end
    end.

  Lemma sigma_reach n : reach (gstep strat shift) (init progs) (sigma n).
  Proof.
    induction n as [|n IH]; cbn [sigma]; [apply reach_refl|].
    destruct (gstep strat shift (sigma n) (pick n) []) as [[[s' ch'] site]|] eqn:E; [eapply reach_step; eauto | exact IH].
  Qed.

  Lemma sigma_length n : length (threads (sigma n)) = length progs.
  Proof.
    induction n as [|n IH]; cbn [sigma]; [unfold init; cbn [threads]; apply map_length|].
    destruct (gstep strat shift (sigma n) (pick n) []) as [[[s' ch'] site]|] eqn:E; [|exact IH].
    unfold gstep in E. destruct (nth_error _ _) as [th|]; [|discriminate]. destruct (ag th); [discriminate|].
    destruct (exec _ _ _ _ _) as [[[g' pre] rs] site0]. injection E as <- _ _. cbn [threads]. rewrite set_nth_length. exact IH.
  Qed.

  Definition can_progress (s : state) (t : nat) : Prop :=
    exists m rest, agof s t = m :: rest /\ (forall rng k, m = MWait rng k -> lookup k (g_bufs (sh s)) <> 0).

  (* if thread t can make progress at time n and is scheduled at time n + d, the measure has dropped by then *)
  Lemma chase d : forall n t, can_progress (sigma n) t -> pick (n + d) = t -> exists j, mlt (sigma (S j)) (sigma n).
  Proof.
    induction d as [|d IH]; intros n t CP Pk.
    - replace (n + 0)%nat with n in Pk by lia. exists n. cbn [sigma]. rewrite Pk.
      destruct CP as (m & rest & HA & NW).
      destruct (gstep strat shift (sigma n) t []) as [[[s' ch'] site]|] eqn:E.
      + destruct (step_measure _ _ _ _ _ _ E) as [L|(_ & rng & k & rest' & HA' & L0)]; [exact L|].
        exfalso. rewrite HA in HA'. injection HA' as -> _. exact (NW rng k eq_refl L0).
      + exfalso. unfold gstep, agof in *. destruct (nth_error _ t) as [th|]; [|discriminate HA].
        rewrite HA in E. destruct (exec _ _ _ _ _) as [[[g' pre] rs] site0]. discriminate E.
    - assert (Same : sigma (S n) = sigma n -> exists j, mlt (sigma (S j)) (sigma n)).
      { intros Es. destruct (IH (S n) t) as [j Hj].
        - rewrite Es. exact CP.
        - replace (S n + d)%nat with (n + S d)%nat by lia. exact Pk.
        - exists j. rewrite Es in Hj. exact Hj. }
      destruct (gstep strat shift (sigma n) (pick n) []) as [[[s' ch'] site]|] eqn:E.
      + destruct (step_measure _ _ _ _ _ _ E) as [L|(Es & _)].
        * exists n. cbn [sigma]. rewrite E. exact L.
        * apply Same. cbn [sigma]. rewrite E. exact Es.
      + apply Same. cbn [sigma]. rewrite E. reflexivity.
  Qed.

  Theorem grow_terminates : exists n, finished (sigma n) = true.
  Proof.
    assert (G : forall a b n, MA (sigma n) = a -> MB (sigma n) = b -> exists n', finished (sigma n') = true).
    { induction a as [a IHa] using lt_wf_ind. induction b as [b IHb] using lt_wf_ind. intros n Ea Eb.
      destruct (finished (sigma n)) eqn:F; [exists n; exact F|].
      destruct (grow_some_thread_progresses strat shift Hs progs Wf (sigma n) (sigma_reach n) F) as (t & m & rest & HA & NW).
      assert (Tl : (t < length progs)%nat).
      { rewrite <- (sigma_length n). apply nth_error_Some. unfold agof in HA. destruct (nth_error _ t); [discriminate | discriminate HA]. }
      destruct (Fair t n Tl) as (n' & Le & Pk).
      destruct (chase (n' - n) n t) as [j Hj].
      - exists m, rest. auto.
      - replace (n + (n' - n))%nat with n' by lia. exact Pk.
      - destruct Hj as [L|[E L]].
        + assert (L' : (MA (sigma (S j)) < a)%nat) by (rewrite <- Ea; exact L).
          exact (IHa (MA (sigma (S j))) L' (MB (sigma (S j))) (S j) eq_refl eq_refl).
        + assert (L' : (MB (sigma (S j)) < b)%nat) by (rewrite <- Eb; exact L).
          assert (E' : MA (sigma (S j)) = a) by (rewrite <- Ea; exact E).
          exact (IHb (MB (sigma (S j))) L' (S j) E' eq_refl). }
    exact (G _ _ 0%nat eq_refl eq_refl).
  Qed.
End Liveness.
