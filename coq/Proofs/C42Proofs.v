(* C42: proofs about Model/PoolAllocModel.v behind Props/Properties_C42.v *)
From Coq Require Import ZArith List Bool Lia Permutation.
From DV Require Import Base.MachInt Base.Sched Model.PoolAllocModel Model.C42Check.
Import ListNotations.
Local Open Scope Z_scope.
Ltac Zify.zify_post_hook ::= Z.div_mod_to_equations.

(* ------------------------------------------------------------------ pairwise byte-disjointness of blocks of width w *)
Definition disj (w p q : Z) : Prop := p + w <= q \/ q + w <= p.

Fixpoint pdisj (w : Z) (l : list Z) : Prop :=
  match l with
  | [] => True
  | x :: r => (forall y, In y r -> disj w x y) /\ pdisj w r
  end.

Lemma disj_sym w p q : disj w p q -> disj w q p.
Proof. unfold disj; lia. Qed.

Lemma pdisj_app w l1 l2 :
  pdisj w (l1 ++ l2) <-> pdisj w l1 /\ pdisj w l2 /\ (forall x y, In x l1 -> In y l2 -> disj w x y).
Proof.
  induction l1 as [|a l1 IH]; cbn [app pdisj].
  - split.
    + intros H. split; [exact I|]. split; [exact H|]. intros x y [].
    + intros (_ & H & _). exact H.
  - rewrite IH. split.
    + intros (Ha & H1 & H2 & H3). split; [split|split].
      * intros y Hy. apply Ha, in_or_app. left; exact Hy.
      * exact H1.
      * exact H2.
      * intros x y [<-|Hx] Hy.
        -- apply Ha, in_or_app. right; exact Hy.
        -- apply H3; assumption.
    + intros ((Ha & H1) & H2 & H3). split; [|split; [|split]].
      * intros y Hy. apply in_app_or in Hy as [Hy|Hy].
        -- apply Ha; exact Hy.
        -- apply H3; [left; reflexivity | exact Hy].
      * exact H1.
      * exact H2.
      * intros x y Hx Hy. apply H3; [right; exact Hx | exact Hy].
Qed.

Lemma pdisj_perm w l l' : Permutation l l' -> pdisj w l -> pdisj w l'.
Proof.
  induction 1 as [|x l l' P IH|x y l|l l' l'' P1 IH1 P2 IH2]; cbn [pdisj].
  - auto.
  - intros (Hx & Hl). split.
    + intros y Hy. apply Hx. eapply Permutation_in; [apply Permutation_sym; exact P | exact Hy].
    + apply IH; exact Hl.
  - intros (Hy & Hx & Hl). split; [|split].
    + intros z [<-|Hz]; [apply disj_sym, Hy; left; reflexivity | apply Hx; exact Hz].
    + intros z Hz. apply Hy; right; exact Hz.
    + exact Hl.
  - auto.
Qed.

Lemma pdisj_NoDup w l : 1 <= w -> pdisj w l -> NoDup l.
Proof.
  intros Hw; induction l as [|x l IH]; cbn [pdisj]; [constructor|].
  intros (Hx & Hl). constructor; [|apply IH; exact Hl].
  intros Hin. specialize (Hx x Hin). unfold disj in Hx. lia.
Qed.

Lemma pdisj_nth w l : pdisj w l -> forall i j p q, i <> j -> nth_error l i = Some p -> nth_error l j = Some q -> disj w p q.
Proof.
  induction l as [|x l IH]; cbn [pdisj]; intros H i j p q Hij Hi Hj.
  - destruct i; discriminate.
  - destruct H as (Hx & Hl). destruct i as [|i], j as [|j]; cbn [nth_error] in Hi, Hj.
    + exfalso; apply Hij; reflexivity.
    + injection Hi as <-. apply Hx. eapply nth_error_In; exact Hj.
    + injection Hj as <-. apply disj_sym, Hx. eapply nth_error_In; exact Hi.
    + eapply (IH Hl i j); [lia | exact Hi | exact Hj].
Qed.

Lemma take_nth_perm {A} i : forall (l : list A) y l', take_nth i l = Some (y, l') -> Permutation l (y :: l').
Proof.
  induction i as [|i IH]; intros [|x r] y l' E; cbn [take_nth] in E; try discriminate.
  - injection E as <- <-. apply Permutation_refl.
  - destruct (take_nth i r) as [[y0 r0]|] eqn:E1; [|discriminate]. injection E as <- <-.
    eapply perm_trans; [apply perm_skip, (IH _ _ _ E1) | apply perm_swap].
Qed.

(* ------------------------------------------------------------------ chunk arithmetic (no section: explicit hypotheses) *)
Definition posf (cs b : Z) (i : nat) : Z := b + Z.of_nat i * cs.

Lemma cpa_div cs asz : 1 <= cs <= asz -> cpa cs asz = asz / cs.
Proof. intros Hcs. unfold cpa. apply Z.quot_div_nonneg; lia. Qed.

Lemma cpa_pos cs asz : 1 <= cs <= asz -> 1 <= cpa cs asz.
Proof. intros Hcs. rewrite cpa_div by exact Hcs. pose proof (Z.div_str_pos asz cs). lia. Qed.

Lemma cpa_fit cs asz : 1 <= cs <= asz -> cpa cs asz * cs <= asz.
Proof. intros Hcs. rewrite cpa_div by exact Hcs. lia. Qed.

Lemma carve_spec cs n : forall b ch, carve cs n b ch = (b + Z.of_nat n * cs, ch ++ map (posf cs b) (seq 0 n)).
Proof.
  induction n as [|n IH]; intros b ch; cbn [carve].
  - cbn [seq map]. rewrite app_nil_r. f_equal. lia.
  - rewrite IH. f_equal; [lia|]. rewrite <- app_assoc. f_equal. cbn [seq map app]. f_equal.
    + unfold posf; lia.
    + rewrite <- seq_shift, map_map. apply map_ext. intros i. unfold posf. lia.
Qed.

Lemma positions_split cs asz b : 1 <= cs <= asz ->
  positions cs asz b = map (posf cs b) (seq 0 (Z.to_nat (cpa cs asz - 1))) ++ [b + Z.of_nat (Z.to_nat (cpa cs asz - 1)) * cs].
Proof.
  intros Hcs. pose proof (cpa_pos cs asz Hcs) as Hp. unfold positions.
  replace (Z.to_nat (cpa cs asz)) with (S (Z.to_nat (cpa cs asz - 1))) by lia.
  rewrite seq_S, map_app. reflexivity.
Qed.

Lemma positions_within cs asz b p : 1 <= cs <= asz -> In p (positions cs asz b) -> b <= p /\ p + cs <= b + asz.
Proof.
  intros Hcs. unfold positions. intros H. apply in_map_iff in H as (i & <- & Hi). apply in_seq in Hi.
  pose proof (cpa_fit cs asz Hcs). pose proof (cpa_pos cs asz Hcs).
  assert (E : (Z.of_nat i + 1) * cs <= cpa cs asz * cs) by (apply Z.mul_le_mono_nonneg_r; lia).
  assert (0 <= Z.of_nat i * cs) by (apply Z.mul_nonneg_nonneg; lia).
  lia.
Qed.

Lemma posf_pdisj cs b n : 1 <= cs -> forall s, pdisj cs (map (posf cs b) (seq s n)).
Proof.
  intros Hcs. induction n as [|n IH]; intros s; cbn [seq map pdisj]; [exact I|]. split; [|apply IH].
  intros y Hy. apply in_map_iff in Hy as (j & <- & Hj). apply in_seq in Hj. left. unfold posf.
  assert ((Z.of_nat s + 1) * cs <= Z.of_nat j * cs) by (apply Z.mul_le_mono_nonneg_r; lia). lia.
Qed.

Lemma flat_positions_pdisj cs asz l : 1 <= cs <= asz -> pdisj asz l -> pdisj cs (flat_map (positions cs asz) l).
Proof.
  intros Hcs. induction l as [|x l IH]; cbn [flat_map pdisj]; [auto|]. intros (Hx & Hl).
  apply pdisj_app. split; [exact (posf_pdisj cs x _ ltac:(lia) 0%nat) | split; [apply IH; exact Hl|]].
  intros p q Hp Hq. apply in_flat_map in Hq as (y & Hy & Hq).
  apply (positions_within cs asz _ _ Hcs) in Hp. apply (positions_within cs asz _ _ Hcs) in Hq.
  specialize (Hx y Hy). unfold disj in *. lia.
Qed.

Lemma flat_positions_length cs asz l : length (flat_map (positions cs asz) l) = (length l * Z.to_nat (cpa cs asz))%nat.
Proof.
  induction l as [|x l IH]; cbn [flat_map length]; [reflexivity|].
  rewrite app_length, IH. unfold positions. rewrite map_length, seq_length. lia.
Qed.

(* ------------------------------------------------------------------ the sequential allocator *)
Section PA.
  Variables cs asz : Z.
  Hypothesis Hcs : 1 <= cs <= asz.
  Variable allocf : list Z -> Z.
  Hypothesis allocf_fresh : forall live b, In b live -> allocf live + asz <= b \/ b + asz <= allocf live.

  Local Notation CPA := (cpa cs asz).
  Local Notation NCARVE := (Z.to_nat (cpa cs asz - 1)).
  Local Notation POS := (positions cs asz).
  Local Notation posf := (posf cs).

  (* what alloc() does, by case *)
  Lemma alloc_spec st p st' c : alloc cs asz allocf st = (p, st', c) ->
    (pa_chunks st = [] /\ pa_backing2 st = [] /\ c = true /\
       p = allocf (pa_slabs st) + Z.of_nat NCARVE * cs /\
       st' = PA (pa_backing st ++ [allocf (pa_slabs st)]) [] (map (posf (allocf (pa_slabs st))) (seq 0 NCARVE))
                (pa_slabs st ++ [allocf (pa_slabs st)]) (S (pa_ncalls st)))
    \/ (pa_chunks st = [] /\ c = false /\ exists b b2', pa_backing2 st = b2' ++ [b] /\
       p = b + Z.of_nat NCARVE * cs /\
       st' = PA (pa_backing st ++ [b]) b2' (map (posf b) (seq 0 NCARVE)) (pa_slabs st) (pa_ncalls st))
    \/ (c = false /\ exists ch', pa_chunks st = ch' ++ [p] /\
       st' = PA (pa_backing st) (pa_backing2 st) ch' (pa_slabs st) (pa_ncalls st)).
  Proof.
    unfold alloc, refill. destruct (pa_chunks st) as [|c0 ch] eqn:Ech.
    - destruct (pa_backing2 st) as [|z b2] eqn:Eb2; cbv beta match; rewrite carve_spec; cbn [fst snd app].
      + intros E. injection E as <- <- <-. left. repeat (split; [reflexivity|]). reflexivity.
      + intros E. injection E as <- <- <-. right; left. split; [reflexivity|]. split; [reflexivity|].
        exists (last (z :: b2) 0), (removelast (z :: b2)). split; [|split; reflexivity].
        apply (@app_removelast_last _ (z :: b2) 0). discriminate.
    - cbv beta match. intros E. injection E as <- <- <-. right; right. split; [reflexivity|].
      exists (removelast (c0 :: ch)). split; [|reflexivity].
      apply (@app_removelast_last _ (c0 :: ch) 0). discriminate.
  Qed.

  Record Inv (r : rstate) : Prop := mkInv {
    inv_slabs : pdisj asz (pa_slabs (rs_pa r));
    inv_back : Permutation (pa_backing (rs_pa r) ++ pa_backing2 (rs_pa r)) (pa_slabs (rs_pa r));
    inv_chunks : Permutation (rs_out r ++ pa_chunks (rs_pa r)) (flat_map POS (pa_backing (rs_pa r)));
    inv_ncalls : pa_ncalls (rs_pa r) = length (pa_slabs (rs_pa r));
    inv_ledger : forall k b, nth_error (pa_slabs (rs_pa r)) k = Some b -> b = allocf (firstn k (pa_slabs (rs_pa r)))
  }.

  Lemma inv_init : Inv rs_init.
  Proof.
    constructor; cbn.
    - exact I.
    - constructor.
    - constructor.
    - reflexivity.
    - intros [|k] b E; discriminate.
  Qed.

  Lemma ledger_snoc l : (forall k b, nth_error l k = Some b -> b = allocf (firstn k l)) ->
    forall k b, nth_error (l ++ [allocf l]) k = Some b -> b = allocf (firstn k (l ++ [allocf l])).
  Proof.
    intros Hl k b E. destruct (Nat.lt_ge_cases k (length l)) as [Hk|Hk].
    - rewrite nth_error_app1 in E by exact Hk. rewrite firstn_app.
      replace (k - length l)%nat with 0%nat by lia. cbn [firstn]. rewrite app_nil_r. apply Hl; exact E.
    - rewrite nth_error_app2 in E by exact Hk.
      destruct (k - length l)%nat as [|d] eqn:Ed; cbn [nth_error] in E.
      + injection E as <-. rewrite firstn_app, Ed. cbn [firstn]. rewrite app_nil_r.
        rewrite firstn_all2 by lia. reflexivity.
      + destruct d; discriminate.
  Qed.

  Lemma refill_perm (out M : list Z) (p : Z) (F : list Z) : Permutation (out ++ []) F -> Permutation ((out ++ [p]) ++ M) (F ++ (M ++ [p])).
  Proof.
    rewrite app_nil_r. intros H. rewrite <- app_assoc. apply Permutation_app; [exact H | apply Permutation_app_comm].
  Qed.

  Lemma inv_alloc r p st' c : Inv r -> alloc cs asz allocf (rs_pa r) = (p, st', c) -> Inv (RS st' (rs_out r ++ [p])).
  Proof.
    intros [Hs Hb Hc Hn Hl] E. destruct r as [st out]; cbn [rs_pa rs_out] in *.
    apply alloc_spec in E.
    destruct E as [(Ech & Eb2 & -> & -> & ->) | [(Ech & -> & b & b2' & Eb2 & -> & ->) | (-> & ch' & Ech & ->)]].
    - (* fresh slab from allocFunc *)
      rewrite Ech in Hc. rewrite Eb2, app_nil_r in Hb.
      constructor; cbn [rs_pa rs_out pa_slabs pa_backing pa_backing2 pa_chunks pa_ncalls].
      + apply pdisj_app. split; [exact Hs|]. split; [cbn; split; [intros y []|exact I]|].
        intros x y Hx [<-|[]]. destruct (allocf_fresh _ _ Hx); unfold disj; lia.
      + rewrite app_nil_r. apply Permutation_app_tail; exact Hb.
      + rewrite flat_map_app. cbn [flat_map]. rewrite app_nil_r, (positions_split cs asz _ Hcs).
        apply refill_perm; exact Hc.
      + rewrite app_length. cbn [length]. lia.
      + apply ledger_snoc; exact Hl.
    - (* slab recycled from backingAllocs2_ *)
      rewrite Ech in Hc. rewrite Eb2 in Hb.
      constructor; cbn [rs_pa rs_out pa_slabs pa_backing pa_backing2 pa_chunks pa_ncalls].
      + exact Hs.
      + eapply perm_trans; [|exact Hb]. rewrite <- app_assoc. apply Permutation_app_head, Permutation_app_comm.
      + rewrite flat_map_app. cbn [flat_map]. rewrite app_nil_r, (positions_split cs asz _ Hcs).
        apply refill_perm; exact Hc.
      + exact Hn.
      + exact Hl.
    - (* pop of the free list *)
      rewrite Ech in Hc.
      constructor; cbn [rs_pa rs_out pa_slabs pa_backing pa_backing2 pa_chunks pa_ncalls]; try assumption.
      eapply perm_trans; [|exact Hc]. rewrite <- app_assoc. apply Permutation_app_head, Permutation_app_comm.
  Qed.

  Lemma step_inv r o r' e : Inv r -> step_op cs asz allocf r o = Some (r', e) -> Inv r'.
  Proof.
    intros HI E. destruct o as [|i|]; cbn [step_op] in E.
    - destruct (alloc cs asz allocf (rs_pa r)) as [[p st'] c] eqn:Ea. injection E as <- _.
      eapply inv_alloc; [exact HI | exact Ea].
    - destruct (take_nth i (rs_out r)) as [[p out']|] eqn:Et; [|discriminate]. injection E as <- _.
      destruct HI as [Hs Hb Hc Hn Hl].
      constructor; cbn [rs_pa rs_out dealloc pa_slabs pa_backing pa_backing2 pa_chunks pa_ncalls]; try assumption.
      eapply perm_trans; [|exact Hc]. apply take_nth_perm in Et.
      eapply perm_trans; [|apply Permutation_app_tail, Permutation_sym; exact Et].
      rewrite app_assoc. cbn [app]. apply Permutation_sym, Permutation_cons_append.
    - injection E as <- _. destruct HI as [Hs Hb Hc Hn Hl].
      constructor; cbn [rs_pa rs_out clear pa_slabs pa_backing pa_backing2 pa_chunks pa_ncalls]; try assumption.
      + destruct (length (pa_backing2 (rs_pa r)) <? length (pa_backing (rs_pa r)))%nat; cbn [app].
        * exact Hb.
        * eapply perm_trans; [apply Permutation_app_comm | exact Hb].
      + constructor.
  Qed.

  Lemma run_inv ops : forall r r', Inv r -> run cs asz allocf ops r = Some r' -> Inv r'.
  Proof.
    induction ops as [|o ops IH]; intros r r' HI E; cbn [run] in E.
    - injection E as <-. exact HI.
    - destruct (step_op cs asz allocf r o) as [[r1 e]|] eqn:Es; [|discriminate].
      eapply IH; [eapply step_inv; [exact HI | exact Es] | exact E].
  Qed.

  Lemma reachable_inv ops r : run cs asz allocf ops rs_init = Some r -> Inv r.
  Proof. apply run_inv, inv_init. Qed.

  (* ---- consequences of the invariant *)
  Definition in_slab (st : pa) (p : Z) : Prop :=
    exists k b, nth_error (pa_slabs st) k = Some b /\ b = allocf (firstn k (pa_slabs st)) /\ b <= p /\ p + cs <= b + asz.

  Lemma inv_within r p : Inv r -> In p (rs_out r ++ pa_chunks (rs_pa r)) -> in_slab (rs_pa r) p.
  Proof.
    intros [Hs Hb Hc _ Hl] Hp. eapply Permutation_in in Hp; [|exact Hc].
    apply in_flat_map in Hp as (b & Hb1 & Hp).
    assert (Hin : In b (pa_slabs (rs_pa r))) by (eapply Permutation_in; [exact Hb | apply in_or_app; left; exact Hb1]).
    apply In_nth_error in Hin as (k & Hk). exists k, b. split; [exact Hk|]. split; [apply Hl; exact Hk|].
    apply (positions_within cs asz _ _ Hcs); exact Hp.
  Qed.

  Lemma inv_pdisj r : Inv r -> pdisj cs (rs_out r ++ pa_chunks (rs_pa r)).
  Proof.
    intros [Hs Hb Hc _ _]. eapply pdisj_perm; [apply Permutation_sym; exact Hc|].
    apply (flat_positions_pdisj cs asz _ Hcs).
    eapply pdisj_perm in Hs; [|apply Permutation_sym; exact Hb]. apply pdisj_app in Hs. tauto.
  Qed.

  Lemma step_alloc_inv r r' p c : step_op cs asz allocf r Alloc = Some (r', EvAlloc p c) ->
    alloc cs asz allocf (rs_pa r) = (p, rs_pa r', c) /\ rs_out r' = rs_out r ++ [p].
  Proof.
    cbn [step_op]. destruct (alloc cs asz allocf (rs_pa r)) as [[p0 st'] c0]. intros E.
    injection E as <- <- <-. split; reflexivity.
  Qed.

  Lemma within_proof ops r : run cs asz allocf ops rs_init = Some r ->
    (forall p, In p (rs_out r ++ pa_chunks (rs_pa r)) -> in_slab (rs_pa r) p) /\
    (forall r' p c, step_op cs asz allocf r Alloc = Some (r', EvAlloc p c) -> in_slab (rs_pa r') p).
  Proof.
    intros R. apply reachable_inv in R. split.
    - intros p Hp. apply inv_within; assumption.
    - intros r' p c E. pose proof (step_inv _ _ _ _ R E) as HI'. apply step_alloc_inv in E as (_ & Eo).
      apply inv_within; [exact HI'|]. rewrite Eo. apply in_or_app; left. apply in_or_app; right. left; reflexivity.
  Qed.

  Lemma disjoint_proof ops r : run cs asz allocf ops rs_init = Some r ->
    forall i j p q, i <> j -> nth_error (rs_out r ++ pa_chunks (rs_pa r)) i = Some p ->
      nth_error (rs_out r ++ pa_chunks (rs_pa r)) j = Some q -> p + cs <= q \/ q + cs <= p.
  Proof. intros R. apply reachable_inv, inv_pdisj in R. exact (pdisj_nth _ _ R). Qed.

  Lemma inv_out_nodup r : Inv r -> NoDup (rs_out r).
  Proof.
    intros HI. apply inv_pdisj, pdisj_app in HI as (H & _ & _). eapply pdisj_NoDup; [|exact H]. lia.
  Qed.

  Lemma no_double_proof ops r : run cs asz allocf ops rs_init = Some r ->
    NoDup (rs_out r) /\
    forall r' p c, step_op cs asz allocf r Alloc = Some (r', EvAlloc p c) -> ~ In p (rs_out r) /\ ~ In p (pa_chunks (rs_pa r')).
  Proof.
    intros R. apply reachable_inv in R. split; [apply inv_out_nodup; exact R|].
    intros r' p c E. pose proof (step_inv _ _ _ _ R E) as HI'. apply step_alloc_inv in E as (_ & Eo).
    apply inv_pdisj in HI'. apply pdisj_NoDup in HI'; [|lia]. rewrite Eo, <- app_assoc in HI'.
    apply NoDup_remove_2 in HI'. split; intros Hin; apply HI', in_or_app; [left | right]; exact Hin.
  Qed.

  Lemma reuse_proof ops r : run cs asz allocf ops rs_init = Some r ->
    forall r' p, step_op cs asz allocf r Alloc = Some (r', EvAlloc p true) ->
      pa_backing2 (rs_pa r) = [] /\ pa_chunks (rs_pa r) = [] /\
      Permutation (pa_backing (rs_pa r)) (pa_slabs (rs_pa r)) /\
      Permutation (rs_out r) (flat_map POS (pa_slabs (rs_pa r))) /\
      Z.of_nat (length (rs_out r)) = capacity cs asz (rs_pa r).
  Proof.
    intros R r' p E. apply reachable_inv in R. destruct R as [Hs Hb Hc Hn Hl].
    apply step_alloc_inv in E as (E & _). apply alloc_spec in E.
    destruct E as [(Ech & Eb2 & _) | [(_ & Ec & _) | (Ec & _)]]; try discriminate.
    rewrite Ech, app_nil_r in Hc. rewrite Eb2, app_nil_r in Hb.
    split; [exact Eb2|]. split; [exact Ech|]. split; [exact Hb|]. split.
    - eapply perm_trans; [exact Hc|]. apply Permutation_flat_map; exact Hb.
    - apply Permutation_length in Hc. rewrite Hc, flat_positions_length. unfold capacity. rewrite Eb2. cbn [length Nat.add].
      pose proof (cpa_pos cs asz Hcs). rewrite Nat2Z.inj_mul, Z2Nat.id by lia. reflexivity.
  Qed.

  (* length of outstanding is bounded by the capacity; used for the quantitative corollary *)
  Lemma alloc_total r : exists r' p c, step_op cs asz allocf r Alloc = Some (r', EvAlloc p c).
  Proof.
    cbn [step_op]. destruct (alloc cs asz allocf (rs_pa r)) as [[p st'] c]. eexists _, _, _. reflexivity.
  Qed.

  Lemma alloc_below_capacity r r' p c : Inv r ->
    (length (rs_out r) < length (pa_slabs (rs_pa r)) * Z.to_nat CPA)%nat ->
    step_op cs asz allocf r Alloc = Some (r', EvAlloc p c) ->
    c = false /\ pa_slabs (rs_pa r') = pa_slabs (rs_pa r) /\ pa_ncalls (rs_pa r') = pa_ncalls (rs_pa r) /\
    length (rs_out r') = S (length (rs_out r)).
  Proof.
    intros [Hs Hb Hc Hn Hl] Hlt E. apply step_alloc_inv in E as (E & Eo).
    rewrite Eo, app_length. cbn [length]. apply alloc_spec in E.
    destruct E as [(Ech & Eb2 & _) | [(_ & -> & b & b2' & _ & _ & ->) | (-> & ch' & _ & ->)]].
    - exfalso. rewrite Ech, app_nil_r in Hc. rewrite Eb2, app_nil_r in Hb.
      apply Permutation_length in Hc. apply Permutation_length in Hb. rewrite flat_positions_length in Hc. lia.
    - cbn [pa_slabs pa_ncalls]. repeat split; lia.
    - cbn [pa_slabs pa_ncalls]. repeat split; lia.
  Qed.

  Lemma allocs_below_capacity k : forall r, Inv r ->
    (length (rs_out r) + k <= length (pa_slabs (rs_pa r)) * Z.to_nat CPA)%nat ->
    exists r', run cs asz allocf (repeat Alloc k) r = Some r' /\
      pa_slabs (rs_pa r') = pa_slabs (rs_pa r) /\ pa_ncalls (rs_pa r') = pa_ncalls (rs_pa r) /\
      length (rs_out r') = (length (rs_out r) + k)%nat.
  Proof.
    induction k as [|k IH]; intros r HI Hle; cbn [repeat run].
    - exists r. repeat split; lia.
    - destruct (alloc_total r) as (r1 & p & c & E). rewrite E.
      pose proof (step_inv _ _ _ _ HI E) as HI1.
      destruct (alloc_below_capacity _ _ _ _ HI ltac:(lia) E) as (_ & Es & En & Eo).
      destruct (IH r1 HI1) as (r' & Er & Es' & En' & Eo'); [rewrite Es, Eo; lia|].
      exists r'. split; [exact Er|]. rewrite Es', En', Eo', Es, En, Eo. repeat split; lia.
  Qed.

  Lemma after_clear_proof ops r : run cs asz allocf ops rs_init = Some r ->
    forall k, (k <= length (pa_slabs (rs_pa r)) * Z.to_nat CPA)%nat ->
    exists r', run cs asz allocf (Clear :: repeat Alloc k) r = Some r' /\
      pa_slabs (rs_pa r') = pa_slabs (rs_pa r) /\ pa_ncalls (rs_pa r') = pa_ncalls (rs_pa r) /\
      length (rs_out r') = k.
  Proof.
    intros R k Hk. apply reachable_inv in R. cbn [run step_op].
    assert (HI : Inv (RS (clear (rs_pa r)) [])) by (eapply step_inv with (o := Clear); [exact R | reflexivity]).
    destruct (allocs_below_capacity k _ HI) as (r' & Er & Es & En & Eo); [cbn; lia|].
    exists r'. split; [exact Er|]. cbn in Es, En, Eo. repeat split; assumption.
  Qed.

  Lemma dtor_proof ops r : run cs asz allocf ops rs_init = Some r ->
    Permutation (dtor_calls (rs_pa r)) (pa_slabs (rs_pa r)) /\ NoDup (pa_slabs (rs_pa r)) /\
    pa_ncalls (rs_pa r) = length (pa_slabs (rs_pa r)).
  Proof.
    intros R. apply reachable_inv in R. destruct R as [Hs Hb Hc Hn Hl].
    split; [exact Hb|]. split; [eapply pdisj_NoDup; [|exact Hs]; lia | exact Hn].
  Qed.
End PA.

(* ------------------------------------------------------------------ the unguarded size_t arithmetic *)
Lemma guard_sufficient_proof cs asz : 1 <= cs <= asz -> asz < 2 ^ 64 ->
  cpa64 cs asz = cpa cs asz /\ loop_bound64 cs asz = cpa cs asz - 1 /\ first_bad_push64 cs asz = None.
Proof.
  intros Hcs Hb. pose proof (cpa_pos cs asz Hcs) as Hp. pose proof (cpa_fit cs asz Hcs) as Hf.
  assert (Hle : cpa cs asz <= asz).
  { assert (cpa cs asz * 1 <= cpa cs asz * cs) by (apply Z.mul_le_mono_nonneg_l; lia). lia. }
  assert (E1 : cpa64 cs asz = cpa cs asz) by (unfold cpa64; fold (cpa cs asz); apply wrap_small; lia).
  assert (E2 : loop_bound64 cs asz = cpa cs asz - 1) by (unfold loop_bound64; rewrite E1; apply wrap_small; lia).
  split; [exact E1|]. split; [exact E2|].
  unfold first_bad_push64. fold (cpa cs asz). rewrite E2.
  destruct (cpa cs asz <? cpa cs asz - 1) eqn:E; [apply Z.ltb_lt in E; lia | reflexivity].
Qed.

Lemma guard_needed_proof cs asz : 0 <= asz < cs ->
  cpa64 cs asz = 0 /\ loop_bound64 cs asz = 2 ^ 64 - 1 /\ first_bad_push64 cs asz = Some 0 /\
  forall b, pushed64 cs b 0 = b /\ ~ (pushed64 cs b 0 + cs <= b + asz).
Proof.
  intros H. assert (Q : Z.quot asz cs = 0) by (apply Z.quot_small; lia).
  assert (E1 : cpa64 cs asz = 0) by (unfold cpa64; rewrite Q; reflexivity).
  assert (E2 : loop_bound64 cs asz = 2 ^ 64 - 1) by (unfold loop_bound64; rewrite E1; reflexivity).
  split; [exact E1|]. split; [exact E2|]. split.
  - unfold first_bad_push64. rewrite Q, E2. reflexivity.
  - intros b. unfold pushed64. split; lia.
Qed.

(* ------------------------------------------------------------------ the oracle used by the correspondence *)
Lemma oracle_pa_ge live : forall b, In b live -> b + slab_stride <= oracle_pa live.
Proof.
  unfold oracle_pa. induction live as [|a l IH]; intros b Hb; [destruct Hb|].
  cbn [fold_right]. destruct Hb as [<-|Hb]; [lia|]. specialize (IH b Hb). lia.
Qed.

Lemma oracle_pa_fresh asz : asz <= slab_stride ->
  forall live b, In b live -> oracle_pa live + asz <= b \/ b + asz <= oracle_pa live.
Proof. intros Ha live b Hb. pose proof (oracle_pa_ge live b Hb). right. lia. Qed.

(* ------------------------------------------------------------------ the spin lock *)
Lemma crit_set_try l : forall t, nth_error l t = Some LTry ->
  length (filter is_crit (set_nth t LCrit l)) = S (length (filter is_crit l)).
Proof.
  induction l as [|x l IH]; intros [|t] E; cbn [nth_error] in E; try discriminate.
  - injection E as ->. reflexivity.
  - cbn [set_nth filter]. destruct (is_crit x); cbn [length]; rewrite (IH t E); reflexivity.
Qed.

Lemma crit_set_crit l : forall t, nth_error l t = Some LCrit ->
  S (length (filter is_crit (set_nth t LTry l))) = length (filter is_crit l).
Proof.
  induction l as [|x l IH]; intros [|t] E; cbn [nth_error] in E; try discriminate.
  - injection E as ->. reflexivity.
  - cbn [set_nth filter]. destruct (is_crit x); cbn [length]; rewrite <- (IH t E); reflexivity.
Qed.

Definition lock_inv (s : lstate) : Prop :=
  (ls_lock s = 0 /\ in_crit s = 0%nat) \/ (ls_lock s = 1 /\ in_crit s = 1%nat).

Lemma lock_inv_init n : lock_inv (lock_init n).
Proof.
  left. split; [reflexivity|]. unfold in_crit, lock_init; cbn [ls_pcs].
  induction n as [|n IH]; [reflexivity | exact IH].
Qed.

Lemma lock_inv_step s t ch s' ch' site : lock_inv s -> lock_step s t ch = Some (s', ch', site) -> lock_inv s'.
Proof.
  unfold lock_step, lock_inv, in_crit. intros HI E.
  destruct (nth_error (ls_pcs s) t) as [[|]|] eqn:En; [| |discriminate]; injection E as <- _ _; cbn [ls_lock ls_pcs].
  - destruct HI as [(H0 & Hc)|(H1 & Hc)].
    + rewrite H0. cbn. right. split; [reflexivity|]. rewrite (crit_set_try _ _ En), Hc. reflexivity.
    + rewrite H1. cbn. right. split; [reflexivity | exact Hc].
  - pose proof (crit_set_crit _ _ En) as Hs. left. split; [reflexivity|].
    destruct HI as [(_ & Hc)|(_ & Hc)]; lia.
Qed.

Lemma lock_mutex_proof n s : reach lock_step (lock_init n) s ->
  (in_crit s <= 1)%nat /\ (ls_lock s = 0 <-> in_crit s = 0%nat).
Proof.
  intros R. assert (HI : lock_inv s).
  { revert s R. apply reach_inv; [apply lock_inv_init | exact lock_inv_step]. }
  destruct HI as [(H0 & Hc)|(H1 & Hc)]; rewrite Hc; split; try lia; split; intros; try lia; congruence.
Qed.
