(* C21: CompletionEvent / Latch never miss a wake-up -- invariant over all interleavings of Model/EventModel.v *)
From Coq Require Import ZArith List Bool Lia.
From DV Require Import Base.MachInt Base.Sched Model.EventModel.
Import ListNotations.
Local Open Scope Z_scope.

Definition in32 (z : Z) : Prop := - 2 ^ 31 <= z < 2 ^ 31.

(* programs in the domain of the positive theorem: every waiter waits for the same completed value [tgt]
   (1 for CompletionEvent, 0 for Latch), latch operations only on a latch *)
Definition wf_op (tgt : Z) (o : op) : Prop :=
  match o with
  | ONotify v => in32 v
  | OWait v => v = tgt
  | OWaitFor v _ => v = tgt
  | OCountDown n => tgt = 0
  | OTryWait => True
  | OArrive => tgt = 0
  | OCompleted => True
  | OReset => tgt <> 0
  end.

Definition wf_pc (tgt : Z) (p : pc) : Prop :=
  match p with
  | PNotifyStore v => in32 v
  | PWaitLoad v _ => v = tgt
  | PWaitFutex v cur _ => v = tgt /\ cur <> v
  | PBlocked v _ => v = tgt
  | PWoken v _ => v = tgt
  | PWfLoad0 v _ => v = tgt
  | PCdSub n => tgt = 0
  | PArrSub => tgt = 0
  | PResetStore => tgt <> 0
  | _ => True
  end.

Definition wf_thread (tgt : Z) (th : thread) : Prop := wf_pc tgt (tpc th) /\ Forall (wf_op tgt) (prog th).

Definition is_blocked (th : thread) : Prop := match tpc th with PBlocked _ _ => True | _ => False end.
Definition is_pending (th : thread) : Prop := match tpc th with PNotifyStore _ | PNotifyWake => True | _ => False end.

(* a wake-up is never lost: whenever some thread sleeps in the futex while the word already holds the value it
   waits for, some thread is committed to a wake-all (it is between its store and its futex wake) *)
Definition NoLost (tgt : Z) (s : state) : Prop :=
  (exists th, In th (threads s) /\ is_blocked th) -> word s = tgt -> exists th, In th (threads s) /\ is_pending th.

Definition Inv (tgt : Z) (s : state) : Prop :=
  in32 (word s) /\ Forall (wf_thread tgt) (threads s) /\ NoLost tgt s.

(* ---------- list helpers ---------- *)
Lemma in_set_nth {A} (l : list A) t x y : In y (set_nth l t x) -> y = x \/ In y l.
Proof.
  revert t; induction l as [|a l IH]; intros t H; [destruct t; contradiction|].
  destruct t as [|t]; cbn in H.
  - destruct H as [<-|H]; [left; reflexivity | right; right; exact H].
  - destruct H as [<-|H]; [right; left; reflexivity|]. destruct (IH _ H) as [->|H']; [left; reflexivity | right; right; exact H'].
Qed.

Lemma set_nth_in {A} (l : list A) t x old : nth_error l t = Some old -> In x (set_nth l t x).
Proof.
  revert t; induction l as [|a l IH]; intros t H; [destruct t; discriminate|].
  destruct t as [|t]; cbn in *; [left; reflexivity | right; eapply IH; exact H].
Qed.

Lemma set_nth_keeps {A} (l : list A) t x old y : nth_error l t = Some old -> In y l -> y <> old -> In y (set_nth l t x).
Proof.
  revert t; induction l as [|a l IH]; intros t N H D; [contradiction|].
  destruct t as [|t]; cbn in *.
  - injection N as ->. destruct H as [->|H]; [contradiction | right; exact H].
  - destruct H as [->|H]; [left; reflexivity | right; eapply IH; eauto].
Qed.

Lemma Forall_set_nth {A} (P : A -> Prop) l t x : Forall P l -> P x -> Forall P (set_nth l t x).
Proof.
  intros F Px. apply Forall_forall. intros y Hy. destruct (in_set_nth _ _ _ _ Hy) as [->|H]; [exact Px|].
  rewrite Forall_forall in F. apply F, H.
Qed.

Lemma nth_error_In' {A} (l : list A) t x : nth_error l t = Some x -> In x l.
Proof. apply nth_error_In. Qed.

(* ---------- thread helpers ---------- *)
Lemma wf_entry tgt o : wf_op tgt o -> wf_pc tgt (entry o).
Proof. destruct o; cbn; auto. Qed.

Lemma wf_next tgt th : Forall (wf_op tgt) (prog th) -> wf_thread tgt (next th).
Proof.
  intros F. unfold next. destruct (prog th) as [|o r]; split; cbn; auto.
  - apply wf_entry. inversion F; assumption.
  - inversion F; assumption.
Qed.

Lemma wf_goto tgt th p : wf_pc tgt p -> Forall (wf_op tgt) (prog th) -> wf_thread tgt (goto th p).
Proof. intros; split; assumption. Qed.

Lemma next_not_blocked th : ~ is_blocked (next th).
Proof. unfold next, is_blocked. destruct (prog th) as [|o r]; cbn; [auto|]. destruct o; cbn; auto. Qed.

Lemma prog_logr th a b : prog (logr th a b) = prog th. Proof. reflexivity. Qed.
Lemma prog_logk th k w : prog (logk th k w) = prog th. Proof. unfold logk. destruct (k =? 2); reflexivity. Qed.

Lemma in32_wrap_s z : in32 (wrap_s 32 z).
Proof. unfold in32. pose proof (wrap_s_range 32 z ltac:(lia)) as R. replace (32 - 1) with 31 in R by lia. exact R. Qed.

Lemma in32_0 : in32 0.
Proof. unfold in32. change (2 ^ 31) with 2147483648. lia. Qed.

Lemma sub32_in32 a b : in32 (sub32 a b).
Proof. apply in32_wrap_s. Qed.

Lemma sub32_one w : in32 w -> sub32 w 1 = 0 -> w = 1.
Proof.
  unfold sub32, in32. intros R E.
  assert (E1 : wrap_s 32 1 = 1) by (apply wrap_s_small; simpl; lia). rewrite E1 in E.
  unfold wrap_s in E. replace (32 - 1) with 31 in E by lia.
  assert (P : 2 ^ 32 = 2 * 2 ^ 31) by reflexivity.
  assert (P31 : 0 < 2 ^ 31) by (apply pow2_pos; lia).
  destruct (Z.eq_dec w (- 2 ^ 31)) as [->|N].
  - replace (- 2 ^ 31 - 1 + 2 ^ 31) with (-1) in E by lia.
    replace ((-1) mod 2 ^ 32) with (2 ^ 32 - 1) in E by reflexivity. lia.
  - rewrite Z.mod_small in E by lia. lia.
Qed.

Lemma sub32_zero w n : in32 w -> sub32 w n = 0 -> w = wrap_s 32 n.
Proof.
  unfold sub32, in32. intros R E. pose proof (in32_wrap_s n) as Rn. unfold in32 in Rn.
  set (m := wrap_s 32 n) in *. unfold wrap_s in E. replace (32 - 1) with 31 in E by lia.
  assert (P : 2 ^ 32 = 2 * 2 ^ 31) by reflexivity.
  assert (P31 : 0 < 2 ^ 31) by (apply pow2_pos; lia).
  assert (M : (w - m + 2 ^ 31) mod 2 ^ 32 = 2 ^ 31) by lia.
  destruct (Z_lt_le_dec (w - m + 2 ^ 31) 0) as [L|L].
  - assert (E2 : (w - m + 2 ^ 31) mod 2 ^ 32 = w - m + 2 ^ 31 + 2 ^ 32).
    { symmetry. apply Z.mod_unique with (q := -1); lia. }
    lia.
  - destruct (Z_lt_le_dec (w - m + 2 ^ 31) (2 ^ 32)) as [L2|L2].
    + rewrite Z.mod_small in M by lia. lia.
    + assert (E2 : (w - m + 2 ^ 31) mod 2 ^ 32 = w - m + 2 ^ 31 - 2 ^ 32).
      { symmetry. apply Z.mod_unique with (q := 1); lia. }
      lia.
Qed.

Lemma sub32_pos w : in32 w -> 1 < w -> sub32 w 1 <> 0.
Proof. intros R L E. apply sub32_one in E; [lia | exact R]. Qed.

(* ---------- the inductive step ---------- *)
Section Step.
  Variable tgt : Z.

  (* pattern (c): the word is unchanged and the stepping thread was neither blocked-to-be nor pending *)
  Lemma nolost_same_word s t th x :
    nth_error (threads s) t = Some th -> ~ is_pending th -> ~ is_blocked x ->
    NoLost tgt s -> NoLost tgt (ST (word s) (timeouts s) (set_nth (threads s) t x)).
  Proof.
    intros N NP NB H [b [Hb Bb]] Hw. cbn in *.
    destruct (in_set_nth _ _ _ _ Hb) as [->|Hb']; [contradiction|].
    destruct (H (ex_intro _ b (conj Hb' Bb)) Hw) as [p [Hp Pp]].
    exists p. split; [|exact Pp]. eapply set_nth_keeps; eauto. intros ->. contradiction.
  Qed.

  (* pattern (a): the stepping thread becomes pending *)
  Lemma nolost_pending s t th x w' :
    nth_error (threads s) t = Some th -> is_pending x ->
    NoLost tgt (ST w' (timeouts s) (set_nth (threads s) t x)).
  Proof. intros N P _ _. exists x. split; [eapply set_nth_in; eauto | exact P]. Qed.

  (* pattern (b): the new word differs from the target *)
  Lemma nolost_other_word w' tm ths : w' <> tgt -> NoLost tgt (ST w' tm ths).
  Proof. intros D _ E. cbn in E. contradiction. Qed.

  Lemma wake_all_not_blocked ths y : In y (wake_all ths) -> ~ is_blocked y.
  Proof.
    unfold wake_all. intros H. apply in_map_iff in H. destruct H as [th [<- _]].
    unfold is_blocked. destruct (tpc th) eqn:P; cbn; rewrite ?P; auto.
  Qed.

  Lemma wake_all_wf ths : Forall (wf_thread tgt) ths -> Forall (wf_thread tgt) (wake_all ths).
  Proof.
    intros F. unfold wake_all. apply Forall_forall. intros y Hy. apply in_map_iff in Hy. destruct Hy as [th [<- Hth]].
    rewrite Forall_forall in F. specialize (F _ Hth). destruct F as [Fp Fo].
    destruct (tpc th) eqn:P; try (split; [rewrite P; exact Fp | exact Fo]).
    split; cbn; [exact Fp | exact Fo].
  Qed.

  Ltac fin P := first [ solve [unfold is_pending; rewrite P; auto] | solve [apply next_not_blocked] | solve [cbn; auto] ].

  Lemma step_inv s t ch s' ch' site : Inv tgt s -> step s t ch = Some (s', ch', site) -> Inv tgt s'.
  Proof.
    intros (Rw & F & NL) E. unfold step in E.
    destruct (nth_error (threads s) t) as [th|] eqn:N; [|discriminate].
    pose proof (nth_error_In' _ _ _ N) as Hin.
    pose proof F as F'. rewrite Forall_forall in F'. destruct (F' _ Hin) as [Wp Wo].
    destruct (tpc th) eqn:P; cbn in Wp.
    - (* PStart *) injection E as <- _ _. split; [exact Rw|]. split.
      + apply Forall_set_nth; [exact F | apply wf_next; exact Wo].
      + apply nolost_same_word with (th := th); auto; fin P.
    - (* PNotifyStore *) injection E as <- _ _. split; [exact Wp|]. split.
      + apply Forall_set_nth; [exact F | apply wf_goto; cbn; auto].
      + eapply nolost_pending; eauto. cbn. auto.
    - (* PNotifyWake *) injection E as <- _ _. split; [exact Rw|]. split.
      + apply Forall_set_nth; [apply wake_all_wf; exact F | apply wf_next; exact Wo].
      + intros [b [Hb Bb]] _. cbn in Hb. exfalso.
        destruct (in_set_nth _ _ _ _ Hb) as [->|Hb']; [exact (next_not_blocked _ Bb) | exact (wake_all_not_blocked _ _ Hb' Bb)].
    - (* PWaitLoad *) destruct (word s =? v) eqn:Ew; injection E as <- _ _; (split; [exact Rw|]); split.
      + apply Forall_set_nth; [exact F | apply wf_next; rewrite prog_logk; exact Wo].
      + apply nolost_same_word with (th := th); auto; fin P.
      + apply Forall_set_nth; [exact F|]. apply wf_goto; [|exact Wo]. cbn. apply Z.eqb_neq in Ew. split; [exact Wp | exact Ew].
      + apply nolost_same_word with (th := th); auto; fin P.
    - (* PWaitFutex *) destruct Wp as [Wv Wc]. destruct (word s =? cur) eqn:Ew; injection E as <- _ _; (split; [exact Rw|]); split.
      + apply Forall_set_nth; [exact F | apply wf_goto; cbn; auto].
      + apply Z.eqb_eq in Ew. apply nolost_other_word. lia.
      + apply Forall_set_nth; [exact F | apply wf_goto; cbn; auto].
      + apply nolost_same_word with (th := th); auto; fin P.
    - (* PBlocked *) destruct ((kind =? 1) && timeouts s); [|discriminate]. injection E as <- _ _. split; [exact Rw|]. split.
      + apply Forall_set_nth; [exact F | apply wf_next; exact Wo].
      + apply nolost_same_word with (th := th); auto; fin P.
    - (* PWoken *) injection E as <- _ _. split; [exact Rw|]. split.
      + apply Forall_set_nth; [exact F | apply wf_goto; cbn; auto].
      + apply nolost_same_word with (th := th); auto; fin P.
    - (* PWfLoad0 *) destruct (word s =? v) eqn:Ew; [|destruct pos]; injection E as <- _ _; (split; [exact Rw|]); split.
      + apply Forall_set_nth; [exact F | apply wf_next; exact Wo].
      + apply nolost_same_word with (th := th); auto; fin P.
      + apply Forall_set_nth; [exact F | apply wf_goto; cbn; auto].
      + apply nolost_same_word with (th := th); auto; fin P.
      + apply Forall_set_nth; [exact F | apply wf_next; exact Wo].
      + apply nolost_same_word with (th := th); auto; fin P.
    - (* PCdSub *) pose proof Wp as T0. destruct (word s =? wrap_s 32 n) eqn:Ew; injection E as <- _ _; (split; [apply sub32_in32|]); split.
      + apply Forall_set_nth; [exact F | apply wf_goto; cbn; [apply in32_0 | exact Wo]].
      + eapply nolost_pending; eauto. cbn. auto.
      + apply Forall_set_nth; [exact F | apply wf_next; exact Wo].
      + apply nolost_other_word. rewrite T0. intros Z0. apply sub32_zero in Z0; [|exact Rw]. apply Z.eqb_neq in Ew. contradiction.
    - (* PTwLoad *) injection E as <- _ _. split; [exact Rw|]. split.
      + apply Forall_set_nth; [exact F | apply wf_next; exact Wo].
      + apply nolost_same_word with (th := th); auto; fin P.
    - (* PArrSub *) destruct (1 <? word s) eqn:Ew; injection E as <- _ _; (split; [apply sub32_in32|]); split.
      + apply Forall_set_nth; [exact F | apply wf_goto; cbn; auto].
      + apply nolost_other_word. rewrite Wp. apply sub32_pos; [exact Rw | apply Z.ltb_lt; exact Ew].
      + apply Forall_set_nth; [exact F | apply wf_goto; cbn; [apply in32_0 | exact Wo]].
      + eapply nolost_pending; eauto. cbn. auto.
    - (* PComplLoad *) injection E as <- _ _. split; [exact Rw|]. split.
      + apply Forall_set_nth; [exact F | apply wf_next; exact Wo].
      + apply nolost_same_word with (th := th); auto; fin P.
    - (* PResetStore *) injection E as <- _ _. split; [apply in32_0|]. split.
      + apply Forall_set_nth; [exact F | apply wf_next; exact Wo].
      + apply nolost_other_word. auto.
    - discriminate.
  Qed.

  Lemma init_inv w0 tm progs : in32 w0 -> Forall (Forall (wf_op tgt)) progs -> Inv tgt (init w0 tm progs).
  Proof.
    intros R F. split; [exact R|]. split.
    - unfold init; cbn. apply Forall_forall. intros th Hth. apply in_map_iff in Hth. destruct Hth as [p [<- Hp]].
      rewrite Forall_forall in F. split; cbn; auto.
    - intros [b [Hb Bb]] _. exfalso. unfold init in Hb; cbn in Hb. apply in_map_iff in Hb. destruct Hb as [p [<- _]]. exact Bb.
  Qed.

  Theorem no_lost_wakeup w0 tm progs s :
    in32 w0 -> Forall (Forall (wf_op tgt)) progs -> reach step (init w0 tm progs) s -> Inv tgt s.
  Proof.
    intros R F Re. apply (reach_inv step (Inv tgt) (init w0 tm progs)); [apply init_inv; assumption | | exact Re].
    intros s1 t ch s1' ch' site I E. eapply step_inv; eauto.
  Qed.

  (* corollary in the shape users care about: in a state where nobody is about to wake (e.g. every other thread has
     finished or sleeps), no waiter sleeps while the word holds the value it waits for *)
  Corollary quiescent_not_lost w0 tm progs s :
    in32 w0 -> Forall (Forall (wf_op tgt)) progs -> reach step (init w0 tm progs) s ->
    (forall th, In th (threads s) -> ~ is_pending th) ->
    forall th, In th (threads s) -> is_blocked th -> word s <> tgt.
  Proof.
    intros R F Re NP th Hth B E. destruct (no_lost_wakeup _ _ _ _ R F Re) as (_ & _ & NL).
    destruct (NL (ex_intro _ th (conj Hth B)) E) as [p [Hp Pp]]. exact (NP p Hp Pp).
  Qed.

  (* every blocked waiter waits for tgt (so "the value it waits for" above is tgt) *)
  Corollary blocked_waits_for_tgt w0 tm progs s th v b :
    in32 w0 -> Forall (Forall (wf_op tgt)) progs -> reach step (init w0 tm progs) s ->
    In th (threads s) -> tpc th = PBlocked v b -> v = tgt.
  Proof.
    intros R F Re Hth P. destruct (no_lost_wakeup _ _ _ _ R F Re) as (_ & W & _).
    rewrite Forall_forall in W. destruct (W _ Hth) as [Wp _]. rewrite P in Wp. exact Wp.
  Qed.
End Step.

(* safety half: wait(v) returns only at a load that read v (by construction of the step function) *)
Lemma wait_returns_only_when_complete s t ch s' ch' site th v kind :
  nth_error (threads s) t = Some th -> tpc th = PWaitLoad v kind ->
  step s t ch = Some (s', ch', site) ->
  forall th', nth_error (threads s') t = Some th' ->
  (exists b, tpc th' = PWaitFutex v (word s) b) \/ word s = v.
Proof.
  intros N P E th' N'. unfold step in E. rewrite N, P in E.
  destruct (word s =? v) eqn:Ew; [right; apply Z.eqb_eq; exact Ew|].
  left. injection E as <- _ _. cbn in N'.
  assert (th' = goto th (PWaitFutex v (word s) kind)).
  { revert N N'. generalize (threads s). intros l. revert t. induction l as [|a l IH]; intros [|t] N N'; cbn in *; try discriminate.
    - congruence.
    - eapply IH; eauto. }
  subst th'. exists kind. reflexivity.
Qed.

(* ---------- regression witness of the former defect (fixed in /repo by "fix: Latch::count_down(n) ...") ----------
   Latch l(3); a waiter parked in wait(); count_down(3): with the repaired comparison the waiter is released. *)
Definition former_witness_progs : list (list op) := [[OWait 0]; [OCountDown 3]].
Definition former_witness_sched : list Z := [0; 0; 0; 1; 1; 0; 0; 0; 0; 0; 0; 0; 0; 0; 0].

Lemma former_witness_completes :
  let '(s, tr, st) := run_event 20 3 false former_witness_progs former_witness_sched in
  st = SDone /\ word s = 0.
Proof. vm_compute. split; reflexivity. Qed.
