(* C34: MpmcRingBuffer is an exactly-once bounded FIFO -- invariant over all interleavings of Model/MpmcModel.v *)
From Coq Require Import ZArith List Bool Lia Permutation.
From DV Require Import Base.MachInt Base.Sched Base.Life Model.MpmcModel.
From DV Require Proofs.C35Proofs.
Import ListNotations.
Local Open Scope Z_scope.

Definition zlen {A} (l : list A) : Z := Z.of_nat (length l).
Lemma zlen_app {A} (a b : list A) : zlen (a ++ b) = zlen a + zlen b.
Proof. unfold zlen. rewrite app_length. lia. Qed.
Lemma zlen_nonneg {A} (l : list A) : 0 <= zlen l. Proof. unfold zlen. lia. Qed.
Lemma zlen_map {A B} (f : A -> B) l : zlen (map f l) = zlen l.
Proof. unfold zlen. rewrite map_length. reflexivity. Qed.

(* ---- arithmetic ---- *)
Lemma rw_mod n i : 0 < n -> ring_wrap n i = i mod n.
Proof. intros. apply C35Proofs.ring_wrap_mod. assumption. Qed.

Lemma mod_window n a p q : 0 < n -> a <= p < a + n -> a <= q < a + n -> p mod n = q mod n -> p = q.
Proof. apply C35Proofs.mod_window. Qed.

Lemma two62 : 2 ^ 62 < 2 ^ 63 /\ 2 ^ 63 < 2 ^ 64 /\ 0 < 2 ^ 62. Proof. repeat split; reflexivity. Qed.

Lemma u64_small z : 0 <= z < 2 ^ 62 -> u64 z = z.
Proof. intros. unfold u64. apply wrap_small. pose proof two62. lia. Qed.

Lemma sdiff_small a b : 0 <= a < 2 ^ 62 -> 0 <= b < 2 ^ 62 -> sdiff a b = a - b.
Proof.
  intros Ha Hb. unfold sdiff. pose proof two62 as (P1 & P2 & P3).
  change (2 ^ 63) with (2 ^ (64 - 1)) in P1.
  rewrite (wrap_s_small 64 a), (wrap_s_small 64 b) by lia. apply wrap_s_small; lia.
Qed.

(* ---- thread list ---- *)
Lemma nth_error_set_nth_eq {A} (l : list A) t x old : nth_error l t = Some old -> nth_error (set_nth l t x) t = Some x.
Proof.
  revert t; induction l as [|a l IH]; intros [|t] H; cbn in *; try discriminate; [reflexivity | eapply IH; eauto].
Qed.
Lemma nth_error_set_nth_neq {A} (l : list A) t t' x : t <> t' -> nth_error (set_nth l t x) t' = nth_error l t'.
Proof.
  revert t t'; induction l as [|a l IH]; intros [|t] [|t'] H; cbn; try reflexivity; try congruence. apply IH. congruence.
Qed.

(* ================= the invariant ================= *)
(* the position a slot currently serves, read off its sequence number and ghost phase *)
Definition cur (sl : slot) : Z :=
  match ph sl with Free | Claimed _ | Written _ => seq sl | Full | Taking _ _ | Taken _ => seq sl - 1 end.

Definition gval (gp : list (Z * Z)) (p : Z) : Z := snd (nth (Z.to_nat p) gp (0, 0)).

Definition slot_ok (n hd tl : Z) (gp : list (Z * Z)) (l : ledger) (i : Z) (sl : slot) : Prop :=
  cur sl mod n = i /\ 0 <= cur sl /\
  match ph sl with
  | Free => tl <= cur sl < hd + n /\ is_live (lget l i) = false
  | Claimed _ => hd <= cur sl < tl /\ is_live (lget l i) = false
  | Written _ => hd <= cur sl < tl /\ lget l i = Alive /\ val sl = gval gp (cur sl)
  | Full => hd <= cur sl < tl /\ lget l i = Alive /\ val sl = gval gp (cur sl)
  | Taking _ moved => cur sl < hd /\ tl <= cur sl + n /\ lget l i = (if moved then MovedFrom else Alive) /\ val sl = gval gp (cur sl)
  | Taken _ => cur sl < hd /\ tl <= cur sl + n /\ is_live (lget l i) = false
  end.

Definition qpos (e : Z * (Z * Z)) : Z := fst (snd e).
Definition qval (e : Z * (Z * Z)) : Z := snd (snd e).
Definition taking_or_taken (sl : slot) : Prop := match ph sl with Taking _ _ | Taken _ => True | _ => False end.

Definition Glob (s : state) : Prop :=
  2 <= N s /\ 0 <= head s <= tail s /\ tail s <= head s + N s /\
  zlen (gpush s) = tail s /\
  (forall i, 0 <= i < N s -> slot_ok (N s) (head s) (tail s) (gpush s) (led s) i (slots s i)) /\
  (forall e, In e (gpopped s) -> 0 <= qpos e < head s /\ qpos e < cur (slots s (qpos e mod N s)) /\ qval e = gval (gpush s) (qpos e)) /\
  NoDup (map qpos (gpopped s)) /\
  (forall p, 0 <= p < head s -> In p (map qpos (gpopped s)) \/
             (cur (slots s (p mod N s)) = p /\ taking_or_taken (slots s (p mod N s)))) /\
  l_errs (led s) = [].

Definition owns (t : nat) (sl : slot) : Prop :=
  match ph sl with Claimed t' | Written t' | Taking t' _ | Taken t' => t' = t | _ => False end.

(* what thread t knows at each program point *)
Definition Loc (s : state) (t : nat) (p : pc) : Prop :=
  let n := N s in
  let S := fun x => slots s (x mod n) in
  match p with
  | PStart | PDone | PPushLoadTail _ | PPopLoadHead => True
  | PBLoadTail vs => vs <> []
  | PPushLoadSeq v t0 => 0 <= t0 <= tail s
  | PPushCas v t0 => 0 <= t0 <= tail s /\ t0 <= seq (S t0)
  | PPushWrite v t0 => 0 <= t0 /\ ph (S t0) = Claimed t /\ cur (S t0) = t0 /\ nth (Z.to_nat t0) (gpush s) (0, 0) = (Z.of_nat t, v)
  | PPushStoreSeq v t0 => 0 <= t0 /\ ph (S t0) = Written t /\ cur (S t0) = t0
  | PPopLoadTail h0 => 0 <= h0 <= head s
  | PPopLoadSeq h0 => 0 <= h0 <= head s
  | PPopCas h0 => 0 <= h0 <= head s /\ h0 + 1 <= seq (S h0)
  | PPopRead h0 => 0 <= h0 /\ ph (S h0) = Taking t false /\ cur (S h0) = h0
  | PPopDestroy h0 v => 0 <= h0 /\ ph (S h0) = Taking t true /\ cur (S h0) = h0 /\ v = gval (gpush s) h0
  | PPopStoreSeq h0 v => 0 <= h0 /\ ph (S h0) = Taken t /\ cur (S h0) = h0 /\ v = gval (gpush s) h0
  | PBLoadSeq vs t0 i => 0 <= t0 <= tail s /\ 0 <= i < zlen vs /\ zlen vs <= n /\
                         forall j, 0 <= j < i -> t0 + j <= seq (S (t0 + j))
  | PBCas vs t0 avail => 0 <= t0 <= tail s /\ 0 < avail <= zlen vs /\ zlen vs <= n /\
                         forall j, 0 <= j < avail -> t0 + j <= seq (S (t0 + j))
  | PBWrite vs t0 i avail => 0 <= t0 /\ 0 <= i < avail /\ avail <= zlen vs /\ zlen vs <= n /\
      forall j, i <= j < avail -> ph (S (t0 + j)) = Claimed t /\ cur (S (t0 + j)) = t0 + j /\
                                  nth (Z.to_nat (t0 + j)) (gpush s) (0, 0) = (Z.of_nat t, nth (Z.to_nat j) vs 0)
  | PBStoreSeq vs t0 i avail => 0 <= t0 /\ 0 <= i < avail /\ avail <= zlen vs /\ zlen vs <= n /\
      ph (S (t0 + i)) = Written t /\ cur (S (t0 + i)) = t0 + i /\
      forall j, i < j < avail -> ph (S (t0 + j)) = Claimed t /\ cur (S (t0 + j)) = t0 + j /\
                                 nth (Z.to_nat (t0 + j)) (gpush s) (0, 0) = (Z.of_nat t, nth (Z.to_nat j) vs 0)
  end.

Definition Inv (s : state) : Prop :=
  Glob s /\ forall t th, nth_error (threads s) t = Some th -> Loc s t (tpc th).

(* ---- frame: what a step of another thread may change ---- *)
Definition Frame (s s' : state) (t' : nat) : Prop :=
  N s' = N s /\ tail s <= tail s' /\ head s <= head s' /\
  (exists more, gpush s' = gpush s ++ more) /\
  (forall i, 0 <= i < N s -> seq (slots s i) <= seq (slots s' i)) /\
  (forall i, 0 <= i < N s -> slots s' i = slots s i \/ ph (slots s i) = Free \/ ph (slots s i) = Full \/ owns t' (slots s i)).

Lemma owns_excl t t' sl : owns t sl -> t <> t' -> ~ (ph sl = Free \/ ph sl = Full \/ owns t' sl).
Proof. unfold owns. destruct (ph sl); intros H D [E|[E|E]]; try discriminate; try contradiction; congruence. Qed.

Lemma frame_keeps s s' t t' i : Frame s s' t' -> t <> t' -> 0 <= i < N s -> owns t (slots s i) -> slots s' i = slots s i.
Proof.
  intros (_ & _ & _ & _ & _ & F) D Hi O.
  destruct (F i Hi) as [E|E]; [exact E|].
  exfalso. exact (owns_excl _ _ _ O D E).
Qed.

Lemma Loc_frame s s' t t' p : Glob s -> Frame s s' t' -> t <> t' -> Loc s t p -> Loc s' t p.
Proof.
  intros Gs Fr D L. pose proof Fr as (En & Lt & Lh & [more Eg] & Ms & _).
  destruct Gs as (Hn & Hht & Hb & Hlen & Hsl & _).
  assert (KEEP : forall x, owns t (slots s (x mod N s)) -> slots s' (x mod N s) = slots s (x mod N s)).
  { intros x O. eapply frame_keeps; eauto. apply Z.mod_pos_bound. lia. }
  assert (NTH : forall x d, 0 <= x < tail s -> nth (Z.to_nat x) (gpush s') d = nth (Z.to_nat x) (gpush s) d).
  { intros x d Hx. rewrite Eg. apply app_nth1. unfold zlen in Hlen. lia. }
  assert (CLM : forall x, 0 <= x -> (exists u, ph (slots s (x mod N s)) = Claimed u \/ ph (slots s (x mod N s)) = Written u) -> cur (slots s (x mod N s)) = x -> x < tail s).
  { intros x Hx [u Hu] Hc. assert (Hm : 0 <= x mod N s < N s) by (apply Z.mod_pos_bound; lia).
    specialize (Hsl _ Hm). destruct Hsl as (_ & _ & Hp). rewrite Hc in Hp. destruct Hu as [Hu|Hu]; rewrite Hu in Hp; lia. }
  unfold Loc in *. rewrite En. cbv zeta in *.
  destruct p; try exact I.
  - (* PPushLoadSeq *) lia.
  - (* PPushCas *) destruct L as [B S0]. split; [lia|]. eapply Z.le_trans; [exact S0 | apply Ms; apply Z.mod_pos_bound; lia].
  - (* PPushWrite *) destruct L as (B & P & C & G0). assert (O : owns t (slots s (t0 mod N s))) by (unfold owns; rewrite P; reflexivity).
    rewrite (KEEP _ O). rewrite NTH; [tauto|]. split; [lia|]. apply CLM; [lia | eexists; left; exact P | exact C].
  - (* PPushStoreSeq *) destruct L as (B & P & C). assert (O : owns t (slots s (t0 mod N s))) by (unfold owns; rewrite P; reflexivity).
    rewrite (KEEP _ O). tauto.
  - (* PPopLoadTail *) lia.
  - (* PPopLoadSeq *) lia.
  - (* PPopCas *) destruct L as [B S0]. split; [lia|]. eapply Z.le_trans; [exact S0 | apply Ms; apply Z.mod_pos_bound; lia].
  - (* PPopRead *) destruct L as (B & P & C). assert (O : owns t (slots s (h0 mod N s))) by (unfold owns; rewrite P; reflexivity).
    rewrite (KEEP _ O). tauto.
  - (* PPopDestroy *) destruct L as (B & P & C & V). assert (O : owns t (slots s (h0 mod N s))) by (unfold owns; rewrite P; reflexivity).
    rewrite (KEEP _ O). split; [exact B|]. split; [exact P|]. split; [exact C|].
    unfold gval. rewrite NTH; [exact V|].
    assert (Hm : 0 <= h0 mod N s < N s) by (apply Z.mod_pos_bound; lia).
    specialize (Hsl _ Hm). destruct Hsl as (_ & _ & Hp). rewrite C, P in Hp. lia.
  - (* PPopStoreSeq *) destruct L as (B & P & C & V). assert (O : owns t (slots s (h0 mod N s))) by (unfold owns; rewrite P; reflexivity).
    rewrite (KEEP _ O). split; [exact B|]. split; [exact P|]. split; [exact C|].
    unfold gval. rewrite NTH; [exact V|].
    assert (Hm : 0 <= h0 mod N s < N s) by (apply Z.mod_pos_bound; lia).
    specialize (Hsl _ Hm). destruct Hsl as (_ & _ & Hp). rewrite C, P in Hp. lia.
  - (* PBLoadTail *) exact L.
  - (* PBLoadSeq *) destruct L as (B & Bi & Bn & S0). split; [lia|]. split; [exact Bi|]. split; [exact Bn|].
    intros j Hj. eapply Z.le_trans; [apply S0; exact Hj | apply Ms; apply Z.mod_pos_bound; lia].
  - (* PBCas *) destruct L as (B & Bi & Bn & S0). split; [lia|]. split; [exact Bi|]. split; [exact Bn|].
    intros j Hj. eapply Z.le_trans; [apply S0; exact Hj | apply Ms; apply Z.mod_pos_bound; lia].
  - (* PBWrite *) destruct L as (B & Bi & Ba & Bn & S0). split; [exact B|]. split; [exact Bi|]. split; [exact Ba|]. split; [exact Bn|].
    intros j Hj. destruct (S0 j Hj) as (P & C & G0).
    assert (O : owns t (slots s ((t0 + j) mod N s))) by (unfold owns; rewrite P; reflexivity).
    rewrite (KEEP _ O). rewrite NTH; [tauto|]. split; [lia|]. apply CLM; [lia | eexists; left; exact P | exact C].
  - (* PBStoreSeq *) destruct L as (B & Bi & Ba & Bn & P0 & C0 & S0). split; [exact B|]. split; [exact Bi|]. split; [exact Ba|]. split; [exact Bn|].
    assert (O0 : owns t (slots s ((t0 + i) mod N s))) by (unfold owns; rewrite P0; reflexivity).
    rewrite (KEEP _ O0). split; [exact P0|]. split; [exact C0|].
    intros j Hj. destruct (S0 j Hj) as (P & C & G0).
    assert (O : owns t (slots s ((t0 + j) mod N s))) by (unfold owns; rewrite P; reflexivity).
    rewrite (KEEP _ O). rewrite NTH; [tauto|]. split; [lia|]. apply CLM; [lia | eexists; left; exact P | exact C].
Qed.

Lemma idx_decomp n t0 i : 0 < n -> 0 <= i < n -> 0 <= (i - t0) mod n < n /\ i = (t0 + (i - t0) mod n) mod n.
Proof.
  intros Hn Hi. split; [apply Z.mod_pos_bound; exact Hn|].
  rewrite Zplus_mod_idemp_r. replace (t0 + (i - t0)) with i by lia. symmetry. apply Z.mod_small. exact Hi.
Qed.

Lemma idx_of n t0 j : 0 < n -> 0 <= j < n -> ((t0 + j) mod n - t0) mod n = j.
Proof.
  intros Hn Hj. rewrite Zminus_mod_idemp_l. replace (t0 + j - t0) with j by lia. apply Z.mod_small. exact Hj.
Qed.

Lemma gval_app gp more p : 0 <= p < zlen gp -> gval (gp ++ more) p = gval gp p.
Proof. intros H. unfold gval. rewrite app_nth1; [reflexivity|]. unfold zlen in H. lia. Qed.

(* a slot whose sequence number has reached t0+j while tail = t0 is free for position t0+j *)
Lemma claim_free s j :
  Glob s -> 0 <= j < N s -> tail s + j <= seq (slots s ((tail s + j) mod N s)) ->
  ph (slots s ((tail s + j) mod N s)) = Free /\ cur (slots s ((tail s + j) mod N s)) = tail s + j.
Proof.
  intros (Hn & Hht & Hb & Hlen & Hsl & _) Hj Hs.
  assert (Hm : 0 <= (tail s + j) mod N s < N s) by (apply Z.mod_pos_bound; lia).
  specialize (Hsl _ Hm). destruct Hsl as (Cm & C0 & Hp).
  set (sl := slots s ((tail s + j) mod N s)) in *.
  unfold cur in *. destruct (ph sl) eqn:P.
  - split; [reflexivity|]. apply (mod_window (N s) (tail s)); [lia | lia | lia | exact Cm].
  - exfalso. lia.
  - exfalso. lia.
  - exfalso. assert (E : seq sl - 1 = tail s + j - 1) by lia. assert (j = 0) by lia. subst j.
    rewrite E in Cm. assert (tail s + 0 - 1 = tail s + 0); [|lia].
    apply (mod_window (N s) (tail s - 1)); [lia | lia | lia | exact Cm].
  - exfalso. assert (E : seq sl - 1 = tail s + j - 1) by lia. assert (j = 0) by lia. subst j.
    rewrite E in Cm. assert (tail s + 0 - 1 = tail s + 0); [|lia].
    apply (mod_window (N s) (tail s - 1)); [lia | lia | lia | exact Cm].
  - exfalso. assert (E : seq sl - 1 = tail s + j - 1) by lia. assert (j = 0) by lia. subst j.
    rewrite E in Cm. assert (tail s + 0 - 1 = tail s + 0); [|lia].
    apply (mod_window (N s) (tail s - 1)); [lia | lia | lia | exact Cm].
Qed.

(* a slot whose sequence number has reached head+1 while head = h0 is full for position h0 *)
Lemma take_full s :
  Glob s -> head s + 1 <= seq (slots s (head s mod N s)) ->
  ph (slots s (head s mod N s)) = Full /\ cur (slots s (head s mod N s)) = head s.
Proof.
  intros (Hn & Hht & Hb & Hlen & Hsl & _) Hs.
  assert (Hm : 0 <= head s mod N s < N s) by (apply Z.mod_pos_bound; lia).
  specialize (Hsl _ Hm). destruct Hsl as (Cm & C0 & Hp).
  set (sl := slots s (head s mod N s)) in *.
  unfold cur in *. destruct (ph sl) eqn:P.
  - exfalso. assert (seq sl = head s); [|lia]. apply (mod_window (N s) (head s)); [lia | lia | lia | exact Cm].
  - exfalso. assert (seq sl = head s); [|lia]. apply (mod_window (N s) (head s)); [lia | lia | lia | exact Cm].
  - exfalso. assert (seq sl = head s); [|lia]. apply (mod_window (N s) (head s)); [lia | lia | lia | exact Cm].
  - split; [reflexivity|]. apply (mod_window (N s) (head s)); [lia | lia | lia | exact Cm].
  - exfalso. assert (E : seq sl - 1 = head s - 1) by lia. rewrite E in Cm.
    assert (head s - 1 = head s); [|lia]. apply (mod_window (N s) (head s - 1)); [lia | lia | lia | exact Cm].
  - exfalso. assert (E : seq sl - 1 = head s - 1) by lia. rewrite E in Cm.
    assert (head s - 1 = head s); [|lia]. apply (mod_window (N s) (head s - 1)); [lia | lia | lia | exact Cm].
Qed.

Lemma cur_with_ph_free_claimed sl t : ph sl = Free -> cur (with_ph sl (Claimed t)) = cur sl.
Proof. intros P. unfold cur, with_ph. cbn. rewrite P. reflexivity. Qed.

(* ---- T1: a successful tail CAS claims the k positions tail .. tail+k-1 for thread t ---- *)
Lemma glob_claim s t k vs ths' :
  Glob s -> 0 < k <= N s -> zlen vs = k ->
  (forall j, 0 <= j < k -> tail s + j <= seq (slots s ((tail s + j) mod N s))) ->
  let sl' := mark_claimed (slots s) (N s) t (tail s) k in
  let gp' := gpush s ++ map (fun v => (Z.of_nat t, v)) vs in
  let s' := ST (N s) (head s) (tail s + k) sl' (led s) ths' gp' (gpopped s) in
  Glob s' /\ Frame s s' t /\
  (forall j, 0 <= j < k -> ph (sl' ((tail s + j) mod N s)) = Claimed t /\ cur (sl' ((tail s + j) mod N s)) = tail s + j /\
                           nth (Z.to_nat (tail s + j)) gp' (0, 0) = (Z.of_nat t, nth (Z.to_nat j) vs 0)).
Proof.
  intros Gs Hk Hv Hseq sl' gp' s'. pose proof Gs as (Hn & Hht & Hb & Hlen & Hsl & Q1 & Q2 & Q3 & Ok).
  assert (FREE : forall j, 0 <= j < k -> ph (slots s ((tail s + j) mod N s)) = Free /\ cur (slots s ((tail s + j) mod N s)) = tail s + j).
  { intros j Hj. apply claim_free; [exact Gs | lia | apply Hseq; exact Hj]. }
  assert (MARK : forall j, 0 <= j < k -> sl' ((tail s + j) mod N s) = with_ph (slots s ((tail s + j) mod N s)) (Claimed t)).
  { intros j Hj. unfold sl', mark_claimed. rewrite idx_of by lia. destruct (j <? k) eqn:E; [reflexivity|]. apply Z.ltb_ge in E. lia. }
  assert (UNMARK : forall i, k <= (i - tail s) mod N s -> sl' i = slots s i).
  { intros i Hge. unfold sl', mark_claimed. destruct ((i - tail s) mod N s <? k) eqn:E; [|reflexivity]. apply Z.ltb_lt in E. lia. }
  assert (MARKI : forall i, (i - tail s) mod N s < k -> sl' i = with_ph (slots s i) (Claimed t)).
  { intros i Hlt. unfold sl', mark_claimed. destruct ((i - tail s) mod N s <? k) eqn:E; [reflexivity|]. apply Z.ltb_ge in E. lia. }
  assert (FREEI : forall i, 0 <= i < N s -> (i - tail s) mod N s < k ->
                  ph (slots s i) = Free /\ cur (slots s i) = tail s + (i - tail s) mod N s).
  { intros i Hi Hlt. destruct (idx_decomp (N s) (tail s) i ltac:(lia) Hi) as [Bj Ej].
    set (j := (i - tail s) mod N s) in *. symmetry in Ej.
    pose proof (FREE j ltac:(lia)) as Fj. rewrite Ej in Fj. exact Fj. }
  assert (CURS : forall i, 0 <= i < N s -> cur (sl' i) = cur (slots s i)).
  { intros i Hi. destruct (Z_lt_ge_dec ((i - tail s) mod N s) k) as [L|Ge].
    - rewrite MARKI by exact L. apply cur_with_ph_free_claimed. apply FREEI; assumption.
    - rewrite UNMARK by lia. reflexivity. }
  assert (TLB : tail s + k <= head s + N s).
  { destruct (FREE (k - 1) ltac:(lia)) as [Pf Cf].
    assert (Hm : 0 <= (tail s + (k - 1)) mod N s < N s) by (apply Z.mod_pos_bound; lia).
    specialize (Hsl _ Hm). destruct Hsl as (_ & _ & Hp). rewrite Pf, Cf in Hp. lia. }
  split; [|split].
  - (* Glob s' *)
    unfold Glob, s'. cbn [N head tail slots led gpush gpopped].
    split; [exact Hn|]. split; [lia|]. split; [exact TLB|].
    split; [unfold gp'; rewrite zlen_app, zlen_map; lia|].
    split; [|split; [|split; [exact Q2|split; [|exact Ok]]]].
    + intros i Hi. destruct (idx_decomp (N s) (tail s) i ltac:(lia) Hi) as [Bj Ej].
      pose proof (Hsl i Hi) as (Cm & C0 & Hp).
      unfold slot_ok. rewrite CURS by exact Hi.
      split; [exact Cm|]. split; [exact C0|].
      destruct (Z_lt_ge_dec ((i - tail s) mod N s) k) as [L|Ge].
      * destruct (FREEI i Hi L) as [Pf Cf].
        rewrite MARKI by exact L.
        cbn [with_ph ph]. rewrite Pf in Hp. split; [lia | tauto].
      * rewrite UNMARK by lia.
        destruct (ph (slots s i)) eqn:P.
        -- split; [|tauto]. assert (cur (slots s i) = tail s + (i - tail s) mod N s); [|lia].
           apply (mod_window (N s) (tail s)); [lia | lia | lia |]. rewrite Cm. exact Ej.
        -- split; [lia | tauto].
        -- split; [lia|]. split; [tauto|]. unfold gp'. rewrite gval_app by lia. tauto.
        -- split; [lia|]. split; [tauto|]. unfold gp'. rewrite gval_app by lia. tauto.
        -- assert (cur (slots s i) + N s = tail s + (i - tail s) mod N s).
           { apply (mod_window (N s) (tail s)); [lia | lia | lia |]. rewrite C35Proofs.mod_plus_k by lia. rewrite Cm. exact Ej. }
           split; [tauto|]. split; [lia|]. split; [tauto|]. unfold gp'. rewrite gval_app by lia. tauto.
        -- assert (cur (slots s i) + N s = tail s + (i - tail s) mod N s).
           { apply (mod_window (N s) (tail s)); [lia | lia | lia |]. rewrite C35Proofs.mod_plus_k by lia. rewrite Cm. exact Ej. }
           split; [tauto|]. split; [lia | tauto].
    + intros e He. destruct (Q1 e He) as (Bp & Cp & Vp).
      assert (Hm : 0 <= qpos e mod N s < N s) by (apply Z.mod_pos_bound; lia).
      split; [exact Bp|]. split; [rewrite CURS by exact Hm; exact Cp|]. unfold gp'. rewrite gval_app by lia. exact Vp.
    + intros p Hp. destruct (Q3 p Hp) as [In1|[Cp Tp]]; [left; exact In1 | right].
      assert (Hm : 0 <= p mod N s < N s) by (apply Z.mod_pos_bound; lia).
      rewrite CURS by exact Hm. split; [exact Cp|].
      destruct (Z_lt_ge_dec ((p mod N s - tail s) mod N s) k) as [L|Ge].
      * exfalso. destruct (FREEI (p mod N s) Hm L) as [Pf _].
        unfold taking_or_taken in Tp. rewrite Pf in Tp. exact Tp.
      * rewrite UNMARK by lia. exact Tp.
  - (* Frame *)
    unfold Frame, s'. cbn [N head tail slots gpush].
    split; [reflexivity|]. split; [lia|]. split; [lia|]. split; [eexists; reflexivity|]. split.
    + intros i Hi. unfold sl', mark_claimed. destruct ((i - tail s) mod N s <? k); [cbn; lia | lia].
    + intros i Hi. unfold sl', mark_claimed. destruct ((i - tail s) mod N s <? k) eqn:E; [|left; reflexivity].
      right. left. apply Z.ltb_lt in E. apply (FREEI i Hi E).
  - intros j Hj. rewrite MARK by exact Hj. destruct (FREE j Hj) as [Pf Cf].
    split; [reflexivity|]. split; [rewrite cur_with_ph_free_claimed by exact Pf; exact Cf|].
    unfold gp'. rewrite app_nth2 by (unfold zlen in Hlen; lia).
    replace (Z.to_nat (tail s + j) - length (gpush s))%nat with (Z.to_nat j) by (unfold zlen in Hlen; lia).
    rewrite (nth_indep _ (0, 0) ((fun v => (Z.of_nat t, v)) 0)) by (rewrite map_length; unfold zlen in Hv; lia).
    rewrite map_nth. reflexivity.
Qed.

Lemma fupd_same {A} (f : Z -> A) i x : fupd f i x i = x.
Proof. unfold fupd, SpscModel.fupd. rewrite Z.eqb_refl. reflexivity. Qed.
Lemma fupd_other {A} (f : Z -> A) i x k : k <> i -> fupd f i x k = f k.
Proof. intros H. unfold fupd, SpscModel.fupd. destruct (k =? i) eqn:E; [apply Z.eqb_eq in E; contradiction | reflexivity]. Qed.

Lemma slot_ok_led n hd tl gp l l' i sl : lget l' i = lget l i -> slot_ok n hd tl gp l i sl -> slot_ok n hd tl gp l' i sl.
Proof. intros E. unfold slot_ok. rewrite E. tauto. Qed.

Lemma mod_idx n x : 2 <= n -> 0 <= x mod n < n. Proof. intros. apply Z.mod_pos_bound. lia. Qed.

(* ---- T2: placement-new into a claimed slot ---- *)
Lemma glob_write s t t0 v ths' :
  Glob s -> 0 <= t0 -> ph (slots s (t0 mod N s)) = Claimed t -> cur (slots s (t0 mod N s)) = t0 -> gval (gpush s) t0 = v ->
  let j := t0 mod N s in
  let sl' := fupd (slots s) j (with_val (slots s j) v (Written t)) in
  let s' := ST (N s) (head s) (tail s) sl' (construct KMove j (led s)) ths' (gpush s) (gpopped s) in
  Glob s' /\ Frame s s' t /\ ph (sl' j) = Written t /\ cur (sl' j) = t0.
Proof.
  intros Gs H0 P C V j sl' s'. pose proof Gs as (Hn & Hht & Hb & Hlen & Hsl & Q1 & Q2 & Q3 & Ok).
  assert (Hj : 0 <= j < N s) by (apply mod_idx; exact Hn).
  pose proof (Hsl j Hj) as (Cm & C0 & Hp). fold j in P, C. rewrite P in Hp.
  assert (CJ : cur (sl' j) = t0). { unfold sl'. rewrite fupd_same. unfold cur in *. cbn. rewrite P in C. exact C. }
  assert (CURS : forall i, cur (sl' i) = cur (slots s i)).
  { intros i. destruct (Z.eq_dec i j) as [->|D]; [rewrite CJ, C; reflexivity | unfold sl'; rewrite fupd_other by exact D; reflexivity]. }
  split; [|split; [|split]].
  - unfold Glob, s'. cbn [N head tail slots led gpush gpopped].
    split; [exact Hn|]. split; [exact Hht|]. split; [exact Hb|]. split; [exact Hlen|].
    split; [|split; [|split; [exact Q2|split]]].
    + intros i Hi. destruct (Z.eq_dec i j) as [->|D].
      * unfold slot_ok. rewrite CJ. unfold sl'. rewrite fupd_same. cbn [with_val ph val].
        split; [rewrite <- C; exact Cm|]. split; [exact H0|]. rewrite C in Hp.
        split; [tauto|]. split; [rewrite lget_construct, Z.eqb_refl; reflexivity | symmetry; exact V].
      * unfold sl'. rewrite fupd_other by exact D. apply (slot_ok_led _ _ _ _ (led s)); [|apply Hsl; exact Hi].
        rewrite lget_construct. destruct (j =? i) eqn:E; [apply Z.eqb_eq in E; congruence | reflexivity].
    + intros e He. rewrite CURS. apply Q1. exact He.
    + intros p Hp0. destruct (Q3 p Hp0) as [In1|[Cp Tp]]; [left; exact In1 | right]. rewrite CURS. split; [exact Cp|].
      destruct (Z.eq_dec (p mod N s) j) as [E|D]; [|unfold sl'; rewrite fupd_other by exact D; exact Tp].
      exfalso. rewrite E in Tp. unfold taking_or_taken in Tp. rewrite P in Tp. exact Tp.
    + rewrite errs_construct_fresh; [exact Ok | tauto].
  - unfold Frame, s'. cbn [N head tail slots gpush].
    split; [reflexivity|]. split; [lia|]. split; [lia|]. split; [exists []; rewrite app_nil_r; reflexivity|]. split.
    + intros i Hi. destruct (Z.eq_dec i j) as [->|D]; [unfold sl'; rewrite fupd_same; cbn; lia | unfold sl'; rewrite fupd_other by exact D; lia].
    + intros i Hi. destruct (Z.eq_dec i j) as [->|D]; [|left; unfold sl'; rewrite fupd_other by exact D; reflexivity].
      right. right. right. unfold owns. rewrite P. reflexivity.
  - unfold sl'. rewrite fupd_same. reflexivity.
  - exact CJ.
Qed.

(* ---- T3: publishing the sequence number of a written slot ---- *)
Lemma glob_publish s t t0 ths' :
  Glob s -> 0 <= t0 -> ph (slots s (t0 mod N s)) = Written t -> cur (slots s (t0 mod N s)) = t0 ->
  let j := t0 mod N s in
  let sl' := fupd (slots s) j (with_seq (slots s j) (t0 + 1) Full) in
  let s' := ST (N s) (head s) (tail s) sl' (led s) ths' (gpush s) (gpopped s) in
  Glob s' /\ Frame s s' t.
Proof.
  intros Gs H0 P C j sl' s'. pose proof Gs as (Hn & Hht & Hb & Hlen & Hsl & Q1 & Q2 & Q3 & Ok).
  assert (Hj : 0 <= j < N s) by (apply mod_idx; exact Hn).
  pose proof (Hsl j Hj) as (Cm & C0 & Hp). fold j in P, C. rewrite P in Hp.
  assert (CJ : cur (sl' j) = t0). { unfold sl'. rewrite fupd_same. unfold cur. cbn. lia. }
  assert (SJ : seq (slots s j) = t0). { unfold cur in C. rewrite P in C. exact C. }
  assert (CURS : forall i, cur (sl' i) = cur (slots s i)).
  { intros i. destruct (Z.eq_dec i j) as [->|D]; [rewrite CJ, C; reflexivity | unfold sl'; rewrite fupd_other by exact D; reflexivity]. }
  split.
  - unfold Glob, s'. cbn [N head tail slots led gpush gpopped].
    split; [exact Hn|]. split; [exact Hht|]. split; [exact Hb|]. split; [exact Hlen|].
    split; [|split; [|split; [exact Q2|split; [|exact Ok]]]].
    + intros i Hi. destruct (Z.eq_dec i j) as [->|D].
      * unfold slot_ok. rewrite CJ. unfold sl'. rewrite fupd_same. cbn [with_seq ph val].
        split; [rewrite <- C; exact Cm|]. split; [exact H0|]. rewrite C in Hp. exact Hp.
      * unfold sl'. rewrite fupd_other by exact D. apply Hsl. exact Hi.
    + intros e He. rewrite CURS. apply Q1. exact He.
    + intros p Hp0. destruct (Q3 p Hp0) as [In1|[Cp Tp]]; [left; exact In1 | right]. rewrite CURS. split; [exact Cp|].
      destruct (Z.eq_dec (p mod N s) j) as [E|D]; [|unfold sl'; rewrite fupd_other by exact D; exact Tp].
      exfalso. rewrite E in Tp. unfold taking_or_taken in Tp. rewrite P in Tp. exact Tp.
  - unfold Frame, s'. cbn [N head tail slots gpush].
    split; [reflexivity|]. split; [lia|]. split; [lia|]. split; [exists []; rewrite app_nil_r; reflexivity|]. split.
    + intros i Hi. destruct (Z.eq_dec i j) as [->|D]; [unfold sl'; rewrite fupd_same; cbn; lia | unfold sl'; rewrite fupd_other by exact D; lia].
    + intros i Hi. destruct (Z.eq_dec i j) as [->|D]; [|left; unfold sl'; rewrite fupd_other by exact D; reflexivity].
      right. right. right. unfold owns. rewrite P. reflexivity.
Qed.

(* ---- T4: a successful head CAS claims position head for thread t ---- *)
Lemma glob_take s t ths' :
  Glob s -> head s + 1 <= seq (slots s (head s mod N s)) ->
  let j := head s mod N s in
  let sl' := fupd (slots s) j (with_ph (slots s j) (Taking t false)) in
  let s' := ST (N s) (head s + 1) (tail s) sl' (led s) ths' (gpush s) (gpopped s) in
  Glob s' /\ Frame s s' t /\ ph (sl' j) = Taking t false /\ cur (sl' j) = head s.
Proof.
  intros Gs Hs j sl' s'. pose proof Gs as (Hn & Hht & Hb & Hlen & Hsl & Q1 & Q2 & Q3 & Ok).
  destruct (take_full s Gs Hs) as [P C]. fold j in P, C.
  assert (Hj : 0 <= j < N s) by (apply mod_idx; exact Hn).
  pose proof (Hsl j Hj) as (Cm & C0 & Hp). rewrite P in Hp.
  assert (CJ : cur (sl' j) = head s). { unfold sl'. rewrite fupd_same. unfold cur in *. cbn. rewrite P in C. exact C. }
  assert (CURS : forall i, cur (sl' i) = cur (slots s i)).
  { intros i. destruct (Z.eq_dec i j) as [->|D]; [rewrite CJ, C; reflexivity | unfold sl'; rewrite fupd_other by exact D; reflexivity]. }
  split; [|split; [|split]].
  - unfold Glob, s'. cbn [N head tail slots led gpush gpopped]. rewrite C in Hp.
    split; [exact Hn|]. split; [lia|]. split; [lia|]. split; [exact Hlen|].
    split; [|split; [|split; [exact Q2|split; [|exact Ok]]]].
    + intros i Hi. destruct (Z.eq_dec i j) as [->|D].
      * unfold slot_ok. rewrite CJ. unfold sl'. rewrite fupd_same. cbn [with_ph ph val].
        split; [rewrite <- C; exact Cm|]. split; [lia|]. split; [lia|]. split; [lia | tauto].
      * unfold sl'. rewrite fupd_other by exact D. pose proof (Hsl i Hi) as (Cmi & C0i & Hpi).
        unfold slot_ok. split; [exact Cmi|]. split; [exact C0i|].
        assert (NE : cur (slots s i) <> head s) by (intros E; apply D; rewrite <- Cmi, E; reflexivity).
        destruct (ph (slots s i)); split; [lia | tauto | lia | tauto | lia | tauto | lia | tauto | lia | tauto | lia | tauto].
    + intros e He. rewrite CURS. destruct (Q1 e He) as (B1 & B2 & B3). split; [lia | tauto].
    + intros p Hp0. destruct (Z.eq_dec p (head s)) as [->|NE].
      * right. fold j. rewrite CJ. split; [reflexivity|]. unfold taking_or_taken, sl'. rewrite fupd_same. exact I.
      * destruct (Q3 p ltac:(lia)) as [In1|[Cp Tp]]; [left; exact In1 | right]. rewrite CURS. split; [exact Cp|].
        destruct (Z.eq_dec (p mod N s) j) as [E|D]; [|unfold sl'; rewrite fupd_other by exact D; exact Tp].
        exfalso. rewrite E in Tp. unfold taking_or_taken in Tp. rewrite P in Tp. exact Tp.
  - unfold Frame, s'. cbn [N head tail slots gpush].
    split; [reflexivity|]. split; [lia|]. split; [lia|]. split; [exists []; rewrite app_nil_r; reflexivity|]. split.
    + intros i Hi. destruct (Z.eq_dec i j) as [->|D]; [unfold sl'; rewrite fupd_same; cbn; lia | unfold sl'; rewrite fupd_other by exact D; lia].
    + intros i Hi. destruct (Z.eq_dec i j) as [->|D]; [|left; unfold sl'; rewrite fupd_other by exact D; reflexivity].
      right. right. left. exact P.
  - unfold sl'. rewrite fupd_same. reflexivity.
  - exact CJ.
Qed.

Lemma NoDup_app_single {A} (l : list A) x : NoDup l -> ~ In x l -> NoDup (l ++ [x]).
Proof.
  induction l as [|a l IH]; intros ND NI; cbn; [constructor; [intros []|constructor]|].
  inversion ND as [|? ? Na Nl]; subst. constructor.
  - rewrite in_app_iff. intros [H|[H|[]]]; [contradiction | subst; apply NI; left; reflexivity].
  - apply IH; [exact Nl | intros H; apply NI; right; exact H].
Qed.

(* ---- T5a: move-out of the payload of a slot claimed by a pop ---- *)
Lemma glob_move s t h0 ths' :
  Glob s -> 0 <= h0 -> ph (slots s (h0 mod N s)) = Taking t false -> cur (slots s (h0 mod N s)) = h0 ->
  let j := h0 mod N s in
  let sl' := fupd (slots s) j (with_ph (slots s j) (Taking t true)) in
  let s' := ST (N s) (head s) (tail s) sl' (move_from j (led s)) ths' (gpush s) (gpopped s) in
  Glob s' /\ Frame s s' t /\ ph (sl' j) = Taking t true /\ cur (sl' j) = h0 /\ val (slots s j) = gval (gpush s) h0.
Proof.
  intros Gs H0 P C j sl' s'. pose proof Gs as (Hn & Hht & Hb & Hlen & Hsl & Q1 & Q2 & Q3 & Ok).
  assert (Hj : 0 <= j < N s) by (apply mod_idx; exact Hn).
  pose proof (Hsl j Hj) as (Cm & C0 & Hp). fold j in P, C. rewrite P in Hp. destruct Hp as (Hp1 & Hp2 & Al & Vl).
  assert (Lv : is_live (lget (led s) j) = true) by (rewrite Al; reflexivity).
  assert (CJ : cur (sl' j) = h0). { unfold sl'. rewrite fupd_same. unfold cur in *. cbn. rewrite P in C. exact C. }
  assert (CURS : forall i, cur (sl' i) = cur (slots s i)).
  { intros i. destruct (Z.eq_dec i j) as [->|D]; [rewrite CJ, C; reflexivity | unfold sl'; rewrite fupd_other by exact D; reflexivity]. }
  split; [|split; [|split; [|split]]].
  - unfold Glob, s'. cbn [N head tail slots led gpush gpopped].
    split; [exact Hn|]. split; [exact Hht|]. split; [exact Hb|]. split; [exact Hlen|].
    split; [|split; [|split; [exact Q2|split]]].
    + intros i Hi. destruct (Z.eq_dec i j) as [->|D].
      * unfold slot_ok. rewrite CJ. unfold sl'. rewrite fupd_same. cbn [with_ph ph val].
        split; [rewrite <- C; exact Cm|]. split; [exact H0|]. rewrite C in Hp1, Hp2, Vl.
        split; [exact Hp1|]. split; [exact Hp2|]. split; [|exact Vl].
        rewrite lget_move_from_live by exact Lv. rewrite Z.eqb_refl. reflexivity.
      * unfold sl'. rewrite fupd_other by exact D. apply (slot_ok_led _ _ _ _ (led s)); [|apply Hsl; exact Hi].
        rewrite lget_move_from_live by exact Lv. destruct (j =? i) eqn:E; [apply Z.eqb_eq in E; congruence | reflexivity].
    + intros e He. rewrite CURS. apply Q1. exact He.
    + intros p Hp0. destruct (Q3 p Hp0) as [In1|[Cp Tp]]; [left; exact In1 | right]. rewrite CURS. split; [exact Cp|].
      destruct (Z.eq_dec (p mod N s) j) as [E|D]; [|unfold sl'; rewrite fupd_other by exact D; exact Tp].
      rewrite E. unfold taking_or_taken, sl'. rewrite fupd_same. exact I.
    + rewrite errs_move_from_live by exact Lv. exact Ok.
  - unfold Frame, s'. cbn [N head tail slots gpush].
    split; [reflexivity|]. split; [lia|]. split; [lia|]. split; [exists []; rewrite app_nil_r; reflexivity|]. split.
    + intros i Hi. destruct (Z.eq_dec i j) as [->|D]; [unfold sl'; rewrite fupd_same; cbn; lia | unfold sl'; rewrite fupd_other by exact D; lia].
    + intros i Hi. destruct (Z.eq_dec i j) as [->|D]; [|left; unfold sl'; rewrite fupd_other by exact D; reflexivity].
      right. right. right. unfold owns. rewrite P. reflexivity.
  - unfold sl'. rewrite fupd_same. reflexivity.
  - exact CJ.
  - rewrite C in Vl. exact Vl.
Qed.

(* ---- T5b: destructor call on the moved-from payload: the slot payload is dead from here on, in particular before the
   sequence store that hands the slot back (T6 requires the phase Taken) ---- *)
Lemma glob_destroy s t h0 ths' :
  Glob s -> 0 <= h0 -> ph (slots s (h0 mod N s)) = Taking t true -> cur (slots s (h0 mod N s)) = h0 ->
  let j := h0 mod N s in
  let sl' := fupd (slots s) j (with_ph (slots s j) (Taken t)) in
  let s' := ST (N s) (head s) (tail s) sl' (destroy j (led s)) ths' (gpush s) (gpopped s) in
  Glob s' /\ Frame s s' t /\ ph (sl' j) = Taken t /\ cur (sl' j) = h0.
Proof.
  intros Gs H0 P C j sl' s'. pose proof Gs as (Hn & Hht & Hb & Hlen & Hsl & Q1 & Q2 & Q3 & Ok).
  assert (Hj : 0 <= j < N s) by (apply mod_idx; exact Hn).
  pose proof (Hsl j Hj) as (Cm & C0 & Hp). fold j in P, C. rewrite P in Hp. destruct Hp as (Hp1 & Hp2 & Al & Vl).
  assert (Lv : is_live (lget (led s) j) = true) by (rewrite Al; reflexivity).
  assert (CJ : cur (sl' j) = h0). { unfold sl'. rewrite fupd_same. unfold cur in *. cbn. rewrite P in C. exact C. }
  assert (CURS : forall i, cur (sl' i) = cur (slots s i)).
  { intros i. destruct (Z.eq_dec i j) as [->|D]; [rewrite CJ, C; reflexivity | unfold sl'; rewrite fupd_other by exact D; reflexivity]. }
  split; [|split; [|split]].
  - unfold Glob, s'. cbn [N head tail slots led gpush gpopped].
    split; [exact Hn|]. split; [exact Hht|]. split; [exact Hb|]. split; [exact Hlen|].
    split; [|split; [|split; [exact Q2|split]]].
    + intros i Hi. destruct (Z.eq_dec i j) as [->|D].
      * unfold slot_ok. rewrite CJ. unfold sl'. rewrite fupd_same. cbn [with_ph ph val].
        split; [rewrite <- C; exact Cm|]. split; [exact H0|]. rewrite C in Hp1, Hp2.
        split; [exact Hp1|]. split; [exact Hp2|]. rewrite lget_destroy_live by exact Lv. rewrite Z.eqb_refl. reflexivity.
      * unfold sl'. rewrite fupd_other by exact D. apply (slot_ok_led _ _ _ _ (led s)); [|apply Hsl; exact Hi].
        rewrite lget_destroy_live by exact Lv. destruct (j =? i) eqn:E; [apply Z.eqb_eq in E; congruence | reflexivity].
    + intros e He. rewrite CURS. apply Q1. exact He.
    + intros p Hp0. destruct (Q3 p Hp0) as [In1|[Cp Tp]]; [left; exact In1 | right]. rewrite CURS. split; [exact Cp|].
      destruct (Z.eq_dec (p mod N s) j) as [E|D]; [|unfold sl'; rewrite fupd_other by exact D; exact Tp].
      rewrite E. unfold taking_or_taken, sl'. rewrite fupd_same. exact I.
    + rewrite errs_destroy_live by exact Lv. exact Ok.
  - unfold Frame, s'. cbn [N head tail slots gpush].
    split; [reflexivity|]. split; [lia|]. split; [lia|]. split; [exists []; rewrite app_nil_r; reflexivity|]. split.
    + intros i Hi. destruct (Z.eq_dec i j) as [->|D]; [unfold sl'; rewrite fupd_same; cbn; lia | unfold sl'; rewrite fupd_other by exact D; lia].
    + intros i Hi. destruct (Z.eq_dec i j) as [->|D]; [|left; unfold sl'; rewrite fupd_other by exact D; reflexivity].
      right. right. right. unfold owns. rewrite P. reflexivity.
  - unfold sl'. rewrite fupd_same. reflexivity.
  - exact CJ.
Qed.

(* ---- T6: releasing a taken slot for the next lap ---- *)
Lemma glob_release s t h0 v ths' :
  Glob s -> 0 <= h0 -> ph (slots s (h0 mod N s)) = Taken t -> cur (slots s (h0 mod N s)) = h0 -> v = gval (gpush s) h0 ->
  let j := h0 mod N s in
  let sl' := fupd (slots s) j (with_seq (slots s j) (h0 + N s) Free) in
  let s' := ST (N s) (head s) (tail s) sl' (led s) ths' (gpush s) (gpopped s ++ [(Z.of_nat t, (h0, v))]) in
  Glob s' /\ Frame s s' t.
Proof.
  intros Gs H0 P C V j sl' s'. pose proof Gs as (Hn & Hht & Hb & Hlen & Hsl & Q1 & Q2 & Q3 & Ok).
  assert (Hj : 0 <= j < N s) by (apply mod_idx; exact Hn).
  pose proof (Hsl j Hj) as (Cm & C0 & Hp). fold j in P, C. rewrite P in Hp. destruct Hp as (Hp1 & Hp2 & Nl). rewrite C in Hp1, Hp2.
  assert (CJ : cur (sl' j) = h0 + N s). { unfold sl'. rewrite fupd_same. reflexivity. }
  assert (SJ : seq (slots s j) = h0 + 1). { unfold cur in C. rewrite P in C. lia. }
  assert (CURS : forall i, cur (slots s i) <= cur (sl' i)).
  { intros i. destruct (Z.eq_dec i j) as [->|D]; [rewrite CJ, C; lia | unfold sl'; rewrite fupd_other by exact D; lia]. }
  assert (NIN : ~ In h0 (map qpos (gpopped s))).
  { intros Hin. apply in_map_iff in Hin. destruct Hin as [e [Ee He]]. destruct (Q1 e He) as (_ & B2 & _).
    rewrite Ee in B2. fold j in B2. lia. }
  split.
  - unfold Glob, s'. cbn [N head tail slots led gpush gpopped].
    split; [exact Hn|]. split; [exact Hht|]. split; [exact Hb|]. split; [exact Hlen|].
    split; [|split; [|split; [|split; [|exact Ok]]]].
    + intros i Hi. destruct (Z.eq_dec i j) as [->|D].
      * unfold slot_ok. rewrite CJ. unfold sl'. rewrite fupd_same. cbn [with_seq ph val].
        split; [rewrite C35Proofs.mod_plus_k by lia; reflexivity|]. split; [lia|]. split; [lia | exact Nl].
      * unfold sl'. rewrite fupd_other by exact D. apply Hsl. exact Hi.
    + intros e He. apply in_app_or in He. destruct He as [He|[<-|[]]].
      * destruct (Q1 e He) as (B1 & B2 & B3). split; [exact B1|]. split; [|exact B3].
        eapply Z.lt_le_trans; [exact B2 | apply CURS].
      * unfold qpos, qval. cbn [fst snd]. split; [lia|]. split; [|exact V]. fold j. rewrite CJ. lia.
    + rewrite map_app. cbn [map]. unfold qpos at 2. cbn [fst snd].
      apply NoDup_app_single; [exact Q2 | exact NIN].
    + intros p Hp0. rewrite map_app, in_app_iff. cbn [map In]. unfold qpos at 2. cbn [fst snd].
      destruct (Q3 p Hp0) as [In1|[Cp Tp]]; [left; left; exact In1|].
      destruct (Z.eq_dec (p mod N s) j) as [E|D].
      * left. right. left. rewrite E, C in Cp. exact Cp.
      * right. unfold sl'. rewrite fupd_other by exact D. split; [exact Cp | exact Tp].
  - unfold Frame, s'. cbn [N head tail slots gpush].
    split; [reflexivity|]. split; [lia|]. split; [lia|]. split; [exists []; rewrite app_nil_r; reflexivity|]. split.
    + intros i Hi. destruct (Z.eq_dec i j) as [->|D]; [unfold sl'; rewrite fupd_same; cbn; lia | unfold sl'; rewrite fupd_other by exact D; lia].
    + intros i Hi. destruct (Z.eq_dec i j) as [->|D]; [|left; unfold sl'; rewrite fupd_other by exact D; reflexivity].
      right. right. right. unfold owns. rewrite P. reflexivity.
Qed.

Lemma frame_refl s s' t : N s' = N s -> head s' = head s -> tail s' = tail s -> slots s' = slots s -> gpush s' = gpush s ->
  Frame s s' t.
Proof.
  intros E1 E2 E3 E4 E5. unfold Frame. rewrite E1, E2, E3, E4, E5.
  split; [reflexivity|]. split; [lia|]. split; [lia|]. split; [exists []; rewrite app_nil_r; reflexivity|].
  split; [intros; lia | intros; left; reflexivity].
Qed.

Lemma inv_step_intro s s' t th th' :
  Inv s -> nth_error (threads s) t = Some th -> threads s' = set_nth (threads s) t th' ->
  Glob s' -> Frame s s' t -> Loc s' t (tpc th') -> Inv s'.
Proof.
  intros [Gs Ls] Nt Eth Gs' Fr Lt'. split; [exact Gs'|].
  intros t2 th2 N2. rewrite Eth in N2. destruct (Nat.eq_dec t2 t) as [->|D].
  - rewrite (nth_error_set_nth_eq _ _ _ _ Nt) in N2. injection N2 as <-. exact Lt'.
  - rewrite nth_error_set_nth_neq in N2 by congruence.
    eapply Loc_frame; [exact Gs | exact Fr | exact D | apply Ls; exact N2].
Qed.

(* a step that only moves thread t's program counter *)
Lemma inv_pc_only s t th th' :
  Inv s -> nth_error (threads s) t = Some th ->
  Loc s t (tpc th') ->
  Inv (ST (N s) (head s) (tail s) (slots s) (led s) (set_nth (threads s) t th') (gpush s) (gpopped s)).
Proof.
  intros I0 Nt L. eapply inv_step_intro; [exact I0 | exact Nt | reflexivity | exact (proj1 I0) | apply frame_refl; reflexivity | exact L].
Qed.

Lemma Loc_advance s t p r : Loc s t (tpc (advance p r)).
Proof.
  revert r; induction p as [|o p IH]; intros r; cbn [advance]; [exact I|].
  destruct o as [v| |vs]; [exact I | exact I|]. destruct vs as [|v0 vs]; [apply IH | cbn; discriminate].
Qed.
Lemma Loc_next s t th : Loc s t (tpc (next th)).
Proof. apply Loc_advance. Qed.

Lemma seq_bound s i : Glob s -> 0 <= i < N s -> 0 <= seq (slots s i) <= tail s + N s.
Proof.
  intros (Hn & Hht & Hb & Hlen & Hsl & _) Hi. destruct (Hsl i Hi) as (_ & C0 & Hp).
  unfold cur in *. destruct (ph (slots s i)); lia.
Qed.

Lemma mod_ne n a b : 0 < n -> a <> b -> - n < a - b < n -> a mod n <> b mod n.
Proof.
  intros Hn D B E. apply D.
  destruct (Z_le_gt_dec a b); [apply (mod_window n a) | apply (mod_window n b)]; try lia; exact E.
Qed.

Lemma nth_firstn_lt {A} (l : list A) n j d : (j < n)%nat -> nth j (firstn n l) d = nth j l d.
Proof.
  revert n j; induction l as [|a l IH]; intros n j H; [rewrite firstn_nil; reflexivity|].
  destruct n as [|n]; [lia|]. destruct j as [|j]; [reflexivity|]. cbn. apply IH. lia.
Qed.

Lemma zlen_firstn_le {A} (l : list A) n : 0 <= n <= zlen l -> zlen (firstn (Z.to_nat n) l) = n.
Proof. intros H. unfold zlen in *. rewrite firstn_length_le by lia. lia. Qed.

Lemma step_inv s t ch s' ch' site : Inv s -> gstep s t ch = Some (s', ch', site) -> Inv s'.
Proof.
  intros I0 E. pose proof I0 as [Gs Ls]. unfold gstep in E. destruct (nowrap s) eqn:NW; [|discriminate].
  unfold nowrap in NW. apply Z.ltb_lt in NW.
  unfold step in E. destruct (nth_error (threads s) t) as [th|] eqn:Nt; [|discriminate].
  pose proof (Ls t th Nt) as Lt.
  pose proof Gs as (Hn & Hht & Hb & Hlen & Hsl & Q1 & Q2 & Q3 & Ok).
  assert (Npos : 0 < N s) by lia.
  destruct (tpc th) eqn:P; cbn [Loc] in Lt.
  - (* PStart *) injection E as <- _ _. apply (inv_pc_only s t th); [exact I0 | exact Nt | apply Loc_next].
  - (* PPushLoadTail *) injection E as <- _ _. apply (inv_pc_only s t th); [exact I0 | exact Nt | cbn; lia].
  - (* PPushLoadSeq *)
    rewrite rw_mod in E by exact Npos.
    pose proof (seq_bound s (t0 mod N s) Gs (mod_idx _ _ Hn)) as Sb.
    rewrite sdiff_small in E by lia.
    destruct (seq (slots s (t0 mod N s)) - t0 =? 0) eqn:C; injection E as <- _ _.
    + apply Z.eqb_eq in C. apply (inv_pc_only s t th); [exact I0 | exact Nt | cbn; lia].
    + apply (inv_pc_only s t th); [exact I0 | exact Nt | apply Loc_next].
  - (* PPushCas *) destruct Lt as [Bt S0].
    destruct (tail s =? t0) eqn:C; injection E as <- _ _.
    + apply Z.eqb_eq in C. subst t0. rewrite u64_small by lia.
      destruct (glob_claim s t 1 [v] (set_nth (threads s) t (goto th (PPushWrite v (tail s)))) Gs ltac:(lia) eq_refl) as (G' & F' & L').
      { intros j Hj. assert (j = 0) by lia. subst j. rewrite Z.add_0_r. exact S0. }
      eapply inv_step_intro; [exact I0 | exact Nt | reflexivity | exact G' | exact F' |].
      cbn [goto tpc Loc N slots gpush]. specialize (L' 0 ltac:(lia)). rewrite Z.add_0_r in L'. split; [lia | exact L'].
    + apply (inv_pc_only s t th); [exact I0 | exact Nt | apply Loc_next].
  - (* PPushWrite *) destruct Lt as (B0 & Pj & Cj & Gj). injection E as <- _ _. rewrite rw_mod by exact Npos.
    destruct (glob_write s t t0 v (set_nth (threads s) t (goto th (PPushStoreSeq v t0))) Gs B0 Pj Cj) as (G' & F' & P' & C').
    { unfold gval. rewrite Gj. reflexivity. }
    eapply inv_step_intro; [exact I0 | exact Nt | reflexivity | exact G' | exact F' |].
    cbn [goto tpc Loc N slots]. split; [exact B0|]. split; [exact P' | exact C'].
  - (* PPushStoreSeq *) destruct Lt as (B0 & Pj & Cj). injection E as <- _ _. rewrite rw_mod by exact Npos.
    pose proof (seq_bound s (t0 mod N s) Gs (mod_idx _ _ Hn)) as Sb.
    assert (t0 < tail s).
    { destruct (Hsl _ (mod_idx (N s) t0 Hn)) as (_ & _ & Hp). rewrite Pj, Cj in Hp. lia. }
    rewrite u64_small by lia.
    destruct (glob_publish s t t0 (set_nth (threads s) t (next (logr th r_push v))) Gs B0 Pj Cj) as (G' & F').
    eapply inv_step_intro; [exact I0 | exact Nt | reflexivity | exact G' | exact F' | apply Loc_next].
  - (* PPopLoadHead *) injection E as <- _ _. apply (inv_pc_only s t th); [exact I0 | exact Nt | cbn; lia].
  - (* PPopLoadTail *)
    destruct (h0 =? tail s) eqn:C; injection E as <- _ _.
    + apply (inv_pc_only s t th); [exact I0 | exact Nt | apply Loc_next].
    + apply (inv_pc_only s t th); [exact I0 | exact Nt | cbn; lia].
  - (* PPopLoadSeq *)
    rewrite rw_mod in E by exact Npos.
    pose proof (seq_bound s (h0 mod N s) Gs (mod_idx _ _ Hn)) as Sb.
    rewrite u64_small in E by lia. rewrite sdiff_small in E by lia.
    destruct (seq (slots s (h0 mod N s)) - (h0 + 1) =? 0) eqn:C; injection E as <- _ _.
    + apply Z.eqb_eq in C. apply (inv_pc_only s t th); [exact I0 | exact Nt | cbn; lia].
    + apply (inv_pc_only s t th); [exact I0 | exact Nt | apply Loc_next].
  - (* PPopCas *) destruct Lt as [Bt S0].
    destruct (head s =? h0) eqn:C; injection E as <- _ _.
    + apply Z.eqb_eq in C. subst h0. rewrite u64_small by lia. rewrite rw_mod by exact Npos.
      destruct (glob_take s t (set_nth (threads s) t (goto th (PPopRead (head s)))) Gs S0) as (G' & F' & P' & C').
      eapply inv_step_intro; [exact I0 | exact Nt | reflexivity | exact G' | exact F' |].
      cbn [goto tpc Loc N slots]. split; [lia|]. split; [exact P' | exact C'].
    + apply (inv_pc_only s t th); [exact I0 | exact Nt | apply Loc_next].
  - (* PPopRead *) destruct Lt as (B0 & Pj & Cj). injection E as <- _ _. rewrite rw_mod by exact Npos.
    destruct (glob_move s t h0 (set_nth (threads s) t (goto th (PPopDestroy h0 (val (slots s (h0 mod N s)))))) Gs B0 Pj Cj) as (G' & F' & P' & C' & V').
    eapply inv_step_intro; [exact I0 | exact Nt | reflexivity | exact G' | exact F' |].
    cbn [goto tpc Loc N slots gpush]. split; [exact B0|]. split; [exact P'|]. split; [exact C' | exact V'].
  - (* PPopDestroy *) destruct Lt as (B0 & Pj & Cj & Vj). injection E as <- _ _. rewrite rw_mod by exact Npos.
    destruct (glob_destroy s t h0 (set_nth (threads s) t (goto th (PPopStoreSeq h0 v))) Gs B0 Pj Cj) as (G' & F' & P' & C').
    eapply inv_step_intro; [exact I0 | exact Nt | reflexivity | exact G' | exact F' |].
    cbn [goto tpc Loc N slots gpush]. split; [exact B0|]. split; [exact P'|]. split; [exact C' | exact Vj].
  - (* PPopStoreSeq *) destruct Lt as (B0 & Pj & Cj & Vj). injection E as <- _ _. rewrite rw_mod by exact Npos.
    assert (h0 < head s).
    { destruct (Hsl _ (mod_idx (N s) h0 Hn)) as (_ & _ & Hp). rewrite Pj, Cj in Hp. lia. }
    rewrite u64_small by lia.
    destruct (glob_release s t h0 v (set_nth (threads s) t (next (logr th r_pop v))) Gs B0 Pj Cj Vj) as (G' & F').
    eapply inv_step_intro; [exact I0 | exact Nt | reflexivity | exact G' | exact F' | apply Loc_next].
  - (* PBLoadTail *) injection E as <- _ _. apply (inv_pc_only s t th); [exact I0 | exact Nt |].
    cbn [goto tpc Loc]. destruct vs as [|v0 vs]; [contradiction|].
    split; [lia|]. split; [|split; [|intros j Hj; lia]].
    + unfold zlen. destruct (Z.to_nat (N s)) eqn:En; [lia|]. cbn [firstn length]. lia.
    + unfold zlen. pose proof (firstn_le_length (Z.to_nat (N s)) (v0 :: vs)). lia.
  - (* PBLoadSeq *) destruct Lt as (Bt & Bi & Bn & S0).
    rewrite !u64_small in E by lia. rewrite rw_mod in E by exact Npos.
    pose proof (seq_bound s ((t0 + i) mod N s) Gs (mod_idx _ _ Hn)) as Sb.
    rewrite sdiff_small in E by lia. fold (zlen vs) in E.
    destruct (seq (slots s ((t0 + i) mod N s)) - (t0 + i) =? 0) eqn:C.
    + apply Z.eqb_eq in C. destruct (i + 1 <? zlen vs) eqn:C2; cbn [andb] in E.
      * apply Z.ltb_lt in C2. injection E as <- _ _. apply (inv_pc_only s t th); [exact I0 | exact Nt |].
        cbn [goto tpc Loc]. split; [lia|]. split; [lia|]. split; [lia|].
        intros j Hj. destruct (Z.eq_dec j i) as [->|D]; [lia | apply S0; lia].
      * apply Z.ltb_ge in C2. destruct (i + 1 =? 0) eqn:C3; [apply Z.eqb_eq in C3; lia|].
        injection E as <- _ _. apply (inv_pc_only s t th); [exact I0 | exact Nt |].
        cbn [goto tpc Loc]. split; [lia|]. split; [lia|]. split; [lia|].
        intros j Hj. destruct (Z.eq_dec j i) as [->|D]; [lia | apply S0; lia].
    + cbn [andb] in E. destruct (i =? 0) eqn:C3; injection E as <- _ _.
      * apply (inv_pc_only s t th); [exact I0 | exact Nt | apply Loc_next].
      * apply Z.eqb_neq in C3. apply (inv_pc_only s t th); [exact I0 | exact Nt |].
        cbn [goto tpc Loc]. split; [lia|]. split; [lia|]. split; [lia|]. intros j Hj. apply S0. lia.
  - (* PBCas *) destruct Lt as (Bt & Ba & Bn & S0).
    destruct (tail s =? t0) eqn:C; injection E as <- _ _.
    + apply Z.eqb_eq in C. subst t0. rewrite u64_small by lia.
      destruct (glob_claim s t avail (firstn (Z.to_nat avail) vs) (set_nth (threads s) t (goto th (PBWrite vs (tail s) 0 avail))) Gs ltac:(lia)) as (G' & F' & L').
      { apply zlen_firstn_le. lia. }
      { exact S0. }
      eapply inv_step_intro; [exact I0 | exact Nt | reflexivity | exact G' | exact F' |].
      cbn [goto tpc Loc N slots gpush]. split; [lia|]. split; [lia|]. split; [lia|]. split; [lia|].
      intros j Hj. destruct (L' j ltac:(lia)) as (L1 & L2 & L3). split; [exact L1|]. split; [exact L2|].
      rewrite L3. rewrite nth_firstn_lt by lia. reflexivity.
    + apply (inv_pc_only s t th); [exact I0 | exact Nt | apply Loc_next].
  - (* PBWrite *) destruct Lt as (B0 & Bi & Ba & Bn & S0). injection E as <- _ _.
    assert (TB : t0 + avail <= tail s).
    { destruct (S0 (avail - 1) ltac:(lia)) as (Pa & Ca & _).
      destruct (Hsl _ (mod_idx (N s) (t0 + (avail - 1)) Hn)) as (_ & _ & Hp). rewrite Pa, Ca in Hp. lia. }
    rewrite u64_small by lia. rewrite rw_mod by exact Npos.
    destruct (S0 i ltac:(lia)) as (Pj & Cj & Gj).
    destruct (glob_write s t (t0 + i) (nth (Z.to_nat i) vs 0) (set_nth (threads s) t (goto th (PBStoreSeq vs t0 i avail))) Gs ltac:(lia) Pj Cj) as (G' & F' & P' & C').
    { unfold gval. rewrite Gj. reflexivity. }
    eapply inv_step_intro; [exact I0 | exact Nt | reflexivity | exact G' | exact F' |].
    cbn [goto tpc Loc N slots gpush]. split; [exact B0|]. split; [exact Bi|]. split; [exact Ba|]. split; [exact Bn|].
    split; [exact P'|]. split; [exact C'|].
    intros j Hj. rewrite fupd_other by (apply mod_ne; lia). apply S0. lia.
  - (* PBStoreSeq *) destruct Lt as (B0 & Bi & Ba & Bn & Pj & Cj & S0).
    assert (TB : t0 + i < tail s).
    { destruct (Hsl _ (mod_idx (N s) (t0 + i) Hn)) as (_ & _ & Hp). rewrite Pj, Cj in Hp. lia. }
    rewrite !u64_small in E by lia. rewrite rw_mod in E by exact Npos.
    destruct (i + 1 <? avail) eqn:C; injection E as <- _ _.
    + apply Z.ltb_lt in C.
      destruct (glob_publish s t (t0 + i) (set_nth (threads s) t (goto th (PBWrite vs t0 (i + 1) avail))) Gs ltac:(lia) Pj Cj) as (G' & F').
      eapply inv_step_intro; [exact I0 | exact Nt | reflexivity | exact G' | exact F' |].
      cbn [goto tpc Loc N slots gpush]. split; [exact B0|]. split; [lia|]. split; [exact Ba|]. split; [exact Bn|].
      intros j Hj. rewrite fupd_other by (apply mod_ne; lia). apply S0. lia.
    + destruct (glob_publish s t (t0 + i) (set_nth (threads s) t (next (logr (logrs th r_push (firstn (Z.to_nat avail) vs)) r_pushb avail))) Gs ltac:(lia) Pj Cj) as (G' & F').
      eapply inv_step_intro; [exact I0 | exact Nt | reflexivity | exact G' | exact F' | apply Loc_next].
  - discriminate.
Qed.

Lemma init_inv n progs : 2 <= n -> Inv (init n progs).
Proof.
  intros Hn. split.
  - unfold Glob, init. cbn [N head tail slots led gpush gpopped].
    split; [exact Hn|]. split; [lia|]. split; [lia|]. split; [reflexivity|].
    split; [|split; [intros e []|split; [constructor|split; [intros p Hp; lia | reflexivity]]]].
    intros i Hi. unfold slot_ok, cur. cbn [ph seq]. split; [apply Z.mod_small; exact Hi|]. split; [lia|]. split; [lia | reflexivity].
  - intros t th Nt. unfold init in Nt. cbn [threads] in Nt. apply nth_error_In in Nt. apply in_map_iff in Nt.
    destruct Nt as [p [<- _]]. exact I.
Qed.

Theorem mpmc_inv n progs s : 2 <= n -> reach gstep (init n progs) s -> Inv s.
Proof.
  intros Hn R. apply (reach_inv gstep Inv (init n progs)); [apply init_inv; exact Hn | | exact R].
  intros s1 t ch s1' ch' site I E. eapply step_inv; eauto.
Qed.

(* the positions a thread holds (claimed and not yet published / released) at each program point *)
Definition holds (p : pc) (c : Z) : Prop :=
  match p with
  | PPushWrite _ t0 | PPushStoreSeq _ t0 => c = t0
  | PPopRead h0 | PPopDestroy h0 _ | PPopStoreSeq h0 _ => c = h0
  | PBWrite _ t0 i avail | PBStoreSeq _ t0 i avail => t0 + i <= c < t0 + avail
  | _ => False
  end.

(* every slot in a transient phase belongs to a thread that is inside the corresponding operation *)
Definition Own (s : state) : Prop :=
  forall i t, 0 <= i < N s -> owns t (slots s i) ->
  exists th, nth_error (threads s) t = Some th /\ holds (tpc th) (cur (slots s i)).

Lemma own_same s t th th' hd' tl' l' gp' gq' :
  Own s -> nth_error (threads s) t = Some th -> (forall c, holds (tpc th) c -> holds (tpc th') c) ->
  Own (ST (N s) hd' tl' (slots s) l' (set_nth (threads s) t th') gp' gq').
Proof.
  intros Os Nt H i t2 Hi O. cbn [N slots threads] in *. destruct (Os i t2 Hi O) as [th2 [N2 H2]].
  destruct (Nat.eq_dec t2 t) as [->|D].
  - rewrite Nt in N2. injection N2 as <-. exists th'. split; [eapply nth_error_set_nth_eq; eauto | apply H; exact H2].
  - exists th2. split; [rewrite nth_error_set_nth_neq by congruence; exact N2 | exact H2].
Qed.

Lemma own_upd1 s t th th' j slj hd' tl' l' gp' gq' :
  Glob s -> Own s -> nth_error (threads s) t = Some th -> 0 <= j < N s ->
  (forall t2, owns t2 slj -> t2 = t /\ holds (tpc th') (cur slj)) ->
  (forall c, holds (tpc th) c -> c mod N s <> j -> holds (tpc th') c) ->
  Own (ST (N s) hd' tl' (fupd (slots s) j slj) l' (set_nth (threads s) t th') gp' gq').
Proof.
  intros Gs Os Nt Hj Hnew Hold i t2 Hi O. cbn [N slots threads] in *.
  destruct (Z.eq_dec i j) as [->|D].
  - rewrite fupd_same in *. destruct (Hnew t2 O) as [-> Hh]. exists th'. split; [eapply nth_error_set_nth_eq; eauto | exact Hh].
  - rewrite fupd_other in * by exact D. destruct (Os i t2 Hi O) as [th2 [N2 H2]].
    destruct (Nat.eq_dec t2 t) as [->|Dt].
    + rewrite Nt in N2. injection N2 as <-. exists th'. split; [eapply nth_error_set_nth_eq; eauto|].
      apply Hold; [exact H2|]. destruct Gs as (_ & _ & _ & _ & Hsl & _). destruct (Hsl i Hi) as (Cm & _). rewrite Cm. exact D.
    + exists th2. split; [rewrite nth_error_set_nth_neq by congruence; exact N2 | exact H2].
Qed.

Lemma holds_next th c : ~ holds (tpc (next th)) c.
Proof.
  unfold next. generalize (res th). induction (prog th) as [|o p IH]; intros r; cbn [advance]; [intros []|].
  destruct o as [v| |vs]; [intros [] | intros []|]. destruct vs as [|v0 vs]; [apply IH | intros []].
Qed.

Lemma own_claim s t th th' k hd' tl' l' gp' gq' :
  Glob s -> Own s -> nth_error (threads s) t = Some th -> (forall c, ~ holds (tpc th) c) -> 0 < k <= N s ->
  (forall j, 0 <= j < k -> tail s + j <= seq (slots s ((tail s + j) mod N s))) ->
  (forall c, tail s <= c < tail s + k -> holds (tpc th') c) ->
  Own (ST (N s) hd' tl' (mark_claimed (slots s) (N s) t (tail s) k) l' (set_nth (threads s) t th') gp' gq').
Proof.
  intros Gs Os Nt Hno Hk Hseq Hnew i t2 Hi O. cbn [N slots threads] in *.
  assert (Hn : 2 <= N s) by (destruct Gs; assumption).
  unfold mark_claimed in *. destruct ((i - tail s) mod N s <? k) eqn:E.
  - apply Z.ltb_lt in E. destruct (idx_decomp (N s) (tail s) i ltac:(lia) Hi) as [Bj Ej].
    set (j := (i - tail s) mod N s) in *. symmetry in Ej.
    destruct (claim_free s j Gs ltac:(lia) (Hseq j ltac:(lia))) as [Pf Cf]. rewrite Ej in Pf, Cf.
    unfold owns in O. cbn [with_ph ph] in O. subst t2.
    exists th'. split; [eapply nth_error_set_nth_eq; eauto|].
    rewrite cur_with_ph_free_claimed by exact Pf. rewrite Cf. apply Hnew. lia.
  - destruct (Os i t2 Hi O) as [th2 [N2 H2]]. destruct (Nat.eq_dec t2 t) as [->|D].
    + rewrite Nt in N2. injection N2 as <-. exfalso. exact (Hno _ H2).
    + exists th2. split; [rewrite nth_error_set_nth_neq by congruence; exact N2 | exact H2].
Qed.

Lemma step_own s t ch s' ch' site : Inv s -> Own s -> gstep s t ch = Some (s', ch', site) -> Own s'.
Proof.
  intros I0 Os E. pose proof I0 as [Gs Ls]. unfold gstep in E. destruct (nowrap s) eqn:NW; [|discriminate].
  unfold nowrap in NW. apply Z.ltb_lt in NW.
  unfold step in E. destruct (nth_error (threads s) t) as [th|] eqn:Nt; [|discriminate].
  pose proof (Ls t th Nt) as Lt.
  pose proof Gs as (Hn & Hht & Hb & Hlen & Hsl & Q1 & Q2 & Q3 & Ok).
  assert (Npos : 0 < N s) by lia.
  destruct (tpc th) eqn:P; cbn [Loc] in Lt.
  - (* PStart *) injection E as <- _ _. eapply own_same; [exact Os | exact Nt | rewrite P; intros c []].
  - (* PPushLoadTail *) injection E as <- _ _. eapply own_same; [exact Os | exact Nt | rewrite P; intros c []].
  - (* PPushLoadSeq *)
    destruct (sdiff (seq (slots s (ring_wrap (N s) t0))) t0 =? 0); injection E as <- _ _;
      (eapply own_same; [exact Os | exact Nt | rewrite P; intros c []]).
  - (* PPushCas *) destruct Lt as [Bt S0].
    destruct (tail s =? t0) eqn:C; injection E as <- _ _.
    + apply Z.eqb_eq in C. subst t0.
      eapply own_claim; [exact Gs | exact Os | exact Nt | rewrite P; intros c [] | lia | | ].
      * intros j Hj. assert (j = 0) by lia. subst j. rewrite Z.add_0_r. exact S0.
      * intros c Hc. cbn. lia.
    + eapply own_same; [exact Os | exact Nt | rewrite P; intros c []].
  - (* PPushWrite *) destruct Lt as (B0 & Pj & Cj & Gj). injection E as <- _ _. rewrite rw_mod by exact Npos.
    eapply own_upd1; [exact Gs | exact Os | exact Nt | apply mod_idx; exact Hn | | ].
    + intros t2 O. unfold owns in O. cbn in O. subst t2. split; [reflexivity|]. cbn. unfold cur in *. cbn. rewrite Pj in Cj. exact Cj.
    + intros c H _. rewrite P in H. exact H.
  - (* PPushStoreSeq *) destruct Lt as (B0 & Pj & Cj). injection E as <- _ _. rewrite rw_mod by exact Npos.
    eapply own_upd1; [exact Gs | exact Os | exact Nt | apply mod_idx; exact Hn | | ].
    + intros t2 O. unfold owns in O. cbn in O. contradiction.
    + intros c H D. rewrite P in H. cbn in H. subst c. contradiction.
  - (* PPopLoadHead *) injection E as <- _ _. eapply own_same; [exact Os | exact Nt | rewrite P; intros c []].
  - (* PPopLoadTail *)
    destruct (h0 =? tail s); injection E as <- _ _; (eapply own_same; [exact Os | exact Nt | rewrite P; intros c []]).
  - (* PPopLoadSeq *)
    destruct (sdiff (seq (slots s (ring_wrap (N s) h0))) (u64 (h0 + 1)) =? 0); injection E as <- _ _;
      (eapply own_same; [exact Os | exact Nt | rewrite P; intros c []]).
  - (* PPopCas *) destruct Lt as [Bt S0].
    destruct (head s =? h0) eqn:C; injection E as <- _ _.
    + apply Z.eqb_eq in C. subst h0. rewrite rw_mod by exact Npos.
      destruct (take_full s Gs S0) as [Pf Cf].
      eapply own_upd1; [exact Gs | exact Os | exact Nt | apply mod_idx; exact Hn | | ].
      * intros t2 O. unfold owns in O. cbn in O. subst t2. split; [reflexivity|]. cbn. unfold cur in *. cbn. rewrite Pf in Cf. exact Cf.
      * intros c H _. rewrite P in H. destruct H.
    + eapply own_same; [exact Os | exact Nt | rewrite P; intros c []].
  - (* PPopRead *) destruct Lt as (B0 & Pj & Cj). injection E as <- _ _. rewrite rw_mod by exact Npos.
    eapply own_upd1; [exact Gs | exact Os | exact Nt | apply mod_idx; exact Hn | | ].
    + intros t2 O. unfold owns in O. cbn in O. subst t2. split; [reflexivity|]. cbn. unfold cur in *. cbn. rewrite Pj in Cj. exact Cj.
    + intros c H _. rewrite P in H. exact H.
  - (* PPopDestroy *) destruct Lt as (B0 & Pj & Cj & Vj). injection E as <- _ _. rewrite rw_mod by exact Npos.
    eapply own_upd1; [exact Gs | exact Os | exact Nt | apply mod_idx; exact Hn | | ].
    + intros t2 O. unfold owns in O. cbn in O. subst t2. split; [reflexivity|]. cbn. unfold cur in *. cbn. rewrite Pj in Cj. exact Cj.
    + intros c H _. rewrite P in H. exact H.
  - (* PPopStoreSeq *) destruct Lt as (B0 & Pj & Cj & Vj). injection E as <- _ _. rewrite rw_mod by exact Npos.
    eapply own_upd1; [exact Gs | exact Os | exact Nt | apply mod_idx; exact Hn | | ].
    + intros t2 O. unfold owns in O. cbn in O. contradiction.
    + intros c H D. rewrite P in H. cbn in H. subst c. contradiction.
  - (* PBLoadTail *) injection E as <- _ _. eapply own_same; [exact Os | exact Nt | rewrite P; intros c []].
  - (* PBLoadSeq *)
    destruct ((sdiff (seq (slots s (ring_wrap (N s) (u64 (t0 + i))))) (u64 (t0 + i)) =? 0) && (i + 1 <? Z.of_nat (length vs))).
    + injection E as <- _ _. eapply own_same; [exact Os | exact Nt | rewrite P; intros c []].
    + destruct ((if sdiff (seq (slots s (ring_wrap (N s) (u64 (t0 + i))))) (u64 (t0 + i)) =? 0 then i + 1 else i) =? 0);
        injection E as <- _ _; (eapply own_same; [exact Os | exact Nt | rewrite P; intros c []]).
  - (* PBCas *) destruct Lt as (Bt & Ba & Bn & S0).
    destruct (tail s =? t0) eqn:C; injection E as <- _ _.
    + apply Z.eqb_eq in C. subst t0.
      eapply own_claim; [exact Gs | exact Os | exact Nt | rewrite P; intros c [] | lia | exact S0 | ].
      intros c Hc. cbn. lia.
    + eapply own_same; [exact Os | exact Nt | rewrite P; intros c []].
  - (* PBWrite *) destruct Lt as (B0 & Bi & Ba & Bn & S0). injection E as <- _ _.
    assert (TB : t0 + avail <= tail s).
    { destruct (S0 (avail - 1) ltac:(lia)) as (Pa & Ca & _).
      destruct (Hsl _ (mod_idx (N s) (t0 + (avail - 1)) Hn)) as (_ & _ & Hp). rewrite Pa, Ca in Hp. lia. }
    rewrite u64_small by lia. rewrite rw_mod by exact Npos.
    destruct (S0 i ltac:(lia)) as (Pj & Cj & Gj).
    eapply own_upd1; [exact Gs | exact Os | exact Nt | apply mod_idx; exact Hn | | ].
    + intros t2 O. unfold owns in O. cbn in O. subst t2. split; [reflexivity|]. cbn. unfold cur in *. cbn. rewrite Pj in Cj. lia.
    + intros c H _. rewrite P in H. exact H.
  - (* PBStoreSeq *) destruct Lt as (B0 & Bi & Ba & Bn & Pj & Cj & S0).
    assert (TB : t0 + i < tail s).
    { destruct (Hsl _ (mod_idx (N s) (t0 + i) Hn)) as (_ & _ & Hp). rewrite Pj, Cj in Hp. lia. }
    rewrite !u64_small in E by lia. rewrite rw_mod in E by exact Npos.
    destruct (i + 1 <? avail) eqn:C; injection E as <- _ _.
    + apply Z.ltb_lt in C.
      eapply own_upd1; [exact Gs | exact Os | exact Nt | apply mod_idx; exact Hn | | ].
      * intros t2 O. unfold owns in O. cbn in O. contradiction.
      * intros c H D. rewrite P in H. cbn in H. cbn. destruct (Z.eq_dec c (t0 + i)) as [->|Ne]; [contradiction | lia].
    + apply Z.ltb_ge in C.
      eapply own_upd1; [exact Gs | exact Os | exact Nt | apply mod_idx; exact Hn | | ].
      * intros t2 O. unfold owns in O. cbn in O. contradiction.
      * intros c H D. rewrite P in H. cbn in H. assert (c = t0 + i) by lia. subst c. contradiction.
  - discriminate.
Qed.

Definition Inv2 (s : state) : Prop := Inv s /\ Own s.

Theorem mpmc_inv2 n progs s : 2 <= n -> reach gstep (init n progs) s -> Inv2 s.
Proof.
  intros Hn R. apply (reach_inv gstep Inv2 (init n progs)); [| | exact R].
  - split; [apply init_inv; exact Hn|]. intros i t Hi O. unfold init in O. cbn in O. contradiction.
  - intros s1 t ch s1' ch' site [I O] E. split; [eapply step_inv; eauto | eapply step_own; eauto].
Qed.

Lemma idle_not_holds p c : idle_pc p = true -> ~ holds p c.
Proof. destruct p; cbn; intros H; try discriminate; intros []. Qed.

Lemma quiescent_slots s : Inv2 s -> quiescent s = true ->
  forall i, 0 <= i < N s -> ph (slots s i) = Free \/ ph (slots s i) = Full.
Proof.
  intros [I0 Os] Q i Hi. unfold quiescent in Q. rewrite forallb_forall in Q.
  destruct (ph (slots s i)) eqn:P; try (left; reflexivity); try (right; reflexivity); exfalso;
    (assert (O : owns t (slots s i)) by (unfold owns; rewrite P; reflexivity);
     destruct (Os i t Hi O) as [th [Nt H]]; apply nth_error_In in Nt; exact (idle_not_holds _ _ (Q th Nt) H)).
Qed.

Lemma quiescent_full_range s : Inv2 s -> quiescent s = true ->
  forall p, head s <= p < tail s ->
  ph (slots s (p mod N s)) = Full /\ seq (slots s (p mod N s)) = p + 1 /\ val (slots s (p mod N s)) = gval (gpush s) p /\
  lget (led s) (p mod N s) = Alive.
Proof.
  intros I2 Q p Hp. pose proof I2 as [[Gs _] _]. destruct Gs as (Hn & Hht & Hb & Hlen & Hsl & _).
  assert (Hm : 0 <= p mod N s < N s) by (apply mod_idx; exact Hn).
  destruct (Hsl _ Hm) as (Cm & C0 & Hph). unfold cur in *.
  destruct (quiescent_slots s I2 Q _ Hm) as [Pf|Pf]; rewrite Pf in *.
  - exfalso. assert (seq (slots s (p mod N s)) = p); [|lia]. apply (mod_window (N s) (head s)); [lia | lia | lia | exact Cm].
  - assert (E : seq (slots s (p mod N s)) - 1 = p) by (apply (mod_window (N s) (head s)); [lia | lia | lia | exact Cm]).
    rewrite E in Hph. split; [reflexivity|]. split; [lia | tauto].
Qed.

Lemma quiescent_free_range s : Inv2 s -> quiescent s = true ->
  forall p, tail s <= p < head s + N s ->
  ph (slots s (p mod N s)) = Free /\ seq (slots s (p mod N s)) = p /\ is_live (lget (led s) (p mod N s)) = false.
Proof.
  intros I2 Q p Hp. pose proof I2 as [[Gs _] _]. destruct Gs as (Hn & Hht & Hb & Hlen & Hsl & _).
  assert (Hm : 0 <= p mod N s < N s) by (apply mod_idx; exact Hn).
  destruct (Hsl _ Hm) as (Cm & C0 & Hph). unfold cur in *.
  destruct (quiescent_slots s I2 Q _ Hm) as [Pf|Pf]; rewrite Pf in *.
  - assert (E : seq (slots s (p mod N s)) = p) by (apply (mod_window (N s) (head s)); [lia | lia | lia | exact Cm]).
    split; [reflexivity|]. split; [exact E | tauto].
  - exfalso. assert (seq (slots s (p mod N s)) - 1 = p); [|lia]. apply (mod_window (N s) (head s)); [lia | lia | lia | exact Cm].
Qed.

Lemma quiescent_popped s : Inv2 s -> quiescent s = true ->
  forall p, 0 <= p < head s -> In p (map qpos (gpopped s)).
Proof.
  intros I2 Q p Hp. pose proof I2 as [[Gs _] _]. destruct Gs as (Hn & Hht & Hb & Hlen & Hsl & Q1 & Q2 & Q3 & _).
  destruct (Q3 p Hp) as [H|[_ T]]; [exact H|]. exfalso.
  assert (Hm : 0 <= p mod N s < N s) by (apply mod_idx; exact Hn).
  unfold taking_or_taken in T. destruct (quiescent_slots s I2 Q _ Hm) as [Pf|Pf]; rewrite Pf in T; exact T.
Qed.

(* ---- exactly once ---- *)
Theorem at_most_once_inv s : Inv s ->
  NoDup (map qpos (gpopped s)) /\
  forall e, In e (gpopped s) -> 0 <= qpos e < head s /\ qval e = gval (gpush s) (qpos e).
Proof.
  intros [(Hn & Hht & Hb & Hlen & Hsl & Q1 & Q2 & Q3 & _) _]. split; [exact Q2|].
  intros e He. destruct (Q1 e He) as (B1 & _ & B3). split; assumption.
Qed.

Lemma range_spec n x : In x (range n) <-> 0 <= x < n.
Proof.
  unfold range. rewrite in_map_iff. split.
  - intros [k [<- Hk]]. apply in_seq in Hk. lia.
  - intros H. exists (Z.to_nat x). split; [lia|]. apply in_seq. lia.
Qed.

Lemma range_nodup n : NoDup (range n).
Proof.
  unfold range. apply FinFun.Injective_map_NoDup; [intros a b H; lia | apply seq_NoDup].
Qed.

Lemma seq_add_map a b : List.seq a b = map (fun k => (a + k)%nat) (List.seq 0 b).
Proof.
  induction a as [|a IH]; [symmetry; rewrite <- (map_id (List.seq 0 b)) at 2; apply map_ext; reflexivity|].
  rewrite <- seq_shift, IH, map_map. apply map_ext. reflexivity.
Qed.

Lemma range_app a b : 0 <= a -> 0 <= b -> range (a + b) = range a ++ map (fun i => a + i) (range b).
Proof.
  intros Ha Hb. unfold range. rewrite Z2Nat.inj_add by lia. rewrite seq_app, map_app. f_equal.
  rewrite map_map. cbn [plus]. rewrite (seq_add_map (Z.to_nat a) (Z.to_nat b)).
  rewrite map_map. apply map_ext. intros k. lia.
Qed.

Lemma map_snd_nth (l : list (Z * Z)) : map snd l = map (gval l) (range (zlen l)).
Proof.
  unfold range, zlen, gval. rewrite Nat2Z.id, map_map.
  induction l as [|a l IH] using rev_ind; [reflexivity|].
  rewrite app_length. cbn [length]. rewrite Nat.add_1_r, seq_S, !map_app. cbn [map plus].
  rewrite Nat2Z.id. rewrite app_nth2 by lia. rewrite Nat.sub_diag. cbn [nth]. f_equal.
  rewrite IH. apply map_ext_in. intros k Hk. apply in_seq in Hk. rewrite Nat2Z.id.
  rewrite app_nth1 by lia. reflexivity.
Qed.

(* at quiescence: accepted = delivered + contents, as multisets *)
Theorem quiescent_multiset_inv s : Inv2 s -> quiescent s = true ->
  Permutation (map snd (gpush s)) (map qval (gpopped s) ++ contents s).
Proof.
  intros I2 Q. pose proof I2 as [[Gs _] _]. pose proof Gs as (Hn & Hht & Hb & Hlen & Hsl & Q1 & Q2 & Q3 & _).
  rewrite map_snd_nth, Hlen.
  replace (tail s) with (head s + (tail s - head s)) at 1 by lia.
  rewrite range_app by lia. rewrite map_app.
  apply Permutation_app.
  - (* delivered *)
    assert (E : map qval (gpopped s) = map (gval (gpush s)) (map qpos (gpopped s))).
    { rewrite map_map. apply map_ext_in. intros e He. apply (Q1 e He). }
    rewrite E. apply Permutation_map. apply NoDup_Permutation; [apply range_nodup | exact Q2|].
    intros x. rewrite range_spec. split.
    + intros Hx. apply quiescent_popped; assumption.
    + intros Hx. apply in_map_iff in Hx. destruct Hx as [e [<- He]]. apply (Q1 e He).
  - (* contents *)
    unfold contents, live_positions. rewrite !map_map.
    apply Permutation_refl'. apply map_ext_in. intros k Hk. apply range_spec in Hk.
    rewrite rw_mod by lia.
    symmetry. apply (quiescent_full_range s I2 Q). lia.
Qed.

Theorem bounded_inv s : Inv s -> 0 <= head s <= tail s /\ tail s - head s <= N s /\ zlen (contents s) = tail s - head s.
Proof.
  intros [(Hn & Hht & Hb & Hlen & _) _]. split; [lia|]. split; [lia|].
  unfold contents, live_positions, range, zlen. rewrite !map_length, seq_length. lia.
Qed.

(* lifetimes: no misuse ever; at quiescence exactly the slots of positions head..tail-1 hold live elements *)
Theorem lifetimes_inv s : Inv s -> l_errs (led s) = [].
Proof. intros [(_ & _ & _ & _ & _ & _ & _ & _ & Ok) _]. exact Ok. Qed.

Theorem quiescent_live_inv s : Inv2 s -> quiescent s = true ->
  (forall p, head s <= p < tail s -> lget (led s) (p mod N s) = Alive) /\
  (forall p, tail s <= p < head s + N s -> is_live (lget (led s) (p mod N s)) = false).
Proof.
  intros I2 Q. split; intros p Hp.
  - apply (quiescent_full_range s I2 Q p Hp).
  - apply (quiescent_free_range s I2 Q p Hp).
Qed.

(* thread t runs alone for k steps *)
Fixpoint solo (k : nat) (s : state) (t : nat) : option state :=
  match k with
  | O => Some s
  | S k' => match gstep s t [] with Some (s', _, _) => solo k' s' t | None => None end
  end.

Lemma solo_step k s t s1 site : gstep s t [] = Some (s1, [], site) -> solo (S k) s t = solo k s1 t.
Proof. intros E. cbn [solo]. rewrite E. reflexivity. Qed.

Lemma nowrap_of s : tail s + 2 * N s < 2 ^ 62 -> nowrap s = true.
Proof. intros H. unfold nowrap. apply Z.ltb_lt. exact H. Qed.

(* in a quiescent state try_pop on an empty buffer fails ... *)
Theorem quiescent_pop_empty_inv s t th :
  Inv2 s -> nth_error (threads s) t = Some th -> tpc th = PPopLoadHead -> tail s + 2 * N s < 2 ^ 62 ->
  head s = tail s ->
  solo 2 s t = Some (ST (N s) (head s) (tail s) (slots s) (led s)
                        (set_nth (set_nth (threads s) t (goto th (PPopLoadTail (head s)))) t (advance (prog th) ((r_popfail, 0) :: res th)))
                        (gpush s) (gpopped s)).
Proof.
  intros I2 Nt P NW Em.
  set (th1 := goto th (PPopLoadTail (head s))).
  set (s1 := ST (N s) (head s) (tail s) (slots s) (led s) (set_nth (threads s) t th1) (gpush s) (gpopped s)).
  assert (E1 : gstep s t [] = Some (s1, [], s_pop_head_load)).
  { unfold gstep, step. rewrite (nowrap_of s NW), Nt, P. reflexivity. }
  rewrite (solo_step _ _ _ _ _ E1).
  assert (Nt1 : nth_error (threads s1) t = Some th1) by (apply nth_error_set_nth_eq with th; exact Nt).
  cbn [solo]. unfold gstep, step. rewrite (nowrap_of s1 NW), Nt1. cbn [th1 goto tpc s1 tail].
  replace (head s =? tail s) with true by (symmetry; apply Z.eqb_eq; exact Em). reflexivity.
Qed.

(* ... and on a non-empty buffer succeeds, delivering the element at position head *)
Theorem quiescent_pop_nonempty_inv s t th :
  Inv2 s -> quiescent s = true -> nth_error (threads s) t = Some th -> tpc th = PPopLoadHead ->
  tail s + 2 * N s < 2 ^ 62 -> head s < tail s ->
  exists s', solo 7 s t = Some s' /\ head s' = head s + 1 /\ tail s' = tail s /\
             gpopped s' = gpopped s ++ [(Z.of_nat t, (head s, gval (gpush s) (head s)))] /\
             nth_error (threads s') t = Some (advance (prog th) ((r_pop, gval (gpush s) (head s)) :: res th)).
Proof.
  intros I2 Q Nt P NW Ne. pose proof I2 as [[Gs _] _]. pose proof Gs as (Hn & Hht & Hb & Hlen & _).
  destruct (quiescent_full_range s I2 Q (head s) ltac:(lia)) as (Pf & Sf & Vf & _).
  set (j := head s mod N s) in *.
  (* 1: head load *)
  set (th1 := goto th (PPopLoadTail (head s))).
  set (s1 := ST (N s) (head s) (tail s) (slots s) (led s) (set_nth (threads s) t th1) (gpush s) (gpopped s)).
  assert (E1 : gstep s t [] = Some (s1, [], s_pop_head_load)).
  { unfold gstep, step. rewrite (nowrap_of s NW), Nt, P. reflexivity. }
  rewrite (solo_step _ _ _ _ _ E1).
  assert (Nt1 : nth_error (threads s1) t = Some th1) by (apply nth_error_set_nth_eq with th; exact Nt).
  (* 2: tail load *)
  set (th2 := goto th1 (PPopLoadSeq (head s))).
  set (s2 := ST (N s) (head s) (tail s) (slots s) (led s) (set_nth (threads s1) t th2) (gpush s) (gpopped s)).
  assert (E2 : gstep s1 t [] = Some (s2, [], s_pop_tail_load)).
  { unfold gstep, step. rewrite (nowrap_of s1 NW), Nt1. cbn [th1 goto tpc s1 tail N head slots led gpush gpopped].
    destruct (head s =? tail s) eqn:C; [apply Z.eqb_eq in C; lia | reflexivity]. }
  rewrite (solo_step _ _ _ _ _ E2).
  assert (Nt2 : nth_error (threads s2) t = Some th2) by (apply nth_error_set_nth_eq with th1; exact Nt1).
  (* 3: seq load *)
  set (th3 := goto th2 (PPopCas (head s))).
  set (s3 := ST (N s) (head s) (tail s) (slots s) (led s) (set_nth (threads s2) t th3) (gpush s) (gpopped s)).
  assert (E3 : gstep s2 t [] = Some (s3, [], s_pop_seq_load)).
  { unfold gstep, step. rewrite (nowrap_of s2 NW), Nt2. cbn [th2 goto tpc s2 tail N head slots led gpush gpopped].
    rewrite rw_mod by lia. fold j. rewrite Sf. rewrite u64_small by lia. rewrite sdiff_small by lia.
    rewrite Z.sub_diag. reflexivity. }
  rewrite (solo_step _ _ _ _ _ E3).
  assert (Nt3 : nth_error (threads s3) t = Some th3) by (apply nth_error_set_nth_eq with th2; exact Nt2).
  (* 4: head CAS *)
  set (th4 := goto th3 (PPopRead (head s))).
  set (sl4 := fupd (slots s) j (with_ph (slots s j) (Taking t false))).
  set (s4 := ST (N s) (head s + 1) (tail s) sl4 (led s) (set_nth (threads s3) t th4) (gpush s) (gpopped s)).
  assert (E4 : gstep s3 t [] = Some (s4, [], s_pop_head_cas)).
  { unfold gstep, step. rewrite (nowrap_of s3 NW), Nt3. cbn [th3 goto tpc s3 tail N head slots led gpush gpopped].
    rewrite Z.eqb_refl. rewrite rw_mod by lia. rewrite u64_small by lia. reflexivity. }
  rewrite (solo_step _ _ _ _ _ E4).
  assert (Nt4 : nth_error (threads s4) t = Some th4) by (apply nth_error_set_nth_eq with th3; exact Nt3).
  (* 5: payload move-out *)
  set (v := gval (gpush s) (head s)).
  set (th5 := goto th4 (PPopDestroy (head s) v)).
  set (sl5 := fupd sl4 j (with_ph (sl4 j) (Taking t true))).
  set (s5 := ST (N s) (head s + 1) (tail s) sl5 (move_from j (led s)) (set_nth (threads s4) t th5) (gpush s) (gpopped s)).
  assert (E5 : gstep s4 t [] = Some (s5, [], s_pop_data_read)).
  { unfold gstep, step. rewrite (nowrap_of s4 NW), Nt4. cbn [th4 goto tpc s4 tail N head slots led gpush gpopped].
    rewrite rw_mod by lia. fold j. unfold th5, sl5, v. unfold sl4 at 3. rewrite fupd_same. cbn [with_ph val]. rewrite Vf. reflexivity. }
  rewrite (solo_step _ _ _ _ _ E5).
  assert (Nt5 : nth_error (threads s5) t = Some th5) by (apply nth_error_set_nth_eq with th4; exact Nt4).
  (* 6: payload destructor *)
  set (th6 := goto th5 (PPopStoreSeq (head s) v)).
  set (sl6 := fupd sl5 j (with_ph (sl5 j) (Taken t))).
  set (s6 := ST (N s) (head s + 1) (tail s) sl6 (destroy j (move_from j (led s))) (set_nth (threads s5) t th6) (gpush s) (gpopped s)).
  assert (E6 : gstep s5 t [] = Some (s6, [], s_pop_data_destroy)).
  { unfold gstep, step. rewrite (nowrap_of s5 NW), Nt5. cbn [th5 goto tpc s5 tail N head slots led gpush gpopped].
    rewrite rw_mod by lia. reflexivity. }
  rewrite (solo_step _ _ _ _ _ E6).
  assert (Nt6 : nth_error (threads s6) t = Some th6) by (apply nth_error_set_nth_eq with th5; exact Nt5).
  (* 7: release *)
  eexists. split.
  - cbn [solo]. unfold gstep, step. rewrite (nowrap_of s6 NW), Nt6. cbn [th6 goto tpc s6 tail N head slots led gpush gpopped]. reflexivity.
  - cbn [head tail gpopped threads]. split; [reflexivity|]. split; [reflexivity|]. split; [reflexivity|].
    apply nth_error_set_nth_eq with th6. exact Nt6.
Qed.

(* in a quiescent state try_push on a full buffer fails ... *)
Theorem quiescent_push_full_inv s t th v :
  Inv2 s -> quiescent s = true -> nth_error (threads s) t = Some th -> tpc th = PPushLoadTail v ->
  tail s + 2 * N s < 2 ^ 62 -> tail s - head s = N s ->
  solo 2 s t = Some (ST (N s) (head s) (tail s) (slots s) (led s)
                        (set_nth (set_nth (threads s) t (goto th (PPushLoadSeq v (tail s)))) t (advance (prog th) ((r_pushfail, v) :: res th)))
                        (gpush s) (gpopped s)).
Proof.
  intros I2 Q Nt P NW Fu. pose proof I2 as [[Gs _] _]. pose proof Gs as (Hn & Hht & Hb & Hlen & _).
  destruct (quiescent_full_range s I2 Q (tail s - N s) ltac:(lia)) as (Pf & Sf & _).
  assert (Em : (tail s - N s) mod N s = tail s mod N s).
  { rewrite <- (C35Proofs.mod_plus_k (tail s - N s) (N s)) by lia. f_equal. lia. }
  rewrite Em in Sf.
  set (th1 := goto th (PPushLoadSeq v (tail s))).
  set (s1 := ST (N s) (head s) (tail s) (slots s) (led s) (set_nth (threads s) t th1) (gpush s) (gpopped s)).
  assert (E1 : gstep s t [] = Some (s1, [], s_push_tail_load)).
  { unfold gstep, step. rewrite (nowrap_of s NW), Nt, P. reflexivity. }
  rewrite (solo_step _ _ _ _ _ E1).
  assert (Nt1 : nth_error (threads s1) t = Some th1) by (apply nth_error_set_nth_eq with th; exact Nt).
  cbn [solo]. unfold gstep, step. rewrite (nowrap_of s1 NW), Nt1. cbn [th1 goto tpc s1 tail N head slots led gpush gpopped].
  rewrite rw_mod by lia. rewrite Sf. rewrite sdiff_small by lia.
  destruct (tail s - N s + 1 - tail s =? 0) eqn:C; [apply Z.eqb_eq in C; lia | reflexivity].
Qed.

(* ... and on a non-full buffer succeeds: the element is published at position tail *)
Theorem quiescent_push_notfull_inv s t th v :
  Inv2 s -> quiescent s = true -> nth_error (threads s) t = Some th -> tpc th = PPushLoadTail v ->
  tail s + 2 * N s + 1 < 2 ^ 62 -> tail s - head s < N s ->
  exists s', solo 5 s t = Some s' /\ tail s' = tail s + 1 /\ head s' = head s /\
             gpush s' = gpush s ++ [(Z.of_nat t, v)] /\
             seq (slots s' (tail s mod N s)) = tail s + 1 /\ val (slots s' (tail s mod N s)) = v /\
             nth_error (threads s') t = Some (advance (prog th) ((r_push, v) :: res th)).
Proof.
  intros I2 Q Nt P NW Nf. pose proof I2 as [[Gs _] _]. pose proof Gs as (Hn & Hht & Hb & Hlen & _).
  destruct (quiescent_free_range s I2 Q (tail s) ltac:(lia)) as (Pf & Sf & _).
  set (j := tail s mod N s) in *.
  assert (NW0 : tail s + 2 * N s < 2 ^ 62) by lia.
  (* 1: tail load *)
  set (th1 := goto th (PPushLoadSeq v (tail s))).
  set (s1 := ST (N s) (head s) (tail s) (slots s) (led s) (set_nth (threads s) t th1) (gpush s) (gpopped s)).
  assert (E1 : gstep s t [] = Some (s1, [], s_push_tail_load)).
  { unfold gstep, step. rewrite (nowrap_of s NW0), Nt, P. reflexivity. }
  rewrite (solo_step _ _ _ _ _ E1).
  assert (Nt1 : nth_error (threads s1) t = Some th1) by (apply nth_error_set_nth_eq with th; exact Nt).
  (* 2: seq load *)
  set (th2 := goto th1 (PPushCas v (tail s))).
  set (s2 := ST (N s) (head s) (tail s) (slots s) (led s) (set_nth (threads s1) t th2) (gpush s) (gpopped s)).
  assert (E2 : gstep s1 t [] = Some (s2, [], s_push_seq_load)).
  { unfold gstep, step. rewrite (nowrap_of s1 NW0), Nt1. cbn [th1 goto tpc s1 tail N head slots led gpush gpopped].
    rewrite rw_mod by lia. fold j. rewrite Sf. rewrite sdiff_small by lia. rewrite Z.sub_diag. reflexivity. }
  rewrite (solo_step _ _ _ _ _ E2).
  assert (Nt2 : nth_error (threads s2) t = Some th2) by (apply nth_error_set_nth_eq with th1; exact Nt1).
  (* 3: tail CAS *)
  set (th3 := goto th2 (PPushWrite v (tail s))).
  set (sl3 := mark_claimed (slots s) (N s) t (tail s) 1).
  set (s3 := ST (N s) (head s) (tail s + 1) sl3 (led s) (set_nth (threads s2) t th3) (gpush s ++ [(Z.of_nat t, v)]) (gpopped s)).
  assert (E3 : gstep s2 t [] = Some (s3, [], s_push_tail_cas)).
  { unfold gstep, step. rewrite (nowrap_of s2 NW0), Nt2. cbn [th2 goto tpc s2 tail N head slots led gpush gpopped].
    rewrite Z.eqb_refl. rewrite u64_small by lia. reflexivity. }
  rewrite (solo_step _ _ _ _ _ E3).
  assert (Nt3 : nth_error (threads s3) t = Some th3) by (apply nth_error_set_nth_eq with th2; exact Nt2).
  assert (NW3 : tail s3 + 2 * N s3 < 2 ^ 62) by (cbn [s3 tail N]; lia).
  (* 4: payload write *)
  set (th4 := goto th3 (PPushStoreSeq v (tail s))).
  set (sl4 := fupd sl3 j (with_val (sl3 j) v (Written t))).
  set (s4 := ST (N s) (head s) (tail s + 1) sl4 (construct KMove j (led s)) (set_nth (threads s3) t th4) (gpush s ++ [(Z.of_nat t, v)]) (gpopped s)).
  assert (E4 : gstep s3 t [] = Some (s4, [], s_push_data_write)).
  { unfold gstep, step. rewrite (nowrap_of s3 NW3), Nt3. cbn [th3 goto tpc s3 tail N head slots led gpush gpopped].
    rewrite rw_mod by lia. reflexivity. }
  rewrite (solo_step _ _ _ _ _ E4).
  assert (Nt4 : nth_error (threads s4) t = Some th4) by (apply nth_error_set_nth_eq with th3; exact Nt3).
  assert (NW4 : tail s4 + 2 * N s4 < 2 ^ 62) by (cbn [s4 tail N]; lia).
  (* 5: publish *)
  eexists. split.
  - cbn [solo]. unfold gstep, step. rewrite (nowrap_of s4 NW4), Nt4. cbn [th4 goto tpc s4 tail N head slots led gpush gpopped].
    rewrite rw_mod by lia. rewrite u64_small by lia. reflexivity.
  - cbn [head tail gpush slots threads]. split; [reflexivity|]. split; [reflexivity|]. split; [reflexivity|].
    fold j. rewrite fupd_same. cbn [with_seq seq val]. split; [reflexivity|].
    split; [unfold sl4; rewrite fupd_same; reflexivity|].
    apply nth_error_set_nth_eq with th4. exact Nt4.
Qed.

(* ---- destructor ---- *)
Lemma dtor_loop_spec n tl : 2 <= n -> tl < 2 ^ 62 -> forall fuel l h,
  0 <= h <= tl -> tl - h <= Z.of_nat fuel -> tl - h <= n ->
  (forall p, h <= p < tl -> lget l (p mod n) = Alive) ->
  (forall p, tl <= p < h + n -> is_live (lget l (p mod n)) = false) -> l_errs l = [] ->
  l_errs (dtor_loop fuel n l h tl) = [] /\
  forall p, tl <= p < tl + n -> is_live (lget (dtor_loop fuel n l h tl) (p mod n)) = false.
Proof.
  intros Hn Htl. induction fuel as [|fuel IH]; intros l h B Bf Bk L1 L2 Ok.
  - cbn [dtor_loop]. assert (h = tl) by lia. subst h. split; [exact Ok | exact L2].
  - cbn [dtor_loop]. destruct (h =? tl) eqn:E.
    + apply Z.eqb_eq in E. subst h. split; [exact Ok | exact L2].
    + apply Z.eqb_neq in E. rewrite rw_mod by lia. rewrite u64_small by lia.
      assert (A : is_live (lget l (h mod n)) = true) by (rewrite L1 by lia; reflexivity).
      apply IH; [lia | lia | lia | | | ].
      * intros p Hp. rewrite lget_destroy_live by exact A. destruct (h mod n =? p mod n) eqn:M; [|apply L1; lia].
        apply Z.eqb_eq in M. exfalso. assert (h = p); [|lia]. apply (mod_window n h); [lia | lia | lia | exact M].
      * intros p Hp. rewrite lget_destroy_live by exact A. destruct (h mod n =? p mod n) eqn:M; [reflexivity|]. apply L2.
        destruct (Z.eq_dec p (h + n)) as [->|Ne]; [|lia]. rewrite C35Proofs.mod_plus_k, Z.eqb_refl in M by lia. discriminate.
      * rewrite errs_destroy_live by exact A. exact Ok.
Qed.

Theorem dtor_balanced_inv s : Inv2 s -> quiescent s = true -> tail s < 2 ^ 62 ->
  l_errs (dtor s) = [] /\ forall i, 0 <= i < N s -> is_live (lget (dtor s) i) = false.
Proof.
  intros I2 Q Htl. pose proof I2 as [[Gs _] _]. pose proof Gs as (Hn & Hht & Hb & Hlen & _ & _ & _ & _ & Ok).
  destruct (quiescent_live_inv s I2 Q) as [L1 L2].
  unfold dtor.
  destruct (dtor_loop_spec (N s) (tail s) Hn Htl (Z.to_nat (N s)) (led s) (head s)) as [D1 D2];
    [lia | lia | lia | exact L1 | exact L2 | exact Ok |].
  split; [exact D1|]. intros i Hi.
  specialize (D2 (tail s + (i - tail s) mod N s)).
  pose proof (Z.mod_pos_bound (i - tail s) (N s) ltac:(lia)) as Bm.
  rewrite Zplus_mod_idemp_r in D2. replace (tail s + (i - tail s)) with i in D2 by lia. rewrite (Z.mod_small i (N s)) in D2 by lia.
  apply D2. lia.
Qed.

(* ---- claim order ---- *)
(* a step either leaves head alone or is the successful head CAS of thread t, which claims exactly position head *)
Theorem head_step_inv s t ch s' ch' site : Inv s -> gstep s t ch = Some (s', ch', site) ->
  head s' = head s \/
  (head s' = head s + 1 /\ exists th', nth_error (threads s') t = Some th' /\ tpc th' = PPopRead (head s)).
Proof.
  intros [Gs Ls] E. unfold gstep in E. destruct (nowrap s) eqn:NW; [|discriminate].
  unfold nowrap in NW. apply Z.ltb_lt in NW.
  unfold step in E. destruct (nth_error (threads s) t) as [th|] eqn:Nt; [|discriminate].
  pose proof Gs as (Hn & Hht & Hb & _).
  destruct (tpc th) eqn:P;
    try (injection E as <- _ _; left; reflexivity);
    try (match type of E with context [if ?c then _ else _] => destruct c eqn:C end; injection E as <- _ _; left; reflexivity).
  - (* PPopCas *) destruct (head s =? h0) eqn:C; injection E as <- _ _; [|left; reflexivity].
    apply Z.eqb_eq in C. subst h0. right. cbn [head threads]. rewrite u64_small by lia. split; [reflexivity|].
    eexists. split; [eapply nth_error_set_nth_eq; exact Nt | reflexivity].
  - (* PBLoadSeq *)
    destruct ((sdiff (seq (slots s (ring_wrap (N s) (u64 (t0 + i))))) (u64 (t0 + i)) =? 0) && (i + 1 <? Z.of_nat (length vs)));
      [injection E as <- _ _; left; reflexivity|].
    destruct ((if sdiff (seq (slots s (ring_wrap (N s) (u64 (t0 + i))))) (u64 (t0 + i)) =? 0 then i + 1 else i) =? 0);
      injection E as <- _ _; left; reflexivity.
  - discriminate.
Qed.

(* the value a pop is about to return / has returned is the value claimed for its position *)
Theorem pop_value_inv s : Inv s ->
  zlen (gpush s) = tail s /\
  (forall e, In e (gpopped s) -> qval e = gval (gpush s) (qpos e)) /\
  (forall t th h0 v, nth_error (threads s) t = Some th -> tpc th = PPopStoreSeq h0 v -> v = gval (gpush s) h0 /\ 0 <= h0 < head s).
Proof.
  intros [Gs Ls]. pose proof Gs as (Hn & Hht & Hb & Hlen & Hsl & Q1 & _). split; [exact Hlen|]. split.
  - intros e He. apply (Q1 e He).
  - intros t th h0 v Nt P. pose proof (Ls t th Nt) as L. rewrite P in L. cbn in L. destruct L as (B0 & Pj & Cj & Vj).
    split; [exact Vj|]. destruct (Hsl _ (mod_idx (N s) h0 Hn)) as (_ & _ & Hp). rewrite Pj, Cj in Hp. lia.
Qed.

(* ================= the statements of Props/Properties_C34.v ================= *)
Lemma mpmc_reach_inv n progs s : 2 <= n -> reach gstep (init n progs) s -> Inv s /\ Own s.
Proof. intros Hn R. exact (mpmc_inv2 n progs s Hn R). Qed.

Lemma mpmc_at_most_once n progs s : 2 <= n -> reach gstep (init n progs) s ->
  NoDup (map qpos (gpopped s)) /\
  forall e, In e (gpopped s) -> 0 <= qpos e < head s /\ qval e = gval (gpush s) (qpos e).
Proof. intros Hn R. apply at_most_once_inv. apply (mpmc_inv2 n progs s Hn R). Qed.

Lemma mpmc_exactly_once_quiescent n progs s : 2 <= n -> reach gstep (init n progs) s -> quiescent s = true ->
  Permutation (map snd (gpush s)) (map qval (gpopped s) ++ contents s).
Proof. intros Hn R Q. apply quiescent_multiset_inv; [exact (mpmc_inv2 n progs s Hn R) | exact Q]. Qed.

Lemma mpmc_fifo_by_claim n progs s : 2 <= n -> reach gstep (init n progs) s ->
  zlen (gpush s) = tail s /\
  (forall e, In e (gpopped s) -> qval e = gval (gpush s) (qpos e)) /\
  (forall t th h0 v, nth_error (threads s) t = Some th -> tpc th = PPopStoreSeq h0 v -> v = gval (gpush s) h0 /\ 0 <= h0 < head s).
Proof. intros Hn R. apply pop_value_inv. apply (mpmc_inv2 n progs s Hn R). Qed.

Lemma mpmc_head_claims_in_order n progs s t ch s' ch' site : 2 <= n -> reach gstep (init n progs) s ->
  gstep s t ch = Some (s', ch', site) ->
  head s' = head s \/
  (head s' = head s + 1 /\ exists th', nth_error (threads s') t = Some th' /\ tpc th' = PPopRead (head s)).
Proof. intros Hn R. apply head_step_inv. apply (mpmc_inv2 n progs s Hn R). Qed.

Lemma mpmc_bounded n progs s : 2 <= n -> reach gstep (init n progs) s ->
  0 <= head s <= tail s /\ tail s - head s <= N s /\ zlen (contents s) = tail s - head s.
Proof. intros Hn R. apply bounded_inv. apply (mpmc_inv2 n progs s Hn R). Qed.

Lemma mpmc_quiescent_pop_iff_nonempty n progs s t th : 2 <= n -> reach gstep (init n progs) s -> quiescent s = true ->
  nth_error (threads s) t = Some th -> tpc th = PPopLoadHead -> tail s + 2 * N s < 2 ^ 62 ->
  (head s = tail s ->
     solo 2 s t = Some (ST (N s) (head s) (tail s) (slots s) (led s)
                        (set_nth (set_nth (threads s) t (goto th (PPopLoadTail (head s)))) t (advance (prog th) ((r_popfail, 0) :: res th)))
                        (gpush s) (gpopped s))) /\
  (head s < tail s ->
     exists s', solo 7 s t = Some s' /\ head s' = head s + 1 /\ tail s' = tail s /\
             gpopped s' = gpopped s ++ [(Z.of_nat t, (head s, gval (gpush s) (head s)))] /\
             nth_error (threads s') t = Some (advance (prog th) ((r_pop, gval (gpush s) (head s)) :: res th))).
Proof.
  intros Hn R Q Nt P NW. pose proof (mpmc_inv2 n progs s Hn R) as I2. split; intros H.
  - apply quiescent_pop_empty_inv; assumption.
  - apply quiescent_pop_nonempty_inv; assumption.
Qed.

Lemma mpmc_quiescent_push_iff_notfull n progs s t th v : 2 <= n -> reach gstep (init n progs) s -> quiescent s = true ->
  nth_error (threads s) t = Some th -> tpc th = PPushLoadTail v -> tail s + 2 * N s + 1 < 2 ^ 62 ->
  (tail s - head s = N s ->
     solo 2 s t = Some (ST (N s) (head s) (tail s) (slots s) (led s)
                        (set_nth (set_nth (threads s) t (goto th (PPushLoadSeq v (tail s)))) t (advance (prog th) ((r_pushfail, v) :: res th)))
                        (gpush s) (gpopped s))) /\
  (tail s - head s < N s ->
     exists s', solo 5 s t = Some s' /\ tail s' = tail s + 1 /\ head s' = head s /\
             gpush s' = gpush s ++ [(Z.of_nat t, v)] /\
             seq (slots s' (tail s mod N s)) = tail s + 1 /\ val (slots s' (tail s mod N s)) = v /\
             nth_error (threads s') t = Some (advance (prog th) ((r_push, v) :: res th))).
Proof.
  intros Hn R Q Nt P NW. pose proof (mpmc_inv2 n progs s Hn R) as I2. split; intros H.
  - apply quiescent_push_full_inv; try assumption. lia.
  - apply quiescent_push_notfull_inv; assumption.
Qed.

Lemma mpmc_lifetimes n progs s : 2 <= n -> reach gstep (init n progs) s ->
  l_errs (led s) = [] /\
  (quiescent s = true ->
     (forall p, head s <= p < tail s -> lget (led s) (p mod N s) = Alive) /\
     (forall p, tail s <= p < head s + N s -> is_live (lget (led s) (p mod N s)) = false)).
Proof.
  intros Hn R. pose proof (mpmc_inv2 n progs s Hn R) as I2. split; [apply lifetimes_inv; apply I2|].
  intros Q. apply quiescent_live_inv; assumption.
Qed.

Lemma mpmc_dtor_balanced n progs s : 2 <= n -> reach gstep (init n progs) s -> quiescent s = true -> tail s < 2 ^ 62 ->
  l_errs (dtor s) = [] /\ forall i, 0 <= i < N s -> is_live (lget (dtor s) i) = false.
Proof. intros Hn R Q H. apply dtor_balanced_inv; [exact (mpmc_inv2 n progs s Hn R) | exact Q | exact H]. Qed.

Lemma mpmc_run_reach fuel n progs sched : reach gstep (init n progs) (fst (fst (run_mpmc fuel n progs sched))).
Proof. apply run_reach. apply reach_refl. Qed.

(* the guarded step is the code's step as long as tail stays below the bound *)
Lemma gstep_is_step s t ch : tail s + 2 * N s < 2 ^ 62 -> gstep s t ch = step s t ch.
Proof. intros H. unfold gstep. rewrite (nowrap_of s H). reflexivity. Qed.

(* ================= quiescent try_push_batch ================= *)
Lemma solo_app a b s t : solo (a + b) s t = match solo a s t with Some s1 => solo b s1 t | None => None end.
Proof.
  revert s; induction a as [|a IH]; intros s; cbn [solo plus]; [reflexivity|].
  destruct (gstep s t []) as [[[s1 c] x]|]; [apply IH | reflexivity].
Qed.

Lemma set_nth_twice {A} (l : list A) t a b : set_nth (set_nth l t a) t b = set_nth l t b.
Proof. revert t; induction l as [|x l IH]; intros [|t]; cbn; try reflexivity. rewrite IH. reflexivity. Qed.

(* state s with thread t replaced *)
Definition upd_thread (s : state) (t : nat) (th' : thread) : state :=
  ST (N s) (head s) (tail s) (slots s) (led s) (set_nth (threads s) t th') (gpush s) (gpopped s).

Lemma upd_thread_twice s t a b : upd_thread (upd_thread s t a) t b = upd_thread s t b.
Proof. unfold upd_thread. cbn [N head tail slots led threads gpush gpopped]. rewrite set_nth_twice. reflexivity. Qed.

Lemma nth_upd_thread s t th th' : nth_error (threads s) t = Some th -> nth_error (threads (upd_thread s t th')) t = Some th'.
Proof. intros H. unfold upd_thread. cbn [threads]. eapply nth_error_set_nth_eq; eauto. Qed.

(* the validation loop of try_push_batch when slots tail+i .. tail+k-1 are free for their positions and either the count
   is exhausted at k or slot tail+k is not free *)
Lemma valid_loop t vs t0 k : forall (m : nat) s th i,
  nth_error (threads s) t = Some th -> tpc th = PBLoadSeq vs t0 i ->
  tail s + 2 * N s < 2 ^ 62 -> 2 <= N s -> 0 <= t0 <= tail s -> zlen vs <= N s ->
  0 <= i < k -> k <= zlen vs -> k - i = Z.of_nat m ->
  (forall j, i <= j < k -> seq (slots s ((t0 + j) mod N s)) = t0 + j) ->
  (k = zlen vs \/ (0 <= seq (slots s ((t0 + k) mod N s)) < 2 ^ 62 /\ seq (slots s ((t0 + k) mod N s)) <> t0 + k)) ->
  exists steps, solo steps s t = Some (upd_thread s t (goto th (PBCas vs t0 k))).
Proof.
  induction m as [|m IH]; intros s th i Nt P NW Hn Bt Bv Bi Bk Em Hs Hend; [lia|].
  assert (OK : sdiff (seq (slots s (ring_wrap (N s) (u64 (t0 + i))))) (u64 (t0 + i)) =? 0 = true).
  { rewrite u64_small by lia. rewrite rw_mod by lia. rewrite Hs by lia. rewrite sdiff_small by lia. rewrite Z.sub_diag. reflexivity. }
  destruct (Z_lt_ge_dec (i + 1) (zlen vs)) as [Lt|Ge].
  - (* the loop goes on to i+1 *)
    set (th1 := goto th (PBLoadSeq vs t0 (i + 1))).
    assert (E1 : gstep s t [] = Some (upd_thread s t th1, [], s_pushb_seq_load)).
    { unfold gstep, step. rewrite (nowrap_of s NW), Nt, P. rewrite OK. fold (zlen vs).
      replace (i + 1 <? zlen vs) with true by (symmetry; apply Z.ltb_lt; exact Lt). reflexivity. }
    destruct (Z_lt_ge_dec (i + 1) k) as [Ltk|Gek].
    + destruct (IH (upd_thread s t th1) th1 (i + 1)) as [steps Hsteps]; try assumption; try lia.
      * eapply nth_upd_thread; eauto.
      * reflexivity.
      * intros j Hj. apply Hs. lia.
      * exists (S steps). rewrite (solo_step _ _ _ _ _ E1). rewrite Hsteps. rewrite upd_thread_twice. reflexivity.
    + (* i+1 = k < count: the next load sees a slot that is not free *)
      assert (k = i + 1) by lia. subst k. destruct Hend as [He|[Hb Hne]]; [lia|].
      exists 2%nat. rewrite (solo_step _ _ _ _ _ E1). cbn [solo]. unfold gstep, step.
      rewrite (nowrap_of (upd_thread s t th1) NW). rewrite (nth_upd_thread s t th th1 Nt). cbn [th1 goto tpc upd_thread N slots head tail led gpush gpopped].
      rewrite u64_small by lia. rewrite rw_mod by lia. rewrite sdiff_small by lia.
      destruct (seq (slots s ((t0 + (i + 1)) mod N s)) - (t0 + (i + 1)) =? 0) eqn:C; [apply Z.eqb_eq in C; lia|].
      cbn [andb]. destruct (i + 1 =? 0) eqn:C2; [apply Z.eqb_eq in C2; lia|].
      unfold upd_thread. cbn [threads N head tail slots led gpush gpopped]. rewrite set_nth_twice. reflexivity.
  - (* count exhausted *)
    assert (k = i + 1) by lia. subst k.
    exists 1%nat. cbn [solo]. unfold gstep, step. rewrite (nowrap_of s NW), Nt, P. rewrite OK. fold (zlen vs).
    replace (i + 1 <? zlen vs) with false by (symmetry; apply Z.ltb_ge; lia). cbn [andb].
    destruct (i + 1 =? 0) eqn:C2; [apply Z.eqb_eq in C2; lia|]. reflexivity.
Qed.

Lemma idle_advance p r : idle_pc (tpc (advance p r)) = true.
Proof.
  revert r; induction p as [|o p IH]; intros r; cbn [advance]; [reflexivity|].
  destruct o as [v| |vs]; [reflexivity | reflexivity|]. destruct vs; [apply IH | reflexivity].
Qed.

(* the construct-and-publish loop of try_push_batch runs to completion without looking at shared state *)
Lemma write_loop t vs t0 k : forall (m : nat) s th i,
  nth_error (threads s) t = Some th -> tpc th = PBWrite vs t0 i k ->
  tail s + 2 * N s < 2 ^ 62 -> 2 <= N s -> 0 <= t0 -> t0 + k <= tail s ->
  0 <= i < k -> k - i = Z.of_nat m ->
  exists s', solo (2 * m) s t = Some s' /\ N s' = N s /\ head s' = head s /\ tail s' = tail s /\ gpush s' = gpush s /\
             gpopped s' = gpopped s /\
             threads s' = set_nth (threads s) t (advance (prog th) ((r_pushb, k) :: rev (map (fun v => (r_push, v)) (firstn (Z.to_nat k) vs)) ++ res th)).
Proof.
  induction m as [|m IH]; intros s th i Nt P NW Hn B0 Bt Bi Em; [lia|].
  (* write *)
  set (j := (t0 + i) mod N s).
  set (th1 := goto th (PBStoreSeq vs t0 i k)).
  set (s1 := ST (N s) (head s) (tail s) (fupd (slots s) j (with_val (slots s j) (nth (Z.to_nat i) vs 0) (Written t)))
                (construct KMove j (led s)) (set_nth (threads s) t th1) (gpush s) (gpopped s)).
  assert (E1 : gstep s t [] = Some (s1, [], s_pushb_data_write)).
  { unfold gstep, step. rewrite (nowrap_of s NW), Nt, P. rewrite u64_small by lia. rewrite rw_mod by lia. reflexivity. }
  assert (Nt1 : nth_error (threads s1) t = Some th1) by (apply nth_error_set_nth_eq with th; exact Nt).
  assert (NW1 : tail s1 + 2 * N s1 < 2 ^ 62) by exact NW.
  replace (2 * S m)%nat with (S (S (2 * m))) by lia.
  rewrite (solo_step _ _ _ _ _ E1).
  destruct (Z_lt_ge_dec (i + 1) k) as [Lt|Ge].
  - (* publish and continue *)
    set (th2 := goto th1 (PBWrite vs t0 (i + 1) k)).
    set (s2 := ST (N s) (head s) (tail s) (fupd (slots s1) j (with_seq (slots s1 j) (t0 + i + 1) Full)) (led s1)
                  (set_nth (threads s1) t th2) (gpush s) (gpopped s)).
    assert (E2 : gstep s1 t [] = Some (s2, [], s_pushb_seq_store)).
    { unfold gstep, step. rewrite (nowrap_of s1 NW1), Nt1. cbn [th1 goto tpc s1 N head tail slots led gpush gpopped].
      rewrite !u64_small by lia. rewrite rw_mod by lia. fold j.
      replace (i + 1 <? k) with true by (symmetry; apply Z.ltb_lt; exact Lt). reflexivity. }
    rewrite (solo_step _ _ _ _ _ E2).
    assert (Nt2 : nth_error (threads s2) t = Some th2) by (apply nth_error_set_nth_eq with th1; exact Nt1).
    destruct (IH s2 th2 (i + 1) Nt2 eq_refl NW Hn B0 Bt ltac:(lia) ltac:(lia)) as [s' (Hs & H1 & H2 & H3 & H4 & H5 & H6)].
    exists s'. split; [exact Hs|]. cbn [s2 N head tail gpush gpopped threads] in *.
    split; [exact H1|]. split; [exact H2|]. split; [exact H3|]. split; [exact H4|]. split; [exact H5|].
    rewrite H6. cbn [s1 threads th2 th1 goto prog res]. rewrite !set_nth_twice. reflexivity.
  - (* last element: publish and return *)
    assert (m = 0%nat) by lia. subst m. cbn [Nat.mul solo].
    unfold gstep, step. rewrite (nowrap_of s1 NW1), Nt1. cbn [th1 goto tpc s1 N head tail slots led gpush gpopped].
    rewrite !u64_small by lia. rewrite rw_mod by lia.
    replace (i + 1 <? k) with false by (symmetry; apply Z.ltb_ge; lia).
    eexists. split; [reflexivity|]. cbn [N head tail gpush gpopped threads].
    split; [reflexivity|]. split; [reflexivity|]. split; [reflexivity|]. split; [reflexivity|]. split; [reflexivity|].
    unfold s1. cbn [threads]. rewrite set_nth_twice. reflexivity.
Qed.

Lemma forallb_set_nth {A} (f : A -> bool) l t x : forallb f l = true -> f x = true -> forallb f (set_nth l t x) = true.
Proof.
  revert t; induction l as [|a l IH]; intros [|t] H Hx; cbn in *; try reflexivity.
  - apply andb_true_iff in H. rewrite Hx. cbn. tauto.
  - apply andb_true_iff in H. destruct H as [Ha Hl]. rewrite Ha. cbn. apply IH; assumption.
Qed.

Lemma solo_trans a b s t s1 s2 : solo a s t = Some s1 -> solo b s1 t = Some s2 -> solo (a + b) s t = Some s2.
Proof. intros H1 H2. rewrite solo_app, H1. exact H2. Qed.

(* in a quiescent state try_push_batch run alone accepts min(count, kBufferSize, free space) elements *)
Theorem quiescent_batch_inv s t th vs :
  Inv2 s -> quiescent s = true -> nth_error (threads s) t = Some th -> tpc th = PBLoadTail vs ->
  tail s + 3 * N s < 2 ^ 62 ->
  let k := Z.min (Z.min (zlen vs) (N s)) (N s - (tail s - head s)) in
  exists steps s', solo steps s t = Some s' /\ tail s' = tail s + k /\ head s' = head s /\ quiescent s' = true /\
    nth_error (threads s') t =
      Some (advance (prog th) ((r_pushb, k) :: rev (map (fun v => (r_push, v)) (firstn (Z.to_nat k) vs)) ++ res th)).
Proof.
  intros I2 Q Nt P NW k. pose proof I2 as [[Gs Ls] _]. pose proof Gs as (Hn & Hht & Hb & Hlen & Hsl & _).
  pose proof (Ls t th Nt) as L. rewrite P in L. cbn in L.
  assert (NW2 : tail s + 2 * N s < 2 ^ 62) by lia.
  set (vs' := firstn (Z.to_nat (N s)) vs).
  assert (Zv : zlen vs' = Z.min (zlen vs) (N s)).
  { unfold vs', zlen. rewrite firstn_length. lia. }
  assert (Zv1 : 1 <= zlen vs) by (destruct vs; [contradiction | unfold zlen; cbn [length]; lia]).
  set (th1 := goto th (PBLoadSeq vs' (tail s) 0)).
  assert (E1 : gstep s t [] = Some (upd_thread s t th1, [], s_pushb_tail_load)).
  { unfold gstep, step. rewrite (nowrap_of s NW2), Nt, P. reflexivity. }
  assert (Nt1 : nth_error (threads (upd_thread s t th1)) t = Some th1) by (eapply nth_upd_thread; eauto).
  destruct (Z.eq_dec (tail s - head s) (N s)) as [Full|NotFull].
  - (* full: the first slot is not free *)
    assert (K0 : k = 0) by (unfold k; lia).
    destruct (quiescent_full_range s I2 Q (tail s - N s) ltac:(lia)) as (_ & Sf & _).
    assert (Em : (tail s - N s) mod N s = tail s mod N s).
    { rewrite <- (C35Proofs.mod_plus_k (tail s - N s) (N s)) by lia. f_equal. lia. }
    rewrite Em in Sf.
    exists 2%nat. eexists. split.
    + rewrite (solo_step _ _ _ _ _ E1). cbn [solo]. unfold gstep, step.
      rewrite (nowrap_of (upd_thread s t th1) NW2), Nt1. cbn [th1 goto tpc upd_thread N slots head tail led gpush gpopped].
      rewrite Z.add_0_r. rewrite u64_small by lia. rewrite rw_mod by lia. rewrite Sf. rewrite sdiff_small by lia.
      destruct (tail s - N s + 1 - tail s =? 0) eqn:C; [apply Z.eqb_eq in C; lia|]. cbn [andb Z.eqb]. reflexivity.
    + unfold upd_thread. cbn [head tail threads]. rewrite K0. split; [lia|]. split; [reflexivity|]. split.
      * unfold quiescent. cbn [threads]. rewrite set_nth_twice. apply forallb_set_nth; [exact Q | apply idle_advance].
      * rewrite set_nth_twice. cbn [Z.to_nat firstn map rev app]. eapply nth_error_set_nth_eq. exact Nt.
  - (* some space *)
    assert (K1 : 1 <= k) by (unfold k; lia).
    assert (Kc : k <= zlen vs') by (rewrite Zv; unfold k; lia).
    assert (Kf : k <= N s - (tail s - head s)) by (unfold k; lia).
    (* validation loop *)
    assert (Bt1 : 0 <= tail s <= tail (upd_thread s t th1)) by (cbn [upd_thread tail]; lia).
    assert (Bv1 : zlen vs' <= N (upd_thread s t th1)) by (cbn [upd_thread N]; lia).
    destruct (valid_loop t vs' (tail s) k (Z.to_nat k) (upd_thread s t th1) th1 0 Nt1 eq_refl NW2 Hn Bt1 Bv1 ltac:(lia) Kc ltac:(lia))
      as [st2 H2].
    { intros j Hj. apply (quiescent_free_range s I2 Q (tail s + j)). lia. }
    { destruct (Z.eq_dec k (zlen vs')) as [->|Ne]; [left; reflexivity | right].
      assert (Ek : tail s + k = head s + N s) by lia. cbn [upd_thread slots N].
      destruct (quiescent_full_range s I2 Q (head s) ltac:(lia)) as (_ & Sf & _).
      rewrite Ek, C35Proofs.mod_plus_k by lia. rewrite Sf. lia. }
    rewrite upd_thread_twice in H2.
    set (th2 := goto th1 (PBCas vs' (tail s) k)) in *.
    assert (Nt2 : nth_error (threads (upd_thread s t th2)) t = Some th2) by (eapply nth_upd_thread; eauto).
    (* CAS *)
    set (th3 := goto th2 (PBWrite vs' (tail s) 0 k)).
    set (s3 := ST (N s) (head s) (tail s + k) (mark_claimed (slots s) (N s) t (tail s) k) (led s) (set_nth (threads (upd_thread s t th2)) t th3)
                  (gpush s ++ map (fun v => (Z.of_nat t, v)) (firstn (Z.to_nat k) vs')) (gpopped s)).
    assert (E3 : gstep (upd_thread s t th2) t [] = Some (s3, [], s_pushb_tail_cas)).
    { unfold gstep, step. rewrite (nowrap_of (upd_thread s t th2) NW2), Nt2. cbn [th2 goto tpc upd_thread N slots head tail led gpush gpopped].
      rewrite Z.eqb_refl. rewrite u64_small by lia. reflexivity. }
    assert (Nt3 : nth_error (threads s3) t = Some th3) by (apply nth_error_set_nth_eq with th2; exact Nt2).
    (* construct-and-publish loop *)
    destruct (write_loop t vs' (tail s) k (Z.to_nat k) s3 th3 0 Nt3 eq_refl) as [s' (Hs & H1 & Hh & Ht & _ & _ & Hth)];
      [cbn [s3 tail N]; lia | exact Hn | lia | cbn [s3 tail]; lia | lia | lia |].
    exists (1 + (st2 + (1 + 2 * Z.to_nat k)))%nat, s'. split.
    + change (1 + (st2 + (1 + 2 * Z.to_nat k)))%nat with (S (st2 + (1 + 2 * Z.to_nat k))).
      rewrite (solo_step _ _ _ _ _ E1). apply (solo_trans _ _ _ _ _ _ H2).
      change (1 + 2 * Z.to_nat k)%nat with (S (2 * Z.to_nat k)). rewrite (solo_step _ _ _ _ _ E3). exact Hs.
    + cbn [s3 tail head] in Ht, Hh. split; [exact Ht|]. split; [exact Hh|].
      cbn [s3 threads upd_thread th3 th2 th1 goto prog res] in Hth. rewrite !set_nth_twice in Hth.
      assert (Ef : firstn (Z.to_nat k) vs' = firstn (Z.to_nat k) vs).
      { unfold vs'. rewrite firstn_firstn. f_equal. rewrite Zv in Kc. lia. }
      rewrite Ef in Hth. split.
      * unfold quiescent. rewrite Hth. apply forallb_set_nth; [exact Q | apply idle_advance].
      * rewrite Hth. eapply nth_error_set_nth_eq. exact Nt.
Qed.

Lemma mpmc_quiescent_push_batch n progs s t th vs : 2 <= n -> reach gstep (init n progs) s -> quiescent s = true ->
  nth_error (threads s) t = Some th -> tpc th = PBLoadTail vs -> tail s + 3 * N s < 2 ^ 62 ->
  let k := Z.min (Z.min (zlen vs) (N s)) (N s - (tail s - head s)) in
  exists steps s', solo steps s t = Some s' /\ tail s' = tail s + k /\ head s' = head s /\ quiescent s' = true /\
    nth_error (threads s') t =
      Some (advance (prog th) ((r_pushb, k) :: rev (map (fun v => (r_push, v)) (firstn (Z.to_nat k) vs)) ++ res th)).
Proof. intros Hn R Q Nt P NW. apply quiescent_batch_inv; try assumption. exact (mpmc_inv2 n progs s Hn R). Qed.

(* ================= per-thread order of claimed positions ================= *)
Definition PF (gq : list (Z * (Z * Z))) (t : nat) (p : pc) : Prop :=
  match p with
  | PPopRead h0 | PPopDestroy h0 _ | PPopStoreSeq h0 _ => forall e, In e gq -> fst e = Z.of_nat t -> qpos e < h0
  | _ => True
  end.

(* two completed pops of the same thread: the earlier one has the smaller position *)
Definition tsorted (gq : list (Z * (Z * Z))) : Prop :=
  forall l1 e1 l2 e2 l3, gq = l1 ++ e1 :: l2 ++ e2 :: l3 -> fst e1 = fst e2 -> qpos e1 < qpos e2.

Definition Inv3 (s : state) : Prop :=
  (forall t th, nth_error (threads s) t = Some th -> PF (gpopped s) t (tpc th)) /\ tsorted (gpopped s).

Lemma tsorted_snoc gq e : tsorted gq -> (forall e', In e' gq -> fst e' = fst e -> qpos e' < qpos e) -> tsorted (gq ++ [e]).
Proof.
  intros S H l1 e1 l2 e2 l3 E Ef.
  destruct l3 as [|x l3'] using rev_ind.
  - replace (l1 ++ e1 :: l2 ++ [e2]) with ((l1 ++ e1 :: l2) ++ [e2]) in E by (rewrite <- app_assoc; reflexivity).
    apply app_inj_tail in E. destruct E as [Eg <-]. apply H; [|exact Ef]. rewrite Eg. apply in_or_app. right. left. reflexivity.
  - clear IHl3'. replace (l1 ++ e1 :: l2 ++ e2 :: l3' ++ [x]) with ((l1 ++ e1 :: l2 ++ e2 :: l3') ++ [x]) in E.
    + apply app_inj_tail in E. destruct E as [Eg _]. eapply S; eauto.
    + rewrite <- app_assoc. cbn [app]. f_equal. f_equal. rewrite <- app_assoc. reflexivity.
Qed.

Lemma pf_next gq t th : PF gq t (tpc (next th)).
Proof.
  unfold next. generalize (res th). induction (prog th) as [|o p IH]; intros r; cbn [advance]; [exact I|].
  destruct o as [v| |vs]; [exact I | exact I|]. destruct vs; [apply IH | exact I].
Qed.

(* a step of thread t that does not complete a pop *)
Lemma inv3_same s t th th' n' hd' tl' sl' l' gp' :
  Inv3 s -> nth_error (threads s) t = Some th -> PF (gpopped s) t (tpc th') ->
  Inv3 (ST n' hd' tl' sl' l' (set_nth (threads s) t th') gp' (gpopped s)).
Proof.
  intros [H1 H2] Nt Hp. split; [|exact H2]. cbn [threads gpopped]. intros t2 th2 N2.
  destruct (Nat.eq_dec t2 t) as [->|D].
  - rewrite (nth_error_set_nth_eq _ _ _ _ Nt) in N2. injection N2 as <-. exact Hp.
  - rewrite nth_error_set_nth_neq in N2 by congruence. apply H1. exact N2.
Qed.

Lemma step_inv3 s t ch s' ch' site : Inv s -> Inv3 s -> gstep s t ch = Some (s', ch', site) -> Inv3 s'.
Proof.
  intros I0 I3 E. pose proof I0 as [Gs Ls]. pose proof I3 as [H1 H2].
  unfold gstep in E. destruct (nowrap s) eqn:NW; [|discriminate].
  unfold step in E. destruct (nth_error (threads s) t) as [th|] eqn:Nt; [|discriminate].
  pose proof (H1 t th Nt) as Pt.
  pose proof Gs as (Hn & Hht & Hb & Hlen & Hsl & Q1 & _).
  destruct (tpc th) as [ | v | v t0 | v t0 | v t0 | v t0 | | h0 | h0 | h0 | h0 | h0 v | h0 v | vs | vs t0 i | vs t0 a | vs t0 i a | vs t0 i a | ] eqn:P; cbn [PF] in Pt;
    try (injection E as <- _ _; eapply inv3_same; [exact I3 | exact Nt | first [exact I | exact Pt | apply pf_next]]);
    try (match type of E with context [if ?c then _ else _] => destruct c eqn:C end; injection E as <- _ _;
         (eapply inv3_same; [exact I3 | exact Nt | first [exact I | apply pf_next]])).
  - (* PPopCas *) destruct (head s =? h0) eqn:C; injection E as <- _ _.
    + apply Z.eqb_eq in C. subst h0. eapply inv3_same; [exact I3 | exact Nt |]. cbn [goto tpc PF].
      intros e He _. apply (Q1 e He).
    + eapply inv3_same; [exact I3 | exact Nt | apply pf_next].
  - (* PPopStoreSeq *) injection E as <- _ _. split.
    + cbn [threads gpopped]. intros t2 th2 N2. destruct (Nat.eq_dec t2 t) as [->|D].
      * rewrite (nth_error_set_nth_eq _ _ _ _ Nt) in N2. injection N2 as <-. apply pf_next.
      * rewrite nth_error_set_nth_neq in N2 by congruence. pose proof (H1 t2 th2 N2) as P2.
        destruct (tpc th2); cbn [PF] in *; try exact I;
          (intros e He Ee; apply in_app_or in He; destruct He as [He|[<-|[]]]; [apply P2; assumption | cbn [fst] in Ee; lia]).
    + cbn [gpopped]. apply tsorted_snoc; [exact H2|]. intros e' He' Ee'. cbn [fst] in Ee'. unfold qpos at 2. cbn [fst snd].
      apply Pt; assumption.
  - (* PBLoadSeq *)
    destruct ((sdiff (seq (slots s (ring_wrap (N s) (u64 (t0 + i))))) (u64 (t0 + i)) =? 0) && (i + 1 <? Z.of_nat (length vs)));
      [injection E as <- _ _; eapply inv3_same; [exact I3 | exact Nt | exact I]|].
    destruct ((if sdiff (seq (slots s (ring_wrap (N s) (u64 (t0 + i))))) (u64 (t0 + i)) =? 0 then i + 1 else i) =? 0);
      injection E as <- _ _; (eapply inv3_same; [exact I3 | exact Nt | first [apply pf_next | exact I]]).
  - discriminate.
Qed.

Theorem mpmc_inv3 n progs s : 2 <= n -> reach gstep (init n progs) s -> Inv s /\ Inv3 s.
Proof.
  intros Hn R. apply (reach_inv gstep (fun s => Inv s /\ Inv3 s) (init n progs)); [| | exact R].
  - split; [apply init_inv; exact Hn|]. split.
    + intros t th Nt. unfold init in Nt. cbn [threads] in Nt. apply nth_error_In in Nt. apply in_map_iff in Nt.
      destruct Nt as [p [<- _]]. exact I.
    + intros l1 e1 l2 e2 l3 E. unfold init in E. cbn [gpopped] in E. destruct l1; discriminate.
  - intros s1 t ch s1' ch' site [I I3] E. split; [eapply step_inv; eauto | eapply step_inv3; eauto].
Qed.

(* within one thread, successive completed pops have claimed strictly increasing positions *)
Lemma mpmc_per_thread_pop_order n progs s l1 e1 l2 e2 l3 : 2 <= n -> reach gstep (init n progs) s ->
  gpopped s = l1 ++ e1 :: l2 ++ e2 :: l3 -> fst e1 = fst e2 -> qpos e1 < qpos e2.
Proof. intros Hn R. destruct (mpmc_inv3 n progs s Hn R) as [_ [_ S]]. apply S. Qed.

(* ================= the payload is dead before the sequence store that hands the slot back ================= *)
Lemma mpmc_payload_dead_before_release n progs s t th h0 v : 2 <= n -> reach gstep (init n progs) s ->
  nth_error (threads s) t = Some th -> tpc th = PPopStoreSeq h0 v ->
  ph (slots s (h0 mod N s)) = Taken t /\ is_live (lget (led s) (h0 mod N s)) = false.
Proof.
  intros Hn R Nt P. destruct (mpmc_inv2 n progs s Hn R) as [[Gs Ls] _].
  pose proof (Ls t th Nt) as L. rewrite P in L. cbn in L. destruct L as (B0 & Pj & Cj & _).
  destruct Gs as (Hn' & _ & _ & _ & Hsl & _). destruct (Hsl _ (mod_idx (N s) h0 Hn')) as (_ & _ & Hp).
  rewrite Pj in Hp. split; [exact Pj | tauto].
Qed.
