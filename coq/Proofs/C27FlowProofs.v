(* C27, item flow: for every item tag and every stage, over all interleavings of Model/PipelineModel.v:
     generated(tag)  = waiting for stage 0 + entered stage 0 + lost before stage 0
     entered(j, tag) = inside stage j + thrown at j + finished at j + waiting for stage j+1 + entered stage j+1 + lost before stage j+1
   ("lost" = discarded by cleanupNotRun, skipped by the cancelled wrapper, not run because hasException(), stranded in a queue).
   Consequences: no (stage, item) is ever entered twice; an item enters stage j+1 only after entering stage j. *)
From Coq Require Import ZArith List Bool Lia.
From DV Require Import Base.MachInt Base.Sched Model.PipelineModel Proofs.PipelineProofs.
Import ListNotations.
Local Open Scope Z_scope.

Definition tagis (tag : Z) (it : item) : bool := fst it =? tag.
Definition evw (k : Z) (j : nat) (tag : Z) (e : event) : Z := bz ((e_kind e =? k) && (e_j e =? Z.of_nat j) && (e_tag e =? tag)).
Definition lostw (j : nat) (tag : Z) (e : event) : Z := evw 7 j tag e + evw 8 j tag e + evw 11 j tag e + evw 12 j tag e + evw 15 j tag e.

(* the item waits for stage j0: between the call of schedule() and the start of the stage's task body *)
Definition pre_f (j0 : nat) (tag : Z) (f : frame) : Z :=
  match f with
  | FGen (GSched it pc) => bz (Nat.eqb j0 0 && sched_pre pc && tagis tag it)
  | FTask false j it TUExc _ => bz (Nat.eqb j0 j && tagis tag it)
  | FTask _ j it (TSched pc) _ => bz (Nat.eqb j0 (S j) && sched_pre pc && tagis tag it)
  | FMain (MWait j pc held) => bz (Nat.eqb j0 j && wait_holds pc && tagis tag held)
  | FPool (TL j it) PRun | FPool (TU j it) PRun => bz (Nat.eqb j0 j && tagis tag it)
  | _ => 0
  end.
Definition pre_b (j0 : nat) (tag : Z) (tk : ptask) : Z :=
  match tk with TL j it | TU j it => bz (Nat.eqb j0 j && tagis tag it) | TGen => 0 end.
Definition pre_q (j0 : nat) (tag : Z) (j : nat) (it : item) : Z := bz (Nat.eqb j0 j && tagis tag it).
(* the item is inside stage j0: from the start of the user function to the hand-over to the next stage *)
Definition post_f (j0 : nat) (tag : Z) (f : frame) : Z :=
  match f with FTask _ j it pc _ => bz (Nat.eqb j0 j && post_pc pc && tagis tag it) | _ => 0 end.

Definition mQ (j0 : nat) (tag : Z) : meas := MS
  (fun f => post_f j0 tag f + pre_f (S j0) tag f) (pre_q (S j0) tag) (pre_b (S j0) tag)
  (fun e => evw 3 j0 tag e + evw 17 j0 tag e + evw 1 (S j0) tag e + lostw (S j0) tag e - evw 1 j0 tag e).
Definition mQ0 (tag : Z) : meas := MS
  (pre_f 0 tag) (pre_q 0 tag) (pre_b 0 tag)
  (fun e => evw 1 0 tag e + lostw 0 tag e - bz ((e_kind e =? 4) && (e_tag e =? tag))).
Definition m_gen4 (tag : Z) : meas := MS (fun _ => 0) (fun _ _ => 0) (fun _ => 0) (fun e => bz ((e_kind e =? 4) && (e_tag e =? tag))).
Definition gen4_val (c : cfg) (s : shared) (tag : Z) : Z :=
  bz ((0 <=? tag) && (tag <? gnext s) && (tag <? c_nitems c) && negb (tag =? c_gthrow c)).

Lemma strandw_Q j0 tag t k gs : strandw (mQ j0 tag) t k gs = gatesw (mQ j0 tag) k gs.
Proof.
  apply strandw_eq_gatesw. intros j it. cbn [me mq mQ]. unfold lostw, evw, pre_q, tagis. cbn [e_kind e_j e_tag ev fst snd].
  rewrite ?zof_eqb. repeat match goal with |- context [Z.eqb ?a ?b] => destruct (Z.eqb_spec a b); try lia end.
  all: repeat match goal with |- context [Nat.eqb ?a ?b] => destruct (Nat.eqb_spec a b); try lia end; try reflexivity; try congruence.
Qed.
Lemma strandw_Q0 tag t k gs : strandw (mQ0 tag) t k gs = gatesw (mQ0 tag) k gs.
Proof.
  apply strandw_eq_gatesw. intros j it. cbn [me mq mQ0]. unfold lostw, evw, pre_q, tagis. cbn [e_kind e_j e_tag ev fst snd].
  rewrite ?zof_eqb. repeat match goal with |- context [Z.eqb ?a ?b] => destruct (Z.eqb_spec a b); try lia end.
  all: repeat match goal with |- context [Nat.eqb ?a ?b] => destruct (Nat.eqb_spec a b); try lia end; try reflexivity; try congruence.
Qed.

Ltac flow_pre Hst m :=
  acct_pre Hst;
  repeat (first [ rewrite gatesw_upd_q by lia | rewrite gatesw_upd_enq by lia ]);
  try (erewrite !qw_rem by eassumption);
  cbn [mf mq mb me mQ mQ0 m_gen4]; unfold pre_f, pre_b, pre_q, post_f, lostw, evw, tagis, gen4_val;
  cbn [gates bag bprods pout exc canceled compl gnext done result log w_gates w_bag w_pout w_exc w_canceled w_compl w_gnext w_done w_result add_log upd_gate gate_enq].

Lemma Q_local c t s th ch s1 th1 ch1 site wake j0 tag :
  (0 < nstages c)%nat -> wf_shared c s -> wf_thread c th ->
  mstep_thread c t s th ch = Some (s1, th1, ch1, site, wake) -> dlt (mQ j0 tag) s th s1 th1 = 0.
Proof.
  intros H0 [[WL WG] WB] WT H. unfold wf_thread in *. unfold dlt. step_cases H th; wf_fin; subst.
  all: try (pose proof (nth_error_gate_lt _ _ _ _ Hn)).
  all: flow_pre Hst (mQ j0 tag); rewrite ?strandw_Q.
  all: acct_fin.
Qed.

Lemma Q0_local c t s th ch s1 th1 ch1 site wake tag :
  (0 < nstages c)%nat -> wf_shared c s -> wf_thread c th ->
  mstep_thread c t s th ch = Some (s1, th1, ch1, site, wake) -> dlt (mQ0 tag) s th s1 th1 = 0.
Proof.
  intros H0 [[WL WG] WB] WT H. unfold wf_thread in *. unfold dlt. step_cases H th; wf_fin; subst.
  all: try (pose proof (nth_error_gate_lt _ _ _ _ Hn)).
  all: flow_pre Hst (mQ0 tag); rewrite ?strandw_Q0.
  all: acct_fin.
Qed.

Ltac cmp_cases :=
  repeat match goal with
  | |- context [Z.leb ?a ?b] => destruct (Z.leb_spec a b)
  | |- context [Z.ltb ?a ?b] => destruct (Z.ltb_spec a b)
  end.

Lemma gen4_local c t s th ch s1 th1 ch1 site wake tag :
  (0 < nstages c)%nat -> wf_shared c s -> wf_thread c th ->
  mstep_thread c t s th ch = Some (s1, th1, ch1, site, wake) -> dlt (m_gen4 tag) s th s1 th1 = gen4_val c s1 tag - gen4_val c s tag.
Proof.
  intros H0 [[WL WG] WB] WT H. unfold wf_thread in *. unfold dlt, gen4_val. step_cases H th; wf_fin; subst.
  all: flow_pre Hst (m_gen4 tag).
  all: rewrite ?(gatesw_zero (m_gen4 tag)) by reflexivity; rewrite ?(strandw_zero (m_gen4 tag)) by (intros; reflexivity).
  all: cbn [mf mq mb me m_gen4].
  all: repeat match goal with |- context [match ?x with _ => _ end] => is_var x; destruct x end.
  all: repeat match goal with |- context [if ?b then _ else _] => destruct b eqn:? end.
  all: eqb_cases; cmp_cases; wsimp; bool_hyps; lia.
Qed.

(* ---------- the state-level flow invariant ---------- *)
Definition FlowInv (c : cfg) (s : state) : Prop :=
  forall tag, total (mQ0 tag) s = 0 /\ total (m_gen4 tag) s = gen4_val c (sh s) tag /\ forall j0, total (mQ j0 tag) s = 0.

Lemma total_init_all0 m c :
  (forall f, mf m f = 0) -> total m (init c) = 0.
Proof.
  intros F. unfold total, init, shw, thsw; cbn [sh threads gates bag log].
  assert (G : forall k l, gatesw m k (map init_gate l) = 0) by (intros k l; revert k; induction l as [|a l IH]; intros k; cbn; [reflexivity | rewrite IH; reflexivity]).
  rewrite G. cbn. rewrite F. rewrite sumf_zero; [lia|]. intros x Hx. apply in_map_iff in Hx. destruct Hx as [w [<- _]]. cbn. rewrite F. lia.
Qed.

Lemma init_total_frames m c :
  mf m (FMain MStart) = 0 -> mf m (FWorker false) = 0 -> total m (init c) = 0.
Proof.
  intros F1 F2. unfold total, init, shw, thsw; cbn [sh threads gates bag log].
  assert (G : forall k l, gatesw m k (map init_gate l) = 0) by (intros k l; revert k; induction l as [|a l IH]; intros k; cbn; [reflexivity | rewrite IH; reflexivity]).
  rewrite G. cbn. rewrite F1. rewrite sumf_zero; [lia|]. intros x Hx. apply in_map_iff in Hx. destruct Hx as [w [<- _]]. cbn. rewrite F2. lia.
Qed.

Lemma FlowInv_init c : FlowInv c (init c).
Proof.
  intros tag. split; [apply init_total_frames; reflexivity|]. split.
  - rewrite init_total_frames by reflexivity. unfold gen4_val, init; cbn [sh gnext].
    destruct (0 <=? tag) eqn:A; cbn; [|reflexivity]. destruct (tag <? 0) eqn:B; cbn; [|reflexivity].
    apply Z.leb_le in A. apply Z.ltb_lt in B. lia.
  - intros j0. apply init_total_frames; reflexivity.
Qed.

Lemma FlowInv_mstep c s t ch s' ch' site :
  (0 < nstages c)%nat -> WF c s -> FlowInv c s -> mstep c s t ch = Some (s', ch', site) -> FlowInv c s'.
Proof.
  intros H0 [WS WT] I H tag. apply mstep_inv in H. destruct H as (th & s1 & th1 & wake & N & M & ->).
  assert (Wth : wf_thread c th) by (eapply Forall_nth_error; eauto).
  destruct (I tag) as (I1 & I2 & I3). cbn [sh].
  pose proof (Q0_local c t (sh s) th ch s1 th1 ch' site wake tag H0 WS Wth M) as D0.
  pose proof (gen4_local c t (sh s) th ch s1 th1 ch' site wake tag H0 WS Wth M) as D4.
  pose proof (total_step (mQ0 tag) (threads s) t th (sh s) s1 th1 wake eq_refl N) as T0.
  pose proof (total_step (m_gen4 tag) (threads s) t th (sh s) s1 th1 wake eq_refl N) as T4.
  destruct s as [s0 ths]; cbn [sh threads] in *.
  split; [lia|]. split; [lia|]. intros j0.
  pose proof (Q_local c t s0 th ch s1 th1 ch' site wake j0 tag H0 WS Wth M) as D.
  pose proof (total_step (mQ j0 tag) ths t th s0 s1 th1 wake eq_refl N) as T1.
  specialize (I3 j0). lia.
Qed.

Theorem flow_invariant c s : (0 < nstages c)%nat -> reach (mstep c) (init c) s -> FlowInv c s.
Proof.
  intros H0 R.
  assert (X : WF c s /\ FlowInv c s).
  { apply (reach_inv (mstep c) (fun s => WF c s /\ FlowInv c s) (init c)); [split; [apply WF_init | apply FlowInv_init] | | exact R].
    intros s1 t ch s1' ch' site [W I] E. split; [eapply WF_mstep; eauto | eapply FlowInv_mstep; eauto]. }
  exact (proj2 X).
Qed.
