(* C27, item flow: for every item tag and every stage, over all interleavings of Model/PipelineModel.v:
     generated(tag)  = waiting for stage 0 + entered stage 0 + lost before stage 0
     entered(j, tag) = inside stage j + thrown at j + finished at j + waiting for stage j+1 + entered stage j+1 + lost before stage j+1
   ("lost" = discarded by cleanupNotRun, skipped by the cancelled wrapper, not run because hasException(), stranded in a queue).
   Consequences: no (stage, item) is ever entered twice; an item enters stage j+1 only after entering stage j. *)
From Coq Require Import ZArith List Bool Lia.
From DV Require Import Base.MachInt Base.Sched Model.PipelineModel Proofs.PipelineProofs.
Import ListNotations.
Local Open Scope Z_scope.

Definition tagis (tag : Z) (it : item) : bool := fst it =? tag.
Definition evw (k : Z) (j : nat) (tag : Z) (e : event) : Z := bz ((e_kind e =? k) && (e_j e =? Z.of_nat j) && (e_tag e =? tag)).
Definition lostw (j : nat) (tag : Z) (e : event) : Z := evw 7 j tag e + evw 8 j tag e + evw 11 j tag e + evw 12 j tag e + evw 15 j tag e.

(* the item waits for stage j0: between the call of schedule() and the start of the stage's task body *)
Definition pre_f (j0 : nat) (tag : Z) (f : frame) : Z :=
  match f with
  | FGen (GSched it pc) => bz (Nat.eqb j0 0 && sched_pre pc && tagis tag it)
  | FTask false j it TUExc _ => bz (Nat.eqb j0 j && tagis tag it)
  | FTask _ j it (TSched pc) _ => bz (Nat.eqb j0 (S j) && sched_pre pc && tagis tag it)
  | FMain (MWait j pc held) => bz (Nat.eqb j0 j && wait_holds pc && tagis tag held)
  | FPool (TL j it) PRun | FPool (TU j it) PRun => bz (Nat.eqb j0 j && tagis tag it)
  | _ => 0
  end.
Definition pre_b (j0 : nat) (tag : Z) (tk : ptask) : Z :=
  match tk with TL j it | TU j it => bz (Nat.eqb j0 j && tagis tag it) | TGen => 0 end.
Definition pre_q (j0 : nat) (tag : Z) (j : nat) (it : item) : Z := bz (Nat.eqb j0 j && tagis tag it).
(* the item is inside stage j0: from the start of the user function to the hand-over to the next stage *)
Definition post_f (j0 : nat) (tag : Z) (f : frame) : Z :=
  match f with FTask _ j it pc _ => bz (Nat.eqb j0 j && post_pc pc && tagis tag it) | _ => 0 end.

Definition mQ (j0 : nat) (tag : Z) : meas := MS
  (fun f => post_f j0 tag f + pre_f (S j0) tag f) (pre_q (S j0) tag) (pre_b (S j0) tag)
  (fun e => evw 3 j0 tag e + evw 17 j0 tag e + evw 1 (S j0) tag e + lostw (S j0) tag e - evw 1 j0 tag e).
Definition mQ0 (tag : Z) : meas := MS
  (pre_f 0 tag) (pre_q 0 tag) (pre_b 0 tag)
  (fun e => evw 1 0 tag e + lostw 0 tag e - bz ((e_kind e =? 4) && (e_tag e =? tag))).
Definition m_gen4 (tag : Z) : meas := MS (fun _ => 0) (fun _ _ => 0) (fun _ => 0) (fun e => bz ((e_kind e =? 4) && (e_tag e =? tag))).
Definition gen4_val (c : cfg) (s : shared) (tag : Z) : Z :=
  bz ((0 <=? tag) && (tag <? gnext s) && (tag <? c_nitems c) && negb (tag =? c_gthrow c)).

Lemma strandw_Q j0 tag t k gs : strandw (mQ j0 tag) t k gs = gatesw (mQ j0 tag) k gs.
Proof.
  apply strandw_eq_gatesw. intros j it. cbn [me mq mQ]. unfold lostw, evw, pre_q, tagis. cbn [e_kind e_j e_tag ev fst snd].
  rewrite ?zof_eqb. repeat match goal with |- context [Z.eqb ?a ?b] => destruct (Z.eqb_spec a b); try lia end.
  all: repeat match goal with |- context [Nat.eqb ?a ?b] => destruct (Nat.eqb_spec a b); try lia end; try reflexivity; try congruence.
Qed.
Lemma strandw_Q0 tag t k gs : strandw (mQ0 tag) t k gs = gatesw (mQ0 tag) k gs.
Proof.
  apply strandw_eq_gatesw. intros j it. cbn [me mq mQ0]. unfold lostw, evw, pre_q, tagis. cbn [e_kind e_j e_tag ev fst snd].
  rewrite ?zof_eqb. repeat match goal with |- context [Z.eqb ?a ?b] => destruct (Z.eqb_spec a b); try lia end.
  all: repeat match goal with |- context [Nat.eqb ?a ?b] => destruct (Nat.eqb_spec a b); try lia end; try reflexivity; try congruence.
Qed.

Ltac flow_pre Hst m :=
  acct_pre Hst;
  repeat (first [ rewrite gatesw_upd_q by lia | rewrite gatesw_upd_enq by lia ]);
  try (erewrite !qw_rem by eassumption);
  cbn [mf mq mb me mQ mQ0 m_gen4]; unfold pre_f, pre_b, pre_q, post_f, lostw, evw, tagis, gen4_val; cbn [gnext w_gnext].

Lemma Q_local c t s th ch s1 th1 ch1 site wake j0 tag :
  (0 < nstages c)%nat -> wf_shared c s -> wf_thread c th ->
  mstep_thread c t s th ch = Some (s1, th1, ch1, site, wake) -> dlt (mQ j0 tag) s th s1 th1 = 0.
Proof.
  intros H0 [[WL WG] WB] WT H. unfold wf_thread in *. unfold dlt. step_cases H th; wf_fin; subst.
  all: try (pose proof (nth_error_gate_lt _ _ _ _ Hn)).
  all: flow_pre Hst (mQ j0 tag); rewrite ?strandw_Q.
  all: try (timeout 60 acct_fin).
  all: match goal with Hs : stack _ = ?st |- ?G => idtac "LEFT" st G end.
Qed.
