(* C32: ConcurrentVector refines std::vector (contents, sizes, returned positions) for every operation sequence and
   element lifetimes are balanced (after the repairs 6742701 / c8c0b30 of erase and single-element insert; the former
   refutation witnesses are regression examples). *)
From Coq Require Import ZArith List Bool Lia ZifyBool.
From DV Require Import Base.MachInt Base.Life Model.CVecModel Proofs.CVecBucketProofs Proofs.CVecStoreProofs Proofs.CVecAllocProofs
  Proofs.CVecLoopProofs Proofs.CVecOpsProofs.
Import ListNotations.
Local Open Scope Z_scope.

Ltac Zify.zify_post_hook ::= Z.div_mod_to_equations.

Definition wswap (w : world) : world := mkW (wb w) (wa w) (wl w).

Lemma step_swap tr w o : step tr w true o = (wswap (fst (step tr (wswap w) false o)), snd (step tr (wswap w) false o)).
Proof.
  destruct w as [a b L]. unfold wswap. cbn [wa wb wl].
  destruct o; try (destruct c); unfold step, w_self, w_other, w_put; cbn [wa wb wl];
    repeat match goal with
           | |- context [let '(_, _) := ?x in _] => destruct x
           end; reflexivity.
Qed.

Lemma spec_swap a b o :
  spec_step (a, b) true o = ((snd (fst (spec_step (b, a) false o)), fst (fst (spec_step (b, a) false o))), snd (spec_step (b, a) false o)).
Proof. destruct o; try (destruct c); reflexivity. Qed.

(* what one step must establish *)
Definition post (tr : traits) (max_n : Z) (w w' : world) (ret : Z) (s' : list Z * list Z) (sret : Z) : Prop :=
  vinv tr (wa w') /\ vinv tr (wb w') /\ (abs (wa w'), abs (wb w')) = s' /\ cl_bad (wl w') = cl_bad (wl w) /\
  v_size (wa w') <= max_n /\ v_size (wb w') <= max_n /\
  ret = sret /\
  (clean (wa w) -> clean (wb w) ->
   clean (wa w') /\ clean (wb w') /\
   lnet (wl w) (wl w') (v_size (wa w') + v_size (wb w') - v_size (wa w) - v_size (wb w))).

Definition step_post (tr : traits) (max_n : Z) (w : world) (sel : bool) (o : op) : Prop :=
  let r := step tr w sel o in
  let s := (abs (wa w), abs (wb w)) in
  let sr := spec_step s sel o in
  post tr max_n w (fst r) (snd r) (fst sr) (snd sr).

(* operations on self alone *)
Lemma post_single tr max_n w v' L' ret l' sret :
  vinv tr (wb w) -> v_size (wb w) <= max_n ->
  vinv tr v' -> abs v' = l' -> cl_bad L' = cl_bad (wl w) -> v_size v' <= max_n -> ret = sret ->
  life_ok (wa w) (wl w) v' L' ->
  post tr max_n w (mkW v' (wb w) L') ret (l', abs (wb w)) sret.
Proof.
  intros Ib Sb I A B S R LO. unfold post. cbn [wa wb wl].
  split; [exact I|]. split; [exact Ib|]. split; [rewrite A; reflexivity|]. split; [exact B|]. split; [exact S|]. split; [exact Sb|].
  split; [exact R|]. intros Ca Cb. destruct (life_ok_lnet _ _ _ _ LO Ca) as (C' & LN).
  split; [exact C'|]. split; [exact Cb|]. replace (v_size v' + v_size (wb w) - v_size (wa w) - v_size (wb w)) with (v_size v' - v_size (wa w)) by lia. exact LN.
Qed.

Lemma post_same tr max_n w ret : vinv tr (wa w) -> vinv tr (wb w) -> v_size (wa w) <= max_n -> v_size (wb w) <= max_n ->
  post tr max_n w w ret (abs (wa w), abs (wb w)) ret.
Proof.
  intros Ia Ib Sa Sb. unfold post.
  split; [exact Ia|]. split; [exact Ib|]. split; [reflexivity|]. split; [reflexivity|]. split; [exact Sa|]. split; [exact Sb|].
  split; [reflexivity|]. intros Ca Cb. split; [exact Ca|]. split; [exact Cb|].
  replace (v_size (wa w) + v_size (wb w) - v_size (wa w) - v_size (wb w)) with 0 by lia. apply lnet_refl.
Qed.

Lemma cvec_eta v : mkV (v_shift v) (v_bufs v) (v_size v) = v.
Proof. destruct v; reflexivity. Qed.
Lemma world_eta w : mkW (wa w) (wb w) (wl w) = w.
Proof. destruct w; reflexivity. Qed.

Lemma zlen_spec_resize n t l : 0 <= n -> zlen (spec_resize n t l) = n.
Proof.
  intros H. unfold spec_resize. destruct (zlen l <? n) eqn:E.
  - rewrite zlen_app, zlen_zrepeat by lia. lia.
  - apply zlen_firstn. lia.
Qed.

Lemma zlen_removelast l : 1 <= zlen l -> zlen (removelast l) = zlen l - 1.
Proof. unfold zlen. intros H. rewrite removelast_firstn_len, firstn_length. lia. Qed.

Ltac size_of_abs I A := rewrite <- (zlen_abs _ (vi_size _ _ I)), A.

Lemma step_ok_false tr max_n w o : fits tr max_n ->
  vinv tr (wa w) -> vinv tr (wb w) -> v_size (wa w) <= max_n -> v_size (wb w) <= max_n ->
  op_pre max_n (abs (wa w)) (abs (wb w)) o = true ->
  step_post tr max_n w false o.
Proof.
  intros F Ia Ib Sa Sb Pre. unfold step_post. cbv zeta.
  pose proof (vi_size _ _ Ia) as Sza. pose proof (vi_size _ _ Ib) as Szb.
  pose proof (zlen_abs _ Sza) as La. pose proof (zlen_abs _ Szb) as Lb.
  unfold op_pre in Pre. rewrite ?La, ?Lb in Pre.
  destruct o; unfold step, w_self, w_other, w_put; cbn [spec_step fst snd].
  - (* push / emplace *)
    pose proof (emplace_back_spec tr max_n k t (wa w) (wl w) F Ia ltac:(lia)) as H. cbv zeta in H.
    destruct (emplace_back tr k t (wa w, wl w)) as [[v' L'] ret]. cbn [fst snd] in *. destruct H as (H1 & H2 & H3 & H4 & H5 & H6).
    apply post_single; auto; try lia. size_of_abs H1 H2. rewrite zlen_app, La. unfold zlen; simpl; lia.
  - pose proof (grow_by_list_spec tr max_n KValue (zrepeat 0 n) (wa w) (wl w) F Ia ltac:(rewrite zlen_zrepeat by lia; lia)) as H. cbv zeta in H.
    destruct (grow_by_list tr KValue (zrepeat 0 n) (wa w, wl w)) as [[v' L'] ret]. cbn [fst snd] in *. destruct H as (H1 & H2 & H3 & H4 & H5 & H6).
    apply post_single; auto; try lia. size_of_abs H1 H2. rewrite zlen_app, La, zlen_zrepeat by lia. lia.
  - pose proof (grow_by_list_spec tr max_n KCopy (zrepeat t n) (wa w) (wl w) F Ia ltac:(rewrite zlen_zrepeat by lia; lia)) as H. cbv zeta in H.
    destruct (grow_by_list tr KCopy (zrepeat t n) (wa w, wl w)) as [[v' L'] ret]. cbn [fst snd] in *. destruct H as (H1 & H2 & H3 & H4 & H5 & H6).
    apply post_single; auto; try lia. size_of_abs H1 H2. rewrite zlen_app, La, zlen_zrepeat by lia. lia.
  - pose proof (grow_by_list_spec tr max_n KCopy ts (wa w) (wl w) F Ia ltac:(lia)) as H. cbv zeta in H.
    destruct (grow_by_list tr KCopy ts (wa w, wl w)) as [[v' L'] ret]. cbn [fst snd] in *. destruct H as (H1 & H2 & H3 & H4 & H5 & H6).
    apply post_single; auto; try lia. size_of_abs H1 H2. rewrite zlen_app, La. lia.
  - pose proof (grow_by_list_spec tr max_n KValue (zseq t0 n) (wa w) (wl w) F Ia ltac:(rewrite zlen_zseq by lia; lia)) as H. cbv zeta in H.
    destruct (grow_by_list tr KValue (zseq t0 n) (wa w, wl w)) as [[v' L'] ret]. cbn [fst snd] in *. destruct H as (H1 & H2 & H3 & H4 & H5 & H6).
    apply post_single; auto; try lia. size_of_abs H1 H2. rewrite zlen_app, La, zlen_zseq by lia. lia.
  - pose proof (grow_to_at_least_spec tr max_n KValue n 0 (wa w) (wl w) F Ia ltac:(lia)) as H. cbv zeta in H.
    destruct (grow_to_at_least tr KValue n 0 (wa w, wl w)) as [[v' L'] ret]. cbn [fst snd] in *. destruct H as (H1 & H2 & H3 & H4 & H5 & H6).
    rewrite La. apply post_single; auto; try lia. size_of_abs H1 H2. rewrite zlen_spec_resize by lia. lia.
  - pose proof (grow_to_at_least_spec tr max_n KCopy n t (wa w) (wl w) F Ia ltac:(lia)) as H. cbv zeta in H.
    destruct (grow_to_at_least tr KCopy n t (wa w, wl w)) as [[v' L'] ret]. cbn [fst snd] in *. destruct H as (H1 & H2 & H3 & H4 & H5 & H6).
    rewrite La. apply post_single; auto; try lia. size_of_abs H1 H2. rewrite zlen_spec_resize by lia. lia.
  - (* pop_back *)
    pose proof (pop_back_spec tr (wa w) (wl w) Ia ltac:(lia)) as H. cbv zeta in H.
    destruct (pop_back (wa w, wl w)) as [v' L']. cbn [fst snd] in *. destruct H as (H1 & H2 & H3 & H4 & H5).
    apply post_single; auto; try lia. size_of_abs H1 H2. rewrite zlen_removelast by lia. lia.
  - (* resize *)
    pose proof (resize_spec tr max_n KValue n 0 (wa w) (wl w) F Ia ltac:(lia)) as H. cbv zeta in H.
    destruct (resize tr KValue n 0 (wa w, wl w)) as [v' L']. cbn [fst snd] in *. destruct H as (H1 & H2 & H3 & H4 & H5).
    apply post_single; auto; try lia. size_of_abs H1 H2. rewrite zlen_spec_resize by lia. lia.
  - pose proof (resize_spec tr max_n KCopy n t (wa w) (wl w) F Ia ltac:(lia)) as H. cbv zeta in H.
    destruct (resize tr KCopy n t (wa w, wl w)) as [v' L']. cbn [fst snd] in *. destruct H as (H1 & H2 & H3 & H4 & H5).
    apply post_single; auto; try lia. size_of_abs H1 H2. rewrite zlen_spec_resize by lia. lia.
  - (* clear *)
    pose proof (clear_spec tr (wa w) (wl w) Ia) as H. cbv zeta in H.
    destruct (clear (wa w, wl w)) as [v' L']. cbn [fst snd] in *. destruct H as (H1 & H2 & H3 & H4 & H5 & H6).
    apply post_single; auto; try lia; try (destruct F; lia).
  - (* erase(pos) *)
    pose proof (erase_one_spec tr i (wa w) (wl w) Ia ltac:(lia)) as H. cbv zeta in H.
    destruct (erase_one i (wa w, wl w)) as [[v' L'] ret]. cbn [fst snd] in *. destruct H as (H1 & H2 & H3 & H4 & H5 & H6).
    apply post_single; auto; try lia.
    all: try (size_of_abs H1 H2; rewrite zlen_app, zlen_firstn, zlen_skipn by lia; lia).
  - (* erase(first, last) *)
    pose proof (erase_range_spec tr i j (wa w) (wl w) Ia ltac:(lia) ltac:(lia)) as H. cbv zeta in H.
    destruct (erase_range i j (wa w, wl w)) as [[v' L'] ret]. cbn [fst snd] in *. destruct H as (H1 & H2 & H3 & H4 & H5 & H6).
    apply post_single; auto; try lia.
    all: try (size_of_abs H1 H2; rewrite zlen_app, zlen_firstn, zlen_skipn by lia; lia).
  - (* insert(pos, value) *)
    pose proof (insert_one_spec tr max_n k i t (wa w) (wl w) F Ia ltac:(lia) ltac:(lia)) as H. cbv zeta in H.
    destruct (insert_one tr k i t (wa w, wl w)) as [[v' L'] ret]. cbn [fst snd] in *. destruct H as (H1 & H2 & H3 & H4 & H5 & H6).
    apply post_single; auto; try lia.
    all: try (size_of_abs H1 H2; rewrite zlen_app, zlen_cons, zlen_firstn, zlen_skipn by lia; lia).
  - (* insert(pos, n, value) *)
    pose proof (insert_list_spec tr max_n i (zrepeat t n) (wa w) (wl w) F Ia ltac:(lia) ltac:(rewrite zlen_zrepeat by lia; lia)) as H. cbv zeta in H.
    destruct (insert_list tr i (zrepeat t n) (wa w, wl w)) as [[v' L'] ret]. cbn [fst snd] in *. destruct H as (H1 & H2 & H3 & H4 & H5 & H6).
    apply post_single; auto; try lia. size_of_abs H1 H2. rewrite !zlen_app, zlen_firstn, zlen_skipn, zlen_zrepeat by lia. lia.
  - pose proof (insert_list_spec tr max_n i ts (wa w) (wl w) F Ia ltac:(lia) ltac:(lia)) as H. cbv zeta in H.
    destruct (insert_list tr i ts (wa w, wl w)) as [[v' L'] ret]. cbn [fst snd] in *. destruct H as (H1 & H2 & H3 & H4 & H5 & H6).
    apply post_single; auto; try lia. size_of_abs H1 H2. rewrite !zlen_app, zlen_firstn, zlen_skipn by lia. lia.
  - (* assign *)
    pose proof (assign_tags_spec tr max_n (zrepeat t n) (wa w) (wl w) F Ia ltac:(rewrite zlen_zrepeat by lia; lia)) as H. cbv zeta in H.
    destruct (assign_tags tr (zrepeat t n) (wa w, wl w)) as [v' L']. cbn [fst snd] in *. destruct H as (H1 & H2 & H3 & H4 & H5).
    apply post_single; auto; try lia. size_of_abs H1 H2. rewrite zlen_zrepeat by lia. lia.
  - pose proof (assign_tags_spec tr max_n ts (wa w) (wl w) F Ia ltac:(lia)) as H. cbv zeta in H.
    destruct (assign_tags tr ts (wa w, wl w)) as [v' L']. cbn [fst snd] in *. destruct H as (H1 & H2 & H3 & H4 & H5).
    apply post_single; auto; try lia. size_of_abs H1 H2. lia.
  - (* reserve *)
    pose proof (reserve_spec tr max_n (wa w) (wl w) n F Ia ltac:(lia)) as H. cbv zeta in H.
    destruct (reserve tr n (wa w, wl w)) as [v' L']. cbn [fst snd] in *. destruct H as (H1 & H2 & H3 & H4 & H5 & H6). subst L'.
    assert (A : abs v' = abs (wa w)).
    { apply abs_ext; [lia | lia |]. rewrite H3. intros j Hj. rewrite znth_abs by lia. unfold tag_at. rewrite H5. reflexivity. }
    apply post_single; auto; try lia.
    intros [CA CB]. split; [|exists 0, 0; split; [apply ldelta_refl | lia]].
    split; rewrite H3; intros j Hj; unfold live_at, st_at; rewrite H5; [apply CA | apply (CB j)]; exact Hj.
  - (* shrink_to_fit *)
    pose proof (shrink_to_fit_spec tr (wa w) (wl w) Ia) as H. cbv zeta in H.
    destruct (shrink_to_fit tr (wa w, wl w)) as [v' L']. cbn [fst snd] in *. destruct H as (H1 & H2 & H3 & H4 & H5 & H6).
    apply post_single; auto; try lia.
    intros CV. destruct (H6 CV) as (EL & CV'). subst L'. split; [exact CV'|]. exists 0, 0. split; [apply ldelta_refl | lia].
  - (* swap *)
    unfold post. cbn [wa wb wl fst snd].
    split; [exact Ib|]. split; [exact Ia|]. split; [reflexivity|]. split; [reflexivity|]. split; [exact Sb|]. split; [exact Sa|].
    split; [reflexivity|]. intros Ca Cb. split; [exact Cb|]. split; [exact Ca|].
    replace (v_size (wb w) + v_size (wa w) - v_size (wa w) - v_size (wb w)) with 0 by lia. apply lnet_refl.
  - (* copy assignment *)
    destruct (use_all_spec (wb w) (wl w)) as [UB UL].
    pose proof (assign_tags_spec tr max_n (abs (wb w)) (wa w) (use_all (wb w) (wl w)) F Ia ltac:(lia)) as H. cbv zeta in H.
    destruct (assign_tags tr (abs (wb w)) (wa w, use_all (wb w) (wl w))) as [v' L']. cbn [fst snd] in *. destruct H as (H1 & H2 & H3 & H4 & H5).
    unfold post. cbn [wa wb wl fst snd].
    assert (Sv : v_size v' = v_size (wb w)) by (size_of_abs H1 H2; lia).
    split; [exact H1|]. split; [exact Ib|]. split; [rewrite H2; reflexivity|]. split; [congruence|]. split; [lia|]. split; [lia|].
    split; [reflexivity|]. intros Ca Cb. rewrite UL in H5 by (intros j Hj; apply clean_live; assumption).
    destruct (life_ok_lnet _ _ _ _ H5 Ca) as (C' & LN). split; [exact C'|]. split; [exact Cb|].
    replace (v_size v' + v_size (wb w) - v_size (wa w) - v_size (wb w)) with (v_size v' - v_size (wa w)) by lia. exact LN.
  - (* move assignment *)
    pose proof (clear_spec tr (wa w) (wl w) Ia) as H. cbv zeta in H.
    destruct (clear (wa w, wl w)) as [s1 L1]. cbn [fst snd] in *. destruct H as (H1 & H2 & H3 & H4 & H5 & H6).
    rewrite !cvec_eta. unfold post. cbn [wa wb wl fst snd].
    split; [exact Ib|]. split; [exact H1|]. split; [rewrite H2; reflexivity|]. split; [exact H4|]. split; [lia|]. split; [lia|].
    split; [reflexivity|]. intros Ca Cb. destruct (life_ok_lnet _ _ _ _ H6 Ca) as (C' & LN).
    split; [exact Cb|]. split; [exact C'|].
    replace (v_size (wb w) + v_size s1 - v_size (wa w) - v_size (wb w)) with (v_size s1 - v_size (wa w)) by lia. exact LN.
  - (* self assignment *)
    apply post_same; assumption.
  - (* destroy and construct anew *)
    destruct (destruct_vec_spec tr (wa w) (wl w) Ia) as [DB DL]. set (L1 := destruct_vec tr (wa w, wl w)) in *.
    assert (Fin : forall v' L' l', vinv tr v' -> abs v' = l' -> cl_bad L' = cl_bad L1 -> v_size v' <= max_n -> clean v' ->
                  (clean (wa w) -> lnet L1 L' (v_size v')) ->
                  post tr max_n w (mkW v' (wb w) L') (-1) (l', abs (wb w)) (-1)).
    { intros v' L' l' I' A' B' S' C' LN'. unfold post. cbn [wa wb wl].
      split; [exact I'|]. split; [exact Ib|]. split; [rewrite A'; reflexivity|]. split; [congruence|]. split; [exact S'|]. split; [exact Sb|].
      split; [reflexivity|]. intros Ca Cb. split; [exact C'|]. split; [exact Cb|].
      replace (v_size v' + v_size (wb w) - v_size (wa w) - v_size (wb w)) with (- v_size (wa w) + v_size v') by lia.
      eapply lnet_trans; [apply DL; exact Ca | apply LN'; exact Ca]. }
    destruct c; cbn [spec_step fst snd].
    + pose proof (ctor_reserve_spec tr max_n (Z.quot (t_defcap tr) 2) F) as C. cbv zeta in C. destruct C as (C1 & C2 & C3 & _ & _ & C6).
      apply Fin; auto; [unfold ctor_default; destruct F; lia | intros _; unfold ctor_default; rewrite C3; apply lnet_refl].
    + pose proof (ctor_reserve_spec tr max_n n F) as C. cbv zeta in C. destruct C as (C1 & C2 & C3 & _ & _ & C6).
      apply Fin; auto; [destruct F; lia | intros _; rewrite C3; apply lnet_refl].
    + pose proof (ctor_fill_spec tr max_n KValue (zrepeat 0 n) L1 true F ltac:(rewrite zlen_zrepeat by lia; lia)) as C. cbv zeta in C.
      rewrite zlen_zrepeat in C by lia. unfold ctor_sized.
      destruct (construct_bs KValue (zrepeat 0 n) 0 0 (with_size (ctor_reserve tr n) n, L1)) as [v' L']. cbn [fst snd] in C.
      destruct C as (C1 & C2 & C3 & C4 & C5). assert (Sv : v_size v' = n) by (size_of_abs C1 C2; rewrite zlen_zrepeat by lia; reflexivity).
      apply Fin; auto; [lia|]. intros _. rewrite Sv. replace n with (n - 0) at 1 by lia. apply lnet_of_ldelta. exact C5.
    + pose proof (ctor_fill_spec tr max_n KCopy (zrepeat t n) L1 true F ltac:(rewrite zlen_zrepeat by lia; lia)) as C. cbv zeta in C.
      rewrite zlen_zrepeat in C by lia. unfold ctor_sized.
      destruct (construct_bs KCopy (zrepeat t n) 0 0 (with_size (ctor_reserve tr n) n, L1)) as [v' L']. cbn [fst snd] in C.
      destruct C as (C1 & C2 & C3 & C4 & C5). assert (Sv : v_size v' = n) by (size_of_abs C1 C2; rewrite zlen_zrepeat by lia; reflexivity).
      apply Fin; auto; [lia|]. intros _. rewrite Sv. replace n with (n - 0) at 1 by lia. apply lnet_of_ldelta. exact C5.
    + pose proof (ctor_fill_spec tr max_n KCopy ts L1 false F ltac:(lia)) as C. cbv zeta in C. unfold ctor_range. fold (zlen ts).
      destruct (construct_list KCopy ts 0 (with_size (ctor_reserve tr (zlen ts)) (zlen ts), L1)) as [v' L']. cbn [fst snd] in C.
      destruct C as (C1 & C2 & C3 & C4 & C5). assert (Sv : v_size v' = zlen ts) by (size_of_abs C1 C2; reflexivity).
      apply Fin; auto; [lia|]. intros _. rewrite Sv. replace (zlen ts) with (zlen ts - 0) at 1 by lia. apply lnet_of_ldelta. exact C5.
    + destruct (use_all_spec (wb w) L1) as [UB UL].
      pose proof (ctor_fill_spec tr max_n KCopy (abs (wb w)) (use_all (wb w) L1) false F ltac:(lia)) as C. cbv zeta in C. unfold ctor_range. fold (zlen (abs (wb w))).
      destruct (construct_list KCopy (abs (wb w)) 0 (with_size (ctor_reserve tr (zlen (abs (wb w)))) (zlen (abs (wb w))), use_all (wb w) L1)) as [v' L'].
      cbn [fst snd] in C. destruct C as (C1 & C2 & C3 & C4 & C5).
      assert (Sv : v_size v' = v_size (wb w)) by (size_of_abs C1 C2; exact Lb).
      unfold post. cbn [wa wb wl fst snd].
      split; [exact C1|]. split; [exact Ib|]. split; [rewrite C2; reflexivity|]. split; [congruence|]. split; [lia|]. split; [exact Sb|].
      split; [reflexivity|]. intros Ca Cb. split; [exact C4|]. split; [exact Cb|].
      rewrite UL in C5 by (intros j Hj; apply clean_live; assumption).
      replace (v_size v' + v_size (wb w) - v_size (wa w) - v_size (wb w)) with (- v_size (wa w) + (zlen (abs (wb w)) - 0)) by lia.
      eapply lnet_trans; [apply DL; exact Ca | apply lnet_of_ldelta; exact C5].
    + pose proof (empty_vec_spec tr max_n (v_shift (wb w)) F ltac:(apply (vi_wf _ _ Ib))) as C. cbv zeta in C. destruct C as (C1 & C2 & C3).
      unfold post. cbn [wa wb wl fst snd].
      split; [exact Ib|]. split; [exact C1|]. split; [rewrite C2; reflexivity|]. split; [exact DB|]. split; [exact Sb|]. split; [cbn; destruct F; lia|].
      split; [reflexivity|]. intros Ca Cb. split; [exact Cb|]. split; [exact C3|]. cbn [v_size].
      replace (v_size (wb w) + 0 - v_size (wa w) - v_size (wb w)) with (- v_size (wa w)) by lia. apply DL. exact Ca.
  - (* iteration *)
    apply post_same; assumption.
  - (* at(i) *)
    unfold post. cbn [wa wb wl fst snd].
    split; [exact Ia|]. split; [exact Ib|]. split; [reflexivity|].
    split; [unfold c_use; destruct (c_st (get_cell (wa w) i)); reflexivity|]. split; [exact Sa|]. split; [exact Sb|].
    split; [change (nth (Z.to_nat i) (abs (wa w)) 0) with (znth (abs (wa w)) i); rewrite znth_abs by lia; reflexivity|].
    intros Ca Cb. split; [exact Ca|]. split; [exact Cb|].
    replace (v_size (wa w) + v_size (wb w) - v_size (wa w) - v_size (wb w)) with 0 by lia.
    pose proof (clean_live _ i Ca ltac:(lia)) as X. unfold live_at, st_at in X. unfold c_use.
    destruct (c_st (get_cell (wa w) i)); try discriminate; apply lnet_refl.
  - (* front / back *)
    assert (E : c_tag (get_bs (wa w) 0 0) * 1000 + c_tag (get_cell (wa w) (v_size (wa w) - 1)) = nth 0 (abs (wa w)) 0 * 1000 + last (abs (wa w)) 0).
    { rewrite last_znth, La. change (nth 0 (abs (wa w)) 0) with (znth (abs (wa w)) 0). rewrite !znth_abs by lia.
      rewrite (get_bs_as_cell (wa w) 0 0 (vi_wf _ _ Ia)) by (try lia; pose proof (bucket_cap_pos (v_shift (wa w)) 0 ltac:(apply (vi_wf _ _ Ia))); lia).
      reflexivity. }
    rewrite E. apply post_same; assumption.
  - (* comparisons *)
    apply post_same; assumption.
Qed.

(* ------------------------------------------------------------------------------------------------ either selector *)
Lemma post_swap tr max_n w w' ret x y sret :
  post tr max_n (wswap w) w' ret (x, y) sret -> post tr max_n w (wswap w') ret (y, x) sret.
Proof.
  unfold post, wswap. cbn [wa wb wl]. intros (A & B & C & D & E & G & H & K).
  split; [exact B|]. split; [exact A|]. split; [inversion C; reflexivity|]. split; [exact D|]. split; [exact G|]. split; [exact E|].
  split; [exact H|]. intros Ca Cb. destruct (K Cb Ca) as (K1 & K2 & K3).
  split; [exact K2|]. split; [exact K1|].
  replace (v_size (wb w') + v_size (wa w') - v_size (wa w) - v_size (wb w)) with (v_size (wa w') + v_size (wb w') - v_size (wb w) - v_size (wa w)) by lia.
  exact K3.
Qed.

Lemma step_ok tr max_n w sel o : fits tr max_n ->
  vinv tr (wa w) -> vinv tr (wb w) -> v_size (wa w) <= max_n -> v_size (wb w) <= max_n ->
  op_pre max_n (abs (w_self sel w)) (abs (w_other sel w)) o = true ->
  step_post tr max_n w sel o.
Proof.
  intros F Ia Ib Sa Sb Pre. destruct sel.
  - pose proof (step_ok_false tr max_n (wswap w) o F Ib Ia Sb Sa Pre) as H.
    unfold step_post in *. cbv zeta in *. rewrite step_swap, spec_swap. cbn [fst snd wa wb wswap] in *.
    apply post_swap. destruct (spec_step (abs (wb w), abs (wa w)) false o) as [[x y] r]. exact H.
  - apply step_ok_false; assumption.
Qed.

(* ------------------------------------------------------------------------------------------------ sequences *)
Definition winv (tr : traits) (max_n : Z) (w : world) : Prop :=
  vinv tr (wa w) /\ vinv tr (wb w) /\ v_size (wa w) <= max_n /\ v_size (wb w) <= max_n.
Definition wclean (w : world) : Prop := clean (wa w) /\ clean (wb w).
Definition wabs (w : world) : list Z * list Z := (abs (wa w), abs (wb w)).

Lemma run_ok tr max_n : fits tr max_n -> forall ops w,
  winv tr max_n w -> seq_scan (op_pre max_n) (wabs w) ops = true ->
  (* contents, sizes and returned positions after every operation are those of std::vector *)
  model_trace tr w ops = spec_trace (wabs w) ops /\
  winv tr max_n (run tr w ops) /\ wabs (run tr w ops) = spec_run (wabs w) ops /\
  (* storage accesses stay inside allocations *)
  cl_bad (wl (run tr w ops)) = cl_bad (wl w) /\
  (* balanced lifetimes *)
  (wclean w ->
   wclean (run tr w ops) /\
   lnet (wl w) (wl (run tr w ops))
     (v_size (wa (run tr w ops)) + v_size (wb (run tr w ops)) - v_size (wa w) - v_size (wb w))).
Proof.
  intros F. induction ops as [|[sel o] r IH]; intros w (Ia & Ib & Sa & Sb) Pre.
  - cbn. split; [reflexivity|]. split; [exact (conj Ia (conj Ib (conj Sa Sb)))|]. split; [reflexivity|]. split; [reflexivity|].
    intros C. split; [exact C|].
    replace (v_size (wa w) + v_size (wb w) - v_size (wa w) - v_size (wb w)) with 0 by lia. apply lnet_refl.
  - cbn [seq_scan] in Pre. apply andb_prop in Pre. destruct Pre as [Pre1 PreR].
    unfold wabs in Pre1, PreR. cbn [fst snd] in Pre1.
    assert (Pre1' : op_pre max_n (abs (w_self sel w)) (abs (w_other sel w)) o = true) by (destruct sel; exact Pre1).
    pose proof (step_ok tr max_n w sel o F Ia Ib Sa Sb Pre1') as SP. unfold step_post in SP. cbv zeta in SP.
    cbn [model_trace spec_trace run spec_run seq_scan].
    destruct (step tr w sel o) as [w' ret] eqn:ES. unfold wabs. destruct (spec_step (abs (wa w), abs (wb w)) sel o) as [s' sret] eqn:ESS.
    cbn [fst snd] in *. destruct SP as (Ia' & Ib' & EA & EB & Sa' & Sb' & ER & LF).
    specialize (IH w' (conj Ia' (conj Ib' (conj Sa' Sb')))). unfold wabs in IH. rewrite EA in IH. specialize (IH PreR).
    destruct IH as (T1 & T2 & T3 & T4 & T6).
    split. { rewrite T1, ER, <- EA. reflexivity. }
    split; [exact T2|]. split; [exact T3|]. split; [congruence|].
    intros [Ca Cb]. destruct (LF Ca Cb) as (Ca' & Cb' & LN).
    destruct (T6 (conj Ca' Cb')) as (CF & LNF). split; [exact CF|].
    eapply (lnet_trans _ _ _ _ _ LN) in LNF.
    replace (v_size (wa (run tr w' r)) + v_size (wb (run tr w' r)) - v_size (wa w) - v_size (wb w))
      with (v_size (wa w') + v_size (wb w') - v_size (wa w) - v_size (wb w) +
            (v_size (wa (run tr w' r)) + v_size (wb (run tr w' r)) - v_size (wa w') - v_size (wb w'))) by lia.
    exact LNF.
Qed.

Lemma world0_ok tr max_n : fits tr max_n -> winv tr max_n (world0 tr) /\ wabs (world0 tr) = ([], []) /\ wclean (world0 tr) /\
  v_size (wa (world0 tr)) = 0 /\ v_size (wb (world0 tr)) = 0.
Proof.
  intros F. pose proof (ctor_reserve_spec tr max_n (Z.quot (t_defcap tr) 2) F) as C. cbv zeta in C. destruct C as (C1 & C2 & C3 & _ & _ & C6).
  unfold world0, ctor_default, winv, wabs, wclean. cbn [wa wb wl]. rewrite C2, C3. destruct F as (F1 & _).
  split; [exact (conj C1 (conj C1 (conj F1 F1)))|]. split; [reflexivity|]. split; [exact (conj C6 C6)|]. split; reflexivity.
Qed.

(* refinement of std::vector by every operation sequence within the preconditions *)
Theorem cvec_refines_vector_proof tr max_n ops : fits tr max_n -> seq_pre max_n ops = true ->
  model_trace tr (world0 tr) ops = spec_trace ([], []) ops /\ cl_bad (wl (run tr (world0 tr) ops)) = 0.
Proof.
  intros F Pre. destruct (world0_ok tr max_n F) as (W & A & C & _). unfold seq_pre in Pre. rewrite <- A in Pre.
  destruct (run_ok tr max_n F ops (world0 tr) W Pre) as (T1 & _ & _ & T4 & _).
  rewrite A in *. split; [exact T1|]. rewrite T4. reflexivity.
Qed.

(* every constructed element is destroyed exactly once: for all sequences, followed by the destruction of both vectors *)
Theorem cvec_lifetime_balanced_proof tr max_n ops : fits tr max_n -> seq_pre max_n ops = true ->
  life_balanced (run_all tr ops).
Proof.
  intros F Pre. destruct (world0_ok tr max_n F) as (W & A & C & Z1 & Z2). unfold seq_pre in Pre. rewrite <- A in Pre.
  destruct (run_ok tr max_n F ops (world0 tr) W Pre) as (_ & (Ia & Ib & _ & _) & _ & _ & T6).
  destruct (T6 C) as ([Ca Cb] & LN). unfold run_all, finish.
  set (w := run tr (world0 tr) ops) in *.
  destruct (destruct_vec_spec tr (wa w) (wl w) Ia) as [_ DA]. specialize (DA Ca).
  destruct (destruct_vec_spec tr (wb w) (destruct_vec tr (wa w, wl w)) Ib) as [_ DB]. specialize (DB Cb).
  pose proof (lnet_trans _ _ _ _ _ (lnet_trans _ _ _ _ _ LN DA) DB) as T.
  unfold lnet in T. destruct T as (E1 & E2 & E3 & E4 & E5). unfold life_balanced.
  change (wl (world0 tr)) with cled0 in *. cbn in E1, E2, E3, E4, E5. unfold n_ctor_c in E5.
  split; [exact E1|]. split; [exact E2|]. split; [exact E3|]. split; [exact E4|]. lia.
Qed.

(* C32 as stated: all sequences, returned positions and lifetimes included *)
Definition full_statement : Prop :=
  forall tr max_n ops, fits tr max_n -> seq_pre max_n ops = true ->
    model_trace tr (world0 tr) ops = spec_trace ([], []) ops /\ life_balanced (run_all tr ops).

Theorem full_statement_holds : full_statement.
Proof.
  intros tr max_n ops F P.
  exact (conj (proj1 (cvec_refines_vector_proof tr max_n ops F P)) (cvec_lifetime_balanced_proof tr max_n ops F P)).
Qed.

(* ------------------------------------------------------------------------------------------------ regression examples *)
Lemma life_balancedb_iff L : life_balanced L <-> life_balancedb L = true.
Proof.
  unfold life_balanced, life_balancedb. split.
  - intros (A & B & C & D & E). rewrite A. repeat (apply andb_true_intro; split); try reflexivity; lia.
  - intros H. repeat (apply andb_prop in H; destruct H as [H ?]). destruct (cl_errs L); [|discriminate]. repeat split; lia.
Qed.

Definition tr_small : traits := mkTraits 2 (2 ^ 39) 2 true true.     (* 256-byte elements, default traits: first bucket 1 *)
Definition ops_erase : list (bool * op) :=
  [(false, OPush KValue 1); (false, OPush KValue 2); (false, OPush KValue 3); (false, OErase 0)].
Definition ops_erase_range : list (bool * op) := [(false, OGrowByGen 6 10); (false, OEraseRange 1 3)].
Definition ops_insert : list (bool * op) :=
  [(false, OPush KValue 1); (false, OPush KValue 2); (false, OPush KValue 3); (false, OInsert KCopy 1 9)].

Lemma fits_small : fits tr_small 1000.
Proof. unfold fits, tr_small, max_buffers. cbn. repeat split; try lia; discriminate. Qed.

(* the former refutation witnesses (before 6742701: 3 constructions / 2 destructions and returned position 2;
   6 / 4; before c8c0b30: 5 / 4 and one ConstructOverLive), now computed on the repaired model *)
Lemma regression_erase :
  seq_pre 1000 ops_erase = true /\
  model_trace tr_small (world0 tr_small) ops_erase = [([1], [], 0); ([1; 2], [], 1); ([1; 2; 3], [], 2); ([2; 3], [], 0)] /\
  life_balancedb (run_all tr_small ops_erase) = true /\
  final_obs (run_all tr_small ops_erase) = [3; 0; 0; 0; 2; 3; 0; 0; 0; 0; 0; 0; 0].
Proof. repeat split; vm_compute; reflexivity. Qed.

Lemma regression_erase_range :
  seq_pre 1000 ops_erase_range = true /\
  model_trace tr_small (world0 tr_small) ops_erase_range = [([10; 11; 12; 13; 14; 15], [], 0); ([10; 13; 14; 15], [], 1)] /\
  life_balancedb (run_all tr_small ops_erase_range) = true /\
  final_obs (run_all tr_small ops_erase_range) = [6; 0; 0; 0; 3; 6; 0; 0; 0; 0; 0; 0; 0].
Proof. repeat split; vm_compute; reflexivity. Qed.

Lemma regression_insert :
  seq_pre 1000 ops_insert = true /\
  model_trace tr_small (world0 tr_small) ops_insert = [([1], [], 0); ([1; 2], [], 1); ([1; 2; 3], [], 2); ([1; 9; 2; 3], [], 1)] /\
  life_balancedb (run_all tr_small ops_insert) = true /\
  final_obs (run_all tr_small ops_insert) = [4; 0; 0; 1; 2; 4; 0; 0; 0; 0; 0; 0; 0].
Proof. repeat split; vm_compute; reflexivity. Qed.

(* a sequence that crosses several bucket boundaries on both vectors, with shifting erases, single inserts,
   copy / move / swap *)
Definition ops_nonvacuous : list (bool * op) :=
  [(false, OGrowByGen 5 1); (false, OPush KCopy 6); (false, OInsertN 2 3 7); (true, ORecreate CCopy); (false, OEraseRange 2 5);
   (false, OErase 0); (true, OSwap); (false, OResizeVal 12 8); (false, OInsert KMove 3 5); (true, OMoveAssign); (false, OShrink);
   (true, OAssignN 3 9); (true, OErase 2); (false, OGrowBy 2); (true, OPush KMove 4)].
Lemma nonvacuous :
  fits tr_small 1000 /\ seq_pre 1000 ops_nonvacuous = true /\
  spec_run ([], []) ops_nonvacuous = ([0; 0], [9; 9; 4]) /\
  final_obs (run_all tr_small ops_nonvacuous) = [11; 16; 1; 3; 23; 28; 0; 0; 0; 0; 0; 0; 0].
Proof. split; [exact fits_small|]. repeat split; vm_compute; reflexivity. Qed.
