(* C32: ConcurrentVector refines std::vector (contents, sizes, returned positions) for every operation sequence;
   element lifetimes are balanced on the complement of the modelled defects; refutation witnesses. *)
From Coq Require Import ZArith List Bool Lia ZifyBool.
From DV Require Import Base.MachInt Base.Life Model.CVecModel Proofs.CVecBucketProofs Proofs.CVecStoreProofs Proofs.CVecAllocProofs
  Proofs.CVecLoopProofs Proofs.CVecOpsProofs.
Import ListNotations.
Local Open Scope Z_scope.

Ltac Zify.zify_post_hook ::= Z.div_mod_to_equations.

Definition wswap (w : world) : world := mkW (wb w) (wa w) (wl w).

Lemma step_swap tr w o : step tr w true o = (wswap (fst (step tr (wswap w) false o)), snd (step tr (wswap w) false o)).
Proof.
  destruct w as [a b L]. unfold wswap. cbn [wa wb wl].
  destruct o; try (destruct c); unfold step, w_self, w_other, w_put; cbn [wa wb wl];
    repeat match goal with
           | |- context [let '(_, _) := ?x in _] => destruct x
           end; reflexivity.
Qed.

Lemma spec_swap a b o :
  spec_step (a, b) true o = ((snd (fst (spec_step (b, a) false o)), fst (fst (spec_step (b, a) false o))), snd (spec_step (b, a) false o)).
Proof. destruct o; try (destruct c); reflexivity. Qed.

(* what one step must establish *)
Definition post (tr : traits) (max_n : Z) (w w' : world) (ret : Z) (s' : list Z * list Z) (sret : Z) (shifts ins : bool) : Prop :=
  vinv tr (wa w') /\ vinv tr (wb w') /\ (abs (wa w'), abs (wb w')) = s' /\ cl_bad (wl w') = cl_bad (wl w) /\
  v_size (wa w') <= max_n /\ v_size (wb w') <= max_n /\
  (shifts = false -> ret = sret) /\
  (clean (wa w) -> clean (wb w) -> shifts = false -> ins = false ->
   clean (wa w') /\ clean (wb w') /\
   lnet (wl w) (wl w') (v_size (wa w') + v_size (wb w') - v_size (wa w) - v_size (wb w))).

Definition step_post (tr : traits) (max_n : Z) (w : world) (sel : bool) (o : op) : Prop :=
  let r := step tr w sel o in
  let s := (abs (wa w), abs (wb w)) in
  let sr := spec_step s sel o in
  post tr max_n w (fst r) (snd r) (fst sr) (snd sr) (op_erase_shifts (if sel then snd s else fst s) o) (op_insert_single o).

(* operations on self alone *)
Lemma post_single tr max_n w v' L' ret l' sret shifts ins :
  vinv tr (wb w) -> v_size (wb w) <= max_n ->
  vinv tr v' -> abs v' = l' -> cl_bad L' = cl_bad (wl w) -> v_size v' <= max_n -> (shifts = false -> ret = sret) ->
  (shifts = false -> ins = false -> life_ok (wa w) (wl w) v' L') ->
  post tr max_n w (mkW v' (wb w) L') ret (l', abs (wb w)) sret shifts ins.
Proof.
  intros Ib Sb I A B S R LO. unfold post. cbn [wa wb wl].
  split; [exact I|]. split; [exact Ib|]. split; [rewrite A; reflexivity|]. split; [exact B|]. split; [exact S|]. split; [exact Sb|].
  split; [exact R|]. intros Ca Cb Hs Hi. destruct (life_ok_lnet _ _ _ _ (LO Hs Hi) Ca) as (C' & LN).
  split; [exact C'|]. split; [exact Cb|]. replace (v_size v' + v_size (wb w) - v_size (wa w) - v_size (wb w)) with (v_size v' - v_size (wa w)) by lia. exact LN.
Qed.

Lemma post_same tr max_n w ret shifts ins : vinv tr (wa w) -> vinv tr (wb w) -> v_size (wa w) <= max_n -> v_size (wb w) <= max_n ->
  post tr max_n w w ret (abs (wa w), abs (wb w)) ret shifts ins.
Proof.
  intros Ia Ib Sa Sb. unfold post.
  split; [exact Ia|]. split; [exact Ib|]. split; [reflexivity|]. split; [reflexivity|]. split; [exact Sa|]. split; [exact Sb|].
  split; [reflexivity|]. intros Ca Cb _ _. split; [exact Ca|]. split; [exact Cb|].
  replace (v_size (wa w) + v_size (wb w) - v_size (wa w) - v_size (wb w)) with 0 by lia. apply lnet_refl.
Qed.

Lemma cvec_eta v : mkV (v_shift v) (v_bufs v) (v_size v) = v.
Proof. destruct v; reflexivity. Qed.
Lemma world_eta w : mkW (wa w) (wb w) (wl w) = w.
Proof. destruct w; reflexivity. Qed.

Lemma zlen_spec_resize n t l : 0 <= n -> zlen (spec_resize n t l) = n.
Proof.
  intros H. unfold spec_resize. destruct (zlen l <? n) eqn:E.
  - rewrite zlen_app, zlen_zrepeat by lia. lia.
  - apply zlen_firstn. lia.
Qed.

Lemma zlen_removelast l : 1 <= zlen l -> zlen (removelast l) = zlen l - 1.
Proof. unfold zlen. intros H. rewrite removelast_firstn_len, firstn_length. lia. Qed.

Ltac size_of_abs I A := rewrite <- (zlen_abs _ (vi_size _ _ I)), A.

Lemma step_ok_false tr max_n w o : fits tr max_n ->
  vinv tr (wa w) -> vinv tr (wb w) -> v_size (wa w) <= max_n -> v_size (wb w) <= max_n ->
  op_pre max_n (abs (wa w)) (abs (wb w)) o = true ->
  step_post tr max_n w false o.
Proof.
  intros F Ia Ib Sa Sb Pre. unfold step_post. cbv zeta.
  pose proof (vi_size _ _ Ia) as Sza. pose proof (vi_size _ _ Ib) as Szb.
  pose proof (zlen_abs _ Sza) as La. pose proof (zlen_abs _ Szb) as Lb.
  unfold op_pre in Pre. rewrite ?La, ?Lb in Pre.
  destruct o; unfold step, w_self, w_other, w_put; cbn [spec_step fst snd op_erase_shifts op_insert_single].
  - (* push / emplace *)
    pose proof (emplace_back_spec tr max_n k t (wa w) (wl w) F Ia ltac:(lia)) as H. cbv zeta in H.
    destruct (emplace_back tr k t (wa w, wl w)) as [[v' L'] ret]. cbn [fst snd] in *. destruct H as (H1 & H2 & H3 & H4 & H5 & H6).
    apply post_single; auto; try lia. size_of_abs H1 H2. rewrite zlen_app, La. unfold zlen; simpl; lia.
  - pose proof (grow_by_list_spec tr max_n KValue (zrepeat 0 n) (wa w) (wl w) F Ia ltac:(rewrite zlen_zrepeat by lia; lia)) as H. cbv zeta in H.
    destruct (grow_by_list tr KValue (zrepeat 0 n) (wa w, wl w)) as [[v' L'] ret]. cbn [fst snd] in *. destruct H as (H1 & H2 & H3 & H4 & H5 & H6).
    apply post_single; auto; try lia. size_of_abs H1 H2. rewrite zlen_app, La, zlen_zrepeat by lia. lia.
  - pose proof (grow_by_list_spec tr max_n KCopy (zrepeat t n) (wa w) (wl w) F Ia ltac:(rewrite zlen_zrepeat by lia; lia)) as H. cbv zeta in H.
    destruct (grow_by_list tr KCopy (zrepeat t n) (wa w, wl w)) as [[v' L'] ret]. cbn [fst snd] in *. destruct H as (H1 & H2 & H3 & H4 & H5 & H6).
    apply post_single; auto; try lia. size_of_abs H1 H2. rewrite zlen_app, La, zlen_zrepeat by lia. lia.
  - pose proof (grow_by_list_spec tr max_n KCopy ts (wa w) (wl w) F Ia ltac:(lia)) as H. cbv zeta in H.
    destruct (grow_by_list tr KCopy ts (wa w, wl w)) as [[v' L'] ret]. cbn [fst snd] in *. destruct H as (H1 & H2 & H3 & H4 & H5 & H6).
    apply post_single; auto; try lia. size_of_abs H1 H2. rewrite zlen_app, La. lia.
  - pose proof (grow_by_list_spec tr max_n KValue (zseq t0 n) (wa w) (wl w) F Ia ltac:(rewrite zlen_zseq by lia; lia)) as H. cbv zeta in H.
    destruct (grow_by_list tr KValue (zseq t0 n) (wa w, wl w)) as [[v' L'] ret]. cbn [fst snd] in *. destruct H as (H1 & H2 & H3 & H4 & H5 & H6).
    apply post_single; auto; try lia. size_of_abs H1 H2. rewrite zlen_app, La, zlen_zseq by lia. lia.
  - pose proof (grow_to_at_least_spec tr max_n KValue n 0 (wa w) (wl w) F Ia ltac:(lia)) as H. cbv zeta in H.
    destruct (grow_to_at_least tr KValue n 0 (wa w, wl w)) as [[v' L'] ret]. cbn [fst snd] in *. destruct H as (H1 & H2 & H3 & H4 & H5 & H6).
    rewrite La. apply post_single; auto; try lia. size_of_abs H1 H2. rewrite zlen_spec_resize by lia. lia.
  - pose proof (grow_to_at_least_spec tr max_n KCopy n t (wa w) (wl w) F Ia ltac:(lia)) as H. cbv zeta in H.
    destruct (grow_to_at_least tr KCopy n t (wa w, wl w)) as [[v' L'] ret]. cbn [fst snd] in *. destruct H as (H1 & H2 & H3 & H4 & H5 & H6).
    rewrite La. apply post_single; auto; try lia. size_of_abs H1 H2. rewrite zlen_spec_resize by lia. lia.
  - (* pop_back *)
    pose proof (pop_back_spec tr (wa w) (wl w) Ia ltac:(lia)) as H. cbv zeta in H.
    destruct (pop_back (wa w, wl w)) as [v' L']. cbn [fst snd] in *. destruct H as (H1 & H2 & H3 & H4 & H5).
    apply post_single; auto; try lia. size_of_abs H1 H2. rewrite zlen_removelast by lia. lia.
  - (* resize *)
    pose proof (resize_spec tr max_n KValue n 0 (wa w) (wl w) F Ia ltac:(lia)) as H. cbv zeta in H.
    destruct (resize tr KValue n 0 (wa w, wl w)) as [v' L']. cbn [fst snd] in *. destruct H as (H1 & H2 & H3 & H4 & H5).
    apply post_single; auto; try lia. size_of_abs H1 H2. rewrite zlen_spec_resize by lia. lia.
  - pose proof (resize_spec tr max_n KCopy n t (wa w) (wl w) F Ia ltac:(lia)) as H. cbv zeta in H.
    destruct (resize tr KCopy n t (wa w, wl w)) as [v' L']. cbn [fst snd] in *. destruct H as (H1 & H2 & H3 & H4 & H5).
    apply post_single; auto; try lia. size_of_abs H1 H2. rewrite zlen_spec_resize by lia. lia.
  - (* clear *)
    pose proof (clear_spec tr (wa w) (wl w) Ia) as H. cbv zeta in H.
    destruct (clear (wa w, wl w)) as [v' L']. cbn [fst snd] in *. destruct H as (H1 & H2 & H3 & H4 & H5 & H6).
    apply post_single; auto; try lia. destruct F; lia.
  - (* erase(pos) *)
    pose proof (erase_one_spec tr i (wa w) (wl w) Ia ltac:(lia)) as H. cbv zeta in H.
    destruct (erase_one i (wa w, wl w)) as [[v' L'] ret]. cbn [fst snd] in *. destruct H as (H1 & H2 & H3 & H4 & H5).
    rewrite La. apply post_single; auto; try lia.
    + size_of_abs H1 H2. rewrite zlen_app, zlen_firstn, zlen_skipn by lia. lia.
    + intros Hs. apply H5. lia.
    + intros Hs _. apply H5. lia.
  - (* erase(first, last) *)
    pose proof (erase_range_spec tr i j (wa w) (wl w) Ia ltac:(lia) ltac:(lia)) as H. cbv zeta in H.
    destruct (erase_range i j (wa w, wl w)) as [[v' L'] ret]. cbn [fst snd] in *. destruct H as (H1 & H2 & H3 & H4 & H5).
    rewrite La. apply post_single; auto; try lia.
    + size_of_abs H1 H2. rewrite zlen_app, zlen_firstn, zlen_skipn by lia. lia.
    + intros Hs. apply H5. lia.
    + intros Hs _. apply H5. lia.
  - (* insert(pos, value) *)
    pose proof (insert_one_spec tr max_n k i t (wa w) (wl w) F Ia ltac:(lia) ltac:(lia)) as H. cbv zeta in H.
    destruct (insert_one tr k i t (wa w, wl w)) as [[v' L'] ret]. cbn [fst snd] in *. destruct H as (H1 & H2 & H3 & H4 & H5).
    apply post_single; auto; try lia.
    + size_of_abs H1 H2. rewrite zlen_app, zlen_cons, zlen_firstn, zlen_skipn by lia. lia.
    + intros; discriminate.
  - (* insert(pos, n, value) *)
    pose proof (insert_list_spec tr max_n i (zrepeat t n) (wa w) (wl w) F Ia ltac:(lia) ltac:(rewrite zlen_zrepeat by lia; lia)) as H. cbv zeta in H.
    destruct (insert_list tr i (zrepeat t n) (wa w, wl w)) as [[v' L'] ret]. cbn [fst snd] in *. destruct H as (H1 & H2 & H3 & H4 & H5 & H6).
    apply post_single; auto; try lia. size_of_abs H1 H2. rewrite !zlen_app, zlen_firstn, zlen_skipn, zlen_zrepeat by lia. lia.
  - pose proof (insert_list_spec tr max_n i ts (wa w) (wl w) F Ia ltac:(lia) ltac:(lia)) as H. cbv zeta in H.
    destruct (insert_list tr i ts (wa w, wl w)) as [[v' L'] ret]. cbn [fst snd] in *. destruct H as (H1 & H2 & H3 & H4 & H5 & H6).
    apply post_single; auto; try lia. size_of_abs H1 H2. rewrite !zlen_app, zlen_firstn, zlen_skipn by lia. lia.
  - (* assign *)
    pose proof (assign_tags_spec tr max_n (zrepeat t n) (wa w) (wl w) F Ia ltac:(rewrite zlen_zrepeat by lia; lia)) as H. cbv zeta in H.
    destruct (assign_tags tr (zrepeat t n) (wa w, wl w)) as [v' L']. cbn [fst snd] in *. destruct H as (H1 & H2 & H3 & H4 & H5).
    apply post_single; auto; try lia. size_of_abs H1 H2. rewrite zlen_zrepeat by lia. lia.
  - pose proof (assign_tags_spec tr max_n ts (wa w) (wl w) F Ia ltac:(lia)) as H. cbv zeta in H.
    destruct (assign_tags tr ts (wa w, wl w)) as [v' L']. cbn [fst snd] in *. destruct H as (H1 & H2 & H3 & H4 & H5).
    apply post_single; auto; try lia. size_of_abs H1 H2. lia.
  - (* reserve *)
    pose proof (reserve_spec tr max_n (wa w) (wl w) n F Ia ltac:(lia)) as H. cbv zeta in H.
    destruct (reserve tr n (wa w, wl w)) as [v' L']. cbn [fst snd] in *. destruct H as (H1 & H2 & H3 & H4 & H5 & H6). subst L'.
    assert (A : abs v' = abs (wa w)).
    { apply abs_ext; [lia | lia |]. rewrite H3. intros j Hj. rewrite znth_abs by lia. unfold tag_at. rewrite H5. reflexivity. }
    apply post_single; auto; try lia.
    intros _ _ [CA CB]. split; [|exists 0, 0; split; [apply ldelta_refl | lia]].
    split; rewrite H3; intros j Hj; unfold live_at, st_at; rewrite H5; [apply CA | apply (CB j)]; exact Hj.
  - (* shrink_to_fit *)
    pose proof (shrink_to_fit_spec tr (wa w) (wl w) Ia) as H. cbv zeta in H.
    destruct (shrink_to_fit tr (wa w, wl w)) as [v' L']. cbn [fst snd] in *. destruct H as (H1 & H2 & H3 & H4 & H5 & H6).
    apply post_single; auto; try lia.
    intros _ _ CV. destruct (H6 CV) as (EL & CV'). subst L'. split; [exact CV'|]. exists 0, 0. split; [apply ldelta_refl | lia].
  - (* swap *)
    unfold post. cbn [wa wb wl fst snd].
    split; [exact Ib|]. split; [exact Ia|]. split; [reflexivity|]. split; [reflexivity|]. split; [exact Sb|]. split; [exact Sa|].
    split; [reflexivity|]. intros Ca Cb _ _. split; [exact Cb|]. split; [exact Ca|].
    replace (v_size (wb w) + v_size (wa w) - v_size (wa w) - v_size (wb w)) with 0 by lia. apply lnet_refl.
  - (* copy assignment *)
    destruct (use_all_spec (wb w) (wl w)) as [UB UL].
    pose proof (assign_tags_spec tr max_n (abs (wb w)) (wa w) (use_all (wb w) (wl w)) F Ia ltac:(lia)) as H. cbv zeta in H.
    destruct (assign_tags tr (abs (wb w)) (wa w, use_all (wb w) (wl w))) as [v' L']. cbn [fst snd] in *. destruct H as (H1 & H2 & H3 & H4 & H5).
    unfold post. cbn [wa wb wl fst snd].
    assert (Sv : v_size v' = v_size (wb w)) by (size_of_abs H1 H2; lia).
    split; [exact H1|]. split; [exact Ib|]. split; [rewrite H2; reflexivity|]. split; [congruence|]. split; [lia|]. split; [lia|].
    split; [reflexivity|]. intros Ca Cb _ _. rewrite UL in H5 by (intros j Hj; apply clean_live; assumption).
    destruct (life_ok_lnet _ _ _ _ H5 Ca) as (C' & LN). split; [exact C'|]. split; [exact Cb|].
    replace (v_size v' + v_size (wb w) - v_size (wa w) - v_size (wb w)) with (v_size v' - v_size (wa w)) by lia. exact LN.
  - (* move assignment *)
    pose proof (clear_spec tr (wa w) (wl w) Ia) as H. cbv zeta in H.
    destruct (clear (wa w, wl w)) as [s1 L1]. cbn [fst snd] in *. destruct H as (H1 & H2 & H3 & H4 & H5 & H6).
    rewrite !cvec_eta. unfold post. cbn [wa wb wl fst snd].
    split; [exact Ib|]. split; [exact H1|]. split; [rewrite H2; reflexivity|]. split; [exact H4|]. split; [lia|]. split; [lia|].
    split; [reflexivity|]. intros Ca Cb _ _. destruct (life_ok_lnet _ _ _ _ H6 Ca) as (C' & LN).
    split; [exact Cb|]. split; [exact C'|].
    replace (v_size (wb w) + v_size s1 - v_size (wa w) - v_size (wb w)) with (v_size s1 - v_size (wa w)) by lia. exact LN.
  - (* self assignment *)
    apply post_same; assumption.
  - (* destroy and construct anew *)
    destruct (destruct_vec_spec tr (wa w) (wl w) Ia) as [DB DL]. set (L1 := destruct_vec tr (wa w, wl w)) in *.
    assert (Fin : forall v' L' l', vinv tr v' -> abs v' = l' -> cl_bad L' = cl_bad L1 -> v_size v' <= max_n -> clean v' ->
                  (clean (wa w) -> lnet L1 L' (v_size v')) ->
                  post tr max_n w (mkW v' (wb w) L') (-1) (l', abs (wb w)) (-1) false false).
    { intros v' L' l' I' A' B' S' C' LN'. unfold post. cbn [wa wb wl].
      split; [exact I'|]. split; [exact Ib|]. split; [rewrite A'; reflexivity|]. split; [congruence|]. split; [exact S'|]. split; [exact Sb|].
      split; [reflexivity|]. intros Ca Cb _ _. split; [exact C'|]. split; [exact Cb|].
      replace (v_size v' + v_size (wb w) - v_size (wa w) - v_size (wb w)) with (- v_size (wa w) + v_size v') by lia.
      eapply lnet_trans; [apply DL; exact Ca | apply LN'; exact Ca]. }
    destruct c; cbn [spec_step fst snd].
    + pose proof (ctor_reserve_spec tr max_n (Z.quot (t_defcap tr) 2) F) as C. cbv zeta in C. destruct C as (C1 & C2 & C3 & _ & _ & C6).
      apply Fin; auto; [unfold ctor_default; destruct F; lia | intros _; unfold ctor_default; rewrite C3; apply lnet_refl].
    + pose proof (ctor_reserve_spec tr max_n n F) as C. cbv zeta in C. destruct C as (C1 & C2 & C3 & _ & _ & C6).
      apply Fin; auto; [destruct F; lia | intros _; rewrite C3; apply lnet_refl].
    + pose proof (ctor_fill_spec tr max_n KValue (zrepeat 0 n) L1 true F ltac:(rewrite zlen_zrepeat by lia; lia)) as C. cbv zeta in C.
      rewrite zlen_zrepeat in C by lia. unfold ctor_sized.
      destruct (construct_bs KValue (zrepeat 0 n) 0 0 (with_size (ctor_reserve tr n) n, L1)) as [v' L']. cbn [fst snd] in C.
      destruct C as (C1 & C2 & C3 & C4 & C5). assert (Sv : v_size v' = n) by (size_of_abs C1 C2; rewrite zlen_zrepeat by lia; reflexivity).
      apply Fin; auto; [lia|]. intros _. rewrite Sv. replace n with (n - 0) at 1 by lia. apply lnet_of_ldelta. exact C5.
    + pose proof (ctor_fill_spec tr max_n KCopy (zrepeat t n) L1 true F ltac:(rewrite zlen_zrepeat by lia; lia)) as C. cbv zeta in C.
      rewrite zlen_zrepeat in C by lia. unfold ctor_sized.
      destruct (construct_bs KCopy (zrepeat t n) 0 0 (with_size (ctor_reserve tr n) n, L1)) as [v' L']. cbn [fst snd] in C.
      destruct C as (C1 & C2 & C3 & C4 & C5). assert (Sv : v_size v' = n) by (size_of_abs C1 C2; rewrite zlen_zrepeat by lia; reflexivity).
      apply Fin; auto; [lia|]. intros _. rewrite Sv. replace n with (n - 0) at 1 by lia. apply lnet_of_ldelta. exact C5.
    + pose proof (ctor_fill_spec tr max_n KCopy ts L1 false F ltac:(lia)) as C. cbv zeta in C. unfold ctor_range. fold (zlen ts).
      destruct (construct_list KCopy ts 0 (with_size (ctor_reserve tr (zlen ts)) (zlen ts), L1)) as [v' L']. cbn [fst snd] in C.
      destruct C as (C1 & C2 & C3 & C4 & C5). assert (Sv : v_size v' = zlen ts) by (size_of_abs C1 C2; reflexivity).
      apply Fin; auto; [lia|]. intros _. rewrite Sv. replace (zlen ts) with (zlen ts - 0) at 1 by lia. apply lnet_of_ldelta. exact C5.
    + destruct (use_all_spec (wb w) L1) as [UB UL].
      pose proof (ctor_fill_spec tr max_n KCopy (abs (wb w)) (use_all (wb w) L1) false F ltac:(lia)) as C. cbv zeta in C. unfold ctor_range. fold (zlen (abs (wb w))).
      destruct (construct_list KCopy (abs (wb w)) 0 (with_size (ctor_reserve tr (zlen (abs (wb w)))) (zlen (abs (wb w))), use_all (wb w) L1)) as [v' L'].
      cbn [fst snd] in C. destruct C as (C1 & C2 & C3 & C4 & C5).
      assert (Sv : v_size v' = v_size (wb w)) by (size_of_abs C1 C2; exact Lb).
      unfold post. cbn [wa wb wl].
      split; [exact C1|]. split; [exact Ib|]. split; [rewrite C2; reflexivity|]. split; [congruence|]. split; [lia|]. split; [exact Sb|].
      split; [reflexivity|]. intros Ca Cb _ _. split; [exact C4|]. split; [exact Cb|].
      rewrite UL in C5 by (intros j Hj; apply clean_live; assumption).
      replace (v_size v' + v_size (wb w) - v_size (wa w) - v_size (wb w)) with (- v_size (wa w) + (zlen (abs (wb w)) - 0)) by lia.
      eapply lnet_trans; [apply DL; exact Ca | apply lnet_of_ldelta; exact C5].
    + pose proof (empty_vec_spec tr max_n (v_shift (wb w)) F ltac:(apply (vi_wf _ _ Ib))) as C. cbv zeta in C. destruct C as (C1 & C2 & C3).
      unfold post. cbn [wa wb wl].
      split; [exact Ib|]. split; [exact C1|]. split; [rewrite C2; reflexivity|]. split; [exact DB|]. split; [exact Sb|]. split; [cbn; destruct F; lia|].
      split; [reflexivity|]. intros Ca Cb _ _. split; [exact Cb|]. split; [exact C3|]. cbn [v_size].
      replace (v_size (wb w) + 0 - v_size (wa w) - v_size (wb w)) with (- v_size (wa w)) by lia. apply DL. exact Ca.
  - (* iteration *)
    apply post_same; assumption.
  - (* at(i) *)
    unfold post. cbn [wa wb wl fst snd].
    split; [exact Ia|]. split; [exact Ib|]. split; [reflexivity|].
    split; [unfold c_use; destruct (c_st (get_cell (wa w) i)); reflexivity|]. split; [exact Sa|]. split; [exact Sb|].
    split; [intros _; change (nth (Z.to_nat i) (abs (wa w)) 0) with (znth (abs (wa w)) i); rewrite znth_abs by lia; reflexivity|].
    intros Ca Cb _ _. split; [exact Ca|]. split; [exact Cb|].
    replace (v_size (wa w) + v_size (wb w) - v_size (wa w) - v_size (wb w)) with 0 by lia.
    pose proof (clean_live _ i Ca ltac:(lia)) as X. unfold live_at, st_at in X. unfold c_use.
    destruct (c_st (get_cell (wa w) i)); try discriminate; apply lnet_refl.
  - (* front / back *)
    assert (E : c_tag (get_bs (wa w) 0 0) * 1000 + c_tag (get_cell (wa w) (v_size (wa w) - 1)) = nth 0 (abs (wa w)) 0 * 1000 + last (abs (wa w)) 0).
    { rewrite last_znth, La. change (nth 0 (abs (wa w)) 0) with (znth (abs (wa w)) 0). rewrite !znth_abs by lia.
      rewrite (get_bs_as_cell (wa w) 0 0 (vi_wf _ _ Ia)) by (try lia; pose proof (bucket_cap_pos (v_shift (wa w)) 0 ltac:(apply (vi_wf _ _ Ia))); lia).
      reflexivity. }
    rewrite E. apply post_same; assumption.
  - (* comparisons *)
    apply post_same; assumption.
Qed.
