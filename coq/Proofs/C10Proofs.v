(* C10: every trace of the message-passing skeleton (Model/OwnProtocols.v) is disciplined -- hence race free by the generic
   theorem -- PROVIDED the orders declared at the offering sites are >= Release and those at the taking sites >= Acquire.
   All interleavings, any number of offerers / takers / bystanders, any number of extra loads and read-modify-writes. *)
From Coq Require Import ZArith List Bool Arith Lia.
From DV Require Import Gen.GenOrders Base.Own Model.OwnProtocols Proofs.OwnProofs.
Import ListNotations.

(* ---------------------------------------------------------------- the predicates of Own.v only look below an index *)
Section Ext.
  Variables tr tr' : trace.
  Definition agree (n : nat) : Prop := forall i, i < n -> nth_error tr i = nth_error tr' i.

  Lemma thr_agree n i : agree n -> i < n -> thr tr i = thr tr' i.
  Proof. intros H Hi. unfold thr. rewrite (H i Hi). reflexivity. Qed.

  Lemma evt_agree n i : agree n -> i < n -> evt tr i = evt tr' i.
  Proof. intros H Hi. unfold evt. rewrite (H i Hi). reflexivity. Qed.

  Lemma po_agree n i j : agree n -> j < n -> po tr i j -> po tr' i j.
  Proof.
    intros H Hj [Hlt (t & Hi & Hjt)]. split; [exact Hlt|]. exists t.
    rewrite <- (thr_agree n i H) by lia. rewrite <- (thr_agree n j H) by lia. split; assumption.
  Qed.

  Lemma rel_src_agree n r x : agree n -> x < n -> rel_src tr r x -> rel_src tr' r x.
  Proof.
    intros H Hx [[-> (e & He & Hm)]|[Hpo (m & He & Hm)]].
    - left. split; [reflexivity|]. exists e. rewrite <- (evt_agree n x H Hx). split; assumption.
    - right. split; [eapply po_agree; eassumption|]. exists m. pose proof (po_lt _ _ _ Hpo).
      rewrite <- (evt_agree n r H) by lia. split; assumption.
  Qed.

  Lemma acq_dst_agree n y k : agree n -> k < n -> acq_dst tr y k -> acq_dst tr' y k.
  Proof.
    intros H Hk [[-> (e & He & Hm)]|[Hpo (m & He & Hm)]].
    - left. split; [reflexivity|]. exists e. rewrite <- (evt_agree n y H Hk). split; assumption.
    - right. split; [eapply po_agree; eassumption|]. exists m.
      rewrite <- (evt_agree n k H Hk). split; assumption.
  Qed.

  Lemma sw_agree n r k : agree n -> k < n -> sw tr r k -> sw tr' r k.
  Proof.
    intros H Hk (a & x & y & ex & ey & Hr & Ha & Hxy & Ex & Wx & Ey & Ry & Hb).
    pose proof (acq_dst_le _ _ _ Ha) as Hyk.
    exists a, x, y, ex, ey. repeat split.
    - eapply rel_src_agree; [exact H | lia | exact Hr].
    - eapply acq_dst_agree; eassumption.
    - exact Hxy.
    - rewrite <- (evt_agree n x H) by lia. exact Ex.
    - exact Wx.
    - rewrite <- (evt_agree n y H) by lia. exact Ey.
    - exact Ry.
    - intros w e Hw He. apply (Hb w e Hw). rewrite (evt_agree n w H) by lia. exact He.
  Qed.

  Lemma xfer_agree n o k : agree n -> k < n -> xfer_ok tr o k -> xfer_ok tr' o k.
  Proof.
    intros H Hk (r & a & H1 & H2 & H3). pose proof (po_lt _ _ _ H3). pose proof (sw_lt _ _ _ H2).
    exists r, a. split; [|split].
    - eapply po_agree; [exact H | | exact H1]. lia.
    - eapply sw_agree; [exact H | | exact H2]. lia.
    - eapply po_agree; eassumption.
  Qed.

  Lemma gs_agree init n m : agree n -> m <= n -> gs tr init m = gs tr' init m.
  Proof.
    intros H. induction m as [|m IH]; intros Hm; [reflexivity|].
    cbn [gs]. rewrite <- (H m) by lia. rewrite IH by lia. reflexivity.
  Qed.

  Lemma ev_ok_agree init N n i t e : agree n -> i < n -> ev_ok tr init N i t e -> ev_ok tr' init N i t e.
  Proof.
    intros H Hi. unfold ev_ok. rewrite (gs_agree init n i H) by lia.
    destruct e; try exact (fun x => x).
    intros (o & Hg & Hx). exists o. split; [exact Hg | eapply xfer_agree; eassumption].
  Qed.
End Ext.

Lemma agree_app (tr : trace) te : agree tr (tr ++ [te]) (length tr).
Proof. intros i Hi. rewrite nth_error_app1 by exact Hi. reflexivity. Qed.

Lemma nth_app_new (tr : trace) te : nth_error (tr ++ [te]) (length tr) = Some te.
Proof. rewrite nth_error_app2 by lia. rewrite Nat.sub_diag. reflexivity. Qed.

Lemma nth_app_old (tr : trace) te i x : nth_error tr i = Some x -> nth_error (tr ++ [te]) i = Some x.
Proof.
  intros H. rewrite nth_error_app1; [exact H|]. apply nth_error_Some. rewrite H. discriminate.
Qed.

Lemma nth_app_inv (tr : trace) te i x :
  nth_error (tr ++ [te]) i = Some x -> (i < length tr /\ nth_error tr i = Some x) \/ (i = length tr /\ x = te).
Proof.
  intros H. destruct (Nat.lt_ge_cases i (length tr)) as [Hl|Hl].
  - left. rewrite nth_error_app1 in H by exact Hl. split; assumption.
  - right. rewrite nth_error_app2 in H by exact Hl.
    destruct (i - length tr) as [|d] eqn:E; cbn in H.
    + inversion H. split; [lia | reflexivity].
    + destruct d; discriminate.
Qed.

Lemma gs_snoc (tr : trace) te init :
  gs (tr ++ [te]) init (length (tr ++ [te])) = gstep (gs tr init (length tr)) (length tr) te.
Proof.
  rewrite app_length. cbn [length]. rewrite Nat.add_1_r. cbn [gs]. rewrite nth_app_new.
  rewrite <- (gs_agree tr (tr ++ [te]) init (length tr) (length tr) (agree_app tr te)) by lia. reflexivity.
Qed.

Lemma nodup_fst_inj (l : list (nat * nat)) a b c : NoDup (map fst l) -> In (a, b) l -> In (a, c) l -> b = c.
Proof.
  induction l as [|[a' b'] l IH]; cbn; intros Hn Hb Hc; [contradiction|].
  inversion Hn as [|? ? Hnotin Hn']; subst.
  destruct Hb as [Hb|Hb]; destruct Hc as [Hc|Hc].
  - congruence.
  - inversion Hb; subst. exfalso. apply Hnotin. apply in_map_iff. exists (a, c). split; [reflexivity | exact Hc].
  - inversion Hc; subst. exfalso. apply Hnotin. apply in_map_iff. exists (a, b). split; [reflexivity | exact Hb].
  - apply IH; assumption.
Qed.

Lemma memn_In x l : memn x l = true <-> In x l.
Proof.
  unfold memn. rewrite existsb_exists. split.
  - intros (y & Hy & E). apply Nat.eqb_eq in E. subst. exact Hy.
  - intros H. exists x. split; [exact H | apply Nat.eqb_refl].
Qed.

Lemma mo_eqb_eq a b : mo_eqb a b = true -> a = b.
Proof. destruct a, b; cbn; intros H; try discriminate; reflexivity. Qed.

Lemma mem_mo_In m l : mem_mo m l = true -> In m l.
Proof.
  unfold mem_mo. rewrite existsb_exists. intros (y & Hy & E). apply mo_eqb_eq in E. subst. exact Hy.
Qed.

Lemma pigeon (l : list nat) n : NoDup l -> (forall x, In x l -> x < n) -> n <= length l -> forall i, i < n -> In i l.
Proof.
  intros Hn Hb Hlen i Hi.
  assert (Hincl : incl (seq 0 n) l).
  { apply NoDup_length_incl; [exact Hn | rewrite seq_length; exact Hlen |].
    intros x Hx. apply in_seq. specialize (Hb x Hx). lia. }
  apply Hincl. apply in_seq. lia.
Qed.

Section Skel.
  Variable p : proto.
  Hypothesis WF : wf_proto p = true.
  Hypothesis OK : orders_ok p = true.

  Definition is_pub (te : tid * ev) (i : nat) : Prop :=
    exists m v w, te = (i, At_op A (off_kind p) m v w) /\ In m (off_mos p).
  Definition is_acq (te : tid * ev) (j : nat) : Prop :=
    exists m v w, te = (ttid p j, At_op A (take_kind p) m v w) /\ In m (take_mos p).

  Record Inv (s : st) : Prop := {
    I_disc : forall i t e, nth_error (s_tr s) i = Some (t, e) -> ev_ok (s_tr s) init_g (n_take p) i t e;
    I_pub : forall i x, In (i, x) (s_pub s) -> i < n_off p /\ exists te, nth_error (s_tr s) x = Some te /\ is_pub te i;
    I_nodup : NoDup (map fst (s_pub s));
    I_offb : forall i x o l tok, In (i, x) (s_pub s) -> nth_error (s_tr s) o = Some (i, Offer l tok) -> o < x;
    I_acq : forall j y, In (j, y) (s_acq s) ->
        (exists te, nth_error (s_tr s) y = Some te /\ is_acq te j) /\
        (forall i, i < n_off p -> exists x, x < y /\ In (i, x) (s_pub s));
    I_transit : forall l tok o, cur s l tok = Transit o -> nth_error (s_tr s) o = Some (l, Offer l tok);
    I_nonrmw : forall w t e, nth_error (s_tr s) w = Some (t, e) -> writes_to A e = true -> is_rmw e = false ->
        exists i, In (i, w) (s_pub s) }.

  (* ---- consequences of well-formedness *)
  Lemma wf_parts : 1 <= n_off p /\ 1 <= n_take p /\ off_kind p <> ALoad /\ take_kind p <> AStore /\
                   (off_kind p = AStore -> n_off p = 1).
  Proof.
    pose proof WF as W. unfold wf_proto in W. rewrite !andb_true_iff in W.
    destruct W as ((((W1 & W2) & W3) & W4) & W5).
    split; [apply Nat.leb_le; exact W1|]. split; [apply Nat.leb_le; exact W2|].
    split; [intros E; rewrite E in W3; cbn in W3; discriminate|].
    split; [intros E; rewrite E in W4; cbn in W4; discriminate|].
    intros E. rewrite E in W5. cbn in W5. apply Nat.eqb_eq. exact W5.
  Qed.

  Lemma pub_writes m v w : writes_to A (At_op A (off_kind p) m v w) = true.
  Proof. destruct wf_parts as (_ & _ & H & _). cbn. destruct (off_kind p); [contradiction | reflexivity | reflexivity]. Qed.

  Lemma acq_reads m v w : reads_from_a A (At_op A (take_kind p) m v w) = true.
  Proof. destruct wf_parts as (_ & _ & _ & H & _). cbn. destruct (take_kind p); [reflexivity | contradiction | reflexivity]. Qed.

  Lemma acq_not_plain_write m v w : writes_to A (At_op A (take_kind p) m v w) = true -> is_rmw (At_op A (take_kind p) m v w) = true.
  Proof. destruct wf_parts as (_ & _ & _ & H & _). cbn. destruct (take_kind p); [discriminate | contradiction | reflexivity]. Qed.

  Lemma off_rel m : In m (off_mos p) -> rel_mo m = true.
  Proof.
    intros H. unfold orders_ok in OK. apply andb_true_iff in OK. destruct OK as [O1 _].
    rewrite forallb_forall in O1. exact (O1 m H).
  Qed.

  Lemma take_acq m : In m (take_mos p) -> acq_mo m = true.
  Proof.
    intros H. unfold orders_ok in OK. apply andb_true_iff in OK. destruct OK as [_ O2].
    rewrite forallb_forall in O2. exact (O2 m H).
  Qed.

  (* ---- ghost state of a state whose trace was extended by one event *)
  Lemma cur_ext s te : gs (s_tr s ++ [te]) init_g (length (s_tr s)) = cur s.
  Proof. unfold cur. symmetry. apply (gs_agree _ _ init_g (length (s_tr s))); [apply agree_app | lia]. Qed.

  Lemma holds_cur s t l tok : holds s t l tok = true -> cur s l tok = Held t.
  Proof.
    unfold holds. destruct (cur s l tok) as [u|o]; [|discriminate]. intros H. apply Nat.eqb_eq in H. subst. reflexivity.
  Qed.

  Lemma inv0 : Inv st0.
  Proof.
    constructor; cbn.
    - intros i t e H. destruct i; discriminate.
    - intros i x [].
    - constructor.
    - intros i x o l tok [].
    - intros j y [].
    - intros l tok o H. discriminate.
    - intros w t e H. destruct w; discriminate.
  Qed.

  (* appending an event that is neither a publish nor a successful acquiring read *)
  Lemma inv_snoc s t e : Inv s ->
    ev_ok (s_tr s ++ [(t, e)]) init_g (n_take p) (length (s_tr s)) t e ->
    (forall l tok, e = Offer l tok -> t = l /\ ~ In l (map fst (s_pub s))) ->
    (writes_to A e = true -> is_rmw e = true) ->
    Inv (snoc s (t, e)).
  Proof.
    intros I Hok Hoffer Hw. pose proof (agree_app (s_tr s) (t, e)) as Ag.
    constructor; cbn [snoc s_tr s_pub s_acq].
    - intros i t0 e0 H. apply nth_app_inv in H. destruct H as [[Hl H]|[-> H]].
      + eapply ev_ok_agree; [exact Ag | exact Hl | exact (I_disc s I _ _ _ H)].
      + inversion H; subst. exact Hok.
    - intros i x H. destruct (I_pub s I _ _ H) as (Hi & te & Hn & Hp).
      split; [exact Hi|]. exists te. split; [apply nth_app_old; exact Hn | exact Hp].
    - exact (I_nodup s I).
    - intros i x o l tok Hin H. apply nth_app_inv in H. destruct H as [[Hl H]|[-> H]].
      + exact (I_offb s I _ _ _ _ _ Hin H).
      + inversion H; subst. destruct (Hoffer l tok eq_refl) as [-> Hnot]. exfalso. apply Hnot.
        apply in_map_iff. exists (l, x). split; [reflexivity | exact Hin].
    - intros j y H. destruct (I_acq s I _ _ H) as ((te & Hn & Ha) & Hall).
      split; [exists te; split; [apply nth_app_old; exact Hn | exact Ha] | exact Hall].
    - intros l tok o. unfold cur. cbn [snoc s_tr]. rewrite gs_snoc. fold (cur s). unfold gstep. cbn [fst snd].
      destruct e as [l0|l0|a k m vr vw|m|l0 tok0|l0 tok0];
        try (intros H; apply nth_app_old; exact (I_transit s I _ _ _ H)).
      + destruct (pair_dec l0 tok0 l tok) as [E|NE].
        * inversion E; subst. rewrite upd_same. intros H. inversion H; subst.
          destruct (Hoffer l tok eq_refl) as [-> _]. apply nth_app_new.
        * rewrite upd_other by exact NE. intros H. apply nth_app_old. exact (I_transit s I _ _ _ H).
      + destruct (pair_dec l0 tok0 l tok) as [E|NE].
        * inversion E; subst. rewrite upd_same. discriminate.
        * rewrite upd_other by exact NE. intros H. apply nth_app_old. exact (I_transit s I _ _ _ H).
    - intros w t0 e0 H Hwr Hnr. apply nth_app_inv in H. destruct H as [[Hl H]|[-> H]].
      + exact (I_nonrmw s I _ _ _ H Hwr Hnr).
      + inversion H; subst. rewrite (Hw Hwr) in Hnr. discriminate.
  Qed.

  Lemma inv_access s t l w s' : Inv s -> step p s (AAccess t l w) = Some s' -> Inv s'.
  Proof.
    intros I H. unfold step in H.
    destruct w.
    - destruct (holds_all s t l (n_take p)) eqn:G; [|discriminate]. inversion H; subst.
      apply inv_snoc; [exact I | | intros ? ? E; discriminate | cbn; discriminate].
      cbn. rewrite cur_ext. intros tok Ht. unfold holds_all in G. rewrite forallb_forall in G.
      apply holds_cur. apply G. apply in_seq. lia.
    - destruct (holds_some s t l (n_take p)) eqn:G; [|discriminate]. inversion H; subst.
      apply inv_snoc; [exact I | | intros ? ? E; discriminate | cbn; discriminate].
      cbn. rewrite cur_ext. unfold holds_some in G. rewrite existsb_exists in G. destruct G as (tok & Hin & Hh).
      exists tok. apply in_seq in Hin. split; [lia | apply holds_cur; exact Hh].
  Qed.

  Lemma inv_offer s i tok s' : Inv s -> step p s (AOffer i tok) = Some s' -> Inv s'.
  Proof.
    intros I H. unfold step in H.
    destruct ((i <? n_off p) && (tok <? n_take p) && negb (memn i (map fst (s_pub s))) && holds s i i tok) eqn:G; [|discriminate].
    inversion H; subst. rewrite !andb_true_iff in G. destruct G as (((G1 & G2) & G3) & G4).
    apply inv_snoc; [exact I | | | cbn; discriminate].
    - cbn. rewrite cur_ext. apply holds_cur. exact G4.
    - intros l tok' E. inversion E; subst. split; [reflexivity|].
      intros Hin. apply memn_In in Hin. rewrite Hin in G3. discriminate.
  Qed.

  Lemma inv_other s t rmw m s' : Inv s -> step p s (AOther t rmw m) = Some s' -> Inv s'.
  Proof.
    intros I H. unfold step in H. inversion H; subst.
    apply inv_snoc; [exact I | exact Logic.I | intros ? ? E; discriminate |].
    destruct rmw; cbn; [reflexivity | discriminate].
  Qed.

  Lemma inv_publish s i m s' : Inv s -> step p s (APublish i m) = Some s' -> Inv s'.
  Proof.
    intros I H. unfold step in H.
    destruct ((i <? n_off p) && negb (memn i (map fst (s_pub s))) && mem_mo m (off_mos p)) eqn:G; [|discriminate].
    inversion H; subst; clear H. rewrite !andb_true_iff in G. destruct G as ((G1 & G2) & G3).
    apply Nat.ltb_lt in G1. apply mem_mo_In in G3.
    assert (Hnot : ~ In i (map fst (s_pub s))).
    { intros Hin. apply memn_In in Hin. rewrite Hin in G2. discriminate. }
    set (te := (i, At_op A (off_kind p) m (count s) (count s + 1)%Z)).
    pose proof (agree_app (s_tr s) te) as Ag.
    constructor; cbn [s_tr s_pub s_acq].
    - intros i0 t0 e0 H. apply nth_app_inv in H. destruct H as [[Hl H]|[-> H]].
      + eapply ev_ok_agree; [exact Ag | exact Hl | exact (I_disc s I _ _ _ H)].
      + inversion H; subst. exact Logic.I.
    - intros i0 x [E|Hin].
      + inversion E; subst. split; [exact G1|]. exists te. split; [apply nth_app_new|].
        exists m, (count s), (count s + 1)%Z. split; [reflexivity | exact G3].
      + destruct (I_pub s I _ _ Hin) as (Hi & te0 & Hn & Hp).
        split; [exact Hi|]. exists te0. split; [apply nth_app_old; exact Hn | exact Hp].
    - cbn. constructor; [exact Hnot | exact (I_nodup s I)].
    - intros i0 x o l tok Hin H. apply nth_app_inv in H. destruct H as [[Hl H]|[-> H]]; [|inversion H].
      destruct Hin as [E|Hin]; [inversion E; subst; exact Hl | exact (I_offb s I _ _ _ _ _ Hin H)].
    - intros j y H. destruct (I_acq s I _ _ H) as ((te0 & Hn & Ha) & Hall).
      split; [exists te0; split; [apply nth_app_old; exact Hn | exact Ha]|].
      intros i0 Hi0. destruct (Hall i0 Hi0) as (x & Hx & Hin). exists x. split; [exact Hx | right; exact Hin].
    - intros l tok o. unfold cur. cbn [s_tr]. rewrite gs_snoc. fold (cur s). cbn.
      intros H. apply nth_app_old. exact (I_transit s I _ _ _ H).
    - intros w t0 e0 H Hwr Hnr. apply nth_app_inv in H. destruct H as [[Hl H]|[-> H]].
      + destruct (I_nonrmw s I _ _ _ H Hwr Hnr) as (i0 & Hin). exists i0. right. exact Hin.
      + exists i. left. reflexivity.
  Qed.

  Lemma inv_acquire s j m s' : Inv s -> step p s (AAcquire j m) = Some s' -> Inv s'.
  Proof.
    intros I H. unfold step in H.
    destruct ((j <? n_take p) && mem_mo m (take_mos p)) eqn:G; [|discriminate].
    inversion H; subst; clear H. rewrite !andb_true_iff in G. destruct G as (G1 & G2). apply mem_mo_In in G2.
    set (te := (ttid p j, At_op A (take_kind p) m (count s) (count s))).
    pose proof (agree_app (s_tr s) te) as Ag.
    constructor; cbn [s_tr s_pub s_acq].
    - intros i0 t0 e0 H. apply nth_app_inv in H. destruct H as [[Hl H]|[-> H]].
      + eapply ev_ok_agree; [exact Ag | exact Hl | exact (I_disc s I _ _ _ H)].
      + inversion H; subst. exact Logic.I.
    - intros i0 x Hin. destruct (I_pub s I _ _ Hin) as (Hi & te0 & Hn & Hp).
      split; [exact Hi|]. exists te0. split; [apply nth_app_old; exact Hn | exact Hp].
    - exact (I_nodup s I).
    - intros i0 x o l tok Hin H. apply nth_app_inv in H. destruct H as [[Hl H]|[-> H]]; [|inversion H].
      exact (I_offb s I _ _ _ _ _ Hin H).
    - assert (Old : forall j0 y, In (j0, y) (s_acq s) ->
                (exists te0, nth_error (s_tr s ++ [te]) y = Some te0 /\ is_acq te0 j0) /\
                (forall i0, i0 < n_off p -> exists x, x < y /\ In (i0, x) (s_pub s))).
      { intros j0 y H. destruct (I_acq s I _ _ H) as ((te0 & Hn & Ha) & Hall).
        split; [exists te0; split; [apply nth_app_old; exact Hn | exact Ha] | exact Hall]. }
      destruct (n_off p <=? length (s_pub s)) eqn:C; [|exact Old].
      intros j0 y [E|Hin]; [|exact (Old _ _ Hin)].
      inversion E; subst. split.
      + exists te. split; [apply nth_app_new|]. exists m, (count s), (count s). split; [reflexivity | exact G2].
      + apply Nat.leb_le in C. intros i0 Hi0.
        assert (Hin : In i0 (map fst (s_pub s))).
        { apply pigeon with (n := n_off p); [exact (I_nodup s I) | | rewrite map_length; exact C | exact Hi0].
          intros x Hx. apply in_map_iff in Hx. destruct Hx as ([a b] & Ea & Hab). cbn in Ea. subst.
          exact (proj1 (I_pub s I _ _ Hab)). }
        apply in_map_iff in Hin. destruct Hin as ([a x] & Ea & Hax). cbn in Ea. subst.
        exists x. split; [|exact Hax].
        destruct (I_pub s I _ _ Hax) as (_ & te0 & Hn & _). apply nth_error_Some. rewrite Hn. discriminate.
    - intros l tok o. unfold cur. cbn [s_tr]. rewrite gs_snoc. fold (cur s). cbn.
      intros H. apply nth_app_old. exact (I_transit s I _ _ _ H).
    - intros w t0 e0 H Hwr Hnr. apply nth_app_inv in H. destruct H as [[Hl H]|[-> H]].
      + exact (I_nonrmw s I _ _ _ H Hwr Hnr).
      + inversion H; subst. rewrite (acq_not_plain_write _ _ _ Hwr) in Hnr. discriminate.
  Qed.

  (* the hand-off itself: the take is justified by a synchronizes-with edge from the offerer's publish to the taker's read *)
  Lemma inv_take s j i s' : Inv s -> step p s (ATake j i) = Some s' -> Inv s'.
  Proof.
    intros I H. unfold step in H.
    destruct ((j <? n_take p) && (i <? n_off p) && memn j (map fst (s_acq s)) && in_transit s i j) eqn:G; [|discriminate].
    inversion H; subst; clear H. rewrite !andb_true_iff in G. destruct G as (((G1 & G2) & G3) & G4).
    apply Nat.ltb_lt in G1. apply Nat.ltb_lt in G2. apply memn_In in G3.
    apply in_map_iff in G3. destruct G3 as ([j' y] & Ej & Hacq). cbn in Ej. subst j'.
    unfold in_transit in G4. destruct (cur s i j) as [u|o] eqn:Hc; [discriminate|].
    pose proof (I_transit s I _ _ _ Hc) as Ho.
    destruct (I_acq s I _ _ Hacq) as ((tey & Hy & (my & vy & wy & Ey & Hmy)) & Hall).
    destruct (Hall i G2) as (x & Hxy & Hpub).
    destruct (I_pub s I _ _ Hpub) as (_ & tex & Hx & (mx & vx & wx & Ex & Hmx)).
    pose proof (I_offb s I _ _ _ _ _ Hpub Ho) as Hox.
    assert (Hylen : y < length (s_tr s)) by (apply nth_error_Some; rewrite Hy; discriminate).
    subst tex tey.
    apply inv_snoc; [exact I | | intros ? ? E; discriminate | cbn; discriminate].
    cbn [ev_ok]. rewrite cur_ext. exists o. split; [exact Hc|].
    set (te := (ttid p j, Take i j)).
    exists x, y. split; [|split].
    - split; [exact Hox|]. exists i. unfold thr.
      rewrite (nth_app_old _ te _ _ Ho), (nth_app_old _ te _ _ Hx). split; reflexivity.
    - exists A, x, y, (At_op A (off_kind p) mx vx wx), (At_op A (take_kind p) my vy wy).
      split.
      { left. split; [reflexivity|]. eexists. split; [unfold evt; rewrite (nth_app_old _ te _ _ Hx); reflexivity|].
        cbn. apply off_rel. exact Hmx. }
      split.
      { left. split; [reflexivity|]. eexists. split; [unfold evt; rewrite (nth_app_old _ te _ _ Hy); reflexivity|].
        cbn. apply take_acq. exact Hmy. }
      split; [exact Hxy|].
      split; [unfold evt; rewrite (nth_app_old _ te _ _ Hx); reflexivity|].
      split; [apply pub_writes|].
      split; [unfold evt; rewrite (nth_app_old _ te _ _ Hy); reflexivity|].
      split; [apply acq_reads|].
      intros w e Hw He Hwr.
      destruct (is_rmw e) eqn:R; [reflexivity | exfalso].
      unfold evt in He. rewrite nth_error_app1 in He by lia.
      destruct (nth_error (s_tr s) w) as [[tw ew]|] eqn:Hnw; [|discriminate]. cbn in He. inversion He; subst ew.
      destruct (I_nonrmw s I _ _ _ Hnw Hwr R) as (i0 & Hin0).
      destruct (I_pub s I _ _ Hin0) as (Hi0 & te0 & Hn0 & (m0 & v0 & w0 & E0 & _)).
      rewrite Hnw in Hn0. inversion Hn0 as [Eq]. rewrite E0 in Eq. inversion Eq; subst.
      destruct wf_parts as (_ & _ & Hnl & _ & Hst).
      cbn in R. destruct (off_kind p) eqn:K; [contradiction | | discriminate].
      specialize (Hst eq_refl). assert (i0 = i) by lia. subst i0.
      pose proof (nodup_fst_inj _ _ _ _ (I_nodup s I) Hin0 Hpub). lia.
    - split; [exact Hylen|]. exists (ttid p j). unfold thr.
      rewrite (nth_app_old _ te _ _ Hy), nth_app_new. split; reflexivity.
  Qed.

  Lemma step_inv s a s' : Inv s -> step p s a = Some s' -> Inv s'.
  Proof.
    intros I H. destruct a.
    - eapply inv_access; eassumption.
    - eapply inv_offer; eassumption.
    - eapply inv_publish; eassumption.
    - eapply inv_acquire; eassumption.
    - eapply inv_take; eassumption.
    - eapply inv_other; eassumption.
  Qed.

  Lemma reach_inv s : reach p s -> Inv s.
  Proof. induction 1 as [|s a s' _ IH H]; [exact inv0 | exact (step_inv _ _ _ IH H)]. Qed.

  Theorem skel_disciplined s : reach p s -> disciplined (s_tr s) init_g (n_take p).
  Proof.
    intros R. split; [exact (proj1 (proj2 wf_parts)) | exact (I_disc s (reach_inv s R))].
  Qed.

  Theorem skel_drf s : reach p s -> drf (s_tr s).
  Proof. intros R. exact (own_discipline_implies_drf _ _ _ (skel_disciplined s R)). Qed.
End Skel.

Lemma run_reach p acts : forall s s', reach p s -> run p s acts = Some s' -> reach p s'.
Proof.
  induction acts as [|a acts IH]; cbn; intros s s' R H; [inversion H; subst; exact R|].
  destruct (step p s a) as [s1|] eqn:E; [|discriminate].
  eapply IH; [eapply reach_step; eassumption | exact H].
Qed.

(* ------------------------------------------------------------------------------------------------ protocols as data *)
Lemma forallb_map_site (f : mo -> bool) (l : list String.string) :
  forallb f (map site_mo l) = forallb (fun s => f (site_mo s)) l.
Proof. induction l as [|x l IH]; cbn; [reflexivity | rewrite IH; reflexivity]. Qed.

Lemma handoff_orders_ok h noff ntake : handoff_ok h = true -> orders_ok (proto_of h noff ntake) = true.
Proof.
  unfold handoff_ok, orders_ok, proto_of. cbn [off_mos take_mos]. rewrite !forallb_map_site.
  intros H. rewrite !andb_true_iff in H. destruct H as ((_ & H1) & H2). rewrite H1, H2. reflexivity.
Qed.

Lemma handoff_wf h noff ntake :
  kinds_ok h = true -> noff_ok h noff = true -> 1 <= ntake -> wf_proto (proto_of h noff ntake) = true.
Proof.
  unfold kinds_ok, noff_ok, wf_proto, proto_of. cbn [n_off n_take off_kind take_kind].
  intros K Hn Ht. rewrite !andb_true_iff in *. destruct K as [K1 K2]. destruct Hn as [N1 N2].
  apply Nat.leb_le in Ht. rewrite N1, Ht, K1, K2, N2. repeat split.
Qed.

(* protocol_disciplined: IF the orders at the hand-off's sites are >= Release / >= Acquire in the table extracted from the
   source, THEN every reachable trace of its skeleton is disciplined and therefore free of data races *)
Theorem protocol_disciplined h noff ntake :
  kinds_ok h = true -> handoff_ok h = true -> noff_ok h noff = true -> 1 <= ntake ->
  forall s, reach (proto_of h noff ntake) s ->
    disciplined (s_tr s) init_g ntake /\ drf (s_tr s).
Proof.
  intros K O Hn Ht s R.
  pose proof (handoff_wf h noff ntake K Hn Ht) as WF.
  pose proof (handoff_orders_ok h noff ntake O) as OK.
  split.
  - exact (skel_disciplined _ WF OK s R).
  - exact (skel_drf _ WF OK s R).
Qed.
