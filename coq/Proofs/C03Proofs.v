(* C03: no queued task is ever left in a tier that nobody will poll or drain -- EXCEPT through a placement that uses a
   stale ring / thread count (the finding).  Conservation under resize is C01Proofs.step_conservation. *)
From Coq Require Import ZArith List Bool Lia.
From DV Require Import Model.PoolModel Proofs.PoolProofs.
Import ListNotations.
Local Open Scope Z_scope.

Section C03.
  Variables rcap scap share : Z.
  Local Notation accept := (accept rcap scap share).
  Local Notation accepts := (accepts rcap scap share).
  Local Notation ring_open := (ring_open).
  Local Notation steal_open := (steal_open share).
  Local Notation stale_place := (stale_place share).

  Definition cov_rings (s : state) : Prop := forall j, lget [] j (rings s) <> [] -> ring_open s j = true.
  Definition cov_steals (s : state) : Prop := forall j, lget [] j (steals s) <> [] -> steal_open s j = true.
  Definition cov_central (s : state) : Prop := central s <> [] -> central_open s = true.
  (* the thread count published by a resize is its target *)
  Definition aux (s : state) : Prop :=
    match rz s with
    | RActive _ false n (PhStoredThreads | PhStarted | PhFinalDrained) => numThreads s = n
    | _ => True
    end.
  Definition CovP (s : state) : Prop := cov_rings s /\ cov_steals s /\ cov_central s /\ aux s.

  Lemma lget_pad j (l : list (list id)) n : lget [] j (l ++ repeat [] n) <> [] -> lget [] j l <> [].
  Proof.
    unfold lget. intros H. destruct (Nat.lt_ge_cases j (length l)) as [Hl|Hl].
    - rewrite app_nth1 in H by assumption. exact H.
    - rewrite app_nth2 in H by assumption. exfalso. apply H.
      destruct (Nat.lt_ge_cases (j - length l) n) as [Hn|Hn].
      + apply nth_repeat_lt || (rewrite nth_repeat; reflexivity).
      + apply nth_overflow. rewrite repeat_length. assumption.
  Qed.

  Lemma lget_ne_lt j (l : list (list id)) : lget [] j l <> [] -> (j < length l)%nat.
  Proof. intros H. destruct (Nat.lt_ge_cases j (length l)); [assumption|]. exfalso. apply H. apply lget_beyond. assumption. Qed.

  Lemma cov_rings_lset s s' i q : rings s' = lset [] i q (rings s) -> (forall j, ring_open s' j = ring_open s j) ->
    (q <> [] -> ring_open s i = true) -> cov_rings s -> cov_rings s'.
  Proof.
    intros Hr Ho Hq C j Hj. rewrite Ho. rewrite Hr in Hj. destruct (Nat.eq_dec i j) as [->|Hne].
    - rewrite lget_lset_same in Hj. auto.
    - rewrite lget_lset_other in Hj by assumption. auto.
  Qed.
  Lemma cov_steals_lset s s' i q : steals s' = lset [] i q (steals s) -> (forall j, steal_open s' j = steal_open s j) ->
    (q <> [] -> steal_open s i = true) -> cov_steals s -> cov_steals s'.
  Proof.
    intros Hr Ho Hq C j Hj. rewrite Ho. rewrite Hr in Hj. destruct (Nat.eq_dec i j) as [->|Hne].
    - rewrite lget_lset_same in Hj. auto.
    - rewrite lget_lset_other in Hj by assumption. auto.
  Qed.
  Lemma cov_rings_same s s' : rings s' = rings s -> (forall j, ring_open s' j = ring_open s j) -> cov_rings s -> cov_rings s'.
  Proof. intros Hr Ho C j Hj. rewrite Ho. rewrite Hr in Hj. auto. Qed.
  Lemma cov_steals_same s s' : steals s' = steals s -> (forall j, steal_open s' j = steal_open s j) -> cov_steals s -> cov_steals s'.
  Proof. intros Hr Ho C j Hj. rewrite Ho. rewrite Hr in Hj. auto. Qed.
  Lemma cov_central_upd s s' : central_open s' = central_open s -> (central s' <> [] -> central s <> [] \/ central_open s = true) ->
    cov_central s -> cov_central s'.
  Proof. intros Ho Hc C Hn. rewrite Ho. destruct (Hc Hn); auto. Qed.

  Ltac open_same := intros; unfold PoolModel.ring_open, PoolModel.steal_open, central_open, fut_rings, fut_steal; simp_proj; reflexivity.

  (* events other than those of resizeLocked / ~ThreadPool *)
  Lemma cov_step_plain s tid e s' : is_rz_event e = false -> CovP s -> accept s tid e = Some s' -> stale_place s tid e = 0 -> CovP s'.
  Proof.
    intros Hz (Cr & Cs & Cc & Ax) H F.
    unfold accept in H. set (th := getT s tid) in *.
    destruct (trole th) eqn:Hrole; try discriminate H.
    all: destruct e; try discriminate Hz; cbn [is_rz_event] in H; inv_guards H; subst s'.
    all: unfold PoolModel.stale_place in F; fold th in F; cbn [pc_eqb] in F.
    all: repeat split.
    all: try (unfold aux in *; simp_proj; exact Ax).
    all: try (eapply cov_rings_same; [reflexivity | open_same | exact Cr]).
    all: try (eapply cov_steals_same; [reflexivity | open_same | exact Cs]).
    all: try (eapply cov_central_upd; [open_same | simp_proj; auto | exact Cc]).
    all: try match goal with H : pc_eqb (tpc _) PFellBack = false |- _ => rewrite H in F end.
    all: try match goal with
      | |- cov_rings _ => eapply cov_rings_lset; [reflexivity | open_same | | exact Cr]
      | |- cov_steals _ => eapply cov_steals_lset; [reflexivity | open_same | | exact Cs]
      end.
    all: try match goal with
      | H : lget [] ?i (rings _) = _ :: _ |- _ -> PoolModel.ring_open _ ?i = true => intros _; apply Cr; rewrite H; discriminate
      | H : lget [] ?i (steals _) = _ :: _ |- _ -> PoolModel.steal_open _ _ ?i = true => intros _; apply Cs; rewrite H; discriminate
      | H : take_central _ (central _) _ = Some _ |- _ => intros _; left; intros E; rewrite E in H; discriminate H
      | |- _ -> central ?s0 <> [] \/ central_open ?s0 = true => intros _; destruct (central_open s0); [right; reflexivity | discriminate F]
      | |- _ -> PoolModel.ring_open ?s0 ?i = true => destruct (PoolModel.ring_open s0 i) eqn:Ho; [intros; reflexivity|]
      | |- _ -> PoolModel.steal_open _ ?s0 ?i = true => destruct (PoolModel.steal_open share s0 i); [intros; reflexivity | discriminate F]
      end.
    all: try discriminate F.
    all: destruct (0 <? k) eqn:Hk; [discriminate F|]; apply Z.ltb_ge in Hk.
    all: replace (Z.to_nat k) with 0%nat by lia; cbn [firstn]; rewrite app_nil_r; intros Hne; rewrite <- Ho; apply Cr; exact Hne.
  Qed.


  Ltac unfold_open :=
    unfold CovP, cov_rings, cov_steals, cov_central, aux, PoolModel.ring_open, PoolModel.steal_open, central_open, fut_rings, fut_steal in *.

  Lemma cov_step_rz s tid e s' : is_rz_event e = true -> CovP s -> accept s tid e = Some s' -> CovP s'.
  Proof.
    intros Hz (Cr & Cs & Cc & Ax) H.
    unfold accept in H. set (th := getT s tid) in *.
    destruct (trole th) eqn:Hrole; try discriminate H.
    all: destruct e; try discriminate Hz; cbn [is_rz_event] in H; unfold accept_rz in H; fold th in H; inv_guards H; subst s'.
    all: unfold_open; simp_proj;
         repeat match goal with H : rz _ = _ |- _ => rewrite H in *; clear H end;
         cbn [pre_drain ring_drain_pending steal_drain_pending before_store_rings before_store_steal orb andb] in *.
    all: repeat split.
    all: try assumption.
    all: try (intros j Hj; specialize (Cr j Hj); assumption).
    all: try (intros j Hj; specialize (Cs j Hj); assumption).
    all: try reflexivity.
    all: try (intros j Hj; pose proof (lget_ne_lt _ _ Hj) as Hlt).
    all: try match goal with Hj : lget [] ?j (lset [] ?i ?q ?l) <> [] |- _ =>
           destruct (Nat.eq_dec i j) as [<-|Hne]; [rewrite lget_lset_same in Hj | rewrite lget_lset_other in Hj by assumption] end.
    all: try match goal with Hj : lget [] ?j (?l ++ repeat [] ?n) <> [] |- _ => apply lget_pad in Hj end.
    all: try match goal with Hj : lget [] ?j (rings _) <> [] |- _ => pose proof (lget_ne_lt _ _ Hj); pose proof (Cr j Hj) end.
    all: try match goal with Hj : lget [] ?j (steals _) <> [] |- _ => pose proof (lget_ne_lt _ _ Hj); pose proof (Cs j Hj) end.
    all: try match goal with H : lget [] ?i (rings _) = _ :: _ |- _ => assert (lget [] i (rings s) <> []) as Hi by (rewrite H; discriminate); pose proof (lget_ne_lt _ _ Hi); pose proof (Cr i Hi) end.
    all: try match goal with H : lget [] ?i (steals _) = _ :: _ |- _ => assert (lget [] i (steals s) <> []) as Hi by (rewrite H; discriminate); pose proof (lget_ne_lt _ _ Hi); pose proof (Cs i Hi) end.
    all: unfold after_ring, after_steal in *; unfold ring_phase in *; unfold steal_phase in *.
    all: repeat match goal with
         | |- context[if ?b then _ else _] => destruct b eqn:?
         | H : context[if ?b then _ else _] |- _ => destruct b eqn:?
         end.
    all: cbn [pre_drain ring_drain_pending steal_drain_pending before_store_rings before_store_steal orb andb] in *.
    all: bool_hyps.
    all: repeat match goal with H : _ || _ = true |- _ => apply orb_true_iff in H end.
    all: rewrite ?orb_true_iff, ?Z.ltb_lt, ?Nat.leb_le in *.
    all: try match goal with H3 : lget [] ?i0 ?l = [], Hj : lget [] ?j ?l <> [] |- _ => assert (j <> i0) by (intros ->; contradiction) end.
    all: try tauto.
    all: try lia.
    all: try congruence.
    all: subst; unfold steal_count in *; cbn [Z.leb Z.compare] in *.
    all: repeat match goal with H : _ \/ _ |- _ => destruct H end; try discriminate; try lia.
    all: intros Hc; destruct (Cc Hc) as [?|?]; [assumption | discriminate].
  Qed.

  Lemma cov_step s tid e s' : CovP s -> accept s tid e = Some s' -> stale_place s tid e = 0 -> CovP s'.
  Proof.
    intros C H F. destruct (is_rz_event e) eqn:Hz; [eapply cov_step_rz | eapply cov_step_plain]; eauto.
  Qed.

  (* traces in which no placement goes into a closed tier (= outside the finding's domain) *)
  Fixpoint accepts_fresh (s : state) (tr : list (nat * event)) : option state :=
    match tr with
    | [] => Some s
    | (t, e) :: r => if stale_place s t e =? 0 then match accept s t e with Some s' => accepts_fresh s' r | None => None end else None
    end.

  Lemma accepts_fresh_accepts tr : forall s s', accepts_fresh s tr = Some s' -> accepts s tr = Some s'.
  Proof.
    induction tr as [|[t e] r IH]; cbn [accepts_fresh PoolModel.accepts]; intros s s' H; [exact H|].
    destruct (stale_place s t e =? 0); [|discriminate]. destruct (accept s t e); [auto | discriminate].
  Qed.

  (* the judge's [run_trace] computes exactly this *)
  Lemma run_trace_fresh tr : forall s k s' k',
    run_trace rcap scap share s tr k 0 = (s', k', true, 0) -> accepts_fresh s tr = Some s'.
  Proof.
    induction tr as [|[t e] r IH]; cbn [run_trace accepts_fresh]; intros s k s' k' H; [injection H as <- _; reflexivity|].
    destruct (accept s t e) as [s1|] eqn:E; [|discriminate].
    change (0 =? 0) with true in H. cbv iota in H.
    destruct (stale_place s t e =? 0) eqn:F.
    - apply Z.eqb_eq in F. rewrite F in H. eapply IH. exact H.
    - exfalso. apply Z.eqb_neq in F. clear IH. revert H. generalize (stale_place s t e) F. intros z Hz. revert s1 E k.
      assert (forall tr s1 k z, z <> 0 -> run_trace rcap scap share s1 tr k z <> (s', k', true, 0)) as Hn.
      { clear. induction tr as [|[t e] r IH]; cbn [run_trace]; intros s1 k z Hz H.
        - injection H as _ _ ->. contradiction.
        - destruct (accept s1 t e); [|discriminate]. destruct (z =? 0) eqn:Ez; [apply Z.eqb_eq in Ez; contradiction|]. eapply IH; eauto. }
      intros s1 _ k H. eapply Hn; eauto.
  Qed.

  Lemma CovP_init n0 : CovP (init share n0).
  Proof.
    unfold CovP, cov_rings, cov_steals, cov_central, aux, init. cbn. repeat split; try contradiction.
    - intros j H. exfalso. apply H. unfold lget. destruct (Nat.lt_ge_cases j (Z.to_nat n0)).
      + apply nth_repeat_lt || (rewrite nth_repeat; reflexivity).
      + apply nth_overflow. rewrite repeat_length. assumption.
    - intros j H. exfalso. apply H. unfold lget. destruct (Nat.lt_ge_cases j (Z.to_nat (steal_count share n0))).
      + apply nth_repeat_lt || (rewrite nth_repeat; reflexivity).
      + apply nth_overflow. rewrite repeat_length. assumption.
  Qed.

  Lemma CovP_fresh tr : forall s s', CovP s -> accepts_fresh s tr = Some s' -> CovP s'.
  Proof.
    induction tr as [|[t e] r IH]; cbn [accepts_fresh]; intros s s' C H; [injection H as <-; exact C|].
    destruct (stale_place s t e =? 0) eqn:F; [|discriminate]. apply Z.eqb_eq in F.
    destruct (accept s t e) as [s1|] eqn:E; [|discriminate]. eapply IH; [|exact H]. eapply cov_step; eauto.
  Qed.

  (* what "stranded" means when no resize / destructor is in progress *)
  Definition strand_free (s : state) : Prop :=
    rz s = RIdle ->
    (forall j, lget [] j (rings s) <> [] -> Z.of_nat j < numRings s) /\
    (forall j, lget [] j (steals s) <> [] -> Z.of_nat j < numSteal s) /\
    (central s <> [] -> 0 < numThreads s).

  Lemma CovP_strand_free s : CovP s -> strand_free s.
  Proof.
    intros (Cr & Cs & Cc & _) Hi.
    unfold cov_rings, cov_steals, cov_central, PoolModel.ring_open, PoolModel.steal_open, central_open, fut_rings, fut_steal in *.
    rewrite Hi in *. repeat split.
    - intros j Hj. specialize (Cr j Hj). rewrite orb_false_r in Cr. apply Z.ltb_lt. exact Cr.
    - intros j Hj. specialize (Cs j Hj). rewrite orb_false_r in Cs. apply Z.ltb_lt. exact Cs.
    - intros Hc. apply Z.ltb_lt. auto.
  Qed.

  (* C03 no_strand on the complement of the finding's domain, for all accepted event sequences without a stale placement:
     every queued task is in a tier that will still be polled or drained; in particular nothing is stranded when no
     resize / destructor is in progress *)
  Theorem no_strand_except n0 tr s : accepts_fresh (init share n0) tr = Some s -> CovP s /\ strand_free s.
  Proof. intros H. pose proof (CovP_fresh _ _ _ (CovP_init n0) H). split; [assumption | apply CovP_strand_free; assumption]. Qed.

  (* every resize / destructor event preserves coverage (a resize by itself never strands queued work) *)
  Theorem resize_never_strands s tid e s' : is_rz_event e = true -> CovP s -> accept s tid e = Some s' -> CovP s'.
  Proof. exact (cov_step_rz s tid e s'). Qed.
End C03.

(* ---------- the faithful model violates no_strand: witnesses = event traces of the REAL code (props/pool_common.py WITNESSES[1], [2]) ---------- *)
(* producer 0 (TaskSet::scheduleBulk(4), ring fast path) has loaded ringCount = 4; producer 1 runs resize(2) to completion;
   producer 0 then pushes tasks 0..3 into rings 0..3; the two new workers run tasks 0 and 1; tasks 2 and 3 stay in rings 2 and 3 *)
Definition c03_witness_ring : list (nat * event) :=
  [(2%nat,EWorkerBegin 0); (3%nat,EWorkerBegin 1); (4%nat,EWorkerBegin 2); (5%nat,EWorkerBegin 3); (0%nat,EAdd 4 3); (0%nat,ELoadNumRings 4 4);
   (1%nat,EResizeBegin 2); (1%nat,EStopAll); (1%nat,EWakeAll); (1%nat,ECentralDone 0); (1%nat,EJoinBegin); (2%nat,EWorkerEnd 0); (3%nat,EWorkerEnd 1);
   (4%nat,EWorkerEnd 2); (5%nat,EWorkerEnd 3); (1%nat,EJoinDone); (1%nat,ERingDone 0); (1%nat,ERingDone 1); (1%nat,ERingDone 2); (1%nat,ERingDone 3);
   (1%nat,EStealDone 0); (1%nat,EStoreNumRings 2); (1%nat,EStoreNumSteal 1); (1%nat,EStoreNumThreads 2); (6%nat,EWorkerBegin 0); (1%nat,EThreadsStarted 2);
   (7%nat,EWorkerBegin 1); (1%nat,EResizeEnd); (0%nat,EGen 0); (0%nat,ERingPushEnd 0); (0%nat,EGen 1); (0%nat,ERingPushEnd 1); (0%nat,EGen 2);
   (0%nat,ERingPushEnd 2); (0%nat,EGen 3); (0%nat,ERingPushEnd 3); (6%nat,EPopRing (-1) 0 0); (6%nat,EBodyBegin 0); (6%nat,EBodyEnd 0); (6%nat,ESub 1 3);
   (7%nat,EPopRing (-1) 1 0); (7%nat,EBodyBegin 1); (7%nat,EBodyEnd 1); (7%nat,ESub 1 3)].

Lemma c03_refuted_ring :
  exists s, accepts 16 32 8 (init 8 4) c03_witness_ring = Some s /\ rz s = RIdle /\ numRings s = 2 /\ numThreads s = 2 /\
            lget [] 2 (rings s) = [2] /\ lget [] 3 (rings s) = [3] /\ covered 8 s = false /\
            forallb idle_thread (threads s) = true.
Proof. eexists. vm_compute. repeat split. Qed.

(* second witness: producer 0 has read numThreads_ != 0 in forceEnqueue and added 1; producer 1 runs resize(0) to completion (its final
   central drain finds nothing); producer 0 then enqueues: the task sits in the central queue of a pool without threads *)
Definition c03_witness_central : list (nat * event) :=
  [(2%nat,EWorkerBegin 0); (3%nat,EWorkerBegin 1); (0%nat,EGen 0); (0%nat,ELoadNumThreads true 1); (0%nat,EAdd 1 1); (1%nat,EResizeBegin 0);
   (1%nat,EStopAll); (1%nat,EWakeAll); (1%nat,ECentralDone 0); (1%nat,EJoinBegin); (2%nat,EWorkerEnd 0); (3%nat,EWorkerEnd 1); (1%nat,EJoinDone);
   (1%nat,ERingDone 0); (1%nat,ERingDone 1); (1%nat,EStealDone 0); (1%nat,EStoreNumSteal 0); (1%nat,EStoreNumThreads 0); (1%nat,EThreadsStarted 0);
   (1%nat,ECentralDone 1); (1%nat,EResizeEnd); (0%nat,EEnqCentral 0 1)].

Lemma c03_refuted_central :
  exists s, accepts 16 32 8 (init 8 2) c03_witness_central = Some s /\ rz s = RIdle /\ numThreads s = 0 /\ nworkers s = 0 /\
            central s = [(0, 0)] /\ covered 8 s = false /\ forallb idle_thread (threads s) = true.
Proof. eexists. vm_compute. repeat split. Qed.
