(* C16 -- parallel_invoke runs each functor exactly once: proofs over Model/InvokeModel.v. *)
From Coq Require Import ZArith List Bool Lia.
From DV Require Import Model.InvokeModel.
Import ListNotations.
Local Open Scope Z_scope.

Lemma tree_ind' (P : tree -> Prop) : (forall kids, Forall P kids -> P (Node kids)) -> forall t, P t.
Proof.
  intros H. fix IH 1. intros [kids]. apply H.
  induction kids as [|k r IHr]; constructor; [apply IH|exact IHr].
Qed.

(* ---- the runs are exactly the functors of the program, in order ---- *)
Lemma exec_below_paths z w : forall t p d, map r_path (exec_below z w p d t) = paths_below p t.
Proof.
  induction t as [kids IH] using tree_ind'. intros p d. simpl.
  generalize 0%nat as i. induction kids as [|k r IHr]; intros i; [reflexivity|].
  inversion IH as [|? ? Hk Hr]; subst. specialize (IHr Hr).
  cbn [kids_runs kids_paths]. destruct r as [|k' r'].
  - cbn [map]. rewrite Hk. cbn [kids_paths]. rewrite app_nil_r. reflexivity.
  - rewrite map_app, IHr. f_equal.
    destruct (w (i :: p) && (d <? kMaxInlineDepth)); [|destruct z]; cbn [map r_path]; rewrite Hk; reflexivity.
Qed.

Lemma exec_paths z w t : map r_path (exec z w t) = all_paths t.
Proof. unfold exec, all_paths. cbn [map r_path]. rewrite exec_below_paths. reflexivity. Qed.

Lemma nodup_app {A} (l1 l2 : list A) :
  NoDup l1 -> NoDup l2 -> (forall x, In x l1 -> In x l2 -> False) -> NoDup (l1 ++ l2).
Proof.
  induction l1 as [|a l1 IH]; simpl; intros H1 H2 Hd; [assumption|].
  inversion H1; subst. constructor.
  - rewrite in_app_iff. intros [H|H]; [contradiction|]. eapply Hd; [left; reflexivity|exact H].
  - apply IH; [assumption|assumption|]. intros x Hx. apply Hd. right. assumption.
Qed.

(* ---- functor paths are pairwise different ---- *)
Lemma kids_paths_suffix : forall ks p i q,
  Forall (fun t => forall p q, In q (paths_below p t) -> exists pre, pre <> [] /\ q = pre ++ p) ks ->
  In q (kids_paths paths_below p ks i) -> exists j pre, (i <= j)%nat /\ q = pre ++ j :: p.
Proof.
  induction ks as [|k r IHr]; intros p i q HF Hin; [contradiction|].
  inversion HF as [|? ? Hk Hr]; subst. cbn [kids_paths] in Hin. rewrite in_app_iff in Hin.
  destruct Hin as [[<-|Hin]|Hin].
  - exists i, []. split; [lia|reflexivity].
  - apply Hk in Hin. destruct Hin as (pre & _ & ->). exists i, pre. split; [lia|reflexivity].
  - apply (IHr p (S i) q Hr) in Hin. destruct Hin as (j & pre & Hj & ->). exists j, pre. split; [lia|reflexivity].
Qed.

Lemma paths_below_suffix : forall t p q, In q (paths_below p t) -> exists pre, pre <> [] /\ q = pre ++ p.
Proof.
  induction t as [kids IH] using tree_ind'. intros p q Hin. simpl in Hin.
  apply (kids_paths_suffix kids p 0%nat q IH) in Hin. destruct Hin as (j & pre & _ & ->).
  exists (pre ++ [j]). split.
  - intro E. apply app_eq_nil in E. destruct E as (_ & E). discriminate.
  - rewrite <- app_assoc. reflexivity.
Qed.

Lemma suffix_pos_inj (pre pre' : path) (j j' : nat) (p : path) : pre ++ j :: p = pre' ++ j' :: p -> j = j'.
Proof.
  intros E. change (j :: p) with ([j] ++ p) in E. change (j' :: p) with ([j'] ++ p) in E.
  rewrite !app_assoc in E. apply app_inv_tail in E. apply app_inj_tail in E. tauto.
Qed.

Lemma paths_below_nodup : forall t p, NoDup (paths_below p t).
Proof.
  induction t as [kids IH] using tree_ind'. intros p. simpl.
  assert (HS : Forall (fun t => forall p q, In q (paths_below p t) -> exists pre, pre <> [] /\ q = pre ++ p) kids).
  { apply Forall_forall. intros t _. apply paths_below_suffix. }
  generalize 0%nat as i. induction kids as [|k r IHr]; intros i; [constructor|].
  inversion IH as [|? ? Hk Hr]; subst. inversion HS as [|? ? Sk Sr]; subst.
  cbn [kids_paths]. apply nodup_app.
  - constructor; [|apply Hk].
    intro Hin. apply Sk in Hin. destruct Hin as (pre & Hne & E).
    apply (f_equal (@length nat)) in E. rewrite app_length in E. destruct pre; [congruence|simpl in E; lia].
  - apply IHr; assumption.
  - intros q H1 H2.
    apply (kids_paths_suffix r p (S i) q Sr) in H2. destruct H2 as (j & pre & Hj & ->).
    destruct H1 as [E|H1].
    + change (i :: p) with ([] ++ i :: p) in E. apply suffix_pos_inj in E. lia.
    + apply Sk in H1. destruct H1 as (pre' & _ & E). apply suffix_pos_inj in E. lia.
Qed.

Lemma all_paths_nodup t : NoDup (all_paths t).
Proof.
  unfold all_paths. constructor; [|apply paths_below_nodup].
  intro Hin. apply paths_below_suffix in Hin. destruct Hin as (pre & Hne & E).
  rewrite app_nil_r in E. congruence.
Qed.

Definition path_eq_dec : forall a b : path, {a = b} + {a <> b} := list_eq_dec Nat.eq_dec.

(* each functor of the program runs exactly once, whatever the load tests decide and whatever the pool size *)
Lemma C16_each_once_proof : forall z w t q,
  count_occ path_eq_dec (map r_path (exec z w t)) q = if in_dec path_eq_dec q (all_paths t) then 1%nat else 0%nat.
Proof.
  intros z w t q. rewrite exec_paths. destruct (in_dec path_eq_dec q (all_paths t)) as [Hin|Hnin].
  - apply NoDup_count_occ'; [apply all_paths_nodup|exact Hin].
  - apply count_occ_not_In. exact Hnin.
Qed.

Lemma paths_below_length : forall t p, S (length (paths_below p t)) = size t.
Proof.
  induction t as [kids IH] using tree_ind'. intros p. simpl. f_equal.
  generalize 0%nat as i. induction kids as [|k r IHr]; intros i; [reflexivity|].
  inversion IH as [|? ? Hk Hr]; subst. cbn [kids_paths map list_sum]. rewrite app_length. cbn [length].
  rewrite (IHr Hr), Hk. reflexivity.
Qed.

Lemma C16_run_count_proof : forall z w t, length (exec z w t) = size t.
Proof.
  intros z w t. rewrite <- (map_length r_path), exec_paths. unfold all_paths. cbn [length]. apply paths_below_length.
Qed.

(* ---- where and how deep each functor runs ---- *)
Definition run_ok (z : bool) (r : run) : Prop :=
  0 <= r_depth r <= kMaxInlineDepth /\
  (r_how r = HLast -> r_oncaller r = true) /\
  (r_how r = HInline -> 1 <= r_depth r /\ r_oncaller r = true) /\
  (r_oncaller r = false -> r_how r = HQueued /\ r_depth r = 0 /\ z = false) /\
  r_how r <> HRoot.

Lemma exec_below_ok z w : forall t p d, 0 <= d <= kMaxInlineDepth -> Forall (run_ok z) (exec_below z w p d t).
Proof.
  induction t as [kids IH] using tree_ind'. intros p d Hd. simpl.
  generalize 0%nat as i. induction kids as [|k r IHr]; intros i; [constructor|].
  inversion IH as [|? ? Hk Hr]; subst. specialize (IHr Hr).
  cbn [kids_runs]. destruct r as [|k' r'].
  - constructor; [|apply Hk; exact Hd]. unfold run_ok; simpl. repeat split; try congruence; try lia; intros; discriminate.
  - apply Forall_app. split; [|apply IHr].
    destruct (w (i :: p) && (d <? kMaxInlineDepth)) eqn:E; [|destruct z eqn:Z].
    + apply andb_true_iff in E. destruct E as (_ & E). apply Z.ltb_lt in E.
      constructor; [|apply Hk; lia]. unfold run_ok; simpl. repeat split; try congruence; try lia; intros; discriminate.
    + constructor; [|apply Hk; exact Hd]. unfold run_ok; simpl. repeat split; try congruence; try lia; intros; discriminate.
    + constructor; [|apply Hk; unfold kMaxInlineDepth; lia]. unfold run_ok, kMaxInlineDepth; simpl.
      repeat split; try congruence; try lia; intros; discriminate.
Qed.

Lemma C16_runs_ok_proof : forall z w t r, In r (exec z w t) ->
  0 <= r_depth r <= kMaxInlineDepth /\
  (r_how r = HLast -> r_oncaller r = true) /\
  (r_how r = HInline -> 1 <= r_depth r /\ r_oncaller r = true) /\
  (r_oncaller r = false -> r_how r = HQueued /\ r_depth r = 0 /\ z = false).
Proof.
  intros z w t r [<-|Hin].
  - simpl. unfold kMaxInlineDepth. repeat split; try lia; intros; discriminate.
  - pose proof (exec_below_ok z w t [] 0 ltac:(unfold kMaxInlineDepth; lia)) as F.
    rewrite Forall_forall in F. destruct (F r Hin) as (A & B & C & D & _). auto.
Qed.

(* one call parallel_invoke(tasks, f_0 .. f_{n-1}) made at inline depth d by the functor at path p:
   the last functor runs directly: on the calling thread, at the caller's depth, and it is the LAST thing the call
   does (its run and everything below it are the final segment of the runs of the call) *)
Lemma C16_last_direct_proof : forall z w p d kids k, 
  exists before,
    exec_below z w p d (Node (kids ++ [k])) =
    before ++ RUN (length kids :: p) HLast d true :: exec_below z w (length kids :: p) d k /\
    Forall (fun r => r_how r <> HLast \/ exists q, q <> [] /\ r_path r = q ++ p /\ length q <> 1%nat) before.
Proof.
  intros z w p d kids k. simpl.
  assert (G : forall i, exists before,
    kids_runs z w (exec_below z w) p d (kids ++ [k]) i =
    before ++ RUN ((i + length kids)%nat :: p) HLast d true :: exec_below z w ((i + length kids)%nat :: p) d k /\
    Forall (fun r => r_how r <> HLast \/ exists q, q <> [] /\ r_path r = q ++ p /\ length q <> 1%nat) before).
  { induction kids as [|k0 r IHr]; intros i.
    - exists []. simpl. rewrite Nat.add_0_r. split; [reflexivity|constructor].
    - destruct (IHr (S i)) as (b & E & F).
      cbn [app kids_runs]. destruct (r ++ [k]) as [|x y] eqn:R; [destruct r; discriminate|].
      rewrite E. simpl length. replace (i + S (length r))%nat with (S i + length r)%nat by lia.
      eexists. rewrite app_assoc. split; [reflexivity|]. apply Forall_app. split; [|exact F].
      assert (B : forall d' h, h <> HLast ->
                Forall (fun r0 => r_how r0 <> HLast \/ exists q, q <> [] /\ r_path r0 = q ++ p /\ length q <> 1%nat)
                       (RUN (i :: p) h d' (match h with HQueued => false | _ => true end) :: exec_below z w (i :: p) d' k0)).
      { intros d' h Hh. constructor; [left; exact Hh|]. apply Forall_forall. intros r0 Hr0. right.
        assert (Hp : In (r_path r0) (paths_below (i :: p) k0)).
        { rewrite <- (exec_below_paths z w k0 (i :: p) d'). apply in_map. exact Hr0. }
        apply paths_below_suffix in Hp. destruct Hp as (pre & Hne & Ep).
        exists (pre ++ [i]). split; [|split].
        - intro X. apply app_eq_nil in X. destruct X as (_ & X). discriminate.
        - rewrite Ep, <- app_assoc. reflexivity.
        - rewrite app_length. simpl. destruct pre; [congruence|simpl; lia]. }
      destruct (w (i :: p) && (d <? kMaxInlineDepth)); [|destruct z].
      + apply (B (d + 1) HInline). discriminate.
      + apply (B d HPoolNow). discriminate.
      + apply (B 0 HQueued). discriminate. }
  destruct (G 0%nat) as (b & E & F). exists b. split; [exact E|exact F].
Qed.

(* ---- the inline -> queue switch at kMaxInlineDepth ---- *)
(* a schedule() call made at inline depth d for which the load test says "inline": *)
Lemma C16_gate_proof : forall z w p d k k' r,
  w (0%nat :: p) = true ->
  exists rest,
    exec_below z w p d (Node (k :: k' :: r)) =
    (if d <? kMaxInlineDepth then RUN (0%nat :: p) HInline (d + 1) true :: exec_below z w (0%nat :: p) (d + 1) k
     else if z then RUN (0%nat :: p) HPoolNow d true :: exec_below z w (0%nat :: p) d k
     else RUN (0%nat :: p) HQueued 0 false :: exec_below z w (0%nat :: p) 0 k) ++ rest.
Proof.
  intros z w p d k k' r Hw. simpl. rewrite Hw. simpl. eexists. reflexivity.
Qed.

(* permanently overloaded set (every load test says "inline"), pool with threads, left comb of 40 levels:
   levels 1..32 run inline at depths 1..32, level 33 is queued (depth 0) -- not dropped, not inlined deeper *)
Lemma C16_cap_switch_proof :
  let runs := exec false (fun _ => true) (comb_l 40) in
  let spine := filter (fun r => forallb (Nat.eqb 0) (r_path r)) runs in
  map (fun r => (how_code (r_how r), r_depth r)) (firstn 35 spine) =
  (-1, 0) :: map (fun i => (0, Z.of_nat i)) (seq 1 32) ++ [(2, 0); (0, 1)]
  /\ length runs = size (comb_l 40).
Proof. vm_compute. split; reflexivity. Qed.
